import MdsVerif.Proofs.Cursor
import MdsVerif.Model.Omap
import MdsVerif.Spec.AssocRef
import MdsVerif.Spec.CursorRef
/-!
# `omap.Map` refines the sorted association list (helper lemmas for C04)

Facts about the C01 tree model that C04 needs come in two kinds:

* small ones proved here: `getC_spec` (lookup), `inorderF_collect_none` (from `Proofs/Cursor`),
  `remove_false_id` (a failed removal returns the very same tree), `after1_spec` (the first
  key `InorderAfter` yields), `walk_spec` (iterating `Next` from `First` lists the map);
* the two big ones — `Replace` and `Remove` realise sorted-list insertion/removal and keep the tree
  a search tree with a correct `size` (they go through the scapegoat rebuild) — are the
  subject of C01 and enter as the hypothesis structure `TreeFacts`, to be discharged by
  C01's `insert_spec` / `remove_spec`.
-/
namespace MdsVerif.Proofs.Omap
open MdsVerif.Model MdsVerif.Model.Stree MdsVerif.Model.Cursor MdsVerif.Proofs.Cursor MdsVerif.Spec

variable {α : Type}

/-- `NewFunc` with the regenerated balance factor (`Gen.Omap.balance`) written out -/
theorem newFunc_def {K V : Type} : (Omap.newFunc : Omap.Map K V) = some (T.empty 250) := rfl

/-- well-formed tree object: a search tree whose cached size is right -/
def TWF (c : α → α → Ordering) (t : T α) : Prop :=
  Ordered c t.root ∧ t.size = t.root.toList.length

/-- what C04 needs from C01: `Replace`/`Remove` never panic on a well-formed tree, keep it
well-formed, and act on the in-order key list as sorted-list insertion (replacing an equivalent
key) / removal, reporting "was absent" / "was present". -/
structure TreeFacts (c : α → α → Ordering) : Prop where
  replace : ∀ (t : T α) (k : α), TWF c t →
    ∃ t', t.replace c k = some (t', (CursorRef.insertKey c true k t.root.toList).2) ∧ TWF c t' ∧
      t'.root.toList = (CursorRef.insertKey c true k t.root.toList).1
  remove : ∀ (t : T α) (k : α), TWF c t →
    ∃ t', t.remove c k = some (t', (CursorRef.removeKey c k t.root.toList).2) ∧ TWF c t' ∧
      t'.root.toList = (CursorRef.removeKey c k t.root.toList).1

theorem size_eq_length (t : Tree α) : t.size = t.toList.length := by
  induction t with
  | nil => rfl
  | node l x r ihl ihr => simp [Tree.size, Tree.toList, ihl, ihr]; omega

/-! ## lookup -/

theorem getC_spec (c : α → α → Ordering) [Std.TransCmp c] (k : α) (t : Tree α) (ho : Ordered c t) :
    (getC c k t).1 = t.toList.find? (fun y => c k y == .eq) := by
  induction t with
  | nil => rfl
  | node l x r ihl ihr =>
    obtain ⟨hl, hr, hlx, hxr, _⟩ := Ordered.node_iff.mp ho
    simp only [getC, Tree.toList, List.find?_append, List.find?_cons]
    cases hc : c k x with
    | lt =>
      have hr' : r.toList.find? (fun y => c k y == .eq) = none := by
        rw [List.find?_eq_none]; intro y hy
        rw [Std.TransCmp.lt_trans hc (hxr y hy)]; simp
      simp [ihl hl, hr']
    | gt =>
      have hl' : l.toList.find? (fun y => c k y == .eq) = none := by
        rw [List.find?_eq_none]; intro y hy
        have h1 : c x k = .lt := Std.OrientedCmp.lt_of_gt hc
        have h2 : c y k = .lt := Std.TransCmp.lt_trans (hlx y hy) h1
        rw [Std.OrientedCmp.gt_of_lt h2]; simp
      simp [ihr hr, hl']
    | eq =>
      have hl' : l.toList.find? (fun y => c k y == .eq) = none := by
        rw [List.find?_eq_none]; intro y hy
        have h2 : c y k = .lt := Std.TransCmp.lt_of_lt_of_eq (hlx y hy) (Std.OrientedCmp.eq_symm hc)
        rw [Std.OrientedCmp.gt_of_lt h2]; simp
      simp [hl']

/-! ## a failed removal changes nothing -/

theorem remove_false_id (c : α → α → Ordering) (k : α) (t : Tree α) (h : (Stree.remove c k t).2 = false) :
    (Stree.remove c k t).1 = t := by
  induction t with
  | nil => rfl
  | node l x r ihl ihr =>
    simp only [Stree.remove] at h ⊢
    cases hc : c k x with
    | lt => rw [hc] at h; simp only at h ⊢; rw [ihl h]
    | gt => rw [hc] at h; simp only at h ⊢; rw [ihr h]
    | eq =>
      rw [hc] at h
      simp only at h
      cases l <;> cases r <;> simp at h

/-! ## iterating `Next` -/

theorem walk_none {K V : Type} (f : Nat) : Omap.walk f (none : Cursor (K × V)) = [] := by
  cases f <;> simp [Omap.walk, key?]

theorem walk_spec {K V : Type} (f : Nat) (p : Pos (K × V)) (hw : p.WF) (x : K × V) (hx : key? (some p) = some x)
    (hf : p.after.length < f) : Omap.walk f (some p) = x :: p.after := by
  induction f generalizing p x with
  | zero => omega
  | succ f ih =>
    obtain ⟨l, x', r, h⟩ := isNil_eq_false.mp hw
    have := key?_some h
    rw [hx] at this; cases this
    simp only [Omap.walk, hx, valid, Option.isSome_some, ↓reduceIte]
    rcases next_spec p l r x h with ⟨ha, hn⟩ | ⟨p', y, hn, hw', _, hy, ha, _⟩
    · rw [hn, walk_none, ha]
    · rw [hn, ih p' hw' y hy (by rw [ha] at hf; simpa using hf), ha]

/-! ## `First`, `Last` -/

theorem first_spec (root : Tree α) :
    (root = .nil ∧ Cursor.min (ofRoot root) = none) ∨
    (∃ p, Cursor.min (ofRoot root) = some p ∧ p.WF ∧ p.root = root ∧ p.before = []) := by
  cases root with
  | nil => exact Or.inl ⟨rfl, rfl⟩
  | node l x r =>
    right
    obtain ⟨y, r', h1, h2, _⟩ := spineL_spec l x r
    refine ⟨{ root := .node l x r, dirs := [] ++ spineL (.node l x r) }, rfl, ?_, rfl, ?_⟩
    · show isNil (sub _ _) = false
      simp only [List.nil_append]; rw [h1]; rfl
    · simp only [Pos.before, Pos.cur, List.nil_append, h1, h2, left, Tree.toList, List.append_nil]

theorem last_spec (root : Tree α) :
    (root = .nil ∧ Cursor.max (ofRoot root) = none) ∨
    (∃ p, Cursor.max (ofRoot root) = some p ∧ p.WF ∧ p.root = root ∧ p.after = []) := by
  cases root with
  | nil => exact Or.inl ⟨rfl, rfl⟩
  | node l x r =>
    right
    obtain ⟨y, l', h1, h2, _⟩ := spineR_spec l x r
    refine ⟨{ root := .node l x r, dirs := [] ++ spineR (.node l x r) }, rfl, ?_, rfl, ?_⟩
    · show isNil (sub _ _) = false
      simp only [List.nil_append]; rw [h1]; rfl
    · simp only [Pos.after, Pos.cur, List.nil_append, h1, h2, right, Tree.toList, List.append_nil]

/-- the cursor's key is the element of the key list at index `|before|` -/
theorem key_at (p : Pos α) (hw : p.WF) :
    key? (some p) = p.root.toList[p.before.length]? ∧ p.root.toList.length = p.before.length + 1 + p.after.length := by
  obtain ⟨l, x, r, h⟩ := isNil_eq_false.mp hw
  rw [key?_some h, Pos.zipper p h]
  simp; omega

/-! ## the first key of `InorderAfter` -/

/-- a consumer that stops at once sees only the first key of an in-order walk -/
theorem inorderF_stop {σ : Type} (f : Yield σ α) (hf : ∀ s x, (f s x).2 = false) (t : Tree α) (s : σ) :
    Stree.inorderF f t s = match t.toList with
      | [] => (s, true)
      | y :: _ => ((f s y).1, false) := by
  induction t generalizing s with
  | nil => rfl
  | node l x r ihl _ =>
    simp only [Stree.inorderF, ihl, Tree.toList]
    cases hl : l.toList with
    | nil => simp [hf]
    | cons y ys => simp

theorem afterLoop_stop {σ : Type} (c : α → α → Ordering) [Std.TransCmp c] (f : Yield σ α)
    (hf : ∀ s x, (f s x).2 = false) (key : α) (t : Tree α) (ho : Ordered c t) (s : σ) :
    afterLoop c f key (pathTo c key t) s = match t.toList.dropWhile (fun y => c y key == .lt) with
      | [] => (s, true)
      | y :: _ => ((f s y).1, false) := by
  induction t generalizing s with
  | nil => rfl
  | node l x r ihl ihr =>
    obtain ⟨hl, hr, hlx, hxr, _⟩ := Ordered.node_iff.mp ho
    simp only [pathTo, Tree.toList]
    cases hc : c key x with
    | lt =>
      have hx : c x key = .gt := Std.OrientedCmp.gt_of_lt hc
      simp only [afterLoop, ihl hl, List.dropWhile_append]
      cases hd : l.toList.dropWhile (fun y => c y key == .lt) with
      | nil => simp [hx, hf]
      | cons y ys => simp
    | gt =>
      have hx : c x key = .lt := Std.OrientedCmp.lt_of_gt hc
      have hall : ∀ a ∈ l.toList, (c a key == .lt) = true := by
        intro a ha; rw [Std.TransCmp.lt_trans (hlx a ha) hx]; rfl
      rw [List.dropWhile_append_of_pos hall]
      simp only [afterLoop, ihr hr, hx, List.dropWhile_cons]
      cases hd : r.toList.dropWhile (fun y => c y key == .lt) with
      | nil => simp
      | cons y ys => simp
    | eq =>
      have hx : c x key = .eq := Std.OrientedCmp.eq_symm hc
      have hall : ∀ a ∈ l.toList, (c a key == .lt) = true := by
        intro a ha; rw [Std.TransCmp.lt_of_lt_of_eq (hlx a ha) hx]; rfl
      rw [List.dropWhile_append_of_pos hall]
      simp [afterLoop, hx, hf]

/-- `InorderAfter(key)` stopped after one key yields the first key not less than `key` -/
theorem after1_spec (c : α → α → Ordering) [Std.TransCmp c] (t : T α) (ho : Ordered c t.root) (key : α) :
    t.inorderAfter c key (some 1) = (t.root.toList.dropWhile (fun y => c y key == .lt)).take 1 := by
  have hf : ∀ (s : List α) (x : α), (collect (some 1) s x).2 = false := by
    intro s x; simp [collect]
  simp only [T.inorderAfter, inorderAfterF, afterLoop_stop c _ hf key t.root ho]
  cases t.root.toList.dropWhile (fun y => c y key == .lt) with
  | nil => rfl
  | cons y ys => simp [collect]

/-! ## registers -/

theorem regs_get_set {σ : Type} (rs : Regs σ) (r r' : Nat) (v : σ) :
    (rs.set r v).get r' = if r' = r then some v else rs.get r' := by
  unfold Regs.set Regs.get
  by_cases h : r' = r
  · subst h; simp
  · have hne : (r == r') = false := by simpa using (fun e => h e.symm)
    simp only [List.find?_cons, hne, h, if_false]
    congr 1
    induction rs with
    | nil => rfl
    | cons a rs ih =>
      simp only [List.filter_cons, List.find?_cons]
      by_cases ha : a.1 = r
      · simp [ha, hne, ih]
      · have : (a.1 != r) = true := by simpa using ha
        simp only [this, if_true, List.find?_cons]
        split <;> simp [ih]

theorem staleAll_get {K V : Type} (its : Regs (Omap.It K V)) (i : Nat) :
    (Omap.staleAll its).get i = (its.get i).map (fun _ => Omap.It.stale) := by
  unfold Omap.staleAll Regs.get
  induction its with
  | nil => rfl
  | cons a its ih =>
    simp only [List.map_cons, List.find?_cons]
    split <;> simp_all

theorem sStaleAll_get (its : Regs AssocRef.SIt) (i : Nat) :
    (AssocRef.staleAll its).get i = (its.get i).map (fun _ => AssocRef.SIt.stale) := by
  unfold AssocRef.staleAll Regs.get
  induction its with
  | nil => rfl
  | cons a its ih =>
    simp only [List.map_cons, List.find?_cons]
    split <;> simp_all

/-! ## the simulation relation -/

section
variable {K V : Type} (cmp : K → K → Ordering)

instance kvTrans [Std.TransCmp cmp] : Std.TransCmp (Omap.kvCmp (V := V) cmp) where
  eq_swap := Std.OrientedCmp.eq_swap (cmp := cmp)
  isLE_trans := Std.TransCmp.isLE_trans (cmp := cmp)

theorem insert_eq (k : K) (v : V) (l : List (K × V)) :
    CursorRef.insertKey (Omap.kvCmp cmp) true (k, v) l = AssocRef.insert cmp k v l := by
  induction l with
  | nil => rfl
  | cons a l ih =>
    obtain ⟨x, w⟩ := a
    simp only [CursorRef.insertKey, AssocRef.insert, Omap.kvCmp]
    cases cmp k x <;> simp [ih]

theorem erase_eq [Inhabited V] (k : K) (l : List (K × V)) :
    CursorRef.removeKey (Omap.kvCmp cmp) (k, default) l = AssocRef.erase cmp k l := by
  induction l with
  | nil => rfl
  | cons a l ih =>
    obtain ⟨x, w⟩ := a
    simp only [CursorRef.removeKey, AssocRef.erase, Omap.kvCmp]
    cases cmp k x <;> simp [ih]

theorem lookup_eq [Inhabited V] (k : K) (l : List (K × V)) :
    AssocRef.lookup cmp k l = (l.find? (fun y => Omap.kvCmp cmp (k, (default : V)) y == .eq)).map (·.2) := by
  induction l with
  | nil => rfl
  | cons a l ih =>
    obtain ⟨x, w⟩ := a
    simp only [AssocRef.lookup, List.find?_cons, Omap.kvCmp] at ih ⊢
    cases hc : cmp k x <;> simp [ih]

theorem lowerBound_eq [Inhabited V] (k : K) (l : List (K × V)) :
    AssocRef.lowerBound cmp k l =
      (l.takeWhile (fun y => Omap.kvCmp cmp y (k, (default : V)) == .lt)).length := by
  induction l with
  | nil => rfl
  | cons a l ih =>
    obtain ⟨x, w⟩ := a
    simp only [AssocRef.lowerBound, List.takeWhile_cons, Omap.kvCmp] at ih ⊢
    cases hc : cmp x k <;> simp [ih]

/-- iterator registers: stale with stale, invalid with invalid, a position with its index -/
inductive RelIt (root : Tree (K × V)) : Omap.It K V → AssocRef.SIt → Prop
  | stale : RelIt root .stale .stale
  | none : RelIt root (.live none) (.at none)
  | pos (p : Pos (K × V)) (i : Nat) (hw : p.WF) (hr : p.root = root) (hi : p.before.length = i) :
      RelIt root (.live (some p)) (.at (some i))

inductive RelOpt {A B : Type} (R : A → B → Prop) : Option A → Option B → Prop
  | none : RelOpt R none none
  | some {a b} : R a b → RelOpt R (some a) (some b)

def rootOf : Omap.Map K V → Tree (K × V)
  | none => .nil
  | some t => t.root

def RelMap (m : Omap.Map K V) (l : Option (List (K × V))) : Prop :=
  (m = none ∧ l = none) ∨ ∃ t, m = some t ∧ TWF (Omap.kvCmp cmp) t ∧ l = some t.root.toList

structure Rel (s : Omap.State K V) (a : AssocRef.S K V) : Prop where
  map : RelMap cmp s.m a.l
  its : ∀ i, RelOpt (RelIt (rootOf s.m)) (s.its.get i) (a.its.get i)

theorem relMap_list {m : Omap.Map K V} {l : Option (List (K × V))} (h : RelMap cmp m l) :
    l.getD [] = (rootOf m).toList := by
  rcases h with ⟨rfl, rfl⟩ | ⟨t, rfl, _, rfl⟩ <;> rfl

theorem relIt_read {root : Tree (K × V)} {c : Cursor (K × V)} {oi : Option Nat}
    (h : RelIt root (.live c) (.at oi)) : (Omap.Out.iter (key? c) : Omap.Out K V) = AssocRef.readAt root.toList oi := by
  cases h with
  | none => rfl
  | pos p i hw hr hi => subst hr; subst hi; simp [AssocRef.readAt, (key_at p hw).1]

theorem relIts_stale {root root' : Tree (K × V)} {mi : Regs (Omap.It K V)} {si : Regs AssocRef.SIt}
    (h : ∀ i, RelOpt (RelIt root) (mi.get i) (si.get i)) :
    ∀ i, RelOpt (RelIt root') ((Omap.staleAll mi).get i) ((AssocRef.staleAll si).get i) := by
  intro i
  rw [staleAll_get, sStaleAll_get]
  have hi := h i
  revert hi
  generalize Regs.get mi i = a
  generalize Regs.get si i = b
  intro hi
  cases hi with
  | none => exact .none
  | some _ => exact .some .stale

theorem relIts_set {root : Tree (K × V)} {mi : Regs (Omap.It K V)} {si : Regs AssocRef.SIt}
    (h : ∀ i, RelOpt (RelIt root) (mi.get i) (si.get i)) (j : Nat) {a : Omap.It K V} {b : AssocRef.SIt}
    (hab : RelIt root a b) : ∀ i, RelOpt (RelIt root) ((mi.set j a).get i) ((si.set j b).get i) := by
  intro i
  rw [regs_get_set, regs_get_set]
  split
  · exact .some hab
  · exact h i

/-! ### positions -/

variable [Std.TransCmp cmp] [Inhabited V]

theorem first_rel {m : Omap.Map K V} {l : Option (List (K × V))} (h : RelMap cmp m l) :
    RelIt (rootOf m) (.live (Omap.first m)) (.at (AssocRef.norm (l.getD []).length 0)) := by
  rw [relMap_list cmp h]
  rcases h with ⟨rfl, rfl⟩ | ⟨t, rfl, _, rfl⟩
  · exact .none
  · rcases first_spec t.root with ⟨hn, hf⟩ | ⟨p, hf, hw, hr, hb⟩
    · simp only [Omap.first, hf, rootOf, hn, Tree.toList, AssocRef.norm]; exact .none
    · have := (key_at p hw).2
      rw [hr] at this
      simp only [Omap.first, hf, rootOf]
      have h0 : 0 < t.root.toList.length := by omega
      rw [show AssocRef.norm t.root.toList.length 0 = some 0 by simp only [AssocRef.norm, h0, if_true]]
      exact .pos p 0 hw hr (by simp [hb])

theorem last_rel {m : Omap.Map K V} {l : Option (List (K × V))} (h : RelMap cmp m l) :
    RelIt (rootOf m) (.live (Omap.last m))
      (.at (if (l.getD []).length = 0 then none else some ((l.getD []).length - 1))) := by
  rw [relMap_list cmp h]
  rcases h with ⟨rfl, rfl⟩ | ⟨t, rfl, _, rfl⟩
  · exact .none
  · rcases last_spec t.root with ⟨hn, hf⟩ | ⟨p, hf, hw, hr, ha⟩
    · simp only [Omap.last, hf, rootOf, hn, Tree.toList]; exact .none
    · have := (key_at p hw).2
      rw [hr, ha] at this
      simp only [List.length_nil, Nat.add_zero] at this
      simp only [Omap.last, hf, rootOf]
      have hn : ¬ t.root.toList.length = 0 := by omega
      show RelIt t.root _ (.at (if t.root.toList.length = 0 then none else some (t.root.toList.length - 1)))
      rw [if_neg hn]
      exact .pos p _ hw hr (by omega)

theorem ordered_nodup {c : α → α → Ordering} [Std.TransCmp c] {t : Tree α} (ho : Ordered c t) : t.toList.Nodup := by
  unfold Ordered at ho
  refine ho.imp (fun {a b} h e => ?_)
  subst e
  have hr : c a a = .eq := Std.ReflCmp.compare_self
  rw [hr] at h; cases h

theorem seek_rel {m : Omap.Map K V} {l : Option (List (K × V))} (h : RelMap cmp m l) (k : K) :
    RelIt (rootOf m) (.live (Omap.seek cmp m k))
      (.at (AssocRef.norm (l.getD []).length (AssocRef.lowerBound cmp k (l.getD [])))) := by
  rw [relMap_list cmp h]
  rcases h with ⟨rfl, rfl⟩ | ⟨t, rfl, ⟨ho, _⟩, rfl⟩
  · exact .none
  · simp only [Omap.seek, rootOf, after1_spec (Omap.kvCmp cmp) t ho, lowerBound_eq]
    have hsplit := List.takeWhile_append_dropWhile (p := fun y => Omap.kvCmp cmp y (k, (default : V)) == .lt) (l := t.root.toList)
    generalize hT : t.root.toList.takeWhile (fun y => Omap.kvCmp cmp y (k, (default : V)) == .lt) = Tk at hsplit ⊢
    generalize hD : t.root.toList.dropWhile (fun y => Omap.kvCmp cmp y (k, (default : V)) == .lt) = D at hsplit ⊢
    cases D with
    | nil =>
      have : Tk.length = t.root.toList.length := by rw [← hsplit]; simp
      simp only [List.take_nil, AssocRef.norm, this, Nat.lt_irrefl, if_false]
      exact .none
    | cons kv rest =>
      have hmem : kv ∈ t.root.toList := by rw [← hsplit]; simp
      have hrefl : Omap.kvCmp cmp kv kv = .eq := Std.ReflCmp.compare_self
      have hv := (ofKey_valid_iff (Omap.kvCmp cmp) t.root ho kv).mpr ⟨kv, hmem, hrefl⟩
      simp only [List.take_succ_cons, List.take_zero]
      cases hof : ofKey (Omap.kvCmp cmp) t.root kv with
      | none => rw [hof] at hv; simp [valid] at hv
      | some p =>
        obtain ⟨hr, hw, x, hx, he, hxm⟩ := ofKey_some (Omap.kvCmp cmp) t.root kv hof
        have hxkv : x = kv := ho.unique hxm hmem he hrefl
        subst hxkv
        have hka := key_at p hw
        rw [hr] at hka
        have hidx : t.root.toList[Tk.length]? = some x := by rw [← hsplit]; simp
        have hlt : p.before.length < t.root.toList.length := by omega
        have heq : p.before.length = Tk.length :=
          (List.getElem?_inj hlt (ordered_nodup ho)).mp (by rw [← hka.1, hx, hidx])
        have hlt' : Tk.length < t.root.toList.length := by omega
        simp only [AssocRef.norm, hlt', if_true]
        exact .pos p _ hw hr heq

theorem next_rel {root : Tree (K × V)} {c : Cursor (K × V)} {oi : Option Nat}
    (h : RelIt root (.live c) (.at oi)) :
    RelIt root (.live (next c)) (.at (oi.bind fun j => AssocRef.norm root.toList.length (j + 1))) := by
  cases h with
  | none => exact .none
  | pos p i hw hr hi =>
    obtain ⟨l, x, r, hc⟩ := isNil_eq_false.mp hw
    have hlen := (key_at p hw).2
    rw [hr] at hlen
    simp only [Option.bind_some]
    rcases next_spec p l r x hc with ⟨ha, hn⟩ | ⟨p', y, hn, hw', hr', _, ha, hb⟩
    · rw [hn]
      rw [ha] at hlen
      simp only [List.length_nil, Nat.add_zero] at hlen
      have hge : ¬ (i + 1 < root.toList.length) := by omega
      rw [show AssocRef.norm root.toList.length (i + 1) = none by simp only [AssocRef.norm, hge, if_false]]
      exact .none
    · rw [hn]
      rw [ha] at hlen
      simp only [List.length_cons] at hlen
      have hlt : i + 1 < root.toList.length := by omega
      rw [show AssocRef.norm root.toList.length (i + 1) = some (i + 1) by simp only [AssocRef.norm, hlt, if_true]]
      exact .pos p' _ hw' (hr'.trans hr) (by rw [hb]; simp [hi])

theorem prev_rel {root : Tree (K × V)} {c : Cursor (K × V)} {oi : Option Nat}
    (h : RelIt root (.live c) (.at oi)) :
    RelIt root (.live (prev c)) (.at (oi.bind fun j => if j = 0 then none else some (j - 1))) := by
  cases h with
  | none => exact .none
  | pos p i hw hr hi =>
    obtain ⟨l, x, r, hc⟩ := isNil_eq_false.mp hw
    simp only [Option.bind_some]
    rcases prev_spec p l r x hc with ⟨hb, hn⟩ | ⟨p', y, hn, hw', hr', _, hb, _⟩
    · rw [hn]
      rw [hb] at hi
      rw [if_pos (by simpa using hi.symm)]
      exact .none
    · rw [hn]
      rw [hb] at hi
      rw [if_neg (by simp at hi; omega)]
      exact .pos p' _ hw' (hr'.trans hr) (by simp at hi; omega)

end

/-! ## one step -/

theorem T_remove_false (c : α → α → Ordering) (t t' : T α) (k : α) (h : t.remove c k = some (t', false)) :
    t'.root = t.root := by
  unfold T.remove at h
  simp only at h
  split at h
  · split at h
    · split at h <;> simp at h
    · simp at h
  · rename_i hp
    simp only [Option.some.injEq, Prod.mk.injEq, and_true] at h
    rw [← h]
    exact remove_false_id c k t.root (by simpa using hp)

section
variable {K V : Type} (cmp : K → K → Ordering) [Std.TransCmp cmp] [Inhabited V]

theorem getOK_eq {m : Omap.Map K V} {l : Option (List (K × V))} (h : RelMap cmp m l) (k : K) :
    Omap.getOK cmp m k = AssocRef.lookup cmp k (l.getD []) := by
  rcases h with ⟨rfl, rfl⟩ | ⟨t, rfl, ⟨ho, _⟩, rfl⟩
  · rfl
  · simp only [Omap.getOK, T.get, getC_spec (Omap.kvCmp cmp) (k, default) t.root ho, lookup_eq, Option.getD_some]
    cases List.find? (fun y => Omap.kvCmp cmp (k, (default : V)) y == .eq) t.root.toList <;> rfl

theorem len_eq {m : Omap.Map K V} {l : Option (List (K × V))} (h : RelMap cmp m l) :
    Omap.len m = (l.getD []).length := by
  rcases h with ⟨rfl, rfl⟩ | ⟨t, rfl, ⟨_, hs⟩, rfl⟩
  · rfl
  · simpa [Omap.len, T.len] using hs

theorem keys_eq {m : Omap.Map K V} {l : Option (List (K × V))} (h : RelMap cmp m l) :
    Omap.keys m = (l.getD []).map (·.1) := by
  rcases h with ⟨rfl, rfl⟩ | ⟨t, rfl, ⟨_, hs⟩, rfl⟩
  · rfl
  · simp only [Omap.keys, T.len, T.inorder, inorderF_collect_none, Option.getD_some, List.append_nil,
      List.reverse_reverse]
    split
    · rename_i h0
      have : t.root.toList.length = 0 := by rw [← hs]; simpa using h0
      rw [List.length_eq_zero_iff.mp this]; rfl
    · rfl

theorem entries_eq {m : Omap.Map K V} {l : Option (List (K × V))} (h : RelMap cmp m l) :
    Omap.entries m = l.getD [] := by
  rcases h with ⟨rfl, rfl⟩ | ⟨t, rfl, _, rfl⟩
  · rfl
  · simp only [Omap.entries, Omap.first, Option.getD_some]
    rcases first_spec t.root with ⟨hn, hf⟩ | ⟨p, hf, hw, hr, hb⟩
    · rw [hf, walk_none, hn]; rfl
    · obtain ⟨l', x, r', hc⟩ := isNil_eq_false.mp hw
      have hz := Pos.zipper p hc
      rw [hb, hr] at hz
      rw [hf, walk_spec _ p hw x (key?_some hc), hz]; rfl
      have := size_eq_length t.root
      rw [hz] at this
      simp at this; omega

theorem step_refines (F : TreeFacts (Omap.kvCmp (V := V) cmp)) (s : Omap.State K V) (a : AssocRef.S K V)
    (h : Rel cmp s a) (op : Omap.Op K V) :
    (Omap.step cmp s op).2 = (AssocRef.step cmp a op).2 ∧
      Rel cmp (Omap.step cmp s op).1 (AssocRef.step cmp a op).1 := by
  obtain ⟨m, mi⟩ := s
  obtain ⟨l, si⟩ := a
  obtain ⟨hm, hi⟩ := h
  simp only at hm hi
  have hlist := relMap_list cmp hm
  cases op with
  | set k v =>
    rcases hm with ⟨rfl, rfl⟩ | ⟨t, rfl, htw, rfl⟩
    · constructor
      · rfl
      · exact ⟨Or.inl ⟨rfl, rfl⟩, hi⟩
    · obtain ⟨t', h1, h2, h3⟩ := F.replace t (k, v) htw
      rw [insert_eq] at h1 h3
      simp only [Omap.step, Omap.set, h1, AssocRef.step]
      exact ⟨trivial, ⟨Or.inr ⟨t', rfl, h2, by rw [h3]⟩, relIts_stale hi⟩⟩
  | delete k =>
    rcases hm with ⟨rfl, rfl⟩ | ⟨t, rfl, htw, rfl⟩
    · constructor
      · rfl
      · exact ⟨Or.inl ⟨rfl, rfl⟩, hi⟩
    · obtain ⟨t', h1, h2, h3⟩ := F.remove t (k, default) htw
      rw [erase_eq] at h1 h3
      simp only [Omap.step, Omap.delete, h1, AssocRef.step]
      refine ⟨trivial, ⟨Or.inr ⟨t', rfl, h2, by rw [h3]⟩, ?_⟩⟩
      cases hb : (AssocRef.erase cmp k t.root.toList).2 with
      | true => simpa using relIts_stale hi
      | false =>
        rw [hb] at h1
        have hroot := T_remove_false _ t t' _ h1
        simp only [Bool.false_eq_true, if_false, rootOf, hroot]
        exact hi
  | clear =>
    rcases hm with ⟨rfl, rfl⟩ | ⟨t, rfl, htw, rfl⟩
    · constructor
      · rfl
      · exact ⟨Or.inl ⟨rfl, rfl⟩, hi⟩
    · simp only [Omap.step, Omap.clear, AssocRef.step]
      refine ⟨trivial, ⟨Or.inr ⟨t.clear, rfl, ⟨List.Pairwise.nil, rfl⟩, rfl⟩, relIts_stale hi⟩⟩
  | get k =>
    refine ⟨?_, ⟨hm, hi⟩⟩
    simp only [Omap.step, AssocRef.step, Omap.get, getOK_eq cmp hm, AssocRef.S.list]
  | getOK k =>
    refine ⟨?_, ⟨hm, hi⟩⟩
    simp only [Omap.step, AssocRef.step, getOK_eq cmp hm, AssocRef.S.list]
  | len =>
    refine ⟨?_, ⟨hm, hi⟩⟩
    simp only [Omap.step, AssocRef.step, len_eq cmp hm, AssocRef.S.list]
  | keys =>
    refine ⟨?_, ⟨hm, hi⟩⟩
    simp only [Omap.step, AssocRef.step, keys_eq cmp hm, AssocRef.S.list]
  | string =>
    refine ⟨?_, ⟨hm, hi⟩⟩
    simp only [Omap.step, AssocRef.step, entries_eq cmp hm, AssocRef.S.list]
  | first i =>
    have hr := first_rel cmp hm
    refine ⟨?_, ⟨hm, relIts_set hi i hr⟩⟩
    simp only [Omap.step, AssocRef.step, AssocRef.S.list, relIt_read hr, hlist]
  | last i =>
    have hr := last_rel cmp hm
    refine ⟨?_, ⟨hm, relIts_set hi i hr⟩⟩
    simp only [Omap.step, AssocRef.step, AssocRef.S.list, relIt_read hr, hlist]
  | seek i k =>
    have hr := seek_rel cmp hm k
    refine ⟨?_, ⟨hm, relIts_set hi i hr⟩⟩
    simp only [Omap.step, AssocRef.step, AssocRef.S.list, relIt_read hr, hlist]
  | itSeek i k =>
    have hr := seek_rel cmp hm k
    have hii := hi i
    revert hii
    simp only [Omap.step, AssocRef.step, AssocRef.S.list]
    generalize Regs.get mi i = x
    generalize Regs.get si i = y
    intro hii
    cases hii with
    | none => exact ⟨rfl, ⟨hm, hi⟩⟩
    | some _ =>
      refine ⟨?_, ⟨hm, relIts_set hi i hr⟩⟩
      simp only [relIt_read hr, hlist]
  | itNext i =>
    have hii := hi i
    revert hii
    simp only [Omap.step, AssocRef.step, AssocRef.S.list]
    generalize Regs.get mi i = x
    generalize Regs.get si i = y
    intro hii
    cases hii with
    | none => exact ⟨rfl, ⟨hm, hi⟩⟩
    | @some x y hxy =>
      cases x with
      | stale => cases hxy; exact ⟨rfl, ⟨hm, hi⟩⟩
      | live c =>
        cases y with
        | stale => cases hxy
        | «at» oi =>
          have hr := next_rel hxy
          rw [← hlist] at hr
          refine ⟨?_, ⟨hm, relIts_set hi i hr⟩⟩
          simp only [relIt_read hr, hlist]
  | itPrev i =>
    have hii := hi i
    revert hii
    simp only [Omap.step, AssocRef.step, AssocRef.S.list]
    generalize Regs.get mi i = x
    generalize Regs.get si i = y
    intro hii
    cases hii with
    | none => exact ⟨rfl, ⟨hm, hi⟩⟩
    | @some x y hxy =>
      cases x with
      | stale => cases hxy; exact ⟨rfl, ⟨hm, hi⟩⟩
      | live c =>
        cases y with
        | stale => cases hxy
        | «at» oi =>
          have hr := prev_rel hxy
          refine ⟨?_, ⟨hm, relIts_set hi i hr⟩⟩
          simp only [relIt_read hr, hlist]
  | itRead i =>
    have hii := hi i
    revert hii
    simp only [Omap.step, AssocRef.step, AssocRef.S.list]
    generalize Regs.get mi i = x
    generalize Regs.get si i = y
    intro hii
    cases hii with
    | none => exact ⟨rfl, ⟨hm, hi⟩⟩
    | @some x y hxy =>
      cases x with
      | stale => cases hxy; exact ⟨rfl, ⟨hm, hi⟩⟩
      | live c =>
        cases y with
        | stale => cases hxy
        | «at» oi => exact ⟨by simp only [Omap.readIt, relIt_read hxy, hlist], ⟨hm, hi⟩⟩

theorem run_refines (F : TreeFacts (Omap.kvCmp (V := V) cmp)) (s : Omap.State K V) (a : AssocRef.S K V)
    (h : Rel cmp s a) (ops : List (Omap.Op K V)) : Omap.run cmp s ops = AssocRef.run cmp a ops := by
  induction ops generalizing s a with
  | nil => rfl
  | cons op ops ih =>
    obtain ⟨h1, h2⟩ := step_refines cmp F s a h op
    simp only [Omap.run, AssocRef.run, h1]
    rw [ih _ _ h2]

end

end MdsVerif.Proofs.Omap
