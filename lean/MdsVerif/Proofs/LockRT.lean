import MdsVerif.Proofs.Lock
/-!
# Real-time order for the lock semantics (helper for C09)

The interleaving semantics of `Proofs.Lock` with an event label on the steps a
client can observe (`inv`, `resp`) and on the linearization point (`lin`, the
release of the lock).  `lreach_trace`: along every execution
* the ghost log is exactly the sequence of `lin` events, and
* every thread's events form a prefix of `(inv · lin · resp)*` — each call's
  linearization point lies between its invocation and its response, with the
  same operation and the same result.
Hence if call `a` responded before call `b` was invoked, `a`'s linearization
point precedes `b`'s: lock-acquisition order respects real-time order.
-/
namespace MdsVerif.Proofs.Lock
variable {σ Loc Op Res : Type}

inductive Ev (Op Res : Type) where
  | inv (t : Nat) (op : Op)
  | lin (t : Nat) (op : Op) (r : Res)
  | resp (t : Nat) (op : Op) (r : Res)

def Ev.tid : Ev Op Res → Nat
  | .inv t _ | .lin t _ _ | .resp t _ _ => t

variable (prog : Op → Body σ Loc Res)

/-- `Step` with the observable event (if any) it produces -/
inductive LStep : Conf σ Loc Op Res → Option (Ev Op Res) → Conf σ Loc Op Res → Prop
  | invoke (c t op) : c.ph t = .idle → LStep c (some (.inv t op)) { c with ph := upd c.ph t (.pending op) }
  | acquire (c t op) : c.ph t = .pending op → c.lock = none →
      LStep c none { c with lock := some t, ph := upd c.ph t (.inCS op (prog op).steps (prog op).init) }
  | micro (c t op m ms l) : c.ph t = .inCS op (m :: ms) l → c.lock = some t →
      LStep c none { c with shared := (m c.shared l).1, ph := upd c.ph t (.inCS op ms (m c.shared l).2) }
  | release (c t op l) : c.ph t = .inCS op [] l → c.lock = some t →
      LStep c (some (.lin t op ((prog op).ret l)))
        { c with lock := none, ph := upd c.ph t (.done op ((prog op).ret l)),
                 log := c.log ++ [(t, op, (prog op).ret l)] }
  | respond (c t op r) : c.ph t = .done op r → LStep c (some (.resp t op r)) { c with ph := upd c.ph t .idle }

theorem LStep.toStep {c c' : Conf σ Loc Op Res} {e} (h : LStep prog c e c') : Step prog c c' := by
  cases h with
  | invoke t op h => exact .invoke c t op h
  | acquire t op h1 h2 => exact .acquire c t op h1 h2
  | micro t op m ms l h1 h2 => exact .micro c t op m ms l h1 h2
  | release t op l h1 h2 => exact .release c t op l h1 h2
  | respond t op r h => exact .respond c t op r h

theorem Step.toLStep {c c' : Conf σ Loc Op Res} (h : Step prog c c') : ∃ e, LStep prog c e c' := by
  cases h with
  | invoke t op h => exact ⟨_, .invoke c t op h⟩
  | acquire t op h1 h2 => exact ⟨_, .acquire c t op h1 h2⟩
  | micro t op m ms l h1 h2 => exact ⟨_, .micro c t op m ms l h1 h2⟩
  | release t op l h1 h2 => exact ⟨_, .release c t op l h1 h2⟩
  | respond t op r h => exact ⟨_, .respond c t op r h⟩

/-- executions with their event trace (oldest event first) -/
inductive LReach (c0 : Conf σ Loc Op Res) : List (Ev Op Res) → Conf σ Loc Op Res → Prop
  | refl : LReach c0 [] c0
  | step {evs c e c'} : LReach c0 evs c → LStep prog c e c' → LReach c0 (evs ++ e.toList) c'

theorem LReach.toReach {c0 c : Conf σ Loc Op Res} {evs} (h : LReach prog c0 evs c) : Reach prog c0 c := by
  induction h with
  | refl => exact .refl
  | step _ hs ih => exact .step ih hs.toStep

theorem Reach.toLReach {c0 c : Conf σ Loc Op Res} (h : Reach prog c0 c) : ∃ evs, LReach prog c0 evs c := by
  induction h with
  | refl => exact ⟨[], .refl⟩
  | step _ hs ih =>
    obtain ⟨evs, h⟩ := ih
    obtain ⟨e, hl⟩ := Step.toLStep prog hs
    exact ⟨_, .step h hl⟩

/-- the linearization events of a trace, as log entries -/
def lins : List (Ev Op Res) → List (Nat × Op × Res)
  | [] => []
  | .lin t op r :: rest => (t, op, r) :: lins rest
  | _ :: rest => lins rest

theorem lins_append (a b : List (Ev Op Res)) : lins (a ++ b) = lins a ++ lins b := by
  induction a with
  | nil => rfl
  | cons e a ih => cases e <;> simp [lins, ih]

/-- what a client of thread `t` can be in: between calls, waiting for the call `op` to take effect,
or holding the result `r` of `op` that has taken effect -/
inductive CallSt (Op Res : Type) where
  | idle | waiting (op : Op) | finished (op : Op) (r : Res)

/-- per-thread protocol automaton: `(inv · lin · resp)*` with matching operation and result -/
inductive Proto (t : Nat) : CallSt Op Res → Ev Op Res → CallSt Op Res → Prop
  | inv (op) : Proto t .idle (.inv t op) (.waiting op)
  | lin (op r) : Proto t (.waiting op) (.lin t op r) (.finished op r)
  | resp (op r) : Proto t (.finished op r) (.resp t op r) .idle

/-- `Run t s evs s'`: the events of thread `t` in `evs` (others are skipped) drive the automaton from `s` to `s'` -/
inductive Run (t : Nat) : CallSt Op Res → List (Ev Op Res) → CallSt Op Res → Prop
  | nil (s) : Run t s [] s
  | skip {s e evs s'} : e.tid ≠ t → Run t s evs s' → Run t s (e :: evs) s'
  | take {s e s1 evs s'} : Proto t s e s1 → Run t s1 evs s' → Run t s (e :: evs) s'

theorem Run.append {t : Nat} {s s1 s2 : CallSt Op Res} {a b : List (Ev Op Res)}
    (h1 : Run t s a s1) (h2 : Run t s1 b s2) : Run t s (a ++ b) s2 := by
  induction h1 with
  | nil => exact h2
  | skip hne _ ih => exact .skip hne (ih h2)
  | take hp _ ih => exact .take hp (ih h2)

def phaseSt : Phase σ Loc Op Res → CallSt Op Res
  | .idle => .idle
  | .pending op => .waiting op
  | .inCS op _ _ => .waiting op
  | .done op r => .finished op r

/-- **trace invariant** -/
theorem lreach_trace (s0 : σ) (evs : List (Ev Op Res)) (c : Conf σ Loc Op Res)
    (h : LReach prog (initConf s0) evs c) :
    c.log = lins evs ∧ ∀ t, Run t (.idle : CallSt Op Res) evs (phaseSt (c.ph t)) := by
  induction h with
  | refl => exact ⟨rfl, fun t => .nil _⟩
  | @step evs c e c' _ hs ih =>
    obtain ⟨hlog, hrun⟩ := ih
    -- a step of thread `u` producing at most one event of `u`
    have other : ∀ (u : Nat) (e : Ev Op Res) (t : Nat), e.tid = u → t ≠ u →
        ∀ s, Run t s [e] s := fun u e t he hne s => .skip (by rw [he]; exact fun h => hne h.symm) (.nil _)
    cases hs with
    | invoke u op hph =>
      refine ⟨by simpa [lins_append, lins] using hlog, fun t => ?_⟩
      by_cases htu : t = u
      · subst htu
        have := hrun t; rw [hph] at this
        refine this.append ?_
        simp only [upd, if_true, Option.toList, phaseSt]
        exact .take (.inv op) (.nil _)
      · simp only [upd, if_neg htu, Option.toList]
        exact (hrun t).append (other u _ t rfl htu _)
    | acquire u op hph hl =>
      refine ⟨by simpa using hlog, fun t => ?_⟩
      by_cases htu : t = u
      · subst htu
        have := hrun t; rw [hph] at this
        simpa [upd, phaseSt] using this
      · simpa [upd, htu] using hrun t
    | micro u op m ms l hph hl =>
      refine ⟨by simpa using hlog, fun t => ?_⟩
      by_cases htu : t = u
      · subst htu
        have := hrun t; rw [hph] at this
        simpa [upd, phaseSt] using this
      · simpa [upd, htu] using hrun t
    | release u op l hph hl =>
      refine ⟨by simp [lins_append, lins, hlog], fun t => ?_⟩
      by_cases htu : t = u
      · subst htu
        have := hrun t; rw [hph] at this
        refine this.append ?_
        simp only [upd, if_true, Option.toList, phaseSt]
        exact .take (.lin op _) (.nil _)
      · simp only [upd, if_neg htu, Option.toList]
        exact (hrun t).append (other u _ t rfl htu _)
    | respond u op r hph =>
      refine ⟨by simpa [lins_append, lins] using hlog, fun t => ?_⟩
      by_cases htu : t = u
      · subst htu
        have := hrun t; rw [hph] at this
        refine this.append ?_
        simp only [upd, if_true, Option.toList, phaseSt]
        exact .take (.resp op r) (.nil _)
      · simp only [upd, if_neg htu, Option.toList]
        exact (hrun t).append (other u _ t rfl htu _)

/-- In a protocol-conforming trace, a `resp` of thread `t` is preceded by the matching `lin` of `t`
with no other event of `t` in between. -/
theorem Run.resp_after_lin {t : Nat} {s s' : CallSt Op Res} {evs : List (Ev Op Res)}
    (h : Run t s evs s') : ∀ pre post op r, evs = pre ++ .resp t op r :: post →
      (s = .finished op r ∧ ∀ e ∈ pre, e.tid ≠ t) ∨
      ∃ p1 p2, pre = p1 ++ .lin t op r :: p2 ∧ ∀ e ∈ p2, e.tid ≠ t := by
  induction h with
  | nil => intro pre post op r h; simp at h
  | @skip s e evs s' hne _ ih =>
    intro pre post op r h
    cases pre with
    | nil => simp at h; rw [h.1] at hne; exact absurd rfl hne
    | cons x pre =>
      simp only [List.cons_append, List.cons.injEq] at h
      obtain ⟨rfl, h⟩ := h
      rcases ih pre post op r h with ⟨hs, hall⟩ | ⟨p1, p2, hp, hall⟩
      · left; exact ⟨hs, fun e he => by rcases List.mem_cons.mp he with rfl | he; exact hne; exact hall e he⟩
      · right; exact ⟨e :: p1, p2, by simp [hp], hall⟩
  | @take s e s1 evs s' hp _ ih =>
    intro pre post op r h
    cases pre with
    | nil =>
      simp only [List.nil_append, List.cons.injEq] at h
      obtain ⟨rfl, _⟩ := h
      cases hp; left; exact ⟨rfl, by simp⟩
    | cons x pre =>
      simp only [List.cons_append, List.cons.injEq] at h
      obtain ⟨rfl, h⟩ := h
      rcases ih pre post op r h with ⟨hs, hall⟩ | ⟨p1, p2, hp', hall⟩
      · right
        -- the automaton was in `finished op r` right after `x`, so `x` is the matching `lin`
        cases hp with
        | inv op' => cases hs
        | lin op' r' => cases hs; exact ⟨[], pre, rfl, hall⟩
        | resp op' r' => cases hs
      · right; exact ⟨e :: p1, p2, by simp [hp'], hall⟩

end MdsVerif.Proofs.Lock
