import MdsVerif.Proofs.Cursor
import MdsVerif.Props.C01
/-!
# Everything a cursor history can reach satisfies the hypotheses of the C03 theorems

The C03 theorems are stated for a well-formed position (`p.WF`) in a search tree
(`Ordered cmp p.root`).  `inv_step` shows that these hold for every cursor register after every
operation of `Model.Cursor.step` — the trees being whatever C01 histories (`Model.Stree.step`:
New/Add/Replace/Remove/Clear/Clone, every β) build, by C01's `step_refines` — so the theorems
apply to every state the correspondence stream `C03` can drive the model into.
-/
namespace MdsVerif.Proofs.Cursor
open MdsVerif.Model.Stree MdsVerif.Model.Cursor MdsVerif.Spec
open MdsVerif.Spec.SortedSet (SortCompact)

variable {α : Type}

/-- invalid, or a well-formed position in a search tree -/
def CurOK (cmp : α → α → Ordering) : Cursor α → Prop
  | none => True
  | some p => p.WF ∧ Ordered cmp p.root

/-- the tree registers are related to reference sets (C01's invariant: every tree is well-formed)
and every cursor register is `CurOK` -/
def Inv (cmp : α → α → Ordering) (s : State α) : Prop :=
  (∃ sp, MdsVerif.Props.C01.Rel cmp s.trees sp) ∧ ∀ c cur, s.curs.get c = some cur → CurOK cmp cur

theorem curOK_move {cmp : α → α → Ordering} {cur : Cursor α} (h : CurOK cmp cur) (f : Cursor α → Cursor α)
    (hf : ∀ p : Pos α, p.WF → ∀ p', f (some p) = some p' → p'.WF ∧ p'.root = p.root) (hn : f none = none) :
    CurOK cmp (f cur) := by
  cases cur with
  | none => rw [hn]; trivial
  | some p =>
    cases hfp : f (some p) with
    | none => trivial
    | some p' =>
      obtain ⟨h1, h2⟩ := hf p h.1 p' hfp
      exact ⟨h1, h2 ▸ h.2⟩

theorem stays (f : Cursor α → Cursor α)
    (hmem : ∀ p : Pos α, ∀ l x r, p.cur = .node l x r → ∀ p', f (some p) = some p' → p'.WF ∧ p'.root = p.root) :
    ∀ p : Pos α, p.WF → ∀ p', f (some p) = some p' → p'.WF ∧ p'.root = p.root := by
  intro p hw p' hp'
  obtain ⟨l, x, r, h⟩ := isNil_eq_false.mp hw
  exact hmem p l x r h p' hp'

theorem next_stays : ∀ p : Pos α, p.WF → ∀ p', next (some p) = some p' → p'.WF ∧ p'.root = p.root :=
  stays next fun p l x r h p' hp' => by
    rcases next_spec p l r x h with ⟨_, hn⟩ | ⟨q, _, hn, h1, h2, _⟩
    · rw [hn] at hp'; cases hp'
    · rw [hn] at hp'; cases hp'; exact ⟨h1, h2⟩

theorem prev_stays : ∀ p : Pos α, p.WF → ∀ p', prev (some p) = some p' → p'.WF ∧ p'.root = p.root :=
  stays prev fun p l x r h p' hp' => by
    rcases prev_spec p l r x h with ⟨_, hn⟩ | ⟨q, _, hn, h1, h2, _⟩
    · rw [hn] at hp'; cases hp'
    · rw [hn] at hp'; cases hp'; exact ⟨h1, h2⟩

theorem left_stays : ∀ p : Pos α, p.WF → ∀ p', goLeft (some p) = some p' → p'.WF ∧ p'.root = p.root :=
  stays goLeft fun p l x r h p' hp' => by
    rcases goLeft_spec p l r x h with ⟨_, hn⟩ | ⟨q, hn, h1, h2, _⟩
    · rw [hn] at hp'; cases hp'
    · rw [hn] at hp'; cases hp'; exact ⟨h1, h2⟩

theorem right_stays : ∀ p : Pos α, p.WF → ∀ p', goRight (some p) = some p' → p'.WF ∧ p'.root = p.root :=
  stays goRight fun p l x r h p' hp' => by
    rcases goRight_spec p l r x h with ⟨_, hn⟩ | ⟨q, hn, h1, h2, _⟩
    · rw [hn] at hp'; cases hp'
    · rw [hn] at hp'; cases hp'; exact ⟨h1, h2⟩

theorem up_stays : ∀ p : Pos α, p.WF → ∀ p', up (some p) = some p' → p'.WF ∧ p'.root = p.root := by
  intro p hw p' hp'
  rcases up_spec p hw with ⟨_, hn⟩ | ⟨q, _, hn, h1, h2, _⟩
  · rw [hn] at hp'; cases hp'
  · rw [hn] at hp'; cases hp'; exact ⟨h1, h2⟩

theorem min_stays : ∀ p : Pos α, p.WF → ∀ p', MdsVerif.Model.Cursor.min (some p) = some p' → p'.WF ∧ p'.root = p.root :=
  stays MdsVerif.Model.Cursor.min fun p l x r h p' hp' => by
    obtain ⟨q, _, _, hn, h1, h2, _⟩ := min_spec p l r x h
    rw [hn] at hp'; cases hp'; exact ⟨h1, h2⟩

theorem max_stays : ∀ p : Pos α, p.WF → ∀ p', MdsVerif.Model.Cursor.max (some p) = some p' → p'.WF ∧ p'.root = p.root :=
  stays MdsVerif.Model.Cursor.max fun p l x r h p' hp' => by
    obtain ⟨q, _, _, hn, h1, h2, _⟩ := max_spec p l r x h
    rw [hn] at hp'; cases hp'; exact ⟨h1, h2⟩

theorem inv_set {cmp : α → α → Ordering} {s : State α} (h : Inv cmp s) (c : Nat) {cur : Cursor α}
    (hc : CurOK cmp cur) : Inv cmp { s with curs := s.curs.set c cur } := by
  refine ⟨h.1, ?_⟩
  intro c' cur' hget
  simp only [MdsVerif.Proofs.Stree.regs_get_set] at hget
  split at hget
  · cases hget; exact hc
  · exact h.2 c' cur' hget

theorem inv_move {cmp : α → α → Ordering} {s : State α} (h : Inv cmp s) (c : Nat) (f : Cursor α → Cursor α)
    (hf : ∀ p : Pos α, p.WF → ∀ p', f (some p) = some p' → p'.WF ∧ p'.root = p.root) (hn : f none = none) :
    Inv cmp (move s c f).1 := by
  unfold move
  cases hg : s.curs.get c with
  | none => exact h
  | some cur => exact inv_set h c (curOK_move (h.2 c cur hg) f hf hn)

/-- **the invariant is kept by every operation** -/
theorem inv_step (cmp : α → α → Ordering) [Std.TransCmp cmp] {srt : List α → List α}
    (hs : SortCompact cmp srt) (s : State α) (h : Inv cmp s) (op : MdsVerif.Model.Cursor.Op α) :
    Inv cmp (MdsVerif.Model.Cursor.step cmp srt s op).1 := by
  cases op with
  | tree top =>
    obtain ⟨sp, hrel⟩ := h.1
    have h2 := (MdsVerif.Props.C01.step_refines hs s.trees sp top hrel).2
    refine ⟨⟨_, h2⟩, ?_⟩
    intro c cur hget
    simp only [MdsVerif.Model.Cursor.step] at hget
    split at hget
    · simp [Regs.get] at hget
    · exact h.2 c cur hget
  | cursor c r k =>
    simp only [MdsVerif.Model.Cursor.step]
    cases hg : s.trees.get r with
    | none => exact h
    | some t =>
      apply inv_set h
      obtain ⟨sp, hrel⟩ := h.1
      have hwf : Ordered cmp t.root := by
        rcases hrel r with ⟨t', s', h1, _, h3⟩ | ⟨h1, _⟩
        · rw [hg] at h1; cases h1; exact h3.1.1
        · rw [hg] at h1; cases h1
      cases hof : ofKey cmp t.root k with
      | none => trivial
      | some p =>
        obtain ⟨h1, h2, _⟩ := ofKey_some cmp t.root k hof
        exact ⟨h2, h1 ▸ hwf⟩
  | root c r =>
    simp only [MdsVerif.Model.Cursor.step]
    cases hg : s.trees.get r with
    | none => exact h
    | some t =>
      apply inv_set h
      obtain ⟨sp, hrel⟩ := h.1
      have hwf : Ordered cmp t.root := by
        rcases hrel r with ⟨t', s', h1, _, h3⟩ | ⟨h1, _⟩
        · rw [hg] at h1; cases h1; exact h3.1.1
        · rw [hg] at h1; cases h1
      rcases ofRoot_spec t.root with ⟨_, hn⟩ | ⟨p, hn, h1, _, h2⟩
      · rw [hn]; trivial
      · rw [hn]; exact ⟨h2, h1 ▸ hwf⟩
  | nilc c => exact inv_set h c trivial
  | clone d src =>
    simp only [MdsVerif.Model.Cursor.step]
    cases hg : s.curs.get src with
    | none => exact h
    | some cur => exact inv_set h d (h.2 src cur hg)
  | next c => exact inv_move h c next next_stays rfl
  | prev c => exact inv_move h c prev prev_stays rfl
  | left c => exact inv_move h c goLeft left_stays rfl
  | right c => exact inv_move h c goRight right_stays rfl
  | up c => exact inv_move h c up up_stays rfl
  | min c => exact inv_move h c MdsVerif.Model.Cursor.min min_stays rfl
  | max c => exact inv_move h c MdsVerif.Model.Cursor.max max_stays rfl
  | valid c => simp only [MdsVerif.Model.Cursor.step, query]; split <;> exact h
  | key c => simp only [MdsVerif.Model.Cursor.step, query]; split <;> exact h
  | hasLeft c => simp only [MdsVerif.Model.Cursor.step, query]; split <;> exact h
  | hasRight c => simp only [MdsVerif.Model.Cursor.step, query]; split <;> exact h
  | hasParent c => simp only [MdsVerif.Model.Cursor.step, query]; split <;> exact h
  | hasNext c => simp only [MdsVerif.Model.Cursor.step, query]; split <;> exact h
  | hasPrev c => simp only [MdsVerif.Model.Cursor.step, query]; split <;> exact h
  | inorder c stop => simp only [MdsVerif.Model.Cursor.step, query]; split <;> exact h

/-- **every state reachable by a history from the empty state satisfies the invariant** -/
theorem inv_reachable (cmp : α → α → Ordering) [Std.TransCmp cmp] {srt : List α → List α}
    (hs : SortCompact cmp srt) (ops : List (MdsVerif.Model.Cursor.Op α)) :
    Inv cmp (ops.foldl (fun s op => (MdsVerif.Model.Cursor.step cmp srt s op).1) {}) := by
  have h0 : Inv cmp ({} : State α) :=
    ⟨⟨[], fun _ => Or.inr ⟨rfl, rfl⟩⟩, fun c cur hg => by simp [Regs.get] at hg⟩
  generalize ({} : State α) = s0 at h0
  induction ops generalizing s0 with
  | nil => exact h0
  | cons op ops ih => exact ih _ (inv_step cmp hs s0 h0 op)

/-! ## iteration with an arbitrary consumer, `pathTo` -/

/-- the cursor's `Inorder` hands ANY consumer exactly the keys of the subtree in order, and stops
when (and only when) the consumer says so (C01's `inorderF_eq` at the cursor's node) -/
theorem inorderF_visit {σ : Type} (f : Yield σ α) (p : Pos α) (s : σ) :
    MdsVerif.Model.Cursor.inorderF f (some p) s = MdsVerif.Proofs.Stree.visit f p.cur.toList s :=
  MdsVerif.Proofs.Stree.inorderF_eq f p.cur s

/-- …so a consumer that stops once it holds `j` keys sees the first `max j 1` of them -/
theorem inorder_stopped (p : Pos α) (stop : Option Nat) :
    inorder (some p) stop = SortedSet.stopped stop p.cur.toList := by
  simp only [inorder, inorderF_visit]
  exact MdsVerif.Proofs.Stree.collect_stopped stop p.cur.toList

/-- the Go slice that `node.pathTo(key)` returns (C01's model function) is the list of non-nil
subtrees along the directions `pathDirs` that `Tree.Cursor` is modelled with -/
theorem pathTo_eq (cmp : α → α → Ordering) (k : α) (t : Tree α) :
    pathTo cmp k t = ((List.range ((pathDirs cmp k t).length + 1)).map
      fun i => sub t ((pathDirs cmp k t).take i)).filter (fun u => !isNil u) := by
  induction t with
  | nil => simp [pathTo, pathDirs, isNil]
  | node l x r ihl ihr =>
    simp only [pathTo, pathDirs]
    cases hc : cmp k x with
    | lt =>
      simp only [List.length_cons, List.range_succ_eq_map (n := (pathDirs cmp k l).length + 1), List.map_cons,
        List.map_map, List.take_zero, sub_nil_dirs, List.filter_cons, isNil, Bool.not_false, if_true]
      rw [ihl]; congr 1
    | gt =>
      simp only [List.length_cons, List.range_succ_eq_map (n := (pathDirs cmp k r).length + 1), List.map_cons,
        List.map_map, List.take_zero, sub_nil_dirs, List.filter_cons, isNil, Bool.not_false, if_true]
      rw [ihr]; congr 1
    | eq => simp [isNil]

end MdsVerif.Proofs.Cursor
