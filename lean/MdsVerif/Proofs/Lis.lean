import MdsVerif.Model.Lis
import MdsVerif.Proofs.LisDefs
import MdsVerif.Proofs.Patience
/-!
# `Model.Lis.lisCore` refines the patience model

Data refinement from the executable model (`tails`, `prev` index arrays, the two binary searches,
every read an `Option`) to `Proofs.Patience` (tails carrying their chains):

* `bsearchLoop_spec`: on a monotone predicate the shared search loop returns the partition point
  and reads only in range;
* `Chain vs prev idx l`: following `prev` from `idx` and reading `vs` yields `l`;
* `Rel`: `tails[k]` heads the chain of the abstract `T[k]`;
* `lisStep_refines`: one loop iteration = `Patience.step` on the abstraction (the fast-path test is
  `cnt = len`, either binary search returns `cnt`), and never reads out of range.
-/
namespace MdsVerif.Proofs.Lis
open List MdsVerif.Model.Lis MdsVerif.Proofs.Patience

variable {α : Type}

/-! ## the binary search loop -/

theorem bsearchLoop_spec (goLeft : Nat → Option Bool) (P : Nat → Bool) (n : Nat)
    (hgo : ∀ m, m < n → goLeft m = some (P m))
    (hmono : ∀ a b, a ≤ b → b < n → P a = true → P b = true) :
    ∀ (fuel low high : Nat), low ≤ high → high ≤ n → high - low ≤ fuel →
    (∀ k, k < low → P k = false) → (∀ k, high ≤ k → k < n → P k = true) →
    ∃ r, bsearchLoop goLeft fuel low high = some r ∧ r ≤ n ∧
      (∀ k, k < r → P k = false) ∧ (∀ k, r ≤ k → k < n → P k = true) := by
  intro fuel
  induction fuel with
  | zero =>
    intro low high h1 h2 h3 h4 h5
    have : ¬ low < high := by omega
    refine ⟨low, by simp [bsearchLoop, this], by omega, h4, ?_⟩
    intro k hk hn; exact h5 k (by omega) hn
  | succ f ih =>
    intro low high h1 h2 h3 h4 h5
    by_cases hlt : low < high
    · have hmid : (low + high) / 2 < n := by omega
      have hm1 : low ≤ (low + high) / 2 := by omega
      have hm2 : (low + high) / 2 < high := by omega
      cases hp : P ((low + high) / 2) with
      | true =>
        obtain ⟨r, hr, hrest⟩ := ih low ((low + high) / 2) hm1 (by omega) (by omega) h4 (by
          intro k hk hn
          exact hmono _ k hk hn hp)
        exact ⟨r, by simp [bsearchLoop, hlt, hgo _ hmid, hp, hr], hrest⟩
      | false =>
        obtain ⟨r, hr, hrest⟩ := ih ((low + high) / 2 + 1) high (by omega) h2 (by omega) (by
          intro k hk
          cases hk' : P k with
          | false => rfl
          | true =>
            have := hmono k _ (by omega) hmid hk'
            rw [hp] at this; cases this) h5
        exact ⟨r, by simp [bsearchLoop, hlt, hgo _ hmid, hp, hr], hrest⟩
    · refine ⟨low, by simp [bsearchLoop, hlt], by omega, h4, ?_⟩
      intro k hk hn; exact h5 k (by omega) hn

/-! ## chains through `prev` -/

/-- following `prev` from index `idx` (`-1` = end) and reading `vs` yields `l` (last element first) -/
inductive Chain (vs : List α) (prev : List Int) : Int → List α → Prop
  | nil : Chain vs prev (-1) []
  | cons {t : Nat} {v : α} {p : Int} {l : List α} :
      vs[t]? = some v → prev[t]? = some p → Chain vs prev p l → Chain vs prev (t : Int) (v :: l)

theorem Chain.inv_nat {vs : List α} {prev : List Int} {t : Nat} {l' : List α}
    (h : Chain vs prev (t : Int) l') :
    ∃ v p l, l' = v :: l ∧ vs[t]? = some v ∧ prev[t]? = some p ∧ Chain vs prev p l := by
  generalize hidx : (t : Int) = idx at h
  cases h with
  | nil => omega
  | @cons t' v p l hv hp hc =>
    have : t = t' := by omega
    subst this
    exact ⟨_, _, _, rfl, hv, hp, hc⟩

/-- `prev` entries below `i` point strictly downwards (or are `-1`) -/
def Down (prev : List Int) (i : Nat) : Prop :=
  ∀ k p, k < i → prev[k]? = some p → -1 ≤ p ∧ p < (k : Int)

/-- writing `prev[i]` does not change chains that start below `i` -/
theorem Chain.set_stable {vs : List α} {prev : List Int} {i : Nat} (q : Int) (hd : Down prev i) :
    ∀ {idx : Int} {l : List α}, Chain vs prev idx l → idx < (i : Int) →
      Chain vs (prev.set i q) idx l := by
  intro idx l h
  induction h with
  | nil => intro _; exact .nil
  | @cons t v p l hv hp _ ih =>
    intro hlt
    have hti : t < i := by omega
    have hpd := hd t p hti hp
    refine .cons hv ?_ (ih (by omega))
    rw [List.getElem?_set_ne (by omega)]
    exact hp

/-- the final walk reads exactly the chain -/
theorem walkPrev_chain {vs : List α} {prev : List Int} :
    ∀ {idx : Int} {l : List α}, Chain vs prev idx l → (hne : idx ≠ -1 ∨ l = []) →
      walkPrev vs prev l.length idx = some l.reverse := by
  intro idx l h
  induction h with
  | nil => intro _; simp [walkPrev]
  | @cons t v p l hv hp hc ih =>
    intro _
    have hrec : walkPrev vs prev l.length p = some l.reverse := by
      apply ih
      cases hc with
      | nil => right; rfl
      | cons => left; omega
    have hnn : ¬ ((t : Int) < 0) := by omega
    simp [walkPrev, hnn, hv, hp, hrec]

/-! ## the two searches, as used -/

theorem bisectRight_spec {β γ : Type} (ts : List β) (target : γ) (cmp' : β → γ → Option Int)
    (key : Nat → Int)
    (hkey : ∀ m (h : m < ts.length), cmp' ts[m] target = some (key m))
    (hmono : ∀ a b, a ≤ b → b < ts.length → key a > 0 → key b > 0) :
    ∃ r, bisectRight ts target cmp' = some r ∧ r ≤ ts.length ∧
      (∀ k, k < r → ¬ key k > 0) ∧ (∀ k, r ≤ k → k < ts.length → key k > 0) := by
  obtain ⟨r, hr, hle, hlo, hhi⟩ := bsearchLoop_spec
    (fun mid => do
      let x ← ts[mid]?
      let c ← cmp' x target
      pure (decide (c > 0)))
    (fun k => decide (key k > 0)) ts.length
    (by intro m hm; simp [List.getElem?_eq_getElem hm, hkey m hm])
    (by intro a b hab hb ha; simp at ha ⊢; exact hmono a b hab hb ha)
    (ts.length + 1) 0 ts.length (by omega) (by omega) (by omega)
    (by intro k hk; omega) (by intro k h1 h2; omega)
  refine ⟨r, hr, hle, ?_, ?_⟩
  · intro k hk; have := hlo k hk; simpa using this
  · intro k h1 h2; have := hhi k h1 h2; simpa using this

theorem binarySearchFunc_spec {β γ : Type} (ts : List β) (target : γ) (cmp' : β → γ → Option Int)
    (key : Nat → Int)
    (hkey : ∀ m (h : m < ts.length), cmp' ts[m] target = some (key m))
    (hmono : ∀ a b, a ≤ b → b < ts.length → ¬ key a < 0 → ¬ key b < 0) :
    ∃ r, binarySearchFunc ts target cmp' = some r ∧ r ≤ ts.length ∧
      (∀ k, k < r → key k < 0) ∧ (∀ k, r ≤ k → k < ts.length → ¬ key k < 0) := by
  obtain ⟨r, hr, hle, hlo, hhi⟩ := bsearchLoop_spec
    (fun mid => do
      let x ← ts[mid]?
      let c ← cmp' x target
      pure (!decide (c < 0)))
    (fun k => !decide (key k < 0)) ts.length
    (by intro m hm; simp [List.getElem?_eq_getElem hm, hkey m hm])
    (by intro a b hab hb ha; simp at ha ⊢; exact Int.not_lt.mp (hmono a b hab hb (Int.not_lt.mpr ha)))
    (ts.length + 1) 0 ts.length (by omega) (by omega) (by omega)
    (by intro k hk; omega) (by intro k h1 h2; omega)
  refine ⟨r, hr, hle, ?_, ?_⟩
  · intro k hk; have := hlo k hk; simpa using this
  · intro k h1 h2; have := hhi k h1 h2; simpa using this

/-! ## comparison functions -/

/-- `cmp` is a three-way comparison of a total preorder -/
structure CmpOK (cmp : α → α → Int) : Prop where
  anti : ∀ a b, cmp a b < 0 ↔ cmp b a > 0
  trans : ∀ a b c, cmp a b ≤ 0 → cmp b c ≤ 0 → cmp a c ≤ 0

def Le (cmp : α → α → Int) (a b : α) : Prop := cmp a b ≤ 0

/-- `b` may follow `a`: `a < b` for LIS (`strict`), `a ≤ b` for LNDS -/
def MayFollow (strict : Bool) (cmp : α → α → Int) (a b : α) : Prop :=
  if strict then cmp a b < 0 else cmp a b ≤ 0

instance (strict : Bool) (cmp : α → α → Int) : DecidableRel (MayFollow strict cmp) := fun a b => by
  unfold MayFollow; split <;> exact inferInstance

theorem CmpOK.flip_ge {cmp : α → α → Int} (ok : CmpOK cmp) {a b : α} (h : cmp a b ≥ 0) :
    cmp b a ≤ 0 := by
  have := ok.anti b a
  have := ok.anti a b
  omega

theorem ax_of_cmp {cmp : α → α → Int} (ok : CmpOK cmp) (strict : Bool) :
    Ax (Le cmp) (MayFollow strict cmp) := by
  have hrl : ∀ a b c, cmp a b ≤ 0 → cmp b c < 0 → cmp a c < 0 := by
    intro a b c h1 h2
    apply Int.not_le.mp
    intro h
    have h3 := ok.flip_ge h
    have h4 := ok.trans c a b h3 h1
    have := ok.anti b c
    omega
  cases strict
  · refine ⟨?_, fun h1 h2 => ok.trans _ _ _ h1 h2, fun h => by simpa [MayFollow, Le] using h, ?_,
      fun h1 h2 => ?_, fun h1 h2 => ?_⟩
    · intro a; have := ok.anti a a; simp only [Le]; omega
    · intro a b h
      simp only [MayFollow, Bool.false_eq_true, if_false] at h
      have := ok.anti b a
      simp only [Le]; omega
    · simp only [MayFollow, Le, Bool.false_eq_true, if_false] at *; exact ok.trans _ _ _ h1 h2
    · simp only [MayFollow, Bool.false_eq_true, if_false] at *; exact ok.trans _ _ _ h1 h2
  · refine ⟨?_, fun h1 h2 => ok.trans _ _ _ h1 h2, fun h => ?_, ?_, fun h1 h2 => ?_, fun h1 h2 => ?_⟩
    · intro a; have := ok.anti a a; simp only [Le]; omega
    · simp only [MayFollow, if_true] at h; simp only [Le]; omega
    · intro a b h
      simp only [MayFollow, if_true] at h
      exact ok.flip_ge (by omega)
    · simp only [MayFollow, Le, if_true] at *; exact hrl _ _ _ h1 h2
    · simp only [MayFollow, if_true] at *; exact hrl _ _ _ (by omega) h2

/-! ## the two branches of one iteration, as equations -/

theorem lisStep_fast {strict : Bool} {cmp : α → α → Int} {vs : List α} {s : St} {i b : Nat} {v vb : α}
    (h1 : s.tails.getLast? = some b) (h2 : vs[i]? = some v) (h3 : vs[b]? = some vb)
    (h4 : if strict then cmp v vb > 0 else cmp v vb ≥ 0) (h5 : i < s.prev.length) :
    lisStep strict cmp vs s i = some { tails := s.tails ++ [i], prev := s.prev.set i (b : Int) } := by
  simp only [lisStep_def, h1, h2, h3, Option.bind_eq_bind, Option.bind_some, if_pos h4, setAt, if_pos h5,
    Option.pure_def]

theorem lisStep_slow {strict : Bool} {cmp : α → α → Int} {vs : List α} {s : St} {i b r : Nat} {v vb : α}
    {p : Int}
    (h1 : s.tails.getLast? = some b) (h2 : vs[i]? = some v) (h3 : vs[b]? = some vb)
    (h4 : ¬ (if strict then cmp v vb > 0 else cmp v vb ≥ 0)) (h5 : i < s.prev.length)
    (h6 : (if strict then binarySearchFunc s.tails.dropLast v (fun idx target => (vs[idx]?).map (cmp · target))
           else bisectRight s.tails.dropLast v (fun idx target => (vs[idx]?).map (cmp · target))) = some r)
    (h7 : (if r = 0 then some (-1 : Int) else (s.tails[r - 1]?).map Int.ofNat) = some p)
    (h8 : r < s.tails.length) :
    lisStep strict cmp vs s i = some { tails := s.tails.set r i, prev := s.prev.set i p } := by
  cases strict <;> simp only [Bool.false_eq_true, if_false, if_true] at h4 h6 <;>
  · simp only [lisStep_def, h1, h2, h3, Option.bind_eq_bind, Option.bind_some, if_neg h4, setAt, if_pos h5,
      Option.pure_def, Bool.false_eq_true, if_false, if_true, h6]
    by_cases hr0 : r = 0
    · subst hr0
      simp only [if_true] at h7
      cases h7
      simp [h8]
    · simp only [if_neg hr0] at h7 ⊢
      simp [h7, h8]

/-! ## the refinement relation -/

/-- structural invariant of the concrete state before iteration `i` -/
structure WF (vs : List α) (i : Nat) (s : St) : Prop where
  plen : s.prev.length = vs.length
  tl : ∀ t ∈ s.tails, t < i
  down : Down s.prev i
  ile : i ≤ vs.length

/-- `tails[k]` heads (through `prev`) the chain carried by the abstract `T[k]` -/
def Rel (vs : List α) (s : St) (T : List (Tail α)) : Prop :=
  T.length = s.tails.length ∧
  ∀ k (h1 : k < s.tails.length) (h2 : k < T.length), Chain vs s.prev (s.tails[k] : Int) T[k].chain

theorem Rel.head {vs : List α} {s : St} {T : List (Tail α)} (rel : Rel vs s T) (k : Nat)
    (h1 : k < s.tails.length) (h2 : k < T.length) : vs[s.tails[k]]? = some T[k].1 := by
  obtain ⟨v, p, l, hl, hv, _, _⟩ := (rel.2 k h1 h2).inv_nat
  simp only [Tail.chain, List.cons.injEq] at hl
  rw [hv, hl.1]

/-- **one iteration refines `Patience.step`** and reads only in range -/
theorem lisStep_refines {cmp : α → α → Int} (ok : CmpOK cmp) (strict : Bool) {vs : List α} {i : Nat}
    {s : St} {T : List (Tail α)} {rp : List α} {v : α}
    (hv : vs[i]? = some v) (wf : WF vs i s) (rel : Rel vs s T) (hne : T ≠ [])
    (inv : Inv (Le cmp) (MayFollow strict cmp) rp T) :
    ∃ s', lisStep strict cmp vs s i = some s' ∧ WF vs (i + 1) s' ∧
      Rel vs s' (step (MayFollow strict cmp) T v) := by
  have ax := ax_of_cmp ok strict
  have hi : i < vs.length := (List.getElem?_eq_some_iff.mp hv).1
  have hrel := rel
  obtain ⟨hTl, hch⟩ := rel
  have hL : 0 < T.length := List.length_pos_iff.mpr hne
  have hLt : T.length - 1 < s.tails.length := by omega
  have hLT : T.length - 1 < T.length := by omega
  have hlast : s.tails.getLast? = some s.tails[T.length - 1] := by
    rw [List.getLast?_eq_getElem?, ← hTl, List.getElem?_eq_getElem hLt]
  have hvb : vs[s.tails[T.length - 1]]? = some T[T.length - 1].1 := hrel.head _ hLt hLT
  have hbi : s.tails[T.length - 1] < i := wf.tl _ (List.getElem_mem hLt)
  have hpl : i < s.prev.length := by rw [wf.plen]; exact hi
  have hcl := cnt_le (MayFollow strict cmp) v T
  have htest : (if strict then cmp v T[T.length - 1].1 > 0 else cmp v T[T.length - 1].1 ≥ 0) ↔
      MayFollow strict cmp T[T.length - 1].1 v := by
    have a1 := ok.anti T[T.length - 1].1 v
    have a2 := ok.anti v T[T.length - 1].1
    cases strict <;> simp only [MayFollow, Bool.false_eq_true, if_false, if_true] <;> omega
  have hstab : ∀ (q : Int) k (h1 : k < s.tails.length) (h2 : k < T.length),
      Chain vs (s.prev.set i q) (s.tails[k] : Int) T[k].chain := by
    intro q k h1 h2
    exact (hch k h1 h2).set_stable q wf.down (by have := wf.tl _ (List.getElem_mem h1); omega)
  have hdown : ∀ q : Int, -1 ≤ q → q < (i : Int) → Down (s.prev.set i q) (i + 1) := by
    intro q hq1 hq2 k p hk hp
    by_cases hki : k = i
    · subst hki
      rw [List.getElem?_set_self hpl] at hp
      cases hp; exact ⟨hq1, hq2⟩
    · rw [List.getElem?_set_ne (by omega)] at hp
      exact wf.down k p (by omega) hp
  by_cases hR : MayFollow strict cmp T[T.length - 1].1 v
  · -- fast path
    have hcnt : cnt (MayFollow strict cmp) v T = T.length := by
      rcases Nat.lt_or_ge (cnt (MayFollow strict cmp) v T) T.length with h | h
      · exact absurd hR (cnt_ge ax inv v (T.length - 1) hLT (by omega))
      · omega
    have hstep : step (MayFollow strict cmp) T v = T ++ [(v, T[T.length - 1].chain)] := by
      have h0 : T.length ≠ 0 := by omega
      simp [step, base, hcnt, h0, List.getElem?_eq_getElem hLT]
    refine ⟨_, lisStep_fast hlast hv hvb (htest.mpr hR) hpl, ⟨?_, ?_, ?_, ?_⟩, ?_⟩
    · simp [wf.plen]
    · intro t ht
      simp only [List.mem_append, List.mem_singleton] at ht
      rcases ht with ht | ht
      · have := wf.tl t ht; omega
      · omega
    · exact hdown _ (by omega) (by omega)
    · omega
    · rw [hstep]
      refine ⟨by simp [hTl], ?_⟩
      intro k h1 h2
      simp only [List.length_append, List.length_singleton] at h1 h2
      by_cases hk : k < T.length
      · have hk' : k < s.tails.length := by omega
        simp only [List.getElem_append_left hk, List.getElem_append_left hk']
        exact hstab _ k hk' hk
      · have hk1 : k = T.length := by omega
        subst hk1
        have e1 : (s.tails ++ [i])[T.length]'(by simp; omega) = i := by simp [hTl]
        have e2 : (T ++ [(v, T[T.length - 1].chain)])[T.length]'(by simp) =
            (v, T[T.length - 1].chain) := by simp
        simp only [e1, e2]
        exact .cons hv (List.getElem?_set_self hpl) (hstab _ _ hLt hLT)
  · -- slow path: binary search over tails[:len-1]
    have hlt : cnt (MayFollow strict cmp) v T < T.length := by
      rcases Nat.lt_or_ge (cnt (MayFollow strict cmp) v T) T.length with h | h
      · exact h
      · exact absurd (cnt_lt (MayFollow strict cmp) v T (T.length - 1) hLT (by omega)) hR
    have hdl : s.tails.dropLast.length = T.length - 1 := by simp [hTl]
    have hmonoR : ∀ a b (ha : a < T.length) (hb : b < T.length), a ≤ b →
        MayFollow strict cmp T[b].1 v → MayFollow strict cmp T[a].1 v :=
      fun a b ha hb hab h => ax.R_left (inv.sorted a b ha hb hab) h
    have hsearch : ∃ r,
        (if strict then binarySearchFunc s.tails.dropLast v (fun idx target => (vs[idx]?).map (cmp · target))
         else bisectRight s.tails.dropLast v (fun idx target => (vs[idx]?).map (cmp · target))) = some r ∧
        r ≤ T.length - 1 ∧
        (∀ k (hk : k < T.length), k < r → MayFollow strict cmp T[k].1 v) ∧
        (∀ k (hk : k < T.length), r ≤ k → k < T.length - 1 → ¬ MayFollow strict cmp T[k].1 v) := by
      obtain ⟨key, hkd⟩ : ∃ key : Nat → Int, ∀ m (h : m < T.length), key m = cmp T[m].1 v :=
        ⟨fun m => if h : m < T.length then cmp T[m].1 v else 0, fun m h => by simp [h]⟩
      have hkey : ∀ m (h : m < s.tails.dropLast.length),
          (fun idx target => (vs[idx]?).map (cmp · target)) s.tails.dropLast[m] v = some (key m) := by
        intro m hm
        have hm1 : m < s.tails.length := by omega
        have hm2 : m < T.length := by omega
        simp only [List.getElem_dropLast, hrel.head m hm1 hm2, Option.map_some, hkd m hm2]
      cases strict
      · obtain ⟨r, hr, hle, hlo, hhi⟩ := bisectRight_spec s.tails.dropLast v
            (fun idx target => (vs[idx]?).map (cmp · target)) key hkey (by
          intro a b hab hb ha
          have hb2 : b < T.length := by omega
          have ha2 : a < T.length := by omega
          rw [hkd a ha2] at ha
          rw [hkd b hb2]
          apply Int.not_le.mp
          intro hle
          have := hmonoR a b ha2 hb2 hab (by simpa [MayFollow] using hle)
          simp only [MayFollow, Bool.false_eq_true, if_false] at this
          omega)
        refine ⟨r, by simpa using hr, by omega, ?_, ?_⟩
        · intro k hk hkr
          have := hlo k hkr
          rw [hkd k hk] at this
          simp only [MayFollow, Bool.false_eq_true, if_false]; omega
        · intro k hk hrk hkl
          have := hhi k hrk (by omega)
          rw [hkd k hk] at this
          simp only [MayFollow, Bool.false_eq_true, if_false]; omega
      · obtain ⟨r, hr, hle, hlo, hhi⟩ := binarySearchFunc_spec s.tails.dropLast v
            (fun idx target => (vs[idx]?).map (cmp · target)) key hkey (by
          intro a b hab hb ha
          have hb2 : b < T.length := by omega
          have ha2 : a < T.length := by omega
          rw [hkd a ha2] at ha
          rw [hkd b hb2]
          intro hlt'
          have := hmonoR a b ha2 hb2 hab (by simpa [MayFollow] using hlt')
          simp only [MayFollow, if_true] at this
          omega)
        refine ⟨r, by simpa using hr, by omega, ?_, ?_⟩
        · intro k hk hkr
          have := hlo k hkr
          rw [hkd k hk] at this
          simpa [MayFollow] using this
        · intro k hk hrk hkl
          have := hhi k hrk (by omega)
          rw [hkd k hk] at this
          simpa [MayFollow] using this
    obtain ⟨r, hr, hrle, hlo, hhi⟩ := hsearch
    have hrc : cnt (MayFollow strict cmp) v T = r := by
      rcases Nat.lt_trichotomy r (cnt (MayFollow strict cmp) v T) with h | h | h
      · have hrL : r < T.length := by omega
        by_cases hr1 : r < T.length - 1
        · exact absurd (cnt_lt (MayFollow strict cmp) v T r hrL h) (hhi r hrL (Nat.le_refl _) hr1)
        · omega
      · exact h.symm
      · exact absurd (hlo _ hlt h) (cnt_stop (MayFollow strict cmp) v T hlt)
    have hrL : r < T.length := by omega
    have hrt : r < s.tails.length := by omega
    have hstep : step (MayFollow strict cmp) T v =
        T.set r (v, if h : r = 0 then [] else (T[r - 1]'(by omega)).chain) := by
      have hne' : r ≠ T.length := by omega
      by_cases h0 : r = 0
      · have hz : ¬ (0 = T.length) := by omega
        simp [step, base, hrc, h0, hz]
      · have : r - 1 < T.length := by omega
        simp [step, base, hrc, hne', h0, List.getElem?_eq_getElem this]
    have hp : (if r = 0 then some (-1 : Int) else (s.tails[r - 1]?).map Int.ofNat) =
        some (if h : r = 0 then (-1 : Int) else ((s.tails[r - 1]'(by omega) : Nat) : Int)) := by
      by_cases h0 : r = 0
      · simp [h0]
      · have : r - 1 < s.tails.length := by omega
        simp [h0, List.getElem?_eq_getElem this]
    have hpb : -1 ≤ (if h : r = 0 then (-1 : Int) else ((s.tails[r - 1]'(by omega) : Nat) : Int)) ∧
        (if h : r = 0 then (-1 : Int) else ((s.tails[r - 1]'(by omega) : Nat) : Int)) < (i : Int) := by
      by_cases h0 : r = 0
      · simp only [dif_pos h0]; omega
      · simp only [dif_neg h0]
        have := wf.tl _ (List.getElem_mem (show r - 1 < s.tails.length by omega))
        omega
    refine ⟨_, lisStep_slow hlast hv hvb (fun h => hR (htest.mp h)) hpl hr hp hrt,
      ⟨?_, ?_, ?_, ?_⟩, ?_⟩
    · simp [wf.plen]
    · intro t ht
      rcases List.mem_or_eq_of_mem_set ht with ht | ht
      · have := wf.tl t ht; omega
      · omega
    · exact hdown _ hpb.1 hpb.2
    · omega
    · rw [hstep]
      refine ⟨by simp [hTl], ?_⟩
      intro k h1 h2
      simp only [List.length_set] at h1 h2
      by_cases hk : k = r
      · subst hk
        simp only [List.getElem_set_self]
        refine .cons hv (List.getElem?_set_self hpl) ?_
        by_cases h0 : k = 0
        · simp only [dif_pos h0]; exact .nil
        · simp only [dif_neg h0]
          exact hstab _ (k - 1) (by omega) (by omega)
      · simp only [List.getElem_set_ne (Ne.symm hk)]
        exact hstab _ k h1 h2

/-! ## the loop and the whole function -/

theorem lisLoop_refines {cmp : α → α → Int} (ok : CmpOK cmp) (strict : Bool) (vs : List α) :
    ∀ (k i : Nat) (s : St) (T : List (Tail α)), i + k = vs.length → WF vs i s → Rel vs s T → T ≠ [] →
    Inv (Le cmp) (MayFollow strict cmp) (vs.take i).reverse T →
    ∃ s', lisLoop strict cmp vs (List.range' i k) s = some s' ∧ WF vs vs.length s' ∧
      Rel vs s' (run (MayFollow strict cmp) T (vs.drop i)) ∧
      run (MayFollow strict cmp) T (vs.drop i) ≠ [] := by
  intro k
  induction k with
  | zero =>
    intro i s T hik wf rel hne _
    have : i = vs.length := by omega
    subst this
    exact ⟨s, by simp [lisLoop], wf, by simpa [run] using rel, by simpa [run] using hne⟩
  | succ k ih =>
    intro i s T hik wf rel hne inv
    have hi : i < vs.length := by omega
    have hv : vs[i]? = some vs[i] := List.getElem?_eq_getElem hi
    obtain ⟨s1, hs1, wf1, rel1⟩ := lisStep_refines ok strict hv wf rel hne inv
    have hne1 : step (MayFollow strict cmp) T vs[i] ≠ [] := by
      have := (step_len_ge (MayFollow strict cmp) T vs[i]).1
      have hL : 0 < T.length := List.length_pos_iff.mpr hne
      intro h
      have h2 : (step (MayFollow strict cmp) T vs[i]).length = 0 := by rw [h]; rfl
      omega
    have inv1 : Inv (Le cmp) (MayFollow strict cmp) (vs.take (i + 1)).reverse
        (step (MayFollow strict cmp) T vs[i]) := by
      have e : (vs.take (i + 1)).reverse = vs[i] :: (vs.take i).reverse := by
        rw [List.take_succ_eq_append_getElem hi, List.reverse_append]; rfl
      rw [e]
      exact step_inv (ax_of_cmp ok strict) inv vs[i]
    obtain ⟨s', hs', wf', rel', hne'⟩ := ih (i + 1) s1 _ (by omega) wf1 rel1 hne1 inv1
    have hdrop : vs.drop i = vs[i] :: vs.drop (i + 1) := List.drop_eq_getElem_cons hi
    refine ⟨s', ?_, wf', ?_, ?_⟩
    · simp [List.range'_succ, lisLoop, hs1, hs']
    · rw [hdrop]; simpa [run] using rel'
    · rw [hdrop]; simpa [run] using hne'

/-- **LISFunc / LNDSFunc** (model `lisCore strict`): for every three-way comparison of a total
preorder the function returns (no read out of range, the searches terminate); the result is a
subsequence of the input in which each element may follow the previous one, and no such
subsequence is longer. -/
theorem lisCore_spec {cmp : α → α → Int} (ok : CmpOK cmp) (strict : Bool) (vs : List α) :
    ∃ r, lisCore strict cmp vs = some r ∧ r.Pairwise (MayFollow strict cmp) ∧ r <+ vs ∧
      ∀ s, s <+ vs → s.Pairwise (MayFollow strict cmp) → s.length ≤ r.length := by
  have ax := ax_of_cmp ok strict
  cases vs with
  | nil =>
    refine ⟨[], by simp [lisCore], by simp, by simp, ?_⟩
    intro s hs _; simp [List.sublist_nil.mp hs]
  | cons v0 rest =>
    have hspec := result_spec (R := MayFollow strict cmp) ax (v0 :: rest)
    -- initial state
    have hT0 : step (MayFollow strict cmp) [] v0 = [(v0, [])] := by simp [step, cnt, base]
    have hwf0 : WF (v0 :: rest) 1
        { tails := [0], prev := (List.replicate (v0 :: rest).length (0 : Int)).set 0 (-1) } := by
      refine ⟨by simp, by simp, ?_, by simp⟩
      intro k p hk hp
      have : k = 0 := by omega
      subst this
      simp at hp
      omega
    have hrel0 : Rel (v0 :: rest)
        { tails := [0], prev := (List.replicate (v0 :: rest).length (0 : Int)).set 0 (-1) }
        [(v0, [])] := by
      refine ⟨by simp, ?_⟩
      intro k h1 h2
      have : k = 0 := by simp at h1; omega
      subst this
      exact .cons (t := 0) (by simp) (by simp) .nil
    have hinv0 : Inv (Le cmp) (MayFollow strict cmp) ((v0 :: rest).take 1).reverse [(v0, [])] := by
      have := step_inv ax (inv_init (le := Le cmp) (R := MayFollow strict cmp)) v0
      rw [hT0] at this
      simpa using this
    obtain ⟨s', hs', wf', rel', hne'⟩ := lisLoop_refines ok strict (v0 :: rest) rest.length 1 _ _
      (by simp; omega) hwf0 hrel0 (by simp) hinv0
    have hrun : run (MayFollow strict cmp) [(v0, [])] ((v0 :: rest).drop 1) =
        run (MayFollow strict cmp) [] (v0 :: rest) := by
      simp [run, hT0]
    rw [hrun] at rel' hne'
    have invF := run_inv ax (v0 :: rest) [] [] (inv_init (le := Le cmp) (R := MayFollow strict cmp))
    simp only [List.append_nil] at invF
    obtain ⟨hTl, hch⟩ := rel'
    have hL : 0 < (run (MayFollow strict cmp) [] (v0 :: rest)).length := List.length_pos_iff.mpr hne'
    have hLt : (run (MayFollow strict cmp) [] (v0 :: rest)).length - 1 < s'.tails.length := by omega
    have hLT : (run (MayFollow strict cmp) [] (v0 :: rest)).length - 1 <
        (run (MayFollow strict cmp) [] (v0 :: rest)).length := by omega
    have hlast : s'.tails.getLast? =
        some s'.tails[(run (MayFollow strict cmp) [] (v0 :: rest)).length - 1] := by
      rw [List.getLast?_eq_getElem?, ← hTl, List.getElem?_eq_getElem hLt]
    have hTlast : (run (MayFollow strict cmp) [] (v0 :: rest)).getLast? =
        some (run (MayFollow strict cmp) [] (v0 :: rest))[(run (MayFollow strict cmp) [] (v0 :: rest)).length - 1] := by
      rw [List.getLast?_eq_getElem?, List.getElem?_eq_getElem hLT]
    have hchain := hch _ hLt hLT
    have hclen := (invF.chain _ hLT).2.2
    have hwalk := walkPrev_chain hchain (Or.inl (by omega))
    have hlen : ((run (MayFollow strict cmp) [] (v0 :: rest))[(run (MayFollow strict cmp) [] (v0 :: rest)).length - 1]).chain.length
        = s'.tails.length := by
      simp only [Tail.chain, List.length_cons, hclen]; omega
    rw [hlen] at hwalk
    have hres : result (MayFollow strict cmp) (v0 :: rest) =
        ((run (MayFollow strict cmp) [] (v0 :: rest))[(run (MayFollow strict cmp) [] (v0 :: rest)).length - 1]).chain.reverse := by
      simp [result, hTlast]
    rw [hres] at hspec
    refine ⟨_, ?_, hspec⟩
    have hset : setAt (List.replicate (v0 :: rest).length (0 : Int)) 0 (-1) =
        some ((List.replicate (v0 :: rest).length (0 : Int)).set 0 (-1)) := by simp [setAt]
    have hrange : (v0 :: rest).length - 1 = rest.length := by simp
    simp only [lisCore, hset, hrange, Option.bind_eq_bind, Option.bind_some, hs', hlast, hwalk]
    simp

end MdsVerif.Proofs.Lis
