import MdsVerif.Model.Slice
import MdsVerif.Proofs.SliceDefs
/-!
# Lemmas about the slice model: windows, tilings, Chunks/Batches loops, indexing
-/
namespace MdsVerif.Proofs.Slice
open MdsVerif.Model.Slice
variable {α : Type}

/-! ### windows -/

theorem window_length (mem : List α) (h : Hdr) (hw : h.WF mem.length) :
    (window mem h).length = h.len := by
  unfold Hdr.WF at hw
  simp only [window, List.length_take, List.length_drop]; omega

/-- a prefix header denotes a prefix of the window -/
theorem window_prefix (mem : List α) (h : Hdr) (l c : Nat) (hl : l ≤ h.len) :
    window mem ⟨h.off, l, c⟩ = (window mem h).take l := by
  simp only [window, List.take_take, Nat.min_eq_left hl]

/-- a suffix header denotes a suffix of the window -/
theorem window_suffix (mem : List α) (h : Hdr) (d c : Nat) :
    window mem ⟨h.off + d, h.len - d, c⟩ = (window mem h).drop d := by
  simp only [window, List.drop_take, List.drop_drop]

/-- reading through a pointer into the window -/
theorem mem_getElem?_window (mem : List α) (h : Hdr) (j : Nat) (hj : j < h.len) :
    mem[h.off + j]? = (window mem h)[j]? := by
  simp [window, hj]

/-! ### writing a window back -/

theorem store_length (mem : List α) (h : Hdr) (hw : h.WF mem.length) (w : List α) (hl : w.length = h.len) :
    (store mem h w).length = mem.length := by
  unfold Hdr.WF at hw
  simp only [store, List.length_append, List.length_take, List.length_drop, hl]; omega

theorem store_take (mem : List α) (h : Hdr) (hw : h.WF mem.length) (w : List α) :
    (store mem h w).take h.off = mem.take h.off := by
  unfold Hdr.WF at hw
  have : (mem.take h.off).length = h.off := by simp; omega
  rw [store, List.append_assoc, List.take_left' this]

theorem store_drop (mem : List α) (h : Hdr) (hw : h.WF mem.length) (w : List α) (hl : w.length = h.len) :
    (store mem h w).drop (h.off + h.len) = mem.drop (h.off + h.len) := by
  unfold Hdr.WF at hw
  have : (mem.take h.off ++ w).length = h.off + h.len := by simp [hl]; omega
  rw [store, List.drop_left' this]

theorem window_store (mem : List α) (h : Hdr) (hw : h.WF mem.length) (w : List α) (hl : w.length = h.len) :
    window (store mem h w) h = w := by
  unfold Hdr.WF at hw
  have h1 : (mem.take h.off).length = h.off := by simp; omega
  rw [window, store, List.append_assoc, List.drop_left' h1, ← hl, List.take_left' rfl]

/-! ### slicing expressions on natural-number bounds -/

theorem slice3_nat (h : Hdr) (i e m : Nat) (h1 : i ≤ e) (h2 : e ≤ m) (h3 : m ≤ h.cap) :
    slice3 h i e m = .ok ⟨h.off + i, e - i, m - i⟩ := by
  unfold slice3
  rw [if_pos (by omega)]
  congr 2 <;> omega

theorem slice2_nat (h : Hdr) (i e : Nat) (h1 : i ≤ e) (h2 : e ≤ h.cap) :
    slice2 h i e = .ok ⟨h.off + i, e - i, h.cap - i⟩ := by
  unfold slice2
  rw [if_pos (by omega)]
  congr 2 <;> omega

/-! ### tilings: consecutive subslices covering an index range -/

/-- `cs` are consecutive headers: the first starts at `a`, each starts where the previous one
stops, the last stops at `b` -/
def Tiles : Nat → Nat → List Hdr → Prop
  | a, b, [] => a = b
  | a, b, c :: cs => c.off = a ∧ Tiles (a + c.len) b cs

theorem tiles_le : ∀ (cs : List Hdr) (a b : Nat), Tiles a b cs → a ≤ b
  | [], a, b, h => by simp only [Tiles] at h; omega
  | c :: cs, a, b, h => by
    have := tiles_le cs _ _ h.2
    omega

/-- the concatenation of a tiling of `[a, b)` is that range of memory -/
theorem tiles_flatten (mem : List α) : ∀ (cs : List Hdr) (a b : Nat), Tiles a b cs → b ≤ mem.length →
    (cs.map (window mem ·)).flatten = (mem.drop a).take (b - a)
  | [], a, b, h, _ => by simp only [Tiles] at h; subst h; simp
  | c :: cs, a, b, h, hb => by
    obtain ⟨h1, h2⟩ := h
    have hle := tiles_le cs _ _ h2
    rw [List.map_cons, List.flatten_cons, tiles_flatten mem cs _ _ h2 hb]
    simp only [window, h1]
    have e : b - a = c.len + (b - (a + c.len)) := by omega
    rw [e, List.take_add, List.drop_drop]

/-- the concatenation of a tiling of a slice is the slice -/
theorem tiles_window (mem : List α) (h : Hdr) (hw : h.WF mem.length) (cs : List Hdr)
    (ht : Tiles h.off h.stop cs) : (cs.map (window mem ·)).flatten = window mem h := by
  unfold Hdr.WF at hw
  unfold Hdr.stop at ht
  rw [tiles_flatten mem cs _ _ ht (by omega)]
  simp only [window]; congr 1; omega

/-! ### Chunks -/

theorem chunksLoop_done (h : Hdr) (n f i : Nat) (hi : h.len ≤ i) : chunksLoop h n f i = .ok [] := by
  cases f <;> simp [chunksLoop_zero, chunksLoop_succ, Nat.not_lt.mpr hi]

theorem mem_dropLast_cons {β : Type} (c x : β) (cs : List β) (hx : x ∈ (c :: cs).dropLast) :
    (x = c ∧ cs ≠ []) ∨ x ∈ cs.dropLast := by
  cases cs with
  | nil => simp at hx
  | cons d ds =>
    rw [List.dropLast_cons_cons] at hx
    rcases List.mem_cons.mp hx with h | h
    · exact Or.inl ⟨h, by simp⟩
    · exact Or.inr h

theorem chunksLoop_spec (h : Hdr) (hc : h.len ≤ h.cap) (n : Nat) (hn : 0 < n) :
    ∀ (f i : Nat), i ≤ h.len → h.len - i ≤ f →
    ∃ cs, chunksLoop h n f i = .ok cs ∧ Tiles (h.off + i) (h.off + h.len) cs ∧
      (i < h.len → cs ≠ []) ∧
      (∀ c ∈ cs, c.cap = c.len ∧ 0 < c.len ∧ c.len ≤ n) ∧
      (∀ c ∈ cs.dropLast, c.len = n) := by
  intro f
  induction f with
  | zero =>
    intro i hi hf
    have : i = h.len := by omega
    subst this
    exact ⟨[], by simp [chunksLoop_zero, chunksLoop_succ], by simp [Tiles], by omega, by simp, by simp⟩
  | succ f ih =>
    intro i hi hf
    by_cases hlt : i < h.len
    · have he1 : i ≤ min (i + n) h.len := by omega
      have he2 : min (i + n) h.len ≤ h.len := by omega
      obtain ⟨cs, hcs, ht, hne, hall, hdl⟩ := ih (min (i + n) h.len) he2 (by omega)
      refine ⟨⟨h.off + i, min (i + n) h.len - i, min (i + n) h.len - i⟩ :: cs, ?_, ?_, ?_, ?_, ?_⟩
      · simp only [chunksLoop_zero, chunksLoop_succ, if_pos hlt]
        rw [slice3_nat h _ _ _ he1 (Nat.le_refl _) (by omega)]
        simp only [Res.bind, hcs, Res.map]
      · refine ⟨rfl, ?_⟩
        have : h.off + i + (min (i + n) h.len - i) = h.off + min (i + n) h.len := by omega
        simp only [this]; exact ht
      · intro _; simp
      · intro c hcm
        rcases List.mem_cons.mp hcm with rfl | hcm
        · refine ⟨rfl, ?_, ?_⟩ <;> simp only <;> omega
        · exact hall c hcm
      · intro c hcm
        rcases mem_dropLast_cons _ _ _ hcm with ⟨rfl, hne'⟩ | hcm
        · -- there is a next chunk, so this one is full
          have : min (i + n) h.len < h.len := by
            rcases Nat.lt_or_ge (min (i + n) h.len) h.len with h' | h'
            · exact h'
            · exfalso
              rw [chunksLoop_done h n f _ h'] at hcs
              cases hcs; exact hne' rfl
          simp only; omega
        · exact hdl c hcm
    · have : i = h.len := by omega
      subst this
      exact ⟨[], by simp [chunksLoop_zero, chunksLoop_succ], by simp [Tiles], by omega, by simp, by simp⟩

/-! ### Batches -/

theorem batchesLoop_spec (h : Hdr) (hc : h.len ≤ h.cap) (size : Nat) (hs : 0 < size) :
    ∀ (f i rem cnt : Nat), i ≤ h.len → h.len - i = size * cnt + rem → rem ≤ cnt → cnt ≤ f →
    ∃ bs, batchesLoop h size f i rem = .ok bs ∧ bs.length = cnt ∧
      Tiles (h.off + i) (h.off + h.len) bs ∧
      (∀ b ∈ bs, b.cap = b.len ∧ (b.len = size ∨ b.len = size + 1)) := by
  intro f
  induction f with
  | zero =>
    intro i rem cnt hi hrem hrc hcf
    have hc0 : cnt = 0 := by omega
    subst hc0
    have : i = h.len := by simp at hrem; omega
    subst this
    exact ⟨[], by simp [batchesLoop_zero, batchesLoop_succ], rfl, by simp [Tiles], by simp⟩
  | succ f ih =>
    intro i rem cnt hi hrem hrc hcf
    by_cases hlt : i < h.len
    · -- at least one batch remains
      have hcnt : 0 < cnt := by
        rcases Nat.eq_zero_or_pos cnt with h0 | h0
        · subst h0; simp at hrem; omega
        · exact h0
      obtain ⟨cnt', rfl⟩ : ∃ c', cnt = c' + 1 := ⟨cnt - 1, by omega⟩
      rw [Nat.mul_succ] at hrem
      by_cases hr : rem > 0
      · obtain ⟨bs, hbs, hl, ht, hall⟩ := ih (i + size + 1) (rem - 1) cnt' (by omega) (by omega) (by omega) (by omega)
        refine ⟨⟨h.off + i, size + 1, size + 1⟩ :: bs, ?_, by simp [hl], ?_, ?_⟩
        · simp only [batchesLoop_zero, batchesLoop_succ, if_pos hlt, if_pos hr]
          rw [slice3_nat h _ _ _ (by omega) (Nat.le_refl _) (by omega)]
          have e : i + size + 1 - i = size + 1 := by omega
          simp only [Res.bind, hbs, Res.map, e]
        · refine ⟨rfl, ?_⟩
          have : h.off + i + (size + 1) = h.off + (i + size + 1) := by omega
          simp only [this]; exact ht
        · intro b hb
          rcases List.mem_cons.mp hb with rfl | hb
          · exact ⟨rfl, Or.inr rfl⟩
          · exact hall b hb
      · have hr0 : rem = 0 := by omega
        subst hr0
        obtain ⟨bs, hbs, hl, ht, hall⟩ := ih (i + size) 0 cnt' (by omega) (by omega) (by omega) (by omega)
        refine ⟨⟨h.off + i, size, size⟩ :: bs, ?_, by simp [hl], ?_, ?_⟩
        · simp only [batchesLoop_zero, batchesLoop_succ, if_pos hlt, if_neg hr]
          rw [slice3_nat h _ _ _ (by omega) (Nat.le_refl _) (by omega)]
          have e : i + size - i = size := by omega
          simp only [Res.bind, hbs, Res.map, e]
        · refine ⟨rfl, ?_⟩
          have : h.off + i + size = h.off + (i + size) := by omega
          simp only [this]; exact ht
        · intro b hb
          rcases List.mem_cons.mp hb with rfl | hb
          · exact ⟨rfl, Or.inl rfl⟩
          · exact hall b hb
    · have : i = h.len := by omega
      subst this
      have hc0 : cnt = 0 := by
        rcases Nat.eq_zero_or_pos cnt with h0 | h0
        · exact h0
        · exfalso
          have : size * 1 ≤ size * cnt := Nat.mul_le_mul_left size h0
          omega
      subst hc0
      exact ⟨[], by simp [batchesLoop_zero, batchesLoop_succ], rfl, by simp [Tiles], by simp⟩

end MdsVerif.Proofs.Slice
