import MdsVerif.Proofs.Ring
/-!
# Every cell of a well-formed ring heap lies on a cycle (helper lemmas for C10, audit item 7)

`Inv h` says that `next` and `prev` are mutually inverse and stay inside the heap, i.e. `next` is a
bijection of the finite set of allocated cells.  Then the orbit of any cell `r` under `next` returns
to `r` within `h.size` steps: among the `size + 1` iterates `r, next r, …, next^size r` two coincide
(pigeonhole), and since `next` is injective the earlier one can be pulled back to `r` itself.  The
iterates up to the first return form a duplicate-free list: `Cyc h (r :: l)`.

Core Lean only (the pigeonhole step is `List.Nodup.length_le_of_subset` into `List.range size`).
-/
namespace MdsVerif.Proofs.Ring
open MdsVerif.Model.Ring

/-- the `k`-th iterate of `next` from `r` -/
def orb (h : Heap) (r : Nat) : Nat → Nat
  | 0 => r
  | k + 1 => h.nx (orb h r k)

theorem orb_lt (h : Heap) (hi : Inv h) (r : Nat) (hr : r < h.size) : ∀ k, orb h r k < h.size
  | 0 => hr
  | k + 1 => hi.nlt _ (orb_lt h hi r hr k)

/-- injectivity of `next` pulls a coincidence of two iterates back to the start -/
theorem orb_cancel (h : Heap) (hi : Inv h) (r : Nat) (hr : r < h.size) :
    ∀ i d, orb h r i = orb h r (i + d) → r = orb h r d := by
  intro i
  induction i with
  | zero => intro d e; simpa [orb] using e
  | succ i ih =>
    intro d e
    have e' : h.nx (orb h r i) = h.nx (orb h r (i + d)) := by
      have : i + 1 + d = (i + d) + 1 := by omega
      rw [this] at e; exact e
    exact ih d (nx_inj h hi _ _ (orb_lt h hi r hr _) (orb_lt h hi r hr _) e')

/-- the first `n` iterates starting with the `s`-th -/
def orbL (h : Heap) (r : Nat) : Nat → Nat → List Nat
  | _, 0 => []
  | s, n + 1 => orb h r s :: orbL h r (s + 1) n

theorem orbL_length (h : Heap) (r : Nat) : ∀ n s, (orbL h r s n).length = n
  | 0, _ => rfl
  | n + 1, s => by simp [orbL, orbL_length h r n]

theorem mem_orbL (h : Heap) (r : Nat) : ∀ n s x, x ∈ orbL h r s n ↔ ∃ j, s ≤ j ∧ j < s + n ∧ x = orb h r j
  | 0, s, x => by simp [orbL]; intro j h1 h2; omega
  | n + 1, s, x => by
    simp only [orbL, List.mem_cons, mem_orbL h r n (s + 1) x]
    constructor
    · rintro (e | ⟨j, h1, h2, e⟩)
      · exact ⟨s, Nat.le_refl _, by omega, e⟩
      · exact ⟨j, by omega, by omega, e⟩
    · rintro ⟨j, h1, h2, e⟩
      by_cases hj : j = s
      · subst hj; exact Or.inl e
      · exact Or.inr ⟨j, by omega, by omega, e⟩

theorem orbL_headD (h : Heap) (r : Nat) (n s : Nat) : (orbL h r s n).headD (orb h r (s + n)) = orb h r s := by
  cases n with
  | zero => rfl
  | succ n => rfl

theorem orbL_lk (h : Heap) (r : Nat) : ∀ n s, Lk h (orbL h r s n) (orb h r (s + n))
  | 0, _ => trivial
  | n + 1, s => by
    have e : s + (n + 1) = (s + 1) + n := by omega
    refine ⟨?_, ?_⟩
    · rw [e, orbL_headD]; rfl
    · rw [e]; exact orbL_lk h r n (s + 1)

/-- as long as `r` has not come up again the iterates are pairwise different -/
theorem orbL_nodup (h : Heap) (hi : Inv h) (r : Nat) (hr : r < h.size) (p : Nat)
    (hp : ∀ q, 1 ≤ q → q < p → orb h r q ≠ r) : ∀ n s, s + n ≤ p → (orbL h r s n).Nodup
  | 0, _, _ => List.nodup_nil
  | n + 1, s, hs => by
    simp only [orbL, List.nodup_cons]
    refine ⟨?_, orbL_nodup h hi r hr p hp n (s + 1) (by omega)⟩
    intro hm
    obtain ⟨j, h1, h2, e⟩ := (mem_orbL h r n (s + 1) _).mp hm
    have : j = s + (j - s) := by omega
    rw [this] at e
    exact hp (j - s) (by omega) (by omega) (orb_cancel h hi r hr s (j - s) e).symm

/-- pigeonhole: the orbit returns to `r` after at most `size` steps -/
theorem orb_returns (h : Heap) (hi : Inv h) (r : Nat) (hr : r < h.size) :
    ∃ p, 1 ≤ p ∧ p ≤ h.size ∧ orb h r p = r := by
  apply Classical.byContradiction
  intro hno
  have hp : ∀ q, 1 ≤ q → q < h.size + 1 → orb h r q ≠ r := fun q h1 h2 e => hno ⟨q, h1, by omega, e⟩
  have nd := orbL_nodup h hi r hr (h.size + 1) hp (h.size + 1) 0 (by omega)
  have := List.Nodup.length_le_of_subset nd (l₂ := List.range h.size) (fun x hx => by
    obtain ⟨j, _, _, e⟩ := (mem_orbL h r _ 0 x).mp hx
    rw [e]; exact List.mem_range.mpr (orb_lt h hi r hr j))
  rw [orbL_length, List.length_range] at this
  omega

/-- the least positive period -/
theorem orb_period (h : Heap) (hi : Inv h) (r : Nat) (hr : r < h.size) :
    ∃ p, 1 ≤ p ∧ p ≤ h.size ∧ orb h r p = r ∧ ∀ q, 1 ≤ q → q < p → orb h r q ≠ r := by
  obtain ⟨p0, h1, h2, h3⟩ := orb_returns h hi r hr
  -- least such `p`, by strong induction on the bound
  suffices H : ∀ n p, p ≤ n → 1 ≤ p → orb h r p = r →
      ∃ p', 1 ≤ p' ∧ p' ≤ p ∧ orb h r p' = r ∧ ∀ q, 1 ≤ q → q < p' → orb h r q ≠ r by
    obtain ⟨p', a, b, c, d⟩ := H p0 p0 (Nat.le_refl _) h1 h3
    exact ⟨p', a, by omega, c, d⟩
  intro n
  induction n with
  | zero => intro p hp h1; omega
  | succ n ih =>
    intro p hp h1 he
    by_cases hq : ∃ q, 1 ≤ q ∧ q < p ∧ orb h r q = r
    · obtain ⟨q, q1, q2, q3⟩ := hq
      obtain ⟨p', a, b, c, d⟩ := ih q (by omega) q1 q3
      exact ⟨p', a, by omega, c, d⟩
    · exact ⟨p, h1, Nat.le_refl _, he, fun q q1 q2 e => hq ⟨q, q1, q2, e⟩⟩

/-- **cycle existence**: in a well-formed heap every cell lies on a cycle of `next`, listed from the
cell itself by a duplicate-free list of at most `size` cells -/
theorem cyc_exists (h : Heap) (hi : Inv h) (r : Nat) (hr : r < h.size) : ∃ l, Cyc h (r :: l) := by
  obtain ⟨p, h1, _, h3, h4⟩ := orb_period h hi r hr
  obtain ⟨n, rfl⟩ : ∃ n, p = n + 1 := ⟨p - 1, by omega⟩
  refine ⟨orbL h r 1 n, ?_⟩
  have hc : r :: orbL h r 1 n = orbL h r 0 (n + 1) := rfl
  rw [hc]
  refine ⟨by simp [orbL], ?_, orbL_nodup h hi r hr (n + 1) h4 (n + 1) 0 (by omega), ?_⟩
  · have := orbL_lk h r (n + 1) 0
    simp only [Nat.zero_add, h3] at this
    simpa [orbL, orb] using this
  · intro i hm
    obtain ⟨j, _, _, e⟩ := (mem_orbL h r _ 0 i).mp hm
    rw [e]; exact orb_lt h hi r hr j

/-! ## uniqueness: the list is determined by the cell it starts from -/

/-- a `next`-path from `a` is the list of iterates of `a` -/
theorem lk_eq_orbL (h : Heap) : ∀ (l : List Nat) (a e : Nat), Lk h (a :: l) e →
    a :: l = orbL h a 0 (l.length + 1) ∧ e = orb h a (l.length + 1) := by
  intro l
  induction l with
  | nil => intro a e hl; simp only [Lk, List.headD_nil, and_true] at hl; simp [orbL, orb, hl]
  | cons b l ih =>
    intro a e hl
    simp only [Lk, List.headD_cons] at hl
    obtain ⟨e1, e2⟩ := ih b e (by simpa [Lk] using hl.2)
    -- shift: iterates of `b = next a` are the iterates of `a`, one later
    have shift : ∀ k, orb h b k = orb h a (k + 1) := by
      intro k; induction k with
      | zero => simp [orb, hl.1]
      | succ k ihk => simp [orb, ihk]
    have shiftL : ∀ n s, orbL h b s n = orbL h a (s + 1) n := by
      intro n; induction n with
      | zero => intro s; rfl
      | succ n ihn => intro s; simp [orbL, shift, ihn]
    refine ⟨?_, by rw [e2, shift]; rfl⟩
    show a :: b :: l = orb h a 0 :: orbL h a 1 (l.length + 1)
    rw [← shiftL, ← e1]; rfl

/-- two cycle lists read from the same cell are equal -/
theorem cyc_unique (h : Heap) (r : Nat) (l l' : List Nat) (c : Cyc h (r :: l)) (c' : Cyc h (r :: l')) :
    l = l' := by
  have hr := c.bound r (by simp)
  -- both lengths are the least positive period
  have key : ∀ (l1 l2 : List Nat), Cyc h (r :: l1) → Cyc h (r :: l2) → l1.length ≤ l2.length := by
    intro l1 l2 c1 c2
    obtain ⟨e1, p1⟩ := lk_eq_orbL h l1 r r (by simpa using c1.lk)
    obtain ⟨e2, p2⟩ := lk_eq_orbL h l2 r r (by simpa using c2.lk)
    apply Classical.byContradiction
    intro hlt
    -- then `orb (l2.length+1) = r` is an element of `l1`, but `r ∉ l1`
    have hn := c1.nodup
    rw [List.nodup_cons] at hn
    apply hn.1
    have hm : r ∈ orbL h r 1 l1.length := by
      rw [mem_orbL]; exact ⟨l2.length + 1, by omega, by omega, p2⟩
    have : l1 = orbL h r 1 l1.length := by
      have := e1; simp only [orbL] at this
      exact (List.cons.inj this).2
    rw [this]; exact hm
  have hlen : l.length = l'.length := Nat.le_antisymm (key l l' c c') (key l' l c' c)
  obtain ⟨e1, _⟩ := lk_eq_orbL h l r r (by simpa using c.lk)
  obtain ⟨e2, _⟩ := lk_eq_orbL h l' r r (by simpa using c'.lk)
  rw [hlen] at e1
  exact (List.cons.inj (e1.trans e2.symm)).2

/-! ## rotation: a cycle can be read from any of its elements -/

theorem headD_of_ne_nil (l : List Nat) (hl : l ≠ []) (x y : Nat) : l.headD x = l.headD y := by
  cases l with
  | nil => exact absurd rfl hl
  | cons a l => rfl

theorem headD_append_of_ne_nil (a b : List Nat) (ha : a ≠ []) (x y : Nat) : (a ++ b).headD x = a.headD y := by
  cases a with
  | nil => exact absurd rfl ha
  | cons a l => rfl

theorem cyc_rotate (h : Heap) (a b : List Nat) (ha : a ≠ []) (hb : b ≠ []) (c : Cyc h (a ++ b)) :
    Cyc h (b ++ a) := by
  refine ⟨by simp [ha], ?_, ?_, ?_⟩
  · have l := c.lk
    rw [lk_append] at l
    rw [lk_append]
    rw [headD_append_of_ne_nil a b ha 0 0] at l
    rw [headD_append_of_ne_nil b a hb 0 0]
    refine ⟨?_, ?_⟩
    · rw [headD_of_ne_nil a ha _ 0]; exact l.2
    · rw [headD_of_ne_nil b hb _ (a.headD 0)]; exact l.1
  · have := c.nodup
    rw [List.nodup_append] at this ⊢
    exact ⟨this.2.1, this.1, fun x hx y hy e => this.2.2 y hy x hx e.symm⟩
  · intro i hm
    apply c.bound
    rw [List.mem_append] at hm ⊢
    exact hm.symm

/-- a cycle can be read from any of its elements; the list is a rotation -/
theorem cyc_from_mem (h : Heap) (c : List Nat) (hc : Cyc h c) (x : Nat) (hx : x ∈ c) :
    ∃ a b, c = a ++ x :: b ∧ Cyc h (x :: (b ++ a)) := by
  obtain ⟨a, b, e⟩ := List.append_of_mem hx
  refine ⟨a, b, e, ?_⟩
  by_cases ha : a = []
  · subst ha; simpa [e] using hc
  · have := cyc_rotate h a (x :: b) ha (by simp) (e ▸ hc)
    simpa using this

/-- the successor of an element of a cycle is on the cycle -/
theorem cyc_nx_mem (h : Heap) (c : List Nat) (hc : Cyc h c) (x : Nat) (hx : x ∈ c) : h.nx x ∈ c := by
  obtain ⟨a, b, e, c'⟩ := cyc_from_mem h c hc x hx
  have l := c'.lk
  simp only [Lk, List.headD_cons] at l
  rw [l.1, e]
  cases b with
  | nil => cases a <;> simp
  | cons q b => simp

theorem cyc_orb_mem (h : Heap) (c : List Nat) (hc : Cyc h c) (x : Nat) (hx : x ∈ c) : ∀ k, orb h x k ∈ c
  | 0 => hx
  | k + 1 => cyc_nx_mem h c hc _ (cyc_orb_mem h c hc x hx k)

/-- two cycles with a common element have the same elements -/
theorem cyc_mem_of_common (h : Heap) (c1 c2 : List Nat) (h1 : Cyc h c1) (h2 : Cyc h c2) (x : Nat)
    (x1 : x ∈ c1) (x2 : x ∈ c2) : ∀ y ∈ c2, y ∈ c1 := by
  intro y hy
  obtain ⟨a, b, e, c'⟩ := cyc_from_mem h c2 h2 x x2
  obtain ⟨e', _⟩ := lk_eq_orbL h (b ++ a) x x (by simpa using c'.lk)
  have hy' : y ∈ x :: (b ++ a) := by
    rw [e] at hy
    simp only [List.mem_append, List.mem_cons] at hy ⊢
    rcases hy with hy | hy | hy
    · exact Or.inr (Or.inr hy)
    · exact Or.inl hy
    · exact Or.inr (Or.inl hy)
  rw [e'] at hy'
  obtain ⟨j, _, _, ej⟩ := (mem_orbL h x _ 0 y).mp hy'
  rw [ej]; exact cyc_orb_mem h c1 h1 x x1 j

/-- the cycles through two cells are equal as sets or disjoint -/
theorem cyc_disjoint_of_not_mem (h : Heap) (c1 c2 : List Nat) (h1 : Cyc h c1) (h2 : Cyc h c2) (s : Nat)
    (s2 : s ∈ c2) (hs : s ∉ c1) : ∀ x ∈ c1, x ∉ c2 :=
  fun x x1 x2 => hs (cyc_mem_of_common h c1 c2 h1 h2 x x1 x2 s s2)

/-! ## `Join` and `Pop` produce exactly the documented cycles (stated in `Props/C10.lean`) -/

theorem join_different (h : Heap) (hi : Inv h) (r s : Nat) (rs ss : List Nat)
    (c1 : Cyc h (r :: rs)) (c2 : Cyc h (s :: ss)) (hd : ∀ x ∈ r :: rs, x ∉ s :: ss) :
    ∃ h', join h (some r) (some s) = .ok (h', some (rs.headD r)) ∧
      Cyc h' (r :: ((s :: ss) ++ rs)) ∧ Inv h' ∧ h'.size = h.size ∧ h'.vals = h.vals := by
  obtain ⟨cs, c, hsn⟩ := exists_snoc (s :: ss) (by simp)
  have hr := c1.bound r (by simp)
  have hs := c2.bound s (by simp)
  have hnr : h.nx r = rs.headD r := by have := c1.lk; simp only [Lk, List.headD_cons] at this; exact this.1
  have h1 : r ≠ s := fun e => hd r (by simp) (by simp [e])
  have h2 : h.nx r ≠ s := by
    rw [hnr]; intro e
    have : rs.headD r ∈ r :: rs := by cases rs <;> simp
    exact hd _ this (by rw [e]; simp)
  have hpv : h.pv s = c := by
    have := cyc_pv_head h hi cs c (hsn ▸ c2)
    rw [← hsn] at this; simpa using this
  obtain ⟨h', e, sz, v, i', hnx⟩ := join_nx h hi r s hr hs h1 h2
  refine ⟨h', by rw [e, hnr], ?_, i', sz, v⟩
  rw [hsn]
  apply exchange_merge h h' r c rs cs sz ?_ c1 (hsn ▸ c2) (by rw [← hsn]; exact hd)
  intro k; rw [hnx k, hpv]

theorem join_same (h : Heap) (hi : Inv h) (r c s : Nat) (m rest : List Nat)
    (c1 : Cyc h (r :: ((m ++ [c]) ++ (s :: rest)))) :
    ∃ h', join h (some r) (some s) = .ok (h', some ((m ++ [c]).headD 0)) ∧
      Cyc h' (r :: s :: rest) ∧ Cyc h' (m ++ [c]) ∧ Inv h' ∧ h'.size = h.size ∧ h'.vals = h.vals := by
  have hr := c1.bound r (by simp)
  have hs := c1.bound s (by simp)
  have hc := c1.bound c (by simp)
  have l := c1.lk
  simp only [Lk, List.headD_cons] at l
  obtain ⟨la, l⟩ := l
  rw [lk_append, lk_append] at l
  simp only [Lk, List.headD_cons, List.headD_nil, and_true] at l
  have hnr : h.nx r = (m ++ [c]).headD 0 := by rw [la]; exact headD_snoc_append m c (s :: rest) r 0
  have hnc : h.nx c = s := l.1.2
  have hpv : h.pv s = c := by rw [← hnc]; exact hi.pn c hc
  have nd := c1.nodup
  rw [List.nodup_cons, List.nodup_append] at nd
  have h1 : r ≠ s := fun e => nd.1 (by simp [e])
  have h2 : h.nx r ≠ s := by
    rw [hnr]; intro e
    have : (m ++ [c]).headD 0 ∈ m ++ [c] := by cases m <;> simp
    exact nd.2.2.2 _ this s (by simp) e
  obtain ⟨h', e, sz, v, i', hnx⟩ := join_nx h hi r s hr hs h1 h2
  have := exchange_split h h' r c m (s :: rest) sz (by intro k; rw [hnx k, hpv]) c1
  exact ⟨h', by rw [e, hnr], this.1, this.2, i', sz, v⟩

theorem pop_cyc (h : Heap) (hi : Inv h) (a r : Nat) (rest : List Nat) (c1 : Cyc h (a :: r :: rest)) :
    Cyc (pop h (some r)) [r] ∧ Cyc (pop h (some r)) (a :: rest) ∧ Inv (pop h (some r)) ∧
      (pop h (some r)).size = h.size ∧ (pop h (some r)).vals = h.vals := by
  have ha := c1.bound a (by simp)
  have hr := c1.bound r (by simp)
  have l := c1.lk
  simp only [Lk, List.headD_cons] at l
  have hpv : h.pv r = a := by rw [← l.1]; exact hi.pn a ha
  have nd := c1.nodup
  rw [List.nodup_cons] at nd
  have har : a ≠ r := fun e => nd.1 (by simp [e])
  have hc : h.pv r ≠ r := by rw [hpv]; exact har
  obtain ⟨i', sz, v, _, _⟩ := pop_inv h hi r hr
  have := exchange_split h (pop h (some r)) a r [] rest sz
    (by intro k; rw [pop_nx h hi r hr hc k, hpv]) (by simpa using c1)
  exact ⟨by simpa using this.2, this.1, i', sz, v⟩

theorem pop_singleton (h : Heap) (hi : Inv h) (r : Nat) (c1 : Cyc h [r]) : pop h (some r) = h := by
  have l := c1.lk
  simp only [Lk, List.headD_cons, List.headD_nil, and_true] at l
  have : h.pv r = r := by have := hi.pn r (c1.bound r (by simp)); rw [l] at this; exact this
  simp [pop_some, this]

theorem pop_any (h : Heap) (hi : Inv h) (r : Nat) (hr : r < h.size) :
    ∃ l, Cyc h (r :: l) ∧ (l = [] → pop h (some r) = h) ∧
      (l ≠ [] → Cyc (pop h (some r)) [r] ∧ Cyc (pop h (some r)) l) ∧
      Inv (pop h (some r)) ∧ (pop h (some r)).size = h.size ∧ (pop h (some r)).vals = h.vals := by
  obtain ⟨l, c⟩ := cyc_exists h hi r hr
  obtain ⟨i', sz, v, _, _⟩ := pop_inv h hi r hr
  refine ⟨l, c, fun e => pop_singleton h hi r (e ▸ c), fun hne => ?_, i', sz, v⟩
  obtain ⟨m, a, e⟩ := exists_snoc l hne
  subst e
  -- read the cycle from `a = r.prev`: `a :: r :: m`
  have c' : Cyc h (a :: r :: m) := by
    have := cyc_rotate h (r :: m) [a] (by simp) (by simp) (by simpa using c)
    simpa using this
  obtain ⟨p1, p2, _⟩ := pop_cyc h hi a r m c'
  refine ⟨p1, ?_⟩
  by_cases hm : m = []
  · subst hm; simpa using p2
  · have := cyc_rotate (pop h (some r)) [a] m (by simp) hm (by simpa using p2)
    exact this

theorem join_any (h : Heap) (hi : Inv h) (r s : Nat) (hr : r < h.size) (hs : s < h.size) :
    ∃ l, Cyc h (r :: l) ∧
      ((s = r ∨ l.head? = some s) → join h (some r) (some s) = .ok (h, none)) ∧
      (∀ m rest, l = m ++ s :: rest → m ≠ [] →
        ∃ h', join h (some r) (some s) = .ok (h', m.head?) ∧ Cyc h' (r :: s :: rest) ∧ Cyc h' m ∧
          Inv h' ∧ h'.size = h.size ∧ h'.vals = h.vals) ∧
      (s ∉ r :: l → ∃ l' h', Cyc h (s :: l') ∧ join h (some r) (some s) = .ok (h', some (l.headD r)) ∧
          Cyc h' (r :: ((s :: l') ++ l)) ∧ Inv h' ∧ h'.size = h.size ∧ h'.vals = h.vals) ∧
      (s = r ∨ s ∈ l ∨ s ∉ r :: l) := by
  obtain ⟨l, c⟩ := cyc_exists h hi r hr
  have hnr : h.nx r = l.headD r := by have := c.lk; simp only [Lk, List.headD_cons] at this; exact this.1
  refine ⟨l, c, ?_, ?_, ?_, ?_⟩
  · intro hc
    have : (r = s || h.nx r = s) = true := by
      rcases hc with e | e
      · simp [e]
      · cases l with
        | nil => simp at e
        | cons q l => simp at e; simp [hnr, e]
    simp [join_ss, this]
  · intro m rest e hm
    obtain ⟨m', cc, e'⟩ := exists_snoc m hm
    subst e' e
    obtain ⟨h', j, c1, c2, i', sz, v⟩ := join_same h hi r cc s m' rest (by simpa using c)
    refine ⟨h', ?_, c1, c2, i', sz, v⟩
    rw [j]; cases m' <;> simp
  · intro hns
    obtain ⟨l', c2⟩ := cyc_exists h hi s hs
    have hd := cyc_disjoint_of_not_mem h _ _ c c2 s (by simp) hns
    obtain ⟨h', j, c3, i', sz, v⟩ := join_different h hi r s l l' c c2 hd
    exact ⟨l', h', c2, j, c3, i', sz, v⟩
  · by_cases e : s = r
    · exact Or.inl e
    · by_cases hm : s ∈ l
      · exact Or.inr (Or.inl hm)
      · exact Or.inr (Or.inr (by simp [e, hm]))

end MdsVerif.Proofs.Ring
