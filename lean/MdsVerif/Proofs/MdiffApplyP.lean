import MdsVerif.Proofs.MdiffApply
namespace MdsVerif.Proofs.MdiffApply
open MdsVerif.Model.Edit MdsVerif.Model.Mdiff MdsVerif.Model.MdiffFmt MdsVerif.Proofs.MdiffFmt
open MdsVerif.Spec MdsVerif.Spec.Mdiff MdsVerif.Proofs.Mdiff MdsVerif.Gen

/-! ## the edits inside the chunks of `AddContext` and `Unify`

`Good Q c`: every edit of `c` satisfies `Q` and `c` has an edit that is not an Emit.  For a `Q`
that holds of every Emit, `AddContext` (it only adds Emits) and `UnifyChunks` (it trims, drops and
fuses Emits at chunk boundaries and concatenates edit lists) preserve `Good Q` of all chunks. -/

section good
variable {α : Type}

def Good (Q : Edit α → Prop) (c : Chunk α) : Prop :=
  (∀ e ∈ c.edits, Q e) ∧ ∃ e ∈ c.edits, e.op ≠ .emit

theorem good_of_edits {Q : Edit α → Prop} {c d : Chunk α} (hQ : ∀ e, e.op = .emit → Q e)
    (h : Good Q c) (hsub : ∀ e ∈ d.edits, e ∈ c.edits ∨ e.op = .emit)
    (hsup : ∀ e ∈ c.edits, e.op ≠ .emit → e ∈ d.edits) : Good Q d := by
  refine ⟨?_, ?_⟩
  · intro e he
    rcases hsub e he with h' | h'
    · exact h.1 e h'
    · exact hQ e h'
  · obtain ⟨e, he, hne⟩ := h.2
    exact ⟨e, hsup e he hne, hne⟩

theorem mem_emitOpt {p : List α} {e : Edit α} (h : e ∈ emitOpt p) : e.op = .emit := by
  unfold emitOpt at h
  split at h
  · cases h
  · rw [List.mem_singleton.mp h]

theorem withCtx_good {Q : Edit α → Prop} (hQ : ∀ e, e.op = .emit → Q e) {c : Chunk α}
    (h : Good Q c) (pre post : List α) : Good Q (withCtx c pre post) := by
  apply good_of_edits hQ h
  · intro e he
    rw [withCtx_eq] at he
    simp only [List.mem_append] at he
    rcases he with (he | he) | he
    · exact Or.inr (mem_emitOpt he)
    · exact Or.inl he
    · exact Or.inr (mem_emitOpt he)
  · intro e he _
    rw [withCtx_eq]
    simp only [List.mem_append]
    exact Or.inl (Or.inr he)

theorem addCtxLoop_good [DecidableEq α] {Q : Edit α → Prop} (hQ : ∀ e, e.op = .emit → Q e)
    (b : Bool) (L R : List α) (n : Nat) : ∀ (cs : List (Chunk α)) (p : Nat) (cs' : List (Chunk α)),
    (∀ c ∈ cs, Good Q c) → addCtxLoop b L R n p cs = some cs' → ∀ c ∈ cs', Good Q c
  | [], p, cs', _, h => by
    simp only [addCtxLoop, Option.some.injEq] at h
    subst h; intro c hc; cases hc
  | c :: rest, p, cs', hg, h => by
    rw [addCtxLoop.eq_def] at h
    simp only at h
    cases hf : findContext? L R c n with
    | none => rw [hf] at h; cases h
    | some pp =>
      obtain ⟨pre, post⟩ := pp
      rw [hf] at h
      simp only at h
      cases hr : addCtxLoop b L R n c.lend rest with
      | none => rw [hr] at h; cases h
      | some rest' =>
        rw [hr] at h
        simp only [Option.map, Option.some.injEq] at h
        subst h
        intro d hd
        rcases List.mem_cons.mp hd with rfl | hd
        · exact withCtx_good hQ (hg c (by simp)) _ _
        · exact addCtxLoop_good hQ b L R n rest c.lend rest' (fun c' hc' => hg c' (by simp [hc'])) hr d hd

theorem addContextChunks_good [DecidableEq α] {Q : Edit α → Prop} (hQ : ∀ e, e.op = .emit → Q e)
    (L R : List α) (n : Nat) (cs cs' : List (Chunk α)) (hg : ∀ c ∈ cs, Good Q c)
    (h : addContextChunks L R n cs = some cs') : ∀ c ∈ cs', Good Q c := by
  unfold addContextChunks addContextWith at h
  split at h
  · cases h; exact hg
  · exact addCtxLoop_good hQ _ L R n cs 1 cs' hg h

theorem mem_dropLast_of {l : List (Edit α)} {e x : Edit α} (hl : l.getLast? = some e)
    (hx : x ∈ l) : x ∈ l.dropLast ∨ x = e := by
  have hne : l ≠ [] := by intro h; rw [h] at hl; cases hl
  have h1 := List.dropLast_concat_getLast hne
  have h2 : l.getLast hne = e := by
    rw [List.getLast?_eq_some_getLast hne] at hl; exact Option.some.inj hl
  rw [← h1, h2] at hx
  simpa using hx

theorem mem_tail_of {l : List (Edit α)} {s x : Edit α} (hl : l.head? = some s)
    (hx : x ∈ l) : x = s ∨ x ∈ l.tail := by
  cases l with
  | nil => cases hl
  | cons a t =>
    simp only [List.head?_cons, Option.some.injEq] at hl
    subst hl
    simpa using hx

theorem trimOverlap_good {Q : Edit α → Prop} (hQ : ∀ e, e.op = .emit → Q e) {last c l' c' : Chunk α}
    {lap : Nat} (hl : Good Q last) (hc : Good Q c) (h : trimOverlap last c lap = .ok (l', c')) :
    Good Q l' ∧ Good Q c' := by
  unfold trimOverlap at h
  cases hgl : last.edits.getLast? with
  | none => rw [hgl] at h; cases h
  | some e =>
    rw [hgl] at h
    simp only at h
    by_cases hop : e.op = .emit
    · rw [if_pos hop] at h
      simp only [Except.ok.injEq, Prod.mk.injEq] at h
      obtain ⟨rfl, rfl⟩ := h
      refine ⟨?_, hc⟩
      apply good_of_edits hQ hl
      · intro x hx
        simp only at hx
        split at hx
        · exact Or.inl (List.dropLast_subset _ hx)
        · rcases List.mem_append.mp hx with hx | hx
          · exact Or.inl (List.dropLast_subset _ hx)
          · rw [List.mem_singleton.mp hx]; exact Or.inr hop
      · intro x hx hne
        have hxd : x ∈ last.edits.dropLast := by
          rcases mem_dropLast_of hgl hx with h' | h'
          · exact h'
          · rw [h'] at hne; exact absurd hop hne
        simp only
        split
        · exact hxd
        · exact List.mem_append.mpr (Or.inl hxd)
    · rw [if_neg hop] at h
      cases hhd : c.edits.head? with
      | none => rw [hhd] at h; cases h
      | some s =>
        rw [hhd] at h
        simp only at h
        by_cases hs : s.op = .emit
        · rw [if_pos hs] at h
          simp only [Except.ok.injEq, Prod.mk.injEq] at h
          obtain ⟨rfl, rfl⟩ := h
          refine ⟨hl, ?_⟩
          apply good_of_edits hQ hc
          · intro x hx
            simp only at hx
            split at hx
            · exact Or.inl (List.mem_of_mem_tail hx)
            · rcases List.mem_cons.mp hx with hx | hx
              · rw [hx]; exact Or.inr hs
              · exact Or.inl (List.mem_of_mem_tail hx)
          · intro x hx hne
            have hxd : x ∈ c.edits.tail := by
              rcases mem_tail_of hhd hx with h' | h'
              · rw [h'] at hne; exact absurd hs hne
              · exact h'
            simp only
            split
            · exact hxd
            · exact List.mem_cons_of_mem _ hxd
        · rw [if_neg hs] at h
          simp only [Except.ok.injEq, Prod.mk.injEq] at h
          obtain ⟨rfl, rfl⟩ := h
          exact ⟨hl, hc⟩

theorem fuseBoundary_good {Q : Edit α → Prop} (hQ : ∀ e, e.op = .emit → Q e) {last c l' c' : Chunk α}
    (hl : Good Q last) (hc : Good Q c) (h : fuseBoundary last c = .ok (l', c')) :
    Good Q l' ∧ Good Q c' := by
  unfold fuseBoundary at h
  cases hgl : last.edits.getLast? with
  | none => rw [hgl] at h; cases h
  | some e =>
    rw [hgl] at h
    simp only at h
    by_cases hop : e.op = .emit
    · rw [if_pos hop] at h
      cases hhd : c.edits.head? with
      | none => rw [hhd] at h; cases h
      | some s =>
        rw [hhd] at h
        simp only at h
        by_cases hs : s.op = .emit
        · rw [if_pos hs] at h
          simp only [Except.ok.injEq, Prod.mk.injEq] at h
          obtain ⟨rfl, rfl⟩ := h
          refine ⟨?_, ?_⟩
          · apply good_of_edits hQ hl
            · intro x hx
              rcases List.mem_append.mp hx with hx | hx
              · exact Or.inl (List.dropLast_subset _ hx)
              · rw [List.mem_singleton.mp hx]; exact Or.inr hop
            · intro x hx hne
              rcases mem_dropLast_of hgl hx with h' | h'
              · exact List.mem_append.mpr (Or.inl h')
              · rw [h'] at hne; exact absurd hop hne
          · apply good_of_edits hQ hc
            · intro x hx
              exact Or.inl (List.mem_of_mem_tail hx)
            · intro x hx hne
              rcases mem_tail_of hhd hx with h' | h'
              · rw [h'] at hne; exact absurd hs hne
              · exact h'
        · rw [if_neg hs] at h
          simp only [Except.ok.injEq, Prod.mk.injEq] at h
          obtain ⟨rfl, rfl⟩ := h
          exact ⟨hl, hc⟩
    · rw [if_neg hop] at h
      simp only [Except.ok.injEq, Prod.mk.injEq] at h
      obtain ⟨rfl, rfl⟩ := h
      exact ⟨hl, hc⟩

theorem good_append {Q : Edit α → Prop} {l c : Chunk α} (hl : Good Q l) (hc : Good Q c)
    (a b x y : Nat) : Good Q ⟨l.edits ++ c.edits, a, b, x, y⟩ := by
  refine ⟨?_, ?_⟩
  · intro e he
    rcases List.mem_append.mp he with h | h
    · exact hl.1 e h
    · exact hc.1 e h
  · obtain ⟨e, he, hne⟩ := hl.2
    exact ⟨e, List.mem_append.mpr (Or.inl he), hne⟩

theorem mergeInto_good {Q : Edit α → Prop} (hQ : ∀ e, e.op = .emit → Q e) {last c m : Chunk α}
    (hl : Good Q last) (hc : Good Q c) (h : mergeInto last c = .ok m) : Good Q m := by
  by_cases hlap : last.lend - c.lstart = 0
  · cases hf : fuseBoundary last c with
    | error e =>
      unfold mergeInto at h
      simp [hlap, hf, bind, Except.bind, pure, Except.pure] at h
    | ok p =>
      obtain ⟨l2, c2⟩ := p
      rw [mergeInto_nolap hlap hf] at h
      cases h
      have := fuseBoundary_good hQ hl hc hf
      exact good_append this.1 this.2 _ _ _ _
  · have hlap' : last.lend - c.lstart > 0 := by omega
    cases ht : trimOverlap last c (last.lend - c.lstart) with
    | error e =>
      unfold mergeInto at h
      simp [hlap', ht, bind, Except.bind] at h
    | ok p =>
      obtain ⟨l1, c1⟩ := p
      have g1 := trimOverlap_good hQ hl hc ht
      by_cases hm : c1.lstart < l1.lend
      · unfold mergeInto at h
        simp [hlap', ht, hm, bind, Except.bind, throw, throwThe, MonadExceptOf.throw] at h
      · cases hf : fuseBoundary l1 c1 with
        | error e =>
          unfold mergeInto at h
          simp [hlap', ht, hm, hf, bind, Except.bind, pure, Except.pure] at h
        | ok p =>
          obtain ⟨l2, c2⟩ := p
          rw [mergeInto_lap hlap' ht hm hf] at h
          cases h
          have := fuseBoundary_good hQ g1.1 g1.2 hf
          exact good_append this.1 this.2 _ _ _ _

theorem unifyLoop_good {Q : Edit α → Prop} (hQ : ∀ e, e.op = .emit → Q e) :
    ∀ (rest init : List (Chunk α)) (last : Chunk α) (u : List (Chunk α)),
    (∀ c ∈ init, Good Q c) → Good Q last → (∀ c ∈ rest, Good Q c) →
    unifyLoop init last rest = .ok u → ∀ c ∈ u, Good Q c
  | [], init, last, u, hi, hl, _, h => by
    simp only [unifyLoop, Except.ok.injEq] at h
    subst h
    intro c hc
    rcases List.mem_append.mp hc with h' | h'
    · exact hi c h'
    · rw [List.mem_singleton.mp h']; exact hl
  | c :: cs, init, last, u, hi, hl, hr, h => by
    rw [unifyLoop] at h
    have hc := hr c (by simp)
    have hr' : ∀ d ∈ cs, Good Q d := fun d hd => hr d (by simp [hd])
    split at h
    · refine unifyLoop_good hQ cs (init ++ [last]) c u ?_ hc hr' h
      intro d hd
      rcases List.mem_append.mp hd with h' | h'
      · exact hi d h'
      · rw [List.mem_singleton.mp h']; exact hl
    · cases hm : mergeInto last c with
      | error e => rw [hm] at h; cases h
      | ok m =>
        rw [hm] at h
        exact unifyLoop_good hQ cs init m u hi (mergeInto_good hQ hl hc hm) hr' h

theorem unifyChunks_good {Q : Edit α → Prop} (hQ : ∀ e, e.op = .emit → Q e) (cs u : List (Chunk α))
    (hg : ∀ c ∈ cs, Good Q c) (h : unifyChunks cs = .ok u) : ∀ c ∈ u, Good Q c := by
  cases cs with
  | nil => simp only [unifyChunks, Except.ok.injEq] at h; subst h; intro c hc; cases hc
  | cons c cs =>
    rw [unifyChunks] at h
    exact unifyLoop_good hQ cs [] c u (by intro d hd; cases hd) (hg c (by simp))
      (fun d hd => hg d (by simp [hd])) h

end good

theorem editOK_of_emit (e : Edit Line) (h : e.op = .emit) : EditOK e := by
  unfold EditOK; rw [h]; trivial

end MdsVerif.Proofs.MdiffApply
