import MdsVerif.Spec.Subseq
import MdsVerif.Spec.EditScript
/-!
# The executable checkers used by the driver agree with the specifications the theorems use

`lcsLenDP = lcsLen` (the table-based optimum the driver computes is the textbook recursion),
`validB ↔ Valid`, `canonicalB ↔ Canonical`.
-/
namespace MdsVerif.Proofs.SpecExec
open List MdsVerif.Model.Edit MdsVerif.Spec.Subseq MdsVerif.Spec.EditScript

variable {α : Type}

/-- all suffixes, longest first -/
def sufs : List α → List (List α)
  | [] => [[]]
  | a :: l => (a :: l) :: sufs l

theorem sufs_head (y : List α) : ∃ t, sufs y = y :: t := by cases y <;> simp [sufs]

section
variable [DecidableEq α]

theorem lcsLen_nil_left (y : List α) : lcsLen ([] : List α) y = 0 := by simp [lcsLen]

theorem lcsLen_nil_right (x : List α) : lcsLen x [] = 0 := by cases x <;> simp [lcsLen]

theorem lcsRow_eq (a : α) (x : List α) : ∀ y : List α,
    lcsRow a y ((sufs y).map (lcsLen x)) = (sufs y).map (lcsLen (a :: x)) := by
  intro y
  induction y with
  | nil => simp [lcsRow, sufs, lcsLen]
  | cons b y ih =>
    obtain ⟨t, ht⟩ := sufs_head y
    have ih' := ih
    simp only [sufs, List.map_cons, lcsRow, List.tail_cons, List.headD_cons]
    rw [ih']
    simp only [ht, List.map_cons, List.headD_cons]
    congr 1
    by_cases hab : a = b
    · subst hab; simp [lcsLen]
    · rw [if_neg hab, lcsLen, if_neg hab]
      exact Nat.max_comm _ _

theorem lcsTable_eq : ∀ x y : List α, lcsTable x y = (sufs y).map (lcsLen x) := by
  intro x
  induction x with
  | nil =>
    intro y
    induction y with
    | nil => simp [lcsTable, sufs, lcsLen]
    | cons b y ih =>
      simp only [lcsTable, sufs, List.map_cons, lcsLen_nil_left] at ih ⊢
      rw [← ih]; simp [List.replicate_succ]
  | cons a x ih =>
    intro y
    simp only [lcsTable, ih y, lcsRow_eq]

/-- the optimum the driver computes is the textbook optimum -/
theorem lcsLenDP_eq (x y : List α) : lcsLenDP x y = lcsLen x y := by
  obtain ⟨t, ht⟩ := sufs_head y
  simp [lcsLenDP, lcsTable_eq, ht]
end

section
variable [BEq α] [LawfulBEq α]

theorem isSpanB_iff (l : List α) (i : Nat) (X : List α) : isSpanB l i X = true ↔ IsSpan l i X := by
  simp [isSpanB, IsSpan]

theorem validFromB_iff (lhs rhs : List α) : ∀ (es : List (Edit α)) (i j : Nat),
    validFromB lhs rhs es i j = true ↔ ValidFrom lhs rhs es i j := by
  intro es
  induction es with
  | nil => intro i j; simp [validFromB, ValidFrom]
  | cons e es ih =>
    intro i j
    obtain ⟨op, X, Y⟩ := e
    cases op <;>
      simp [validFromB, ValidFrom, isSpanB_iff, ih, List.isEmpty_iff, and_assoc]

theorem validB_iff (es : List (Edit α)) (lhs rhs : List α) :
    validB es lhs rhs = true ↔ Valid es lhs rhs := by
  unfold validB Valid
  cases es with
  | nil => simp
  | cons e es => simp [validFromB_iff]
end

theorem nonEmptyB_iff (e : Edit α) : nonEmptyB e = true ↔ NonEmpty e := by
  obtain ⟨op, X, Y⟩ := e
  cases op <;> simp [nonEmptyB, NonEmpty]

theorem alternatesB_iff : ∀ es : List (Edit α), alternatesB es = true ↔ Alternates es := by
  intro es
  induction es with
  | nil => simp [alternatesB, Alternates]
  | cons e es ih =>
    cases es with
    | nil => simp [alternatesB, Alternates]
    | cons f es' =>
      simp only [alternatesB, Alternates, Bool.and_eq_true, ih, AdjOk]
      have : (decide (e.op = .emit) != decide (f.op = .emit)) = true ↔
          (e.op = .emit ∧ f.op ≠ .emit) ∨ (e.op ≠ .emit ∧ f.op = .emit) := by
        by_cases h1 : e.op = .emit <;> by_cases h2 : f.op = .emit <;> simp [h1, h2]
      rw [this]

theorem canonicalB_iff (es : List (Edit α)) : canonicalB es = true ↔ Canonical es := by
  simp [canonicalB, Canonical, List.all_eq_true, nonEmptyB_iff, alternatesB_iff]

end MdsVerif.Proofs.SpecExec
