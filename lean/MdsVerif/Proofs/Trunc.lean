import MdsVerif.GenFact
import MdsVerif.Model.Mstr
import MdsVerif.Spec.Bytes
/-!
# `mstr.Trunc` cuts at a character boundary (helper lemmas for C20)

`IsChar c`: a first byte that is not a continuation byte, followed by at most
three continuation bytes, and starting with `11xxxxxx` when it has any.  Every
well-formed UTF-8 sequence of Table 3-7 is such a character (`uchar_isChar`).
`cut_chars`: on a concatenation of characters the cut index computed by
`Trunc` is the end of one of them, at most 4 below `n`.
-/
set_option linter.unusedSimpArgs false
namespace MdsVerif.Proofs.Trunc
open MdsVerif.Model.Mstr

/-- `Model.Mstr.trunc` with the pinned test of `Gen.Small` (`if n >= len(s) { return s }`, regenerated from
mstr.go on every run) written out; the proofs unfold `trunc` only through this lemma. -/
theorem trunc_def (s : MdsVerif.Model.Mstr.Bytes) (n : Int) :
    MdsVerif.Model.Mstr.trunc s n =
      if n ≥ s.length then .ok s
      else if n < 0 then .bounds
      else
        match MdsVerif.Model.Mstr.cut s n.toNat with
        | .ok k => MdsVerif.Model.Mstr.slicePrefix s k
        | .index => .index
        | .bounds => .bounds := by
  unfold MdsVerif.Model.Mstr.trunc
  have e : (MdsVerif.Gen.Small.truncWhole n s.length = true) = (n ≥ s.length) := by gen_fact MdsVerif.Gen.Small.truncWhole
  simp only [e]; rfl
open MdsVerif.Spec.Bytes (charLen validF validUTF8 cont inR second3 second4)

def IsChar (c : List UInt8) : Prop :=
  ∃ b r, c = b :: r ∧ isCont b = false ∧ (∀ x ∈ r, isCont x = true) ∧ r.length ≤ 3 ∧
    (r ≠ [] → isLead b = true)

/-! ### the two loops never index out of range and only move down -/

theorem backup_le (s : List UInt8) : ∀ n, n ≤ s.length → ∃ m, backup s n = .ok m ∧ m ≤ n
  | 0, _ => ⟨0, rfl, Nat.le_refl _⟩
  | n+1, h => by
    unfold backup
    rw [List.getElem?_eq_getElem (by omega)]
    by_cases hb : isCont s[n] = true
    · obtain ⟨m, h1, h2⟩ := backup_le s n (by omega)
      exact ⟨m, by simp [hb, h1], by omega⟩
    · exact ⟨n + 1, by simp [hb], Nat.le_refl _⟩

theorem skipLead_le (s : List UInt8) (n : Nat) (h : n ≤ s.length) : ∃ m, skipLead s n = .ok m ∧ m ≤ n := by
  cases n with
  | zero => exact ⟨0, rfl, Nat.le_refl _⟩
  | succ n =>
    simp only [skipLead]
    rw [List.getElem?_eq_getElem (by omega)]
    by_cases hb : isLead s[n] = true
    · exact ⟨n, by simp [hb], by omega⟩
    · exact ⟨n + 1, by simp [hb], Nat.le_refl _⟩

theorem cut_le (s : List UInt8) (n : Nat) (h : n ≤ s.length) : ∃ k, cut s n = .ok k ∧ k ≤ n := by
  obtain ⟨m, h1, h2⟩ := backup_le s n h
  obtain ⟨k, h3, h4⟩ := skipLead_le s m (by omega)
  exact ⟨k, by simp [cut, h1, h3], by omega⟩

/-! ### shifting past a prefix -/

theorem getElem?_shift (c t : List UInt8) (n : Nat) : (c ++ t)[c.length + n]? = t[n]? := by
  rw [List.getElem?_append_right (by omega)]; simp

theorem backup_append (c t : List UInt8) : ∀ n m, backup t n = .ok m → 1 ≤ m →
    backup (c ++ t) (c.length + n) = .ok (c.length + m)
  | 0, m, h, hm => by simp [backup] at h; omega
  | n+1, m, h, hm => by
    rw [← Nat.add_assoc]
    unfold backup at h ⊢
    rw [getElem?_shift]
    cases ht : t[n]? with
    | none => simp [ht] at h
    | some b =>
      simp only [ht] at h ⊢
      by_cases hb : isCont b = true
      · simp only [hb, if_true] at h ⊢
        exact backup_append c t n m h hm
      · simp only [hb] at h ⊢
        simp at h ⊢; omega

theorem skipLead_append (c t : List UInt8) (n m : Nat) (h : skipLead t n = .ok m) (hn : 1 ≤ n) :
    skipLead (c ++ t) (c.length + n) = .ok (c.length + m) := by
  cases n with
  | zero => omega
  | succ n =>
    rw [← Nat.add_assoc]
    simp only [skipLead] at h ⊢
    rw [getElem?_shift]
    cases ht : t[n]? with
    | none => simp [ht] at h
    | some b =>
      simp only [ht] at h ⊢
      by_cases hb : isLead b = true
      · simp only [hb, if_true] at h ⊢; simp at h ⊢; omega
      · simp only [hb] at h ⊢; simp at h ⊢; omega

/-- from inside `t` the first loop stops at the latest just after `t`'s first byte when that is
not a continuation byte -/
theorem backup_pos (b : UInt8) (t : List UInt8) (hb : isCont b = false) : ∀ n, 1 ≤ n → n ≤ (b :: t).length →
    ∃ m, backup (b :: t) n = .ok m ∧ 1 ≤ m
  | 0, h, _ => by omega
  | n+1, _, h2 => by
    unfold backup
    rw [List.getElem?_eq_getElem (by omega)]
    by_cases hc : isCont (b :: t)[n] = true
    · simp only [hc, if_true]
      cases n with
      | zero => simp [hb] at hc
      | succ n => exact backup_pos b t hb (n + 1) (by omega) (by omega)
    · exact ⟨n + 1, by simp [hc], by omega⟩

/-- inside one character the first loop backs up to just after its first byte -/
theorem backup_in_char (b : UInt8) (r t : List UInt8) (hb : isCont b = false) (hr : ∀ x ∈ r, isCont x = true) :
    ∀ n, n ≤ r.length → backup (b :: r ++ t) (n + 1) = .ok 1
  | 0, _ => by simp [backup, hb]
  | n+1, h => by
    unfold backup
    have hlt : n < r.length := by omega
    have : (b :: r ++ t)[n + 1]? = some r[n] := by
      simp [List.getElem?_append_left hlt]
    rw [this]
    have := hr r[n] (List.getElem_mem hlt)
    simp only [this, if_true]
    exact backup_in_char b r t hb hr n (by omega)

/-! ### the cut falls on a character boundary -/

theorem flatten_take_length_le {α} (cs : List (List α)) (j : Nat) :
    (cs.take j).flatten.length ≤ cs.flatten.length := by
  conv => rhs; rw [← List.take_append_drop j cs, List.flatten_append, List.length_append]
  omega

theorem cut_chars : ∀ (cs : List (List UInt8)), (∀ c ∈ cs, IsChar c) → ∀ n, n ≤ cs.flatten.length →
    ∃ j, cut cs.flatten n = .ok (cs.take j).flatten.length ∧
      (cs.take j).flatten.length ≤ n ∧ n ≤ (cs.take j).flatten.length + 4
  | [], _, n, hn => by
    have : n = 0 := by simpa using hn
    subst this
    exact ⟨0, by simp [cut, backup, skipLead], by simp, by simp⟩
  | c :: cs, hcs, n, hn => by
    obtain ⟨b, r, hc, hb, hr, hr3, hlead⟩ := hcs c (by simp)
    have hcs' : ∀ c ∈ cs, IsChar c := fun x hx => hcs x (by simp [hx])
    by_cases h0 : n = 0
    · subst h0; exact ⟨0, by simp [cut, backup, skipLead], by simp, by simp⟩
    by_cases hin : n ≤ c.length
    · -- the cut point is inside (or at the end of) the first character
      obtain ⟨n', rfl⟩ : ∃ n', n = n' + 1 := ⟨n - 1, by omega⟩
      have hn' : n' ≤ r.length := by subst hc; simpa using hin
      have hbk : backup (b :: r ++ cs.flatten) (n' + 1) = .ok 1 :=
        backup_in_char b r cs.flatten hb hr n' hn'
      subst hc
      simp only [List.flatten_cons]
      simp only [List.cons_append] at hbk ⊢
      by_cases hl : isLead b = true
      · refine ⟨0, ?_, by simp, by simp; omega⟩
        simp [cut, hbk, skipLead, hl]
      · have hrnil : r = [] := by
          apply Decidable.byContradiction; intro hne; exact hl (hlead hne)
        subst hrnil
        have : n' = 0 := by simpa using hn'
        subst this
        simp only [List.nil_append] at hbk ⊢
        refine ⟨1, ?_, by simp, by simp⟩
        simp [cut, hbk, skipLead, hl]
    · -- the cut point is in the rest: shift and use the induction hypothesis
      obtain ⟨n', rfl⟩ : ∃ n', n = c.length + n' := ⟨n - c.length, by omega⟩
      have hn'1 : 1 ≤ n' := by omega
      have hn'2 : n' ≤ cs.flatten.length := by simpa using hn
      obtain ⟨j, hj1, hj2, hj3⟩ := cut_chars cs hcs' n' hn'2
      -- the first byte of the rest is not a continuation byte
      have hne : cs.flatten ≠ [] := by intro h; rw [h] at hn'2; simp at hn'2; omega
      obtain ⟨b', t', ht', hb'⟩ : ∃ b' t', cs.flatten = b' :: t' ∧ isCont b' = false := by
        clear hj1 hj2 hj3 hn hn'2
        induction cs with
        | nil => simp at hne
        | cons c' cs' _ =>
          obtain ⟨b', r', hc', hb', _⟩ := hcs' c' (by simp)
          exact ⟨b', r' ++ cs'.flatten, by simp [hc'], hb'⟩
      obtain ⟨m, hm1, hm2⟩ := backup_pos b' t' hb' n' hn'1 (by rw [← ht']; exact hn'2)
      rw [← ht'] at hm1
      have hsk : skipLead cs.flatten m = .ok (cs.take j).flatten.length := by
        simpa [cut, hm1] using hj1
      refine ⟨j + 1, ?_, by simp only [List.take_succ_cons, List.flatten_cons, List.length_append]; omega,
        by simp only [List.take_succ_cons, List.flatten_cons, List.length_append]; omega⟩
      simp only [List.flatten_cons, cut, backup_append c cs.flatten n' m hm1 hm2,
        skipLead_append c cs.flatten m _ hsk hm2, List.take_succ_cons, List.length_append]

/-! ### well-formed UTF-8 (Table 3-7) is a concatenation of characters -/

/-- a well-formed UTF-8 sequence: non-empty and exactly what `charLen` recognises -/
def UChar (c : List UInt8) : Prop := c ≠ [] ∧ charLen c = c.length

theorem charLen_le4 (s : List UInt8) : charLen s ≤ 4 := by
  unfold charLen
  repeat' split
  all_goals omega

theorem charLen_append (c t : List UInt8) (hne : c ≠ []) (h : charLen c = c.length) :
    charLen (c ++ t) = c.length := by
  rcases c with _ | ⟨b0, _ | ⟨b1, _ | ⟨b2, _ | ⟨b3, _ | ⟨b4, t'⟩⟩⟩⟩⟩
  · exact absurd rfl hne
  all_goals simp only [charLen, List.cons_append, List.nil_append, List.length_cons, List.length_nil] at h ⊢
  · split at h <;> first | omega | (clear h; simp only [*, ↓reduceIte, Bool.false_eq_true])
  · split at h
    · simp at h
    · split at h <;> first | omega | (clear h; simp only [*, ↓reduceIte, Bool.false_eq_true])
  · split at h
    · simp at h
    · split at h
      · simp at h
      · split at h <;> first | omega | (clear h; simp only [*, ↓reduceIte, Bool.false_eq_true])
  · split at h
    · simp at h
    · split at h
      · simp at h
      · split at h
        · simp at h
        · split at h <;> first | omega | (clear h; simp only [*, ↓reduceIte, Bool.false_eq_true])
  · have := charLen_le4 (b0 :: b1 :: b2 :: b3 :: b4 :: t')
    simp only [charLen] at this
    omega

theorem charLen_take (s : List UInt8) (k : Nat) (h : charLen s = k) (hk : k ≠ 0) :
    k ≤ s.length ∧ charLen (s.take k) = k := by
  rcases s with _ | ⟨b0, _ | ⟨b1, _ | ⟨b2, _ | ⟨b3, t⟩⟩⟩⟩
  all_goals simp only [charLen] at h
  · omega
  · split at h
    · subst h; simp [charLen, *]
    · omega
  · split at h
    · subst h; simp [charLen, *]
    · split at h
      · subst h; simp only [List.take_succ_cons, List.take_zero, charLen, *, ↓reduceIte, Bool.false_eq_true]; simp
      · omega
  · split at h
    · subst h; simp [charLen, *]
    · split at h
      · subst h; simp only [List.take_succ_cons, List.take_zero, charLen, *, ↓reduceIte, Bool.false_eq_true]; simp
      · split at h
        · subst h; simp only [List.take_succ_cons, List.take_zero, charLen, *, ↓reduceIte, Bool.false_eq_true]; simp
        · omega
  · split at h
    · subst h; simp [charLen, *]
    · split at h
      · subst h; simp only [List.take_succ_cons, List.take_zero, charLen, *, ↓reduceIte, Bool.false_eq_true]; simp
      · split at h
        · subst h; simp only [List.take_succ_cons, List.take_zero, charLen, *, ↓reduceIte, Bool.false_eq_true]; simp
        · split at h
          · subst h; simp only [List.take_succ_cons, List.take_zero, charLen, *, ↓reduceIte, Bool.false_eq_true]; simp
          · omega

theorem validF_chars : ∀ f (s : List UInt8), validF f s = true →
    ∃ cs : List (List UInt8), s = cs.flatten ∧ ∀ c ∈ cs, UChar c
  | _, [], _ => ⟨[], rfl, by simp⟩
  | 0, _ :: _, h => by simp [validF] at h
  | f+1, b :: t, h => by
    simp only [validF, Bool.and_eq_true, bne_iff_ne, ne_eq] at h
    obtain ⟨hk, hv⟩ := h
    obtain ⟨h1, h2⟩ := charLen_take (b :: t) _ rfl hk
    obtain ⟨cs, hcs, hall⟩ := validF_chars f _ hv
    refine ⟨(b :: t).take (charLen (b :: t)) :: cs, ?_, ?_⟩
    · rw [List.flatten_cons, ← hcs, List.take_append_drop]
    · intro c hc
      rcases List.mem_cons.mp hc with rfl | hc
      · refine ⟨?_, ?_⟩
        · intro he
          have := congrArg List.length he
          simp at this; omega
        · rw [h2, List.length_take]; omega
      · exact hall c hc

theorem chars_validF : ∀ (cs : List (List UInt8)), (∀ c ∈ cs, UChar c) → ∀ f, cs.flatten.length ≤ f →
    validF f cs.flatten = true
  | [], _, f, _ => by cases f <;> simp [validF]
  | c :: cs, hall, f, hf => by
    obtain ⟨hne, hc⟩ := hall c (by simp)
    have ih := chars_validF cs (fun x hx => hall x (by simp [hx]))
    obtain ⟨b, r, rfl⟩ : ∃ b r, c = b :: r := by
      cases c with
      | nil => exact absurd rfl hne
      | cons b r => exact ⟨b, r, rfl⟩
    have hlen : r.length + 1 + cs.flatten.length ≤ f := by
      simpa only [List.flatten_cons, List.length_append, List.length_cons] using hf
    cases f with
    | zero => omega
    | succ f =>
      have happ := charLen_append (b :: r) cs.flatten hne hc
      simp only [List.flatten_cons, List.cons_append] at happ ⊢
      simp only [validF, happ, Bool.and_eq_true, bne_iff_ne, ne_eq]
      refine ⟨by simp, ?_⟩
      have : (b :: (r ++ cs.flatten)).drop (b :: r).length = cs.flatten := by
        rw [← List.cons_append]; exact List.drop_left' rfl
      rw [this]
      exact ih f (by omega)

theorem validUTF8_iff_chars (s : List UInt8) :
    validUTF8 s = true ↔ ∃ cs : List (List UInt8), s = cs.flatten ∧ ∀ c ∈ cs, UChar c := by
  constructor
  · exact validF_chars _ s
  · rintro ⟨cs, rfl, h⟩
    exact chars_validF cs h _ (Nat.le_refl _)

/-! byte-class facts (each checked on all 256 bytes) -/

set_option maxRecDepth 100000 in
theorem ascii_fact : ∀ n : Fin 256, UInt8.ofNat n.val < 0x80 → isCont (UInt8.ofNat n.val) = false := by decide
set_option maxRecDepth 100000 in
theorem lead_fact : ∀ n : Fin 256, inR (UInt8.ofNat n.val) 0xC2 0xF4 = true →
    isCont (UInt8.ofNat n.val) = false ∧ isLead (UInt8.ofNat n.val) = true := by decide
set_option maxRecDepth 100000 in
theorem cont_fact : ∀ n : Fin 256, cont (UInt8.ofNat n.val) = isCont (UInt8.ofNat n.val) := by decide
set_option maxRecDepth 100000 in
theorem range_fact : ∀ n : Fin 256, (inR (UInt8.ofNat n.val) 0xC2 0xDF || UInt8.ofNat n.val == 0xE0 ||
    inR (UInt8.ofNat n.val) 0xE1 0xEC || UInt8.ofNat n.val == 0xED || inR (UInt8.ofNat n.val) 0xEE 0xEF ||
    UInt8.ofNat n.val == 0xF0 || inR (UInt8.ofNat n.val) 0xF1 0xF3 || UInt8.ofNat n.val == 0xF4) = true →
    inR (UInt8.ofNat n.val) 0xC2 0xF4 = true := by decide

theorem byte_eq (b : UInt8) : UInt8.ofNat (⟨b.toNat, UInt8.toNat_lt b⟩ : Fin 256).val = b := by simp

theorem ascii_not_cont (b : UInt8) (h : b < 0x80) : isCont b = false := by
  have := ascii_fact ⟨b.toNat, UInt8.toNat_lt b⟩; rw [byte_eq] at this; exact this h
theorem lead_of_range (b : UInt8) (h : inR b 0xC2 0xF4 = true) : isCont b = false ∧ isLead b = true := by
  have := lead_fact ⟨b.toNat, UInt8.toNat_lt b⟩; rw [byte_eq] at this; exact this h
theorem cont_eq (b : UInt8) : cont b = isCont b := by
  have := cont_fact ⟨b.toNat, UInt8.toNat_lt b⟩; rw [byte_eq] at this; exact this
theorem range_of (b : UInt8) (h : (inR b 0xC2 0xDF || b == 0xE0 || inR b 0xE1 0xEC || b == 0xED || inR b 0xEE 0xEF ||
    b == 0xF0 || inR b 0xF1 0xF3 || b == 0xF4) = true) : inR b 0xC2 0xF4 = true := by
  have := range_fact ⟨b.toNat, UInt8.toNat_lt b⟩; rw [byte_eq] at this; exact this h

theorem second3_lead (b0 b1 : UInt8) (h : second3 b0 b1 = true) : isCont b0 = false ∧ isLead b0 = true := by
  apply lead_of_range; apply range_of
  simp only [second3, Bool.or_eq_true, Bool.and_eq_true] at h
  rcases h with ((h | h) | h) | h <;> simp [h.1]

theorem second4_lead (b0 b1 : UInt8) (h : second4 b0 b1 = true) : isCont b0 = false ∧ isLead b0 = true := by
  apply lead_of_range; apply range_of
  simp only [second4, Bool.or_eq_true, Bool.and_eq_true] at h
  rcases h with (h | h) | h <;> simp [h.1]

set_option maxRecDepth 100000 in
theorem sub_fact : ∀ n : Fin 256, (inR (UInt8.ofNat n.val) 0xA0 0xBF || inR (UInt8.ofNat n.val) 0x80 0x9F ||
    inR (UInt8.ofNat n.val) 0x90 0xBF || inR (UInt8.ofNat n.val) 0x80 0x8F) = true →
    cont (UInt8.ofNat n.val) = true := by decide
theorem cont_of_sub (b : UInt8) (h : (inR b 0xA0 0xBF || inR b 0x80 0x9F || inR b 0x90 0xBF || inR b 0x80 0x8F) = true) :
    cont b = true := by
  have := sub_fact ⟨b.toNat, UInt8.toNat_lt b⟩; rw [byte_eq] at this; exact this h

theorem second3_cont (b0 b1 : UInt8) (h : second3 b0 b1 = true) : cont b1 = true := by
  simp only [second3, Bool.or_eq_true, Bool.and_eq_true] at h
  rcases h with ((h | h) | h) | h
  · exact cont_of_sub b1 (by simp [h.2])
  · exact h.2
  · exact cont_of_sub b1 (by simp [h.2])
  · exact h.2

theorem second4_cont (b0 b1 : UInt8) (h : second4 b0 b1 = true) : cont b1 = true := by
  simp only [second4, Bool.or_eq_true, Bool.and_eq_true] at h
  rcases h with (h | h) | h
  · exact cont_of_sub b1 (by simp [h.2])
  · exact h.2
  · exact cont_of_sub b1 (by simp [h.2])

/-- every well-formed UTF-8 sequence is a character in the structural sense -/
theorem uchar_isChar (c : List UInt8) (hc : UChar c) : IsChar c := by
  obtain ⟨hne, h⟩ := hc
  rcases c with _ | ⟨b0, _ | ⟨b1, _ | ⟨b2, _ | ⟨b3, _ | ⟨b4, t'⟩⟩⟩⟩⟩
  · exact absurd rfl hne
  all_goals simp only [charLen, List.length_cons, List.length_nil] at h
  · split at h
    · exact ⟨b0, [], rfl, ascii_not_cont b0 ‹_›, by simp, by simp, by simp⟩
    · omega
  · split at h
    · omega
    · split at h
      · rename_i h2
        simp only [Bool.and_eq_true] at h2
        have := lead_of_range b0 (range_of b0 (by simp [h2.1]))
        exact ⟨b0, [b1], rfl, this.1, by simp [← cont_eq, h2.2], by simp, fun _ => this.2⟩
      · omega
  · split at h
    · omega
    · split at h
      · omega
      · split at h
        · rename_i h2
          simp only [Bool.and_eq_true] at h2
          have := second3_lead b0 b1 h2.1
          have hb1 := second3_cont b0 b1 h2.1
          exact ⟨b0, [b1, b2], rfl, this.1, by simp [← cont_eq, h2.2, hb1], by simp, fun _ => this.2⟩
        · omega
  · split at h
    · omega
    · split at h
      · omega
      · split at h
        · omega
        · split at h
          · rename_i h2
            simp only [Bool.and_eq_true] at h2
            have := second4_lead b0 b1 h2.1.1
            have hb1 := second4_cont b0 b1 h2.1.1
            exact ⟨b0, [b1, b2, b3], rfl, this.1, by simp [← cont_eq, h2.2, h2.1.2, hb1], by simp, fun _ => this.2⟩
          · omega
  · have := charLen_le4 (b0 :: b1 :: b2 :: b3 :: b4 :: t')
    simp only [charLen] at this
    omega

end MdsVerif.Proofs.Trunc
