import MdsVerif.Proofs.Mlink
/-!
# The `mlink.List` register machine refines the positional reference (C10)

`R s a xs`: the heap of the model state `s` is well formed with chain `xs`, the reference list is
`abs`, and every cursor register corresponds: unset/unset, `pred = xs[i]` / position `i`, self-linked
`pred` / stale.
-/
namespace MdsVerif.Proofs.Mlink
open MdsVerif.Model MdsVerif.Model.Mlink MdsVerif.Spec MdsVerif.Spec.CursorList

/-! ## self-linked entries stay self-linked -/

theorem lt_of_link (h : Heap) (q : Nat) (x : Nat) (hq : h.link q = some x) : q < h.size := by
  by_cases hlt : q < h.links.length
  · exact hlt
  · simp [Heap.link, List.getD_eq_getElem?_getD, List.getElem?_eq_none (Nat.le_of_not_lt hlt)] at hq

theorem push_stale (h : Heap) (p : Nat) (v : Int) (h1 : Heap) (e : push h p v = .ok h1) (q : Nat)
    (hq : h.link q = some q) : h1.link q = some q := by
  unfold push at e
  by_cases hv : invalid h p = true
  · simp [hv] at e
  · simp only [hv, Bool.false_eq_true, if_false, Res.ok.injEq] at e
    subst e
    have hqp : q ≠ p := fun e' => by subst e'; simp [invalid, hq] at hv
    have hqs := lt_of_link h q q hq
    rw [link_setLink, link_alloc]
    have : q ≠ h.size := by omega
    simp [hqp, this, hq]

theorem invalidate_stale : ∀ (fuel : Nat) (h : Heap) (e : Option Nat) (h' : Heap),
    invalidate fuel h e = .ok h' → ∀ q, h.link q = some q → h'.link q = some q := by
  intro fuel
  induction fuel with
  | zero => intro h e h' he; simp [invalidate] at he
  | succ f ih =>
    intro h e h' he q hq
    cases e with
    | none => simp [invalidate] at he; subst he; exact hq
    | some x =>
      simp only [invalidate] at he
      apply ih _ _ _ he
      rw [link_setLink]
      by_cases hx : q = x
      · subst hx; simp [lt_of_link h q q hq]
      · simp [hx, hq]

theorem truncate_stale (h : Heap) (p : Nat) (h1 : Heap) (e : truncate h p = .ok h1) (q : Nat)
    (hq : h.link q = some q) : h1.link q = some q := by
  rw [truncate_def] at e
  by_cases hv : invalid h p = true
  · simp [hv] at e
  · simp only [hv, Bool.false_eq_true, if_false] at e
    cases hi : invalidate (h.size + 1) h (h.link p) with
    | ok h' =>
      rw [hi] at e; simp only [bind_ok, Res.ok.injEq] at e; subst e
      have hqp : q ≠ p := fun e' => by subst e'; simp [invalid, hq] at hv
      rw [link_setLink]; simp [hqp, invalidate_stale _ _ _ _ hi q hq]
    | panic a b => rw [hi] at e; simp at e
    | hang => rw [hi] at e; simp at e

theorem remove_stale (h : Heap) (p : Nat) (h1 : Heap) (v : Int) (e : remove h p = .ok (h1, v)) (q : Nat)
    (hq : h.link q = some q) : h1.link q = some q := by
  rw [remove_def] at e; unfold atEnd at e
  by_cases hv : invalid h p = true
  · simp [hv] at e
  · simp only [hv, Bool.false_eq_true, if_false, bind_ok] at e
    split at e
    · simp only [Res.ok.injEq, Prod.mk.injEq] at e; rw [← e.1]; exact hq
    · simp only [Res.ok.injEq, Prod.mk.injEq] at e
      rw [← e.1]
      have hqp : q ≠ p := fun e' => by subst e'; simp [invalid, hq] at hv
      rw [link_setLink, link_setLink]
      by_cases hqt : q = tgt h p
      · have hlt := lt_of_link h q q hq
        rw [hqt] at hlt hqp
        simp [← hqt, hqp, hlt, hqt ▸ hlt]
        simp [hqt, hqp, hlt]
      · simp [hqp, hqt, hq]

/-! ## the refinement relation -/

def RegRel (h : Heap) (xs : List Nat) : Option Nat → Option Pos → Prop
  | none, none => True
  | some p, some (.at_ i) => xs[i]? = some p
  | some p, some .stale => h.link p = some p
  | _, _ => False

structure R (s : St) (a : A) (xs : List Nat) : Prop where
  wf : WF s.h xs
  l : a.l = abs s.h xs
  rlen : s.regs.length = a.regs.length
  regs : ∀ c, RegRel s.h xs (s.reg c) (a.reg c)

theorem getD_set_opt {α : Type} (l : List (Option α)) (c : Nat) (x : Option α) (c' : Nat) :
    (l.set c x).getD c' none = if c' = c ∧ c < l.length then x else l.getD c' none := by
  simp only [List.getD_eq_getElem?_getD, List.getElem?_set]
  by_cases h1 : c = c'
  · subst h1
    by_cases hlt : c < l.length <;> simp [hlt]
  · have : ¬ c' = c := fun e => h1 e.symm
    simp [h1, this]

theorem R_setReg (s : St) (a : A) (xs : List Nat) (hR : R s a xs) (c p : Nat) (pos : Pos)
    (hr : RegRel s.h xs (some p) (some pos)) : R (s.setReg c p) (a.setReg c pos) xs := by
  refine ⟨hR.wf, hR.l, by simp [St.setReg, A.setReg, hR.rlen], ?_⟩
  intro c'
  simp only [St.setReg, St.reg, A.setReg, A.reg, getD_set_opt, hR.rlen]
  split
  · exact hr
  · exact hR.regs c'

theorem split_at (xs : List Nat) (i p : Nat) (hx : xs[i]? = some p) :
    ∃ pre post, xs = pre ++ p :: post ∧ pre.length = i := by
  obtain ⟨hlt, he⟩ := List.getElem?_eq_some_iff.mp hx
  refine ⟨xs.take i, xs.drop (i + 1), ?_, by simp; omega⟩
  rw [← he, List.getElem_cons_drop, List.take_append_drop]

theorem getElem?_mid (pre : List Nat) (p : Nat) (post : List Nat) : (pre ++ p :: post)[pre.length]? = some p := by
  simp

theorem cursor_cases (s : St) (a : A) (xs : List Nat) (hR : R s a xs) (c : Nat) :
    (s.reg c = none ∧ a.reg c = none) ∨
    (∃ p, s.reg c = some p ∧ a.reg c = some .stale ∧ s.h.link p = some p) ∨
    (∃ p pre post, s.reg c = some p ∧ a.reg c = some (.at_ pre.length) ∧ xs = pre ++ p :: post) := by
  have := hR.regs c
  cases hs : s.reg c with
  | none =>
    cases ha : a.reg c with
    | none => exact Or.inl ⟨rfl, rfl⟩
    | some pos => rw [hs, ha] at this; cases pos <;> simp [RegRel] at this
  | some p =>
    cases ha : a.reg c with
    | none => rw [hs, ha] at this; simp [RegRel] at this
    | some pos =>
      rw [hs, ha] at this
      cases pos with
      | stale => exact Or.inr (Or.inl ⟨p, rfl, rfl, this⟩)
      | at_ i =>
        obtain ⟨pre, post, e1, e2⟩ := split_at xs i p this
        exact Or.inr (Or.inr ⟨p, pre, post, rfl, by rw [e2], e1⟩)

theorem reg_mapPos (f : Nat → Pos) (regs : List (Option Pos)) (c : Nat) :
    (mapPos f regs).getD c none =
      match regs.getD c none with
      | some (.at_ j) => some (f j)
      | r => r := by
  simp only [mapPos, List.getD_eq_getElem?_getD, List.getElem?_map]
  cases regs[c]? with
  | none => rfl
  | some r => cases r with
    | none => rfl
    | some pos => cases pos <;> rfl

/-- re-establish the register correspondence after an edit of the list -/
theorem R_edit (s : St) (a : A) (xs : List Nat) (hR : R s a xs) (h1 : Heap) (xs1 : List Nat) (f : Nat → Pos)
    (hw : WF h1 xs1) (l1 : List Int) (hl : l1 = abs h1 xs1)
    (hat : ∀ j q, xs[j]? = some q → RegRel h1 xs1 (some q) (some (f j)))
    (hst : ∀ q, s.h.link q = some q → h1.link q = some q) :
    R { s with h := h1 } { l := l1, regs := mapPos f a.regs } xs1 := by
  refine ⟨hw, hl, by simp [mapPos, hR.rlen], ?_⟩
  intro c
  have := hR.regs c
  simp only [St.reg, A.reg, reg_mapPos] at this ⊢
  cases hs : s.regs.getD c none with
  | none =>
    cases ha : a.regs.getD c none with
    | none => simp [RegRel]
    | some pos => rw [hs, ha] at this; cases pos <;> simp [RegRel] at this
  | some p =>
    cases ha : a.regs.getD c none with
    | none => rw [hs, ha] at this; simp [RegRel] at this
    | some pos =>
      rw [hs, ha] at this
      cases pos with
      | stale => exact hst p this
      | at_ i => exact hat i p this

/-! ## one step -/

theorem absl (s : St) (a : A) (ids : List Nat) (hR : R s a (0 :: ids)) : a.l = ids.map s.h.val := hR.l

/-- cursor-creating and list-level operations -/
theorem step_refines_list (s : St) (a : A) (ids : List Nat) (hR : R s a (0 :: ids)) :
    (∀ c n, ∃ xs', R (step s (.at_ c n)).1 (CursorList.step a (.at_ c n)).1 xs' ∧
      (step s (.at_ c n)).2 = (CursorList.step a (.at_ c n)).2) ∧
    (∀ c v, ∃ xs', R (step s (.find c v)).1 (CursorList.step a (.find c v)).1 xs' ∧
      (step s (.find c v)).2 = (CursorList.step a (.find c v)).2) ∧
    (∀ c, ∃ xs', R (step s (.last c)).1 (CursorList.step a (.last c)).1 xs' ∧
      (step s (.last c)).2 = (CursorList.step a (.last c)).2) ∧
    (∀ c, ∃ xs', R (step s (.end_ c)).1 (CursorList.step a (.end_ c)).1 xs' ∧
      (step s (.end_ c)).2 = (CursorList.step a (.end_ c)).2) ∧
    (∀ n, ∃ xs', R (step s (.peek n)).1 (CursorList.step a (.peek n)).1 xs' ∧
      (step s (.peek n)).2 = (CursorList.step a (.peek n)).2) ∧
    (∀ k, ∃ xs', R (step s (.each k)).1 (CursorList.step a (.each k)).1 xs' ∧
      (step s (.each k)).2 = (CursorList.step a (.each k)).2) ∧
    (∃ xs', R (step s .len).1 (CursorList.step a .len).1 xs' ∧ (step s .len).2 = (CursorList.step a .len).2) ∧
    (∃ xs', R (step s .isEmpty).1 (CursorList.step a .isEmpty).1 xs' ∧
      (step s .isEmpty).2 = (CursorList.step a .isEmpty).2) := by
  have hl := absl s a ids hR
  have hlen : a.l.length = ids.length := by rw [hl]; simp
  refine ⟨?_, ?_, ?_, ?_, ?_, ?_, ?_, ?_⟩
  · intro c n
    by_cases hn : n < 0
    · exact ⟨_, by simpa [Mlink.step, CursorList.step, hn] using hR, by simp [Mlink.step, CursorList.step, hn]⟩
    · obtain ⟨pre, p, post, e1, e2, e3⟩ := at_wf s.h ids hR.wf n.toNat
      refine ⟨0 :: ids, ?_, by simp [Mlink.step, CursorList.step, hn, e3, mkCursor]⟩
      simp only [Mlink.step, CursorList.step, hn, if_false, e3, mkCursor]
      apply R_setReg _ _ _ hR
      show (0 :: ids)[min n.toNat a.l.length]? = some p
      rw [hlen, ← e2, e1]; exact getElem?_mid ..
  · intro c v
    obtain ⟨pre, p, post, e1, e2, e3⟩ := find_wf s.h ids hR.wf v
    refine ⟨0 :: ids, ?_, by simp [Mlink.step, CursorList.step, e3, mkCursor]⟩
    simp only [Mlink.step, CursorList.step, e3, mkCursor]
    apply R_setReg _ _ _ hR
    show (0 :: ids)[a.l.findIdx (· == v)]? = some p
    rw [hl, ← e2, e1]; exact getElem?_mid ..
  · intro c
    obtain ⟨pre, p, post, e1, e2, e3⟩ := last_wf s.h ids hR.wf
    refine ⟨0 :: ids, ?_, by simp [Mlink.step, CursorList.step, e3, mkCursor]⟩
    simp only [Mlink.step, CursorList.step, e3, mkCursor]
    apply R_setReg _ _ _ hR
    show (0 :: ids)[a.l.length - 1]? = some p
    rw [hlen, ← e2, e1]; exact getElem?_mid ..
  · intro c
    obtain ⟨pre, p, e1, e3⟩ := end_wf s.h ids hR.wf
    refine ⟨0 :: ids, ?_, by simp [Mlink.step, CursorList.step, e3, mkCursor]⟩
    simp only [Mlink.step, CursorList.step, e3, mkCursor]
    apply R_setReg _ _ _ hR
    show (0 :: ids)[a.l.length]? = some p
    have : pre.length = ids.length := by have := congrArg List.length e1; simp at this; omega
    rw [hlen, ← this, e1]; exact getElem?_mid ..
  · intro n
    by_cases hn : n < 0
    · exact ⟨_, by simpa [Mlink.step, CursorList.step, hn] using hR, by simp [Mlink.step, CursorList.step, hn]⟩
    · refine ⟨_, by simpa [Mlink.step, CursorList.step, hn, peek_wf s.h ids hR.wf] using hR, ?_⟩
      simp only [Mlink.step, CursorList.step, hn, if_false, peek_wf s.h ids hR.wf, hl]
      cases (List.map s.h.val ids)[n.toNat]? <;> rfl
  · intro k
    exact ⟨_, by simpa [Mlink.step, CursorList.step, each_wf s.h ids hR.wf] using hR,
      by simp [Mlink.step, CursorList.step, each_wf s.h ids hR.wf, hl, List.map_take]⟩
  · exact ⟨_, by simpa [Mlink.step, CursorList.step, len, each_wf s.h ids hR.wf] using hR,
      by simp [Mlink.step, CursorList.step, len, each_wf s.h ids hR.wf, hl]⟩
  · refine ⟨_, by simpa [Mlink.step, CursorList.step] using hR, ?_⟩
    have := cell_link s.h [] 0 ids none hR.wf.seg
    simp only [Mlink.step, CursorList.step, Mlink.isEmpty, this, hl]
    cases ids <;> simp

/-- one operation is simulated: related states go to related states with equal results -/
def Sim (s : St) (a : A) (op : Op) : Prop :=
  ∃ xs', R (Mlink.step s op).1 (CursorList.step a op).1 xs' ∧ (Mlink.step s op).2 = (CursorList.step a op).2

theorem idx_pre (pre : List Nat) (p : Nat) (post : List Nat) (j : Nat) (hj : j ≤ pre.length) :
    (pre ++ p :: post)[j]? = (pre ++ [p])[j]? := by
  have : pre ++ p :: post = (pre ++ [p]) ++ post := by simp
  rw [this, List.getElem?_append_left (by simp; omega)]

theorem idx_post (pre : List Nat) (p : Nat) (post : List Nat) (k : Nat) :
    (pre ++ p :: post)[pre.length + 1 + k]? = post[k]? := by
  rw [List.getElem?_append_right (by omega)]
  have : pre.length + 1 + k - pre.length = k + 1 := by omega
  rw [this]; rfl

/-- like `R_edit` when the reference does not move any cursor -/
theorem R_edit_id (s : St) (a : A) (xs : List Nat) (hR : R s a xs) (h1 : Heap) (xs1 : List Nat)
    (hw : WF h1 xs1) (l1 : List Int) (hl : l1 = abs h1 xs1)
    (hat : ∀ (j : Nat) q, xs[j]? = some q → xs1[j]? = some q)
    (hst : ∀ q, s.h.link q = some q → h1.link q = some q) :
    R { s with h := h1 } { a with l := l1 } xs1 := by
  refine ⟨hw, hl, hR.rlen, ?_⟩
  intro c
  have := hR.regs c
  simp only [St.reg, A.reg] at this ⊢
  cases hs : s.regs.getD c none with
  | none =>
    cases ha : a.regs.getD c none with
    | none => simp [RegRel]
    | some pos => rw [hs, ha] at this; cases pos <;> simp [RegRel] at this
  | some p =>
    cases ha : a.regs.getD c none with
    | none => rw [hs, ha] at this; simp [RegRel] at this
    | some pos =>
      rw [hs, ha] at this
      cases pos with
      | stale => exact hst p this
      | at_ i => exact hat i p this

theorem sim_copy (s : St) (a : A) (xs : List Nat) (hR : R s a xs) (c d : Nat) : Sim s a (.copy c d) := by
  have := hR.regs d
  cases hs : s.reg d with
  | none =>
    cases ha : a.reg d with
    | none => exact ⟨xs, by simpa [Mlink.step, CursorList.step, hs, ha] using hR,
        by simp [Mlink.step, CursorList.step, hs, ha]⟩
    | some pos => rw [hs, ha] at this; cases pos <;> simp [RegRel] at this
  | some p =>
    cases ha : a.reg d with
    | none => rw [hs, ha] at this; simp [RegRel] at this
    | some pos =>
      rw [hs, ha] at this
      exact ⟨xs, by simpa [Mlink.step, CursorList.step, hs, ha] using R_setReg s a xs hR c p pos this,
        by simp [Mlink.step, CursorList.step, hs, ha]⟩

theorem abs_len (h : Heap) (pre : List Nat) (p : Nat) (post : List Nat) :
    (abs h (pre ++ p :: post)).length = pre.length + post.length := by
  rw [(abs_split h pre p post).1, List.length_append, (abs_split h pre p post).2]; simp

theorem sim_push (s : St) (a : A) (xs : List Nat) (hR : R s a xs) (c : Nat) (v : Int) : Sim s a (.push c v) := by
  rcases cursor_cases s a xs hR c with ⟨hs, ha⟩ | ⟨p, hs, ha, hl⟩ | ⟨p, pre, post, hs, ha, hx⟩
  · exact ⟨xs, by simpa [Sim, Mlink.step, CursorList.step, Mlink.withCursor, CursorList.withCursor, hs, ha] using hR,
      by simp [Mlink.step, CursorList.step, Mlink.withCursor, CursorList.withCursor, hs, ha]⟩
  · have h5 := (stale_refuses s.h p hl).2.2.2.2.1 v
    have e := setReg_self s c p hs
    exact ⟨xs, by simpa [Mlink.step, CursorList.step, Mlink.withCursor, CursorList.withCursor, hs, ha, h5, e] using hR,
      by simp [Mlink.step, CursorList.step, Mlink.withCursor, CursorList.withCursor, hs, ha, h5]⟩
  · subst hx
    obtain ⟨h1, n, e1, w1, a1⟩ := push_abs s.h pre p post v hR.wf
    refine ⟨pre ++ p :: n :: post, ?_, by simp [Mlink.step, CursorList.step, Mlink.withCursor, CursorList.withCursor, hs, ha, e1]⟩
    simp only [Mlink.step, CursorList.step, Mlink.withCursor, CursorList.withCursor, hs, ha, e1]
    apply R_edit s a _ hR h1 _ _ w1 _ (by rw [a1, hR.l])
    · intro j q hq
      show (pre ++ p :: n :: post)[if j > pre.length then j + 1 else j]? = some q
      by_cases hj : j > pre.length
      · obtain ⟨k, rfl⟩ : ∃ k, j = pre.length + 1 + k := ⟨j - pre.length - 1, by omega⟩
        rw [idx_post] at hq
        simp only [hj, if_true]
        have := idx_post pre p (n :: post) (k + 1)
        rw [show pre.length + 1 + k + 1 = pre.length + 1 + (k + 1) by omega, this]
        simpa using hq
      · simp only [hj, if_false]
        rw [idx_pre _ _ _ _ (by omega)] at hq ⊢; exact hq
    · exact push_stale s.h p v h1 e1

theorem sim_remove (s : St) (a : A) (xs : List Nat) (hR : R s a xs) (c : Nat) : Sim s a (.remove c) := by
  rcases cursor_cases s a xs hR c with ⟨hs, ha⟩ | ⟨p, hs, ha, hl⟩ | ⟨p, pre, post, hs, ha, hx⟩
  · exact ⟨xs, by simpa [Mlink.step, CursorList.step, Mlink.withCursor, CursorList.withCursor, hs, ha] using hR,
      by simp [Mlink.step, CursorList.step, Mlink.withCursor, CursorList.withCursor, hs, ha]⟩
  · have h5 := (stale_refuses s.h p hl).2.2.2.2.2.2.1
    have e := setReg_self s c p hs
    exact ⟨xs, by simpa [Mlink.step, CursorList.step, Mlink.withCursor, CursorList.withCursor, hs, ha, h5, e] using hR,
      by simp [Mlink.step, CursorList.step, Mlink.withCursor, CursorList.withCursor, hs, ha, h5]⟩
  · subst hx
    have hlen := abs_len s.h pre p post
    cases post with
    | nil =>
      have e1 := remove_end s.h pre p hR.wf
      have : ¬ pre.length < a.l.length := by rw [hR.l, hlen]; simp
      exact ⟨_, by simpa [Mlink.step, CursorList.step, Mlink.withCursor, CursorList.withCursor, hs, ha, e1, this] using hR,
        by simp [Mlink.step, CursorList.step, Mlink.withCursor, CursorList.withCursor, hs, ha, e1, this]⟩
    | cons t post =>
      obtain ⟨h1, e1, w1, a1, l1⟩ := remove_abs s.h pre p t post hR.wf
      have hlt : pre.length < a.l.length := by rw [hR.l, hlen]; simp
      have hlt' : pre.length < (abs s.h (pre ++ p :: t :: post)).length := by rw [hlen]; simp
      refine ⟨pre ++ p :: post, ?_, by simp [Mlink.step, CursorList.step, Mlink.withCursor, CursorList.withCursor, hs, ha, e1, hlt', hR.l]⟩
      simp only [Mlink.step, CursorList.step, Mlink.withCursor, CursorList.withCursor, hs, ha, e1, hlt, if_true]
      apply R_edit s a _ hR h1 _ _ w1 _ (by rw [a1, hR.l])
      · intro j q hq
        by_cases hj : j > pre.length
        · obtain ⟨k, rfl⟩ : ∃ k, j = pre.length + 1 + k := ⟨j - pre.length - 1, by omega⟩
          rw [idx_post] at hq
          cases k with
          | zero =>
            simp at hq; subst hq
            simp only [Nat.add_zero, if_true]
            exact l1
          | succ k =>
            have hne : pre.length + 1 + (k + 1) ≠ pre.length + 1 := by omega
            simp only [hne, if_false, hj, if_true]
            show (pre ++ p :: post)[pre.length + 1 + (k + 1) - 1]? = some q
            rw [show pre.length + 1 + (k + 1) - 1 = pre.length + 1 + k by omega, idx_post]
            simpa using hq
        · have hne : j ≠ pre.length + 1 := by omega
          simp only [hne, if_false, hj]
          show (pre ++ p :: post)[j]? = some q
          rw [idx_pre _ _ _ _ (by omega)] at hq ⊢; exact hq
      · exact remove_stale s.h p h1 _ e1

theorem sim_truncate (s : St) (a : A) (xs : List Nat) (hR : R s a xs) (c : Nat) : Sim s a (.truncate c) := by
  rcases cursor_cases s a xs hR c with ⟨hs, ha⟩ | ⟨p, hs, ha, hl⟩ | ⟨p, pre, post, hs, ha, hx⟩
  · exact ⟨xs, by simpa [Mlink.step, CursorList.step, Mlink.withCursor, CursorList.withCursor, hs, ha] using hR,
      by simp [Mlink.step, CursorList.step, Mlink.withCursor, CursorList.withCursor, hs, ha]⟩
  · have h5 := (stale_refuses s.h p hl).2.2.2.2.2.2.2
    have e := setReg_self s c p hs
    exact ⟨xs, by simpa [Mlink.step, CursorList.step, Mlink.withCursor, CursorList.withCursor, hs, ha, h5, e] using hR,
      by simp [Mlink.step, CursorList.step, Mlink.withCursor, CursorList.withCursor, hs, ha, h5]⟩
  · subst hx
    obtain ⟨h1, e1, w1, a1, l1⟩ := truncate_abs s.h pre p post hR.wf
    refine ⟨pre ++ [p], ?_, by simp [Mlink.step, CursorList.step, Mlink.withCursor, CursorList.withCursor, hs, ha, e1]⟩
    simp only [Mlink.step, CursorList.step, Mlink.withCursor, CursorList.withCursor, hs, ha, e1]
    apply R_edit s a _ hR h1 _ _ w1 _ (by rw [a1, hR.l])
    · intro j q hq
      by_cases hj : j > pre.length
      · obtain ⟨k, rfl⟩ : ∃ k, j = pre.length + 1 + k := ⟨j - pre.length - 1, by omega⟩
        rw [idx_post] at hq
        simp only [hj, if_true]
        exact l1 q (List.mem_of_getElem? hq)
      · simp only [hj, if_false]
        show (pre ++ [p])[j]? = some q
        rw [idx_pre _ _ _ _ (by omega)] at hq; exact hq
    · exact truncate_stale s.h p h1 e1

theorem sim_clear (s : St) (a : A) (xs : List Nat) (hR : R s a xs) : Sim s a .clear := by
  obtain ⟨ids, rfl⟩ := xs_cons s.h xs hR.wf
  obtain ⟨h1, e1, w1, a1, l1⟩ := truncate_abs s.h [] 0 ids hR.wf
  rw [← clear_eq_truncate s.h _ hR.wf] at e1
  refine ⟨[0], ?_, by simp [Mlink.step, CursorList.step, e1]⟩
  simp only [Mlink.step, CursorList.step, e1]
  apply R_edit s a _ hR h1 _ _ (by simpa using w1) _ (by simpa using a1.symm)
  · intro j q hq
    cases j with
    | zero => simp at hq; subst hq; simp [RegRel]
    | succ k =>
      simp only [Nat.succ_pos, if_true, gt_iff_lt]
      have : ids[k]? = some q := by simpa using hq
      exact l1 q (List.mem_of_getElem? this)
  · exact truncate_stale s.h 0 h1 (by rw [← clear_eq_truncate s.h _ hR.wf]; exact e1)

theorem set_end_eq_push (h : Heap) (pre : List Nat) (p : Nat) (v : Int) (hw : WF h (pre ++ [p])) :
    Mlink.set h p v = push h p v := by
  have hv := cell_valid h pre p [] hw.seg hw.nodup
  have hl := cell_link h pre p [] none hw.seg
  simp [Mlink.set, push, atEnd_cell h pre p [] hw.seg hw.nodup, hv, hl]

theorem sim_set (s : St) (a : A) (xs : List Nat) (hR : R s a xs) (c : Nat) (v : Int) : Sim s a (.set c v) := by
  rcases cursor_cases s a xs hR c with ⟨hs, ha⟩ | ⟨p, hs, ha, hl⟩ | ⟨p, pre, post, hs, ha, hx⟩
  · exact ⟨xs, by simpa [Mlink.step, CursorList.step, Mlink.withCursor, CursorList.withCursor, hs, ha] using hR,
      by simp [Mlink.step, CursorList.step, Mlink.withCursor, CursorList.withCursor, hs, ha]⟩
  · have h5 := (stale_refuses s.h p hl).2.2.1 v
    have e := setReg_self s c p hs
    exact ⟨xs, by simpa [Mlink.step, CursorList.step, Mlink.withCursor, CursorList.withCursor, hs, ha, h5, e] using hR,
      by simp [Mlink.step, CursorList.step, Mlink.withCursor, CursorList.withCursor, hs, ha, h5]⟩
  · subst hx
    have hlen := abs_len s.h pre p post
    cases post with
    | nil =>
      obtain ⟨h1, n, e1, w1, a1⟩ := push_abs s.h pre p [] v hR.wf
      rw [← set_end_eq_push s.h pre p v hR.wf] at e1
      have hnl : ¬ pre.length < a.l.length := by rw [hR.l, hlen]; simp
      refine ⟨pre ++ p :: n :: [], ?_, by simp [Mlink.step, CursorList.step, Mlink.withCursor, CursorList.withCursor, hs, ha, e1]⟩
      simp only [Mlink.step, CursorList.step, Mlink.withCursor, CursorList.withCursor, hs, ha, e1, hnl, if_false]
      apply R_edit_id s a _ hR h1 _ w1
      · rw [a1, hR.l]
        have : (abs s.h (pre ++ [p])).length = pre.length := by rw [hlen]; simp
        rw [List.take_of_length_le (by omega), List.drop_of_length_le (by omega)]
      · intro j q hq
        have hj : j ≤ pre.length := by
          have := (List.getElem?_eq_some_iff.mp hq).1; simp at this; omega
        rw [idx_pre _ _ _ _ hj] at hq ⊢; exact hq
      · intro q hq
        rw [set_end_eq_push s.h pre p v hR.wf] at e1
        exact push_stale s.h p v h1 e1 q hq
    | cons t post =>
      obtain ⟨e1, w1, a1⟩ := set_mid_wf s.h pre p t post v hR.wf
      have hlt : pre.length < a.l.length := by rw [hR.l, hlen]; simp
      refine ⟨pre ++ p :: t :: post, ?_, by simp [Mlink.step, CursorList.step, Mlink.withCursor, CursorList.withCursor, hs, ha, e1]⟩
      simp only [Mlink.step, CursorList.step, Mlink.withCursor, CursorList.withCursor, hs, ha, e1, hlt, if_true]
      exact R_edit_id s a _ hR _ _ w1 _ (by rw [a1, hR.l]) (fun _ _ hq => hq) (fun _ hq => hq)

theorem sim_next (s : St) (a : A) (xs : List Nat) (hR : R s a xs) (c : Nat) : Sim s a (.next c) := by
  rcases cursor_cases s a xs hR c with ⟨hs, ha⟩ | ⟨p, hs, ha, hl⟩ | ⟨p, pre, post, hs, ha, hx⟩
  · exact ⟨xs, by simpa [Mlink.step, CursorList.step, Mlink.withCursor, CursorList.withCursor, hs, ha] using hR,
      by simp [Mlink.step, CursorList.step, Mlink.withCursor, CursorList.withCursor, hs, ha]⟩
  · have h5 := (stale_refuses s.h p hl).2.2.2.1
    have e := setReg_self s c p hs
    exact ⟨xs, by simpa [Mlink.step, CursorList.step, Mlink.withCursor, CursorList.withCursor, hs, ha, h5, e] using hR,
      by simp [Mlink.step, CursorList.step, Mlink.withCursor, CursorList.withCursor, hs, ha, h5]⟩
  · subst hx
    have hlen := abs_len s.h pre p post
    cases post with
    | nil =>
      have e1 := next_end s.h pre p hR.wf.seg hR.wf.nodup
      have hnl : ¬ pre.length < a.l.length := by rw [hR.l, hlen]; simp
      have e : s.setReg c p = s := by have := setReg_self s c p hs; simpa using this
      exact ⟨_, by simpa [Mlink.step, CursorList.step, Mlink.withCursor, CursorList.withCursor, hs, ha, e1, hnl, e] using hR,
        by simp [Mlink.step, CursorList.step, Mlink.withCursor, CursorList.withCursor, hs, ha, e1, hnl]⟩
    | cons q r =>
      have e1 := next_cell s.h pre p q r hR.wf.seg hR.wf.nodup
      have hlt : pre.length < a.l.length := by rw [hR.l, hlen]; simp
      refine ⟨pre ++ p :: q :: r, ?_, ?_⟩
      · simp only [Mlink.step, CursorList.step, Mlink.withCursor, CursorList.withCursor, hs, ha, e1, hlt, if_true]
        apply R_setReg _ _ _ hR
        show (pre ++ p :: q :: r)[pre.length + 1]? = some q
        have := idx_post pre p (q :: r) 0
        simpa using this
      · simp only [Mlink.step, CursorList.step, Mlink.withCursor, CursorList.withCursor, hs, ha, e1, hlt, if_true]
        congr 1
        rw [hR.l, hlen]; cases r <;> simp

theorem sim_get (s : St) (a : A) (xs : List Nat) (hR : R s a xs) (c : Nat) : Sim s a (.get c) := by
  rcases cursor_cases s a xs hR c with ⟨hs, ha⟩ | ⟨p, hs, ha, hl⟩ | ⟨p, pre, post, hs, ha, hx⟩
  · exact ⟨xs, by simpa [Mlink.step, CursorList.step, Mlink.withCursor, CursorList.withCursor, hs, ha] using hR,
      by simp [Mlink.step, CursorList.step, Mlink.withCursor, CursorList.withCursor, hs, ha]⟩
  · have h5 := (stale_refuses s.h p hl).2.1
    exact ⟨xs, by simpa [Mlink.step, CursorList.step, Mlink.withCursor, CursorList.withCursor, hs, ha, h5] using hR,
      by simp [Mlink.step, CursorList.step, Mlink.withCursor, CursorList.withCursor, hs, ha, h5]⟩
  · subst hx
    have e1 := get_cell s.h pre p post hR.wf.seg hR.wf.nodup
    obtain ⟨a1, a2⟩ := abs_split s.h pre p post
    refine ⟨_, by simpa [Mlink.step, CursorList.step, Mlink.withCursor, CursorList.withCursor, hs, ha, e1] using hR, ?_⟩
    simp only [Mlink.step, CursorList.step, Mlink.withCursor, CursorList.withCursor, hs, ha, e1]
    rw [hR.l, a1, getD_append_at _ _ _ _ a2]
    cases post <;> simp

theorem sim_atEnd (s : St) (a : A) (xs : List Nat) (hR : R s a xs) (c : Nat) : Sim s a (.atEnd c) := by
  rcases cursor_cases s a xs hR c with ⟨hs, ha⟩ | ⟨p, hs, ha, hl⟩ | ⟨p, pre, post, hs, ha, hx⟩
  · exact ⟨xs, by simpa [Mlink.step, CursorList.step, Mlink.withCursor, CursorList.withCursor, hs, ha] using hR,
      by simp [Mlink.step, CursorList.step, Mlink.withCursor, CursorList.withCursor, hs, ha]⟩
  · have h5 := (stale_refuses s.h p hl).1
    exact ⟨xs, by simpa [Mlink.step, CursorList.step, Mlink.withCursor, CursorList.withCursor, hs, ha, h5] using hR,
      by simp [Mlink.step, CursorList.step, Mlink.withCursor, CursorList.withCursor, hs, ha, h5]⟩
  · subst hx
    have e1 := atEnd_cell s.h pre p post hR.wf.seg hR.wf.nodup
    have hlen := abs_len s.h pre p post
    refine ⟨_, by simpa [Mlink.step, CursorList.step, Mlink.withCursor, CursorList.withCursor, hs, ha, e1] using hR, ?_⟩
    simp only [Mlink.step, CursorList.step, Mlink.withCursor, CursorList.withCursor, hs, ha, e1]
    rw [hR.l, hlen]; cases post <;> simp

theorem add_stale : ∀ (vs : List Int) (h : Heap) (p : Nat) (h1 : Heap) (p1 : Nat),
    add h p vs = .ok (h1, p1) → ∀ q, h.link q = some q → h1.link q = some q := by
  intro vs
  induction vs with
  | nil => intro h p h1 p1 e q hq; simp [add] at e; rw [← e.1]; exact hq
  | cons v vs ih =>
    intro h p h1 p1 e q hq
    simp only [add] at e
    cases hp : push h p v with
    | ok h2 =>
      rw [hp] at e; simp only [bind_ok] at e
      cases hn : next h2 p with
      | ok r =>
        rw [hn] at e; simp only [bind_ok] at e
        exact ih h2 r.1 h1 p1 e q (push_stale h p v h2 hp q hq)
      | panic a b => rw [hn] at e; simp at e
      | hang => rw [hn] at e; simp at e
    | panic a b => rw [hp] at e; simp at e
    | hang => rw [hp] at e; simp at e

theorem sim_add (s : St) (a : A) (xs : List Nat) (hR : R s a xs) (c : Nat) (vs : List Int) : Sim s a (.add c vs) := by
  cases vs with
  | nil =>
    rcases cursor_cases s a xs hR c with ⟨hs, ha⟩ | ⟨p, hs, ha, hl⟩ | ⟨p, pre, post, hs, ha, hx⟩
    · exact ⟨xs, by simpa [Mlink.step, CursorList.step, Mlink.withCursor, hs, ha] using hR,
        by simp [Mlink.step, CursorList.step, Mlink.withCursor, hs, ha]⟩
    · have e := setReg_self s c p hs
      exact ⟨xs, by simpa [Mlink.step, CursorList.step, Mlink.withCursor, hs, ha, add, e] using hR,
        by simp [Mlink.step, CursorList.step, Mlink.withCursor, hs, ha, add]⟩
    · have e := setReg_self s c p hs
      exact ⟨xs, by simpa [Mlink.step, CursorList.step, Mlink.withCursor, hs, ha, add, e] using hR,
        by simp [Mlink.step, CursorList.step, Mlink.withCursor, hs, ha, add]⟩
  | cons v vs =>
    rcases cursor_cases s a xs hR c with ⟨hs, ha⟩ | ⟨p, hs, ha, hl⟩ | ⟨p, pre, post, hs, ha, hx⟩
    · exact ⟨xs, by simpa [Mlink.step, CursorList.step, Mlink.withCursor, CursorList.withCursor, hs, ha] using hR,
        by simp [Mlink.step, CursorList.step, Mlink.withCursor, CursorList.withCursor, hs, ha]⟩
    · have h5 := (stale_refuses s.h p hl).2.2.2.2.2.1 v vs
      have e := setReg_self s c p hs
      exact ⟨xs, by simpa [Mlink.step, CursorList.step, Mlink.withCursor, CursorList.withCursor, hs, ha, h5, e] using hR,
        by simp [Mlink.step, CursorList.step, Mlink.withCursor, CursorList.withCursor, hs, ha, h5]⟩
    · subst hx
      obtain ⟨h1, pre1, p1, e1, w1, l1, a1, mid, m1, m2⟩ := add_abs (v :: vs) s.h pre p post hR.wf
      have hxs1 : pre1 ++ p1 :: post = (pre ++ p :: mid) ++ post := by
        rw [← m2]; simp
      refine ⟨pre1 ++ p1 :: post, ?_, by simp [Mlink.step, CursorList.step, Mlink.withCursor, CursorList.withCursor, hs, ha, e1]⟩
      simp only [Mlink.step, CursorList.step, Mlink.withCursor, CursorList.withCursor, hs, ha, e1,
        List.isEmpty_cons, Bool.false_eq_true, if_false]
      have hedit := R_edit s a _ hR h1 (pre1 ++ p1 :: post)
        (fun j => .at_ (if j > pre.length then j + (v :: vs).length else j)) w1
        (a.l.take pre.length ++ (v :: vs) ++ a.l.drop pre.length) (by rw [a1, hR.l])
        (by
          intro j q hq
          show (pre1 ++ p1 :: post)[if j > pre.length then j + (v :: vs).length else j]? = some q
          rw [hxs1]
          by_cases hj : j > pre.length
          · obtain ⟨k, rfl⟩ : ∃ k, j = pre.length + 1 + k := ⟨j - pre.length - 1, by omega⟩
            rw [idx_post] at hq
            simp only [hj, if_true]
            rw [List.getElem?_append_right (by simp [m1]; omega)]
            have : pre.length + 1 + k + (v :: vs).length - (pre ++ p :: mid).length = k := by
              simp [m1]; omega
            rw [this]; exact hq
          · simp only [hj, if_false]
            rw [idx_pre _ _ _ _ (by omega)] at hq
            have h2 : pre ++ p :: mid ++ post = (pre ++ [p]) ++ (mid ++ post) := by simp
            rw [h2, List.getElem?_append_left (by simp; omega)]; exact hq)
        (add_stale (v :: vs) s.h p h1 p1 e1)
      have := R_setReg _ _ _ hedit c p1 (.at_ (pre.length + (v :: vs).length))
        (by show (pre1 ++ p1 :: post)[pre.length + (v :: vs).length]? = some p1
            rw [← l1]; exact getElem?_mid ..)
      exact this

theorem step_sim (s : St) (a : A) (xs : List Nat) (hR : R s a xs) (op : Op) : Sim s a op := by
  obtain ⟨ids, hx⟩ := xs_cons s.h xs hR.wf
  have hR' : R s a (0 :: ids) := hx ▸ hR
  obtain ⟨l1, l2, l3, l4, l5, l6, l7, l8⟩ := step_refines_list s a ids hR'
  cases op with
  | at_ c n => exact l1 c n
  | find c v => exact l2 c v
  | last c => exact l3 c
  | end_ c => exact l4 c
  | copy c d => exact sim_copy s a xs hR c d
  | push c v => exact sim_push s a xs hR c v
  | add c vs => exact sim_add s a xs hR c vs
  | set c v => exact sim_set s a xs hR c v
  | remove c => exact sim_remove s a xs hR c
  | truncate c => exact sim_truncate s a xs hR c
  | next c => exact sim_next s a xs hR c
  | get c => exact sim_get s a xs hR c
  | atEnd c => exact sim_atEnd s a xs hR c
  | clear => exact sim_clear s a xs hR
  | peek n => exact l5 n
  | each k => exact l6 k
  | len => exact l7
  | isEmpty => exact l8

theorem R_init : R {} {} [0] := by
  refine ⟨wf_empty.1, rfl, rfl, ?_⟩
  intro c
  have h1 : ({} : St).reg c = none := by
    show ([none, none, none, none] : List (Option Nat)).getD c none = none
    match c with
    | 0 | 1 | 2 | 3 => rfl
    | n + 4 => rfl
  have h2 : ({} : A).reg c = none := by
    show ([none, none, none, none] : List (Option Pos)).getD c none = none
    match c with
    | 0 | 1 | 2 | 3 => rfl
    | n + 4 => rfl
  rw [h1, h2]; trivial

theorem run_sim (s : St) (a : A) (xs : List Nat) (hR : R s a xs) (ops : List Op) :
    Mlink.run s ops = CursorList.run a ops := by
  induction ops generalizing s a xs with
  | nil => rfl
  | cons op ops ih =>
    obtain ⟨xs', h1, h2⟩ := step_sim s a xs hR op
    simp only [Mlink.run, CursorList.run]
    rw [h2, ih _ _ xs' h1]

end MdsVerif.Proofs.Mlink
