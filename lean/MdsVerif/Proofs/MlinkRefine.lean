import MdsVerif.Proofs.Mlink
/-!
# The `mlink.List` register machine refines the positional reference (C10)

`R s a xs`: the heap of the model state `s` is well formed with chain `xs`, the reference list is
`abs`, and every cursor register corresponds: unset/unset, `pred = xs[i]` / position `i`, self-linked
`pred` / stale.
-/
namespace MdsVerif.Proofs.Mlink
open MdsVerif.Model MdsVerif.Model.Mlink MdsVerif.Spec MdsVerif.Spec.CursorList

/-! ## self-linked entries stay self-linked -/

theorem lt_of_link (h : Heap) (q : Nat) (x : Nat) (hq : h.link q = some x) : q < h.size := by
  by_cases hlt : q < h.links.length
  · exact hlt
  · simp [Heap.link, List.getD_eq_getElem?_getD, List.getElem?_eq_none (Nat.le_of_not_lt hlt)] at hq

theorem push_stale (h : Heap) (p : Nat) (v : Int) (h1 : Heap) (e : push h p v = .ok h1) (q : Nat)
    (hq : h.link q = some q) : h1.link q = some q := by
  unfold push at e
  by_cases hv : invalid h p = true
  · simp [hv] at e
  · simp only [hv, Bool.false_eq_true, if_false, Res.ok.injEq] at e
    subst e
    have hqp : q ≠ p := fun e' => by subst e'; simp [invalid, hq] at hv
    have hqs := lt_of_link h q q hq
    rw [link_setLink, link_alloc]
    have : q ≠ h.size := by omega
    simp [hqp, this, hq]

theorem invalidate_stale : ∀ (fuel : Nat) (h : Heap) (e : Option Nat) (h' : Heap),
    invalidate fuel h e = .ok h' → ∀ q, h.link q = some q → h'.link q = some q := by
  intro fuel
  induction fuel with
  | zero => intro h e h' he; simp [invalidate] at he
  | succ f ih =>
    intro h e h' he q hq
    cases e with
    | none => simp [invalidate] at he; subst he; exact hq
    | some x =>
      simp only [invalidate] at he
      apply ih _ _ _ he
      rw [link_setLink]
      by_cases hx : q = x
      · subst hx; simp [lt_of_link h q q hq]
      · simp [hx, hq]

theorem truncate_stale (h : Heap) (p : Nat) (h1 : Heap) (e : truncate h p = .ok h1) (q : Nat)
    (hq : h.link q = some q) : h1.link q = some q := by
  unfold truncate at e
  by_cases hv : invalid h p = true
  · simp [hv] at e
  · simp only [hv, Bool.false_eq_true, if_false] at e
    cases hi : invalidate (h.size + 1) h (h.link p) with
    | ok h' =>
      rw [hi] at e; simp only [bind_ok, Res.ok.injEq] at e; subst e
      have hqp : q ≠ p := fun e' => by subst e'; simp [invalid, hq] at hv
      rw [link_setLink]; simp [hqp, invalidate_stale _ _ _ _ hi q hq]
    | panic a b => rw [hi] at e; simp at e
    | hang => rw [hi] at e; simp at e

theorem remove_stale (h : Heap) (p : Nat) (h1 : Heap) (v : Int) (e : remove h p = .ok (h1, v)) (q : Nat)
    (hq : h.link q = some q) : h1.link q = some q := by
  unfold remove atEnd at e
  by_cases hv : invalid h p = true
  · simp [hv] at e
  · simp only [hv, Bool.false_eq_true, if_false, bind_ok] at e
    split at e
    · simp only [Res.ok.injEq, Prod.mk.injEq] at e; rw [← e.1]; exact hq
    · simp only [Res.ok.injEq, Prod.mk.injEq] at e
      rw [← e.1]
      have hqp : q ≠ p := fun e' => by subst e'; simp [invalid, hq] at hv
      rw [link_setLink, link_setLink]
      by_cases hqt : q = tgt h p
      · have hlt := lt_of_link h q q hq
        rw [hqt] at hlt hqp
        simp [← hqt, hqp, hlt, hqt ▸ hlt]
        simp [hqt, hqp, hlt]
      · simp [hqp, hqt, hq]

/-! ## the refinement relation -/

def RegRel (h : Heap) (xs : List Nat) : Option Nat → Option Pos → Prop
  | none, none => True
  | some p, some (.at_ i) => xs[i]? = some p
  | some p, some .stale => h.link p = some p
  | _, _ => False

structure R (s : St) (a : A) (xs : List Nat) : Prop where
  wf : WF s.h xs
  l : a.l = abs s.h xs
  rlen : s.regs.length = a.regs.length
  regs : ∀ c, RegRel s.h xs (s.reg c) (a.reg c)

theorem getD_set_opt {α : Type} (l : List (Option α)) (c : Nat) (x : Option α) (c' : Nat) :
    (l.set c x).getD c' none = if c' = c ∧ c < l.length then x else l.getD c' none := by
  simp only [List.getD_eq_getElem?_getD, List.getElem?_set]
  by_cases h1 : c = c'
  · subst h1
    by_cases hlt : c < l.length <;> simp [hlt]
  · have : ¬ c' = c := fun e => h1 e.symm
    simp [h1, this]

theorem R_setReg (s : St) (a : A) (xs : List Nat) (hR : R s a xs) (c p : Nat) (pos : Pos)
    (hr : RegRel s.h xs (some p) (some pos)) : R (s.setReg c p) (a.setReg c pos) xs := by
  refine ⟨hR.wf, hR.l, by simp [St.setReg, A.setReg, hR.rlen], ?_⟩
  intro c'
  simp only [St.setReg, St.reg, A.setReg, A.reg, getD_set_opt, hR.rlen]
  split
  · exact hr
  · exact hR.regs c'

theorem split_at (xs : List Nat) (i p : Nat) (hx : xs[i]? = some p) :
    ∃ pre post, xs = pre ++ p :: post ∧ pre.length = i := by
  obtain ⟨hlt, he⟩ := List.getElem?_eq_some_iff.mp hx
  refine ⟨xs.take i, xs.drop (i + 1), ?_, by simp; omega⟩
  rw [← he, List.getElem_cons_drop, List.take_append_drop]

theorem getElem?_mid (pre : List Nat) (p : Nat) (post : List Nat) : (pre ++ p :: post)[pre.length]? = some p := by
  simp

theorem cursor_cases (s : St) (a : A) (xs : List Nat) (hR : R s a xs) (c : Nat) :
    (s.reg c = none ∧ a.reg c = none) ∨
    (∃ p, s.reg c = some p ∧ a.reg c = some .stale ∧ s.h.link p = some p) ∨
    (∃ p pre post, s.reg c = some p ∧ a.reg c = some (.at_ pre.length) ∧ xs = pre ++ p :: post) := by
  have := hR.regs c
  cases hs : s.reg c with
  | none =>
    cases ha : a.reg c with
    | none => exact Or.inl ⟨rfl, rfl⟩
    | some pos => rw [hs, ha] at this; cases pos <;> simp [RegRel] at this
  | some p =>
    cases ha : a.reg c with
    | none => rw [hs, ha] at this; simp [RegRel] at this
    | some pos =>
      rw [hs, ha] at this
      cases pos with
      | stale => exact Or.inr (Or.inl ⟨p, rfl, rfl, this⟩)
      | at_ i =>
        obtain ⟨pre, post, e1, e2⟩ := split_at xs i p this
        exact Or.inr (Or.inr ⟨p, pre, post, rfl, by rw [e2], e1⟩)

theorem reg_mapPos (f : Nat → Pos) (regs : List (Option Pos)) (c : Nat) :
    (mapPos f regs).getD c none =
      match regs.getD c none with
      | some (.at_ j) => some (f j)
      | r => r := by
  simp only [mapPos, List.getD_eq_getElem?_getD, List.getElem?_map]
  cases regs[c]? with
  | none => rfl
  | some r => cases r with
    | none => rfl
    | some pos => cases pos <;> rfl

/-- re-establish the register correspondence after an edit of the list -/
theorem R_edit (s : St) (a : A) (xs : List Nat) (hR : R s a xs) (h1 : Heap) (xs1 : List Nat) (f : Nat → Pos)
    (hw : WF h1 xs1) (l1 : List Int) (hl : l1 = abs h1 xs1)
    (hat : ∀ j q, xs[j]? = some q → RegRel h1 xs1 (some q) (some (f j)))
    (hst : ∀ q, s.h.link q = some q → h1.link q = some q) :
    R { s with h := h1 } { l := l1, regs := mapPos f a.regs } xs1 := by
  refine ⟨hw, hl, by simp [mapPos, hR.rlen], ?_⟩
  intro c
  have := hR.regs c
  simp only [St.reg, A.reg, reg_mapPos] at this ⊢
  cases hs : s.regs.getD c none with
  | none =>
    cases ha : a.regs.getD c none with
    | none => simp [RegRel]
    | some pos => rw [hs, ha] at this; cases pos <;> simp [RegRel] at this
  | some p =>
    cases ha : a.regs.getD c none with
    | none => rw [hs, ha] at this; simp [RegRel] at this
    | some pos =>
      rw [hs, ha] at this
      cases pos with
      | stale => exact hst p this
      | at_ i => exact hat i p this

end MdsVerif.Proofs.Mlink
