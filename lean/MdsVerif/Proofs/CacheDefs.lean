import MdsVerif.Model.Cache
/-!
# Executable definitions shared by the C08 proofs and the C08 driver (core Lean only)

`stepMin` / `runMin` ("every `Evict` this `Put` executes finds a minimal `lastAccess` at the heap root") is the
hypothesis of the conditional refinement theorems of `Props.C08`, and the driver stream `C08` evaluates it to
tell finding F2 from any other deviation.  The definitions live here, apart from `Proofs/Cache.lean`, so that
the driver does not import the proofs: when a change of cache.go/lru.go breaks a `*_def` lemma there, `mdsdrv`
still builds and the search for a failing input runs (DESIGN.md §11.1).  They are written with the pinned
expressions of `Put` (they are part of theorem statements, not of the model).
-/
namespace MdsVerif.Proofs.Cache
open MdsVerif.Model.Heapq hiding step clear set Op Out S
open MdsVerif.Model.Cache

/-- the state of `Put` after an existing entry for the key has been removed -/
def putReplace (cfg : Cfg) (sizeOf : Nat → Int) (c : Cache) (key : Nat) : Cache :=
  match c.store.check key with
  | some old =>
    { c with store := c.store.remove cfg key, evicted := (key, old) :: c.evicted,
             size := c.size - sizeOf old, count := c.count - 1 }
  | none => c

/-- the root of the heap array carries a minimal timestamp -/
def minOK (h : H Entry) : Bool := h.data.all (fun e => (h.get 0).lastAccess ≤ e.lastAccess)

/-- every `Evict` executed by this run of `Put`'s eviction loop finds a minimal timestamp at the root
(same recursion as `evictLoop`) -/
def evictLoopMin (cfg : Cfg) (sizeOf : Nat → Int) : Nat → Cache → Int → Bool
  | 0, _, _ => true
  | fuel + 1, c, newSize =>
    if newSize > c.limit then
      minOK c.store.h &&
        match c.store.evict cfg with
        | .panic _ => true
        | .ok (st, ek, ev) =>
          evictLoopMin cfg sizeOf fuel
            { c with store := st, evicted := (ek, ev) :: c.evicted, count := c.count - 1 } (newSize - sizeOf ev)
    else true

/-- every `Evict` that `Put` executes in this step picks a least-recently-used entry.  (`Clear` also
evicts, but the order of its callbacks is not part of the property.) -/
def stepMin (cfg : Cfg) (sizeOf : Nat → Int) (c : Cache) : Op → Bool
  | .put k v =>
    if sizeOf v > c.limit then true
    else
      evictLoopMin cfg sizeOf ((putReplace cfg sizeOf c k).store.h.len + 1) (putReplace cfg sizeOf c k)
        ((putReplace cfg sizeOf c k).size + sizeOf v)
  | _ => true

def runMin (cfg : Cfg) (sizeOf : Nat → Int) (c : Cache) : List Op → Bool
  | [] => true
  | op :: ops => stepMin cfg sizeOf c op && runMin cfg sizeOf (step cfg sizeOf c op).1 ops

end MdsVerif.Proofs.Cache
