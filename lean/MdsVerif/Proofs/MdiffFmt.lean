import MdsVerif.Model.MdiffFmt
/-!
# Lemmas about the text formats of `mdiff` (model `Model/MdiffFmt.lean`) — property C14

Token layer (`readLines (render ls) = ls`, numbers, ranges, change commands) and the normal-format
round trip.  All statements are about the model *with the regenerated facts of `Gen.MdiffFmt`*;
the proofs unfold those facts, so a change of any of them in the Go sources breaks them.
-/
namespace MdsVerif.Proofs.MdiffFmt
open MdsVerif.Model.Edit MdsVerif.Model.Mdiff MdsVerif.Model.MdiffFmt
open MdsVerif.Gen

/-! ## lines -/

/-- a line without an embedded newline -/
def NoNl (l : Line) : Prop := '\n' ∉ l

theorem readLinesAux_line (l : Line) (h : NoNl l) (rest : List Char) (cur : Line) :
    readLinesAux (l ++ '\n' :: rest) cur = (cur.reverse ++ l) :: readLinesAux rest [] := by
  induction l generalizing cur with
  | nil => simp [readLinesAux]
  | cons c l ih =>
    have hc : c ≠ '\n' := fun e => h (by simp [e])
    have hl : NoNl l := fun e => h (by simp [e])
    simp only [List.cons_append, readLinesAux, if_neg hc]
    rw [ih hl]; simp

/-- **token layer, lines**: `readline` iterated over the bytes written for `ls` returns `ls`. -/
theorem readLines_render (ls : List Line) (h : ∀ l ∈ ls, NoNl l) : readLines (render ls) = ls := by
  unfold readLines
  induction ls with
  | nil => simp [render, readLinesAux]
  | cons l ls ih =>
    have : render (l :: ls) = l ++ '\n' :: render ls := by simp [render]
    rw [this, readLinesAux_line l (h l (by simp)), ih (fun l' hl' => h l' (by simp [hl']))]
    simp

/-! ## numbers -/

theorem itoa_ne_nil (n : Nat) : itoa n ≠ [] := Nat.toDigits_ne_nil

theorem itoa_digit (n : Nat) : ∀ c ∈ itoa n, c.isDigit = true :=
  fun _ h => Nat.isDigit_of_mem_toDigits (by decide) (by decide) h

/-- **token layer, numbers**: `Atoi(Itoa(n)) = n` -/
theorem atoi_itoa (n : Nat) : atoi? (itoa n) = some n := by
  unfold atoi?
  rw [if_pos ⟨itoa_ne_nil n, List.all_eq_true.mpr (itoa_digit n)⟩]
  simp [itoa, Nat.ofDigitChars_toDigits]

theorem digit_ne {c d : Char} (hc : c.isDigit = true) (hd : d.isDigit = false) : c ≠ d := by
  intro e; subst e; rw [hc] at hd; cases hd

/-! ## `strings.Cut` -/

theorem cut_none (sep : Char) (l : Line) (h : sep ∉ l) : cut sep l = none := by
  induction l with
  | nil => rfl
  | cons c l ih =>
    have hc : c ≠ sep := fun e => h (by simp [e])
    simp [cut, hc, ih (fun e => h (by simp [e]))]

theorem cut_append (sep : Char) (a b : Line) (h : sep ∉ a) : cut sep (a ++ sep :: b) = some (a, b) := by
  induction a with
  | nil => simp [cut]
  | cons c a ih =>
    have hc : c ≠ sep := fun e => h (by simp [e])
    simp [cut, hc, ih (fun e => h (by simp [e]))]

theorem not_mem_itoa (n : Nat) (d : Char) (hd : d.isDigit = false) : d ∉ itoa n :=
  fun h => digit_ne (itoa_digit n d h) hd rfl

/-! ## ranges -/

theorem dspan_eq (s e : Nat) :
    dspan s e = if e - s = 1 then itoa s else itoa s ++ ',' :: itoa (e - 1) := by
  -- robust against semantically equal rewrites of the extracted expressions (`omega` closes them)
  have h1 : MdiffFmt.dspanSingle s e = true ↔ e - s = 1 := by
    simp [MdiffFmt.dspanSingle] <;> omega
  have h2 : MdiffFmt.dspanOne s e = s := by simp [MdiffFmt.dspanOne] <;> omega
  have h3 : MdiffFmt.dspanFst s e = s := by simp [MdiffFmt.dspanFst] <;> omega
  have h4 : MdiffFmt.dspanSnd s e = e - 1 := by simp [MdiffFmt.dspanSnd] <;> omega
  unfold dspan
  by_cases h : e - s = 1
  · rw [if_pos (h1.mpr h), if_pos h, h2]
  · rw [if_neg (fun k => h (h1.mp k)), if_neg h, h3, h4]; simp

theorem uspan_eq (side : Line) (s e : Nat) :
    uspan side s e = if e - s = 1 then side ++ itoa s else side ++ itoa s ++ ',' :: itoa (e - s) := by
  have h1 : MdiffFmt.uspanSingle s e = true ↔ e - s = 1 := by
    simp [MdiffFmt.uspanSingle] <;> omega
  have h2 : MdiffFmt.uspanOne s e = s := by simp [MdiffFmt.uspanOne] <;> omega
  have h3 : MdiffFmt.uspanFst s e = s := by simp [MdiffFmt.uspanFst] <;> omega
  have h4 : MdiffFmt.uspanSnd s e = e - s := by simp [MdiffFmt.uspanSnd] <;> omega
  unfold uspan
  by_cases h : e - s = 1
  · rw [if_pos (h1.mpr h), if_pos h, h2]
  · rw [if_neg (fun k => h (h1.mp k)), if_neg h, h3, h4]; simp

theorem cutPrefix_nil (s : Line) : cutPrefix [] s = some s := by simp [cutPrefix]

/-- **token layer, ranges of the normal/context formats**: `parseSpan("", dspan(s, e))` -/
theorem parseSpan_dspan (s e : Nat) :
    parseSpan [] (dspan s e) = some (s, if e - s = 1 then 0 else e - 1) := by
  rw [dspan_eq]
  by_cases h : e - s = 1
  · simp only [if_pos h, parseSpan, cutPrefix_nil, cut_none ',' _ (not_mem_itoa s ',' (by decide)),
      atoi_itoa, MdiffFmt.spanOmitted, Option.map]
  · simp only [if_neg h, parseSpan, cutPrefix_nil,
      cut_append ',' _ _ (not_mem_itoa s ',' (by decide)), atoi_itoa]

theorem parseSpan_itoa (n : Nat) : parseSpan [] (itoa n) = some (n, 0) := by
  simp only [parseSpan, cutPrefix_nil, cut_none ',' _ (not_mem_itoa n ',' (by decide)),
      atoi_itoa, MdiffFmt.spanOmitted, Option.map]

/-- the characters of a range: digits and commas -/
def SpanChars (l : Line) : Prop := ∀ c ∈ l, c.isDigit = true ∨ c = ','

theorem spanChars_itoa (n : Nat) : SpanChars (itoa n) := fun c h => Or.inl (itoa_digit n c h)

theorem spanChars_dspan (s e : Nat) : SpanChars (dspan s e) := by
  rw [dspan_eq]
  split
  · exact spanChars_itoa s
  · intro c h
    simp only [List.mem_append, List.mem_cons] at h
    rcases h with h | h | h
    · exact Or.inl (itoa_digit _ c h)
    · exact Or.inr h
    · exact Or.inl (itoa_digit _ c h)

theorem spanChars_not_mem {l : Line} (h : SpanChars l) (d : Char) (hd : d.isDigit = false) (hc : d ≠ ',') :
    d ∉ l := by
  intro hm
  rcases h d hm with h' | h'
  · rw [h'] at hd; cases hd
  · exact hc h'

/-- **token layer, change commands**: the three `strings.Cut` attempts find the command letter -/
theorem cutCmd_cmd (a b : Line) (k : Char) (ha : SpanChars a) (hb : SpanChars b)
    (hk : k = 'a' ∨ k = 'c' ∨ k = 'd') : cutCmd (a ++ k :: b) = some (a, k, b) := by
  have na := fun d hd hc => spanChars_not_mem ha d hd hc
  have nb := fun d hd hc => spanChars_not_mem hb d hd hc
  have nmem : ∀ d : Char, d.isDigit = false → d ≠ ',' → d ≠ k → d ∉ a ++ k :: b := by
    intro d hd hc hk' hm
    simp only [List.mem_append, List.mem_cons] at hm
    rcases hm with h | h | h
    · exact na d hd hc h
    · exact hk' h
    · exact nb d hd hc h
  rcases hk with rfl | rfl | rfl
  · simp [cutCmd, cut_append 'a' a b (na 'a' (by decide) (by decide))]
  · simp [cutCmd, cut_none 'a' _ (nmem 'a' (by decide) (by decide) (by decide)),
      cut_append 'c' a b (na 'c' (by decide) (by decide))]
  · simp [cutCmd, cut_none 'a' _ (nmem 'a' (by decide) (by decide) (by decide)),
      cut_none 'c' _ (nmem 'c' (by decide) (by decide) (by decide)),
      cut_append 'd' a b (na 'd' (by decide) (by decide))]


/-! ## the normal format: `Read ∘ Normal` -/

/-- the rest of the input is empty or begins with a change command (a line starting with a digit) -/
def CmdStart (rest : List Line) : Prop :=
  rest = [] ∨ ∃ d ds ls, rest = (d :: ds) :: ls ∧ d.isDigit = true

theorem cutPrefix_append (p x : Line) : cutPrefix p (p ++ x) = some x := by
  simp [cutPrefix, List.isPrefixOf_iff_prefix]

theorem cutPrefix_ne (c d : Char) (p' x : Line) (h : c ≠ d) :
    cutPrefix (c :: p') (d :: x) = none := by
  simp [cutPrefix, List.isPrefixOf, h]

theorem str_del : str MdiffFmt.rdNrmDel = ['<', ' '] := rfl
theorem str_ins : str MdiffFmt.rdNrmIns = ['>', ' '] := rfl
theorem str_sep : str MdiffFmt.rdNrmSep = ['-', '-', '-'] := rfl
theorem str_wdel : str MdiffFmt.nrmDel = ['<', ' '] := rfl
theorem str_wins : str MdiffFmt.nrmIns = ['>', ' '] := rfl

theorem readNormalEdit_del (X rest X0 : List Line) :
    readNormalEdit (writeLines (str MdiffFmt.nrmDel) X ++ rest) X0 [] false
      = readNormalEdit rest (X0 ++ X) [] false := by
  induction X generalizing X0 with
  | nil => simp [writeLines]
  | cons x X ih =>
    have : writeLines (str MdiffFmt.nrmDel) (x :: X) ++ rest
        = (['<', ' '] ++ x) :: (writeLines (str MdiffFmt.nrmDel) X ++ rest) := by
      simp [writeLines, str_wdel]
    rw [this, readNormalEdit, str_del, cutPrefix_append]
    simp only [Bool.false_eq_true, List.length_nil, ne_eq, not_true_eq_false, or_self, ↓reduceIte]
    rw [ih]; simp

theorem readNormalEdit_ins (Y rest X0 Y0 : List Line) (below : Bool)
    (h : X0.length = 0 ∨ below = true) :
    readNormalEdit (writeLines (str MdiffFmt.nrmIns) Y ++ rest) X0 Y0 below
      = readNormalEdit rest X0 (Y0 ++ Y) below := by
  induction Y generalizing Y0 with
  | nil => simp [writeLines]
  | cons y Y ih =>
    have : writeLines (str MdiffFmt.nrmIns) (y :: Y) ++ rest
        = ('>' :: ' ' :: y) :: (writeLines (str MdiffFmt.nrmIns) Y ++ rest) := by
      simp [writeLines, str_wins]
    rw [this, readNormalEdit, str_del, cutPrefix_ne _ _ _ _ (by decide), str_ins]
    have : cutPrefix ['>', ' '] ('>' :: ' ' :: y) = some y := cutPrefix_append ['>', ' '] y
    rw [this]
    have hg : ¬ (X0.length ≠ 0 ∧ ¬ below = true) := by
      rcases h with h | h
      · simp [h]
      · simp [h]
    simp only [hg, ↓reduceIte]
    rw [ih]; simp

theorem readNormalEdit_sep (rest X : List Line) :
    readNormalEdit (str "---" :: rest) X [] false = readNormalEdit rest X [] true := by
  rw [readNormalEdit, str_del]
  have h1 : cutPrefix ['<', ' '] (str "---") = none := by decide
  have h2 : cutPrefix (str MdiffFmt.rdNrmIns) (str "---") = none := by decide
  rw [h1, h2]
  have e : str "---" = str MdiffFmt.rdNrmSep := rfl
  simp only [if_pos e, Bool.false_eq_true, ↓reduceIte]

theorem readNormalEdit_stop (rest X Y : List Line) (below : Bool) (h : CmdStart rest) :
    readNormalEdit rest X Y below = some (X, Y, rest) := by
  rcases h with rfl | ⟨d, ds, ls, rfl, hd⟩
  · simp [readNormalEdit]
  · have n1 : d ≠ '<' := digit_ne hd (by decide)
    have n2 : d ≠ '>' := digit_ne hd (by decide)
    have n3 : d ≠ '-' := digit_ne hd (by decide)
    rw [readNormalEdit, str_del, cutPrefix_ne _ _ _ _ (Ne.symm n1), str_ins,
      cutPrefix_ne _ _ _ _ (Ne.symm n2), str_sep]
    simp [n3]

theorem nrmHi_range (s k : Nat) (hs : 1 ≤ s) (hk : 1 ≤ k) :
    nrmHi s (if s + k - s = 1 then 0 else s + k - 1) 1 = s + k := by
  unfold nrmHi
  simp only [MdiffFmt.nrmZeroMeansSame, true_and]
  split <;> split <;> omega

theorem nrmHi_one (n : Nat) : nrmHi n 0 1 = n + 1 := by
  simp [nrmHi, MdiffFmt.nrmZeroMeansSame]

theorem dspan_ne_nil (s e : Nat) : dspan s e ≠ [] := by
  rw [dspan_eq]; split
  · exact itoa_ne_nil s
  · have := itoa_ne_nil s
    cases h : itoa s with
    | nil => exact absurd h this
    | cons a b => simp

theorem itoa_head (n : Nat) : ∃ d ds, itoa n = d :: ds ∧ d.isDigit = true := by
  cases h : itoa n with
  | nil => exact absurd h (itoa_ne_nil n)
  | cons d ds => exact ⟨d, ds, rfl, itoa_digit n d (by simp [h])⟩

theorem dspan_head (s e : Nat) : ∃ d ds, dspan s e = d :: ds ∧ d.isDigit = true := by
  obtain ⟨d, ds, h, hd⟩ := itoa_head s
  rw [dspan_eq]; split
  · exact ⟨d, ds, h, hd⟩
  · exact ⟨d, ds ++ ',' :: itoa (e - 1), by simp [h], hd⟩


theorem cmdStart_cons_digit (l : Line) (ls : List Line) (h : ∃ d ds, l = d :: ds ∧ d.isDigit = true) :
    CmdStart (l :: ls) := by
  obtain ⟨d, ds, rfl, hd⟩ := h
  exact Or.inr ⟨d, ds, ls, rfl, hd⟩

theorem readNormalLoop_drop (f : Nat) (X : List Line) (lpos rpos : Nat) (rest : List Line)
    (acc : List (Chunk Line)) (hX : X ≠ []) (hl : 1 ≤ lpos) (hr : 1 ≤ rpos) (hrest : CmdStart rest) :
    readNormalLoop (f + 1)
      ((dspan lpos (lpos + X.length) ++ ['d'] ++ itoa (MdiffFmt.normalDropRight lpos rpos))
        :: (writeLines (str MdiffFmt.nrmDel) X ++ rest)) acc
      = readNormalLoop f rest (acc ++ [⟨[⟨.drop, X, []⟩], lpos, lpos + X.length, rpos, rpos⟩]) := by
  have hk : 1 ≤ X.length := by cases X with | nil => exact absurd rfl hX | cons a b => simp
  have hline : dspan lpos (lpos + X.length) ++ ['d'] ++ itoa (MdiffFmt.normalDropRight lpos rpos) ≠ [] := by
    simp [dspan_ne_nil]
  have hc : cutCmd (dspan lpos (lpos + X.length) ++ ['d'] ++ itoa (MdiffFmt.normalDropRight lpos rpos))
      = some (dspan lpos (lpos + X.length), 'd', itoa (MdiffFmt.normalDropRight lpos rpos)) := by
    have := cutCmd_cmd (dspan lpos (lpos + X.length)) (itoa (MdiffFmt.normalDropRight lpos rpos)) 'd'
      (spanChars_dspan _ _) (spanChars_itoa _) (by simp)
    simpa using this
  rw [readNormalLoop, if_neg hline, hc]
  simp only [parseSpan_dspan, parseSpan_itoa, readNormalEdit_del, List.nil_append,
    readNormalEdit_stop _ _ _ _ hrest, nrmHi_range lpos X.length hl hk, nrmHi_one,
    MdiffFmt.nrmLhiInc, MdiffFmt.nrmRhiInc, MdiffFmt.nrmDelRloInc, MdiffFmt.normalDropRight]
  have e1 : rpos - 1 + 1 = rpos := by omega
  simp [e1]
  intro h; omega


theorem readNormalLoop_copy (f : Nat) (Y : List Line) (lpos rpos : Nat) (rest : List Line)
    (acc : List (Chunk Line)) (hY : Y ≠ []) (hl : 1 ≤ lpos) (hr : 1 ≤ rpos) (hrest : CmdStart rest) :
    readNormalLoop (f + 1)
      ((itoa (MdiffFmt.normalAddLeft lpos rpos) ++ ['a'] ++ dspan rpos (rpos + Y.length))
        :: (writeLines (str MdiffFmt.nrmIns) Y ++ rest)) acc
      = readNormalLoop f rest (acc ++ [⟨[⟨.copy, [], Y⟩], lpos, lpos, rpos, rpos + Y.length⟩]) := by
  have hk : 1 ≤ Y.length := by cases Y with | nil => exact absurd rfl hY | cons a b => simp
  have hline : itoa (MdiffFmt.normalAddLeft lpos rpos) ++ ['a'] ++ dspan rpos (rpos + Y.length) ≠ [] := by
    simp
  have hc : cutCmd (itoa (MdiffFmt.normalAddLeft lpos rpos) ++ ['a'] ++ dspan rpos (rpos + Y.length))
      = some (itoa (MdiffFmt.normalAddLeft lpos rpos), 'a', dspan rpos (rpos + Y.length)) := by
    have := cutCmd_cmd (itoa (MdiffFmt.normalAddLeft lpos rpos)) (dspan rpos (rpos + Y.length)) 'a'
      (spanChars_itoa _) (spanChars_dspan _ _) (by simp)
    simpa using this
  rw [readNormalLoop, if_neg hline, hc]
  simp only [parseSpan_dspan, parseSpan_itoa, readNormalEdit_ins Y rest [] [] false (Or.inl rfl),
    List.nil_append, readNormalEdit_stop _ _ _ _ hrest, nrmHi_range rpos Y.length hr hk, nrmHi_one,
    MdiffFmt.nrmLhiInc, MdiffFmt.nrmRhiInc, MdiffFmt.nrmAddLloInc, MdiffFmt.normalAddLeft]
  have e1 : lpos - 1 + 1 = lpos := by omega
  simp [e1]
  intro h; omega

theorem readNormalLoop_replace (f : Nat) (X Y : List Line) (lpos rpos : Nat) (rest : List Line)
    (acc : List (Chunk Line)) (hX : X ≠ []) (hY : Y ≠ []) (hl : 1 ≤ lpos) (hr : 1 ≤ rpos)
    (hrest : CmdStart rest) :
    readNormalLoop (f + 1)
      ((dspan lpos (lpos + X.length) ++ ['c'] ++ dspan rpos (rpos + Y.length))
        :: (writeLines (str MdiffFmt.nrmDel) X ++ [str "---"] ++ writeLines (str MdiffFmt.nrmIns) Y ++ rest)) acc
      = readNormalLoop f rest
          (acc ++ [⟨[⟨.replace, X, Y⟩], lpos, lpos + X.length, rpos, rpos + Y.length⟩]) := by
  have hkx : 1 ≤ X.length := by cases X with | nil => exact absurd rfl hX | cons a b => simp
  have hky : 1 ≤ Y.length := by cases Y with | nil => exact absurd rfl hY | cons a b => simp
  have hline : dspan lpos (lpos + X.length) ++ ['c'] ++ dspan rpos (rpos + Y.length) ≠ [] := by
    simp [dspan_ne_nil]
  have hc : cutCmd (dspan lpos (lpos + X.length) ++ ['c'] ++ dspan rpos (rpos + Y.length))
      = some (dspan lpos (lpos + X.length), 'c', dspan rpos (rpos + Y.length)) := by
    have := cutCmd_cmd (dspan lpos (lpos + X.length)) (dspan rpos (rpos + Y.length)) 'c'
      (spanChars_dspan _ _) (spanChars_dspan _ _) (by simp)
    simpa using this
  have hbody : readNormalEdit
      (writeLines (str MdiffFmt.nrmDel) X ++ [str "---"] ++ writeLines (str MdiffFmt.nrmIns) Y ++ rest) [] [] false
      = some (X, Y, rest) := by
    rw [List.append_assoc, List.append_assoc, readNormalEdit_del]
    simp only [List.nil_append, List.cons_append]
    rw [readNormalEdit_sep, readNormalEdit_ins Y rest X [] true (Or.inr rfl),
      readNormalEdit_stop _ _ _ _ hrest]
    simp
  rw [readNormalLoop, if_neg hline, hc]
  simp only [parseSpan_dspan, hbody, nrmHi_range rpos Y.length hr hky, nrmHi_range lpos X.length hl hkx,
    MdiffFmt.nrmLhiInc, MdiffFmt.nrmRhiInc]
  simp
  rw [if_neg (by omega), if_neg (by omega)]


/-- what `Read` returns for `Normal`'s rendering of a chunk: one chunk per change command (per
non-Emit edit), with that edit alone, at the line ranges the edit has inside the chunk -/
def normalChunksOf : List (Edit Line) → Nat → Nat → List (Chunk Line)
  | [], _, _ => []
  | e :: es, lpos, rpos =>
    match e.op with
    | .drop => ⟨[e], lpos, lpos + e.X.length, rpos, rpos⟩ :: normalChunksOf es (lpos + e.X.length) rpos
    | .emit => normalChunksOf es (lpos + e.X.length) (rpos + e.X.length)
    | .copy => ⟨[e], lpos, lpos, rpos, rpos + e.Y.length⟩ :: normalChunksOf es lpos (rpos + e.Y.length)
    | .replace =>
      ⟨[e], lpos, lpos + e.X.length, rpos, rpos + e.Y.length⟩
        :: normalChunksOf es (lpos + e.X.length) (rpos + e.Y.length)

def normalChunks (cs : List (Chunk Line)) : List (Chunk Line) :=
  cs.flatMap fun c => normalChunksOf c.edits c.lstart c.rstart

/-- the edits `New`/`AddContext`/`Unify` put into chunks: no empty change, unused field empty -/
def EditOK (e : Edit Line) : Prop :=
  match e.op with
  | .drop => e.X ≠ [] ∧ e.Y = []
  | .copy => e.Y ≠ [] ∧ e.X = []
  | .replace => e.X ≠ [] ∧ e.Y ≠ []
  | .emit => True

theorem normalEdits_cmdStart (es : List (Edit Line)) (lpos rpos : Nat) (rest : List Line)
    (h : CmdStart rest) : CmdStart (normalEdits es lpos rpos ++ rest) := by
  induction es generalizing lpos rpos with
  | nil => simpa [normalEdits] using h
  | cons e es ih =>
    rw [normalEdits]
    split
    · obtain ⟨d, ds, hd, hdd⟩ := dspan_head lpos (lpos + e.X.length)
      exact cmdStart_cons_digit _ _ ⟨d, ds ++ ['d'] ++ itoa (MdiffFmt.normalDropRight lpos rpos), by simp [hd], hdd⟩
    · exact ih _ _
    · obtain ⟨d, ds, hd, hdd⟩ := itoa_head (MdiffFmt.normalAddLeft lpos rpos)
      exact cmdStart_cons_digit _ _ ⟨d, ds ++ ['a'] ++ dspan rpos (rpos + e.Y.length), by simp [hd], hdd⟩
    · obtain ⟨d, ds, hd, hdd⟩ := dspan_head lpos (lpos + e.X.length)
      exact cmdStart_cons_digit _ _ ⟨d, ds ++ ['c'] ++ dspan rpos (rpos + e.Y.length), by simp [hd], hdd⟩

theorem readNormalLoop_edits (es : List (Edit Line)) (hok : ∀ e ∈ es, EditOK e) :
    ∀ (lpos rpos : Nat) (rest : List Line) (acc : List (Chunk Line)) (f : Nat),
      1 ≤ lpos → 1 ≤ rpos → CmdStart rest → (normalEdits es lpos rpos ++ rest).length + 1 ≤ f →
      ∃ f', rest.length + 1 ≤ f' ∧
        readNormalLoop f (normalEdits es lpos rpos ++ rest) acc
          = readNormalLoop f' rest (acc ++ normalChunksOf es lpos rpos) := by
  induction es with
  | nil => intro lpos rpos rest acc f _ _ _ hf; exact ⟨f, by simpa [normalEdits] using hf, by simp [normalEdits, normalChunksOf]⟩
  | cons e es ih =>
    intro lpos rpos rest acc f hl hr hrest hf
    have hok' : ∀ e ∈ es, EditOK e := fun e' he' => hok e' (by simp [he'])
    have he := hok e (by simp)
    obtain ⟨op, X, Y⟩ := e
    cases op with
    | drop =>
      simp only [EditOK] at he
      obtain ⟨hX, rfl⟩ := he
      simp only [normalEdits, normalChunksOf] at hf ⊢
      obtain ⟨f0, rfl⟩ : ∃ f0, f = f0 + 1 := ⟨f - 1, by omega⟩
      have e1 : (dspan lpos (lpos + X.length) ++ ['d'] ++ itoa (MdiffFmt.normalDropRight lpos rpos)) ::
            writeLines (str MdiffFmt.nrmDel) X ++ normalEdits es (lpos + X.length) rpos ++ rest
          = (dspan lpos (lpos + X.length) ++ ['d'] ++ itoa (MdiffFmt.normalDropRight lpos rpos)) ::
            (writeLines (str MdiffFmt.nrmDel) X ++ (normalEdits es (lpos + X.length) rpos ++ rest)) := by simp
      rw [e1, readNormalLoop_drop f0 X lpos rpos _ acc hX hl hr (normalEdits_cmdStart es _ _ rest hrest)]
      obtain ⟨f', hf', h⟩ := ih hok' (lpos + X.length) rpos rest
        (acc ++ [⟨[⟨.drop, X, []⟩], lpos, lpos + X.length, rpos, rpos⟩]) f0 (by omega) hr hrest
        (by rw [e1] at hf; simp only [List.cons_append, List.append_assoc, List.length_cons, List.length_append] at hf ⊢; omega)
      exact ⟨f', hf', by rw [h]; simp⟩
    | emit =>
      simp only [normalEdits, normalChunksOf] at hf ⊢
      exact ih hok' _ _ rest acc f (by omega) (by omega) hrest hf
    | copy =>
      simp only [EditOK] at he
      obtain ⟨hY, rfl⟩ := he
      simp only [normalEdits, normalChunksOf] at hf ⊢
      obtain ⟨f0, rfl⟩ : ∃ f0, f = f0 + 1 := ⟨f - 1, by omega⟩
      have e1 : (itoa (MdiffFmt.normalAddLeft lpos rpos) ++ ['a'] ++ dspan rpos (rpos + Y.length)) ::
            writeLines (str MdiffFmt.nrmIns) Y ++ normalEdits es lpos (rpos + Y.length) ++ rest
          = (itoa (MdiffFmt.normalAddLeft lpos rpos) ++ ['a'] ++ dspan rpos (rpos + Y.length)) ::
            (writeLines (str MdiffFmt.nrmIns) Y ++ (normalEdits es lpos (rpos + Y.length) ++ rest)) := by simp
      rw [e1, readNormalLoop_copy f0 Y lpos rpos _ acc hY hl hr (normalEdits_cmdStart es _ _ rest hrest)]
      obtain ⟨f', hf', h⟩ := ih hok' lpos (rpos + Y.length) rest
        (acc ++ [⟨[⟨.copy, [], Y⟩], lpos, lpos, rpos, rpos + Y.length⟩]) f0 hl (by omega) hrest
        (by rw [e1] at hf; simp only [List.cons_append, List.append_assoc, List.length_cons, List.length_append] at hf ⊢; omega)
      exact ⟨f', hf', by rw [h]; simp⟩
    | replace =>
      simp only [EditOK] at he
      obtain ⟨hX, hY⟩ := he
      simp only [normalEdits, normalChunksOf] at hf ⊢
      obtain ⟨f0, rfl⟩ : ∃ f0, f = f0 + 1 := ⟨f - 1, by omega⟩
      have e1 : (dspan lpos (lpos + X.length) ++ ['c'] ++ dspan rpos (rpos + Y.length)) ::
            writeLines (str MdiffFmt.nrmDel) X ++ [str "---"] ++ writeLines (str MdiffFmt.nrmIns) Y ++
              normalEdits es (lpos + X.length) (rpos + Y.length) ++ rest
          = (dspan lpos (lpos + X.length) ++ ['c'] ++ dspan rpos (rpos + Y.length)) ::
            (writeLines (str MdiffFmt.nrmDel) X ++ [str "---"] ++ writeLines (str MdiffFmt.nrmIns) Y ++
              (normalEdits es (lpos + X.length) (rpos + Y.length) ++ rest)) := by simp
      rw [e1, readNormalLoop_replace f0 X Y lpos rpos _ acc hX hY hl hr
        (normalEdits_cmdStart es _ _ rest hrest)]
      obtain ⟨f', hf', h⟩ := ih hok' (lpos + X.length) (rpos + Y.length) rest
        (acc ++ [⟨[⟨.replace, X, Y⟩], lpos, lpos + X.length, rpos, rpos + Y.length⟩]) f0 (by omega) (by omega) hrest
        (by rw [e1] at hf; simp only [List.cons_append, List.append_assoc, List.length_cons, List.length_append] at hf ⊢; omega)
      exact ⟨f', hf', by rw [h]; simp⟩


theorem normal_cons (c : Chunk Line) (cs : List (Chunk Line)) :
    normal (c :: cs) = normalEdits c.edits c.lstart c.rstart ++ normal cs := by
  simp [normal]

theorem normal_cmdStart (cs : List (Chunk Line)) : CmdStart (normal cs) := by
  induction cs with
  | nil => exact Or.inl rfl
  | cons c cs ih => rw [normal_cons]; exact normalEdits_cmdStart _ _ _ _ ih

theorem readNormalLoop_chunks (cs : List (Chunk Line))
    (hok : ∀ c ∈ cs, (∀ e ∈ c.edits, EditOK e) ∧ 1 ≤ c.lstart ∧ 1 ≤ c.rstart) :
    ∀ (acc : List (Chunk Line)) (f : Nat), (normal cs).length + 1 ≤ f →
      readNormalLoop f (normal cs) acc = some (acc ++ normalChunks cs) := by
  induction cs with
  | nil =>
    intro acc f hf
    obtain ⟨f0, rfl⟩ : ∃ f0, f = f0 + 1 := ⟨f - 1, by omega⟩
    simp [normal, normalChunks, readNormalLoop]
  | cons c cs ih =>
    intro acc f hf
    obtain ⟨h1, h2, h3⟩ := hok c (by simp)
    rw [normal_cons] at hf ⊢
    obtain ⟨f', hf', h⟩ := readNormalLoop_edits c.edits h1 c.lstart c.rstart (normal cs) acc f h2 h3
      (normal_cmdStart cs) hf
    rw [h, ih (fun c' hc' => hok c' (by simp [hc'])) _ f' hf']
    simp [normalChunks]

theorem normal_normalChunksOf (es : List (Edit Line)) (lpos rpos : Nat) :
    normal (normalChunksOf es lpos rpos) = normalEdits es lpos rpos := by
  induction es generalizing lpos rpos with
  | nil => simp [normalChunksOf, normalEdits, normal]
  | cons e es ih =>
    obtain ⟨op, X, Y⟩ := e
    cases op <;> simp [normalChunksOf, normalEdits, normal_cons, ih]


/-! ## no line written by `Normal` contains a newline -/

theorem noNl_itoa (n : Nat) : NoNl (itoa n) := not_mem_itoa n '\n' (by decide)

theorem noNl_dspan (s e : Nat) : NoNl (dspan s e) :=
  spanChars_not_mem (spanChars_dspan s e) '\n' (by decide) (by decide)

theorem noNl_append {a b : Line} (ha : NoNl a) (hb : NoNl b) : NoNl (a ++ b) := by
  intro h; rcases List.mem_append.mp h with h | h
  · exact ha h
  · exact hb h

theorem noNl_writeLines (pfx : Line) (ls : List Line) (hp : NoNl pfx) (h : ∀ l ∈ ls, NoNl l) :
    ∀ l ∈ writeLines pfx ls, NoNl l := by
  intro l hl
  simp only [writeLines, List.mem_map] at hl
  obtain ⟨x, hx, rfl⟩ := hl
  exact noNl_append hp (h x hx)

/-- every content line of the edits is free of `'\n'` -/
def EditsNoNl (es : List (Edit Line)) : Prop := ∀ e ∈ es, (∀ l ∈ e.X, NoNl l) ∧ (∀ l ∈ e.Y, NoNl l)

theorem noNl_normalEdits (es : List (Edit Line)) (h : EditsNoNl es) (lpos rpos : Nat) :
    ∀ l ∈ normalEdits es lpos rpos, NoNl l := by
  induction es generalizing lpos rpos with
  | nil => simp [normalEdits]
  | cons e es ih =>
    have he := h e (by simp)
    have ih' := fun a b => ih (fun e' he' => h e' (by simp [he'])) a b
    have hd : NoNl ['d'] := by unfold NoNl; decide
    have ha : NoNl ['a'] := by unfold NoNl; decide
    have hc : NoNl ['c'] := by unfold NoNl; decide
    have hdel : NoNl (str MdiffFmt.nrmDel) := by unfold NoNl; decide
    have hins : NoNl (str MdiffFmt.nrmIns) := by unfold NoNl; decide
    have hsep : NoNl (str "---") := by unfold NoNl; decide
    intro l hl
    rw [normalEdits] at hl
    split at hl
    · simp only [List.mem_cons, List.mem_append] at hl
      rcases hl with (rfl | hl) | hl
      · exact noNl_append (noNl_append (noNl_dspan _ _) hd) (noNl_itoa _)
      · exact noNl_writeLines _ _ hdel he.1 l hl
      · exact ih' _ _ l hl
    · exact ih' _ _ l hl
    · simp only [List.mem_cons, List.mem_append] at hl
      rcases hl with (rfl | hl) | hl
      · exact noNl_append (noNl_append (noNl_itoa _) ha) (noNl_dspan _ _)
      · exact noNl_writeLines _ _ hins he.2 l hl
      · exact ih' _ _ l hl
    · simp only [List.mem_cons, List.mem_append, List.mem_nil_iff, or_false] at hl
      rcases hl with (((rfl | hl) | rfl) | hl) | hl
      · exact noNl_append (noNl_append (noNl_dspan _ _) hc) (noNl_dspan _ _)
      · exact noNl_writeLines _ _ hdel he.1 l hl
      · exact hsep
      · exact noNl_writeLines _ _ hins he.2 l hl
      · exact ih' _ _ l hl

theorem noNl_normal (cs : List (Chunk Line)) (h : ∀ c ∈ cs, EditsNoNl c.edits) :
    ∀ l ∈ normal cs, NoNl l := by
  intro l hl
  simp only [normal, List.mem_flatMap] at hl
  obtain ⟨c, hc, hl⟩ := hl
  exact noNl_normalEdits c.edits (h c hc) _ _ l hl

/-! ## unified ranges -/

/-- **token layer, ranges of the unified format**: `parseSpan(side, uspan(side, s, e))`; a range of
exactly one line is written without count and comes back with the count `spanOmitted = 0` -/
theorem parseSpan_uspan (side : Line) (s e : Nat) :
    parseSpan side (uspan side s e) = some (s, if e - s = 1 then 0 else e - s) := by
  rw [uspan_eq]
  by_cases h : e - s = 1
  · simp only [if_pos h, parseSpan, cutPrefix_append, cut_none ',' _ (not_mem_itoa s ',' (by decide)),
      atoi_itoa, MdiffFmt.spanOmitted, Option.map]
  · have : side ++ itoa s ++ ',' :: itoa (e - s) = side ++ (itoa s ++ ',' :: itoa (e - s)) := by simp
    simp only [if_neg h, this, parseSpan, cutPrefix_append,
      cut_append ',' _ _ (not_mem_itoa s ',' (by decide)), atoi_itoa]

end MdsVerif.Proofs.MdiffFmt
