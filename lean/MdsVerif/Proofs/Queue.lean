import MdsVerif.Model.Queue
import MdsVerif.Spec.Deque
import MdsVerif.GenFact
/-!
# `queue.Queue` refines the list deque (helper lemmas for C07)

Abstraction: `abs q = [q.at 0, …, q.at (n-1)]`, invariant `WF`.
-/
namespace MdsVerif.Proofs.Queue
open MdsVerif.Model.Queue MdsVerif.Spec MdsVerif
variable {α : Type} [Inhabited α]

/-! ## the regenerated facts (`Gen.Queue`) in the form the proofs use

Proved extensionally (`gen_fact`, `GenFact.lean`): each lemma says what the fact must be as a function of its
arguments (`n`, `cap`, `head` are the natural numbers of the model); `q.n == 0` and `q.n < 1`, `a || b` and
`b || a`, `head + n` and `n + head` all satisfy it, a changed value does not. -/
section facts
open Gen.Queue
theorem addHasRoom_iff (n c : Nat) : addHasRoom n c = true ↔ n < c := by gen_fact addHasRoom
theorem pushHasRoom_iff (n c : Nat) : pushHasRoom n c = true ↔ n < c := by gen_fact pushHasRoom
theorem addWraps_iff (p c : Int) : addWraps p c = true ↔ p ≥ c := by gen_fact addWraps
theorem popLastWraps_iff (p c : Int) : popLastWraps p c = true ↔ p ≥ c := by gen_fact popLastWraps
theorem pushWraps_iff (p : Int) : pushWraps p = true ↔ p < 0 := by gen_fact pushWraps
theorem addRotates_iff (h : Nat) : addRotates h = true ↔ h > 0 := by gen_fact addRotates
theorem pushRotates_iff (h : Nat) : pushRotates h = true ↔ h > 0 := by gen_fact pushRotates
theorem popEmpty_iff (n : Nat) : popEmpty n = true ↔ n = 0 := by gen_fact popEmpty
theorem popResets_iff (n : Nat) : popResets n = true ↔ n = 0 := by gen_fact popResets
theorem popLastEmpty_iff (n : Nat) : popLastEmpty n = true ↔ n = 0 := by gen_fact popLastEmpty
theorem popLastResets_iff (n : Nat) : popLastResets n = true ↔ n = 0 := by gen_fact popLastResets
theorem frontEmpty_iff (n : Nat) : frontEmpty n = true ↔ n = 0 := by gen_fact frontEmpty
theorem sliceEmpty_iff (n : Nat) : sliceEmpty n = true ↔ n = 0 := by gen_fact sliceEmpty
theorem isEmptyTest_eq (n : Nat) : isEmptyTest n = (n == 0) := by gen_fact isEmptyTest
theorem peekNeg_iff (k : Int) : peekNeg k = true ↔ k < 0 := by gen_fact peekNeg
theorem peekOut_iff (k n : Int) : peekOut k n = true ↔ (k < 0 ∨ k ≥ n) := by gen_fact peekOut
theorem addPos_eq (h n : Int) : addPos h n = h + n := by gen_fact addPos
theorem addWrapped_eq (p c : Int) : addWrapped p c = p - c := by gen_fact addWrapped
theorem addRotateBy_eq (h : Int) : addRotateBy h = -h := by gen_fact addRotateBy
theorem pushPos_eq (h : Int) : pushPos h = h - 1 := by gen_fact pushPos
theorem pushWrapped_eq (c : Int) : pushWrapped c = c - 1 := by gen_fact pushWrapped
theorem pushRotateBy_eq (h : Int) : pushRotateBy h = -h := by gen_fact pushRotateBy
theorem pushGrowHead_eq (c : Int) : pushGrowHead c = c - 1 := by gen_fact pushGrowHead
theorem popResetHead_eq : popResetHead = 0 := by gen_fact popResetHead
theorem popHead_eq (h c : Nat) : popHead h c = (h + 1) % c := by gen_fact popHead
theorem popLastPos_eq (h n : Int) : popLastPos h n = h + n - 1 := by gen_fact popLastPos
theorem popLastWrapped_eq (p c : Int) : popLastWrapped p c = p - c := by gen_fact popLastWrapped
theorem popLastResetHead_eq : popLastResetHead = 0 := by gen_fact popLastResetHead
theorem peekNorm_eq (k n : Int) : peekNorm k n = k + n := by gen_fact peekNorm
theorem peekIdx_eq (h k c : Nat) : peekIdx h k c = (h + k) % c := by gen_fact peekIdx
theorem eachStep_eq (cur c : Nat) : eachStep cur c = (cur + 1) % c := by gen_fact eachStep
theorem sliceStep_eq (cur c : Nat) : sliceStep cur c = (cur + 1) % c := by gen_fact sliceStep
end facts

theorem rotateBy_neg (l : List α) (h : Nat) (h0 : 0 < h) : rotateBy l (-(h : Int)) = rotl l h := by
  unfold rotateBy; congr 1; split <;> omega

theorem wrapI (p c : Nat) : (if (p : Int) ≥ c then (p : Int) - c else p).toNat = if p ≥ c then p - c else p := by
  by_cases h : p ≥ c
  · have h' : (p : Int) ≥ c := by omega
    rw [if_pos h, if_pos h']; omega
  · have h' : ¬ (p : Int) ≥ c := by omega
    rw [if_neg h, if_neg h']; omega

theorem add_def (q : Q α) (v : α) (extra : Nat) :
    q.add v extra =
      if q.n < q.cap then
        { q with vs := q.vs.set (if q.head + q.n ≥ q.cap then q.head + q.n - q.cap else q.head + q.n) v, n := q.n + 1 }
      else { vs := grown (if q.head > 0 then rotl q.vs q.head else q.vs) v extra, head := 0, n := q.n + 1 } := by
  unfold Q.add
  simp only [addHasRoom_iff, addPos_eq, addWraps_iff, addWrapped_eq, addRotates_iff, addRotateBy_eq]
  have e := wrapI (q.head + q.n) q.cap
  rw [Int.natCast_add] at e
  rw [e]
  by_cases h0 : q.head > 0
  · simp only [h0, if_true, rotateBy_neg q.vs q.head h0]
  · simp only [h0, if_false]

theorem push_def (q : Q α) (v : α) (extra : Nat) :
    q.push v extra =
      if q.n < q.cap then
        let pos := if q.head = 0 then q.cap - 1 else q.head - 1
        { vs := q.vs.set pos v, head := pos, n := q.n + 1 }
      else
        let vs := if q.head > 0 then rotl q.vs q.head else q.vs
        let w := grown vs v extra
        { vs := w.set (w.length - 1) v, head := w.length - 1, n := q.n + 1 } := by
  unfold Q.push
  simp only [pushHasRoom_iff, pushPos_eq, pushWraps_iff, pushWrapped_eq, pushRotates_iff, pushRotateBy_eq,
    pushGrowHead_eq]
  have e2 : (if (q.head : Int) - 1 < 0 then (q.cap : Int) - 1 else (q.head : Int) - 1).toNat
      = if q.head = 0 then q.cap - 1 else q.head - 1 := by
    by_cases h : q.head = 0
    · have h' : (q.head : Int) - 1 < 0 := by omega
      rw [if_pos h, if_pos h']; omega
    · have h' : ¬ ((q.head : Int) - 1 < 0) := by omega
      rw [if_neg h, if_neg h']; omega
  have e3 : ∀ n : Nat, ((n : Int) - 1).toNat = n - 1 := by intro n; omega
  rw [e2]
  simp only [e3]
  by_cases h0 : q.head > 0
  · simp only [h0, if_true, rotateBy_neg q.vs q.head h0]
  · simp only [h0, if_false]

theorem pop_def (q : Q α) :
    q.pop = if q.n = 0 then (q, none) else
      if q.n - 1 = 0 then ({ q with head := 0, n := q.n - 1 }, some (q.vs.getD q.head default))
      else ({ q with head := (q.head + 1) % q.cap, n := q.n - 1 }, some (q.vs.getD q.head default)) := by
  unfold Q.pop
  simp only [popEmpty_iff, popResets_iff, popResetHead_eq, popHead_eq]

theorem popLast_def (q : Q α) :
    q.popLast = if q.n = 0 then (q, none) else
      ({ q with n := q.n - 1, head := if q.n - 1 = 0 then 0 else q.head },
        some (q.vs.getD (if q.head + q.n - 1 ≥ q.cap then q.head + q.n - 1 - q.cap else q.head + q.n - 1) default)) := by
  unfold Q.popLast
  simp only [popLastEmpty_iff, popLastResets_iff, popLastResetHead_eq, popLastPos_eq, popLastWraps_iff,
    popLastWrapped_eq]
  by_cases h0 : q.n = 0
  · simp only [h0, if_true]
  · simp only [h0, if_false]
    have e := wrapI (q.head + q.n - 1) q.cap
    have e' : ((q.head + q.n - 1 : Nat) : Int) = (q.head : Int) + q.n - 1 := by omega
    rw [e'] at e
    rw [e]

theorem front_def (q : Q α) : q.front = if q.n = 0 then default else q.vs.getD q.head default := by
  unfold Q.front; simp only [frontEmpty_iff]

theorem peek_def (q : Q α) (k : Int) :
    q.peek k = (let k := if k < 0 then k + q.n else k
      if k < 0 ∨ k ≥ q.n then none else some (q.vs.getD ((q.head + k.toNat) % q.cap) default)) := by
  unfold Q.peek
  simp only [peekNeg_iff, peekNorm_eq, peekOut_iff, peekIdx_eq]

theorem isEmpty_def (q : Q α) : q.isEmpty = (q.n == 0) := by
  unfold Q.isEmpty; exact isEmptyTest_eq _

/-! ## abstraction -/

def abs (q : Q α) : List α := (List.range q.n).map q.at

def WF (q : Q α) : Prop := q.n ≤ q.cap ∧ (q.head < q.cap ∨ (q.cap = 0 ∧ q.head = 0))

@[simp] theorem abs_length (q : Q α) : (abs q).length = q.n := by simp [abs]

theorem abs_getElem (q : Q α) (i : Nat) (hi : i < (abs q).length) : (abs q)[i] = q.at i := by
  simp [abs]

theorem abs_getElem? (q : Q α) (i : Nat) (hi : i < q.n) : (abs q)[i]? = some (q.at i) := by
  rw [List.getElem?_eq_getElem (by simpa using hi)]; simp [abs]

/-- `(h + i) % c` for `h < c`, `i ≤ c` is the conditional subtraction the Go code writes -/
theorem wrap (h i c : Nat) (hh : h < c) (hi : i ≤ c) :
    (h + i) % c = if h + i ≥ c then h + i - c else h + i := by
  split
  · rename_i hge
    rw [Nat.mod_eq_sub_mod hge, Nat.mod_eq_of_lt (by omega)]
  · rw [Nat.mod_eq_of_lt (by omega)]

theorem mod_inj (h i j c : Nat) (hh : h < c) (hi : i < c) (hj : j < c)
    (he : (h + i) % c = (h + j) % c) : i = j := by
  rw [wrap h i c hh (by omega), wrap h j c hh (by omega)] at he
  split at he <;> split at he <;> omega

theorem ext_abs (q : Q α) (l : List α) (hl : l.length = q.n)
    (h : ∀ i (hi : i < q.n), q.at i = l[i]'(by omega)) : abs q = l := by
  apply List.ext_getElem
  · simp [hl]
  · intro i h1 h2
    rw [abs_getElem]; exact h i (by simpa using h1)

/-! ## constructors -/

theorem empty_abs : abs (Q.empty : Q α) = [] ∧ WF (Q.empty : Q α) := by
  simp [abs, WF, Q.empty, Q.cap]

theorem newSize_abs (n : Nat) : abs (Q.newSize n : Q α) = [] ∧ WF (Q.newSize n : Q α) := by
  simp only [abs, WF, Q.newSize, Q.cap, List.length_replicate, List.range_zero, List.map_nil, true_and,
    Nat.zero_le]
  rcases Nat.eq_zero_or_pos n with h | h <;> simp [h]

/-! ## Add -/

theorem add_abs_nogrow (q : Q α) (v : α) (extra : Nat) (hw : WF q) (hlt : q.n < q.cap) :
    abs (q.add v extra) = abs q ++ [v] ∧ WF (q.add v extra) := by
  obtain ⟨hn, hh⟩ := hw
  have hh' : q.head < q.cap := by omega
  have hpos : (if q.head + q.n ≥ q.cap then q.head + q.n - q.cap else q.head + q.n) = (q.head + q.n) % q.cap :=
    (wrap _ _ _ hh' (by omega)).symm
  have hposlt : (q.head + q.n) % q.cap < q.cap := Nat.mod_lt _ (by omega)
  have e : q.add v extra = { q with vs := q.vs.set ((q.head + q.n) % q.cap) v, n := q.n + 1 } := by
    rw [add_def]; simp [hlt, hpos]
  rw [e]
  constructor
  · apply List.ext_getElem
    · simp [abs]
    · intro i h1 h2
      simp only [abs, List.getElem_map, List.getElem_range, List.length_map, List.length_range] at h1 ⊢
      by_cases hi : i < q.n
      · rw [List.getElem_append_left (by simp [hi])]
        simp only [List.getElem_map, List.getElem_range, Q.at, Q.cap, List.length_set]
        rw [List.getD_eq_getElem?_getD, List.getD_eq_getElem?_getD, List.getElem?_set_ne]
        intro hc
        have := mod_inj q.head q.n i q.cap hh' (by omega) (by omega) hc
        omega
      · have hi' : i = q.n := by omega
        subst hi'
        rw [List.getElem_append_right (by simp)]
        have hposlt' : (q.head + q.n) % q.vs.length < q.vs.length := hposlt
        simp [Q.at, Q.cap, List.getD_eq_getElem?_getD, List.getElem?_set_self hposlt']
  · simp [WF, Q.cap]; exact ⟨by simp [Q.cap] at hlt; omega, Or.inl (by simpa [Q.cap] using hh')⟩

theorem rotl_get (l : List α) (k i : Nat) (hk : k < l.length) (hi : i < l.length) :
    (rotl l k)[i]? = l[(k + i) % l.length]? := by
  unfold rotl
  rw [wrap k i l.length hk (by omega)]
  by_cases h : i < l.length - k
  · rw [List.getElem?_append_left (by simp; omega)]
    simp [List.getElem?_drop]
    have : ¬ (k + i ≥ l.length) := by omega
    simp [this]
  · rw [List.getElem?_append_right (by simp; omega)]
    simp only [List.length_drop, List.getElem?_take]
    have hge : k + i ≥ l.length := by omega
    simp only [hge, if_true]
    have : i - (l.length - k) < k := by omega
    simp [this]
    congr 1; omega

/-- the buffer after the optional rotation lists the live elements from index 0 -/
theorem rotated_get (q : Q α) (hw : WF q) (i : Nat) (hi : i < q.cap) :
    (if q.head > 0 then rotl q.vs q.head else q.vs)[i]? = q.vs[(q.head + i) % q.cap]? := by
  obtain ⟨_, hh⟩ := hw
  by_cases h0 : q.head > 0
  · have hh' : q.head < q.vs.length := by
      simp [Q.cap] at hi; rcases hh with h | ⟨h, _⟩ <;> simp [Q.cap] at * <;> omega
    simp only [h0, if_true]; exact rotl_get q.vs q.head i hh' hi
  · have : q.head = 0 := by omega
    simp [h0, this, Q.cap, Nat.mod_eq_of_lt (show i < q.vs.length from hi)]

theorem rotated_length (q : Q α) :
    (if q.head > 0 then rotl q.vs q.head else q.vs).length = q.cap := by
  split <;> simp [rotl, Q.cap]; omega

theorem add_abs_grow (q : Q α) (v : α) (extra : Nat) (hw : WF q) (hfull : ¬ q.n < q.cap) :
    abs (q.add v extra) = abs q ++ [v] ∧ WF (q.add v extra) := by
  have hn := hw.1
  have hnc : q.n = q.cap := by omega
  have hnc' : q.n = q.vs.length := hnc
  have hrot := rotated_get q hw
  have hlen := rotated_length q
  have e : q.add v extra =
      { vs := grown (if q.head > 0 then rotl q.vs q.head else q.vs) v extra, head := 0, n := q.n + 1 } := by
    rw [add_def]; simp [hfull]
  rw [e]
  constructor
  · apply List.ext_getElem
    · simp [abs]
    · intro i h1 h2
      simp only [abs, List.getElem_map, List.getElem_range, List.length_map, List.length_range] at h1 ⊢
      have hcap' : (grown (if q.head > 0 then rotl q.vs q.head else q.vs) v extra).length = q.cap + 1 + extra := by
        simp [grown, hlen]; omega
      simp only [Q.at, Q.cap, hcap', Nat.zero_add]
      rw [Nat.mod_eq_of_lt (by omega), List.getD_eq_getElem?_getD]
      by_cases hi : i < q.n
      · rw [List.getElem_append_left (by simp [hi])]
        simp only [List.getElem_map, List.getElem_range, Q.at, grown]
        rw [List.getElem?_append_left (by rw [hlen]; omega), hrot i (by omega), List.getD_eq_getElem?_getD]
      · have hi' : i = q.n := by omega
        subst hi'
        rw [List.getElem_append_right (by simp)]
        simp only [grown]
        rw [List.getElem?_append_right (by rw [hlen]; omega)]
        simp [hlen, hnc]
  · simp [WF, Q.cap, grown, hlen]
    have : (if q.head > 0 then rotl q.vs q.head else q.vs).length = q.vs.length := hlen
    omega

/-- **Add refines append**, in both regimes and for any growth policy -/
theorem add_abs (q : Q α) (v : α) (extra : Nat) (hw : WF q) :
    abs (q.add v extra) = abs q ++ [v] ∧ WF (q.add v extra) := by
  by_cases h : q.n < q.cap
  · exact add_abs_nogrow q v extra hw h
  · exact add_abs_grow q v extra hw h

end MdsVerif.Proofs.Queue

namespace MdsVerif.Proofs.Queue
open MdsVerif.Model.Queue MdsVerif.Spec
variable {α : Type} [Inhabited α]

/-! ## Push -/

theorem back_step (h i c : Nat) (hh : h < c) :
    ((if h = 0 then c - 1 else h - 1) + (i + 1)) % c = (h + i) % c := by
  split
  · subst h
    have : c - 1 + (i + 1) = c + i := by omega
    rw [this, Nat.add_mod_left, Nat.zero_add]
  · congr 1; omega

theorem push_abs_nogrow (q : Q α) (v : α) (extra : Nat) (hw : WF q) (hlt : q.n < q.cap) :
    abs (q.push v extra) = v :: abs q ∧ WF (q.push v extra) := by
  obtain ⟨hn, hh⟩ := hw
  have hh' : q.head < q.cap := by omega
  have hc : 0 < q.vs.length := by simp [Q.cap] at hh'; omega
  let pos := if q.head = 0 then q.cap - 1 else q.head - 1
  have hpos : pos < q.vs.length := by
    show (if q.head = 0 then q.cap - 1 else q.head - 1) < q.vs.length
    simp only [Q.cap] at *; split <;> omega
  have e : q.push v extra = { vs := q.vs.set pos v, head := pos, n := q.n + 1 } := by
    rw [push_def]; simp [hlt, pos]
  rw [e]
  constructor
  · refine ext_abs _ _ (by simp) ?_
    · intro i hi
      simp only [Q.at, Q.cap, List.length_set]
      cases i with
      | zero =>
        simp [Nat.mod_eq_of_lt hpos, List.getD_eq_getElem?_getD, List.getElem?_set_self hpos]
      | succ j =>
        have hj : j < q.n := by simpa using hi
        have hb : (pos + (j + 1)) % q.vs.length = (q.head + j) % q.vs.length :=
          back_step q.head j q.cap hh'
        rw [hb, List.getD_eq_getElem?_getD, List.getElem?_set_ne]
        · simp [abs, Q.at, Q.cap, List.getD_eq_getElem?_getD]
        · intro hc'
          have h0 : pos % q.vs.length = pos := Nat.mod_eq_of_lt hpos
          have : (pos + 0) % q.vs.length = (pos + (j + 1)) % q.vs.length := by
            rw [Nat.add_zero, h0, hb]; exact hc'
          have := mod_inj pos 0 (j + 1) q.vs.length hpos hc (by simp [Q.cap] at hlt; omega) this
          omega
  · simp only [WF, Q.cap, List.length_set]
    simp only [Q.cap] at hlt
    exact ⟨by omega, Or.inl hpos⟩

theorem push_abs_grow (q : Q α) (v : α) (extra : Nat) (hw : WF q) (hfull : ¬ q.n < q.cap) :
    abs (q.push v extra) = v :: abs q ∧ WF (q.push v extra) := by
  have hn := hw.1
  have hnc : q.n = q.cap := by omega
  have hnc' : q.n = q.vs.length := hnc
  have hrot := rotated_get q hw
  have hlen := rotated_length q
  let w := grown (if q.head > 0 then rotl q.vs q.head else q.vs) v extra
  have hwlen : w.length = q.cap + 1 + extra := by
    show (grown _ v extra).length = _
    simp [grown, hlen]; omega
  have e : q.push v extra = { vs := w.set (w.length - 1) v, head := w.length - 1, n := q.n + 1 } := by
    rw [push_def]; simp [hfull, w]
  rw [e]
  have hlast : w.length - 1 < w.length := by omega
  constructor
  · refine ext_abs _ _ (by simp) ?_
    · intro i hi
      simp only [Q.at, Q.cap, List.length_set]
      cases i with
      | zero =>
        simp [Nat.mod_eq_of_lt hlast, List.getD_eq_getElem?_getD, List.getElem?_set_self hlast]
      | succ j =>
        have hj : j < q.n := by simpa using hi
        have hb : (w.length - 1 + (j + 1)) % w.length = j := by
          have : w.length - 1 + (j + 1) = w.length + j := by omega
          rw [this, Nat.add_mod_left, Nat.mod_eq_of_lt (by omega)]
        rw [hb, List.getD_eq_getElem?_getD, List.getElem?_set_ne (by omega)]
        show (grown _ v extra)[j]?.getD default = _
        simp only [grown]
        rw [List.getElem?_append_left (by rw [hlen]; omega), hrot j (by omega)]
        simp [abs, Q.at, List.getD_eq_getElem?_getD]
  · simp only [WF, Q.cap, List.length_set]
    exact ⟨by omega, Or.inl hlast⟩

/-- **Push refines cons** -/
theorem push_abs (q : Q α) (v : α) (extra : Nat) (hw : WF q) :
    abs (q.push v extra) = v :: abs q ∧ WF (q.push v extra) := by
  by_cases h : q.n < q.cap
  · exact push_abs_nogrow q v extra hw h
  · exact push_abs_grow q v extra hw h

/-! ## Pop / PopLast -/

theorem abs_cons (q : Q α) (hn : 0 < q.n) :
    abs q = q.at 0 :: (List.range (q.n - 1)).map (fun i => q.at (i + 1)) := by
  unfold abs
  obtain ⟨m, hm⟩ : ∃ m, q.n = m + 1 := ⟨q.n - 1, by omega⟩
  rw [hm, List.range_succ_eq_map]
  simp [Function.comp_def]

theorem abs_snoc (q : Q α) (hn : 0 < q.n) :
    abs q = (List.range (q.n - 1)).map q.at ++ [q.at (q.n - 1)] := by
  unfold abs
  obtain ⟨m, hm⟩ : ∃ m, q.n = m + 1 := ⟨q.n - 1, by omega⟩
  rw [hm, List.range_succ]
  simp

theorem pop_abs (q : Q α) (hw : WF q) :
    (q.pop).2 = (abs q).head? ∧ abs (q.pop).1 = (abs q).tail ∧ WF (q.pop).1 := by
  obtain ⟨hn, hh⟩ := hw
  by_cases h0 : q.n = 0
  · have : abs q = [] := by simp [abs, h0]
    simp [pop_def, h0, this, WF, hh]
  · have hpos : 0 < q.n := by omega
    have hh' : q.head < q.cap := by omega
    have hat0 : q.at 0 = q.vs.getD q.head default := by
      simp [Q.at, Nat.mod_eq_of_lt hh']
    rw [abs_cons q hpos]
    by_cases h1 : q.n - 1 = 0
    · simp [pop_def, h0, h1, hat0, abs, WF]
      omega
    · simp only [pop_def, h0, h1, if_false, List.head?_cons, hat0, List.tail_cons, true_and]
      constructor
      · simp only [abs]
        apply List.map_congr_left
        intro i _
        simp only [Q.at, Q.cap]
        congr 1
        rw [Nat.mod_add_mod]; congr 1; omega
      · simp only [WF, Q.cap] at *
        exact ⟨by omega, Or.inl (Nat.mod_lt _ (by omega))⟩

theorem popLast_abs (q : Q α) (hw : WF q) :
    (q.popLast).2 = (abs q).getLast? ∧ abs (q.popLast).1 = (abs q).dropLast ∧ WF (q.popLast).1 := by
  obtain ⟨hn, hh⟩ := hw
  by_cases h0 : q.n = 0
  · have : abs q = [] := by simp [abs, h0]
    simp [popLast_def, h0, this, WF, hh]
  · have hpos : 0 < q.n := by omega
    have hh' : q.head < q.cap := by omega
    have hlast : q.at (q.n - 1) =
        q.vs.getD (if q.head + q.n - 1 ≥ q.cap then q.head + q.n - 1 - q.cap else q.head + q.n - 1) default := by
      simp only [Q.at]
      rw [wrap q.head (q.n - 1) q.cap hh' (by omega)]
      have : q.head + (q.n - 1) = q.head + q.n - 1 := by omega
      rw [this]
    rw [abs_snoc q hpos]
    simp only [popLast_def, h0, if_false, List.getLast?_append, List.getLast?_singleton, Option.some_or,
      hlast, List.dropLast_concat, true_and]
    constructor
    · by_cases h1 : q.n - 1 = 0
      · simp [abs, h1]
      · simp only [abs, h1, if_false]
        apply List.map_congr_left
        intro i _
        simp [Q.at, Q.cap]
    · simp only [WF, Q.cap] at *
      refine ⟨by omega, ?_⟩
      split
      · omega
      · exact Or.inl hh'

/-! ## read-only observations -/

theorem front_abs (q : Q α) (hw : WF q) : q.front = Deque.front (abs q) := by
  obtain ⟨hn, hh⟩ := hw
  by_cases h0 : q.n = 0
  · simp [front_def, h0, Deque.front, abs]
  · have hh' : q.head < q.cap := by omega
    rw [abs_cons q (by omega)]
    simp [front_def, h0, Deque.front, Q.at, Nat.mod_eq_of_lt hh']

theorem peek_abs (q : Q α) (k : Int) : q.peek k = Deque.peek (abs q) k := by
  simp only [peek_def, Deque.peek, abs_length]
  by_cases hk : 0 ≤ k
  · have hk' : ¬ k < 0 := by omega
    simp only [hk', if_false, hk, if_true, false_or]
    by_cases hlt : k.toNat < q.n
    · have : ¬ (k ≥ (q.n : Int)) := by omega
      simp only [this, if_false]
      rw [abs_getElem? q _ hlt]; rfl
    · have : (k ≥ (q.n : Int)) := by omega
      simp only [this, if_true]
      rw [List.getElem?_eq_none (by simp; omega)]
  · have hk' : k < 0 := by omega
    simp only [hk', if_true, hk, if_false]
    by_cases hneg : k + (q.n : Int) < 0
    · simp [hneg]
    · have : ¬ (k + (q.n : Int) ≥ (q.n : Int)) := by omega
      simp only [this, hneg, if_false, false_or]
      rw [abs_getElem? q _ (by omega)]; rfl

theorem walk_eq (q : Q α) (step : Nat → Nat → Nat) (hs : ∀ cur c, step cur c = (cur + 1) % c)
    (hc : 0 < q.cap) (k s : Nat) :
    q.walk step k ((q.head + s) % q.cap) = (List.range k).map (fun i => q.at (s + i)) := by
  induction k generalizing s with
  | zero => simp [Q.walk]
  | succ k ih =>
    rw [Q.walk, List.range_succ_eq_map, hs]
    simp only [List.map_cons, List.map_map, Nat.add_zero]
    congr 1
    · have := ih (s + 1)
      rw [Nat.mod_add_mod]
      rw [show q.head + s + 1 = q.head + (s + 1) by omega, this]
      apply List.map_congr_left
      intro i _
      simp [Function.comp_def, Nat.add_assoc, Nat.add_comm 1 i]

theorem walk_abs (q : Q α) (step : Nat → Nat → Nat) (hs : ∀ cur c, step cur c = (cur + 1) % c)
    (hw : WF q) (k : Nat) (hk : k ≤ q.n) :
    q.walk step k q.head = (abs q).take k := by
  obtain ⟨hn, hh⟩ := hw
  by_cases hk0 : k = 0
  · subst hk0; simp [Q.walk]
  · have hh' : q.head < q.cap := by omega
    have := walk_eq q step hs (by omega) k 0
    rw [Nat.add_zero, Nat.mod_eq_of_lt hh'] at this
    rw [this, abs, ← List.map_take, List.take_range, Nat.min_eq_left hk]
    simp

theorem slice_abs (q : Q α) (hw : WF q) : q.slice = abs q := by
  unfold Q.slice
  simp only [sliceEmpty_iff]
  by_cases h0 : q.n = 0
  · simp [h0, abs]
  · rw [if_neg h0, walk_abs q _ sliceStep_eq hw q.n (Nat.le_refl _)]
    exact List.take_of_length_le (by simp)

theorem each_abs (q : Q α) (hw : WF q) (k : Nat) : q.each k = Deque.each (abs q) k := by
  rw [Q.each, walk_abs q _ eachStep_eq hw _ (Nat.min_le_left _ _), Deque.each]
  by_cases h : q.n ≤ k + 1
  · rw [Nat.min_eq_left h, List.take_of_length_le (by simpa using h), List.take_of_length_le (by simpa using h)]
  · rw [Nat.min_eq_right (by omega)]

end MdsVerif.Proofs.Queue
