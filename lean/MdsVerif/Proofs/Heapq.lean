import MdsVerif.Model.Heapq
import Mathlib.Data.List.Nodup
/-!
# Helper lemmas about the heap model (`Model/Heapq.lean`) for C05 and C06

Part 1: bookkeeping (`swap`, `report`), induction principles for the loops, conservation
(`List.Perm`).  Part 2: position reports (C06).  Part 3: heap order for the standard child
layout (`left i = 2i+1`, `right lc = lc+1`), Floyd heapify, `pop 0`, root minimality, `Sort`.
-/
namespace MdsVerif.Proofs.Heapq
open MdsVerif.Model.Heapq
open List (Perm Nodup)

set_option linter.unusedSectionVars false

variable {α : Type} [Inhabited α]

/-- The class of configurations for which every index the loops touch is in range:
`pushUp` moves strictly towards the root, `pushDown` strictly away from it.  Nothing is assumed
about `right`, `heapifyStart` or `popSiftsUp`. -/
structure CfgOK (cfg : Cfg) : Prop where
  parent_lt : ∀ i, 0 < i → cfg.parent i < i
  left_gt : ∀ i, i < cfg.left i

/-! ## bookkeeping -/

@[simp] theorem report_data (h : H α) (i : Nat) : (h.report i).data = h.data := rfl
@[simp] theorem report_len (h : H α) (i : Nat) : (h.report i).len = h.len := rfl
@[simp] theorem report_get (h : H α) (i k : Nat) : (h.report i).get k = h.get k := rfl
@[simp] theorem report_log (h : H α) (i : Nat) : (h.report i).log = (h.get i, i) :: h.log := rfl

theorem get_eq (h : H α) (i : Nat) (hi : i < h.len) : h.get i = h.data[i]'hi := by
  simp only [H.len] at hi
  simp [H.get, List.getD_eq_getElem?_getD, hi]

theorem get_mem (h : H α) (i : Nat) (hi : i < h.len) : h.get i ∈ h.data := by
  rw [get_eq h i hi]; exact List.getElem_mem _

theorem mem_iff_get (h : H α) (x : α) : x ∈ h.data ↔ ∃ i, i < h.len ∧ h.get i = x := by
  constructor
  · intro hx
    obtain ⟨i, hi, rfl⟩ := List.getElem_of_mem hx
    exact ⟨i, hi, get_eq h i hi⟩
  · rintro ⟨i, hi, rfl⟩; exact get_mem h i hi

theorem swap_data (h : H α) (i j : Nat) :
    (h.swap i j).data = (h.data.set i (h.get j)).set j (h.get i) := rfl

@[simp] theorem swap_len (h : H α) (i j : Nat) : (h.swap i j).len = h.len := by
  simp [H.len, swap_data]

theorem swap_log (h : H α) (i j : Nat) :
    (h.swap i j).log = ((h.swap i j).get j, j) :: ((h.swap i j).get i, i) :: h.log := rfl

theorem swap_perm (h : H α) {i j : Nat} (hi : i < h.len) (hj : j < h.len) :
    (h.swap i j).data.Perm h.data := by
  rw [swap_data, get_eq h i hi, get_eq h j hj]
  exact List.set_set_perm hi hj

theorem get_swap (h : H α) {i j : Nat} (k : Nat) (hi : i < h.len) (hj : j < h.len) :
    (h.swap i j).get k = if k = j then h.get i else if k = i then h.get j else h.get k := by
  simp only [H.len] at hi hj
  simp only [H.get, swap_data, List.getD_eq_getElem?_getD, List.getElem?_set, List.length_set]
  by_cases h1 : j = k
  · subst h1; simp [hj]
  · by_cases h2 : i = k
    · subst h2; simp [h1, hi, Ne.symm h1]
    · simp [h1, h2, Ne.symm h1, Ne.symm h2]

theorem nodup_get_inj (h : H α) (hn : h.data.Nodup) {i j : Nat} (hi : i < h.len) (hj : j < h.len)
    (e : h.get i = h.get j) : i = j := by
  rw [get_eq h i hi, get_eq h j hj] at e
  exact (hn.getElem_inj_iff).mp e

/-! ## induction principles: every loop is a sequence of in-range swaps (and reports) -/

/-- a predicate on heaps that survives every in-range swap -/
def SwapClosed (P : H α → Prop) : Prop :=
  ∀ (h : H α) (i j : Nat), i < h.len → j < h.len → P h → P (h.swap i j)

theorem pushUp_ind {cfg : Cfg} (hc : CfgOK cfg) (lt : α → α → Bool) {P : H α → Prop}
    (hP : SwapClosed P) :
    ∀ (fuel : Nat) (h : H α) (i : Nat), i < h.len → P h → P (pushUp cfg lt fuel h i).1 := by
  intro fuel
  induction fuel with
  | zero => intro h i _ hp; exact hp
  | succ f ih =>
    intro h i hi hp
    simp only [pushUp]
    split
    · rename_i h0
      split
      · exact hp
      · have hpar : cfg.parent i < h.len := Nat.lt_trans (hc.parent_lt i h0) hi
        exact ih _ _ (by simpa using hpar) (hP h i _ hi hpar hp)
    · exact hp

/-- `pushUp` keeps the length -/
theorem pushUp_len {cfg : Cfg} (hc : CfgOK cfg) (lt : α → α → Bool) (fuel : Nat) (h : H α) (i : Nat)
    (hi : i < h.len) : (pushUp cfg lt fuel h i).1.len = h.len :=
  pushUp_ind hc lt (P := fun h' => h'.len = h.len) (fun _ _ _ _ _ e => by simpa using e) fuel h i hi rfl

/-- the index `pushUp` returns is in range and holds the element it was started on -/
theorem pushUp_idx {cfg : Cfg} (hc : CfgOK cfg) (lt : α → α → Bool) :
    ∀ (fuel : Nat) (h : H α) (i : Nat), i < h.len →
      (pushUp cfg lt fuel h i).2 < h.len ∧
      (pushUp cfg lt fuel h i).1.get (pushUp cfg lt fuel h i).2 = h.get i := by
  intro fuel
  induction fuel with
  | zero => intro h i hi; exact ⟨hi, rfl⟩
  | succ f ih =>
    intro h i hi
    simp only [pushUp]
    split
    · rename_i h0
      split
      · exact ⟨hi, rfl⟩
      · have hpar : cfg.parent i < h.len := Nat.lt_trans (hc.parent_lt i h0) hi
        have := ih (h.swap i (cfg.parent i)) (cfg.parent i) (by simpa using hpar)
        rw [swap_len, get_swap h _ hi hpar] at this
        simpa using this
    · exact ⟨hi, rfl⟩

/-- the index `pushDown` selects at node `i`: `i` itself or one of its children -/
def minIdx (cfg : Cfg) (lt : α → α → Bool) (h : H α) (i : Nat) : Nat :=
  let lc := cfg.left i
  let min := if lt (h.get lc) (h.get i) then lc else i
  let rc := cfg.right lc
  if rc < h.len && lt (h.get rc) (h.get min) then rc else min

theorem pushDown_succ (cfg : Cfg) (lt : α → α → Bool) (f : Nat) (h : H α) (i : Nat) :
    pushDown cfg lt (f + 1) h i =
      if cfg.left i < h.len then
        (if minIdx cfg lt h i = i then (h, i)
         else pushDown cfg lt f (h.swap i (minIdx cfg lt h i)) (minIdx cfg lt h i))
      else (h, i) := rfl

theorem minIdx_lt (cfg : Cfg) (lt : α → α → Bool) (h : H α) (i : Nat) (hlc : cfg.left i < h.len)
    (hi : i < h.len) : minIdx cfg lt h i < h.len := by
  simp only [minIdx]
  by_cases hr : (decide (cfg.right (cfg.left i) < h.len) &&
      lt (h.get (cfg.right (cfg.left i))) (h.get (if lt (h.get (cfg.left i)) (h.get i) then cfg.left i else i))) = true
  · rw [if_pos hr]; simp only [Bool.and_eq_true, decide_eq_true_eq] at hr; exact hr.1
  · rw [if_neg hr]; split
    · exact hlc
    · exact hi

theorem pushDown_ind {cfg : Cfg} (hl : ∀ i, i < cfg.left i) (lt : α → α → Bool) {P : H α → Prop}
    (hP : SwapClosed P) :
    ∀ (fuel : Nat) (h : H α) (i : Nat), P h → P (pushDown cfg lt fuel h i).1 := by
  intro fuel
  induction fuel with
  | zero => intro h i hp; exact hp
  | succ f ih =>
    intro h i hp
    rw [pushDown_succ]
    split
    · rename_i hlc
      have hi : i < h.len := Nat.lt_trans (hl i) hlc
      split
      · exact hp
      · exact ih _ _ (hP h i _ hi (minIdx_lt cfg lt h i hlc hi) hp)
    · exact hp

theorem pushDown_len {cfg : Cfg} (hl : ∀ i, i < cfg.left i) (lt : α → α → Bool) (fuel : Nat) (h : H α) (i : Nat) :
    (pushDown cfg lt fuel h i).1.len = h.len :=
  pushDown_ind hl lt (P := fun h' => h'.len = h.len) (fun _ _ _ _ _ e => by simpa using e) fuel h i rfl

omit [Inhabited α] in
theorem downFrom_ind {P : H α → Prop} (body : H α → Nat → H α) (hb : ∀ h i, P h → P (body h i)) :
    ∀ (n : Nat) (h : H α), P h → P (downFrom body n h) := by
  intro n
  induction n with
  | zero => intro h hp; exact hb _ _ hp
  | succ n ih => intro h hp; exact ih _ (hb _ _ hp)

omit [Inhabited α] in
/-- `downFrom` with an index-dependent loop invariant: `P (i+1)` before `body i`, `P i` after -/
theorem downFrom_ind' {P : Nat → H α → Prop} (body : H α → Nat → H α) :
    ∀ (n : Nat) (h : H α), P (n + 1) h → (∀ h i, i ≤ n → P (i + 1) h → P i (body h i)) →
      P 0 (downFrom body n h) := by
  intro n
  induction n with
  | zero => intro h hp hb; exact hb _ _ (Nat.le_refl _) hp
  | succ n ih =>
    intro h hp hb
    exact ih _ (hb _ _ (Nat.le_refl _) hp) (fun h i hi => hb h i (Nat.le_succ_of_le hi))

/-! ## `pop`, decomposed -/

/-- state of `pop(i)` just before its `pushDown(i)`: last element moved into slot `i` (reported),
array cut to `n = len - 1` -/
def popCut (h : H α) (i : Nat) : H α :=
  let n := h.len - 1
  let h1 : H α := { h with data := (h.data.set i (h.get n)).set n (h.get i) }
  let h2 := h1.report i
  { h2 with data := h2.data.take n }

theorem pop_eq (cfg : Cfg) (lt : α → α → Bool) (h : H α) (i : Nat) :
    pop cfg lt h i =
      if h.len - 1 = 0 then ({ h with data := [] }, h.get i)
      else
        let r := pushDown cfg lt (popCut h i).len (popCut h i) i
        if cfg.popSiftsUp && (r.2 = i && i < (popCut h i).len) then ((pushUp cfg lt (i + 1) r.1 i).1, h.get i)
        else (r.1, h.get i) := rfl

theorem pop_out (cfg : Cfg) (lt : α → α → Bool) (h : H α) (i : Nat) : (pop cfg lt h i).2 = h.get i := by
  rw [pop_eq]; split
  · rfl
  · simp only; split <;> rfl

theorem popCut_data (h : H α) (i : Nat) : (popCut h i).data = ((h.swap i (h.len - 1)).data).take (h.len - 1) := rfl

theorem popCut_log (h : H α) (i : Nat) :
    (popCut h i).log = ((h.swap i (h.len - 1)).get i, i) :: h.log := rfl

theorem popCut_len (h : H α) (i : Nat) : (popCut h i).len = h.len - 1 := by
  have : (h.swap i (h.len - 1)).data.length = h.len := swap_len h i (h.len - 1)
  show ((h.swap i (h.len - 1)).data.take (h.len - 1)).length = h.len - 1
  rw [List.length_take, this]; omega

theorem popCut_get (h : H α) (i k : Nat) (hk : k < h.len - 1) :
    (popCut h i).get k = (h.swap i (h.len - 1)).get k := by
  simp [H.get, popCut_data, List.getD_eq_getElem?_getD, hk]

/-- the removed element followed by the cut array is a permutation of the array -/
theorem popCut_perm (h : H α) (i : Nat) (hi : i < h.len) :
    (h.get i :: (popCut h i).data).Perm h.data := by
  have hn : h.len - 1 < h.len := by omega
  have hp := swap_perm h hi hn
  refine Perm.trans ?_ hp
  have hlen : (h.swap i (h.len - 1)).data.length = h.len := swap_len h i _
  have hlast : (h.swap i (h.len - 1)).get (h.len - 1) = h.get i := by
    rw [get_swap h _ hi hn]; simp
  rw [get_eq _ _ (by rw [swap_len]; exact hn)] at hlast
  rw [popCut_data, ← hlast]
  have : (h.swap i (h.len - 1)).data =
      (h.swap i (h.len - 1)).data.take (h.len - 1) ++ [(h.swap i (h.len - 1)).data[h.len - 1]'(by rw [hlen]; exact hn)] := by
    rw [List.take_append_getElem, List.take_of_length_le (by rw [hlen]; omega)]
  conv_rhs => rw [this]
  exact (List.perm_append_singleton _ _).symm

/-- `pop` = cut, then in-range swaps -/
theorem pop_ind {cfg : Cfg} (hc : CfgOK cfg) (lt : α → α → Bool) {P : H α → Prop} (hP : SwapClosed P)
    (h : H α) (i : Nat) (hn : h.len - 1 ≠ 0)
    (hp : P (popCut h i)) : P (pop cfg lt h i).1 := by
  rw [pop_eq, if_neg hn]
  simp only
  have h4 := pushDown_ind hc.left_gt lt hP (popCut h i).len (popCut h i) i hp
  split
  · rename_i hu
    simp only [Bool.and_eq_true, decide_eq_true_eq] at hu
    apply pushUp_ind hc lt hP _ _ _ _ h4
    rw [pushDown_len hc.left_gt]; exact hu.2.2
  · exact h4

/-! ## conservation -/

theorem permClosed (d : List α) : SwapClosed (fun h : H α => h.data.Perm d) :=
  fun h _ _ hi hj hp => (swap_perm h hi hj).trans hp

theorem pushUp_perm {cfg : Cfg} (hc : CfgOK cfg) (lt : α → α → Bool) (fuel : Nat) (h : H α) (i : Nat)
    (hi : i < h.len) : (pushUp cfg lt fuel h i).1.data.Perm h.data :=
  pushUp_ind hc lt (permClosed h.data) fuel h i hi (Perm.refl _)

theorem pushDown_perm {cfg : Cfg} (hl : ∀ i, i < cfg.left i) (lt : α → α → Bool) (fuel : Nat) (h : H α) (i : Nat) :
    (pushDown cfg lt fuel h i).1.data.Perm h.data :=
  pushDown_ind hl lt (permClosed h.data) fuel h i (Perm.refl _)

theorem heapify_perm {cfg : Cfg} (hl : ∀ i, i < cfg.left i) (lt : α → α → Bool) (n : Nat) (h : H α) :
    (downFrom (fun h i => (pushDown cfg lt h.len h i).1) n h).data.Perm h.data :=
  downFrom_ind (P := fun h' => h'.data.Perm h.data) _
    (fun h' i hp => (pushDown_perm hl lt _ h' i).trans hp) n h (Perm.refl _)

theorem newWithData_perm {cfg : Cfg} (hl : ∀ i, i < cfg.left i) (lt : α → α → Bool) (vs : List α) :
    (newWithData cfg lt vs).data.Perm vs := heapify_perm hl lt _ _

theorem reorder_perm {cfg : Cfg} (hl : ∀ i, i < cfg.left i) (lt : α → α → Bool) (h : H α) :
    (reorder cfg lt h).data.Perm h.data := heapify_perm hl lt _ _

theorem set_perm {cfg : Cfg} (hl : ∀ i, i < cfg.left i) (lt : α → α → Bool) (h : H α) (vs : List α) :
    (set cfg lt h vs).data.Perm vs := by
  simp only [Model.Heapq.set]
  split
  · exact Perm.refl _
  · exact downFrom_ind (P := fun h' => h'.data.Perm vs) _
      (fun h' i hp => (pushDown_perm hl lt _ (h'.report i) i).trans hp) _ _ (Perm.refl _)

theorem add_perm {cfg : Cfg} (hc : CfgOK cfg) (lt : α → α → Bool) (h : H α) (v : α) :
    (add cfg lt h v).1.data.Perm (v :: h.data) := by
  simp only [add]
  refine (pushUp_perm hc lt _ _ _ ?_).trans ?_
  · simp [H.len]
  · simp only [report_data]; exact List.perm_append_singleton _ _

/-- `pop(i)` returns `data[i]`; the returned element plus what is left is what was there -/
theorem pop_perm {cfg : Cfg} (hc : CfgOK cfg) (lt : α → α → Bool) (h : H α) (i : Nat) (hi : i < h.len) :
    ((pop cfg lt h i).2 :: (pop cfg lt h i).1.data).Perm h.data := by
  rw [pop_out]
  by_cases hn : h.len - 1 = 0
  · rw [pop_eq, if_pos hn]
    simp only
    have h1 : h.data.length = 1 := by simp only [H.len] at hi hn; omega
    have h0 : i = 0 := by simp only [H.len] at hi; omega
    subst h0
    obtain ⟨a, ha⟩ := List.length_eq_one_iff.mp h1
    have : h.get 0 = a := by simp [H.get, ha]
    rw [this, ha]
  · exact pop_ind hc lt (P := fun h' => (h.get i :: h'.data).Perm h.data)
      (fun h' a b ha hb hp => ((swap_perm h' ha hb).cons _).trans hp) h i hn (popCut_perm h i hi)

/-! ## Part 2: position reports (C06) -/
section Pos
variable [DecidableEq α]

/-- the position in the most recent `move(x, p)` callback for `x` (`log` is most-recent-first) -/
def lastPos : List (α × Nat) → α → Option Nat
  | [], _ => none
  | (y, p) :: l, x => if y = x then some p else lastPos l x

/-- every slot `k` selected by `Q k data[k]` holds an element whose last reported position is `k` -/
def Tracks (Q : Nat → α → Prop) (h : H α) : Prop :=
  ∀ k, k < h.len → Q k (h.get k) → lastPos h.log (h.get k) = some k

/-- the C06 invariant: pairwise distinct elements, and reports track the selected slots -/
def Inv (Q : Nat → α → Prop) (h : H α) : Prop := h.data.Nodup ∧ Tracks Q h

theorem Inv.weaken {Q Q' : Nat → α → Prop} {h : H α} (hi : Inv Q h) (hq : ∀ k x, Q' k x → Q k x) :
    Inv Q' h := ⟨hi.1, fun k hk q => hi.2 k hk (hq _ _ q)⟩

/-- `swap` re-reports both slots it writes: the invariant survives for every selection `Q` -/
theorem inv_swapClosed (Q : Nat → α → Prop) : SwapClosed (Inv (α := α) Q) := by
  intro h i j hi hj ⟨hn, ht⟩
  have hn' : (h.swap i j).data.Nodup := (swap_perm h hi hj).nodup_iff.mpr hn
  refine ⟨hn', ?_⟩
  intro k hk hq
  have hk' : k < h.len := by simpa using hk
  rw [swap_log]
  simp only [lastPos]
  by_cases e1 : (h.swap i j).get j = (h.swap i j).get k
  · rw [if_pos e1, nodup_get_inj _ hn' (by simpa using hj) hk e1]
  · rw [if_neg e1]
    by_cases e2 : (h.swap i j).get i = (h.swap i j).get k
    · rw [if_pos e2, nodup_get_inj _ hn' (by simpa using hi) hk e2]
    · rw [if_neg e2]
      have k1 : k ≠ j := fun e => e1 (by rw [e])
      have k2 : k ≠ i := fun e => e2 (by rw [e])
      have e : (h.swap i j).get k = h.get k := by rw [get_swap h k hi hj, if_neg k1, if_neg k2]
      rw [e] at hq ⊢
      exact ht k hk' hq

/-- `move(data[i], i)` makes slot `i` tracked -/
theorem inv_report {Q : Nat → α → Prop} {h : H α} (hv : Inv Q h) (i : Nat) (hi : i < h.len) :
    Inv (fun k x => k = i ∨ Q k x) (h.report i) := by
  refine ⟨hv.1, ?_⟩
  intro k hk hq
  simp only [report_log, report_get, lastPos] at hq ⊢
  by_cases e : h.get i = h.get k
  · rw [if_pos e, nodup_get_inj h hv.1 hi hk e]
  · rw [if_neg e]
    rcases hq with rfl | hq
    · exact absurd rfl e
    · exact hv.2 k hk hq

theorem pushUp_inv {cfg : Cfg} (hc : CfgOK cfg) (lt : α → α → Bool) (Q : Nat → α → Prop) (fuel : Nat)
    (h : H α) (i : Nat) (hi : i < h.len) (hv : Inv Q h) : Inv Q (pushUp cfg lt fuel h i).1 :=
  pushUp_ind hc lt (inv_swapClosed Q) fuel h i hi hv

theorem pushDown_inv {cfg : Cfg} (hl : ∀ i, i < cfg.left i) (lt : α → α → Bool) (Q : Nat → α → Prop) (fuel : Nat)
    (h : H α) (i : Nat) (hv : Inv Q h) : Inv Q (pushDown cfg lt fuel h i).1 :=
  pushDown_ind hl lt (inv_swapClosed Q) fuel h i hv

theorem reorder_inv {cfg : Cfg} (hl : ∀ i, i < cfg.left i) (lt : α → α → Bool) (Q : Nat → α → Prop) (h : H α)
    (hv : Inv Q h) : Inv Q (reorder cfg lt h) :=
  downFrom_ind (P := Inv Q) _ (fun h' i hp => pushDown_inv hl lt Q _ h' i hp) _ _ hv

/-- `pop(i)` (every `i < len`, also the last index, where the code reports the *removed* element at
index `n`): the slot refilled from the end is re-reported, everything else is untouched -/
theorem popCut_inv {Q : Nat → α → Prop} {h : H α} (hv : Inv Q h) (i : Nat) (hi : i < h.len) :
    Inv Q (popCut h i) := by
  have hn : h.len - 1 < h.len := by omega
  have hn' : (h.swap i (h.len - 1)).data.Nodup := (swap_perm h hi hn).nodup_iff.mpr hv.1
  refine ⟨?_, ?_⟩
  · rw [popCut_data]; exact hn'.sublist (List.take_sublist _ _)
  · intro k hk hq
    rw [popCut_len] at hk
    rw [popCut_get h i k hk] at hq ⊢
    rw [popCut_log]
    simp only [lastPos]
    by_cases e : (h.swap i (h.len - 1)).get i = (h.swap i (h.len - 1)).get k
    · rw [if_pos e, nodup_get_inj _ hn' (by simpa using hi) (by rw [swap_len]; omega) e]
    · rw [if_neg e]
      have k1 : k ≠ i := fun e' => e (by rw [e'])
      have e' : (h.swap i (h.len - 1)).get k = h.get k := by
        rw [get_swap h k hi hn, if_neg (by omega), if_neg k1]
      rw [e'] at hq ⊢
      exact hv.2 k (by omega) hq

theorem pop_inv {cfg : Cfg} (hc : CfgOK cfg) (lt : α → α → Bool) (Q : Nat → α → Prop) (h : H α) (i : Nat)
    (hi : i < h.len) (hv : Inv Q h) :
    Inv Q (pop cfg lt h i).1 := by
  by_cases hn : h.len - 1 = 0
  · rw [pop_eq, if_pos hn]
    exact ⟨List.nodup_nil, fun k hk => by simp [H.len] at hk⟩
  · exact pop_ind hc lt (inv_swapClosed Q) h i hn (popCut_inv hv i hi)

/-- `Add(v)` for a `v` not yet held: the new slot is reported, `pushUp` re-reports what it moves;
the returned index holds `v` -/
theorem add_inv {cfg : Cfg} (hc : CfgOK cfg) (lt : α → α → Bool) (T : α → Prop) (h : H α) (v : α)
    (hv : Inv (fun _ x => T x) h) (hnew : v ∉ h.data) :
    Inv (fun _ x => x = v ∨ T x) (add cfg lt h v).1 ∧
    (add cfg lt h v).2 < (add cfg lt h v).1.len ∧
    (add cfg lt h v).1.get (add cfg lt h v).2 = v := by
  simp only [add]
  set h0 : H α := { h with data := h.data ++ [v] } with hh0
  have hlen0 : h0.len = h.len + 1 := by simp [hh0, H.len]
  have hget0 : ∀ k, k < h.len → h0.get k = h.get k := by
    intro k hk; simp only [H.len] at hk
    simp [hh0, H.get, List.getD_eq_getElem?_getD, List.getElem?_append_left hk]
  have hgetn : h0.get h.len = v := by
    simp [hh0, H.get, H.len, List.getD_eq_getElem?_getD]
  have hn0 : h0.data.Nodup := by
    simp only [hh0]
    rw [List.nodup_append]
    exact ⟨hv.1, List.nodup_singleton _, fun a ha b hb => by
      simp only [List.mem_singleton] at hb; subst hb; intro e; subst e; exact hnew ha⟩
  have hv1 : Inv (fun _ x => x = v ∨ T x) (h0.report h.len) := by
    refine ⟨hn0, ?_⟩
    intro k hk hq
    simp only [report_len, hlen0] at hk
    simp only [report_log, report_get, hgetn, lastPos] at hq ⊢
    by_cases hkn : k = h.len
    · subst hkn; rw [hgetn, if_pos rfl]
    · have hk' : k < h.len := by omega
      rw [hget0 k hk'] at hq ⊢
      have hne : v ≠ h.get k := fun e => hnew (e ▸ get_mem h k hk')
      rw [if_neg hne]
      exact hv.2 k hk' (hq.resolve_left (Ne.symm hne))
  have hlt : h.len < (h0.report h.len).len := by simp [hlen0]
  refine ⟨pushUp_inv hc lt _ _ _ _ hlt hv1, ?_, ?_⟩
  · rw [pushUp_len hc lt _ _ _ hlt]; exact (pushUp_idx hc lt _ _ _ hlt).1
  · rw [(pushUp_idx hc lt _ _ _ hlt).2]; exact hgetn

/-- `Set(vs)` over pairwise distinct `vs`: the loop reports slot `i`, then `pushDown(i)` re-reports
what it moves; after the loop every slot is tracked -/
theorem set_inv {cfg : Cfg} (hl : ∀ i, i < cfg.left i) (lt : α → α → Bool) (h : H α) (vs : List α) (hvs : vs.Nodup) :
    Inv (fun _ _ => True) (Model.Heapq.set cfg lt h vs) := by
  simp only [Model.Heapq.set]
  split
  · exact ⟨hvs, fun k hk => by rename_i e; simp [H.len, e] at hk⟩
  · rename_i n e
    have := downFrom_ind' (P := fun i h' => h'.len = n + 1 ∧ Inv (fun k _ => i ≤ k) h')
      (fun h i => (pushDown cfg lt h.len (h.report i) i).1) n ({ h with data := vs } : H α)
      ⟨by simp [H.len, e], hvs, fun k hk hq => by simp only [H.len, e] at hk; omega⟩
      (fun h' i hi ⟨hlen, hv⟩ => by
        refine ⟨by rw [pushDown_len hl, report_len, hlen], ?_⟩
        refine pushDown_inv hl lt _ _ _ _ ((inv_report hv i (by omega)).weaken ?_)
        intro k _ hk; omega)
    exact this.2.weaken (fun k _ _ => Nat.zero_le k)

end Pos

/-! ## Part 3: heap order for the standard child layout -/

/-- `le a b := !lt b a` -/
def le (lt : α → α → Bool) (a b : α) : Bool := !lt b a

/-- the hypotheses on the comparison: `le` is total and transitive (a total preorder; distinct
elements may be equivalent) -/
structure OrderOK (lt : α → α → Bool) : Prop where
  le_total : ∀ a b, le lt a b = true ∨ le lt b a = true
  le_trans : ∀ a b c, le lt a b = true → le lt b c = true → le lt a c = true

namespace OrderOK
variable {lt : α → α → Bool} (ho : OrderOK lt)
include ho

theorem asymm {a b : α} (h : lt a b = true) : lt b a = false := by
  have := ho.le_total a b
  simp only [le, h, Bool.not_true, Bool.false_eq_true, or_false, Bool.not_eq_true'] at this
  simpa [le] using this

theorem irrefl (a : α) : lt a a = false := by
  cases h : lt a a
  · rfl
  · exact (ho.asymm h).symm.trans h ▸ rfl

/-- `¬ b < a → ¬ c < b → ¬ c < a` -/
theorem trans {a b c : α} (h1 : lt b a = false) (h2 : lt c b = false) : lt c a = false := by
  have := ho.le_trans a b c (by simp [le, h1]) (by simp [le, h2])
  simpa [le] using this

theorem flip : OrderOK (fun a b => lt b a) where
  le_total := fun a b => (ho.le_total b a)
  le_trans := fun a b c h1 h2 => ho.le_trans c b a h2 h1

end OrderOK

/-- standard child layout: children of `i` at `2i+1`, `2i+2`; the bottom-up heapify loop starts at or
above the last internal node.  Nothing is assumed about `parent` and `popSiftsUp`. -/
structure CfgLayout (cfg : Cfg) : Prop where
  left_eq : ∀ i, cfg.left i = 2 * i + 1
  right_eq : ∀ lc, cfg.right lc = lc + 1
  start_ge : ∀ n, n ≤ 2 * cfg.heapifyStart n + 3

/-- standard child layout and `pop` only sifts down (the pinned source; `parent` is arbitrary: it
is never used) -/
structure CfgStd (cfg : Cfg) : Prop extends CfgLayout cfg where
  noSiftUp : cfg.popSiftsUp = false

theorem CfgLayout.left_gt {cfg : Cfg} (hs : CfgLayout cfg) : ∀ i, i < cfg.left i := fun i => by
  rw [hs.left_eq]; omega

/-- node `k` is not greater than its children -/
def NodeOK (lt : α → α → Bool) (h : H α) (k : Nat) : Prop :=
  ∀ c, (c = 2 * k + 1 ∨ c = 2 * k + 2) → c < h.len → lt (h.get c) (h.get k) = false

/-- heap order at every node `≥ s` -/
def HeapFrom (lt : α → α → Bool) (h : H α) (s : Nat) : Prop := ∀ k, s ≤ k → NodeOK lt h k

/-- `pushDown`'s loop invariant: heap order at every node `≥ s` except `j`, and the children of `j`
are not smaller than `j`'s parent (if that is `≥ s`) -/
def Almost (lt : α → α → Bool) (h : H α) (s j : Nat) : Prop :=
  (∀ k, s ≤ k → k ≠ j → NodeOK lt h k) ∧
  (∀ p, s ≤ p → (j = 2 * p + 1 ∨ j = 2 * p + 2) →
    ∀ c, (c = 2 * j + 1 ∨ c = 2 * j + 2) → c < h.len → lt (h.get c) (h.get p) = false)

theorem almost_swap {lt : α → α → Bool} (_ho : OrderOK lt) (h : H α) (s j m : Nat) (hsj : s ≤ j)
    (hj : j < h.len) (hm : m < h.len) (hmc : m = 2 * j + 1 ∨ m = 2 * j + 2) (hA : Almost lt h s j)
    (F1 : lt (h.get j) (h.get m) = false)
    (F2 : ∀ c, (c = 2 * j + 1 ∨ c = 2 * j + 2) → c < h.len → lt (h.get c) (h.get m) = false) :
    Almost lt (h.swap j m) s m := by
  have gs : ∀ x, (h.swap j m).get x = if x = m then h.get j else if x = j then h.get m else h.get x :=
    fun x => get_swap h x hj hm
  refine ⟨?_, ?_⟩
  · intro k hk hkm c hc hcl
    rw [swap_len] at hcl
    by_cases hkj : k = j
    · subst hkj
      rw [gs k, if_neg hkm, if_pos rfl]
      by_cases hcm : c = m
      · rw [gs c, if_pos hcm]; exact F1
      · rw [gs c, if_neg hcm, if_neg (by omega)]; exact F2 c hc hcl
    · rw [gs k, if_neg hkm, if_neg hkj]
      have hcm : c ≠ m := by omega
      by_cases hcj : c = j
      · rw [gs c, if_neg hcm, if_pos hcj]
        exact hA.2 k hk (by omega) m hmc hm
      · rw [gs c, if_neg hcm, if_neg hcj]
        exact hA.1 k hk hkj c hc hcl
  · intro p hp hpm c hc hcl
    rw [swap_len] at hcl
    have hpj : p = j := by omega
    subst hpj
    rw [gs c, if_neg (by omega), if_neg (by omega), gs p, if_neg (by omega), if_pos rfl]
    exact hA.1 m (by omega) (by omega) c hc hcl

/-- **`pushDown` restores heap order**: if heap order holds everywhere `≥ s` except at `j` (and the
children of `j` respect `j`'s parent), then after `pushDown(j)` it holds everywhere `≥ s`.
`fuel ≥ len - j` suffices. -/
theorem pushDown_heap {cfg : Cfg} (hs : CfgLayout cfg) {lt : α → α → Bool} (ho : OrderOK lt) :
    ∀ (fuel : Nat) (h : H α) (j s : Nat), h.len ≤ j + fuel → s ≤ j → Almost lt h s j →
      HeapFrom lt (pushDown cfg lt fuel h j).1 s := by
  intro fuel
  induction fuel with
  | zero =>
    intro h j s hf _ hA k hk
    by_cases hkj : k = j
    · subst hkj; intro c hc hcl; simp only [pushDown] at hcl; omega
    · exact hA.1 k hk hkj
  | succ f ih =>
    intro h j s hf hsj hA
    rw [pushDown_succ, hs.left_eq]
    by_cases hlc : 2 * j + 1 < h.len
    · rw [if_pos hlc]
      have hj : j < h.len := by omega
      -- name the comparisons
      have hmin : minIdx cfg lt h j =
          (if (decide (2 * j + 1 + 1 < h.len) &&
                lt (h.get (2 * j + 1 + 1)) (h.get (if lt (h.get (2 * j + 1)) (h.get j) then 2 * j + 1 else j))) = true
            then 2 * j + 1 + 1 else (if lt (h.get (2 * j + 1)) (h.get j) then 2 * j + 1 else j)) := by
        simp only [minIdx, hs.left_eq, hs.right_eq]
      cases ha : lt (h.get (2 * j + 1)) (h.get j) with
      | false =>
        simp only [ha, Bool.false_eq_true, if_false] at hmin
        by_cases hb : (decide (2 * j + 1 + 1 < h.len) && lt (h.get (2 * j + 1 + 1)) (h.get j)) = true
        · -- right child selected
          rw [if_pos hb] at hmin
          rw [hmin, if_neg (by omega)]
          simp only [Bool.and_eq_true, decide_eq_true_eq] at hb
          refine ih _ _ _ (by rw [swap_len]; omega) (by omega) ?_
          refine almost_swap ho h s j _ hsj hj hb.1 (Or.inr rfl) hA (ho.asymm hb.2) ?_
          intro c hc _
          rcases hc with rfl | rfl
          · exact ho.trans (ho.asymm hb.2) ha
          · exact ho.irrefl _
        · -- `j` itself is the minimum: done
          rw [if_neg hb] at hmin
          rw [hmin, if_pos rfl]
          intro k hk
          by_cases hkj : k = j
          · subst hkj
            intro c hc hcl
            rcases hc with rfl | rfl
            · exact ha
            · simp only [Bool.and_eq_true, decide_eq_true_eq, not_and, Bool.not_eq_true] at hb
              exact hb hcl
          · exact hA.1 k hk hkj
      | true =>
        simp only [ha, if_true] at hmin
        by_cases hb : (decide (2 * j + 1 + 1 < h.len) && lt (h.get (2 * j + 1 + 1)) (h.get (2 * j + 1))) = true
        · rw [if_pos hb] at hmin
          rw [hmin, if_neg (by omega)]
          simp only [Bool.and_eq_true, decide_eq_true_eq] at hb
          refine ih _ _ _ (by rw [swap_len]; omega) (by omega) ?_
          refine almost_swap ho h s j _ hsj hj hb.1 (Or.inr rfl) hA ?_ ?_
          · -- j ≥ lc ≥ rc
            exact ho.trans (ho.asymm hb.2) (ho.asymm ha)
          · intro c hc _
            rcases hc with rfl | rfl
            · exact ho.asymm hb.2
            · exact ho.irrefl _
        · rw [if_neg hb] at hmin
          rw [hmin, if_neg (by omega)]
          refine ih _ _ _ (by rw [swap_len]; omega) (by omega) ?_
          refine almost_swap ho h s j _ hsj hj hlc (Or.inl rfl) hA (ho.asymm ha) ?_
          intro c hc hcl
          rcases hc with rfl | rfl
          · exact ho.irrefl _
          · simp only [Bool.and_eq_true, decide_eq_true_eq, not_and, Bool.not_eq_true] at hb
            exact hb hcl
    · rw [if_neg hlc]
      intro k hk
      by_cases hkj : k = j
      · subst hkj; intro c hc hcl
        have hcl' : c < h.len := hcl
        omega
      · exact hA.1 k hk hkj

theorem heapFrom_almost {lt : α → α → Bool} {h : H α} {i : Nat} (hh : HeapFrom lt h (i + 1)) :
    Almost lt h i i :=
  ⟨fun k hk hki => hh k (by omega), fun p hp hpi => by omega⟩

/-- **Floyd heapify** (`NewWithData`, `Reorder`): running `pushDown(i)` for `i = start … 0`
establishes heap order, provided `start` is at or above the last internal node -/
theorem heapify_heap {cfg : Cfg} (hs : CfgLayout cfg) {lt : α → α → Bool} (ho : OrderOK lt) (h : H α)
    (start : Nat) (hst : h.len ≤ 2 * start + 3) :
    HeapFrom lt (downFrom (fun h i => (pushDown cfg lt h.len h i).1) start h) 0 := by
  have := downFrom_ind' (P := fun i h' => h'.len = h.len ∧ HeapFrom lt h' i)
    (fun h i => (pushDown cfg lt h.len h i).1) start h
    ⟨rfl, fun k hk c hc hcl => by omega⟩
    (fun h' i _ ⟨hl, hh⟩ =>
      ⟨by rw [pushDown_len hs.left_gt, hl],
       pushDown_heap hs ho _ h' i i (by omega) (Nat.le_refl _) (heapFrom_almost hh)⟩)
  exact this.2

/-- the `Set` loop (`move(data[i], i); pushDown(i)` for `i = len-1 … 0`) establishes heap order -/
theorem setLoop_heap {cfg : Cfg} (hs : CfgLayout cfg) {lt : α → α → Bool} (ho : OrderOK lt) (h : H α)
    (n : Nat) (hn : h.len = n + 1) :
    HeapFrom lt (downFrom (fun h i => (pushDown cfg lt h.len (h.report i) i).1) n h) 0 := by
  have := downFrom_ind' (P := fun i h' => h'.len = h.len ∧ HeapFrom lt h' i)
    (fun h i => (pushDown cfg lt h.len (h.report i) i).1) n h
    ⟨rfl, fun k hk c hc hcl => by omega⟩
    (fun h' i _ ⟨hl, hh⟩ =>
      ⟨by rw [pushDown_len hs.left_gt, report_len, hl],
       pushDown_heap hs ho _ (h'.report i) i i (by rw [report_len]; omega) (Nat.le_refl _)
        (heapFrom_almost (h := h'.report i) hh)⟩)
  exact this.2

/-- **`pop(0)` preserves heap order** (Pop, Remove(0)): only a downward repair is needed at the root -/
theorem pop0_heap {cfg : Cfg} (hs : CfgStd cfg) {lt : α → α → Bool} (ho : OrderOK lt) (h : H α)
    (hh : HeapFrom lt h 0) : HeapFrom lt (pop cfg lt h 0).1 0 := by
  rw [pop_eq]
  by_cases hn : h.len - 1 = 0
  · rw [if_pos hn]; intro k _ c _ hcl; simp [H.len] at hcl
  · rw [if_neg hn]
    simp only [hs.noSiftUp, Bool.false_and, Bool.false_eq_true, if_false]
    have h0 : 0 < h.len := by omega
    have hl : h.len - 1 < h.len := by omega
    refine pushDown_heap hs.toCfgLayout ho _ _ 0 0 (by omega) (Nat.le_refl _) ⟨?_, fun p _ hp => by omega⟩
    intro k _ hk0 c hc hcl
    rw [popCut_len] at hcl
    rw [popCut_get h 0 c hcl, popCut_get h 0 k (by omega), get_swap h c h0 hl, get_swap h k h0 hl,
      if_neg (by omega), if_neg (by omega), if_neg (by omega), if_neg hk0]
    exact hh k (Nat.zero_le _) c hc (by omega)

/-- **the root of a heap is a minimum** (induction on the index through `(k-1)/2`) -/
theorem heap_root_min {lt : α → α → Bool} (ho : OrderOK lt) (h : H α) (hh : HeapFrom lt h 0) :
    ∀ k, k < h.len → lt (h.get k) (h.get 0) = false := by
  intro k
  induction k using Nat.strongRecOn with
  | ind k ih =>
    intro hk
    by_cases h0 : k = 0
    · subst h0; exact ho.irrefl _
    · have hp : (k - 1) / 2 < k := by omega
      have h1 := ih _ hp (by omega)
      have h2 := hh ((k - 1) / 2) (Nat.zero_le _) k (by omega) hk
      exact ho.trans h1 h2

theorem heap_root_min_mem {lt : α → α → Bool} (ho : OrderOK lt) (h : H α) (hh : HeapFrom lt h 0) :
    ∀ x ∈ h.data, lt x (h.get 0) = false := by
  intro x hx
  obtain ⟨k, hk, rfl⟩ := (mem_iff_get h x).mp hx
  exact heap_root_min ho h hh k hk

/-- `pop(0)` without sift-up: conservation, for the standard layout (no assumption on `parent`) -/
theorem pop0_perm {cfg : Cfg} (hs : CfgStd cfg) (lt : α → α → Bool) (h : H α) (h0 : 0 < h.len) :
    (h.get 0 :: (pop cfg lt h 0).1.data).Perm h.data := by
  rw [pop_eq]
  by_cases hn : h.len - 1 = 0
  · rw [if_pos hn]
    have h1 : h.data.length = 1 := by simp only [H.len] at h0 hn; omega
    obtain ⟨a, ha⟩ := List.length_eq_one_iff.mp h1
    have : h.get 0 = a := by simp [H.get, ha]
    rw [this, ha]
  · rw [if_neg hn]
    simp only [hs.noSiftUp, Bool.false_and, Bool.false_eq_true, if_false]
    exact ((pushDown_perm hs.toCfgLayout.left_gt lt _ _ _).cons _).trans (popCut_perm h 0 h0)

/-- the drain loop of `Sort`: popping a heap until it is empty, consing each popped element onto
`acc`, yields a list in which every element is `≥` (w.r.t. `lt`) all later ones -/
theorem sortLoop_spec {cfg : Cfg} (hs : CfgStd cfg) {lt : α → α → Bool} (ho : OrderOK lt) :
    ∀ (fuel : Nat) (h : H α) (acc : List α), HeapFrom lt h 0 → h.len ≤ fuel →
      acc.Pairwise (fun a b => lt a b = false) →
      (∀ a ∈ acc, ∀ x ∈ h.data, lt x a = false) →
      (sortLoop cfg lt fuel h acc).Pairwise (fun a b => lt a b = false) ∧
      (sortLoop cfg lt fuel h acc).Perm (h.data ++ acc) := by
  intro fuel
  induction fuel with
  | zero =>
    intro h acc _ hf hp _
    have : h.data = [] := List.length_eq_zero_iff.mp (by simp only [H.len] at hf; omega)
    simp only [sortLoop, this, List.nil_append]
    exact ⟨hp, Perm.refl _⟩
  | succ f ih =>
    intro h acc hh hf hp hacc
    simp only [sortLoop]
    by_cases h0 : h.len = 0
    · rw [if_pos h0]
      have : h.data = [] := List.length_eq_zero_iff.mp h0
      simp only [this, List.nil_append]
      exact ⟨hp, Perm.refl _⟩
    · rw [if_neg h0]
      have hpos : 0 < h.len := by omega
      have hperm := pop0_perm hs lt h hpos
      have hout := pop_out cfg lt h 0
      have hlen : (pop cfg lt h 0).1.len = h.len - 1 := by
        have := hperm.length_eq
        simp only [H.len, List.length_cons] at this ⊢; omega
      have hsub : ∀ x ∈ (pop cfg lt h 0).1.data, x ∈ h.data :=
        fun x hx => hperm.subset (List.mem_cons_of_mem _ hx)
      have := ih (pop cfg lt h 0).1 ((pop cfg lt h 0).2 :: acc) (pop0_heap hs ho h hh) (by omega)
        (by
          rw [hout]
          refine List.pairwise_cons.mpr ⟨fun a ha => hacc a ha _ (get_mem h 0 hpos), hp⟩)
        (by
          rw [hout]
          intro a ha x hx
          rcases List.mem_cons.mp ha with rfl | ha
          · exact heap_root_min_mem ho h hh x (hsub x hx)
          · exact hacc a ha x (hsub x hx))
      refine ⟨this.1, this.2.trans ?_⟩
      rw [hout]
      refine Perm.trans ?_ (hperm.append_right acc)
      simp only [List.cons_append]
      exact List.perm_middle

/-- **`heapq.Sort`**: the result is a permutation of the input, in non-decreasing order -/
theorem sort_spec {cfg : Cfg} (hs : CfgStd cfg) {lt : α → α → Bool} (ho : OrderOK lt) (vs : List α) :
    (sort cfg lt vs).Pairwise (fun a b => lt b a = false) ∧ (sort cfg lt vs).Perm vs := by
  simp only [sort]
  split
  · rename_i hlt
    refine ⟨?_, Perm.refl _⟩
    match vs, hlt with
    | [], _ => exact List.Pairwise.nil
    | [a], _ => exact List.pairwise_singleton _ _
    | _ :: _ :: _, h => exact absurd h (by simp)
  · have hh : HeapFrom (fun a b => lt b a) (newWithData cfg (fun a b => lt b a) vs) 0 :=
      heapify_heap hs.toCfgLayout ho.flip _ _ (hs.start_ge _)
    have hl : (newWithData cfg (fun a b => lt b a) vs).len = vs.length :=
      (newWithData_perm hs.toCfgLayout.left_gt _ vs).length_eq
    have := sortLoop_spec hs ho.flip vs.length _ [] hh (by omega) List.Pairwise.nil
      (fun a ha => by simp at ha)
    refine ⟨this.1, ?_⟩
    have h2 := this.2
    rw [List.append_nil] at h2
    exact h2.trans (newWithData_perm hs.toCfgLayout.left_gt _ vs)

/-! ## `Add` of an element that is not smaller than any held one; removal of the last slot

Both hold for the pinned configuration (whatever `parent` is, as long as `parent i < i`): F1 and F2 are
not reachable through these two operations. -/

/-- `Add v` when no held element is greater than `v`: `pushUp` stops at once (its one comparison is with
a held element, since `parent n < n`), the array is simply extended -/
theorem add_eq_of_max {cfg : Cfg} (hc : CfgOK cfg) (lt : α → α → Bool) (h : H α) (v : α)
    (hmax : ∀ x ∈ h.data, lt v x = false) :
    add cfg lt h v = (({ h with data := h.data ++ [v] } : H α).report h.len, h.len) := by
  simp only [add, pushUp]
  by_cases h0 : h.len > 0
  · rw [if_pos h0]
    have hp : cfg.parent h.len < h.len := hc.parent_lt _ h0
    have hg : (({ h with data := h.data ++ [v] } : H α).report h.len).get (cfg.parent h.len) = h.get (cfg.parent h.len) := by
      have hp' : cfg.parent h.len < h.data.length := hp
      simp [H.get, List.getD_eq_getElem?_getD, List.getElem?_append_left hp']
    have hv : (({ h with data := h.data ++ [v] } : H α).report h.len).get h.len = v := by
      simp [H.get, H.len, List.getD_eq_getElem?_getD]
    rw [hg, hv, hmax _ (get_mem h _ hp)]
    rfl
  · rw [if_neg h0]

/-- … and heap order (standard child layout) is kept -/
theorem add_max_heap {cfg : Cfg} (hc : CfgOK cfg) {lt : α → α → Bool} (h : H α) (v : α)
    (hmax : ∀ x ∈ h.data, lt v x = false) (hh : HeapFrom lt h 0) : HeapFrom lt (add cfg lt h v).1 0 := by
  rw [add_eq_of_max hc lt h v hmax]
  set h0 : H α := { h with data := h.data ++ [v] } with hh0
  have hlen0 : h0.len = h.len + 1 := by simp [hh0, H.len]
  have hget0 : ∀ k, k < h.len → h0.get k = h.get k := by
    intro k hk; simp only [H.len] at hk
    simp [hh0, H.get, List.getD_eq_getElem?_getD, List.getElem?_append_left hk]
  have hgetn : h0.get h.len = v := by
    simp [hh0, H.get, H.len, List.getD_eq_getElem?_getD]
  intro k _ c hc' hcl
  simp only [report_len, hlen0] at hcl
  simp only [report_get]
  by_cases hcn : c = h.len
  · rw [hcn, hgetn, hget0 k (by omega)]
    exact hmax _ (get_mem h k (by omega))
  · rw [hget0 c (by omega), hget0 k (by omega)]
    exact hh k (Nat.zero_le _) c hc' (by omega)

/-- `pop(i)` of the **last** slot (`i = len - 1`): no element moves, the array is cut; holds for every
configuration with `left i > i` (with or without sift-up: the guard `i < n` fails) -/
theorem pop_last_data {cfg : Cfg} (hl : ∀ i, i < cfg.left i) (lt : α → α → Bool) (h : H α) (i : Nat)
    (hi : i + 1 = h.len) : (pop cfg lt h i).1.data = h.data.take i := by
  rw [pop_eq]
  by_cases hn : h.len - 1 = 0
  · rw [if_pos hn]
    have : i = 0 := by omega
    simp [this]
  · rw [if_neg hn]
    have hcl : (popCut h i).len = i := by rw [popCut_len]; omega
    have hpd : ∀ f, pushDown cfg lt f (popCut h i) i = (popCut h i, i) := by
      intro f
      cases f with
      | zero => rfl
      | succ f =>
        rw [pushDown_succ, if_neg]
        have := hl i; omega
    have hii : h.len - 1 = i := by omega
    have hdata : (popCut h i).data = h.data.take i := by
      have hilt : i < h.data.length := by simp only [H.len] at hi; omega
      rw [popCut_data, hii, swap_data]
      apply List.ext_getElem?
      intro k
      simp only [List.getElem?_take]
      split
      · rename_i hk
        rw [List.getElem?_set_ne (by omega), List.getElem?_set_ne (by omega)]
      · rfl
    simp only [hpd, hcl, Nat.lt_irrefl, decide_false, Bool.and_false, Bool.false_eq_true, if_false]
    exact hdata

/-- heap order survives cutting the array -/
theorem heapFrom_take {lt : α → α → Bool} (h h' : H α) (n : Nat) (hd : h'.data = h.data.take n)
    (hh : HeapFrom lt h 0) : HeapFrom lt h' 0 := by
  have hlen : h'.len ≤ n ∧ h'.len ≤ h.len := by
    simp only [H.len, hd, List.length_take]; omega
  have hget : ∀ k, k < h'.len → h'.get k = h.get k := by
    intro k hk
    have : k < n := by omega
    simp [H.get, hd, List.getD_eq_getElem?_getD, this]
  intro k _ c hc hcl
  rw [hget c hcl, hget k (by omega)]
  exact hh k (Nat.zero_le _) c hc (by omega)

/-- **removing the last slot preserves heap order** -/
theorem pop_last_heap {cfg : Cfg} (hl : ∀ i, i < cfg.left i) {lt : α → α → Bool} (h : H α) (i : Nat)
    (hi : i + 1 = h.len) (hh : HeapFrom lt h 0) : HeapFrom lt (pop cfg lt h i).1 0 :=
  heapFrom_take h _ i (pop_last_data hl lt h i hi) hh

/-- **removing a slot whose parent is the root (or the root itself) preserves heap order** without any
sift-up: the element moved into slot `i ≤ 2` comes from the array, so it is not smaller than the root, its
new parent; `pushDown(i)` repairs the rest.  Hence F2 needs an interior removal at an offset `≥ 3`. -/
theorem pop_shallow_heap {cfg : Cfg} (hs : CfgStd cfg) {lt : α → α → Bool} (ho : OrderOK lt) (h : H α)
    (i : Nat) (hi : i < h.len) (hsh : i ≤ 2) (hh : HeapFrom lt h 0) : HeapFrom lt (pop cfg lt h i).1 0 := by
  by_cases hlast : i + 1 = h.len
  · exact pop_last_heap hs.toCfgLayout.left_gt h i hlast hh
  rw [pop_eq]
  by_cases hn : h.len - 1 = 0
  · rw [if_pos hn]; intro k _ c _ hcl; simp [H.len] at hcl
  rw [if_neg hn]
  simp only [hs.noSiftUp, Bool.false_and, Bool.false_eq_true, if_false]
  have hl : h.len - 1 < h.len := by omega
  have h3len : (popCut h i).len = h.len - 1 := popCut_len h i
  have h3get : ∀ k, k < h.len - 1 → (popCut h i).get k = if k = i then h.get (h.len - 1) else h.get k := by
    intro k hk
    rw [popCut_get h i k hk, get_swap h k hi hl, if_neg (by omega)]
  have h2lev : ∀ p j c, (j = 2 * p + 1 ∨ j = 2 * p + 2) → (c = 2 * j + 1 ∨ c = 2 * j + 2) → c < h.len →
      lt (h.get c) (h.get p) = false := fun p j c hj hc hcl =>
    ho.trans (hh p (Nat.zero_le _) j hj (by omega)) (hh j (Nat.zero_le _) c hc hcl)
  have hA : Almost lt (popCut h i) 0 i := by
    refine ⟨?_, ?_⟩
    · intro k _ hki c hc hcl
      rw [h3len] at hcl
      by_cases hci : c = i
      · have hk : k = 0 := by omega
        rw [h3get c hcl, if_pos hci, h3get k (by omega), if_neg hki, hk]
        exact heap_root_min ho h hh (h.len - 1) hl
      · rw [h3get c hcl, if_neg hci, h3get k (by omega), if_neg hki]
        exact hh k (Nat.zero_le _) c hc (by omega)
    · intro p _ hp c hc hcl
      rw [h3len] at hcl
      rw [h3get c hcl, if_neg (by omega), h3get p (by omega), if_neg (by omega)]
      exact h2lev p i c hp hc (by omega)
  exact pushDown_heap hs.toCfgLayout ho (popCut h i).len (popCut h i) i 0 (by omega) (Nat.zero_le _) hA

/-! ## Part 4: the repaired configuration (`parent i = (i-1)/2`, `pop` sifts up) -/

structure CfgRepaired (cfg : Cfg) : Prop extends CfgLayout cfg where
  parent_eq : ∀ i, cfg.parent i = (i - 1) / 2
  siftUp : cfg.popSiftsUp = true

theorem CfgRepaired.ok {cfg : Cfg} (hr : CfgRepaired cfg) : CfgOK cfg :=
  ⟨fun i hi => by rw [hr.parent_eq]; omega, hr.toCfgLayout.left_gt⟩

/-- `pushUp`'s loop invariant: every parent/child pair is in order except possibly the pair above
`j`, and the children of `j` are not smaller than `j`'s parent -/
def UpAlmost (lt : α → α → Bool) (h : H α) (j : Nat) : Prop :=
  (∀ k c, (c = 2 * k + 1 ∨ c = 2 * k + 2) → c < h.len → c ≠ j → lt (h.get c) (h.get k) = false) ∧
  (∀ c, (c = 2 * j + 1 ∨ c = 2 * j + 2) → c < h.len → 0 < j → lt (h.get c) (h.get ((j - 1) / 2)) = false)

theorem heap_upAlmost {lt : α → α → Bool} (ho : OrderOK lt) (h : H α) (hh : HeapFrom lt h 0) (j : Nat) :
    UpAlmost lt h j := by
  refine ⟨fun k c hc hcl _ => hh k (Nat.zero_le _) c hc hcl, fun c hc hcl hj => ?_⟩
  have h1 := hh ((j - 1) / 2) (Nat.zero_le _) j (by omega) (by omega)
  have h2 := hh j (Nat.zero_le _) c hc hcl
  exact ho.trans h1 h2

theorem upAlmost_swap {lt : α → α → Bool} (ho : OrderOK lt) (h : H α) (j : Nat) (hj0 : 0 < j)
    (hj : j < h.len) (hA : UpAlmost lt h j) (hlt : lt (h.get j) (h.get ((j - 1) / 2)) = true) :
    UpAlmost lt (h.swap j ((j - 1) / 2)) ((j - 1) / 2) := by
  have hp : (j - 1) / 2 < h.len := by omega
  have gs : ∀ x, (h.swap j ((j - 1) / 2)).get x =
      if x = (j - 1) / 2 then h.get j else if x = j then h.get ((j - 1) / 2) else h.get x :=
    fun x => get_swap h x hj hp
  have hpj := ho.asymm hlt
  refine ⟨?_, ?_⟩
  · intro k c hc hcl hcp
    rw [swap_len] at hcl
    by_cases hkp : k = (j - 1) / 2
    · rw [gs k, if_pos hkp]
      by_cases hcj : c = j
      · rw [gs c, if_neg hcp, if_pos hcj]; exact hpj
      · rw [gs c, if_neg hcp, if_neg hcj]
        exact ho.trans hpj (hA.1 _ c (hkp ▸ hc) hcl hcj)
    · by_cases hkj : k = j
      · rw [gs k, if_neg hkp, if_pos hkj, gs c, if_neg hcp, if_neg (by omega)]
        exact hA.2 c (hkj ▸ hc) hcl hj0
      · have hcj : c ≠ j := by omega
        rw [gs k, if_neg hkp, if_neg hkj, gs c, if_neg hcp, if_neg hcj]
        exact hA.1 k c hc hcl hcj
  · intro c hc hcl hp0
    rw [swap_len] at hcl
    have hpp : lt (h.get ((j - 1) / 2)) (h.get (((j - 1) / 2 - 1) / 2)) = false :=
      hA.1 _ _ (by omega) hp (by omega)
    rw [gs (((j - 1) / 2 - 1) / 2), if_neg (by omega), if_neg (by omega)]
    by_cases hcj : c = j
    · rw [gs c, if_neg (by omega), if_pos hcj]; exact hpp
    · rw [gs c, if_neg (by omega), if_neg hcj]
      exact ho.trans hpp (hA.1 _ c hc hcl hcj)

/-- **`pushUp` with the correct parent index restores heap order** -/
theorem pushUp_heap {cfg : Cfg} (hr : CfgRepaired cfg) {lt : α → α → Bool} (ho : OrderOK lt) :
    ∀ (fuel : Nat) (h : H α) (j : Nat), j < fuel → j < h.len → UpAlmost lt h j →
      HeapFrom lt (pushUp cfg lt fuel h j).1 0 := by
  intro fuel
  induction fuel with
  | zero => intro h j hf; omega
  | succ f ih =>
    intro h j hf hj hA
    simp only [pushUp]
    by_cases h0 : j > 0
    · rw [if_pos h0, hr.parent_eq]
      cases hc : lt (h.get j) (h.get ((j - 1) / 2)) with
      | false =>
        simp only [Bool.not_false, if_true]
        intro k _ c hcc hcl
        by_cases hcj : c = j
        · have : k = (j - 1) / 2 := by omega
          rw [hcj, this]; exact hc
        · exact hA.1 k c hcc hcl hcj
      | true =>
        simp only [Bool.not_true, Bool.false_eq_true, if_false]
        exact ih _ _ (by omega) (by rw [swap_len]; omega) (upAlmost_swap ho h j h0 hj hA hc)
    · rw [if_neg h0]
      intro k _ c hcc hcl
      exact hA.1 k c hcc hcl (by omega)

/-- `Add` preserves heap order (repaired configuration) -/
theorem add_heap {cfg : Cfg} (hr : CfgRepaired cfg) {lt : α → α → Bool} (ho : OrderOK lt) (h : H α)
    (v : α) (hh : HeapFrom lt h 0) : HeapFrom lt (add cfg lt h v).1 0 := by
  simp only [add]
  set h0 : H α := { h with data := h.data ++ [v] } with hh0
  have hlen0 : h0.len = h.len + 1 := by simp [hh0, H.len]
  have hget0 : ∀ k, k < h.len → h0.get k = h.get k := by
    intro k hk; simp only [H.len] at hk
    simp [hh0, H.get, List.getD_eq_getElem?_getD, List.getElem?_append_left hk]
  refine pushUp_heap hr ho _ _ _ (Nat.lt_succ_self _) (by rw [report_len, hlen0]; omega) ⟨?_, ?_⟩
  · intro k c hc hcl hcn
    rw [report_len, hlen0] at hcl
    rw [report_get, report_get, hget0 c (by omega), hget0 k (by omega)]
    exact hh k (Nat.zero_le _) c hc (by omega)
  · intro c hc hcl _
    rw [report_len, hlen0] at hcl; omega

theorem pushDown_noop {cfg : Cfg} (hs : CfgLayout cfg) (lt : α → α → Bool) (h : H α) (i : Nat)
    (hN : NodeOK lt h i) : ∀ fuel, pushDown cfg lt fuel h i = (h, i) := by
  intro fuel
  cases fuel with
  | zero => rfl
  | succ f =>
    rw [pushDown_succ, hs.left_eq]
    by_cases hlc : 2 * i + 1 < h.len
    · rw [if_pos hlc]
      have hm : minIdx cfg lt h i = i := by
        simp only [minIdx, hs.left_eq, hs.right_eq, hN _ (Or.inl rfl) hlc, Bool.false_eq_true, if_false]
        by_cases hrc : 2 * i + 1 + 1 < h.len
        · simp [hN _ (Or.inr rfl) hrc]
        · simp [hrc]
      rw [if_pos hm]
    · rw [if_neg hlc]

/-- **`pop(i)` for every `i` preserves heap order** (repaired configuration: sift down, and sift up
if the element did not move) -/
theorem pop_heap {cfg : Cfg} (hr : CfgRepaired cfg) {lt : α → α → Bool} (ho : OrderOK lt) (h : H α)
    (i : Nat) (hi : i < h.len) (hh : HeapFrom lt h 0) : HeapFrom lt (pop cfg lt h i).1 0 := by
  rw [pop_eq]
  by_cases hn : h.len - 1 = 0
  · rw [if_pos hn]; intro k _ c _ hcl; simp [H.len] at hcl
  rw [if_neg hn]
  have hl : h.len - 1 < h.len := by omega
  have h3len : (popCut h i).len = h.len - 1 := popCut_len h i
  have h3get : ∀ k, k < h.len - 1 → (popCut h i).get k = if k = i then h.get (h.len - 1) else h.get k := by
    intro k hk
    rw [popCut_get h i k hk, get_swap h k hi hl, if_neg (by omega)]
  -- heap order of `h` through two levels
  have h2lev : ∀ p j c, (j = 2 * p + 1 ∨ j = 2 * p + 2) → (c = 2 * j + 1 ∨ c = 2 * j + 2) → c < h.len →
      lt (h.get c) (h.get p) = false := fun p j c hj hc hcl =>
    ho.trans (hh p (Nat.zero_le _) j hj (by omega)) (hh j (Nat.zero_le _) c hc hcl)
  by_cases hB : 0 < i ∧ i < h.len - 1 ∧ lt ((popCut h i).get i) ((popCut h i).get ((i - 1) / 2)) = true
  · -- the moved element is smaller than its new parent: `pushDown` does nothing, `pushUp` repairs
    obtain ⟨hi0, hin, hlt⟩ := hB
    have hlt' : lt (h.get (h.len - 1)) (h.get ((i - 1) / 2)) = true := by
      rw [h3get i hin, if_pos rfl, h3get _ (by omega), if_neg (by omega)] at hlt; exact hlt
    have hN : NodeOK lt (popCut h i) i := by
      intro c hc hcl
      rw [h3len] at hcl
      rw [h3get c hcl, if_neg (by omega), h3get i hin, if_pos rfl]
      exact ho.trans (ho.asymm hlt') (h2lev ((i - 1) / 2) i c (by omega) hc (by omega))
    rw [pushDown_noop hr.toCfgLayout lt _ i hN]
    simp only [hr.siftUp, Bool.true_and, decide_true, h3len, hin]
    simp only [if_true]
    refine pushUp_heap hr ho _ _ _ (Nat.lt_succ_self _) (by rw [h3len]; exact hin) ⟨?_, ?_⟩
    · intro k c hc hcl hci
      by_cases hki : k = i
      · subst hki; exact hN c hc hcl
      · rw [h3len] at hcl
        rw [h3get c hcl, if_neg hci, h3get k (by omega), if_neg hki]
        exact hh k (Nat.zero_le _) c hc (by omega)
    · intro c hc hcl _
      rw [h3len] at hcl
      rw [h3get c hcl, if_neg (by omega), h3get _ (by omega), if_neg (by omega)]
      exact h2lev ((i - 1) / 2) i c (by omega) hc (by omega)
  · -- otherwise `pushDown` restores heap order; a following `pushUp` on a heap keeps it
    have hA : Almost lt (popCut h i) 0 i := by
      refine ⟨?_, ?_⟩
      · intro k _ hki c hc hcl
        rw [h3len] at hcl
        by_cases hci : c = i
        · have hk : k = (i - 1) / 2 := by omega
          have : ¬ lt ((popCut h i).get i) ((popCut h i).get ((i - 1) / 2)) = true :=
            fun e => hB ⟨by omega, by omega, e⟩
          rw [hci, hk]
          exact Bool.not_eq_true _ ▸ this
        · rw [h3get c hcl, if_neg hci, h3get k (by omega), if_neg hki]
          exact hh k (Nat.zero_le _) c hc (by omega)
      · intro p _ hp c hc hcl
        rw [h3len] at hcl
        rw [h3get c hcl, if_neg (by omega), h3get p (by omega), if_neg (by omega)]
        exact h2lev p i c hp hc (by omega)
    have h4 := pushDown_heap hr.toCfgLayout ho (popCut h i).len (popCut h i) i 0 (by omega) (Nat.zero_le _) hA
    simp only
    split
    · rename_i hu
      simp only [Bool.and_eq_true, decide_eq_true_eq] at hu
      have hlen4 := pushDown_len hr.toCfgLayout.left_gt lt (popCut h i).len (popCut h i) i
      exact pushUp_heap hr ho _ _ _ (Nat.lt_succ_self _) (by rw [hlen4]; exact hu.2.2)
        (heap_upAlmost ho _ h4 i)
    · exact h4

end MdsVerif.Proofs.Heapq
