import MdsVerif.Model.Heapq
import Mathlib.Data.List.Nodup
/-!
# Helper lemmas about the heap model (`Model/Heapq.lean`) for C05 and C06

Part 1: bookkeeping (`swap`, `report`), induction principles for the loops, conservation
(`List.Perm`).  Part 2: position reports (C06).  Part 3: heap order for the standard child
layout (`left i = 2i+1`, `right lc = lc+1`), Floyd heapify, `pop 0`, root minimality, `Sort`.
-/
namespace MdsVerif.Proofs.Heapq
open MdsVerif.Model.Heapq
open List (Perm Nodup)

variable {α : Type} [Inhabited α]

/-- The class of configurations for which every index the loops touch is in range:
`pushUp` moves strictly towards the root, `pushDown` strictly away from it.  Nothing is assumed
about `right`, `heapifyStart` or `popSiftsUp`. -/
structure CfgOK (cfg : Cfg) : Prop where
  parent_lt : ∀ i, 0 < i → cfg.parent i < i
  left_gt : ∀ i, i < cfg.left i

/-! ## bookkeeping -/

@[simp] theorem report_data (h : H α) (i : Nat) : (h.report i).data = h.data := rfl
@[simp] theorem report_len (h : H α) (i : Nat) : (h.report i).len = h.len := rfl
@[simp] theorem report_get (h : H α) (i k : Nat) : (h.report i).get k = h.get k := rfl
@[simp] theorem report_log (h : H α) (i : Nat) : (h.report i).log = (h.get i, i) :: h.log := rfl

theorem get_eq (h : H α) (i : Nat) (hi : i < h.len) : h.get i = h.data[i]'hi := by
  simp only [H.len] at hi
  simp [H.get, List.getD_eq_getElem?_getD, hi]

theorem get_mem (h : H α) (i : Nat) (hi : i < h.len) : h.get i ∈ h.data := by
  rw [get_eq h i hi]; exact List.getElem_mem _

theorem mem_iff_get (h : H α) (x : α) : x ∈ h.data ↔ ∃ i, i < h.len ∧ h.get i = x := by
  constructor
  · intro hx
    obtain ⟨i, hi, rfl⟩ := List.getElem_of_mem hx
    exact ⟨i, hi, get_eq h i hi⟩
  · rintro ⟨i, hi, rfl⟩; exact get_mem h i hi

theorem swap_data (h : H α) (i j : Nat) :
    (h.swap i j).data = (h.data.set i (h.get j)).set j (h.get i) := rfl

@[simp] theorem swap_len (h : H α) (i j : Nat) : (h.swap i j).len = h.len := by
  simp [H.len, swap_data]

theorem swap_log (h : H α) (i j : Nat) :
    (h.swap i j).log = ((h.swap i j).get j, j) :: ((h.swap i j).get i, i) :: h.log := rfl

theorem swap_perm (h : H α) {i j : Nat} (hi : i < h.len) (hj : j < h.len) :
    (h.swap i j).data.Perm h.data := by
  rw [swap_data, get_eq h i hi, get_eq h j hj]
  exact List.set_set_perm hi hj

theorem get_swap (h : H α) {i j : Nat} (k : Nat) (hi : i < h.len) (hj : j < h.len) :
    (h.swap i j).get k = if k = j then h.get i else if k = i then h.get j else h.get k := by
  simp only [H.len] at hi hj
  simp only [H.get, swap_data, List.getD_eq_getElem?_getD, List.getElem?_set, List.length_set]
  by_cases h1 : j = k
  · subst h1; simp [hj]
  · by_cases h2 : i = k
    · subst h2; simp [h1, hi, Ne.symm h1]
    · simp [h1, h2, Ne.symm h1, Ne.symm h2]

theorem nodup_get_inj (h : H α) (hn : h.data.Nodup) {i j : Nat} (hi : i < h.len) (hj : j < h.len)
    (e : h.get i = h.get j) : i = j := by
  rw [get_eq h i hi, get_eq h j hj] at e
  exact (hn.getElem_inj_iff).mp e

/-! ## induction principles: every loop is a sequence of in-range swaps (and reports) -/

/-- a predicate on heaps that survives every in-range swap -/
def SwapClosed (P : H α → Prop) : Prop :=
  ∀ (h : H α) (i j : Nat), i < h.len → j < h.len → P h → P (h.swap i j)

theorem pushUp_ind {cfg : Cfg} (hc : CfgOK cfg) (lt : α → α → Bool) {P : H α → Prop}
    (hP : SwapClosed P) :
    ∀ (fuel : Nat) (h : H α) (i : Nat), i < h.len → P h → P (pushUp cfg lt fuel h i).1 := by
  intro fuel
  induction fuel with
  | zero => intro h i _ hp; exact hp
  | succ f ih =>
    intro h i hi hp
    simp only [pushUp]
    split
    · rename_i h0
      split
      · exact hp
      · have hpar : cfg.parent i < h.len := Nat.lt_trans (hc.parent_lt i h0) hi
        exact ih _ _ (by simpa using hpar) (hP h i _ hi hpar hp)
    · exact hp

/-- `pushUp` keeps the length -/
theorem pushUp_len {cfg : Cfg} (hc : CfgOK cfg) (lt : α → α → Bool) (fuel : Nat) (h : H α) (i : Nat)
    (hi : i < h.len) : (pushUp cfg lt fuel h i).1.len = h.len :=
  pushUp_ind hc lt (P := fun h' => h'.len = h.len) (fun _ _ _ _ _ e => by simpa using e) fuel h i hi rfl

/-- the index `pushUp` returns is in range and holds the element it was started on -/
theorem pushUp_idx {cfg : Cfg} (hc : CfgOK cfg) (lt : α → α → Bool) :
    ∀ (fuel : Nat) (h : H α) (i : Nat), i < h.len →
      (pushUp cfg lt fuel h i).2 < h.len ∧
      (pushUp cfg lt fuel h i).1.get (pushUp cfg lt fuel h i).2 = h.get i := by
  intro fuel
  induction fuel with
  | zero => intro h i hi; exact ⟨hi, rfl⟩
  | succ f ih =>
    intro h i hi
    simp only [pushUp]
    split
    · rename_i h0
      split
      · exact ⟨hi, rfl⟩
      · have hpar : cfg.parent i < h.len := Nat.lt_trans (hc.parent_lt i h0) hi
        have := ih (h.swap i (cfg.parent i)) (cfg.parent i) (by simpa using hpar)
        rw [swap_len, get_swap h _ hi hpar] at this
        simpa using this
    · exact ⟨hi, rfl⟩

/-- the index `pushDown` selects at node `i`: `i` itself or one of its children -/
def minIdx (cfg : Cfg) (lt : α → α → Bool) (h : H α) (i : Nat) : Nat :=
  let lc := cfg.left i
  let min := if lt (h.get lc) (h.get i) then lc else i
  let rc := cfg.right lc
  if rc < h.len && lt (h.get rc) (h.get min) then rc else min

theorem pushDown_succ (cfg : Cfg) (lt : α → α → Bool) (f : Nat) (h : H α) (i : Nat) :
    pushDown cfg lt (f + 1) h i =
      if cfg.left i < h.len then
        (if minIdx cfg lt h i = i then (h, i)
         else pushDown cfg lt f (h.swap i (minIdx cfg lt h i)) (minIdx cfg lt h i))
      else (h, i) := rfl

theorem minIdx_lt (cfg : Cfg) (lt : α → α → Bool) (h : H α) (i : Nat) (hlc : cfg.left i < h.len)
    (hi : i < h.len) : minIdx cfg lt h i < h.len := by
  simp only [minIdx]
  by_cases hr : (decide (cfg.right (cfg.left i) < h.len) &&
      lt (h.get (cfg.right (cfg.left i))) (h.get (if lt (h.get (cfg.left i)) (h.get i) then cfg.left i else i))) = true
  · rw [if_pos hr]; simp only [Bool.and_eq_true, decide_eq_true_eq] at hr; exact hr.1
  · rw [if_neg hr]; split
    · exact hlc
    · exact hi

theorem pushDown_ind {cfg : Cfg} (hc : CfgOK cfg) (lt : α → α → Bool) {P : H α → Prop}
    (hP : SwapClosed P) :
    ∀ (fuel : Nat) (h : H α) (i : Nat), P h → P (pushDown cfg lt fuel h i).1 := by
  intro fuel
  induction fuel with
  | zero => intro h i hp; exact hp
  | succ f ih =>
    intro h i hp
    rw [pushDown_succ]
    split
    · rename_i hlc
      have hi : i < h.len := Nat.lt_trans (hc.left_gt i) hlc
      split
      · exact hp
      · exact ih _ _ (hP h i _ hi (minIdx_lt cfg lt h i hlc hi) hp)
    · exact hp

theorem pushDown_len {cfg : Cfg} (hc : CfgOK cfg) (lt : α → α → Bool) (fuel : Nat) (h : H α) (i : Nat) :
    (pushDown cfg lt fuel h i).1.len = h.len :=
  pushDown_ind hc lt (P := fun h' => h'.len = h.len) (fun _ _ _ _ _ e => by simpa using e) fuel h i rfl

omit [Inhabited α] in
theorem downFrom_ind {P : H α → Prop} (body : H α → Nat → H α) (hb : ∀ h i, P h → P (body h i)) :
    ∀ (n : Nat) (h : H α), P h → P (downFrom body n h) := by
  intro n
  induction n with
  | zero => intro h hp; exact hb _ _ hp
  | succ n ih => intro h hp; exact ih _ (hb _ _ hp)

omit [Inhabited α] in
/-- `downFrom` with an index-dependent loop invariant: `P (i+1)` before `body i`, `P i` after -/
theorem downFrom_ind' {P : Nat → H α → Prop} (body : H α → Nat → H α) :
    ∀ (n : Nat) (h : H α), P (n + 1) h → (∀ h i, i ≤ n → P (i + 1) h → P i (body h i)) →
      P 0 (downFrom body n h) := by
  intro n
  induction n with
  | zero => intro h hp hb; exact hb _ _ (Nat.le_refl _) hp
  | succ n ih =>
    intro h hp hb
    exact ih _ (hb _ _ (Nat.le_refl _) hp) (fun h i hi => hb h i (Nat.le_succ_of_le hi))

/-! ## `pop`, decomposed -/

/-- state of `pop(i)` just before its `pushDown(i)`: last element moved into slot `i` (reported),
array cut to `n = len - 1` -/
def popCut (h : H α) (i : Nat) : H α :=
  let n := h.len - 1
  let h1 : H α := { h with data := (h.data.set i (h.get n)).set n (h.get i) }
  let h2 := h1.report i
  { h2 with data := h2.data.take n }

theorem pop_eq (cfg : Cfg) (lt : α → α → Bool) (h : H α) (i : Nat) :
    pop cfg lt h i =
      if h.len - 1 = 0 then ({ h with data := [] }, h.get i)
      else
        let r := pushDown cfg lt (popCut h i).len (popCut h i) i
        if cfg.popSiftsUp && r.2 = i then ((pushUp cfg lt (i + 1) r.1 i).1, h.get i)
        else (r.1, h.get i) := rfl

theorem pop_out (cfg : Cfg) (lt : α → α → Bool) (h : H α) (i : Nat) : (pop cfg lt h i).2 = h.get i := by
  rw [pop_eq]; split
  · rfl
  · simp only; split <;> rfl

theorem popCut_data (h : H α) (i : Nat) : (popCut h i).data = ((h.swap i (h.len - 1)).data).take (h.len - 1) := rfl

theorem popCut_log (h : H α) (i : Nat) :
    (popCut h i).log = ((h.swap i (h.len - 1)).get i, i) :: h.log := rfl

theorem popCut_len (h : H α) (i : Nat) : (popCut h i).len = h.len - 1 := by
  have : (h.swap i (h.len - 1)).data.length = h.len := swap_len h i (h.len - 1)
  show ((h.swap i (h.len - 1)).data.take (h.len - 1)).length = h.len - 1
  rw [List.length_take, this]; omega

theorem popCut_get (h : H α) (i k : Nat) (hk : k < h.len - 1) :
    (popCut h i).get k = (h.swap i (h.len - 1)).get k := by
  simp [H.get, popCut_data, List.getD_eq_getElem?_getD, hk]

/-- the removed element followed by the cut array is a permutation of the array -/
theorem popCut_perm (h : H α) (i : Nat) (hi : i < h.len) :
    (h.get i :: (popCut h i).data).Perm h.data := by
  have hn : h.len - 1 < h.len := by omega
  have hp := swap_perm h hi hn
  refine Perm.trans ?_ hp
  have hlen : (h.swap i (h.len - 1)).data.length = h.len := swap_len h i _
  have hlast : (h.swap i (h.len - 1)).get (h.len - 1) = h.get i := by
    rw [get_swap h _ hi hn]; simp
  rw [get_eq _ _ (by rw [swap_len]; exact hn)] at hlast
  rw [popCut_data, ← hlast]
  have : (h.swap i (h.len - 1)).data =
      (h.swap i (h.len - 1)).data.take (h.len - 1) ++ [(h.swap i (h.len - 1)).data[h.len - 1]'(by rw [hlen]; exact hn)] := by
    rw [List.take_append_getElem, List.take_of_length_le (by rw [hlen]; omega)]
  conv_rhs => rw [this]
  exact (List.perm_append_singleton _ _).symm

/-- `pop` = cut, then in-range swaps (for `popSiftsUp = true` only when `i` is not the last index:
the model's `pushUp(i)` would otherwise start outside the array — in Go an index panic) -/
theorem pop_ind {cfg : Cfg} (hc : CfgOK cfg) (lt : α → α → Bool) {P : H α → Prop} (hP : SwapClosed P)
    (h : H α) (i : Nat) (hn : h.len - 1 ≠ 0) (hs : cfg.popSiftsUp = true → i < h.len - 1)
    (hp : P (popCut h i)) : P (pop cfg lt h i).1 := by
  rw [pop_eq, if_neg hn]
  simp only
  have h4 := pushDown_ind hc lt hP (popCut h i).len (popCut h i) i hp
  split
  · rename_i hu
    simp only [Bool.and_eq_true, decide_eq_true_eq] at hu
    apply pushUp_ind hc lt hP _ _ _ _ h4
    rw [pushDown_len hc, popCut_len]; exact hs hu.1
  · exact h4

/-! ## conservation -/

theorem permClosed (d : List α) : SwapClosed (fun h : H α => h.data.Perm d) :=
  fun h _ _ hi hj hp => (swap_perm h hi hj).trans hp

theorem pushUp_perm {cfg : Cfg} (hc : CfgOK cfg) (lt : α → α → Bool) (fuel : Nat) (h : H α) (i : Nat)
    (hi : i < h.len) : (pushUp cfg lt fuel h i).1.data.Perm h.data :=
  pushUp_ind hc lt (permClosed h.data) fuel h i hi (Perm.refl _)

theorem pushDown_perm {cfg : Cfg} (hc : CfgOK cfg) (lt : α → α → Bool) (fuel : Nat) (h : H α) (i : Nat) :
    (pushDown cfg lt fuel h i).1.data.Perm h.data :=
  pushDown_ind hc lt (permClosed h.data) fuel h i (Perm.refl _)

theorem heapify_perm {cfg : Cfg} (hc : CfgOK cfg) (lt : α → α → Bool) (n : Nat) (h : H α) :
    (downFrom (fun h i => (pushDown cfg lt h.len h i).1) n h).data.Perm h.data :=
  downFrom_ind (P := fun h' => h'.data.Perm h.data) _
    (fun h' i hp => (pushDown_perm hc lt _ h' i).trans hp) n h (Perm.refl _)

theorem newWithData_perm {cfg : Cfg} (hc : CfgOK cfg) (lt : α → α → Bool) (vs : List α) :
    (newWithData cfg lt vs).data.Perm vs := heapify_perm hc lt _ _

theorem reorder_perm {cfg : Cfg} (hc : CfgOK cfg) (lt : α → α → Bool) (h : H α) :
    (reorder cfg lt h).data.Perm h.data := heapify_perm hc lt _ _

theorem set_perm {cfg : Cfg} (hc : CfgOK cfg) (lt : α → α → Bool) (h : H α) (vs : List α) :
    (set cfg lt h vs).data.Perm vs := by
  simp only [Model.Heapq.set]
  split
  · exact Perm.refl _
  · exact downFrom_ind (P := fun h' => h'.data.Perm vs) _
      (fun h' i hp => (pushDown_perm hc lt _ (h'.report i) i).trans hp) _ _ (Perm.refl _)

theorem add_perm {cfg : Cfg} (hc : CfgOK cfg) (lt : α → α → Bool) (h : H α) (v : α) :
    (add cfg lt h v).1.data.Perm (v :: h.data) := by
  simp only [add]
  refine (pushUp_perm hc lt _ _ _ ?_).trans ?_
  · simp [H.len]
  · simp only [report_data]; exact List.perm_append_singleton _ _

/-- `pop(i)` returns `data[i]`; the returned element plus what is left is what was there -/
theorem pop_perm {cfg : Cfg} (hc : CfgOK cfg) (lt : α → α → Bool) (h : H α) (i : Nat) (hi : i < h.len)
    (hs : cfg.popSiftsUp = true → i + 1 < h.len) :
    ((pop cfg lt h i).2 :: (pop cfg lt h i).1.data).Perm h.data := by
  rw [pop_out]
  by_cases hn : h.len - 1 = 0
  · rw [pop_eq, if_pos hn]
    simp only
    have h1 : h.data.length = 1 := by simp only [H.len] at hi hn; omega
    have h0 : i = 0 := by simp only [H.len] at hi; omega
    subst h0
    obtain ⟨a, ha⟩ := List.length_eq_one_iff.mp h1
    have : h.get 0 = a := by simp [H.get, ha]
    rw [this, ha]
  · exact pop_ind hc lt (P := fun h' => (h.get i :: h'.data).Perm h.data)
      (fun h' a b ha hb hp => ((swap_perm h' ha hb).cons _).trans hp) h i hn
      (fun e => by have := hs e; omega) (popCut_perm h i hi)

end MdsVerif.Proofs.Heapq
