import MdsVerif.Proofs.Mapset
/-!
# The `mapset` register machine refines the mathematical-set machine (helper lemmas for C18)

`RelSet m s`: same nil-ness, both duplicate-free, same members.
`sim`: one step of the model, under any oracle, is accepted by the reference
when the reference is told the observed choice (`Op.resolve`), and the relation
is kept.
-/
set_option linter.unusedSectionVars false
namespace MdsVerif.Proofs.Mapset
open MdsVerif.Model.Mapset MdsVerif.Spec
open MdsVerif.Spec.MathSet (RSet insertAll ofList diff subset interAll keep)
variable {α : Type} [DecidableEq α] [Inhabited α]

structure RelSet (m : MSet α) (s : RSet α) : Prop where
  nil : m.isNone = s.isNil
  wf : (elems m).Nodup
  nd : s.mem.Nodup
  mem : ∀ x, x ∈ elems m ↔ x ∈ s.mem

def Rel (R : Regs α) (S : MathSet.Regs α) : Prop := ∀ i, RelSet (R i) (S i)

theorem RelSet.perm {m : MSet α} {s : RSet α} (h : RelSet m s) : (elems m).Perm s.mem :=
  perm_of_same_members h.wf h.nd h.mem

theorem RelSet.len_eq {m : MSet α} {s : RSet α} (h : RelSet m s) : len m = s.mem.length :=
  h.perm.length_eq

theorem RelSet.nil_iff {m : MSet α} {s : RSet α} (h : RelSet m s) : s.mem = [] ↔ len m = 0 := by
  rw [h.len_eq]; simp

theorem RelSet.idOf_eq {m : MSet α} {s : RSet α} (h : RelSet m s) : idOf m = keep s := by
  have := h.nil
  cases m <;> simp [Model.Mapset.idOf, keep] at this ⊢ <;> simp [← this]

theorem rel_init : Rel (Regs.init : Regs α) MathSet.Regs.init :=
  fun _ => ⟨rfl, List.nodup_nil, List.nodup_nil, fun _ => Iff.rfl⟩

theorem rel_set {R : Regs α} {S : MathSet.Regs α} (h : Rel R S) (r : Nat) {v : MSet α} {w : RSet α}
    (hr : RelSet v w) : Rel (R.set r v) (S.set r w) := by
  intro i
  by_cases hi : i = r <;> simp [Regs.set, MathSet.Regs.set, hi, hr, h i]

theorem rel_set_left {R : Regs α} {S : MathSet.Regs α} (h : Rel R S) (r : Nat) {v : MSet α}
    (hr : RelSet v (S r)) : Rel (R.set r v) S := by
  intro i
  by_cases hi : i = r
  · subst hi; simpa [Regs.set] using hr
  · simpa [Regs.set, hi] using h i

/-! ### the reference operations, by membership -/

theorem mem_insertAll {xs S : List α} {y : α} : y ∈ insertAll S xs ↔ y ∈ S ∨ y ∈ xs := by
  induction xs generalizing S with
  | nil => simp [insertAll]
  | cons x xs ih =>
    have : insertAll S (x :: xs) = insertAll (S.insert x) xs := rfl
    rw [this, ih, List.mem_insert_iff, List.mem_cons]
    tauto

theorem nodup_insertAll {xs S : List α} (h : S.Nodup) : (insertAll S xs).Nodup := by
  induction xs generalizing S with
  | nil => exact h
  | cons x xs ih => exact ih (List.Nodup.insert h)

theorem mem_diff {S T : List α} {y : α} : y ∈ diff S T ↔ y ∈ S ∧ y ∉ T := by
  simp [diff]

theorem subset_iff {S T : List α} : subset S T = true ↔ ∀ x, x ∈ S → x ∈ T := by
  simp [subset, List.all_eq_true]

theorem mem_interAll {S : List α} {Ss : List (List α)} {y : α} :
    y ∈ interAll (S :: Ss) ↔ ∀ T, T ∈ S :: Ss → y ∈ T := by
  simp [interAll, List.all_eq_true]

/-! ### building blocks of the simulation -/

/-- one model step is matched by the reference -/
def Sim (R : Regs α) (S : MathSet.Regs α) (op : Op α) : Prop :=
  (MathSet.step S (op.resolve (step R op).2)).2 = (step R op).2 ∧
  Rel (step R op).1 (MathSet.step S (op.resolve (step R op).2)).1

theorem sim_ctor {R : Regs α} {S : MathSet.Regs α} (h : Rel R S) (d : Nat) (r : SetRes α) (m : List α)
    (hid : r.id = .fresh) (hr : RelSet r.val ⟨false, m⟩) :
    (MathSet.fresh S d m).2 = (ctor R d r).2 ∧ Rel (ctor R d r).1 (MathSet.fresh S d m).1 := by
  refine ⟨by simp [MathSet.fresh, ctor, hid], ?_⟩
  exact rel_set h d hr

theorem relSet_addItems (items : List α) :
    RelSet (some (addItems [] items)) (⟨false, ofList items⟩ : RSet α) :=
  ⟨rfl, nodup_addItems List.nodup_nil, nodup_insertAll List.nodup_nil,
   fun x => by simp [ofList, mem_addItems, mem_insertAll]⟩

theorem out_bool {a b : Bool} (h : a = true ↔ b = true) :
    (⟨.bool a, none⟩ : Out α) = ⟨.bool b, none⟩ := by
  rw [Bool.eq_iff_iff.mpr h]

theorem relSet_clone {m : MSet α} {s : RSet α} (h : RelSet m s) : RelSet (clone m).val ⟨false, s.mem⟩ := by
  cases m with
  | none => exact ⟨rfl, List.nodup_nil, h.nd, h.mem⟩
  | some l => exact ⟨rfl, h.wf, h.nd, h.mem⟩

theorem clone_id (m : MSet α) : (clone m).id = .fresh := by cases m <;> rfl

theorem relSet_removeLoop {m : MSet α} {s : RSet α} (h : RelSet m s) (xs : List α) :
    RelSet (removeLoop m xs) ⟨s.isNil, diff s.mem xs⟩ := by
  cases m with
  | none =>
    rw [removeLoop_none]
    refine ⟨h.nil, List.nodup_nil, h.nd.filter _, fun x => ?_⟩
    have := h.mem x
    simp only [elems_none, List.not_mem_nil, false_iff] at this
    simp [mem_diff, this]
  | some l =>
    obtain ⟨l', h1, h2, h3⟩ := removeLoop_some xs l h.wf
    rw [h1]
    refine ⟨h.nil, h2, h.nd.filter _, fun x => ?_⟩
    have := h.mem x
    simp only [elems_some] at this ⊢
    rw [h3, mem_diff, this]

theorem sim_inPlace {R : Regs α} {S : MathSet.Regs α} (h : Rel R S) (r : Nat) (m' : MSet α) (w : List α)
    (hr : RelSet m' ⟨(S r).isNil, w⟩) :
    (MathSet.inPlace S r w).2 = (mutr R r (⟨m', idOf m'⟩, idOf m')).2 ∧
    Rel (mutr R r (⟨m', idOf m'⟩, idOf m')).1 (MathSet.inPlace S r w).1 := by
  have hid : idOf m' = keep (S r) := by
    have := hr.idOf_eq
    simpa [keep] using this
  refine ⟨by simp [MathSet.inPlace, mutr, hid], ?_⟩
  exact rel_set h r hr

theorem sim_viaPtr {R : Regs α} {S : MathSet.Regs α} (h : Rel R S) (r : Nat) (p : SetRes α) (w : List α)
    (hr : RelSet p.val ⟨false, w⟩) (hid : p.id = if (S r).isNil then .fresh else .recv) :
    (MathSet.viaPtr S r w).2 = (mutr R r (p, .recv)).2 ∧
    Rel (mutr R r (p, .recv)).1 (MathSet.viaPtr S r w).1 := by
  refine ⟨by simp [MathSet.viaPtr, mutr, hid], ?_⟩
  exact rel_set h r hr

theorem relSet_same {m : MSet α} {s : RSet α} (h : RelSet m s) : RelSet m ⟨s.isNil, s.mem⟩ := h

theorem isPerm_true {p l : List α} (h : p.Perm l) : p.isPerm l = true := List.isPerm_iff.mpr h

/-! ### the simulation, operation by operation -/

theorem sim_constructors {R : Regs α} {S : MathSet.Regs α} (h : Rel R S) (d : Nat) :
    (∀ items, Sim R S (.new d items)) ∧ (∀ n, Sim R S (.newSize d n)) ∧ (∀ r, Sim R S (.clone d r)) ∧
    (∀ items, Sim R S (.range d items)) ∧ (∀ m, Sim R S (.keys d m)) ∧ (∀ m, Sim R S (.values d m)) ∧
    Sim R S (.setNil d) := by
  refine ⟨fun items => ?_, fun n => ?_, fun r => ?_, fun items => ?_, fun m => ?_, fun m => ?_, ?_⟩
  · exact sim_ctor h d (new items) _ rfl (relSet_addItems items)
  · exact sim_ctor h d (newSize n) [] rfl ⟨rfl, List.nodup_nil, List.nodup_nil, fun _ => Iff.rfl⟩
  · exact sim_ctor h d (clone (R r)) _ (clone_id _) (relSet_clone (h r))
  · exact sim_ctor h d (range items) _ rfl (relSet_addItems items)
  · exact sim_ctor h d (keys m) _ rfl (relSet_addItems _)
  · exact sim_ctor h d (values m) _ rfl (relSet_addItems _)
  · refine ⟨rfl, ?_⟩
    exact rel_set h d ⟨rfl, List.nodup_nil, List.nodup_nil, fun _ => Iff.rfl⟩

theorem sim_intersect {R : Regs α} {S : MathSet.Regs α} (h : Rel R S) (d : Nat) (rs : List Nat) :
    Sim R S (.intersect d rs) := by
  obtain ⟨out, h1, h2, h3, h4⟩ := intersect_spec (rs.map R)
  refine sim_ctor h d (intersect (rs.map R)) _ (by rw [h1]) ?_
  rw [h1]
  cases rs with
  | nil =>
    rw [h3 rfl]
    exact ⟨rfl, List.nodup_nil, List.nodup_nil, fun _ => Iff.rfl⟩
  | cons r0 rs =>
    refine ⟨rfl, h2, ?_, fun x => ?_⟩
    · exact (h r0).nd.filter _
    · simp only [elems_some, List.map_cons]
      rw [h4 (by simp), mem_interAll]
      simp only [List.map_cons, List.mem_cons, List.mem_map, forall_eq_or_imp, forall_exists_index, and_imp,
        forall_apply_eq_imp_iff₂]
      rw [(h r0).mem x]
      constructor <;> rintro ⟨a, b⟩ <;> exact ⟨a, fun r hr => by first | exact ((h r).mem x).mp (b r hr) | exact ((h r).mem x).mpr (b r hr)⟩

theorem sim_mutators {R : Regs α} {S : MathSet.Regs α} (h : Rel R S) (r : Nat) :
    (∀ items, Sim R S (.add r items)) ∧ (∀ t, Sim R S (.addAll r t)) ∧
    (∀ items, Sim R S (.remove r items)) ∧ (∀ t, Sim R S (.removeAll r t)) ∧ Sim R S (.clear r) := by
  have hr := h r
  refine ⟨fun items => ?_, fun t => ?_, fun items => ?_, fun t => ?_, ?_⟩
  · -- Add
    have hn := hr.nil
    show (MathSet.viaPtr S r (insertAll (S r).mem items)).2 = (mutr R r (add (R r) items)).2 ∧
      Rel (mutr R r (add (R r) items)).1 (MathSet.viaPtr S r (insertAll (S r).mem items)).1
    cases hm : R r with
    | none =>
      rw [hm] at hn hr
      refine sim_viaPtr h r ⟨some (addItems [] items), .fresh⟩ (insertAll (S r).mem items)
        ⟨rfl, nodup_addItems List.nodup_nil, nodup_insertAll hr.nd, fun x => ?_⟩ (by simp [← hn])
      have := hr.mem x
      simp only [elems_none, List.not_mem_nil, false_iff] at this
      simp [mem_addItems, mem_insertAll, this]
    | some l =>
      rw [hm] at hn hr
      refine sim_viaPtr h r ⟨some (addItems l items), .recv⟩ (insertAll (S r).mem items)
        ⟨rfl, nodup_addItems hr.wf, nodup_insertAll hr.nd, fun x => ?_⟩ (by simp [← hn])
      have := hr.mem x
      simp only [elems_some] at this ⊢
      rw [mem_addItems, mem_insertAll, this]
  · -- AddAll
    have hn := hr.nil
    have ht := h t
    show (MathSet.viaPtr S r (insertAll (S r).mem (S t).mem)).2 = (mutr R r (addAll (R r) (R t))).2 ∧
      Rel (mutr R r (addAll (R r) (R t))).1 (MathSet.viaPtr S r (insertAll (S r).mem (S t).mem)).1
    cases hm : R r with
    | none =>
      rw [hm] at hn hr
      have hc := relSet_clone ht
      refine sim_viaPtr h r (clone (R t)) (insertAll (S r).mem (S t).mem)
        ⟨hc.nil, hc.wf, nodup_insertAll hr.nd, fun x => ?_⟩ (by rw [clone_id]; simp [← hn])
      have := hr.mem x
      simp only [elems_none, List.not_mem_nil, false_iff] at this
      rw [hc.mem x]
      simp [mem_insertAll, this]
    | some l =>
      rw [hm] at hn hr
      refine sim_viaPtr h r ⟨some (addItems l (elems (R t))), .recv⟩ (insertAll (S r).mem (S t).mem)
        ⟨rfl, nodup_addItems hr.wf, nodup_insertAll hr.nd, fun x => ?_⟩ (by simp [← hn])
      have := hr.mem x
      simp only [elems_some] at this ⊢
      rw [mem_addItems, mem_insertAll, this, ht.mem x]
  · -- Remove
    exact sim_inPlace h r _ _ (relSet_removeLoop hr items)
  · -- RemoveAll
    have ht := h t
    have h1 := relSet_removeLoop hr (elems (R t))
    have : diff (S r).mem (elems (R t)) = diff (S r).mem (S t).mem := by
      simp only [diff]
      apply List.filter_congr
      intro x _
      simp [ht.mem x]
    rw [this] at h1
    exact sim_inPlace h r _ _ h1
  · -- Clear
    show (MathSet.inPlace S r []).2 = (mutr R r (clear (R r))).2 ∧ Rel (mutr R r (clear (R r))).1 (MathSet.inPlace S r []).1
    have hn := hr.nil
    cases hm : R r with
    | none =>
      rw [hm] at hn
      exact sim_inPlace h r none [] ⟨by simpa using hn, List.nodup_nil, List.nodup_nil, fun _ => Iff.rfl⟩
    | some l =>
      rw [hm] at hn
      exact sim_inPlace h r (some []) [] ⟨by simpa using hn, List.nodup_nil, List.nodup_nil, fun _ => Iff.rfl⟩

theorem sim_observers {R : Regs α} {S : MathSet.Regs α} (h : Rel R S) (r : Nat) :
    (∀ x, Sim R S (.has r x)) ∧ Sim R S (.len r) ∧ Sim R S (.isEmpty r) ∧ Sim R S (.isNil r) ∧
    (∀ t, Sim R S (.intersects r t)) ∧ (∀ t, Sim R S (.isSubset r t)) ∧ (∀ t, Sim R S (.equals r t)) ∧
    (∀ ts, Sim R S (.hasAll r ts)) ∧ (∀ ts, Sim R S (.hasAny r ts)) := by
  have hr := h r
  refine ⟨fun x => ⟨?_, h⟩, ⟨?_, h⟩, ⟨?_, h⟩, ⟨?_, h⟩, fun t => ⟨?_, h⟩, fun t => ⟨?_, h⟩, fun t => ⟨?_, h⟩,
    fun ts => ⟨?_, h⟩, fun ts => ⟨?_, h⟩⟩
  · exact out_bool (by simp [hr.mem x])
  · show (⟨.nat (S r).mem.length, none⟩ : Out α) = ⟨.nat (len (R r)), none⟩
    rw [hr.len_eq]
  · show (⟨.bool ((S r).mem.length == 0), none⟩ : Out α) = ⟨.bool (isEmpty (R r)), none⟩
    rw [isEmpty, hr.len_eq]
  · show (⟨.bool (S r).isNil, none⟩ : Out α) = ⟨.bool (isNil (R r)), none⟩
    rw [isNil, hr.nil]
  · refine out_bool ?_
    rw [intersects_iff]
    simp only [List.any_eq_true, decide_eq_true_eq]
    constructor <;> rintro ⟨x, h1, h2⟩
    · exact ⟨x, (hr.mem x).mpr h1, ((h t).mem x).mpr h2⟩
    · exact ⟨x, (hr.mem x).mp h1, ((h t).mem x).mp h2⟩
  · refine out_bool ?_
    rw [isSubset_iff _ _ hr.wf, subset_iff]
    constructor <;> intro h1 x hx
    · exact ((h t).mem x).mpr (h1 x ((hr.mem x).mp hx))
    · exact ((h t).mem x).mp (h1 x ((hr.mem x).mpr hx))
  · refine out_bool ?_
    rw [equals_iff _ _ hr.wf (h t).wf, Bool.and_eq_true, subset_iff, subset_iff]
    constructor
    · rintro ⟨h1, h2⟩ x
      rw [hr.mem x, (h t).mem x]; exact ⟨h1 x, h2 x⟩
    · intro h1
      refine ⟨fun x hx => ?_, fun x hx => ?_⟩
      · exact ((h t).mem x).mp ((h1 x).mp ((hr.mem x).mpr hx))
      · exact (hr.mem x).mp ((h1 x).mpr (((h t).mem x).mpr hx))
  · refine out_bool ?_
    rw [hasAll_iff]
    simp only [List.all_eq_true, decide_eq_true_eq]
    constructor <;> intro h1 x hx
    · exact (hr.mem x).mpr (h1 x hx)
    · exact (hr.mem x).mp (h1 x hx)
  · refine out_bool ?_
    rw [hasAny_iff]
    simp only [List.any_eq_true, decide_eq_true_eq]
    constructor <;> rintro ⟨x, h1, h2⟩
    · exact ⟨x, h1, (hr.mem x).mpr h2⟩
    · exact ⟨x, h1, (hr.mem x).mp h2⟩

theorem sim_pop {R : Regs α} {S : MathSet.Regs α} (h : Rel R S) (r : Nat) (hint : α) :
    Sim R S (.pop r hint) := by
  have hr := h r
  by_cases h0 : len (R r) = 0
  · have hp := pop_empty (R r) hint h0
    have hnil : (S r).mem = [] := hr.nil_iff.mpr h0
    have e1 : step R (.pop r hint) = (R.set r (R r), ⟨.val default, some (r, idOf (R r))⟩) := by
      simp [step, hp]
    simp only [Sim, e1, Op.resolve, MathSet.step, hnil, if_true]
    refine ⟨by rw [hr.idOf_eq], rel_set_left h r hr⟩
  · obtain ⟨hx, hd, _⟩ := pop_nonempty (R r) hint h0
    generalize hxe : (pop (R r) hint).2 = x at hx hd
    have hsome : ∃ l, R r = some l := by
      cases hm : R r with
      | none => rw [hm] at h0; simp at h0
      | some l => exact ⟨l, rfl⟩
    obtain ⟨l, hl⟩ := hsome
    have hid : idOf (delete (R r) x) = .recv := by rw [hl]; rfl
    have e1 : step R (.pop r hint) = (R.set r (delete (R r) x), ⟨.val x, some (r, .recv)⟩) := by
      have : pop (R r) hint = (delete (R r) x, x) := by rw [← hd, ← hxe]
      simp [step, this, hid]
    have hne : (S r).mem ≠ [] := fun e => h0 (hr.nil_iff.mp e)
    have hxs : x ∈ (S r).mem := (hr.mem x).mp hx
    simp only [Sim, e1, Op.resolve, MathSet.step, hne, hxs, if_true, if_false, true_and]
    refine rel_set h r ⟨by rw [hl]; rfl, WF_delete hr.wf x, hr.nd.erase x, fun y => ?_⟩
    rw [mem_delete hr.wf, hr.nd.mem_erase_iff, hr.mem y]
    tauto

theorem sim_slice {R : Regs α} {S : MathSet.Regs α} (h : Rel R S) (r : Nat) (hint : List α) :
    Sim R S (.slice r hint) := by
  have hr := h r
  refine ⟨?_, ?_⟩
  all_goals
    by_cases h0 : len (R r) = 0
    · have hnil : (S r).mem = [] := hr.nil_iff.mpr h0
      simp [step, slice_empty _ _ h0, Op.resolve, MathSet.step, hnil, h]
    · have hne : (S r).mem ≠ [] := fun e => h0 (hr.nil_iff.mp e)
      have hp : (order (elems (R r)) hint).isPerm (S r).mem = true :=
        isPerm_true ((order_perm hint _).trans hr.perm)
      simp [step, slice_nonempty _ _ h0, Op.resolve, MathSet.step, hne, hp, h]

theorem sim_append {R : Regs α} {S : MathSet.Regs α} (h : Rel R S) (r : Nat) (vs : Option (List α))
    (hint : List α) : Sim R S (.append r vs hint) := by
  have hr := h r
  refine ⟨?_, ?_⟩
  all_goals
    by_cases h0 : len (R r) = 0
    · have hnil : (S r).mem = [] := hr.nil_iff.mpr h0
      simp [step, append_empty _ _ _ h0, Op.resolve, MathSet.step, hnil, h]
    · have hne : (S r).mem ≠ [] := fun e => h0 (hr.nil_iff.mp e)
      have hp : (order (elems (R r)) hint).isPerm (S r).mem = true :=
        isPerm_true ((order_perm hint _).trans hr.perm)
      simp [step, append_nonempty _ _ _ h0, Op.resolve, MathSet.step, hne, hp, h]

theorem sim_shuffle {R : Regs α} {S : MathSet.Regs α} (h : Rel R S) (r : Nat) (hint : List α) :
    Sim R S (.shuffle r hint) := by
  refine ⟨rfl, rel_set_left h r ?_⟩
  have hr := h r
  cases hm : R r with
  | none => rw [hm] at hr; exact hr
  | some l =>
    rw [hm] at hr
    have p : (order l hint).Perm l := order_perm hint l
    exact ⟨hr.nil, p.symm.nodup hr.wf, hr.nd, fun x => by
      have := hr.mem x
      simp only [elems_some, shuffle] at this ⊢
      rw [p.mem_iff, this]⟩

/-- **one step**: under any oracle the model's step is accepted by the reference, and the relation is kept -/
theorem sim_step {R : Regs α} {S : MathSet.Regs α} (h : Rel R S) (op : Op α) : Sim R S op := by
  cases op with
  | setNil d => exact (sim_constructors h d).2.2.2.2.2.2
  | new d items => exact (sim_constructors h d).1 items
  | newSize d n => exact (sim_constructors h d).2.1 n
  | clone d r => exact (sim_constructors h d).2.2.1 r
  | intersect d rs => exact sim_intersect h d rs
  | range d items => exact (sim_constructors h d).2.2.2.1 items
  | keys d m => exact (sim_constructors h d).2.2.2.2.1 m
  | values d m => exact (sim_constructors h d).2.2.2.2.2.1 m
  | add r items => exact (sim_mutators h r).1 items
  | addAll r t => exact (sim_mutators h r).2.1 t
  | remove r items => exact (sim_mutators h r).2.2.1 items
  | removeAll r t => exact (sim_mutators h r).2.2.2.1 t
  | pop r hint => exact sim_pop h r hint
  | clear r => exact (sim_mutators h r).2.2.2.2
  | has r x => exact (sim_observers h r).1 x
  | len r => exact (sim_observers h r).2.1
  | isEmpty r => exact (sim_observers h r).2.2.1
  | isNil r => exact (sim_observers h r).2.2.2.1
  | intersects r t => exact (sim_observers h r).2.2.2.2.1 t
  | isSubset r t => exact (sim_observers h r).2.2.2.2.2.1 t
  | equals r t => exact (sim_observers h r).2.2.2.2.2.2.1 t
  | hasAll r ts => exact (sim_observers h r).2.2.2.2.2.2.2.1 ts
  | hasAny r ts => exact (sim_observers h r).2.2.2.2.2.2.2.2 ts
  | slice r hint => exact sim_slice h r hint
  | append r vs hint => exact sim_append h r vs hint
  | shuffle r hint => exact sim_shuffle h r hint

end MdsVerif.Proofs.Mapset
