import MdsVerif.Model.Lis
import MdsVerif.GenFact
/-!
# `Model.Lis` in its pinned form

`Model.Lis` takes the fast-path tests, the choice of binary search, the `replaceIdx == 0` tests and
`bisectRight`'s comparison from `Gen.Slice` (regenerated from slice/lis.go on every run).  These two
lemmas restate `bisectRight` and `lisStep` with the pinned expressions written out; the C12 proofs
unfold the model only through them, so they stop compiling when one of those tokens changes.
-/
namespace MdsVerif.Model.Lis
open MdsVerif
variable {α : Type}

theorem bisectRight_def {β γ : Type} (vs : List β) (target : γ) (cmp : β → γ → Option Int) :
    bisectRight vs target cmp =
      bsearchLoop (fun mid => do
        let x ← vs[mid]?
        let c ← cmp x target
        pure (decide (c > 0))) (vs.length + 1) 0 vs.length := rfl

theorem lisStep_def (strict : Bool) (cmp : α → α → Int) (vs : List α) (s : St) (i : Nat) :
    lisStep strict cmp vs s i = (do
      let idxOfBestTail ← s.tails.getLast?
      let vi ← vs[i]?
      let vb ← vs[idxOfBestTail]?
      if (if strict then cmp vi vb > 0 else cmp vi vb ≥ 0) then
        let prev ← setAt s.prev i (idxOfBestTail : Int)
        pure { tails := s.tails ++ [i], prev := prev }
      else
        let cmpIdx : Nat → α → Option Int := fun idx target => (vs[idx]?).map (cmp · target)
        let replaceIdx ←
          if strict then binarySearchFunc s.tails.dropLast vi cmpIdx
          else bisectRight s.tails.dropLast vi cmpIdx
        let p : Int ← if replaceIdx = 0 then some (-1) else (s.tails[replaceIdx - 1]?).map Int.ofNat
        let prev ← setAt s.prev i p
        let tails ← setAt s.tails replaceIdx i
        pure { tails := tails, prev := prev }) := by
  -- extensional pins (`gen_fact`): `c > 0` / `0 < c` / `!(c <= 0)`, `r == 0` / `r < 1` all satisfy them
  have e1 : ∀ c : Int, Gen.Slice.lisFast c = decide (c > 0) := by gen_fact Gen.Slice.lisFast
  have e2 : ∀ c : Int, Gen.Slice.lndsFast c = decide (c ≥ 0) := by gen_fact Gen.Slice.lndsFast
  have e3 : ∀ r : Nat, (Gen.Slice.lisFirst r = true) = (r = 0) := by gen_fact Gen.Slice.lisFirst
  have e4 : ∀ r : Nat, (Gen.Slice.lndsFirst r = true) = (r = 0) := by gen_fact Gen.Slice.lndsFirst
  have e5 : Gen.Slice.lisUsesBisectRight = false := rfl
  have e6 : Gen.Slice.lndsUsesBisectRight = true := rfl
  unfold lisStep
  cases strict <;> simp only [e1, e2, e3, e4, e5, e6, if_true, if_false, Bool.false_eq_true, decide_eq_true_eq] <;> rfl

end MdsVerif.Model.Lis
