import MdsVerif.GenFact
import MdsVerif.Model.Mstr
import MdsVerif.Spec.Bytes
/-!
# `mstr.CompareNatural` = lexicographic comparison of tokenised keys (helper lemmas for C20)
-/
set_option linter.unusedSimpArgs false
namespace MdsVerif.Proofs.NatCmp
open MdsVerif.Model.Mstr
open MdsVerif.Spec.Bytes (Tok key keyF decVal cmpNat lexBytes high cmpTok cmpKey natCompare fitsInt noOverflow)

local notation "sDigit" => MdsVerif.Spec.Bytes.isDigit

theorem isDigit_eq (b : UInt8) : isDigit b = sDigit b := rfl

/-! ### byte facts -/

theorem digit_range (b : UInt8) : sDigit b = true ↔ 48 ≤ b.toNat ∧ b.toNat ≤ 57 := by
  simp only [MdsVerif.Spec.Bytes.isDigit, Bool.and_eq_true, decide_eq_true_eq, UInt8.le_iff_toNat_le]
  exact Iff.rfl

set_option maxRecDepth 100000 in
theorem digit_sub_fact : ∀ n : Fin 256, sDigit (UInt8.ofNat n.val) = true →
    (UInt8.ofNat n.val - 0x30).toNat = (UInt8.ofNat n.val).toNat - 48 := by decide

theorem digit_sub (b : UInt8) (h : sDigit b = true) : (b - 0x30).toNat = b.toNat - 48 := by
  have := digit_sub_fact ⟨b.toNat, UInt8.toNat_lt b⟩
  simp only [UInt8.ofNat_toNat] at this
  exact this h

/-! ### parseInt -/

/-- the wrapped accumulation of `parseInt` over a run -/
def accW (v : Nat) (run : List UInt8) : Nat := run.foldl (fun v b => (v * 10 + (b - 0x30).toNat) % two64) v
/-- the unbounded accumulation -/
def accN (v : Nat) (run : List UInt8) : Nat := run.foldl (fun v b => v * 10 + (b.toNat - 48)) v

theorem decVal_eq (run : List UInt8) : decVal run = accN 0 run := rfl

theorem digitsLoop_eq : ∀ (s : List UInt8) v i,
    digitsLoop s v i = (accW v (s.takeWhile sDigit), i + (s.takeWhile sDigit).length, s.dropWhile sDigit)
  | [], v, i => by simp [digitsLoop, accW]
  | b :: t, v, i => by
    unfold digitsLoop
    by_cases hb : sDigit b = true
    · rw [isDigit_eq, if_pos hb, digitsLoop_eq t]
      simp only [List.takeWhile_cons, hb, if_true, List.dropWhile_cons, accW, List.foldl_cons, List.length_cons]
      congr 2; omega
    · rw [isDigit_eq, if_neg hb]
      simp [List.takeWhile_cons, hb, List.dropWhile_cons, accW]

theorem accN_ge (run : List UInt8) : ∀ v, v ≤ accN v run := by
  induction run with
  | nil => intro v; simp [accN]
  | cons b t ih =>
    intro v
    have := ih (v * 10 + (b.toNat - 48))
    simp only [accN, List.foldl_cons] at this ⊢
    omega

theorem accW_eq_accN (run : List UInt8) (hd : ∀ b ∈ run, sDigit b = true) :
    ∀ v, accN v run < two64 → accW v run = accN v run := by
  induction run with
  | nil => intro v _; rfl
  | cons b t ih =>
    intro v h
    have hb := hd b (by simp)
    have hge := accN_ge t (v * 10 + (b.toNat - 48))
    simp only [accN, List.foldl_cons] at h hge
    simp only [accW, accN, List.foldl_cons, digit_sub b hb]
    rw [Nat.mod_eq_of_lt (by omega)]
    exact ih (fun x hx => hd x (by simp [hx])) _ h

theorem toSigned_small (v : Nat) (h : v < 9223372036854775808) : toSigned v = (v : Int) := by
  simp [toSigned, h]

theorem takeWhile_digits (s : List UInt8) : ∀ b ∈ s.takeWhile sDigit, sDigit b = true :=
  List.all_eq_true.mp List.all_takeWhile

theorem length_dropWhile_le (p : UInt8 → Bool) (l : List UInt8) : (l.dropWhile p).length ≤ l.length :=
  (List.dropWhile_sublist p).length_le

/-- `parseInt` on a string whose leading digit run fits `int` -/
theorem parseInt_eq (s : List UInt8) (h : decVal (s.takeWhile sDigit) < 9223372036854775808) :
    parseInt s = ((decVal (s.takeWhile sDigit) : Int), s.dropWhile sDigit, decide ((s.takeWhile sDigit).length > 0)) := by
  unfold parseInt
  rw [digitsLoop_eq]
  rw [decVal_eq] at h
  have h2 : accN 0 (s.takeWhile sDigit) < two64 := by unfold two64; omega
  -- `return v, s[i:], i > 0`: the regenerated test `Gen.Small.parseIntOk`, pinned
  have hok : ∀ k : Nat, MdsVerif.Gen.Small.parseIntOk (k : Int) = decide (k > 0) := by
    gen_fact MdsVerif.Gen.Small.parseIntOk
  simp only [accW_eq_accN _ (takeWhile_digits s) 0 h2, Nat.zero_add, decVal_eq, toSigned_small _ h, hok]

theorem parseStr_eq : ∀ s : List UInt8,
    parseStr s = (s.takeWhile (fun c => !sDigit c), s.dropWhile (fun c => !sDigit c))
  | [] => by simp [parseStr]
  | b :: t => by
    unfold parseStr
    by_cases hb : sDigit b = true
    · rw [isDigit_eq, if_pos hb]; simp [List.takeWhile_cons, List.dropWhile_cons, hb]
    · rw [isDigit_eq, if_neg hb, parseStr_eq t]
      simp [List.takeWhile_cons, List.dropWhile_cons, hb]

theorem cmpBytes_eq : ∀ p q : List UInt8, cmpBytes p q = lexBytes p q
  | [], [] => rfl
  | [], _ :: _ => rfl
  | _ :: _, [] => rfl
  | x :: xs, y :: ys => by
    simp only [cmpBytes, lexBytes, cmpBytes_eq xs ys, gt_iff_lt]

theorem cmpInt_nat (a b : Nat) : cmpInt (a : Int) (b : Int) = cmpNat a b := by
  simp only [cmpInt, cmpNat, Int.ofNat_lt, gt_iff_lt]

/-! ### keys -/

theorem keyF_fuel : ∀ f g (s : List UInt8), s.length ≤ f → s.length ≤ g → keyF f s = keyF g s
  | _, _, [], _, _ => by simp [keyF]
  | 0, _, _ :: _, h, _ => by simp at h
  | _, 0, _ :: _, _, h => by simp at h
  | f+1, g+1, b :: t, hf, hg => by
    simp only [keyF]
    have h1 : ((b :: t).dropWhile sDigit).length ≤ t.length ∨ sDigit b = false := by
      by_cases hb : sDigit b = true
      · left; simp only [List.dropWhile_cons, hb, if_true]; exact length_dropWhile_le _ _
      · right; simpa using hb
    have h2 : ((b :: t).dropWhile (fun c => !sDigit c)).length ≤ t.length ∨ sDigit b = true := by
      by_cases hb : sDigit b = true
      · right; exact hb
      · left; simp only [List.dropWhile_cons, hb, Bool.not_false, if_true]; exact length_dropWhile_le _ _
    simp only [List.length_cons] at hf hg
    by_cases hb : sDigit b = true
    · simp only [hb, if_true]
      rcases h1 with h1 | h1
      · rw [keyF_fuel f g ((b :: t).dropWhile sDigit) (by omega) (by omega)]
      · simp [hb] at h1
    · simp only [hb, Bool.false_eq_true, if_false]
      rcases h2 with h2 | h2
      · rw [keyF_fuel f g ((b :: t).dropWhile (fun c => !sDigit c)) (by omega) (by omega)]
      · exact absurd h2 hb

theorem key_nil : key [] = [] := rfl

theorem key_digit (b : UInt8) (t : List UInt8) (hb : sDigit b = true) :
    key (b :: t) = .num (decVal ((b :: t).takeWhile sDigit)) :: key ((b :: t).dropWhile sDigit) := by
  have hl : ((b :: t).dropWhile sDigit).length ≤ t.length := by
    simp only [List.dropWhile_cons, hb, if_true]; exact length_dropWhile_le _ _
  simp only [key, List.length_cons, keyF, hb, if_true]
  rw [keyF_fuel t.length _ _ hl (Nat.le_refl _)]

theorem key_nondigit (b : UInt8) (t : List UInt8) (hb : sDigit b = false) :
    key (b :: t) = .str ((b :: t).takeWhile (fun c => !sDigit c)) :: key ((b :: t).dropWhile (fun c => !sDigit c)) := by
  have hl : ((b :: t).dropWhile (fun c => !sDigit c)).length ≤ t.length := by
    simp only [List.dropWhile_cons, hb, Bool.not_false, if_true]; exact length_dropWhile_le _ _
  simp only [key, List.length_cons, keyF, hb]
  rw [keyF_fuel t.length _ _ hl (Nat.le_refl _)]
  simp

theorem dropWhile_lt (p : UInt8 → Bool) (b : UInt8) (t : List UInt8) (hb : p b = true) :
    ((b :: t).dropWhile p).length < (b :: t).length := by
  simp only [List.dropWhile_cons, hb, if_true, List.length_cons]
  have := length_dropWhile_le p t
  omega

/-- digit against non-digit: the bytewise comparison is decided by the first byte, and a non-digit
is above a digit iff it is above `'9'` -/
theorem digit_vs_nondigit (x y : UInt8) (hx : sDigit x = true) (hy : sDigit y = false) :
    (x < y ↔ (0x39 : UInt8) < y) ∧ (¬ x < y → y < x) := by
  have hx' := (digit_range x).mp hx
  have hy' : ¬ (48 ≤ y.toNat ∧ y.toNat ≤ 57) := by
    intro h; rw [← digit_range] at h; rw [h] at hy; cases hy
  simp only [UInt8.lt_iff_toNat_lt]
  have : (0x39 : UInt8).toNat = 57 := rfl
  rw [this]
  omega

/-- **the loop of `CompareNatural` computes the key comparison** when no digit run overflows -/
theorem cmpLoop_eq_key : ∀ f (a b : List UInt8), a.length < f → noOverflow a = true → noOverflow b = true →
    cmpLoop f a b = some (cmpKey (key a) (key b))
  | 0, _, _, h, _, _ => by omega
  | f+1, [], [], _, _, _ => by simp [cmpLoop, key_nil, cmpKey, cmpBytes]
  | f+1, [], y :: b', _, _, _ => by
    by_cases hy : sDigit y = true
    · simp [cmpLoop, key_nil, key_digit y b' hy, cmpKey, cmpBytes]
    · simp [cmpLoop, key_nil, key_nondigit y b' (by simpa using hy), cmpKey, cmpBytes]
  | f+1, x :: a', [], _, _, _ => by
    by_cases hx : sDigit x = true
    · simp [cmpLoop, key_nil, key_digit x a' hx, cmpKey, cmpBytes]
    · simp [cmpLoop, key_nil, key_nondigit x a' (by simpa using hx), cmpKey, cmpBytes]
  | f+1, x :: a', y :: b', hf, ha, hb => by
    have hne : (x :: a' ≠ [] ∧ y :: b' ≠ []) := ⟨by simp, by simp⟩
    unfold cmpLoop
    rw [if_pos hne]
    by_cases hx : sDigit x = true <;> by_cases hy : sDigit y = true
    · -- both start with digits
      have ka := key_digit x a' hx
      have kb := key_digit y b' hy
      have fa : decVal ((x :: a').takeWhile sDigit) < 9223372036854775808 := by
        have := ha; simp only [noOverflow, ka, List.all_cons, Bool.and_eq_true, fitsInt, decide_eq_true_eq] at this
        exact this.1
      have fb : decVal ((y :: b').takeWhile sDigit) < 9223372036854775808 := by
        have := hb; simp only [noOverflow, kb, List.all_cons, Bool.and_eq_true, fitsInt, decide_eq_true_eq] at this
        exact this.1
      have ra : noOverflow ((x :: a').dropWhile sDigit) = true := by
        have := ha; simp only [noOverflow, ka, List.all_cons, Bool.and_eq_true] at this ⊢
        exact this.2
      have rb : noOverflow ((y :: b').dropWhile sDigit) = true := by
        have := hb; simp only [noOverflow, kb, List.all_cons, Bool.and_eq_true] at this ⊢
        exact this.2
      have la : ((x :: a').takeWhile sDigit).length > 0 := by simp [List.takeWhile_cons, hx]
      have lb : ((y :: b').takeWhile sDigit).length > 0 := by simp [List.takeWhile_cons, hy]
      have hlt := dropWhile_lt sDigit x a' hx
      rw [parseInt_eq _ fa, parseInt_eq _ fb]
      simp only [la, lb, decide_true, Bool.and_self, if_true, cmpInt_nat]
      rw [ka, kb]
      simp only [cmpKey, cmpTok]
      by_cases hc : cmpNat (decVal ((x :: a').takeWhile sDigit)) (decVal ((y :: b').takeWhile sDigit)) = 0
      · simp only [hc, ne_eq, not_true_eq_false, if_false]
        exact cmpLoop_eq_key f _ _ (by simp only [List.length_cons] at hf hlt; omega) ra rb
      · simp only [hc, ne_eq, not_false_eq_true, if_true]
    · -- digit against non-digit
      have hy' : sDigit y = false := by simpa using hy
      have ka := key_digit x a' hx
      have kb := key_nondigit y b' hy'
      have fa : decVal ((x :: a').takeWhile sDigit) < 9223372036854775808 := by
        have := ha; simp only [noOverflow, ka, List.all_cons, Bool.and_eq_true, fitsInt, decide_eq_true_eq] at this
        exact this.1
      have la : ((x :: a').takeWhile sDigit).length > 0 := by simp [List.takeWhile_cons, hx]
      have lb : ¬ ((y :: b').takeWhile sDigit).length > 0 := by simp [List.takeWhile_cons, hy']
      have fb : decVal ((y :: b').takeWhile sDigit) < 9223372036854775808 := by
        simp [List.takeWhile_cons, hy', decVal]
      have hd := digit_vs_nondigit x y hx hy'
      rw [parseInt_eq _ fa, parseInt_eq _ fb]
      simp only [la, lb, decide_true, decide_false, Bool.true_and, Bool.false_eq_true, if_false, bne_iff_ne, ne_eq,
        not_false_eq_true, if_true, Bool.true_bne, Bool.not_false, Bool.and_false]
      rw [ka, kb]
      simp only [cmpKey, cmpTok, List.takeWhile_cons, hy', Bool.not_false, if_true, high, cmpBytes]
      by_cases hxy : x < y
      · have := hd.1.mp hxy
        simp [hxy, this]
      · have h1 : ¬ (0x39 : UInt8) < y := fun h => hxy (hd.1.mpr h)
        have h2 := hd.2 hxy
        simp [hxy, h1, h2]
    · -- non-digit against digit
      have hx' : sDigit x = false := by simpa using hx
      have ka := key_nondigit x a' hx'
      have kb := key_digit y b' hy
      have fb : decVal ((y :: b').takeWhile sDigit) < 9223372036854775808 := by
        have := hb; simp only [noOverflow, kb, List.all_cons, Bool.and_eq_true, fitsInt, decide_eq_true_eq] at this
        exact this.1
      have lb : ((y :: b').takeWhile sDigit).length > 0 := by simp [List.takeWhile_cons, hy]
      have la : ¬ ((x :: a').takeWhile sDigit).length > 0 := by simp [List.takeWhile_cons, hx']
      have fa : decVal ((x :: a').takeWhile sDigit) < 9223372036854775808 := by
        simp [List.takeWhile_cons, hx', decVal]
      have hd := digit_vs_nondigit y x hy hx'
      rw [parseInt_eq _ fa, parseInt_eq _ fb]
      simp only [la, lb, decide_true, decide_false, Bool.false_and, Bool.false_eq_true, if_false, bne_iff_ne, ne_eq,
        not_false_eq_true, if_true, Bool.false_bne, Bool.and_true]
      rw [ka, kb]
      simp only [cmpKey, cmpTok, List.takeWhile_cons, hx', Bool.not_false, if_true, high, cmpBytes]
      by_cases hyx : y < x
      · have h1 := hd.1.mp hyx
        have h2 : ¬ x < y := by
          simp only [UInt8.lt_iff_toNat_lt] at hyx ⊢; omega
        simp [hyx, h1, h2]
      · have h1 : ¬ (0x39 : UInt8) < x := fun h => hyx (hd.1.mpr h)
        have h2 := hd.2 hyx
        simp [h1, h2]
    · -- neither starts with a digit: compare the non-digit runs
      have hx' : sDigit x = false := by simpa using hx
      have hy' : sDigit y = false := by simpa using hy
      have ka := key_nondigit x a' hx'
      have kb := key_nondigit y b' hy'
      have la : ¬ ((x :: a').takeWhile sDigit).length > 0 := by simp [List.takeWhile_cons, hx']
      have lb : ¬ ((y :: b').takeWhile sDigit).length > 0 := by simp [List.takeWhile_cons, hy']
      have fa : decVal ((x :: a').takeWhile sDigit) < 9223372036854775808 := by
        simp [List.takeWhile_cons, hx', decVal]
      have fb : decVal ((y :: b').takeWhile sDigit) < 9223372036854775808 := by
        simp [List.takeWhile_cons, hy', decVal]
      have ra : noOverflow ((x :: a').dropWhile (fun c => !sDigit c)) = true := by
        have := ha; simp only [noOverflow, ka, List.all_cons, Bool.and_eq_true] at this ⊢
        exact this.2
      have rb : noOverflow ((y :: b').dropWhile (fun c => !sDigit c)) = true := by
        have := hb; simp only [noOverflow, kb, List.all_cons, Bool.and_eq_true] at this ⊢
        exact this.2
      have hlt := dropWhile_lt (fun c => !sDigit c) x a' (by simp [hx'])
      rw [parseInt_eq _ fa, parseInt_eq _ fb]
      simp only [la, lb, decide_false, Bool.false_and, Bool.false_eq_true, if_false, bne_self_eq_false]
      rw [parseStr_eq, parseStr_eq, ka, kb]
      simp only [cmpKey, cmpTok, cmpBytes_eq]
      by_cases hc : lexBytes ((x :: a').takeWhile (fun c => !sDigit c)) ((y :: b').takeWhile (fun c => !sDigit c)) = 0
      · simp only [hc, ne_eq, not_true_eq_false, if_false]
        exact cmpLoop_eq_key f _ _ (by simp only [List.length_cons] at hf hlt; omega) ra rb
      · simp only [hc, ne_eq, not_false_eq_true, if_true]

/-! ### `key` is the tokenisation into maximal runs -/

theorem key_digit_run (run rest : List UInt8) (hd : ∀ b ∈ run, sDigit b = true) (hne : run ≠ [])
    (hrest : ∀ c t, rest = c :: t → sDigit c = false) :
    key (run ++ rest) = .num (decVal run) :: key rest := by
  obtain ⟨b, t, rfl⟩ : ∃ b t, run = b :: t := by
    cases run with
    | nil => exact absurd rfl hne
    | cons b t => exact ⟨b, t, rfl⟩
  have hb := hd b (by simp)
  have h0 : rest.takeWhile sDigit = [] ∧ rest.dropWhile sDigit = rest := by
    cases rest with
    | nil => simp
    | cons c t' => have := hrest c t' rfl; simp [List.takeWhile_cons, List.dropWhile_cons, this]
  rw [List.cons_append, key_digit b (t ++ rest) hb, ← List.cons_append,
    List.takeWhile_append_of_pos hd, List.dropWhile_append_of_pos hd, h0.1, h0.2, List.append_nil]

theorem key_nondigit_run (run rest : List UInt8) (hd : ∀ b ∈ run, sDigit b = false) (hne : run ≠ [])
    (hrest : ∀ c t, rest = c :: t → sDigit c = true) :
    key (run ++ rest) = .str run :: key rest := by
  obtain ⟨b, t, rfl⟩ : ∃ b t, run = b :: t := by
    cases run with
    | nil => exact absurd rfl hne
    | cons b t => exact ⟨b, t, rfl⟩
  have hb := hd b (by simp)
  have hd' : ∀ a ∈ b :: t, (fun c => !sDigit c) a = true := fun a ha => by simp [hd a ha]
  have h0 : rest.takeWhile (fun c => !sDigit c) = [] ∧ rest.dropWhile (fun c => !sDigit c) = rest := by
    cases rest with
    | nil => simp
    | cons c t' => have := hrest c t' rfl; simp [List.takeWhile_cons, List.dropWhile_cons, this]
  rw [List.cons_append, key_nondigit b (t ++ rest) hb, ← List.cons_append,
    List.takeWhile_append_of_pos hd', List.dropWhile_append_of_pos hd', h0.1, h0.2, List.append_nil]

/-- a run of `k` digits has a value below `10^k`; so runs of at most 18 digits fit `int` -/
theorem accN_lt (run : List UInt8) (hd : ∀ b ∈ run, sDigit b = true) :
    ∀ v, accN v run < (v + 1) * 10 ^ run.length := by
  induction run with
  | nil => intro v; simp [accN]
  | cons b t ih =>
    intro v
    have hb := (digit_range b).mp (hd b (by simp))
    have := ih (fun x hx => hd x (by simp [hx])) (v * 10 + (b.toNat - 48))
    simp only [accN, List.foldl_cons, List.length_cons] at this ⊢
    have h2 : (v * 10 + (b.toNat - 48) + 1) * 10 ^ t.length ≤ ((v + 1) * 10) * 10 ^ t.length :=
      Nat.mul_le_mul_right _ (by omega)
    rw [Nat.pow_succ, Nat.mul_comm (10 ^ t.length) 10, ← Nat.mul_assoc]
    omega

theorem decVal_lt (run : List UInt8) (hd : ∀ b ∈ run, sDigit b = true) (hlen : run.length ≤ 18) :
    decVal run < 9223372036854775808 := by
  have h1 := accN_lt run hd 0
  have h2 : 10 ^ run.length ≤ 10 ^ 18 := Nat.pow_le_pow_right (by decide) hlen
  have h3 : (10 : Nat) ^ 18 < 9223372036854775808 := by decide
  rw [decVal_eq]; omega

/-! ### two digit runs have the same value iff they are equal up to leading zeros -/

/-- drop the leading `'0'`s of a digit run -/
def strip (run : List UInt8) : List UInt8 := run.dropWhile (· == 0x30)

theorem decVal_strip : ∀ run : List UInt8, decVal run = decVal (strip run)
  | [] => rfl
  | b :: t => by
    by_cases hb : b = 0x30
    · subst hb
      have : strip ((0x30 : UInt8) :: t) = strip t := by simp [strip, List.dropWhile_cons]
      rw [this, ← decVal_strip t]
      simp [decVal]
    · have : strip (b :: t) = b :: t := by simp [strip, List.dropWhile_cons, hb]
      rw [this]

theorem accN_inj : ∀ (r1 r2 : List UInt8) (v1 v2 : Nat), (∀ b ∈ r1, sDigit b = true) → (∀ b ∈ r2, sDigit b = true) →
    r1.length = r2.length → accN v1 r1 = accN v2 r2 → v1 = v2 ∧ r1 = r2
  | [], [], _, _, _, _, _, h => ⟨by simpa [accN] using h, rfl⟩
  | [], _ :: _, _, _, _, _, hl, _ => by simp at hl
  | _ :: _, [], _, _, _, _, hl, _ => by simp at hl
  | b1 :: t1, b2 :: t2, v1, v2, h1, h2, hl, h => by
    have d1 := (digit_range b1).mp (h1 b1 (by simp))
    have d2 := (digit_range b2).mp (h2 b2 (by simp))
    simp only [accN, List.foldl_cons] at h
    obtain ⟨hv, ht⟩ := accN_inj t1 t2 _ _ (fun x hx => h1 x (by simp [hx])) (fun x hx => h2 x (by simp [hx]))
      (by simpa using hl) h
    have hb : b1 = b2 := UInt8.toNat_inj.mp (by omega)
    exact ⟨by omega, by rw [hb, ht]⟩

theorem accN_ge_pow (run : List UInt8) : ∀ v, v * 10 ^ run.length ≤ accN v run := by
  induction run with
  | nil => intro v; simp [accN]
  | cons b t ih =>
    intro v
    have := ih (v * 10 + (b.toNat - 48))
    simp only [accN, List.foldl_cons, List.length_cons] at this ⊢
    have h2 : (v * 10) * 10 ^ t.length ≤ (v * 10 + (b.toNat - 48)) * 10 ^ t.length :=
      Nat.mul_le_mul_right _ (by omega)
    rw [Nat.pow_succ, Nat.mul_comm (10 ^ t.length) 10, ← Nat.mul_assoc]
    omega

/-- bounds for a digit run without leading zero -/
theorem stripped_bounds (b : UInt8) (t : List UInt8) (hd : ∀ x ∈ b :: t, sDigit x = true) (hb : b ≠ 0x30) :
    10 ^ t.length ≤ decVal (b :: t) ∧ decVal (b :: t) < 10 ^ (t.length + 1) := by
  have db := (digit_range b).mp (hd b (by simp))
  have hne : b.toNat ≠ 48 := fun h => hb (UInt8.toNat_inj.mp (by simpa using h))
  have lo := accN_ge_pow t (0 * 10 + (b.toNat - 48))
  have hi := accN_lt t (fun x hx => hd x (by simp [hx])) (0 * 10 + (b.toNat - 48))
  simp only [decVal_eq, accN, List.foldl_cons] at lo hi ⊢
  have h1 : 1 * 10 ^ t.length ≤ (0 * 10 + (b.toNat - 48)) * 10 ^ t.length := Nat.mul_le_mul_right _ (by omega)
  have h2 : (0 * 10 + (b.toNat - 48) + 1) * 10 ^ t.length ≤ 10 * 10 ^ t.length := Nat.mul_le_mul_right _ (by omega)
  rw [Nat.pow_succ, Nat.mul_comm (10 ^ t.length) 10]
  omega

theorem strip_digits (run : List UInt8) (hd : ∀ b ∈ run, sDigit b = true) : ∀ b ∈ strip run, sDigit b = true :=
  fun b hb => hd b ((List.dropWhile_sublist _).subset hb)

theorem strip_head (run : List UInt8) : ∀ b t, strip run = b :: t → b ≠ 0x30 := by
  intro b t h he
  induction run with
  | nil => simp [strip] at h
  | cons c r ih =>
    by_cases hc : c = 0x30
    · subst hc; apply ih; simpa [strip, List.dropWhile_cons] using h
    · have : strip (c :: r) = c :: r := by simp [strip, List.dropWhile_cons, hc]
      rw [this] at h
      exact hc (by rw [(List.cons.inj h).1, he])

/-- **same value ⟺ same digits after the leading zeros** -/
theorem decVal_eq_iff (r1 r2 : List UInt8) (h1 : ∀ b ∈ r1, sDigit b = true) (h2 : ∀ b ∈ r2, sDigit b = true) :
    decVal r1 = decVal r2 ↔ strip r1 = strip r2 := by
  constructor
  · intro h
    rw [decVal_strip r1, decVal_strip r2] at h
    have d1 := strip_digits r1 h1
    have d2 := strip_digits r2 h2
    have n1 := strip_head r1
    have n2 := strip_head r2
    generalize strip r1 = s1 at *
    generalize strip r2 = s2 at *
    rcases s1 with _ | ⟨b1, t1⟩ <;> rcases s2 with _ | ⟨b2, t2⟩
    · rfl
    · have := (stripped_bounds b2 t2 d2 (n2 b2 t2 rfl)).1
      have hp : 0 < 10 ^ t2.length := Nat.pow_pos (by decide)
      have h0 : decVal ([] : List UInt8) = 0 := rfl
      omega
    · have := (stripped_bounds b1 t1 d1 (n1 b1 t1 rfl)).1
      have hp : 0 < 10 ^ t1.length := Nat.pow_pos (by decide)
      have h0 : decVal ([] : List UInt8) = 0 := rfl
      omega
    · have ⟨lo1, hi1⟩ := stripped_bounds b1 t1 d1 (n1 b1 t1 rfl)
      have ⟨lo2, hi2⟩ := stripped_bounds b2 t2 d2 (n2 b2 t2 rfl)
      have hlen : t1.length = t2.length := by
        apply Decidable.byContradiction; intro hne
        rcases Nat.lt_or_gt_of_ne hne with hlt | hgt
        · have : 10 ^ (t1.length + 1) ≤ 10 ^ t2.length := Nat.pow_le_pow_right (by decide) hlt
          omega
        · have : 10 ^ (t2.length + 1) ≤ 10 ^ t1.length := Nat.pow_le_pow_right (by decide) hgt
          omega
      rw [decVal_eq, decVal_eq] at h
      exact (accN_inj _ _ 0 0 d1 d2 (by simp [hlen]) h).2
  · intro h; rw [decVal_strip r1, decVal_strip r2, h]

/-! ### keys are equal iff the strings are equal up to leading zeros of digit runs -/

/-- token of the zero-stripped tokenisation -/
inductive ZTok where
  | dig (r : List UInt8)
  | str (p : List UInt8)
deriving DecidableEq, Repr

/-- the same tokenisation as `key`, but a digit run is kept as its digits without leading zeros
(instead of its value) -/
def zkeyF : Nat → List UInt8 → List ZTok
  | _, [] => []
  | 0, _ :: _ => []
  | f+1, b :: t =>
    if sDigit b then
      .dig (strip ((b :: t).takeWhile sDigit)) :: zkeyF f ((b :: t).dropWhile sDigit)
    else
      .str ((b :: t).takeWhile (fun c => !sDigit c)) :: zkeyF f ((b :: t).dropWhile (fun c => !sDigit c))

def zkey (s : List UInt8) : List ZTok := zkeyF s.length s

theorem zkeyF_fuel : ∀ f g (s : List UInt8), s.length ≤ f → s.length ≤ g → zkeyF f s = zkeyF g s
  | _, _, [], _, _ => by simp [zkeyF]
  | 0, _, _ :: _, h, _ => by simp at h
  | _, 0, _ :: _, _, h => by simp at h
  | f+1, g+1, b :: t, hf, hg => by
    simp only [zkeyF]
    simp only [List.length_cons] at hf hg
    by_cases hb : sDigit b = true
    · have h1 : ((b :: t).dropWhile sDigit).length ≤ t.length := by
        simp only [List.dropWhile_cons, hb, if_true]; exact length_dropWhile_le _ _
      simp only [hb, if_true]
      rw [zkeyF_fuel f g ((b :: t).dropWhile sDigit) (by omega) (by omega)]
    · have h2 : ((b :: t).dropWhile (fun c => !sDigit c)).length ≤ t.length := by
        simp only [List.dropWhile_cons, hb, Bool.not_false, if_true]; exact length_dropWhile_le _ _
      simp only [hb, Bool.false_eq_true, if_false]
      rw [zkeyF_fuel f g ((b :: t).dropWhile (fun c => !sDigit c)) (by omega) (by omega)]

theorem keyF_eq_iff : ∀ f (a b : List UInt8), a.length ≤ f → b.length ≤ f →
    (keyF f a = keyF f b ↔ zkeyF f a = zkeyF f b)
  | _, [], [], _, _ => by simp [keyF, zkeyF]
  | 0, [], _ :: _, _, h => by simp at h
  | 0, _ :: _, _, h, _ => by simp at h
  | f+1, [], y :: b', _, _ => by
    by_cases hy : sDigit y = true <;> simp [keyF, zkeyF, hy]
  | f+1, x :: a', [], _, _ => by
    by_cases hx : sDigit x = true <;> simp [keyF, zkeyF, hx]
  | f+1, x :: a', y :: b', ha, hb => by
    simp only [List.length_cons] at ha hb
    simp only [keyF, zkeyF]
    by_cases hx : sDigit x = true <;> by_cases hy : sDigit y = true
    · have l1 : ((x :: a').dropWhile sDigit).length ≤ a'.length := by
        simp only [List.dropWhile_cons, hx, if_true]; exact length_dropWhile_le _ _
      have l2 : ((y :: b').dropWhile sDigit).length ≤ b'.length := by
        simp only [List.dropWhile_cons, hy, if_true]; exact length_dropWhile_le _ _
      have ih := keyF_eq_iff f ((x :: a').dropWhile sDigit) ((y :: b').dropWhile sDigit) (by omega) (by omega)
      have hv := decVal_eq_iff _ _ (takeWhile_digits (x :: a')) (takeWhile_digits (y :: b'))
      simp only [hx, hy, if_true, List.cons.injEq, Tok.num.injEq, ZTok.dig.injEq, hv, ih]
    · simp [hx, hy]
    · simp [hx, hy]
    · have l1 : ((x :: a').dropWhile (fun c => !sDigit c)).length ≤ a'.length := by
        simp only [List.dropWhile_cons, hx, Bool.not_false, if_true]; exact length_dropWhile_le _ _
      have l2 : ((y :: b').dropWhile (fun c => !sDigit c)).length ≤ b'.length := by
        simp only [List.dropWhile_cons, hy, Bool.not_false, if_true]; exact length_dropWhile_le _ _
      have ih := keyF_eq_iff f ((x :: a').dropWhile (fun c => !sDigit c)) ((y :: b').dropWhile (fun c => !sDigit c))
        (by omega) (by omega)
      simp only [hx, hy, Bool.false_eq_true, if_false, List.cons.injEq, Tok.str.injEq, ZTok.str.injEq, ih]

/-- equal keys ⟺ equal zero-stripped tokenisations -/
theorem key_eq_iff_zkey (a b : List UInt8) : key a = key b ↔ zkey a = zkey b := by
  have f1 := keyF_fuel a.length (a.length + b.length) a (Nat.le_refl _) (by omega)
  have f2 := keyF_fuel b.length (a.length + b.length) b (Nat.le_refl _) (by omega)
  have g1 := zkeyF_fuel a.length (a.length + b.length) a (Nat.le_refl _) (by omega)
  have g2 := zkeyF_fuel b.length (a.length + b.length) b (Nat.le_refl _) (by omega)
  simp only [key, zkey, f1, f2, g1, g2]
  exact keyF_eq_iff _ a b (by omega) (by omega)

end MdsVerif.Proofs.NatCmp
