/-!
# One mutex around every method body ⇒ atomic behaviour in lock-acquisition order (helper for C09)

Interleaved small-step semantics of threads calling methods whose bodies are
sequences of micro-steps on shared state, all taken while holding one lock;
`reach_inv`: in every reachable configuration the completed calls, in
lock-acquisition order, explain the shared state and every returned result as
an atomic sequential run.
-/
namespace MdsVerif.Proofs.Lock

variable {σ Loc Op Res : Type}

/-- a method body: micro-steps over (shared, local) and a result read from the local state -/
structure Body (σ Loc Res : Type) where
  steps : List (σ → Loc → σ × Loc)
  init : Loc
  ret : Loc → Res

def runSteps : List (σ → Loc → σ × Loc) → σ → Loc → σ × Loc
  | [], s, l => (s, l)
  | m :: ms, s, l => let p := m s l; runSteps ms p.1 p.2

/-- the sequential (atomic) meaning of a call -/
def atomic (b : Body σ Loc Res) (s : σ) : σ × Res :=
  let p := runSteps b.steps s b.init; (p.1, b.ret p.2)

inductive Phase (σ Loc Op Res : Type)
  | idle
  | pending (op : Op)
  | inCS (op : Op) (rest : List (σ → Loc → σ × Loc)) (l : Loc)
  | done (op : Op) (r : Res)

structure Conf (σ Loc Op Res : Type) where
  shared : σ
  lock : Option Nat
  ph : Nat → Phase σ Loc Op Res
  /-- ghost: calls whose critical section has completed, in lock-acquisition order, with results -/
  log : List (Nat × Op × Res)

def upd {β} (f : Nat → β) (t : Nat) (v : β) : Nat → β := fun x => if x = t then v else f x

variable (prog : Op → Body σ Loc Res)

/-- interleaved small-step semantics; every access to `shared` is a `micro` step of the lock holder -/
inductive Step : Conf σ Loc Op Res → Conf σ Loc Op Res → Prop
  | invoke (c t op) : c.ph t = .idle → Step c { c with ph := upd c.ph t (.pending op) }
  | acquire (c t op) : c.ph t = .pending op → c.lock = none →
      Step c { c with lock := some t, ph := upd c.ph t (.inCS op (prog op).steps (prog op).init) }
  | micro (c t op m ms l) : c.ph t = .inCS op (m :: ms) l → c.lock = some t →
      Step c { c with shared := (m c.shared l).1, ph := upd c.ph t (.inCS op ms (m c.shared l).2) }
  | release (c t op l) : c.ph t = .inCS op [] l → c.lock = some t →
      Step c { c with lock := none, ph := upd c.ph t (.done op ((prog op).ret l)),
                      log := c.log ++ [(t, op, (prog op).ret l)] }
  | respond (c t op r) : c.ph t = .done op r → Step c { c with ph := upd c.ph t .idle }

inductive Reach (c0 : Conf σ Loc Op Res) : Conf σ Loc Op Res → Prop
  | refl : Reach c0 c0
  | step {c c'} : Reach c0 c → Step prog c c' → Reach c0 c'

/-- the state reached by running the logged calls atomically, in log order -/
def seqState (s0 : σ) : List (Nat × Op × Res) → σ
  | [] => s0
  | (_, op, _) :: rest => seqState (atomic (prog op) s0).1 rest

/-- every logged result is the result of the atomic run at that point -/
def LogOK (s0 : σ) : List (Nat × Op × Res) → Prop
  | [] => True
  | (_, op, r) :: rest => r = (atomic (prog op) s0).2 ∧ LogOK (atomic (prog op) s0).1 rest

theorem seqState_append (s0 : σ) (l : List (Nat × Op × Res)) (e : Nat × Op × Res) :
    seqState prog s0 (l ++ [e]) = (atomic (prog e.2.1) (seqState prog s0 l)).1 := by
  induction l generalizing s0 with
  | nil => obtain ⟨t, op, r⟩ := e; simp [seqState]
  | cons x l ih => obtain ⟨t, op, r⟩ := x; simp [seqState, ih]

theorem logOK_append (s0 : σ) (l : List (Nat × Op × Res)) (e : Nat × Op × Res) :
    LogOK prog s0 (l ++ [e]) ↔ LogOK prog s0 l ∧ e.2.2 = (atomic (prog e.2.1) (seqState prog s0 l)).2 := by
  induction l generalizing s0 with
  | nil => obtain ⟨t, op, r⟩ := e; simp [LogOK, seqState]
  | cons x l ih => obtain ⟨t, op, r⟩ := x; simp [LogOK, seqState, ih, and_assoc]

/-- a logged result is the atomic result at its place: after the calls logged before it -/
theorem logOK_at (s0 : σ) (pre post : List (Nat × Op × Res)) (e : Nat × Op × Res)
    (h : LogOK prog s0 (pre ++ e :: post)) : e.2.2 = (atomic (prog e.2.1) (seqState prog s0 pre)).2 := by
  induction pre generalizing s0 with
  | nil => obtain ⟨t, op, r⟩ := e; exact h.1
  | cons x pre ih => obtain ⟨t, op, r⟩ := x; exact ih _ h.2

def NotInCS : Phase σ Loc Op Res → Prop
  | .inCS _ _ _ => False
  | _ => True

structure Inv (s0 : σ) (c : Conf σ Loc Op Res) : Prop where
  logok : LogOK prog s0 c.log
  free : c.lock = none → c.shared = seqState prog s0 c.log ∧ ∀ t, NotInCS (c.ph t)
  held : ∀ t, c.lock = some t →
    (∃ op ms l, c.ph t = .inCS op ms l ∧
      runSteps ms c.shared l = runSteps (prog op).steps (seqState prog s0 c.log) (prog op).init) ∧
    ∀ t', t' ≠ t → NotInCS (c.ph t')
  results : ∀ t op r, c.ph t = .done op r → (t, op, r) ∈ c.log

theorem step_inv (s0 : σ) (c c' : Conf σ Loc Op Res) (h : Inv prog s0 c) (hs : Step prog c c') :
    Inv prog s0 c' := by
  obtain ⟨hlog, hfree, hheld, hres⟩ := h
  cases hs with
  | invoke t op hph =>
    refine ⟨hlog, ?_, ?_, ?_⟩
    · intro hl
      obtain ⟨a, b⟩ := hfree hl
      refine ⟨a, fun t' => ?_⟩
      simp only [upd]; split
      · trivial
      · exact b t'
    · intro t' hl
      obtain ⟨⟨op', ms, l, e1, e2⟩, b⟩ := hheld t' hl
      have hne : t' ≠ t := by intro h; subst h; rw [hph] at e1; cases e1
      refine ⟨⟨op', ms, l, by simp [upd, hne, e1], e2⟩, fun t'' h'' => ?_⟩
      simp only [upd]; split
      · trivial
      · exact b t'' h''
    · intro t' op' r hd
      simp only [upd] at hd; split at hd
      · cases hd
      · exact hres t' op' r hd
  | acquire t op hph hl =>
    obtain ⟨a, b⟩ := hfree hl
    refine ⟨hlog, (fun h => by cases h), ?_, ?_⟩
    · intro t' hl'
      have : t' = t := by simpa using hl'.symm
      subst this
      refine ⟨⟨op, (prog op).steps, (prog op).init, by simp [upd], by rw [a]⟩, fun t'' h'' => ?_⟩
      simp only [upd, if_neg h'']; exact b t''
    · intro t' op' r hd
      simp only [upd] at hd; split at hd
      · cases hd
      · exact hres t' op' r hd
  | micro t op m ms l hph hl =>
    obtain ⟨⟨op', ms', l', e1, e2⟩, b⟩ := hheld t hl
    rw [hph] at e1; cases e1
    refine ⟨hlog, (fun h => by rw [hl] at h; cases h), ?_, ?_⟩
    · intro t' hl'
      have : t' = t := by rw [hl] at hl'; exact (Option.some.inj hl').symm
      subst this
      refine ⟨⟨op, ms, (m c.shared l).2, by simp [upd], ?_⟩, fun t'' h'' => ?_⟩
      · simpa [runSteps] using e2
      · simp only [upd, if_neg h'']; exact b t'' h''
    · intro t' op' r hd
      simp only [upd] at hd; split at hd
      · cases hd
      · exact hres t' op' r hd
  | release t op l hph hl =>
    obtain ⟨⟨op', ms', l', e1, e2⟩, b⟩ := hheld t hl
    rw [hph] at e1; cases e1
    simp only [runSteps] at e2
    have hshared : c.shared = (atomic (prog op) (seqState prog s0 c.log)).1 := by
      simp [atomic, ← e2]
    have hret : (prog op).ret l = (atomic (prog op) (seqState prog s0 c.log)).2 := by
      simp [atomic, ← e2]
    refine ⟨?_, ?_, (fun t' h => by cases h), ?_⟩
    · exact (logOK_append prog s0 c.log _).mpr ⟨hlog, hret⟩
    · intro _
      refine ⟨by rw [seqState_append]; exact hshared, fun t' => ?_⟩
      simp only [upd]; split
      · trivial
      · rename_i hne; exact b t' hne
    · intro t' op' r hd
      simp only [upd] at hd; split at hd
      · rename_i heq; cases hd; simp [heq]
      · simp only [List.mem_append]; exact Or.inl (hres t' op' r hd)
  | respond t op r hph =>
    refine ⟨hlog, ?_, ?_, ?_⟩
    · intro hl
      obtain ⟨a, b⟩ := hfree hl
      refine ⟨a, fun t' => ?_⟩
      simp only [upd]; split
      · trivial
      · exact b t'
    · intro t' hl
      obtain ⟨⟨op', ms, l, e1, e2⟩, b⟩ := hheld t' hl
      have hne : t' ≠ t := by intro h; subst h; rw [hph] at e1; cases e1
      refine ⟨⟨op', ms, l, by simp [upd, hne, e1], e2⟩, fun t'' h'' => ?_⟩
      simp only [upd]; split
      · trivial
      · exact b t'' h''
    · intro t' op' r' hd
      simp only [upd] at hd; split at hd
      · cases hd
      · exact hres t' op' r' hd

def initConf (s0 : σ) : Conf σ Loc Op Res := { shared := s0, lock := none, ph := fun _ => .idle, log := [] }

/-- **Lock linearizability**: in every reachable configuration the completed calls, taken in
    lock-acquisition order, explain the shared state (whenever the lock is free) and every result
    handed back to a caller, as an *atomic* sequential run. -/
theorem reach_inv (s0 : σ) (c : Conf σ Loc Op Res) (h : Reach prog (initConf s0) c) : Inv prog s0 c := by
  induction h with
  | refl => exact ⟨trivial, fun _ => ⟨rfl, fun _ => trivial⟩, (fun t h => by cases h), (fun t op r h => by cases h)⟩
  | step _ hs ih => exact step_inv prog s0 _ _ ih hs

end MdsVerif.Proofs.Lock
