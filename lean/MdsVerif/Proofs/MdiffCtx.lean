import MdsVerif.Proofs.Mdiff
/-!
# The context bound after `Unify` (C13): lemmas

* `ctxBoundedB_sound`: the one-pass check `Spec.Mdiff.ctxBoundedB` implies the declarative
  `Spec.Mdiff.CtxBounded` (every leading / trailing run of Emits has ≤ `n` lines, every run ≤ `2n`).
* `unify_ctx`: the chunks `UnifyChunks` returns for the result of `AddContext(n)` on non-adjacent,
  aligned, Emit-free chunks pass `ctxBoundedB n` (invariant of the merge loop: the merged chunk so
  far is a `core` that scans to the state "a change was seen, no Emit line since" — `CoreScan` —
  followed by at most `n` lines of post-context; a merge inserts one Emit of at most
  `post + pre ≤ 2n` lines between `core` and the next chunk's changes).
-/
namespace MdsVerif.Proofs.MdiffCtx
open MdsVerif.Model.Edit MdsVerif.Model.Mdiff MdsVerif.Spec.Mdiff MdsVerif.Spec
open MdsVerif.Proofs.Mdiff

variable {α : Type}

/-! ## the scan -/

theorem scan_nil (n : Nat) (seen : Bool) (run : Nat) :
    ctxScan n seen run ([] : List (Edit α)) = decide (run ≤ n) := by
  cases seen <;> rfl

theorem scan_emit (n : Nat) (seen : Bool) (run : Nat) (e : Edit α) (es : List (Edit α))
    (he : e.op = .emit) : ctxScan n seen run (e :: es) = ctxScan n seen (run + e.X.length) es := by
  rw [ctxScan, if_pos he]

theorem scan_change (n : Nat) (seen : Bool) (run : Nat) (e : Edit α) (es : List (Edit α))
    (he : e.op ≠ .emit) :
    ctxScan n seen run (e :: es) = (decide (run ≤ if seen then 2 * n else n) && ctxScan n true 0 es) := by
  rw [ctxScan, if_neg he]

theorem consumed_cons_emit (e : Edit α) (es : List (Edit α)) (he : e.op = .emit) :
    (consumed (e :: es)).length = e.X.length + (consumed es).length := by
  simp [consumed, consumedOf, he]

/-- whatever the scan accepts, the lines counted so far are within the bound that applies -/
theorem scan_bound {n : Nat} : ∀ (es : List (Edit α)) (seen : Bool) (run : Nat),
    ctxScan n seen run es = true → run ≤ (if seen then 2 * n else n)
  | [], seen, run, h => by
    rw [scan_nil] at h
    have := of_decide_eq_true h
    cases seen <;> simp <;> omega
  | e :: es, seen, run, h => by
    by_cases he : e.op = .emit
    · rw [scan_emit _ _ _ _ _ he] at h
      have := scan_bound es seen _ h
      omega
    · rw [scan_change _ _ _ _ _ he, Bool.and_eq_true] at h
      exact of_decide_eq_true h.1

theorem scan_lead {n : Nat} : ∀ (a b : List (Edit α)) (seen : Bool) (run : Nat), AllEmit a →
    ctxScan n seen run (a ++ b) = true → run + (consumed a).length ≤ (if seen then 2 * n else n)
  | [], b, seen, run, _, h => by simpa [consumed] using scan_bound _ _ _ h
  | e :: a, b, seen, run, ha, h => by
    have he : e.op = .emit := ha e (List.mem_cons_self ..)
    rw [List.cons_append, scan_emit _ _ _ _ _ he] at h
    have := scan_lead a b seen _ (fun x hx => ha x (List.mem_cons_of_mem _ hx)) h
    rw [consumed_cons_emit e a he]
    omega

theorem scan_allEmit {n : Nat} : ∀ (b : List (Edit α)) (seen : Bool) (run : Nat), AllEmit b →
    ctxScan n seen run b = decide (run + (consumed b).length ≤ n)
  | [], seen, run, _ => by rw [scan_nil]; simp [consumed]
  | e :: b, seen, run, hb => by
    have he : e.op = .emit := hb e (List.mem_cons_self ..)
    rw [scan_emit _ _ _ _ _ he, scan_allEmit b seen _ (fun x hx => hb x (List.mem_cons_of_mem _ hx)),
      consumed_cons_emit e b he, Nat.add_assoc]

theorem scan_tail {n : Nat} (e : Edit α) (es : List (Edit α)) (seen : Bool) (run : Nat)
    (h : ctxScan n seen run (e :: es) = true) : ∃ s r, ctxScan n s r es = true := by
  by_cases he : e.op = .emit
  · rw [scan_emit _ _ _ _ _ he] at h; exact ⟨_, _, h⟩
  · rw [scan_change _ _ _ _ _ he, Bool.and_eq_true] at h; exact ⟨_, _, h.2⟩

theorem scan_trail {n : Nat} : ∀ (a b : List (Edit α)) (seen : Bool) (run : Nat), AllEmit b →
    ctxScan n seen run (a ++ b) = true → (consumed b).length ≤ n
  | [], b, seen, run, hb, h => by
    rw [List.nil_append, scan_allEmit b seen run hb] at h
    have := of_decide_eq_true h
    omega
  | e :: a, b, seen, run, hb, h => by
    obtain ⟨s, r, h'⟩ := scan_tail e (a ++ b) seen run h
    exact scan_trail a b s r hb h'

theorem scan_mid {n : Nat} : ∀ (a b c : List (Edit α)) (seen : Bool) (run : Nat), AllEmit b →
    ctxScan n seen run (a ++ b ++ c) = true → (consumed b).length ≤ 2 * n
  | [], b, c, seen, run, hb, h => by
    rw [List.nil_append] at h
    have := scan_lead b c seen run hb h
    cases seen <;> simp at this <;> omega
  | e :: a, b, c, seen, run, hb, h => by
    obtain ⟨s, r, h'⟩ := scan_tail e (a ++ b ++ c) seen run (by simpa using h)
    exact scan_mid a b c s r hb h'

/-- the one-pass check implies the declarative context clause -/
theorem ctxBoundedB_sound {n : Nat} {es : List (Edit α)} (h : ctxBoundedB n es = true) :
    CtxBounded n es := by
  unfold ctxBoundedB at h
  refine ⟨?_, ?_, ?_⟩
  · intro a b e ha
    subst e
    simpa using scan_lead a b false 0 ha h
  · intro a b e hb
    subst e
    exact scan_trail a b false 0 hb h
  · intro a b c e hb
    subst e
    exact scan_mid a b c false 0 hb h

/-! ## the merge loop -/

/-- scanning `es` from the start passes every check and ends in the state "a change was seen, no
Emit line since" -/
def CoreScan (n : Nat) (es : List (Edit α)) : Prop :=
  ∀ rest, ctxScan n false 0 (es ++ rest) = ctxScan n true 0 rest

theorem scan_emitOpt (n : Nat) (seen : Bool) (run : Nat) (p : List α) (rest : List (Edit α)) :
    ctxScan n seen run (emitOpt p ++ rest) = ctxScan n seen (run + p.length) rest := by
  unfold emitOpt
  by_cases h : p = []
  · subst h; simp
  · rw [if_neg h, List.singleton_append, scan_emit _ _ _ _ _ rfl]

theorem scan_changes (n : Nat) : ∀ (xs rest : List (Edit α)), (∀ e ∈ xs, e.op ≠ .emit) →
    ctxScan n true 0 (xs ++ rest) = ctxScan n true 0 rest
  | [], _, _ => rfl
  | x :: xs, rest, hx => by
    rw [List.cons_append, scan_change _ _ _ _ _ (hx x (List.mem_cons_self ..)),
      scan_changes n xs rest (fun e he => hx e (List.mem_cons_of_mem _ he))]
    simp

theorem scan_changes_ne (n : Nat) (seen : Bool) (run : Nat) (xs rest : List (Edit α))
    (hne : xs ≠ []) (hx : ∀ e ∈ xs, e.op ≠ .emit) (hrun : run ≤ if seen then 2 * n else n) :
    ctxScan n seen run (xs ++ rest) = ctxScan n true 0 rest := by
  obtain ⟨x, xs', rfl⟩ := List.exists_cons_of_ne_nil hne
  rw [List.cons_append, scan_change _ _ _ _ _ (hx x (List.mem_cons_self ..)),
    scan_changes n xs' rest (fun e he => hx e (List.mem_cons_of_mem _ he)), decide_eq_true hrun]
  simp

/-- a chunk of `New` with its pre-context -/
theorem coreScan_of_ctx {n : Nat} {c : Chunk α} {pre : List α} (hpre : pre.length ≤ n)
    (hcne : c.edits ≠ []) (hcno : ∀ e ∈ c.edits, e.op ≠ .emit) :
    CoreScan n (emitOpt pre ++ c.edits) := by
  intro rest
  rw [List.append_assoc, scan_emitOpt, scan_changes_ne n false _ c.edits rest hcne hcno (by simpa using hpre)]

/-- a merge: one Emit of at most `2n` lines, then the next chunk's changes -/
theorem coreScan_merge {n : Nat} {es : List (Edit α)} {c : Chunk α} {mid : List α}
    (h : CoreScan n es) (hmid : mid.length ≤ 2 * n)
    (hcne : c.edits ≠ []) (hcno : ∀ e ∈ c.edits, e.op ≠ .emit) :
    CoreScan n (es ++ [⟨.emit, mid, []⟩] ++ c.edits) := by
  intro rest
  rw [List.append_assoc, List.append_assoc, h, List.singleton_append, scan_emit _ _ _ _ _ rfl,
    scan_changes_ne n true _ c.edits rest hcne hcno (by simpa using hmid)]

/-- the finished chunk -/
theorem coreScan_mkLast {n : Nat} {core : Chunk α} {post : List α} (h : CoreScan n core.edits)
    (hpost : post.length ≤ n) : ctxBoundedB n (mkLast core post).edits = true := by
  show ctxScan n false 0 (core.edits ++ emitOpt post) = true
  rw [h, ← List.append_nil (emitOpt post), scan_emitOpt, scan_nil]
  exact decide_eq_true (by omega)

theorem unifyLoop_ctx {L R : List α} {n : Nat} : ∀ (rest rest' init : List (Chunk α))
    (core : Chunk α) (post : List α),
    LastInv L R core post → AllOK rest L R →
    (∀ c ∈ rest, c.edits ≠ [] ∧ ∀ e ∈ c.edits, e.op ≠ .emit) →
    (∀ d ∈ rest.head?, core.lend < d.lstart) → NonAdjacent rest →
    Aligned L R core.lend core.rend rest → CtxRel L R n core.lend rest rest' →
    PostBound L core.lend post rest →
    CoreScan n core.edits → post.length ≤ n → (∀ d ∈ init, ctxBoundedB n d.edits = true) →
    ∃ u, unifyLoop init (mkLast core post) rest' = .ok u ∧ ∀ d ∈ u, ctxBoundedB n d.edits = true
  | [], [], init, core, post, _, _, _, _, _, _, _, _, hcs, hpn, hinit => by
    refine ⟨init ++ [mkLast core post], rfl, ?_⟩
    intro d hd
    rcases List.mem_append.1 hd with hd | hd
    · exact hinit d hd
    · have : d = mkLast core post := by simpa using hd
      rw [this]; exact coreScan_mkLast hcs hpn
  | [], _ :: _, _, _, _, _, _, _, _, _, _, h, _, _, _, _ => h.elim
  | _ :: _, [], _, _, _, _, _, _, _, _, _, h, _, _, _, _ => h.elim
  | c :: cs, c' :: cs', init, core, post, hl, hok, hne, hhead, hna, hal, hrel, hpb, hcs, hpn, hinit => by
    obtain ⟨⟨pre2, post2, rfl, hf, hpre2n, hpost2n, hpre, hpb2⟩, hrel2⟩ := hrel
    obtain ⟨hgap, hal2⟩ := hal
    have hc := hok c (List.mem_cons_self ..)
    have hok2 : AllOK cs L R := fun d hd => hok d (List.mem_cons_of_mem _ hd)
    have hne2 : ∀ c ∈ cs, c.edits ≠ [] ∧ ∀ e ∈ c.edits, e.op ≠ .emit :=
      fun d hd => hne d (List.mem_cons_of_mem _ hd)
    obtain ⟨hcne, hcno⟩ := hne c (List.mem_cons_self ..)
    obtain ⟨hhead2, hna2⟩ := nonAdjacent_cons hna
    have hstrict : core.lend < c.lstart := hhead c rfl
    have hpost : post.length ≤ c.lstart - core.lend := hpb
    rw [unifyLoop]
    by_cases hgt : (withCtx c pre2 post2).lstart > (mkLast core post).lend
    · rw [if_pos hgt]
      obtain ⟨hl2, heq⟩ := lastInv_of_ctx hc hf hcne hcno
      rw [heq]
      refine unifyLoop_ctx cs cs' (init ++ [mkLast core post]) _ post2 hl2 hok2 hne2 hhead2 hna2 hal2
        hrel2 hpb2 (coreScan_of_ctx hpre2n hcne hcno) hpost2n ?_
      intro d hd
      rcases List.mem_append.1 hd with hd | hd
      · exact hinit d hd
      · have : d = mkLast core post := by simpa using hd
        rw [this]; exact coreScan_mkLast hcs hpn
    · rw [if_neg hgt]
      rw [withCtx_eq] at hgt
      have hgt : ¬ c.lstart - pre2.length > core.lend + post.length := hgt
      obtain ⟨core', hm, hl', b1, b2, b3, b4, mid, hmid, hmidlen⟩ :=
        merge_spec hl hc hf hcne hcno hgap hstrict hpre (by omega)
      rw [hm]
      simp only []
      rw [← b3] at hhead2 hrel2 hpb2 hal2
      rw [← b4] at hal2
      refine unifyLoop_ctx cs cs' init core' post2 hl' hok2 hne2 hhead2 hna2 hal2 hrel2 hpb2 ?_ hpost2n hinit
      rw [hmid]
      exact coreScan_merge hcs (by omega) hcne hcno

/-- **the context bound after `Unify`**: the chunks `UnifyChunks` returns for the result of
`AddContext(n)` (`CtxRel`) on correct, non-adjacent, aligned, non-empty, Emit-free chunks all pass
`ctxBoundedB n` -/
theorem unify_ctx {L R : List α} {n : Nat} {cs cs' : List (Chunk α)} (hok : AllOK cs L R)
    (hna : NonAdjacent cs) (hal : Aligned L R 1 1 cs)
    (hne : ∀ c ∈ cs, c.edits ≠ [] ∧ ∀ e ∈ c.edits, e.op ≠ .emit)
    (hrel : CtxRel L R n 1 cs cs') :
    ∃ u, unifyChunks cs' = .ok u ∧ ∀ d ∈ u, ctxBoundedB n d.edits = true := by
  match cs, cs', hrel with
  | [], [], _ => exact ⟨[], rfl, by intro d hd; cases hd⟩
  | c :: rest, c' :: rest', hrel =>
    obtain ⟨⟨pre, post, rfl, hf, hpren, hpostn, hpre, hpb⟩, hrel2⟩ := hrel
    obtain ⟨hgap, hal2⟩ := hal
    have hc := hok c (List.mem_cons_self ..)
    obtain ⟨hcne, hcno⟩ := hne c (List.mem_cons_self ..)
    obtain ⟨hhead, hna2⟩ := nonAdjacent_cons hna
    obtain ⟨hl, heq⟩ := lastInv_of_ctx hc hf hcne hcno
    obtain ⟨u, hrun, hu⟩ :=
      unifyLoop_ctx rest rest' [] _ post hl (fun d hd => hok d (List.mem_cons_of_mem _ hd))
        (fun d hd => hne d (List.mem_cons_of_mem _ hd)) hhead hna2 hal2 hrel2 hpb
        (coreScan_of_ctx hpren hcne hcno) hpostn (by intro d hd; cases hd)
    exact ⟨u, by rw [unifyChunks, heq, hrun], hu⟩

end MdsVerif.Proofs.MdiffCtx
