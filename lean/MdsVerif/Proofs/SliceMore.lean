import MdsVerif.Model.SliceMore
import MdsVerif.Proofs.Slice
import MdsVerif.Proofs.Partition
/-!
# Lemmas for `Dedup` (`slices.Compact`), `Reverse`, `Zero`, `Select`, `MatchingKeys`, `MapKeys`

* `uniqFrom` / `uniq`: the first element of each run (the reference the loops are proved against).
* Inner loop of `Compact` (`compactInner_spec`): entered at the first duplicate `k0`, with read
  position `k0 + k2` and write position `k < k0 + k2`, it leaves
  `s.take k ++ uniqFrom s[k0+k2-1] (s.drop (k0+k2))` in front; the aliasing `s2 = s[k0:]` is harmless
  because the write position stays strictly behind the read position.
* Outer loop (`compactOuter_spec`): invariant `uniq s = s.take k ++ uniqFrom s[k-1] (s.drop k)`.
* `Reverse`: invariant `s = A ++ M ++ C ↦ A ++ M.reverse ++ C` with `|A| = i`, `|A| + |M| - 1 = j`.
-/
namespace MdsVerif.Proofs.SliceMore
open MdsVerif.Model.Slice MdsVerif.Model.SliceMore MdsVerif.Proofs.Slice MdsVerif.Proofs.Partition

variable {α : Type}

/-! ### the reference: first element of each run -/

/-- drop every element equal to its predecessor (`prev` for the first) -/
def uniqFrom [DecidableEq α] (prev : α) : List α → List α
  | [] => []
  | b :: t => if b = prev then uniqFrom prev t else b :: uniqFrom b t

/-- the first element of each run of identical elements -/
def uniq [DecidableEq α] : List α → List α
  | [] => []
  | a :: t => a :: uniqFrom a t

theorem uniqFrom_length_le [DecidableEq α] : ∀ (l : List α) (p : α), (uniqFrom p l).length ≤ l.length
  | [], _ => by simp [uniqFrom]
  | b :: t, p => by
    unfold uniqFrom
    split
    · have := uniqFrom_length_le t p; simp only [List.length_cons]; omega
    · have := uniqFrom_length_le t b; simp only [List.length_cons]; omega

/-! ### small list facts -/

variable [Inhabited α]

theorem getD_lt (s : List α) (i : Nat) (h : i < s.length) : s.getD i default = s[i] := by
  rw [List.getD_eq_getElem?_getD, List.getElem?_eq_getElem h]; rfl

theorem drop_cons_getD (s : List α) (i : Nat) (h : i < s.length) :
    s.drop i = s.getD i default :: s.drop (i + 1) := by
  rw [getD_lt s i h]; exact List.drop_eq_getElem_cons h

omit [Inhabited α] in
theorem take_succ_set (s : List α) (k : Nat) (x : α) (h : k < s.length) :
    (s.set k x).take (k + 1) = s.take k ++ [x] := by
  apply List.ext_getElem?
  intro i
  simp only [List.getElem?_take, List.getElem?_set, List.getElem?_append, List.length_take]
  by_cases h1 : i < k
  · have : ¬ k = i := by omega
    simp [h1, this, Nat.min_eq_left (Nat.le_of_lt h)]; omega
  · by_cases h2 : i = k
    · subst h2; simp [h, Nat.min_eq_left (Nat.le_of_lt h)]
    · have h3 : ¬ i < k + 1 := by omega
      have h4 : ¬ i < min k s.length := by omega
      simp [h3, h4]
      omega

/-! ### Compact: inner loop -/

theorem compactInner_spec [DecidableEq α] (k0 : Nat) : ∀ (f : Nat) (s : List α) (k k2 : Nat),
    1 ≤ k2 → k + 1 ≤ k0 + k2 → k0 + k2 ≤ s.length → s.length - (k0 + k2) ≤ f →
    ∃ s' k', compactInner k0 f s k k2 = some (s', k') ∧ s'.length = s.length ∧
      k' + (k0 + k2) ≤ k + s.length ∧
      s'.take k' = s.take k ++ uniqFrom (s.getD (k0 + k2 - 1) default) (s.drop (k0 + k2)) := by
  intro f
  induction f with
  | zero =>
    intro s k k2 h1 h2 h3 h4
    have e : k0 + k2 = s.length := by omega
    refine ⟨s, k, ?_, rfl, by omega, ?_⟩
    · unfold compactInner; rw [if_neg (by omega)]
    · rw [e, List.drop_length]; simp [uniqFrom]
  | succ f ih =>
    intro s k k2 h1 h2 h3 h4
    unfold compactInner
    by_cases hlt : k2 < s.length - k0
    · rw [if_pos hlt]
      have hr : k0 + k2 < s.length := by omega
      rw [drop_cons_getD s (k0 + k2) hr]
      by_cases hne : s.getD (k0 + k2) default ≠ s.getD (k0 + k2 - 1) default
      · rw [if_pos hne]
        obtain ⟨s', k', e1, e2, e3, e4⟩ := ih (s.set k (s.getD (k0 + k2) default)) (k + 1) (k2 + 1)
          (by omega) (by omega) (by rw [List.length_set]; omega) (by rw [List.length_set]; omega)
        refine ⟨s', k', e1, by rw [e2, List.length_set], by rw [List.length_set] at e3; omega, ?_⟩
        rw [e4, take_succ_set s k _ (by omega)]
        have g1 : (s.set k (s.getD (k0 + k2) default)).getD (k0 + (k2 + 1) - 1) default
            = s.getD (k0 + k2) default := by
          have : k0 + (k2 + 1) - 1 = k0 + k2 := by omega
          rw [this, List.getD_eq_getElem?_getD, List.getElem?_set_ne (by omega), ← List.getD_eq_getElem?_getD]
        have g2 : (s.set k (s.getD (k0 + k2) default)).drop (k0 + (k2 + 1)) = s.drop (k0 + k2 + 1) := by
          rw [List.drop_set_of_lt (by omega)]; rfl
        rw [g1, g2]
        simp only [uniqFrom, if_neg hne, List.append_assoc, List.singleton_append]
      · rw [if_neg hne]
        have heq : s.getD (k0 + k2) default = s.getD (k0 + k2 - 1) default := by
          exact Classical.not_not.mp hne
        obtain ⟨s', k', e1, e2, e3, e4⟩ := ih s k (k2 + 1) (by omega) (by omega) (by omega) (by omega)
        refine ⟨s', k', e1, e2, by omega, ?_⟩
        rw [e4]
        have : k0 + (k2 + 1) - 1 = k0 + k2 := by omega
        rw [this]
        simp only [uniqFrom, if_pos heq]
        rw [heq]; rfl
    · rw [if_neg hlt]
      have e : k0 + k2 = s.length := by omega
      refine ⟨s, k, rfl, rfl, by omega, ?_⟩
      rw [e, List.drop_length]; simp [uniqFrom]

/-! ### Compact: outer loop -/

/-- what `slices.Compact` leaves: `w` the window afterwards, `r` the returned length (`none` = `return s`) -/
def CompactPost [DecidableEq α] (s w : List α) (r : Option Nat) : Prop :=
  w.length = s.length ∧
  ((r = none ∧ w = s ∧ uniq s = s) ∨
   (∃ k', r = some k' ∧ k' < s.length ∧ (uniq s).length = k' ∧
      w = uniq s ++ List.replicate (s.length - k') default))

theorem compactOuter_spec [DecidableEq α] : ∀ (f : Nat) (s : List α) (k : Nat),
    1 ≤ k → k ≤ s.length → s.length - k ≤ f →
    uniq s = s.take k ++ uniqFrom (s.getD (k - 1) default) (s.drop k) →
    ∃ w r, compactOuter f s k = .ok (w, r) ∧ CompactPost s w r := by
  intro f
  induction f with
  | zero =>
    intro s k h1 h2 h3 inv
    have e : k = s.length := by omega
    refine ⟨s, none, by unfold compactOuter; rw [if_neg (by omega)], rfl, Or.inl ⟨rfl, rfl, ?_⟩⟩
    rw [inv, e, List.drop_length, List.take_length]; simp [uniqFrom]
  | succ f ih =>
    intro s k h1 h2 h3 inv
    unfold compactOuter
    by_cases hlt : k < s.length
    · rw [if_pos hlt]
      rw [drop_cons_getD s k hlt] at inv
      by_cases heq : s.getD k default = s.getD (k - 1) default
      · rw [if_pos heq]
        obtain ⟨s', k', e1, e2, e3, e4⟩ := compactInner_spec k s.length s k 1 (by omega) (by omega) (by omega) (by omega)
        rw [e1]
        have hk' : k' < s.length := by omega
        have hu : uniq s = s'.take k' := by
          rw [inv, e4]
          simp only [uniqFrom, if_pos heq, Nat.add_sub_cancel]
          rw [← heq]
        have hul : (uniq s).length = k' := by
          rw [hu, List.length_take, e2]; omega
        refine ⟨clearFrom s' k', some k', rfl, ?_, Or.inr ⟨k', rfl, hk', hul, ?_⟩⟩
        · simp only [clearFrom, List.length_append, List.length_take, List.length_replicate, e2]; omega
        · simp only [clearFrom, e2, hu]
      · rw [if_neg heq]
        refine ih s (k + 1) (by omega) (by omega) (by omega) ?_
        rw [inv]
        simp only [uniqFrom, if_neg heq, Nat.add_sub_cancel]
        rw [List.take_succ_eq_append_getElem hlt, getD_lt s k hlt, List.append_assoc]
        rfl
    · rw [if_neg hlt]
      have e : k = s.length := by omega
      refine ⟨s, none, rfl, rfl, Or.inl ⟨rfl, rfl, ?_⟩⟩
      rw [inv, e, List.drop_length, List.take_length]; simp [uniqFrom]

theorem compactW_spec [DecidableEq α] (s : List α) :
    ∃ w r, compactW s = .ok (w, r) ∧ CompactPost s w r := by
  unfold compactW
  by_cases h : s.length < 2
  · rw [if_pos h]
    refine ⟨s, none, rfl, rfl, Or.inl ⟨rfl, rfl, ?_⟩⟩
    match s, h with
    | [], _ => rfl
    | [a], _ => rfl
  · rw [if_neg h]
    refine compactOuter_spec s.length s 1 (by omega) (by omega) (by omega) ?_
    match s, h with
    | [], h => simp at h
    | a :: t, _ => simp [uniq]

/-! ### Reverse -/

theorem reverseLoop_spec : ∀ (f : Nat) (A M C : List α), M.length ≤ 2 * f + 1 →
    reverseLoop f (A ++ M ++ C) A.length (((A.length + M.length : Nat) : Int) - 1)
      = some (A ++ M.reverse ++ C) := by
  intro f
  induction f with
  | zero =>
    intro A M C h
    unfold reverseLoop
    rw [if_neg (by omega)]
    match M, h with
    | [], _ => rfl
    | [a], _ => rfl
  | succ f ih =>
    intro A M C h
    unfold reverseLoop
    match M, h with
    | [], _ => rw [if_neg (by simp only [List.length_nil]; omega)]; rfl
    | [a], _ => rw [if_neg (by simp only [List.length_cons, List.length_nil]; omega)]; rfl
    | x :: y :: t, h =>
      rw [if_pos (by simp only [List.length_cons]; omega)]
      -- M = x :: (B ++ [z])
      have hne : y :: t ≠ [] := by simp
      obtain ⟨B, z, hB⟩ : ∃ B z, y :: t = B ++ [z] :=
        ⟨(y :: t).dropLast, (y :: t).getLast hne, (List.dropLast_concat_getLast hne).symm⟩
      rw [hB]
      have hlen : (y :: t).length = B.length + 1 := by rw [hB]; simp
      have hj : ((((A.length + (x :: (B ++ [z])).length : Nat) : Int) - 1)).toNat = A.length + (B.length + 1) := by
        simp only [List.length_cons, List.length_append, List.length_nil]; omega
      rw [hj]
      have e1 : A ++ x :: (B ++ [z]) ++ C = A ++ x :: (B ++ z :: C) := by simp
      rw [e1, swap_decomp A B C x z]
      have e2 : A ++ z :: (B ++ x :: C) = (A ++ [z]) ++ B ++ (x :: C) := by simp
      have e3 : (((A.length + (x :: (B ++ [z])).length : Nat) : Int) - 1 - 1)
          = (((A ++ [z]).length + B.length : Nat) : Int) - 1 := by
        simp only [List.length_cons, List.length_append, List.length_nil]; omega
      have e4 : A.length + 1 = (A ++ [z]).length := by simp
      rw [e2, e3, e4, ih (A ++ [z]) B (x :: C) (by have := hlen; simp only [List.length_cons] at h this; omega)]
      simp

theorem reverseW_spec (s : List α) : reverseW s = .ok s.reverse := by
  have := reverseLoop_spec s.length [] s [] (by omega)
  simp only [List.nil_append, List.append_nil, List.length_nil, Nat.zero_add] at this
  unfold reverseW
  rw [this]

/-! ### Zero -/

theorem zeroLoop_spec : ∀ (c : Nat) (A M : List α), M.length = c →
    zeroLoop c (A ++ M) A.length = A ++ List.replicate c default := by
  intro c
  induction c with
  | zero => intro A M h; simp [zeroLoop, List.eq_nil_of_length_eq_zero h]
  | succ c ih =>
    intro A M h
    match M, h with
    | x :: M', h =>
      unfold zeroLoop
      rw [List.set_append_right _ _ (by omega)]
      simp only [Nat.sub_self, List.set_cons_zero]
      have e : A ++ default :: M' = (A ++ [default]) ++ M' := by simp
      have e2 : A.length + 1 = (A ++ [(default : α)]).length := by simp
      rw [e, e2, ih (A ++ [default]) M' (by simpa using h)]
      simp [List.replicate_succ]

theorem zeroW_spec (s : List α) : zeroW s = List.replicate s.length default := by
  have := zeroLoop_spec s.length [] s rfl
  simpa [zeroW] using this

/-! ### Select / MatchingKeys / MapKeys -/

variable {σ κ υ : Type}

/-- run a loop body over a delivered sequence until it asks to stop -/
def forEachUntil (yield : σ → α → σ × Bool) : List α → σ → σ
  | [], st => st
  | v :: vs, st => if (yield st v).2 then forEachUntil yield vs (yield st v).1 else (yield st v).1

omit [Inhabited α] in
theorem selectLoop_fst (f : α → Bool) (yield : σ → α → σ × Bool) :
    ∀ (vs : List α) (st : σ) (n : Nat),
      (selectLoop f yield vs st n).1 = forEachUntil yield (vs.filter f) st := by
  intro vs
  induction vs with
  | nil => intro st n; rfl
  | cons v vs ih =>
    intro st n
    unfold selectLoop
    by_cases hf : f v = true
    · rw [if_pos hf, List.filter_cons_of_pos hf]
      unfold forEachUntil
      by_cases hy : (yield st v).2 = true
      · simp only [hy, if_true]; exact ih _ _
      · simp only [hy]; rfl
    · rw [if_neg hf, List.filter_cons_of_neg hf]; exact ih _ _

omit [Inhabited α] in
/-- the number of elements visited never exceeds the length, and is the whole length when the body never stops -/
theorem selectLoop_snd (f : α → Bool) (yield : σ → α → σ × Bool) :
    ∀ (vs : List α) (st : σ) (n : Nat),
      (selectLoop f yield vs st n).2 ≤ n + vs.length ∧
      ((∀ st v, (yield st v).2 = true) → (selectLoop f yield vs st n).2 = n + vs.length) := by
  intro vs
  induction vs with
  | nil => intro st n; exact ⟨Nat.le_refl _, fun _ => rfl⟩
  | cons v vs ih =>
    intro st n
    unfold selectLoop
    simp only [List.length_cons]
    by_cases hf : f v = true
    · rw [if_pos hf]
      by_cases hy : (yield st v).2 = true
      · simp only [hy, if_true]
        have := ih (yield st v).1 (n + 1)
        exact ⟨by omega, fun h => by rw [this.2 h]; omega⟩
      · simp only [hy]
        exact ⟨by show n + 1 ≤ n + (vs.length + 1); omega, fun h => absurd (h st v) hy⟩
    · rw [if_neg hf]
      have := ih st (n + 1)
      exact ⟨by omega, fun h => by rw [this.2 h]; omega⟩

omit [Inhabited α] in
theorem matchingLoop_eq_select (f : υ → Bool) (yield : σ → κ → σ × Bool) :
    ∀ (it : List (κ × υ)) (st : σ) (n : Nat),
      (matchingLoop f yield it st n).1
        = forEachUntil yield ((it.filter fun kv => f kv.2).map (·.1)) st := by
  intro it
  induction it with
  | nil => intro st n; rfl
  | cons kv it ih =>
    intro st n
    unfold matchingLoop
    by_cases hf : f kv.2 = true
    · rw [if_pos hf, List.filter_cons_of_pos (by simpa using hf), List.map_cons]
      unfold forEachUntil
      by_cases hy : (yield st kv.1).2 = true
      · simp only [hy, if_true]; exact ih _ _
      · simp only [hy]; rfl
    · rw [if_neg hf, List.filter_cons_of_neg (by simpa using hf)]; exact ih _ _

omit [Inhabited α] in
/-- the collecting body: what is collected from a delivered sequence `l` -/
theorem forEachUntil_collect (lim : Nat) : ∀ (l out : List α), (lim = 0 ∨ out.length < lim) →
    forEachUntil (collect lim) l out = out ++ (if lim = 0 then l else l.take (lim - out.length)) := by
  intro l
  induction l with
  | nil => intro out _; simp [forEachUntil]
  | cons v l ih =>
    intro out h
    unfold forEachUntil
    simp only [collect, decide_eq_true_eq]
    by_cases hs : out.length + 1 ≠ lim
    · rw [if_pos hs, ih (out ++ [v]) (by simp only [List.length_append, List.length_singleton]; omega)]
      by_cases h0 : lim = 0
      · simp [h0]
      · simp only [h0, if_false, List.length_append, List.length_singleton]
        have : lim - out.length = (lim - (out.length + 1)) + 1 := by omega
        rw [this, List.take_succ_cons]; simp
    · rw [if_neg hs]
      have hl : lim = out.length + 1 := by omega
      have h0 : lim ≠ 0 := by omega
      simp only [h0, if_false]
      have : lim - out.length = 1 := by omega
      rw [this]; simp

theorem foldl_keys (it : List (κ × υ)) : ∀ (acc : List κ),
    it.foldl (fun keys kv => keys ++ [kv.1]) acc = acc ++ it.map (·.1) := by
  induction it with
  | nil => intro acc; simp
  | cons kv it ih => intro acc; simp [ih]

end MdsVerif.Proofs.SliceMore
