import MdsVerif.Model.Stree
import Mathlib.Tactic.Ring
import Mathlib.Tactic.Linarith
/-!
# C02: the exact integer depth limit `exactLimit β n = ⌊log_{2000/(1000+β)} n⌋`

For β < 1000 and n ≥ 1 the doubling + binary search returns the largest `k` with
`2000^k ≤ n·(1000+β)^k` (`exactLimit_spec`); consequently it dominates `⌊log₂ n⌋` and is monotone.
-/
namespace MdsVerif.Proofs.Stree.Limit
open MdsVerif.Model.Stree MdsVerif.Gen

/-- `k ≤ log_{2000/(1000+β)} n` -/
def P (β n k : Nat) : Prop := 2000 ^ k ≤ n * (β + 1000) ^ k

theorem limOk_iff (β n k : Nat) : limOk β n k = true ↔ P β n k := by
  simp only [limOk, P, Stree.fracDen, Stree.fracLimit, Stree.maxBalance, Stree.fracNum]
  exact decide_eq_true_iff

theorem P_zero {β n : Nat} (hn : 1 ≤ n) : P β n 0 := by simp [P]; omega

theorem P_succ {β n k : Nat} (hβ : β < 1000) (h : P β n (k+1)) : P β n k := by
  unfold P at *
  rw [pow_succ, pow_succ] at h
  by_contra hc
  have hc' : n * (β + 1000) ^ k < 2000 ^ k := Nat.lt_of_not_le hc
  have h1 : n * (β + 1000) ^ k * (β + 1000) < 2000 ^ k * (β + 1000) :=
    Nat.mul_lt_mul_of_pos_right hc' (by omega)
  have h2 : 2000 ^ k * (β + 1000) ≤ 2000 ^ k * 2000 := Nat.mul_le_mul_left _ (by omega)
  have h3 : n * ((β + 1000) ^ k * (β + 1000)) = n * (β + 1000) ^ k * (β + 1000) := by ring
  omega

theorem P_anti {β n : Nat} (hβ : β < 1000) : ∀ {k k' : Nat}, k ≤ k' → P β n k' → P β n k := by
  intro k k' hk
  induction hk with
  | refl => exact id
  | step _ ih => intro h; exact ih (P_succ hβ h)

theorem P_mono_n {β a b k : Nat} (hab : a ≤ b) (h : P β a k) : P β b k :=
  Nat.le_trans h (Nat.mul_le_mul_right _ hab)

theorem P_log {β n j : Nat} (h : 2 ^ j ≤ n) : P β n j := by
  unfold P
  have e : (2000 : Nat) ^ j = 2 ^ j * 1000 ^ j := by rw [← Nat.mul_pow]
  rw [e]
  exact Nat.mul_le_mul h (Nat.pow_le_pow_left (by omega) j)

theorem bernoulli : ∀ k : Nat, (1999 + k) * 1999 ^ k ≤ 1999 * 2000 ^ k := by
  intro k
  induction k with
  | zero => simp
  | succ k ih =>
    rw [pow_succ, pow_succ]
    have hp : 0 ≤ k * 1999 ^ k := Nat.zero_le _
    nlinarith [ih, hp]

/-- beyond `1999·n` nothing is below the logarithm -/
theorem not_P_big {β n K : Nat} (hβ : β < 1000) (hn : 1 ≤ n) (hK : 1999 * n ≤ K) : ¬ P β n K := by
  intro h
  unfold P at h
  have h1 : (β + 1000) ^ K ≤ 1999 ^ K := Nat.pow_le_pow_left (by omega) K
  have h2 : n * (β + 1000) ^ K ≤ n * 1999 ^ K := Nat.mul_le_mul_left _ h1
  have hb := bernoulli K
  have hpos : 0 < 1999 ^ K := Nat.pow_pos (by omega)
  have h3 : 1999 * (n * 1999 ^ K) < (1999 + K) * 1999 ^ K := by
    have : 1999 * n < 1999 + K := by omega
    calc 1999 * (n * 1999 ^ K) = (1999 * n) * 1999 ^ K := by ring
      _ < (1999 + K) * 1999 ^ K := Nat.mul_lt_mul_of_pos_right this hpos
  have h4 : 1999 * 2000 ^ K ≤ 1999 * (n * 1999 ^ K) := Nat.mul_le_mul_left _ (Nat.le_trans h h2)
  omega

theorem limDouble_spec (β n : Nat) : ∀ (fuel m : Nat),
    (∃ m', m ≤ m' ∧ m' < m + fuel ∧ ¬ P β n (2 ^ m')) → ¬ P β n (2 ^ (limDouble β n fuel m)) := by
  intro fuel
  induction fuel with
  | zero => intro m ⟨m', h1, h2, _⟩; omega
  | succ f ih =>
    intro m ⟨m', h1, h2, h3⟩
    by_cases hm : limOk β n (2 ^ m) = true
    · simp only [limDouble, hm, if_true]
      apply ih
      refine ⟨m', ?_, by omega, h3⟩
      rcases Nat.eq_or_lt_of_le h1 with e | e
      · subst e; exact absurd ((limOk_iff _ _ _).mp hm) h3
      · omega
    · simp only [limDouble, hm]
      rw [limOk_iff] at hm
      simpa using hm

theorem limSearch_spec (β n : Nat) : ∀ (i k : Nat), P β n k → ¬ P β n (k + 2 ^ i) →
    P β n (limSearch β n i k) ∧ ¬ P β n (limSearch β n i k + 1) := by
  intro i
  induction i with
  | zero => intro k h1 h2; simp only [limSearch]; exact ⟨h1, by simpa using h2⟩
  | succ i ih =>
    intro k h1 h2
    by_cases hm : limOk β n (k + 2 ^ i) = true
    · simp only [limSearch, hm, if_true]
      apply ih _ ((limOk_iff _ _ _).mp hm)
      rw [pow_succ] at h2
      have : k + 2 ^ i + 2 ^ i = k + 2 ^ i * 2 := by omega
      rw [this]; exact h2
    · simp only [limSearch, hm]
      rw [limOk_iff] at hm
      exact ih _ h1 hm

/-- **`exactLimit` is the floor of the logarithm** to base 2000/(1000+β) -/
theorem exactLimit_spec {β n : Nat} (hβ : β < 1000) (hn : 1 ≤ n) :
    P β n (exactLimit β n) ∧ ¬ P β n (exactLimit β n + 1) := by
  have hlt : ¬ (Stree.fracNum β ≥ Stree.fracDen) := by
    simp [Stree.fracNum, Stree.fracDen, Stree.fracLimit, Stree.maxBalance]; omega
  simp only [exactLimit, hlt, if_false]
  have hd : ¬ P β n (2 ^ (limDouble β n (n + 12) 0)) := by
    apply limDouble_spec
    refine ⟨n + 11, by omega, by omega, ?_⟩
    apply not_P_big hβ hn
    have h1 : n + 1 ≤ 2 ^ n := Nat.lt_two_pow_self
    have h2 : 2 ^ (n + 11) = 2 ^ n * 2048 := by rw [pow_add]; norm_num
    omega
  have := limSearch_spec β n (limDouble β n (n + 12) 0) 0 (P_zero hn) (by simpa using hd)
  exact this

theorem le_exactLimit {β n k : Nat} (hβ : β < 1000) (hn : 1 ≤ n) (h : P β n k) : k ≤ exactLimit β n := by
  by_contra hc
  have := (exactLimit_spec hβ hn).2
  exact this (P_anti hβ (by omega) h)

/-- the depth limit dominates the binary logarithm -/
theorem exactLimit_ge_log2 {β n : Nat} (hβ : β < 1000) (hn : 1 ≤ n) : Nat.log2 n ≤ exactLimit β n :=
  le_exactLimit hβ hn (P_log (Nat.log2_self_le (by omega)))

theorem exactLimit_zero {β : Nat} (hβ : β < 1000) : exactLimit β 0 = 0 := by
  have hlt : ¬ (Stree.fracNum β ≥ Stree.fracDen) := by
    simp [Stree.fracNum, Stree.fracDen, Stree.fracLimit, Stree.maxBalance]; omega
  have h0 : ∀ k, limOk β 0 k = false := by
    intro k
    simp [limOk, Stree.fracDen, Stree.fracLimit, Stree.maxBalance]
  simp only [exactLimit, hlt, if_false]
  have : limDouble β 0 (0 + 12) 0 = 0 := by simp [limDouble, h0]
  rw [this]; rfl

/-- the depth limit is monotone in the size -/
theorem exactLimit_mono {β a b : Nat} (hβ : β < 1000) (hab : a ≤ b) : exactLimit β a ≤ exactLimit β b := by
  by_cases ha : a = 0
  · subst ha; rw [exactLimit_zero hβ]; omega
  · exact le_exactLimit hβ (by omega) (P_mono_n hab (exactLimit_spec hβ (by omega)).1)

end MdsVerif.Proofs.Stree.Limit
