import MdsVerif.Model.Shell
import MdsVerif.Spec.Posix
/-!
# The table-driven tokenizer equals the reference tokenizer

`run` is the transducer of `Model.Shell` with the token loop of
`Scanner.Split` fused into the byte loop of `Next` (a proof device; the driver
executes `splitLoop`/`nextLoop`, and `splitP_eq_run` shows they compute the
same thing).  `fsm_eq_ref_all` is one induction over the input whose
state × class cases are closed, over the REGENERATED table
`Gen.ShellTable.update`, by one uniform tactic block: an altered table entry,
byte class, `Complete` state set or end-of-input test makes it fail.
-/
namespace MdsVerif.Proofs.ShellFsm
open MdsVerif.Gen.ShellTable MdsVerif.Model.Shell MdsVerif.Spec.Posix

/-- tokens and final state of the transducer started in `st` with current token `acc` (reversed) -/
def run : St → Bytes → Bytes → List Bytes × St
  | st, acc, [] => (if eofNoToken.contains st then [] else [acc.reverse], st)
  | st, acc, c :: rest =>
    match update st (classOf c) with
    | (st', .push) => run st' (c :: acc) rest
    | (st', .xpush) => run st' ((xpushBytes c).reverse ++ acc) rest
    | (st', .drop) => run st' acc rest
    | (st', .emit) => let r := run st' [] rest; (acc.reverse :: r.1, r.2)
    | (_, .panic) => ([], .stNone)

/-- no transition leaves the seven live states or indexes outside the table -/
theorem update_closed (st : St) (cl : Cl) (h : st ≠ .stNone) :
    (update st cl).1 ≠ .stNone ∧ (update st cl).2 ≠ .panic := by
  cases st <;> cases cl <;> first | (exact absurd rfl h) | decide

/-! ### `Scanner.split` computes `run` -/

/-- what `splitLoop` does with the result of one `Next` -/
def after (fuel : Nat) : Scanner × NextOut → Scanner × List Bytes × Bool
  | (s', .ret true) => let r := splitLoop fuel s'; (r.1, s'.cur :: r.2.1, r.2.2)
  | (s', .ret false) => (s', [], false)
  | (s', .panic) => (s', [], true)

theorem splitLoop_succ (n : Nat) (s : Scanner) : splitLoop (n + 1) s = after n s.next := by
  rw [splitLoop.eq_def]
  simp only []
  rcases h : s.next with ⟨s', o⟩
  cases o with
  | ret b => cases b <;> simp [after]
  | panic => simp [after]

theorem next_dead (s : Scanner) (h : s.err ≠ .nil) : s.next = (s, .ret false) := by
  simp [Scanner.next, h]

theorem next_live (s : Scanner) (h : s.err = .nil) : s.next = nextLoop s.tail s.st [] s.rem := by
  simp [Scanner.next, h]

theorem after_nextLoop : ∀ (rem : Bytes) (st : St) (acc : Bytes) (fuel : Nat),
    st ≠ .stNone → rem.length + 1 ≤ fuel →
    (after fuel (nextLoop .eof st acc rem)).2.1 = (run st acc rem).1 ∧
    (after fuel (nextLoop .eof st acc rem)).1.st = (run st acc rem).2 ∧
    (after fuel (nextLoop .eof st acc rem)).2.2 = false ∧
    (after fuel (nextLoop .eof st acc rem)).1.err = .eof := by
  intro rem
  induction rem with
  | nil =>
    intro st acc fuel _ hf
    obtain ⟨k, rfl⟩ : ∃ k, fuel = k + 1 := ⟨fuel - 1, by omega⟩
    cases hc : eofNoToken.contains st
    · simp only [nextLoop, run, hc, Bool.not_false, after, splitLoop_succ]
      rw [next_dead _ (by simp)]
      simp
    · simp only [nextLoop, run, hc, Bool.not_true]
      simp [after]
  | cons c r ih =>
    intro st acc fuel hst hf
    have hcl := update_closed st (classOf c) hst
    rcases hu : update st (classOf c) with ⟨st', a⟩
    rw [hu] at hcl
    simp only [List.length_cons] at hf
    cases a with
    | push => simpa [nextLoop, run, hu] using ih st' (c :: acc) fuel hcl.1 (by omega)
    | xpush => simpa [nextLoop, run, hu] using ih st' ((xpushBytes c).reverse ++ acc) fuel hcl.1 (by omega)
    | drop => simpa [nextLoop, run, hu] using ih st' acc fuel hcl.1 (by omega)
    | emit =>
      obtain ⟨k, rfl⟩ : ∃ k, fuel = k + 1 := ⟨fuel - 1, by omega⟩
      have := ih st' [] k hcl.1 (by omega)
      simp only [nextLoop, run, hu, after]
      rw [splitLoop_succ, next_live _ rfl]
      simpa using this
    | panic => exact absurd rfl hcl.2

/-- `Scanner.Split` on a live scanner over a source that ends with `io.EOF` -/
theorem split_eq_run (s : Scanner) (he : s.err = .nil) (ht : s.tail = .eof) (hst : s.st ≠ .stNone) :
    s.split.2.1 = (run s.st [] s.rem).1 ∧ s.split.1.st = (run s.st [] s.rem).2 ∧
    s.split.2.2 = false ∧ s.split.1.err = .eof := by
  have := after_nextLoop s.rem s.st [] (s.rem.length + 1) hst (by omega)
  unfold Scanner.split
  rw [show s.rem.length + 2 = (s.rem.length + 1) + 1 from rfl, splitLoop_succ, next_live _ he, ht]
  exact this

/-- `shell.Split` as modelled (pooled scanner, `Reset`, `Scanner.Split`, `Complete`) is the fused
    transducer started in `resetState`; the table lookup never panics. -/
theorem splitP_eq_run (input : Bytes) (h : resetState ≠ .stNone) :
    splitP input =
      ((run resetState [] input).1, completeStates.contains (run resetState [] input).2, false) := by
  have := after_nextLoop input resetState [] (input.length + 1) h (by omega)
  simp only [splitP, Scanner.split, Scanner.reset, Scanner.complete]
  rw [show input.length + 2 = (input.length + 1) + 1 from rfl, splitLoop_succ, next_live _ rfl]
  obtain ⟨h1, h2, h3, _⟩ := this
  simp only [h1, h2, h3]

/-! ### the reference tokenizer, with its three "after a backslash" continuations made explicit -/

/-- `Complete()` as a function of the state -/
def okSt (st : St) : Bool := completeStates.contains st

def runB (st : St) (acc s : Bytes) : List Bytes × Bool :=
  let r := run st acc s
  (r.1, okSt r.2)

def refGapQ : Bytes → List Bytes × Bool
  | [] => ([[]], false)
  | d :: r => if d = 10 then refGap r else refWord [d] r
def refWordQ (acc : Bytes) : Bytes → List Bytes × Bool
  | [] => ([acc.reverse], false)
  | d :: r => if d = 10 then refWord acc r else refWord (d :: acc) r
def refDoubleQ (acc : Bytes) : Bytes → List Bytes × Bool
  | [] => ([acc.reverse], false)
  | d :: r => if d = 10 then refDouble acc r
              else if d = 92 ∨ d = 34 then refDouble (d :: acc) r
              else refDouble (d :: 92 :: acc) r

theorem classOf_cases (c : UInt8) :
    (c = 32 ∧ classOf c = .clBreak) ∨ (c = 9 ∧ classOf c = .clBreak) ∨ (c = 10 ∧ classOf c = .clNewline) ∨
    (c = 92 ∧ classOf c = .clQuote) ∨ (c = 39 ∧ classOf c = .clSingle) ∨ (c = 34 ∧ classOf c = .clDouble) ∨
    (c ≠ 32 ∧ c ≠ 9 ∧ c ≠ 10 ∧ c ≠ 92 ∧ c ≠ 39 ∧ c ≠ 34 ∧ classOf c = .clOther) := by
  unfold classOf
  by_cases h1 : c = 32 <;> by_cases h2 : c = 9 <;> by_cases h3 : c = 10 <;> by_cases h4 : c = 92 <;>
    by_cases h5 : c = 39 <;> by_cases h6 : c = 34 <;> simp_all

set_option linter.unusedSimpArgs false in
set_option linter.unusedVariables false in
theorem fsm_eq_ref_all (s : Bytes) :
    runB .stBreak [] s = refGap s ∧
    (∀ acc, runB .stWord acc s = refWord acc s) ∧
    (∀ acc, runB .stSingle acc s = refSingle acc s) ∧
    (∀ acc, runB .stDouble acc s = refDouble acc s) ∧
    runB .stBreakQ [] s = refGapQ s ∧
    (∀ acc, runB .stWordQ acc s = refWordQ acc s) ∧
    (∀ acc, runB .stDoubleQ acc s = refDoubleQ acc s) := by
  induction s with
  | nil =>
    simp [runB, run, okSt, eofNoToken, completeStates, refGap, refWord, refSingle, refDouble, refGapQ, refWordQ, refDoubleQ]
  | cons c rest ih =>
    obtain ⟨ih1, ih2, ih3, ih4, ih5, ih6, ih7⟩ := ih
    simp only [runB] at *
    rcases classOf_cases c with ⟨h, hc⟩ | ⟨h, hc⟩ | ⟨h, hc⟩ | ⟨h, hc⟩ | ⟨h, hc⟩ | ⟨h, hc⟩ | ⟨h1, h2, h3, h4, h5, h6, hc⟩
    all_goals
      (try subst h)
      refine ⟨?_, ?_, ?_, ?_, ?_, ?_, ?_⟩ <;> intros <;>
        simp only [run, update, hc, xpushBytes] <;>
        (first
          | rw [refGap.eq_def] | rw [refWord.eq_def] | rw [refSingle.eq_def] | rw [refDouble.eq_def]
          | rw [refGapQ.eq_def] | rw [refWordQ.eq_def] | rw [refDoubleQ.eq_def]) <;>
        simp [isBlank, ih1, ih2, ih3, ih4, ih5, ih6, ih7, *] <;>
        (first
          | (simp [← ih1, ← ih2, ← ih3, ← ih4]; done)
          | (cases rest <;>
              first
              | (simp [refGapQ, refWordQ, refDoubleQ]; done)
              | (simp [refGapQ, refWordQ, refDoubleQ, run, okSt, eofNoToken, completeStates]; done)))

end MdsVerif.Proofs.ShellFsm
