import Mathlib.Data.Int.GCD
import Mathlib.Tactic.Ring
/-!
# slice.Rotate's gcd cycle chasing on a function-array model

`rotate_spec`: for `0 < k < n` the cycle-chasing loops terminate within their fuel and move the
element at index `i` to `(i + k) mod n` (orbit distinctness from `n ∣ t·k ↔ n/gcd ∣ t`,
surjectivity onto a residue class from Bezout).  `Proofs/Rotate.lean` transfers this to the
list-backed executable model `Model.Slice.rotateW`.
-/
namespace MdsVerif.Proofs.Rot
variable {α : Type}

def upd (f : Nat → α) (i : Nat) (v : α) : Nat → α := fun x => if x = i then v else f x

/-- inner loop of slice.Rotate for the cycle starting at j (fuel-bounded; `none` = out of fuel) -/
def inner (n k j : Nat) : Nat → (Nat → α) → Nat → α → Option (Nat → α)
  | 0, _, _, _ => none
  | fuel+1, f, i, cur =>
    let next := (i + k) % n
    let f' := upd f next cur
    if next = j then some f' else inner n k j fuel f' next (f next)

def outer (n k : Nat) : Nat → Nat → (Nat → α) → Option (Nat → α)
  | 0, _, f => some f
  | c+1, j, f =>
    match inner n k j (n+1) f j (f j) with
    | some f' => outer n k c (j+1) f'
    | none => none

def rotate (n k : Nat) (f : Nat → α) : Option (Nat → α) := outer n k (Nat.gcd k n) 0 f

def pos (n k j t : Nat) : Nat := (j + t * k) % n

section NT
variable (g K L : Nat) (hg : 0 < g) (hcop : Nat.Coprime L K)

/-- with n = g*L, k = g*K, L ⟂ K:  n ∣ t*k ↔ L ∣ t -/
theorem period (t : Nat) (hg : 0 < g) (hcop : Nat.Coprime L K) : g * L ∣ t * (g * K) ↔ L ∣ t := by
  constructor
  · intro h
    have h' : g * L ∣ g * (t * K) := by
      have : t * (g * K) = g * (t * K) := by ring
      rwa [this] at h
    have h2 : L ∣ t * K := Nat.dvd_of_mul_dvd_mul_left hg h'
    exact hcop.dvd_of_dvd_mul_right h2
  · rintro ⟨c, rfl⟩
    exact ⟨c * K, by ring⟩

theorem pos_succ (n k j t : Nat) : (pos n k j t + k) % n = pos n k j (t+1) := by
  simp only [pos]
  rw [Nat.mod_add_mod]; congr 1; ring

theorem pos_eq_iff (j s t : Nat) (hst : s ≤ t) (hg : 0 < g) (hcop : Nat.Coprime L K) :
    pos (g*L) (g*K) j s = pos (g*L) (g*K) j t ↔ L ∣ (t - s) := by
  rw [← period g K L (t - s) hg hcop]
  simp only [pos]
  constructor
  · intro h
    have := Nat.sub_mod_eq_zero_of_mod_eq h.symm
    have e : j + t * (g*K) - (j + s * (g*K)) = (t - s) * (g*K) := by
      rw [Nat.sub_mul]; omega
    rw [e] at this
    exact Nat.dvd_of_mod_eq_zero this
  · rintro ⟨c, hc⟩
    have e : j + t * (g*K) = j + s * (g*K) + (g*L) * c := by
      have : t * (g*K) = s * (g*K) + (t - s) * (g*K) := by rw [← Nat.add_mul]; congr 1; omega
      rw [this, hc]; ring
    rw [e, Nat.add_mul_mod_self_left]

theorem pos_mod_g (j t : Nat) : pos (g*L) (g*K) j t % g = j % g := by
  simp only [pos]
  rw [Nat.mod_mod_of_dvd _ (Dvd.intro L rfl)]
  have : j + t * (g*K) = j + g * (t * K) := by ring
  rw [this, Nat.add_mul_mod_self_left]

end NT

section Inner
variable (g K L : Nat) (hg : 0 < g) (hcop : Nat.Coprime L K) (hL : 0 < L)

/-- spec of one cycle, relative to the array `F` at the start of the cycle -/
def CycleSpec (n k j L : Nat) (F r : Nat → α) : Prop :=
  (∀ s, s < L → r (pos n k j (s+1)) = F (pos n k j s)) ∧
  (∀ x, (∀ s, s < L → x ≠ pos n k j (s+1)) → r x = F x)

theorem inner_spec (j : Nat) (hj : j < g * L) (F : Nat → α) (hg : 0 < g) (hcop : Nat.Coprime L K) :
    ∀ (fuel t : Nat) (f : Nat → α), t < L → L ≤ t + fuel →
    (∀ s, s < t → f (pos (g*L) (g*K) j (s+1)) = F (pos (g*L) (g*K) j s)) →
    (∀ x, (∀ s, s < t → x ≠ pos (g*L) (g*K) j (s+1)) → f x = F x) →
    ∃ r, inner (g*L) (g*K) j fuel f (pos (g*L) (g*K) j t) (F (pos (g*L) (g*K) j t)) = some r ∧
      CycleSpec (g*L) (g*K) j L F r := by
  have hpos0 : pos (g*L) (g*K) j 0 = j := by simp [pos, Nat.mod_eq_of_lt hj]
  intro fuel
  induction fuel with
  | zero => intro t f ht hf; omega
  | succ fuel ih =>
    intro t f ht hf H1 H2
    have hnext := pos_succ (g*L) (g*K) j t
    -- distinctness of pos (s+1) and pos (t+1) for s < t
    have hdist : ∀ s, s < t → pos (g*L) (g*K) j (t+1) ≠ pos (g*L) (g*K) j (s+1) := by
      intro s hs h
      have := (pos_eq_iff g K L j (s+1) (t+1) (by omega) hg hcop).mp h.symm
      have hle := Nat.le_of_dvd (by omega) this
      omega
    simp only [inner, hnext]
    by_cases hend : pos (g*L) (g*K) j (t+1) = j
    · -- cycle closes: t+1 = L
      have hdvd : L ∣ (t + 1 - 0) := (pos_eq_iff g K L j 0 (t+1) (by omega) hg hcop).mp (by rw [hpos0, hend])
      have htL : t + 1 = L := by
        have := Nat.le_of_dvd (by omega) hdvd
        omega
      rw [if_pos hend]
      refine ⟨_, rfl, ?_, ?_⟩
      · intro s hs
        by_cases hst : s = t
        · subst hst; simp [upd]
        · have hs' : s < t := by omega
          have hne := hdist s hs'
          simp only [upd, if_neg hne.symm]
          exact H1 s hs'
      · intro x hx
        have hxt : x ≠ pos (g*L) (g*K) j (t+1) := hx t (by omega)
        simp only [upd, if_neg hxt]
        exact H2 x (fun s hs => hx s (by omega))
    · -- continue
      have htL : t + 1 < L := by
        rcases Nat.lt_or_ge (t+1) L with h | h
        · exact h
        · exfalso
          have hL' : t + 1 = L := by omega
          apply hend
          have h0 : pos (g*L) (g*K) j 0 = pos (g*L) (g*K) j (t+1) :=
            (pos_eq_iff g K L j 0 (t+1) (by omega) hg hcop).mpr (by simp [hL'])
          rw [← h0, hpos0]
      have hcur : f (pos (g*L) (g*K) j (t+1)) = F (pos (g*L) (g*K) j (t+1)) :=
        H2 _ (fun s hs => hdist s hs)
      simp only [if_neg hend, hcur]
      apply ih (t+1) _ htL (by omega)
      · intro s hs
        by_cases hst : s = t
        · subst hst; simp [upd]
        · have hs' : s < t := by omega
          have hne := hdist s hs'
          simp only [upd, if_neg hne.symm]
          exact H1 s hs'
      · intro x hx
        have hxt : x ≠ pos (g*L) (g*K) j (t+1) := hx t (by omega)
        simp only [upd, if_neg hxt]
        exact H2 x (fun s hs => hx s (by omega))

end Inner

section Outer

theorem back_shift (n k y : Nat) (hy : y < n) (hk : k < n) : ((y + k) % n + n - k) % n = y := by
  rcases Nat.lt_or_ge (y + k) n with h | h
  · rw [Nat.mod_eq_of_lt h]
    have : y + k + n - k = y + n := by omega
    rw [this, Nat.add_mod_right, Nat.mod_eq_of_lt hy]
  · have h2 : (y + k) % n = y + k - n := by
      rw [Nat.mod_eq_sub_mod h, Nat.mod_eq_of_lt (by omega)]
    rw [h2]
    have : y + k - n + n - k = y := by omega
    rw [this, Nat.mod_eq_of_lt hy]

/-- every index of residue class j is on the cycle started at j -/
theorem cycle_surj (g K L : Nat) (hg : 0 < g) (hcop : Nat.Coprime L K) (hL : 2 ≤ L)
    (j x : Nat) (hx : x < g * L) (hxj : x % g = j) :
    ∃ s, s < L ∧ x = pos (g*L) (g*K) j (s+1) := by
  -- Bezout: (g*K*m) % (g*L) = g
  have hgcd : Nat.gcd (g*K) (g*L) = g := by
    rw [Nat.gcd_mul_left, Nat.Coprime.gcd_eq_one hcop.symm, Nat.mul_one]
  have hlt : Nat.gcd (g*K) (g*L) < g * L := by
    rw [hgcd]; calc g = g * 1 := (Nat.mul_one g).symm
      _ < g * L := Nat.mul_lt_mul_of_pos_left (by omega) hg
  obtain ⟨m, _, hm⟩ := Nat.exists_mul_mod_eq_gcd hlt
  rw [hgcd] at hm
  -- x = j + c*g
  let c := x / g
  have hxc : x = j + c * g := by
    have := Nat.mod_add_div x g
    rw [hxj] at this
    simp only [c]; rw [Nat.mul_comm]; exact this.symm
  have hcL : c < L := by
    simp only [c]
    exact Nat.div_lt_of_lt_mul hx
  have hcg : c * g < g * L := by
    rw [Nat.mul_comm]; exact Nat.mul_lt_mul_of_pos_left hcL hg
  -- pos j (m*c) = x
  have hp0 : pos (g*L) (g*K) j (m * c) = x := by
    simp only [pos]
    have e : m * c * (g * K) = c * (g * K * m) := by ring
    have hgN : g < g * L := by
      calc g = g * 1 := (Nat.mul_one g).symm
        _ < g * L := Nat.mul_lt_mul_of_pos_left (by omega) hg
    have h1 : (c * (g * K * m)) % (g * L) = (c * g) % (g * L) := by
      rw [Nat.mul_mod, hm]
      conv_rhs => rw [Nat.mul_mod, Nat.mod_eq_of_lt hgN]
    rw [e, Nat.add_mod, h1, ← Nat.add_mod, ← hxc, Nat.mod_eq_of_lt hx]
  -- reduce the exponent modulo L
  have hred : pos (g*L) (g*K) j (m * c % L) = pos (g*L) (g*K) j (m * c) :=
    (pos_eq_iff g K L j (m * c % L) (m * c) (Nat.mod_le _ _) hg hcop).mpr
      (Nat.dvd_sub_mod _)
  by_cases h0 : m * c % L = 0
  · refine ⟨L - 1, by omega, ?_⟩
    have hL1 : L - 1 + 1 = L := by omega
    rw [hL1, ← hp0, ← hred, h0]
    exact (pos_eq_iff g K L j 0 L (by omega) hg hcop).mpr (by simp)
  · refine ⟨m * c % L - 1, ?_, ?_⟩
    · have := Nat.mod_lt (m * c) (show 0 < L by omega); omega
    · have : m * c % L - 1 + 1 = m * c % L := by omega
      rw [this, hred, hp0]

variable (g K L : Nat)

def OInv (a : Nat → α) (n k g j : Nat) (f : Nat → α) : Prop :=
  ∀ x, x < n → (x % g < j → f x = a ((x + n - k) % n)) ∧ (j ≤ x % g → f x = a x)

theorem outer_spec (a : Nat → α) (hg : 0 < g) (hcop : Nat.Coprime L K) (hL : 2 ≤ L) (hkn : g * K < g * L) :
    ∀ (c j : Nat) (f : Nat → α), j + c = g → OInv a (g*L) (g*K) g j f →
    ∃ r, outer (g*L) (g*K) c j f = some r ∧ OInv a (g*L) (g*K) g g r := by
  intro c
  induction c with
  | zero => intro j f hj hinv; have : j = g := by omega
            subst this; exact ⟨f, rfl, hinv⟩
  | succ c ih =>
    intro j f hj hinv
    have hjg : j < g := by omega
    have hjn : j < g * L := by
      calc j < g := hjg
        _ = g * 1 := (Nat.mul_one g).symm
        _ ≤ g * L := Nat.mul_le_mul_left g (by omega)
    have hpos0 : pos (g*L) (g*K) j 0 = j := by simp [pos, Nat.mod_eq_of_lt hjn]
    have hLn : L ≤ g * L := Nat.le_mul_of_pos_left L hg
    obtain ⟨r, hr, hP1, hP2⟩ := inner_spec g K L j hjn f hg hcop (g*L+1) 0 f (by omega) (by omega)
      (by intro s hs; omega) (by intro x _; rfl)
    rw [hpos0] at hr
    simp only [outer, hr]
    apply ih (j+1) r (by omega)
    intro x hx
    have hposlt : ∀ t, pos (g*L) (g*K) j t < g * L := fun t => Nat.mod_lt _ (by omega)
    have hposg : ∀ t, pos (g*L) (g*K) j t % g = j := by
      intro t; rw [pos_mod_g g K L j t, Nat.mod_eq_of_lt hjg]
    by_cases hxj : x % g = j
    · -- x is on the cycle
      obtain ⟨s, hs, hxs⟩ := cycle_surj g K L hg hcop hL j x hx hxj
      constructor
      · intro _
        rw [hxs, hP1 s hs]
        have h1 := (hinv (pos (g*L) (g*K) j s) (hposlt s)).2 (by rw [hposg s])
        rw [h1, ← pos_succ, back_shift _ _ _ (hposlt s) hkn]
      · intro h; omega
    · -- x is off the cycle
      have hoff : ∀ s, s < L → x ≠ pos (g*L) (g*K) j (s+1) := by
        intro s _ h; apply hxj; rw [h, hposg]
      have hrx : r x = f x := hP2 x hoff
      constructor
      · intro h; rw [hrx]; exact (hinv x hx).1 (by omega)
      · intro h; rw [hrx]; exact (hinv x hx).2 (by omega)

end Outer

/-- **slice.Rotate**: for 0 < k < n the cycle-chasing loop terminates within its fuel and moves
    the element at index i to index (i + k) mod n, for every i. -/
theorem rotate_spec (n k : Nat) (hk : 0 < k) (hkn : k < n) (a : Nat → α) :
    ∃ r, rotate n k a = some r ∧ ∀ i, i < n → r ((i + k) % n) = a i := by
  have hg : 0 < Nat.gcd k n := Nat.gcd_pos_of_pos_left n hk
  obtain ⟨K, hK⟩ := Nat.gcd_dvd_left k n
  obtain ⟨L, hL⟩ := Nat.gcd_dvd_right k n
  have hcop : Nat.Coprime L K := by
    have h := Nat.coprime_div_gcd_div_gcd hg (m := k) (n := n)
    have e1 : k / Nat.gcd k n = K := Nat.div_eq_of_eq_mul_right hg hK
    have e2 : n / Nat.gcd k n = L := Nat.div_eq_of_eq_mul_right hg hL
    rw [e1, e2] at h; exact h.symm
  have hKL : Nat.gcd k n * K < Nat.gcd k n * L := by rw [← hK, ← hL]; exact hkn
  have hKltL : K < L := Nat.lt_of_mul_lt_mul_left hKL
  have hKpos : 0 < K := by
    rcases Nat.eq_zero_or_pos K with h | h
    · rw [h, Nat.mul_zero] at hK; omega
    · exact h
  have hL2 : 2 ≤ L := by omega
  have hinv0 : OInv a (Nat.gcd k n * L) (Nat.gcd k n * K) (Nat.gcd k n) 0 a := by
    intro x _; exact ⟨fun h => by omega, fun _ => rfl⟩
  obtain ⟨r, hr, hinv⟩ := outer_spec (Nat.gcd k n) K L a hg hcop hL2 hKL (Nat.gcd k n) 0 a (by omega) hinv0
  rw [← hK, ← hL] at hr hinv
  refine ⟨r, hr, ?_⟩
  intro i hi
  have hx : (i + k) % n < n := Nat.mod_lt _ (by omega)
  have := (hinv ((i + k) % n) hx).1 (Nat.mod_lt _ hg)
  rw [this, back_shift n k i hi hkn]

end MdsVerif.Proofs.Rot
