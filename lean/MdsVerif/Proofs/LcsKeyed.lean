import MdsVerif.Proofs.Lcs
/-!
# `Model.Edit.lcsFunc?` under a custom equality: which argument the returned ELEMENTS come from

`LCSFunc(as, bs, eq)` with an `eq` that is coarser than `==` (here: equality of a key,
`eq a b ↔ key a = key b`) returns elements, not keys.  They are read by `as[p.i]` AFTER the swap
`if len(bs) < len(as) { as, bs = bs, as }`, i.e. from the shorter argument, and from the first
argument when the lengths are equal (`Spec.Subseq.lcsSource`).

The invariant is the one of `Proofs/Lcs.lean` with the second argument seen through `key`: a cell
represents (`Rep`) a list `l` of ELEMENTS of `as` with `l <+ ra` as values,
`l.map key <+ rb.map key`, and `l.length = lcsLen (ra.map key) (rb.map key)`.
-/
namespace MdsVerif.Proofs.LcsKeyed
open List MdsVerif.Model.Edit MdsVerif.Spec.Subseq MdsVerif.Proofs.Lcs

variable {α κ : Type} [DecidableEq κ] (key : α → κ)

/-- cell invariant against reversed prefixes `ra` (values) and `rb` (through `key`) -/
def CellOk (as ra rb : List α) (cell : Seq) : Prop :=
  ∃ l, Rep as cell l ∧ l <+ ra ∧ l.map key <+ rb.map key ∧
    l.length = lcsLen (ra.map key) (rb.map key)

theorem cellOk_zero (as rb : List α) : CellOk key as [] rb .zero :=
  ⟨[], .zero, Sublist.refl _, by simp, by simp [lcsLen]⟩

theorem CellOk.nil_left {as rb : List α} {c : Seq} (h : CellOk key as [] rb c) : c = .zero := by
  obtain ⟨l, hr, h1, _, _⟩ := h
  have : l = [] := List.sublist_nil.mp h1
  subst this
  exact hr.eq_zero

def RowOk (as rb : List α) (row : List Seq) : Prop :=
  row.length = as.length + 1 ∧
  ∀ k (hk : k < row.length), CellOk key as (as.take k).reverse rb row[k]

variable {eq : α → α → Bool}

theorem fillRow_ok (heq : ∀ a b, eq a b = true ↔ key a = key b) (as : List α) (b : α) (rb : List α) :
    ∀ (as' : List α) (ps : List Seq) (pre : List α) (pprev cprev : Seq),
    as = pre ++ as' →
    ps.length = as'.length →
    CellOk key as pre.reverse rb pprev → CellOk key as pre.reverse (b :: rb) cprev →
    (∀ k (hk : k < ps.length), CellOk key as ((as'.take (k+1)).reverse ++ pre.reverse) rb ps[k]) →
    (fillRow eq b (pre.length + 1) as' ps pprev cprev).length = as'.length ∧
    ∀ k (hk : k < (fillRow eq b (pre.length + 1) as' ps pprev cprev).length),
      CellOk key as ((as'.take (k+1)).reverse ++ pre.reverse) (b :: rb)
        (fillRow eq b (pre.length + 1) as' ps pprev cprev)[k] := by
  intro as'
  induction as' with
  | nil => intro ps pre pprev cprev _ hl _ _ _; cases ps <;> simp [fillRow_nil_left] at *
  | cons a as' ih =>
    intro ps pre pprev cprev has hl hpp hcp hps
    match ps, hl with
    | pi :: ps, hl =>
    have hpi : CellOk key as (a :: pre.reverse) rb pi := by
      have := hps 0 (by simp)
      simpa [List.take] using this
    have hget : as[pre.length]? = some a := by
      rw [has]; simp
    -- the new cell
    have hci : CellOk key as (a :: pre.reverse) (b :: rb)
        (if eq a b then Seq.node (pre.length + 1 - 1) (pprev.n + 1) pprev
         else if cprev.n ≥ pi.n then cprev else pi) := by
      obtain ⟨lp, rp, p1, p2, p3⟩ := hpp
      obtain ⟨lc, rc, c1, c2, c3⟩ := hcp
      obtain ⟨lq, rq, q1, q2, q3⟩ := hpi
      by_cases hab : key a = key b
      · have he : eq a b = true := (heq a b).mpr hab
        simp only [he, if_true, Nat.add_sub_cancel]
        rw [rp.n_eq]
        refine ⟨a :: lp, .node hget rp, List.cons_sublist_cons.mpr p1, ?_, ?_⟩
        · simp only [List.map_cons, hab]
          exact List.cons_sublist_cons.mpr p2
        · simp only [List.map_cons, List.length_cons, lcsLen, if_pos hab, p3]; omega
      · have he : eq a b = false := by
          cases h : eq a b
          · rfl
          · exact absurd ((heq a b).mp h) hab
        simp only [he, Bool.false_eq_true, if_false]
        rw [rc.n_eq, rq.n_eq]
        simp only [List.map_cons] at c2 c3 q3
        by_cases hge : lc.length ≥ lq.length
        · simp only [if_pos hge]
          refine ⟨lc, rc, c1.trans (List.sublist_cons_self a _), c2, ?_⟩
          simp only [List.map_cons]
          rw [lcsLen, if_neg hab]; omega
        · simp only [if_neg hge]
          refine ⟨lq, rq, q1, q2.trans (List.sublist_cons_self _ _), ?_⟩
          simp only [List.map_cons]
          rw [lcsLen, if_neg hab]; omega
    have hrec := ih ps (pre ++ [a]) pi _ (by rw [has]; simp) (by simpa using hl)
      (by simpa using hpi) (by simpa using hci) (by
      intro k hk
      have := hps (k+1) (by simp; omega)
      simpa [List.take_succ_cons, List.reverse_cons, List.append_assoc] using this)
    have hlen1 : (pre ++ [a]).length + 1 = pre.length + 1 + 1 := by simp
    rw [hlen1] at hrec
    constructor
    · simp [fillRow_cons, hrec.1]
    · intro k hk
      cases k with
      | zero => simpa [fillRow_cons] using hci
      | succ k =>
        have := hrec.2 k (by simp [fillRow_cons] at hk; omega)
        simpa [fillRow_cons, List.take_succ_cons, List.reverse_cons, List.append_assoc] using this

def BufOk (as rb : List α) (pc : List Seq × List Seq) : Prop :=
  RowOk key as rb pc.2 ∧ ∃ ps, pc.1 = Seq.zero :: ps

theorem lcsRows_step (heq : ∀ a b, eq a b = true ↔ key a = key b) (as : List α) (b : α) (rb : List α)
    (p c : List Seq) (h : BufOk key as rb (p, c)) :
    BufOk key as (b :: rb) (rowStep eq as b (p, c)) := by
  unfold rowStep
  simp only
  obtain ⟨⟨hlen, hcells⟩, ps0, hp⟩ := h
  simp only at hlen hcells hp
  subst hp
  match c, hlen, hcells with
  | p0 :: ps, hlen, hcells =>
  have h0 : CellOk key as ([] : List α) rb p0 := by
    have := hcells 0 (by simp)
    simpa [List.take] using this
  have hp0 : p0 = .zero := CellOk.nil_left key h0
  have hrow := fillRow_ok key heq as b rb as ps [] p0 .zero rfl (by simpa using hlen)
    (by simpa using h0) (by simpa using cellOk_zero key as (b :: rb)) (by
    intro k hk
    have := hcells (k+1) (by simp; omega)
    simpa using this)
  simp only [List.length_nil, Nat.zero_add, List.reverse_nil, List.append_nil] at hrow
  refine ⟨⟨?_, ?_⟩, ps, by simp [hp0]⟩
  · simp [hrow.1]
  · intro k hk
    cases k with
    | zero => simpa using cellOk_zero key as (b :: rb)
    | succ k =>
      have := hrow.2 k (by simp at hk; omega)
      simpa using this

theorem lcsRows_ok (heq : ∀ a b, eq a b = true ↔ key a = key b) (as : List α) :
    ∀ (bs rb : List α) (pc : List Seq × List Seq),
    BufOk key as rb pc → BufOk key as (bs.reverse ++ rb) (lcsRows eq as bs pc) := by
  intro bs
  induction bs with
  | nil => intro rb pc h; simpa [lcsRows] using h
  | cons b bs ih =>
    intro rb pc h
    obtain ⟨p, c⟩ := pc
    have := ih (b :: rb) _ (lcsRows_step key heq as b rb p c h)
    simpa [lcsRows] using this

theorem init_ok (as : List α) :
    BufOk key as [] (List.replicate (as.length + 1) Seq.zero, List.replicate (as.length + 1) Seq.zero) := by
  refine ⟨⟨by simp, ?_⟩, List.replicate as.length Seq.zero, by simp [List.replicate_succ]⟩
  intro k hk
  simp only [List.getElem_replicate]
  exact ⟨[], .zero, nil_sublist _, by simp, by simp [lcsLen_nil_right]⟩

theorem lcsLen_reverse (x y : List κ) : lcsLen x.reverse y.reverse = lcsLen x y := by
  obtain ⟨s, s1, s2, s3⟩ := lcsLen_attained x y
  obtain ⟨t, t1, t2, t3⟩ := lcsLen_attained x.reverse y.reverse
  have h1 := lcsLen_upper x.reverse y.reverse s.reverse (List.reverse_sublist.mpr s1)
    (List.reverse_sublist.mpr s2)
  have h2 := lcsLen_upper x y t.reverse (by simpa using List.reverse_sublist.mpr t1)
    (by simpa using List.reverse_sublist.mpr t2)
  simp at h1 h2
  omega

/-- the core (after guard and swap): the elements come from `as`, in order; seen through `key`
they are a subsequence of `bs`; their number is the reference optimum for the key sequences -/
theorem lcsCore_keyed (heq : ∀ a b, eq a b = true ↔ key a = key b) (as bs : List α) :
    ∃ r, lcsCore? eq as bs = some r ∧ r <+ as ∧ r.map key <+ bs.map key ∧
      r.length = lcsLen (as.map key) (bs.map key) := by
  have hrows := lcsRows_ok key heq as bs [] _ (init_ok key as)
  obtain ⟨⟨hlen, hcells⟩, _⟩ := hrows
  simp only [List.append_nil] at hcells
  obtain ⟨l, hrep, c1, c2, c3⟩ := hcells as.length (by omega)
  simp only [List.take_length] at c1 c2 c3
  refine ⟨l.reverse, ?_, ?_, ?_, ?_⟩
  · rw [lcsCore?_def]
    rw [List.getElem?_eq_getElem (by omega)]
    simp [hrep.collect_eq]
  · simpa using (List.reverse_sublist.mpr c1)
  · have := List.reverse_sublist.mpr c2
    simpa [List.map_reverse] using this
  · rw [List.length_reverse, c3, List.map_reverse, List.map_reverse, lcsLen_reverse]

theorem lcsLen_comm (x y : List κ) : lcsLen x y = lcsLen y x := by
  obtain ⟨s, s1, s2, s3⟩ := lcsLen_attained x y
  obtain ⟨t, t1, t2, t3⟩ := lcsLen_attained y x
  have h1 := lcsLen_upper y x s s2 s1
  have h2 := lcsLen_upper x y t t2 t1
  omega

end MdsVerif.Proofs.LcsKeyed
