import MdsVerif.Model.Stack
import MdsVerif.Spec.Lifo
/-!
# `stack.Stack` refines the LIFO list (helper lemmas for C10)

Abstraction: the Go slice read backwards, `abs s = s.reverse`.
-/
namespace MdsVerif.Proofs.Stack
open MdsVerif.Model.Stack MdsVerif.Spec
variable {α : Type} [Inhabited α]

/-! ## the regenerated facts (`Gen.Stack`) in the form the proofs use

`Model.Stack` takes its tests and index expressions from `Gen.Stack` (regenerated from stack.go on every run).
The lemmas of this section restate the model functions with the pinned expressions written out; everything
below unfolds them only through these. -/
section facts
theorem top_def (s : S α) : top s = if s.length = 0 then default else s.getD (s.length - 1) default := by
  unfold top Gen.Stack.topEmpty Gen.Stack.topIdx
  have e : ((s.length : Int) - 1).toNat = s.length - 1 := by omega
  by_cases h : s.length = 0
  · have h' : (s.length : Int) = 0 := by omega
    simp [h]
  · have h' : ¬ (s.length : Int) = 0 := by omega
    simp only [h, h', decide_false, if_false, e]
    simp

theorem peek_def (s : S α) (n : Int) :
    peek s n =
      if n ≥ (s.length : Int) then .opt none
      else if n < 0 then .panicIndex
      else .opt (some (s.getD (s.length - 1 - n.toNat) default)) := by
  unfold peek Gen.Stack.peekOut Gen.Stack.peekIdx
  by_cases h1 : n ≥ (s.length : Int)
  · simp [h1]
  · by_cases h2 : n < 0
    · have : ((s.length : Int) - 1 - n < 0 ∨ (s.length : Int) - 1 - n ≥ s.length) := by omega
      simp [h1, h2, this]
    · have : ¬ ((s.length : Int) - 1 - n < 0 ∨ (s.length : Int) - 1 - n ≥ s.length) := by omega
      have e : ((s.length : Int) - 1 - n).toNat = s.length - 1 - n.toNat := by omega
      simp only [h1, h2, this, decide_false, if_false, e]
      simp

theorem pop_def (s : S α) :
    pop s = match peek s 0 with
      | .opt (some v) => (s.take (s.length - 1), some v)
      | _ => (s, none) := by
  unfold pop Gen.Stack.popPeeks Gen.Stack.popLen
  have e : ((s.length : Int) - 1).toNat = s.length - 1 := by omega
  rw [e]
  rfl

theorem each_def (s : S α) (k : Nat) : each s k = walkDown s (s.length - 1) (min s.length (k + 1)) := by
  unfold each Gen.Stack.eachStart
  have e : ((s.length : Int) - 1).toNat = s.length - 1 := by omega
  rw [e]

theorem slice_def (s : S α) : slice s = walkDown s (s.length - 1) s.length := by
  unfold slice Gen.Stack.sliceEmpty Gen.Stack.sliceStart
  have e : ((s.length : Int) - 1).toNat = s.length - 1 := by omega
  by_cases h : s.length = 0
  · have h' : (s.length : Int) = 0 := by omega
    simp [h, walkDown]
  · have h' : ¬ (s.length : Int) = 0 := by omega
    simp only [h', decide_false, e]
    simp

theorem isEmptyTest_eq (n : Nat) : Gen.Stack.isEmptyTest n = (n == 0) := by
  unfold Gen.Stack.isEmptyTest; by_cases h : n = 0 <;> simp [h]
end facts

theorem walkDown_append (l r : List α) : ∀ (c i : Nat), c ≤ i + 1 → i < l.length →
    walkDown (l ++ r) i c = walkDown l i c := by
  intro c
  induction c with
  | zero => intros; rfl
  | succ c ih =>
    intro i hc hi
    simp only [walkDown]
    have h1 : (l ++ r).getD i default = l.getD i default := by
      simp [List.getD_eq_getElem?_getD, List.getElem?_append_left hi]
    rw [h1]
    cases c with
    | zero => rfl
    | succ c => rw [ih (i - 1) (by omega) (by omega)]

theorem walkDown_rev (r : List α) : ∀ c, c ≤ r.length →
    walkDown r.reverse (r.length - 1) c = r.take c := by
  induction r with
  | nil => intro c hc; simp at hc; subst hc; rfl
  | cons b l ih =>
    intro c hc
    cases c with
    | zero => rfl
    | succ c =>
      simp only [List.length_cons, Nat.add_sub_cancel, walkDown, List.reverse_cons, List.take_succ_cons]
      have hb : (l.reverse ++ [b]).getD l.length default = b := by
        simp [List.getD_eq_getElem?_getD]
      rw [hb]
      congr 1
      simp only [List.length_cons] at hc
      cases c with
      | zero => rfl
      | succ c =>
        rw [walkDown_append l.reverse [b] (c + 1) (l.length - 1) (by omega) (by simp; omega)]
        exact ih (c + 1) (by omega)

theorem walkDown_eq (s : List α) (c : Nat) (hc : c ≤ s.length) :
    walkDown s (s.length - 1) c = s.reverse.take c := by
  have := walkDown_rev s.reverse c (by simpa using hc)
  simpa using this

theorem each_abs (s : List α) (k : Nat) : each s k = s.reverse.take (k + 1) := by
  rw [each_def]
  rw [walkDown_eq s _ (Nat.min_le_left _ _)]
  rw [List.take_eq_take_iff]
  simp only [List.length_reverse]
  omega

theorem slice_abs (s : List α) : slice s = s.reverse := by
  rw [slice_def]
  rw [walkDown_eq s _ (Nat.le_refl _)]
  simp [List.take_of_length_le]

theorem peek_abs (s : List α) (n : Int) :
    peek s n = if n < 0 then .panicIndex else .opt s.reverse[n.toNat]? := by
  rw [peek_def]
  by_cases h1 : n ≥ (s.length : Int)
  · have : ¬ n < 0 := by omega
    simp only [h1, if_true, this, if_false]
    rw [List.getElem?_eq_none (by simp; omega)]
  · by_cases h2 : n < 0
    · simp [h1, h2]
    · simp only [h1, h2, if_false]
      have hlt : n.toNat < s.length := by omega
      rw [List.getElem?_eq_getElem (by simpa using hlt), List.getElem_reverse]
      simp [List.getD_eq_getElem?_getD]
      have : s.length - 1 - n.toNat < s.length := by omega
      rw [List.getElem?_eq_getElem this]; rfl

theorem pop_abs (s : List α) : pop s = ((s.reverse.tail).reverse, s.reverse.head?) := by
  rcases List.eq_nil_or_concat s with rfl | ⟨l, b, rfl⟩
  · rfl
  · have hp : peek (l ++ [b]) 0 = .opt (some b) := by
      rw [peek_abs]; simp
    simp [pop_def, hp]

theorem top_abs (s : List α) : top s = s.reverse.headD default := by
  rcases List.eq_nil_or_concat s with rfl | ⟨l, b, rfl⟩
  · rfl
  · simp [top_def, List.getD_eq_getElem?_getD]

end MdsVerif.Proofs.Stack
