import MdsVerif.Model.Mlink
import MdsVerif.Spec.CursorList
/-!
# Heap-level lemmas for `mlink` (helper lemmas for C10)

* `SegL h xs e`: the cells `xs` are linked in this order and the last links to `e`.
* `WF h xs`: `xs = 0 :: ids` is the duplicate-free chain from the sentinel ending in nil;
  every other cell is self-linked (detached).  `abs h xs = (xs.tail).map val`.
* every cursor/list method on a well-formed heap: result, new chain, frame.
-/
namespace MdsVerif.Proofs.Mlink
open MdsVerif.Model MdsVerif.Model.Mlink

/-! ## heap algebra -/

theorem link_setLink (h : Heap) (i : Nat) (l : Option Nat) (j : Nat) :
    (h.setLink i l).link j = if j = i ∧ i < h.size then l else h.link j := by
  unfold Heap.setLink Heap.link Heap.size
  simp only [List.getD_eq_getElem?_getD, List.getElem?_set]
  by_cases hji : i = j
  · subst hji
    by_cases hlt : i < h.links.length <;> simp [hlt]
  · have : ¬ j = i := fun e => hji e.symm
    simp [hji, this]

theorem link_alloc (h : Heap) (v : Int) (l : Option Nat) (j : Nat) :
    (h.alloc v l).1.link j = if j = h.size then l else h.link j := by
  unfold Heap.alloc Heap.link Heap.size
  simp only [List.getD_eq_getElem?_getD]
  by_cases h1 : j < h.links.length
  · rw [List.getElem?_append_left h1]; simp [Nat.ne_of_lt h1]
  · by_cases h2 : j = h.links.length
    · subst h2; simp
    · rw [List.getElem?_eq_none (by simp; omega), List.getElem?_eq_none (by omega)]; simp [h2]

theorem val_alloc (h : Heap) (v : Int) (l : Option Nat) (j : Nat) (hv : h.vals.length = h.links.length) :
    (h.alloc v l).1.val j = if j = h.size then v else h.val j := by
  unfold Heap.alloc Heap.val Heap.size
  simp only [List.getD_eq_getElem?_getD]
  by_cases h1 : j < h.vals.length
  · rw [List.getElem?_append_left h1]; simp [show j ≠ h.links.length by omega]
  · by_cases h2 : j = h.vals.length
    · subst h2; simp [hv]
    · rw [List.getElem?_eq_none (by simp; omega), List.getElem?_eq_none (by omega)]
      simp [show j ≠ h.links.length by omega]

theorem val_setVal (h : Heap) (i : Nat) (v : Int) (j : Nat) :
    (h.setVal i v).val j = if j = i ∧ i < h.vals.length then v else h.val j := by
  unfold Heap.setVal Heap.val
  simp only [List.getD_eq_getElem?_getD, List.getElem?_set]
  by_cases hji : i = j
  · subst hji
    by_cases hlt : i < h.vals.length <;> simp [hlt]
  · have : ¬ j = i := fun e => hji e.symm
    simp [hji, this]

@[simp] theorem val_setLink (h : Heap) (i : Nat) (l : Option Nat) (j : Nat) : (h.setLink i l).val j = h.val j := rfl
@[simp] theorem link_setVal (h : Heap) (i : Nat) (v : Int) (j : Nat) : (h.setVal i v).link j = h.link j := rfl
@[simp] theorem size_setLink (h : Heap) (i : Nat) (l : Option Nat) : (h.setLink i l).size = h.size := by
  simp [Heap.setLink, Heap.size]
@[simp] theorem size_setVal (h : Heap) (i : Nat) (v : Int) : (h.setVal i v).size = h.size := rfl
@[simp] theorem size_alloc (h : Heap) (v : Int) (l : Option Nat) : (h.alloc v l).1.size = h.size + 1 := by
  simp [Heap.alloc, Heap.size]
@[simp] theorem alloc_snd (h : Heap) (v : Int) (l : Option Nat) : (h.alloc v l).2 = h.size := rfl
@[simp] theorem vals_setLink (h : Heap) (i : Nat) (l : Option Nat) : (h.setLink i l).vals = h.vals := rfl
@[simp] theorem links_setVal (h : Heap) (i : Nat) (v : Int) : (h.setVal i v).links = h.links := rfl

@[simp] theorem bind_ok {β γ : Type} (v : β) (f : β → Res γ) : (Res.ok v).bind f = f v := rfl
@[simp] theorem bind_panic {β γ : Type} (h : Heap) (p : Nat) (f : β → Res γ) :
    (Res.panic h p : Res β).bind f = .panic h p := rfl
@[simp] theorem bind_hang {β γ : Type} (f : β → Res γ) : (Res.hang : Res β).bind f = .hang := rfl

/-! ## stale cursors: every method refuses, nothing changes -/

/-- **stale cursor**: a cursor whose `pred` is self-linked makes every `Cursor` method panic at
its first statement, with the heap and the cursor exactly as they were -/
theorem stale_refuses (h : Heap) (p : Nat) (hs : h.link p = some p) :
    atEnd h p = .panic h p ∧ get h p = .panic h p ∧ (∀ v, set h p v = .panic h p) ∧
    next h p = .panic h p ∧ (∀ v, push h p v = .panic h p) ∧
    (∀ v vs, add h p (v :: vs) = .panic h p) ∧ remove h p = .panic h p ∧ truncate h p = .panic h p := by
  have hi : invalid h p = true := by simp [invalid, hs]
  have ha : atEnd h p = .panic h p := by simp [atEnd, hi]
  refine ⟨ha, ?_, ?_, ?_, ?_, ?_, ?_, ?_⟩
  · simp [Mlink.get, ha]
  · intro v; simp [Mlink.set, ha]
  · simp [next, ha]
  · intro v; simp [push, hi]
  · intro v vs; simp [add, push, hi]
  · simp [remove, ha]
  · simp [truncate, hi]

/-! ## linked segments -/

/-- the cells `xs` are linked in this order, the last one links to `e` -/
def SegL (h : Heap) : List Nat → Option Nat → Prop
  | [], _ => True
  | a :: l, e => h.link a = l.head?.or e ∧ SegL h l e

theorem segL_append (h : Heap) (l1 l2 : List Nat) (e : Option Nat) :
    SegL h (l1 ++ l2) e ↔ SegL h l1 (l2.head?.or e) ∧ SegL h l2 e := by
  induction l1 with
  | nil => simp [SegL]
  | cons a l ih =>
    simp only [List.cons_append, SegL, ih]
    have : (l ++ l2).head?.or e = l.head?.or (l2.head?.or e) := by cases l <;> simp
    rw [this]
    constructor
    · rintro ⟨h1, h2, h3⟩; exact ⟨⟨h1, h2⟩, h3⟩
    · rintro ⟨⟨h1, h2⟩, h3⟩; exact ⟨h1, h2, h3⟩

theorem segL_congr (h h' : Heap) (xs : List Nat) (e : Option Nat)
    (hc : ∀ a ∈ xs, h'.link a = h.link a) : SegL h' xs e ↔ SegL h xs e := by
  induction xs with
  | nil => simp [SegL]
  | cons a l ih =>
    simp only [SegL]
    rw [hc a (by simp), ih (fun b hb => hc b (by simp [hb]))]

/-- well-formed heap: `xs = 0 :: ids` is the chain from the sentinel, everything else is detached -/
structure WF (h : Heap) (xs : List Nat) : Prop where
  head : xs.head? = some 0
  seg : SegL h xs none
  nodup : xs.Nodup
  bound : ∀ i ∈ xs, i < h.size
  vlen : h.vals.length = h.links.length
  len : xs.length ≤ h.size
  off : ∀ j, j < h.size → j ∉ xs → h.link j = some j

/-- the abstract sequence -/
def abs (h : Heap) (xs : List Nat) : List Int := xs.tail.map h.val

theorem wf_empty : WF Heap.empty [0] ∧ abs Heap.empty [0] = [] := by
  refine ⟨⟨rfl, ?_, by simp, ?_, rfl, by simp [Heap.empty, Heap.size], ?_⟩, rfl⟩
  · simp [SegL, Heap.empty, Heap.link]
  · simp [Heap.empty, Heap.size]
  · intro j hj hn; simp [Heap.empty, Heap.size] at hj; subst hj; simp at hn

/-- what a cell on the chain looks like -/
theorem cell_link (h : Heap) (pre : List Nat) (p : Nat) (post : List Nat) (e : Option Nat)
    (hs : SegL h (pre ++ p :: post) e) : h.link p = post.head?.or e := by
  rw [segL_append] at hs
  exact hs.2.1

theorem cell_valid (h : Heap) (pre : List Nat) (p : Nat) (post : List Nat)
    (hs : SegL h (pre ++ p :: post) none) (hn : (pre ++ p :: post).Nodup) : invalid h p = false := by
  have hl := cell_link h pre p post none hs
  have hn2 : (p :: post).Nodup := (List.nodup_append.mp hn).2.1
  have hp : p ∉ post := (List.nodup_cons.mp hn2).1
  simp only [invalid, hl, Option.or_none, beq_eq_false_iff_ne, ne_eq]
  intro hc
  cases post with
  | nil => simp at hc
  | cons q r => simp at hc; subst hc; simp at hp

theorem atEnd_cell (h : Heap) (pre : List Nat) (p : Nat) (post : List Nat)
    (hs : SegL h (pre ++ p :: post) none) (hn : (pre ++ p :: post).Nodup) :
    atEnd h p = .ok post.isEmpty := by
  have hv := cell_valid h pre p post hs hn
  have hl := cell_link h pre p post none hs
  simp only [atEnd, hv, hl]
  cases post <;> simp

theorem get_cell (h : Heap) (pre : List Nat) (p : Nat) (post : List Nat)
    (hs : SegL h (pre ++ p :: post) none) (hn : (pre ++ p :: post).Nodup) :
    get h p = .ok (match post with | [] => 0 | q :: _ => h.val q) := by
  have hv := cell_valid h pre p post hs hn
  have hl := cell_link h pre p post none hs
  simp only [Mlink.get, atEnd_cell h pre p post hs hn, bind_ok, hv]
  cases post with
  | nil => simp
  | cons q r => simp [tgt, hl]

theorem next_cell (h : Heap) (pre : List Nat) (p q : Nat) (post : List Nat)
    (hs : SegL h (pre ++ p :: q :: post) none) (hn : (pre ++ p :: q :: post).Nodup) :
    next h p = .ok (q, !post.isEmpty) := by
  have hl := cell_link h pre p (q :: post) none hs
  have h2 : atEnd h q = .ok post.isEmpty := by
    have := atEnd_cell h (pre ++ [p]) q post (by simpa using hs) (by simpa using hn)
    exact this
  simp [next, atEnd_cell h pre p (q :: post) hs hn, tgt, hl, h2]

theorem next_end (h : Heap) (pre : List Nat) (p : Nat)
    (hs : SegL h (pre ++ [p]) none) (hn : (pre ++ [p]).Nodup) :
    next h p = .ok (p, false) := by
  simp [next, atEnd_cell h pre p [] hs hn]

/-! ## Push -/

theorem push_link (h : Heap) (p : Nat) (v : Int) (j : Nat) (hp : p < h.size) :
    ((h.alloc v (h.link p)).1.setLink p (some h.size)).link j =
      if j = p then some h.size else if j = h.size then h.link p else h.link j := by
  rw [link_setLink, link_alloc, size_alloc]
  by_cases h1 : j = p
  · simp [h1]; omega
  · simp [h1]

theorem head_insert (pre : List Nat) (p n : Nat) (post : List Nat) :
    (pre ++ p :: n :: post).head? = (pre ++ p :: post).head? := by cases pre <;> simp

theorem push_wf (h : Heap) (pre : List Nat) (p : Nat) (post : List Nat) (v : Int)
    (hw : WF h (pre ++ p :: post)) :
    ∃ h1, push h p v = .ok h1 ∧ WF h1 (pre ++ p :: h.size :: post) ∧ h1.size = h.size + 1 ∧
      h1.val h.size = v ∧ (∀ j, j ≠ h.size → h1.val j = h.val j) := by
  have hv := cell_valid h pre p post hw.seg hw.nodup
  have hl := cell_link h pre p post none hw.seg
  have hp : p < h.size := hw.bound p (by simp)
  have hlk := push_link h p v
  refine ⟨((h.alloc v (h.link p)).1.setLink p (some h.size)), by simp [push, hv], ?_, by simp, ?_, ?_⟩
  · have hnd := hw.nodup
    rw [List.nodup_append] at hnd
    obtain ⟨hn1, hn2, hn3⟩ := hnd
    rw [List.nodup_cons] at hn2
    have hseg := hw.seg
    rw [segL_append] at hseg
    have hnpre : h.size ∉ pre := fun hm => Nat.lt_irrefl _ (hw.bound _ (by simp [hm]))
    have hnpost : h.size ∉ post := fun hm => Nat.lt_irrefl _ (hw.bound _ (by simp [hm]))
    refine ⟨by rw [head_insert]; exact hw.head, ?_, ?_, ?_, ?_, ?_, ?_⟩
    · rw [segL_append]
      refine ⟨?_, ?_, ?_, ?_⟩
      · rw [segL_congr h _ pre _ ?_]
        · simpa using hseg.1
        · intro a ha
          have h1 : a ≠ p := fun e => hn3 a ha p (by simp) e
          have h2 : a ≠ h.size := fun e => hnpre (e ▸ ha)
          rw [hlk a hp]; simp [h1, h2]
      · rw [hlk p hp]; simp
      · rw [hlk _ hp]
        have : h.size ≠ p := by omega
        simp [this, hl]
      · rw [segL_congr h _ post _ ?_]
        · exact hseg.2.2
        · intro a ha
          have h1 : a ≠ p := fun e => hn2.1 (e ▸ ha)
          have h2 : a ≠ h.size := fun e => hnpost (e ▸ ha)
          rw [hlk a hp]; simp [h1, h2]
    · rw [List.nodup_append]
      refine ⟨hn1, ?_, ?_⟩
      · rw [List.nodup_cons, List.nodup_cons]
        refine ⟨?_, hnpost, hn2.2⟩
        simp only [List.mem_cons, not_or]
        exact ⟨by omega, hn2.1⟩
      · intro a ha b hb
        simp only [List.mem_cons] at hb
        rcases hb with rfl | rfl | hb
        · exact hn3 a ha _ (by simp)
        · intro e; exact hnpre (e ▸ ha)
        · exact hn3 a ha b (by simp [hb])
    · intro i hi
      simp only [List.mem_append, List.mem_cons] at hi
      rw [size_setLink, size_alloc]
      rcases hi with hi | rfl | rfl | hi
      · have := hw.bound i (by simp [hi]); omega
      · omega
      · omega
      · have := hw.bound i (by simp [hi]); omega
    · simp [Heap.alloc, Heap.setLink, hw.vlen]
    · have := hw.len
      simp only [List.length_append, List.length_cons, size_setLink, size_alloc] at this ⊢
      omega
    · intro j hj hn
      simp only [List.mem_append, List.mem_cons, not_or] at hn
      rw [size_setLink, size_alloc] at hj
      rw [hlk j hp]
      simp only [hn.2.1, hn.2.2.1, if_false]
      exact hw.off j (by omega) (by simp [hn.1, hn.2.1, hn.2.2.2])
  · simp [val_alloc _ _ _ _ hw.vlen]
  · intro j hj
    simp [val_alloc _ _ _ _ hw.vlen, hj]

/-! ## Remove -/

theorem remove_wf (h : Heap) (pre : List Nat) (p t : Nat) (post : List Nat)
    (hw : WF h (pre ++ p :: t :: post)) :
    ∃ h1, remove h p = .ok (h1, h.val t) ∧ WF h1 (pre ++ p :: post) ∧ h1.link t = some t ∧
      h1.vals = h.vals ∧ h1.size = h.size := by
  have hl := cell_link h pre p (t :: post) none hw.seg
  have hlt : h.link t = post.head?.or none := by
    have := cell_link h (pre ++ [p]) t post none (by simpa using hw.seg)
    exact this
  have hp : p < h.size := hw.bound p (by simp)
  have ht : t < h.size := hw.bound t (by simp)
  have hnd := hw.nodup
  rw [List.nodup_append] at hnd
  obtain ⟨hn1, hn2, hn3⟩ := hnd
  rw [List.nodup_cons, List.nodup_cons] at hn2
  have hpt : p ≠ t := fun e => hn2.1 (by simp [e])
  have hlk : ∀ j, ((h.setLink t (some t)).setLink p (h.link t)).link j =
      if j = p then h.link t else if j = t then some t else h.link j := by
    intro j
    rw [link_setLink, link_setLink, size_setLink]
    by_cases h1 : j = p
    · simp [h1, hp]
    · simp [h1, ht]
  refine ⟨(h.setLink t (some t)).setLink p (h.link t), ?_, ?_, ?_, rfl, by simp⟩
  · simp [remove, atEnd_cell h pre p (t :: post) hw.seg hw.nodup, tgt, hl]
  · have hseg := hw.seg
    rw [segL_append] at hseg
    refine ⟨?_, ?_, ?_, ?_, ?_, ?_, ?_⟩
    · have := hw.head; cases pre <;> simpa using this
    · rw [segL_append]
      refine ⟨?_, ?_, ?_⟩
      · rw [segL_congr h _ pre _ ?_]
        · simpa using hseg.1
        · intro a ha
          have h1 : a ≠ p := fun e => hn3 a ha p (by simp) e
          have h2 : a ≠ t := fun e => hn3 a ha t (by simp) e
          rw [hlk a]; simp [h1, h2]
      · rw [hlk p]; simp [hlt]
      · rw [segL_congr h _ post _ ?_]
        · exact hseg.2.2.2
        · intro a ha
          have h1 : a ≠ p := fun e => hn2.1 (by simp [← e, ha])
          have h2 : a ≠ t := fun e => hn2.2.1 (e ▸ ha)
          rw [hlk a]; simp [h1, h2]
    · rw [List.nodup_append]
      refine ⟨hn1, ?_, ?_⟩
      · rw [List.nodup_cons]
        exact ⟨fun hm => hn2.1 (by simp [hm]), hn2.2.2⟩
      · intro a ha b hb
        exact hn3 a ha b (by simp only [List.mem_cons] at hb ⊢; rcases hb with rfl | hb <;> simp [*])
    · intro i hi
      simp only [size_setLink]
      apply hw.bound
      simp only [List.mem_append, List.mem_cons] at hi ⊢
      rcases hi with hi | rfl | hi <;> simp [*]
    · simpa [Heap.setLink] using hw.vlen
    · have := hw.len
      simp only [List.length_append, List.length_cons, size_setLink] at this ⊢
      omega
    · intro j hj hn
      simp only [List.mem_append, List.mem_cons, not_or] at hn
      simp only [size_setLink] at hj
      rw [hlk j]
      simp only [hn.2.1, if_false]
      by_cases hjt : j = t
      · simp [hjt]
      · simp only [hjt, if_false]
        exact hw.off j hj (by simp [hn.1, hn.2.1, hn.2.2, hjt])
  · rw [hlk t]; simp [hpt.symm]

theorem remove_end (h : Heap) (pre : List Nat) (p : Nat) (hw : WF h (pre ++ [p])) :
    remove h p = .ok (h, 0) := by
  simp [remove, atEnd_cell h pre p [] hw.seg hw.nodup]

end MdsVerif.Proofs.Mlink
