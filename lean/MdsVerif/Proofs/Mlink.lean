import MdsVerif.Model.Mlink
import MdsVerif.Spec.CursorList
/-!
# Heap-level lemmas for `mlink` (helper lemmas for C10)

* `SegL h xs e`: the cells `xs` are linked in this order and the last links to `e`.
* `WF h xs`: `xs = 0 :: ids` is the duplicate-free chain from the sentinel ending in nil;
  every other cell is self-linked (detached).  `abs h xs = (xs.tail).map val`.
* every cursor/list method on a well-formed heap: result, new chain, frame.
-/
namespace MdsVerif.Proofs.Mlink
open MdsVerif.Model MdsVerif.Model.Mlink MdsVerif.Spec

/-! ## the model functions with the regenerated facts (`Gen.MlinkQueue`) written out

`extract/mlinkq.go` regenerates from mlink/queue.go and mlink/list.go: the test under which `Queue.Pop` resets
`q.back`, the size after `Pop`/`Add`/`Clear`, whether `Cursor.Remove` self-links the removed entry
unconditionally, and whether `Cursor.Truncate` invalidates before it cuts.  The proofs below (and
`Proofs.MlinkRefine`) unfold `remove`, `truncate`, `qadd`, `qpop`, `qclear` only through these lemmas. -/
section facts
open MdsVerif.Gen.MlinkQueue

theorem remove_def (h : Heap) (p : Nat) :
    remove h p =
      (atEnd h p).bind fun e =>
      if e then .ok (h, 0) else
      let t := tgt h p
      let val := h.val t
      let nx := h.link t
      .ok ((h.setLink t (some t)).setLink p nx, val) := by
  simp [remove, removeSelfLinksAlways]

theorem truncate_def (h : Heap) (p : Nat) :
    truncate h p =
      if invalid h p then .panic h p else
      (invalidate (h.size + 1) h (h.link p)).bind fun h1 => .ok (h1.setLink p none) := by
  simp [truncate, truncateInvalidatesFirst]

theorem qadd_def (q : Q) (v : Int) :
    qadd q v =
      match add q.h q.backPred [v] with
      | .ok (h', p') => ({ h := h', back := some p', size := q.size + 1 }, .unit)
      | .panic h' p' => ({ q with h := h', back := some p' }, .panicInvalid)
      | .hang => (q, .hang) := by
  simp only [qadd, addSize]
  rfl

theorem qpop_def (q : Q) :
    qpop q =
      match get q.h 0 with
      | .panic _ _ => (q, .panicInvalid)
      | .hang => (q, .hang)
      | .ok out =>
      match atEnd q.h 0 with
      | .panic _ _ => (q, .panicInvalid)
      | .hang => (q, .hang)
      | .ok true => (q, .pair out false)
      | .ok false =>
      match remove q.h 0 with
      | .panic _ _ => (q, .panicInvalid)
      | .hang => (q, .hang)
      | .ok (h', _) =>
        let q' : Q := { q with h := h', size := q.size - 1 }
        (if isEmpty h' then { q' with back := some 0 } else q', .pair out true) := by
  simp only [qpop, popSize, popResets]
  rfl

theorem qclear_def (q : Q) :
    qclear q =
      match clear q.h with
      | .ok h' => ({ h := h', back := some 0, size := 0 }, .unit)
      | .panic h' _ => ({ q with h := h' }, .panicInvalid)
      | .hang => (q, .hang) := by
  simp only [qclear, clearSize]
  rfl

end facts

/-! ## heap algebra -/

theorem link_setLink (h : Heap) (i : Nat) (l : Option Nat) (j : Nat) :
    (h.setLink i l).link j = if j = i ∧ i < h.size then l else h.link j := by
  unfold Heap.setLink Heap.link Heap.size
  simp only [List.getD_eq_getElem?_getD, List.getElem?_set]
  by_cases hji : i = j
  · subst hji
    by_cases hlt : i < h.links.length <;> simp [hlt]
  · have : ¬ j = i := fun e => hji e.symm
    simp [hji, this]

theorem link_alloc (h : Heap) (v : Int) (l : Option Nat) (j : Nat) :
    (h.alloc v l).1.link j = if j = h.size then l else h.link j := by
  unfold Heap.alloc Heap.link Heap.size
  simp only [List.getD_eq_getElem?_getD]
  by_cases h1 : j < h.links.length
  · rw [List.getElem?_append_left h1]; simp [Nat.ne_of_lt h1]
  · by_cases h2 : j = h.links.length
    · subst h2; simp
    · rw [List.getElem?_eq_none (by simp; omega), List.getElem?_eq_none (by omega)]; simp [h2]

theorem val_alloc (h : Heap) (v : Int) (l : Option Nat) (j : Nat) (hv : h.vals.length = h.links.length) :
    (h.alloc v l).1.val j = if j = h.size then v else h.val j := by
  unfold Heap.alloc Heap.val Heap.size
  simp only [List.getD_eq_getElem?_getD]
  by_cases h1 : j < h.vals.length
  · rw [List.getElem?_append_left h1]; simp [show j ≠ h.links.length by omega]
  · by_cases h2 : j = h.vals.length
    · subst h2; simp [hv]
    · rw [List.getElem?_eq_none (by simp; omega), List.getElem?_eq_none (by omega)]
      simp [show j ≠ h.links.length by omega]

theorem val_setVal (h : Heap) (i : Nat) (v : Int) (j : Nat) :
    (h.setVal i v).val j = if j = i ∧ i < h.vals.length then v else h.val j := by
  unfold Heap.setVal Heap.val
  simp only [List.getD_eq_getElem?_getD, List.getElem?_set]
  by_cases hji : i = j
  · subst hji
    by_cases hlt : i < h.vals.length <;> simp [hlt]
  · have : ¬ j = i := fun e => hji e.symm
    simp [hji, this]

@[simp] theorem val_setLink (h : Heap) (i : Nat) (l : Option Nat) (j : Nat) : (h.setLink i l).val j = h.val j := rfl
@[simp] theorem link_setVal (h : Heap) (i : Nat) (v : Int) (j : Nat) : (h.setVal i v).link j = h.link j := rfl
@[simp] theorem size_setLink (h : Heap) (i : Nat) (l : Option Nat) : (h.setLink i l).size = h.size := by
  simp [Heap.setLink, Heap.size]
@[simp] theorem size_setVal (h : Heap) (i : Nat) (v : Int) : (h.setVal i v).size = h.size := rfl
@[simp] theorem size_alloc (h : Heap) (v : Int) (l : Option Nat) : (h.alloc v l).1.size = h.size + 1 := by
  simp [Heap.alloc, Heap.size]
@[simp] theorem alloc_snd (h : Heap) (v : Int) (l : Option Nat) : (h.alloc v l).2 = h.size := rfl
@[simp] theorem vals_setLink (h : Heap) (i : Nat) (l : Option Nat) : (h.setLink i l).vals = h.vals := rfl
@[simp] theorem links_setVal (h : Heap) (i : Nat) (v : Int) : (h.setVal i v).links = h.links := rfl

@[simp] theorem bind_ok {β γ : Type} (v : β) (f : β → Res γ) : (Res.ok v).bind f = f v := rfl
@[simp] theorem bind_panic {β γ : Type} (h : Heap) (p : Nat) (f : β → Res γ) :
    (Res.panic h p : Res β).bind f = .panic h p := rfl
@[simp] theorem bind_hang {β γ : Type} (f : β → Res γ) : (Res.hang : Res β).bind f = .hang := rfl

/-! ## stale cursors: every method refuses, nothing changes -/

/-- **stale cursor**: a cursor whose `pred` is self-linked makes every `Cursor` method panic at
its first statement, with the heap and the cursor exactly as they were -/
theorem stale_refuses (h : Heap) (p : Nat) (hs : h.link p = some p) :
    atEnd h p = .panic h p ∧ get h p = .panic h p ∧ (∀ v, set h p v = .panic h p) ∧
    next h p = .panic h p ∧ (∀ v, push h p v = .panic h p) ∧
    (∀ v vs, add h p (v :: vs) = .panic h p) ∧ remove h p = .panic h p ∧ truncate h p = .panic h p := by
  have hi : invalid h p = true := by simp [invalid, hs]
  have ha : atEnd h p = .panic h p := by simp [atEnd, hi]
  refine ⟨ha, ?_, ?_, ?_, ?_, ?_, ?_, ?_⟩
  · simp [Mlink.get, ha]
  · intro v; simp [Mlink.set, ha]
  · simp [next, ha]
  · intro v; simp [push, hi]
  · intro v vs; simp [add, push, hi]
  · simp [remove_def, ha]
  · simp [truncate_def, hi]

/-! ## linked segments -/

/-- the cells `xs` are linked in this order, the last one links to `e` -/
def SegL (h : Heap) : List Nat → Option Nat → Prop
  | [], _ => True
  | a :: l, e => h.link a = l.head?.or e ∧ SegL h l e

theorem segL_append (h : Heap) (l1 l2 : List Nat) (e : Option Nat) :
    SegL h (l1 ++ l2) e ↔ SegL h l1 (l2.head?.or e) ∧ SegL h l2 e := by
  induction l1 with
  | nil => simp [SegL]
  | cons a l ih =>
    simp only [List.cons_append, SegL, ih]
    have : (l ++ l2).head?.or e = l.head?.or (l2.head?.or e) := by cases l <;> simp
    rw [this]
    constructor
    · rintro ⟨h1, h2, h3⟩; exact ⟨⟨h1, h2⟩, h3⟩
    · rintro ⟨⟨h1, h2⟩, h3⟩; exact ⟨h1, h2, h3⟩

theorem segL_congr (h h' : Heap) (xs : List Nat) (e : Option Nat)
    (hc : ∀ a ∈ xs, h'.link a = h.link a) : SegL h' xs e ↔ SegL h xs e := by
  induction xs with
  | nil => simp [SegL]
  | cons a l ih =>
    simp only [SegL]
    rw [hc a (by simp), ih (fun b hb => hc b (by simp [hb]))]

/-- well-formed heap: `xs = 0 :: ids` is the chain from the sentinel, everything else is detached -/
structure WF (h : Heap) (xs : List Nat) : Prop where
  head : xs.head? = some 0
  seg : SegL h xs none
  nodup : xs.Nodup
  bound : ∀ i ∈ xs, i < h.size
  vlen : h.vals.length = h.links.length
  len : xs.length ≤ h.size
  off : ∀ j, j < h.size → j ∉ xs → h.link j = some j

/-- the abstract sequence -/
def abs (h : Heap) (xs : List Nat) : List Int := xs.tail.map h.val

theorem wf_empty : WF Heap.empty [0] ∧ abs Heap.empty [0] = [] := by
  refine ⟨⟨rfl, ?_, by simp, ?_, rfl, by simp [Heap.empty, Heap.size], ?_⟩, rfl⟩
  · simp [SegL, Heap.empty, Heap.link]
  · simp [Heap.empty, Heap.size]
  · intro j hj hn; simp [Heap.empty, Heap.size] at hj; subst hj; simp at hn

/-- what a cell on the chain looks like -/
theorem cell_link (h : Heap) (pre : List Nat) (p : Nat) (post : List Nat) (e : Option Nat)
    (hs : SegL h (pre ++ p :: post) e) : h.link p = post.head?.or e := by
  rw [segL_append] at hs
  exact hs.2.1

theorem cell_valid (h : Heap) (pre : List Nat) (p : Nat) (post : List Nat)
    (hs : SegL h (pre ++ p :: post) none) (hn : (pre ++ p :: post).Nodup) : invalid h p = false := by
  have hl := cell_link h pre p post none hs
  have hn2 : (p :: post).Nodup := (List.nodup_append.mp hn).2.1
  have hp : p ∉ post := (List.nodup_cons.mp hn2).1
  simp only [invalid, hl, Option.or_none, beq_eq_false_iff_ne, ne_eq]
  intro hc
  cases post with
  | nil => simp at hc
  | cons q r => simp at hc; subst hc; simp at hp

theorem atEnd_cell (h : Heap) (pre : List Nat) (p : Nat) (post : List Nat)
    (hs : SegL h (pre ++ p :: post) none) (hn : (pre ++ p :: post).Nodup) :
    atEnd h p = .ok post.isEmpty := by
  have hv := cell_valid h pre p post hs hn
  have hl := cell_link h pre p post none hs
  simp only [atEnd, hv, hl]
  cases post <;> simp

theorem get_cell (h : Heap) (pre : List Nat) (p : Nat) (post : List Nat)
    (hs : SegL h (pre ++ p :: post) none) (hn : (pre ++ p :: post).Nodup) :
    Mlink.get h p = .ok ((post.head?.map h.val).getD 0) := by
  have hv := cell_valid h pre p post hs hn
  have hl := cell_link h pre p post none hs
  simp only [Mlink.get, atEnd_cell h pre p post hs hn, bind_ok, hv]
  cases post with
  | nil => simp
  | cons q r => simp [tgt, hl]

theorem next_cell (h : Heap) (pre : List Nat) (p q : Nat) (post : List Nat)
    (hs : SegL h (pre ++ p :: q :: post) none) (hn : (pre ++ p :: q :: post).Nodup) :
    next h p = .ok (q, !post.isEmpty) := by
  have hl := cell_link h pre p (q :: post) none hs
  have h2 : atEnd h q = .ok post.isEmpty := by
    have := atEnd_cell h (pre ++ [p]) q post (by simpa using hs) (by simpa using hn)
    exact this
  simp [next, atEnd_cell h pre p (q :: post) hs hn, tgt, hl, h2]

theorem next_end (h : Heap) (pre : List Nat) (p : Nat)
    (hs : SegL h (pre ++ [p]) none) (hn : (pre ++ [p]).Nodup) :
    next h p = .ok (p, false) := by
  simp [next, atEnd_cell h pre p [] hs hn]

/-! ## Push -/

theorem push_link (h : Heap) (p : Nat) (v : Int) (j : Nat) (hp : p < h.size) :
    ((h.alloc v (h.link p)).1.setLink p (some h.size)).link j =
      if j = p then some h.size else if j = h.size then h.link p else h.link j := by
  rw [link_setLink, link_alloc, size_alloc]
  by_cases h1 : j = p
  · simp [h1]; omega
  · simp [h1]

theorem head_insert (pre : List Nat) (p n : Nat) (post : List Nat) :
    (pre ++ p :: n :: post).head? = (pre ++ p :: post).head? := by cases pre <;> simp

theorem push_wf (h : Heap) (pre : List Nat) (p : Nat) (post : List Nat) (v : Int)
    (hw : WF h (pre ++ p :: post)) :
    ∃ h1, push h p v = .ok h1 ∧ WF h1 (pre ++ p :: h.size :: post) ∧ h1.size = h.size + 1 ∧
      h1.val h.size = v ∧ (∀ j, j ≠ h.size → h1.val j = h.val j) := by
  have hv := cell_valid h pre p post hw.seg hw.nodup
  have hl := cell_link h pre p post none hw.seg
  have hp : p < h.size := hw.bound p (by simp)
  have hlk := push_link h p v
  refine ⟨((h.alloc v (h.link p)).1.setLink p (some h.size)), by simp [push, hv], ?_, by simp, ?_, ?_⟩
  · have hnd := hw.nodup
    rw [List.nodup_append] at hnd
    obtain ⟨hn1, hn2, hn3⟩ := hnd
    rw [List.nodup_cons] at hn2
    have hseg := hw.seg
    rw [segL_append] at hseg
    have hnpre : h.size ∉ pre := fun hm => Nat.lt_irrefl _ (hw.bound _ (by simp [hm]))
    have hnpost : h.size ∉ post := fun hm => Nat.lt_irrefl _ (hw.bound _ (by simp [hm]))
    refine ⟨by rw [head_insert]; exact hw.head, ?_, ?_, ?_, ?_, ?_, ?_⟩
    · rw [segL_append]
      refine ⟨?_, ?_, ?_, ?_⟩
      · rw [segL_congr h _ pre _ ?_]
        · simpa using hseg.1
        · intro a ha
          have h1 : a ≠ p := fun e => hn3 a ha p (by simp) e
          have h2 : a ≠ h.size := fun e => hnpre (e ▸ ha)
          rw [hlk a hp]; simp [h1, h2]
      · rw [hlk p hp]; simp
      · rw [hlk _ hp]
        have : h.size ≠ p := by omega
        simp [this, hl]
      · rw [segL_congr h _ post _ ?_]
        · exact hseg.2.2
        · intro a ha
          have h1 : a ≠ p := fun e => hn2.1 (e ▸ ha)
          have h2 : a ≠ h.size := fun e => hnpost (e ▸ ha)
          rw [hlk a hp]; simp [h1, h2]
    · rw [List.nodup_append]
      refine ⟨hn1, ?_, ?_⟩
      · rw [List.nodup_cons, List.nodup_cons]
        refine ⟨?_, hnpost, hn2.2⟩
        simp only [List.mem_cons, not_or]
        exact ⟨by omega, hn2.1⟩
      · intro a ha b hb
        simp only [List.mem_cons] at hb
        rcases hb with rfl | rfl | hb
        · exact hn3 a ha _ (by simp)
        · intro e; exact hnpre (e ▸ ha)
        · exact hn3 a ha b (by simp [hb])
    · intro i hi
      simp only [List.mem_append, List.mem_cons] at hi
      rw [size_setLink, size_alloc]
      rcases hi with hi | rfl | rfl | hi
      · have := hw.bound i (by simp [hi]); omega
      · omega
      · omega
      · have := hw.bound i (by simp [hi]); omega
    · simp [Heap.alloc, Heap.setLink, hw.vlen]
    · have := hw.len
      simp only [List.length_append, List.length_cons, size_setLink, size_alloc] at this ⊢
      omega
    · intro j hj hn
      simp only [List.mem_append, List.mem_cons, not_or] at hn
      rw [size_setLink, size_alloc] at hj
      rw [hlk j hp]
      simp only [hn.2.1, hn.2.2.1, if_false]
      exact hw.off j (by omega) (by simp [hn.1, hn.2.1, hn.2.2.2])
  · simp [val_alloc _ _ _ _ hw.vlen]
  · intro j hj
    simp [val_alloc _ _ _ _ hw.vlen, hj]

/-! ## Remove -/

theorem remove_wf (h : Heap) (pre : List Nat) (p t : Nat) (post : List Nat)
    (hw : WF h (pre ++ p :: t :: post)) :
    ∃ h1, remove h p = .ok (h1, h.val t) ∧ WF h1 (pre ++ p :: post) ∧ h1.link t = some t ∧
      h1.vals = h.vals ∧ h1.size = h.size := by
  have hl := cell_link h pre p (t :: post) none hw.seg
  have hlt : h.link t = post.head?.or none := by
    have := cell_link h (pre ++ [p]) t post none (by simpa using hw.seg)
    exact this
  have hp : p < h.size := hw.bound p (by simp)
  have ht : t < h.size := hw.bound t (by simp)
  have hnd := hw.nodup
  rw [List.nodup_append] at hnd
  obtain ⟨hn1, hn2, hn3⟩ := hnd
  rw [List.nodup_cons, List.nodup_cons] at hn2
  have hpt : p ≠ t := fun e => hn2.1 (by simp [e])
  have hlk : ∀ j, ((h.setLink t (some t)).setLink p (h.link t)).link j =
      if j = p then h.link t else if j = t then some t else h.link j := by
    intro j
    rw [link_setLink, link_setLink, size_setLink]
    by_cases h1 : j = p
    · simp [h1, hp]
    · simp [h1, ht]
  refine ⟨(h.setLink t (some t)).setLink p (h.link t), ?_, ?_, ?_, rfl, by simp⟩
  · simp [remove_def, atEnd_cell h pre p (t :: post) hw.seg hw.nodup, tgt, hl]
  · have hseg := hw.seg
    rw [segL_append] at hseg
    refine ⟨?_, ?_, ?_, ?_, ?_, ?_, ?_⟩
    · have := hw.head; cases pre <;> simpa using this
    · rw [segL_append]
      refine ⟨?_, ?_, ?_⟩
      · rw [segL_congr h _ pre _ ?_]
        · simpa using hseg.1
        · intro a ha
          have h1 : a ≠ p := fun e => hn3 a ha p (by simp) e
          have h2 : a ≠ t := fun e => hn3 a ha t (by simp) e
          rw [hlk a]; simp [h1, h2]
      · rw [hlk p]; simp [hlt]
      · rw [segL_congr h _ post _ ?_]
        · exact hseg.2.2.2
        · intro a ha
          have h1 : a ≠ p := fun e => hn2.1 (by simp [← e, ha])
          have h2 : a ≠ t := fun e => hn2.2.1 (e ▸ ha)
          rw [hlk a]; simp [h1, h2]
    · rw [List.nodup_append]
      refine ⟨hn1, ?_, ?_⟩
      · rw [List.nodup_cons]
        exact ⟨fun hm => hn2.1 (by simp [hm]), hn2.2.2⟩
      · intro a ha b hb
        exact hn3 a ha b (by simp only [List.mem_cons] at hb ⊢; rcases hb with rfl | hb <;> simp [*])
    · intro i hi
      simp only [size_setLink]
      apply hw.bound
      simp only [List.mem_append, List.mem_cons] at hi ⊢
      rcases hi with hi | rfl | hi <;> simp [*]
    · simpa [Heap.setLink] using hw.vlen
    · have := hw.len
      simp only [List.length_append, List.length_cons, size_setLink] at this ⊢
      omega
    · intro j hj hn
      simp only [List.mem_append, List.mem_cons, not_or] at hn
      simp only [size_setLink] at hj
      rw [hlk j]
      simp only [hn.2.1, if_false]
      by_cases hjt : j = t
      · simp [hjt]
      · simp only [hjt, if_false]
        exact hw.off j hj (by simp [hn.1, hn.2.1, hn.2.2, hjt])
  · rw [hlk t]; simp [hpt.symm]

theorem remove_end (h : Heap) (pre : List Nat) (p : Nat) (hw : WF h (pre ++ [p])) :
    remove h p = .ok (h, 0) := by
  simp [remove, atEnd_cell h pre p [] hw.seg hw.nodup]

/-! ## invalidate / Truncate / Clear -/

/-- on a nil-terminated duplicate-free segment `invalidate` terminates within `|segment| + 1`
iterations and self-links exactly the cells of the segment -/
theorem invalidate_seg : ∀ (l : List Nat) (a : Nat) (h : Heap) (fuel : Nat),
    SegL h (a :: l) none → (a :: l).Nodup → (∀ i ∈ a :: l, i < h.size) → l.length + 2 ≤ fuel →
    ∃ h', invalidate fuel h (some a) = .ok h' ∧ h'.size = h.size ∧ h'.vals = h.vals ∧
      ∀ j, h'.link j = if j ∈ a :: l then some j else h.link j := by
  intro l
  induction l with
  | nil =>
    intro a h fuel hs _ hb hf
    obtain ⟨f, rfl⟩ : ∃ f, fuel = f + 1 := ⟨fuel - 1, by omega⟩
    obtain ⟨f, rfl⟩ : ∃ g, f = g + 1 := ⟨f - 1, by omega⟩
    have hl : h.link a = none := by simpa [SegL] using hs.1
    refine ⟨h.setLink a (some a), by simp [invalidate, hl], by simp, rfl, ?_⟩
    intro j
    rw [link_setLink]
    have := hb a (by simp)
    by_cases hj : j = a <;> simp [hj, this]
  | cons b l ih =>
    intro a h fuel hs hn hb hf
    obtain ⟨f, rfl⟩ : ∃ f, fuel = f + 1 := ⟨fuel - 1, by omega⟩
    have hl : h.link a = some b := by simpa [SegL] using hs.1
    have ha : a < h.size := hb a (by simp)
    rw [List.nodup_cons] at hn
    have hs' : SegL (h.setLink a (some a)) (b :: l) none := by
      rw [segL_congr h _ (b :: l) _ ?_]
      · exact hs.2
      · intro c hc
        rw [link_setLink]
        have : c ≠ a := fun e => hn.1 (e ▸ hc)
        simp [this]
    obtain ⟨h', e1, e2, e3, e4⟩ := ih b (h.setLink a (some a)) f hs' hn.2
      (fun i hi => by rw [size_setLink]; exact hb i (by simp [hi])) (by simp at hf ⊢; omega)
    refine ⟨h', by simp [invalidate, hl, e1], by simpa using e2, by simpa using e3, ?_⟩
    intro j
    rw [e4 j, link_setLink]
    by_cases hj : j ∈ b :: l
    · simp [hj]
    · by_cases hja : j = a
      · simp [hja, ha]
      · simp [hj, hja]

theorem truncate_wf (h : Heap) (pre : List Nat) (p : Nat) (post : List Nat)
    (hw : WF h (pre ++ p :: post)) :
    ∃ h1, truncate h p = .ok h1 ∧ WF h1 (pre ++ [p]) ∧ (∀ j ∈ post, h1.link j = some j) ∧
      h1.vals = h.vals ∧ h1.size = h.size := by
  have hv := cell_valid h pre p post hw.seg hw.nodup
  have hl := cell_link h pre p post none hw.seg
  have hp : p < h.size := hw.bound p (by simp)
  have hnd := hw.nodup
  rw [List.nodup_append] at hnd
  obtain ⟨hn1, hn2, hn3⟩ := hnd
  rw [List.nodup_cons] at hn2
  have hseg := hw.seg
  rw [segL_append] at hseg
  -- the heap after the invalidate loop
  have key : ∃ h', invalidate (h.size + 1) h (h.link p) = .ok h' ∧ h'.size = h.size ∧ h'.vals = h.vals ∧
      ∀ j, h'.link j = if j ∈ post then some j else h.link j := by
    cases post with
    | nil => exact ⟨h, by simp [hl, invalidate], rfl, rfl, by simp⟩
    | cons a l =>
      have hlen := hw.len
      simp only [List.length_append, List.length_cons] at hlen
      have := invalidate_seg l a h (h.size + 1) hseg.2.2 hn2.2
        (fun i hi => hw.bound i (by simp only [List.mem_cons] at hi; rcases hi with rfl | hi <;> simp [*])) (by omega)
      simpa [hl] using this
  obtain ⟨h', e1, e2, e3, e4⟩ := key
  have hlk : ∀ j, (h'.setLink p none).link j =
      if j = p then none else if j ∈ post then some j else h.link j := by
    intro j
    rw [link_setLink, e2, e4]
    by_cases h1 : j = p <;> simp [h1, hp]
  refine ⟨h'.setLink p none, by simp [truncate_def, hv, e1], ?_, ?_, by simpa using e3, by simpa using e2⟩
  · refine ⟨?_, ?_, ?_, ?_, ?_, ?_, ?_⟩
    · have := hw.head; cases pre <;> simpa using this
    · rw [segL_append]
      refine ⟨?_, ?_, trivial⟩
      · rw [segL_congr h _ pre _ ?_]
        · simpa using hseg.1
        · intro a ha
          have h1 : a ≠ p := fun e => hn3 a ha p (by simp) e
          have h2 : a ∉ post := fun hm => hn3 a ha a (by simp [hm]) rfl
          rw [hlk a]; simp [h1, h2]
      · rw [hlk p]; simp
    · rw [List.nodup_append]
      exact ⟨hn1, by simp, fun a ha b hb => hn3 a ha b (by simp at hb; simp [hb])⟩
    · intro i hi
      rw [size_setLink, e2]
      apply hw.bound
      simp only [List.mem_append, List.mem_singleton] at hi
      rcases hi with hi | rfl <;> simp [*]
    · simpa [Heap.setLink, e3] using (show h.vals.length = h'.links.length by
        have := hw.vlen; simp only [Heap.size] at e2; omega)
    · have := hw.len
      simp only [List.length_append, List.length_cons, List.length_nil, size_setLink, e2] at this ⊢
      omega
    · intro j hj hn
      simp only [List.mem_append, List.mem_singleton, not_or] at hn
      rw [size_setLink, e2] at hj
      rw [hlk j]
      simp only [hn.2, if_false]
      by_cases hm : j ∈ post
      · simp [hm]
      · simp only [hm, if_false]
        exact hw.off j hj (by simp [hn.1, hn.2, hm])
  · intro j hj
    rw [hlk j]
    have : j ≠ p := fun e => hn2.1 (e ▸ hj)
    simp [this, hj]

theorem clear_eq_truncate (h : Heap) (xs : List Nat) (hw : WF h xs) : clear h = truncate h 0 := by
  obtain ⟨post, rfl⟩ : ∃ post, xs = 0 :: post := by
    have := hw.head; cases xs with
    | nil => simp at this
    | cons a l => simp at this; exact ⟨l, by rw [this]⟩
  have := cell_valid h [] 0 post hw.seg hw.nodup
  simp [clear, truncate_def, this]

/-! ## the traversal loops never run out of fuel on a well-formed chain -/

theorem eachLoop_seg : ∀ (post pre : List Nat) (p : Nat) (h : Heap) (fuel : Nat) (stop : Option Nat),
    SegL h (pre ++ p :: post) none → (pre ++ p :: post).Nodup → post.length + 1 ≤ fuel →
    eachLoop fuel h p stop =
      .ok ((match stop with | none => post | some k => post.take (k + 1)).map h.val) := by
  intro post
  induction post with
  | nil =>
    intro pre p h fuel stop hs hn hf
    obtain ⟨f, rfl⟩ : ∃ f, fuel = f + 1 := ⟨fuel - 1, by omega⟩
    simp only [eachLoop, atEnd_cell h pre p [] hs hn, List.isEmpty_nil, bind_ok, if_true]
    cases stop <;> simp
  | cons q r ih =>
    intro pre p h fuel stop hs hn hf
    obtain ⟨f, rfl⟩ : ∃ f, fuel = f + 1 := ⟨fuel - 1, by omega⟩
    simp only [eachLoop, atEnd_cell h pre p (q :: r) hs hn, get_cell h pre p (q :: r) hs hn,
      next_cell h pre p q r hs hn, List.isEmpty_cons, bind_ok]
    have ih' := fun st => ih (pre ++ [p]) q h f st (by simpa using hs) (by simpa using hn)
      (by simp at hf; omega)
    cases stop with
    | none => simp [ih']
    | some k =>
      cases k with
      | zero => simp
      | succ k => simp [ih']

theorem atLoop_seg : ∀ (post pre : List Nat) (p : Nat) (h : Heap) (fuel n : Nat),
    SegL h (pre ++ p :: post) none → (pre ++ p :: post).Nodup → post.length + 1 ≤ fuel →
    ∃ pre' p' post', pre ++ p :: post = pre' ++ p' :: post' ∧ pre'.length = pre.length + min n post.length ∧
      atLoop fuel h p n = .ok p' := by
  intro post
  induction post with
  | nil =>
    intro pre p h fuel n hs hn hf
    obtain ⟨f, rfl⟩ : ∃ f, fuel = f + 1 := ⟨fuel - 1, by omega⟩
    exact ⟨pre, p, [], rfl, by simp, by simp [atLoop, atEnd_cell h pre p [] hs hn]⟩
  | cons q r ih =>
    intro pre p h fuel n hs hn hf
    obtain ⟨f, rfl⟩ : ∃ f, fuel = f + 1 := ⟨fuel - 1, by omega⟩
    cases n with
    | zero => exact ⟨pre, p, q :: r, rfl, by simp, by simp [atLoop, atEnd_cell h pre p (q :: r) hs hn]⟩
    | succ m =>
      obtain ⟨pre', p', post', e1, e2, e3⟩ := ih (pre ++ [p]) q h f m (by simpa using hs) (by simpa using hn)
        (by simp at hf; omega)
      refine ⟨pre', p', post', by simpa using e1, ?_, ?_⟩
      · simp only [List.length_append, List.length_cons, List.length_nil] at e2 ⊢
        omega
      · simp [atLoop, atEnd_cell h pre p (q :: r) hs hn, next_cell h pre p q r hs hn, e3]

theorem each_wf (h : Heap) (ids : List Nat) (hw : WF h (0 :: ids)) (stop : Option Nat) :
    each h stop = .ok ((match stop with | none => ids | some k => ids.take (k + 1)).map h.val) := by
  have := hw.len
  simp only [List.length_cons] at this
  exact eachLoop_seg ids [] 0 h (h.size + 1) stop hw.seg hw.nodup (by omega)

theorem peek_wf (h : Heap) (ids : List Nat) (hw : WF h (0 :: ids)) (n : Nat) :
    peek h n = .ok (match (ids.map h.val)[n]? with | some v => (v, true) | none => (0, false)) := by
  have hlen := hw.len
  simp only [List.length_cons] at hlen
  obtain ⟨pre', p', post', e1, e2, e3⟩ :=
    atLoop_seg ids [] 0 h (h.size + 1) n hw.seg hw.nodup (by omega)
  have hs := hw.seg
  have hn := hw.nodup
  simp only [List.nil_append] at e1
  rw [e1] at hs hn
  simp only [peek, at_, e3, bind_ok, get_cell h pre' p' post' hs hn, atEnd_cell h pre' p' post' hs hn]
  simp only [List.length_nil, Nat.zero_add] at e2
  -- read `ids[n]?` off the split
  have hids : ids = (pre' ++ p' :: post').tail := by rw [← e1]; rfl
  have hl : ids.length = pre'.length + post'.length := by rw [hids]; simp
  by_cases hlt : n < ids.length
  · have hpl : pre'.length = n := by omega
    have hpost : post' ≠ [] := by intro e; simp [e] at hl; omega
    obtain ⟨q, r, rfl⟩ := List.exists_cons_of_ne_nil hpost
    have : ids[n]? = some q := by
      rw [hids]
      cases pre' with
      | nil => simp at hpl; subst hpl; simp
      | cons a l =>
        simp only [List.length_cons] at hpl
        simp only [List.cons_append, List.tail_cons]
        rw [List.getElem?_append_right (by omega)]
        have : n - l.length = 1 := by omega
        simp [this]
    simp [this]
  · have hpl : pre'.length = ids.length := by omega
    have hpost : post' = [] := by
      have : post'.length = 0 := by omega
      exact List.length_eq_zero_iff.mp this
    subst hpost
    rw [List.getElem?_eq_none (by simp; omega)]
    simp

/-! ## `mlink.Queue` -/

/-- the queue invariant: well-formed list, `back` is the end cursor (its `pred` is the last cell of the
chain; the zero value's nil `pred` stands for the sentinel), `size` is the length -/
structure QInv (q : Q) (xs : List Nat) : Prop where
  wf : WF q.h xs
  back : xs.getLast? = some q.backPred
  size : q.size = (xs.length : Int) - 1

theorem qinv_zero : QInv {} [0] := ⟨wf_empty.1, rfl, rfl⟩
theorem qinv_new : QInv Q.new [0] := ⟨wf_empty.1, rfl, rfl⟩

theorem xs_cons (h : Heap) (xs : List Nat) (hw : WF h xs) : ∃ ids, xs = 0 :: ids := by
  have := hw.head
  cases xs with
  | nil => simp at this
  | cons a l => simp at this; exact ⟨l, by rw [this]⟩

theorem qadd_inv (q : Q) (xs : List Nat) (v : Int) (hi : QInv q xs) :
    ∃ xs', QInv (qadd q v).1 xs' ∧ (qadd q v).2 = .unit ∧ abs (qadd q v).1.h xs' = abs q.h xs ++ [v] := by
  obtain ⟨pre, hx⟩ := List.getLast?_eq_some_iff.mp hi.back
  generalize hb : q.backPred = b at hx
  subst hx
  obtain ⟨h1, e1, w1, s1, v1, v2⟩ := push_wf q.h pre b [] v hi.wf
  have hn := next_cell h1 pre b q.h.size [] w1.seg w1.nodup
  refine ⟨pre ++ [b, q.h.size], ?_, ?_, ?_⟩
  · simp only [qadd_def, hb, add, e1, bind_ok, hn]
    refine ⟨w1, ?_, ?_⟩
    · simp [Q.backPred]
    · have := hi.size
      simp only [List.length_append, List.length_cons, List.length_nil] at this ⊢
      push_cast at this ⊢
      omega
  · simp [qadd_def, hb, add, e1, hn]
  · simp only [qadd_def, hb, add, e1, bind_ok, hn, abs]
    have : (pre ++ [b, q.h.size]).tail = (pre ++ [b]).tail ++ [q.h.size] := by cases pre <;> simp
    rw [this, List.map_append]
    congr 1
    · apply List.map_congr_left
      intro j hj
      apply v2
      have := hi.wf.bound j (List.mem_of_mem_tail hj)
      omega
    · simp [v1]

theorem qpop_inv (q : Q) (xs : List Nat) (hi : QInv q xs) :
    ∃ xs', QInv (qpop q).1 xs' ∧
      CursorList.qstep (abs q.h xs) .pop = (abs (qpop q).1.h xs', (qpop q).2) := by
  obtain ⟨ids, rfl⟩ := xs_cons q.h xs hi.wf
  have hg := get_cell q.h [] 0 ids hi.wf.seg hi.wf.nodup
  have ha := atEnd_cell q.h [] 0 ids hi.wf.seg hi.wf.nodup
  cases ids with
  | nil =>
    refine ⟨[0], ?_, ?_⟩
    · simpa [qpop_def, hg, ha] using hi
    · simp [qpop_def, hg, ha, CursorList.qstep, abs]
  | cons t r =>
    obtain ⟨h1, e1, w1, l1, v1, s1⟩ := remove_wf q.h [] 0 t r hi.wf
    have hem : isEmpty h1 = r.isEmpty := by
      have := cell_link h1 [] 0 r none w1.seg
      simp only [isEmpty, this]; cases r <;> simp
    refine ⟨0 :: r, ?_, ?_⟩
    · simp only [qpop_def, hg, ha, List.isEmpty_cons, e1, hem]
      have hsz : q.size - 1 = ((0 :: r).length : Int) - 1 := by
        have := hi.size; simp only [List.length_cons] at this ⊢; push_cast at this ⊢; omega
      cases r with
      | nil => exact ⟨w1, rfl, hsz⟩
      | cons a l =>
        refine ⟨w1, ?_, hsz⟩
        have := hi.back
        simpa [List.getLast?_cons_cons, Q.backPred] using this
    · simp only [qpop_def, hg, ha, List.isEmpty_cons, e1, hem, CursorList.qstep, abs, List.tail_cons, List.map_cons]
      have : List.map h1.val r = List.map q.h.val r := by
        apply List.map_congr_left; intro j _; simp [Heap.val, v1]
      cases r <;> simp [this]

theorem qclear_inv (q : Q) (xs : List Nat) (hi : QInv q xs) :
    QInv (qclear q).1 [0] ∧ (qclear q).2 = .unit ∧ abs (qclear q).1.h [0] = [] := by
  obtain ⟨ids, rfl⟩ := xs_cons q.h xs hi.wf
  obtain ⟨h1, e1, w1, _, _, _⟩ := truncate_wf q.h [] 0 ids hi.wf
  rw [← clear_eq_truncate q.h _ hi.wf] at e1
  have hq : qclear q = ({ h := h1, back := some 0, size := 0 }, .unit) := by simp [qclear_def, e1]
  rw [hq]
  exact ⟨⟨w1, rfl, rfl⟩, rfl, rfl⟩

/-! ## F7 regression: without the `checkValid` the stale `Truncate` never returns -/

theorem invalidate_selfloop (e : Nat) : ∀ (fuel : Nat) (h : Heap), e < h.size → h.link e = some e →
    invalidate fuel h (some e) = .hang := by
  intro fuel
  induction fuel with
  | zero => intro h _ _; rfl
  | succ f ih =>
    intro h hlt hl
    simp only [invalidate, hl]
    apply ih
    · simpa using hlt
    · rw [link_setLink]; simp [hlt]

theorem set_self {α : Type} (l : List (Option α)) (c : Nat) (p : α) (hc : l.getD c none = some p) :
    l.set c (some p) = l := by
  induction l generalizing c with
  | nil => rfl
  | cons a l ih =>
    cases c with
    | zero => simp at hc; simp [hc]
    | succ c => simp at hc; simp [ih c (by simpa using hc)]

theorem setReg_self (s : St) (c p : Nat) (hc : s.reg c = some p) : ({ s with h := s.h } : St).setReg c p = s := by
  cases s with
  | mk h regs => simp only [St.setReg, St.reg] at hc ⊢; rw [set_self regs c p hc]

/-! ## abstract view of a cursor at position `pre.length` -/

theorem abs_split (h : Heap) (pre : List Nat) (p : Nat) (post : List Nat) :
    abs h (pre ++ p :: post) = (pre ++ [p]).tail.map h.val ++ post.map h.val ∧
    ((pre ++ [p]).tail.map h.val).length = pre.length := by
  constructor
  · have : pre ++ p :: post = (pre ++ [p]) ++ post := by simp
    rw [abs, this, List.tail_append_of_ne_nil (by simp), List.map_append]
  · simp

theorem take_drop_split (h : Heap) (pre : List Nat) (p : Nat) (post : List Nat) :
    (abs h (pre ++ p :: post)).take pre.length = (pre ++ [p]).tail.map h.val ∧
    (abs h (pre ++ p :: post)).drop pre.length = post.map h.val := by
  obtain ⟨e, l⟩ := abs_split h pre p post
  rw [e]
  constructor
  · rw [List.take_append_of_le_length (by omega), List.take_of_length_le (by omega)]
  · rw [List.drop_append_of_le_length (by omega), List.drop_of_length_le (by omega)]; simp

/-- `Set` on an element: only that value changes -/
theorem set_mid_wf (h : Heap) (pre : List Nat) (p t : Nat) (post : List Nat) (v : Int)
    (hw : WF h (pre ++ p :: t :: post)) :
    Mlink.set h p v = .ok (h.setVal t v) ∧ WF (h.setVal t v) (pre ++ p :: t :: post) ∧
      abs (h.setVal t v) (pre ++ p :: t :: post) = (abs h (pre ++ p :: t :: post)).set pre.length v := by
  have hv := cell_valid h pre p (t :: post) hw.seg hw.nodup
  have hl := cell_link h pre p (t :: post) none hw.seg
  have ht : t < h.vals.length := by rw [hw.vlen]; exact hw.bound t (by simp)
  refine ⟨by simp [Mlink.set, atEnd_cell h pre p (t :: post) hw.seg hw.nodup, hv, tgt, hl], ?_, ?_⟩
  · exact ⟨hw.head, (segL_congr h (h.setVal t v) _ _ (fun _ _ => rfl)).mpr hw.seg, hw.nodup, hw.bound,
      by simpa [Heap.setVal] using hw.vlen, hw.len, hw.off⟩
  · obtain ⟨e1, l1⟩ := abs_split h pre p (t :: post)
    obtain ⟨e2, _⟩ := abs_split (h.setVal t v) pre p (t :: post)
    have hnd := hw.nodup
    have hnd' : ((pre ++ [p]) ++ t :: post).Nodup := by simpa using hnd
    rw [List.nodup_append] at hnd'
    obtain ⟨_, hn2, hn3⟩ := hnd'
    rw [List.nodup_cons] at hn2
    rw [e1, e2, List.set_append_right _ _ (by omega), l1, Nat.sub_self]
    simp only [List.map_cons, List.set_cons_zero, val_setVal, ht, and_true, if_true]
    congr 1
    · apply List.map_congr_left
      intro j hj
      have : j ≠ t := fun e => hn3 j (List.mem_of_mem_tail hj) t (by simp) e
      rw [val_setVal]; simp [this]
    · congr 1
      apply List.map_congr_left
      intro j hj
      have : j ≠ t := fun e => hn2.1 (e ▸ hj)
      rw [val_setVal]; simp [this]

theorem getD_append_at {α : Type} (l1 l2 : List α) (n : Nat) (d : α) (hl : l1.length = n) :
    (l1 ++ l2).getD n d = l2.getD 0 d := by
  simp only [List.getD_eq_getElem?_getD]
  rw [List.getElem?_append_right (by omega), hl, Nat.sub_self]

/-! ## Find / Last / End -/

theorem findLoop_seg (v : Int) : ∀ (post pre : List Nat) (p : Nat) (h : Heap) (fuel : Nat),
    SegL h (pre ++ p :: post) none → (pre ++ p :: post).Nodup → post.length + 1 ≤ fuel →
    ∃ pre' p' post', pre ++ p :: post = pre' ++ p' :: post' ∧
      pre'.length = pre.length + (post.map h.val).findIdx (· == v) ∧ findLoop fuel h p v = .ok p' := by
  intro post
  induction post with
  | nil =>
    intro pre p h fuel hs hn hf
    obtain ⟨f, rfl⟩ : ∃ f, fuel = f + 1 := ⟨fuel - 1, by omega⟩
    exact ⟨pre, p, [], rfl, by simp, by simp [findLoop, atEnd_cell h pre p [] hs hn]⟩
  | cons q r ih =>
    intro pre p h fuel hs hn hf
    obtain ⟨f, rfl⟩ : ∃ f, fuel = f + 1 := ⟨fuel - 1, by omega⟩
    by_cases hv : h.val q = v
    · refine ⟨pre, p, q :: r, rfl, by simp [List.findIdx_cons, hv], ?_⟩
      simp [findLoop, atEnd_cell h pre p (q :: r) hs hn, get_cell h pre p (q :: r) hs hn, hv]
    · obtain ⟨pre', p', post', e1, e2, e3⟩ := ih (pre ++ [p]) q h f (by simpa using hs) (by simpa using hn)
        (by simp at hf; omega)
      refine ⟨pre', p', post', by simpa using e1, ?_, ?_⟩
      · simp only [List.length_append, List.length_cons, List.length_nil] at e2
        have hb : (h.val q == v) = false := by simpa using hv
        rw [List.map_cons, List.findIdx_cons, hb]
        simp only [cond_false]
        omega
      · simp [findLoop, atEnd_cell h pre p (q :: r) hs hn, get_cell h pre p (q :: r) hs hn, hv,
          next_cell h pre p q r hs hn, e3]

theorem lastLoop_seg : ∀ (r pre : List Nat) (p q : Nat) (h : Heap) (fuel : Nat),
    SegL h (pre ++ p :: q :: r) none → (pre ++ p :: q :: r).Nodup → r.length + 1 ≤ fuel →
    ∃ pre' p' t, pre ++ p :: q :: r = pre' ++ [p', t] ∧ lastLoop fuel h p = .ok p' := by
  intro r
  induction r with
  | nil =>
    intro pre p q h fuel hs hn hf
    obtain ⟨f, rfl⟩ : ∃ f, fuel = f + 1 := ⟨fuel - 1, by omega⟩
    have hl := cell_link h pre p [q] none hs
    have hq := cell_link h (pre ++ [p]) q [] none (by simpa using hs)
    exact ⟨pre, p, q, rfl, by simp [lastLoop, tgt, hl, hq]⟩
  | cons q' r ih =>
    intro pre p q h fuel hs hn hf
    obtain ⟨f, rfl⟩ : ∃ f, fuel = f + 1 := ⟨fuel - 1, by omega⟩
    have hl := cell_link h pre p (q :: q' :: r) none hs
    have hq := cell_link h (pre ++ [p]) q (q' :: r) none (by simpa using hs)
    obtain ⟨pre', p', t, e1, e2⟩ := ih (pre ++ [p]) q q' h f (by simpa using hs) (by simpa using hn)
      (by simp at hf; omega)
    exact ⟨pre', p', t, by simpa using e1,
      by simp [lastLoop, tgt, hl, hq, next_cell h pre p q (q' :: r) hs hn, e2]⟩

/-- `Last`: the cursor in front of the last element (the end of an empty list) -/
theorem last_wf (h : Heap) (ids : List Nat) (hw : WF h (0 :: ids)) :
    ∃ pre' p' post', 0 :: ids = pre' ++ p' :: post' ∧ pre'.length = ids.length - 1 ∧ last h = .ok p' := by
  have hlen := hw.len
  simp only [List.length_cons] at hlen
  cases ids with
  | nil => exact ⟨[], 0, [], rfl, rfl, by simp [last, atEnd_cell h [] 0 [] hw.seg hw.nodup]⟩
  | cons q r =>
    obtain ⟨pre', p', t, e1, e2⟩ := lastLoop_seg r [] 0 q h (h.size + 1) hw.seg hw.nodup
      (by simp at hlen; omega)
    refine ⟨pre', p', [t], by simpa using e1, ?_, ?_⟩
    · have := congrArg List.length e1
      simp at this; simp; omega
    · simp [last, atEnd_cell h [] 0 (q :: r) hw.seg hw.nodup, e2]

/-- `End`: the cursor behind the last element -/
theorem end_wf (h : Heap) (ids : List Nat) (hw : WF h (0 :: ids)) :
    ∃ pre' p', 0 :: ids = pre' ++ [p'] ∧ end_ h = .ok p' := by
  have hlen := hw.len
  simp only [List.length_cons] at hlen
  cases ids with
  | nil =>
    exact ⟨[], 0, rfl, by simp [end_, last, atEnd_cell h [] 0 [] hw.seg hw.nodup, next_end h [] 0 hw.seg hw.nodup]⟩
  | cons q r =>
    obtain ⟨pre', p', t, e1, e2⟩ := lastLoop_seg r [] 0 q h (h.size + 1) hw.seg hw.nodup
      (by simp at hlen; omega)
    simp only [List.nil_append] at e1
    have hs := hw.seg; have hn := hw.nodup
    rw [e1] at hs hn
    refine ⟨pre' ++ [p'], t, by simpa using e1, ?_⟩
    have := next_cell h pre' p' t [] (by simpa using hs) (by simpa using hn)
    simp [end_, last, atEnd_cell h [] 0 (q :: r) hw.seg hw.nodup, e2, this]

theorem find_wf (h : Heap) (ids : List Nat) (hw : WF h (0 :: ids)) (v : Int) :
    ∃ pre' p' post', 0 :: ids = pre' ++ p' :: post' ∧
      pre'.length = (ids.map h.val).findIdx (· == v) ∧ find h v = .ok p' := by
  have hlen := hw.len
  simp only [List.length_cons] at hlen
  obtain ⟨pre', p', post', e1, e2, e3⟩ := findLoop_seg v ids [] 0 h (h.size + 1) hw.seg hw.nodup (by omega)
  exact ⟨pre', p', post', by simpa using e1, by simpa using e2, e3⟩

theorem at_wf (h : Heap) (ids : List Nat) (hw : WF h (0 :: ids)) (n : Nat) :
    ∃ pre' p' post', 0 :: ids = pre' ++ p' :: post' ∧ pre'.length = min n ids.length ∧ at_ h n = .ok p' := by
  have hlen := hw.len
  simp only [List.length_cons] at hlen
  obtain ⟨pre', p', post', e1, e2, e3⟩ := atLoop_seg ids [] 0 h (h.size + 1) n hw.seg hw.nodup (by omega)
  exact ⟨pre', p', post', by simpa using e1, by simpa using e2, e3⟩

/-! ## abstract effect of the editing operations (used by `Props/C10.lean` and `MlinkRefine.lean`) -/

theorem push_abs (h : Heap) (pre : List Nat) (p : Nat) (post : List Nat) (v : Int)
    (hw : WF h (pre ++ p :: post)) :
    ∃ h1 n, push h p v = .ok h1 ∧ WF h1 (pre ++ p :: n :: post) ∧
      abs h1 (pre ++ p :: n :: post) =
        (abs h (pre ++ p :: post)).take pre.length ++ v :: (abs h (pre ++ p :: post)).drop pre.length := by
  obtain ⟨h1, e1, w1, _, v1, v2⟩ := push_wf h pre p post v hw
  refine ⟨h1, h.size, e1, w1, ?_⟩
  obtain ⟨t1, t2⟩ := take_drop_split h pre p post
  rw [t1, t2, (abs_split h1 pre p (h.size :: post)).1, List.map_cons, v1]
  have hne : ∀ j ∈ pre ++ p :: post, j ≠ h.size := fun j hj e => by
    have := hw.bound j hj; omega
  congr 1
  · apply List.map_congr_left
    intro j hj
    exact v2 j (hne j (by have := List.mem_of_mem_tail hj; simp only [List.mem_append, List.mem_singleton] at this; simp only [List.mem_append, List.mem_cons]; rcases this with h | h <;> simp [h]))
  · congr 1
    apply List.map_congr_left
    intro j hj
    exact v2 j (hne j (by simp [hj]))

theorem add_abs : ∀ (vs : List Int) (h : Heap) (pre : List Nat) (p : Nat) (post : List Nat),
    WF h (pre ++ p :: post) →
    ∃ h1 pre1 p1, add h p vs = .ok (h1, p1) ∧ WF h1 (pre1 ++ p1 :: post) ∧
      pre1.length = pre.length + vs.length ∧
      abs h1 (pre1 ++ p1 :: post) =
        (abs h (pre ++ p :: post)).take pre.length ++ vs ++ (abs h (pre ++ p :: post)).drop pre.length ∧
      ∃ mid, mid.length = vs.length ∧ pre1 ++ [p1] = pre ++ p :: mid := by
  intro vs
  induction vs with
  | nil =>
    intro h pre p post hw
    exact ⟨h, pre, p, rfl, hw, rfl, by simp, [], rfl, rfl⟩
  | cons v vs ih =>
    intro h pre p post hw
    obtain ⟨h1, n, e1, w1, a1⟩ := push_abs h pre p post v hw
    have hn := next_cell h1 pre p n post w1.seg w1.nodup
    have w1' : WF h1 ((pre ++ [p]) ++ n :: post) := by simpa using w1
    obtain ⟨h2, pre2, p2, e2, w2, l2, a2, mid, m1, m2⟩ := ih h1 (pre ++ [p]) n post w1'
    refine ⟨h2, pre2, p2, by simp [add, e1, hn, e2], w2, by simp at l2 ⊢; omega, ?_,
      n :: mid, by simp [m1], by simpa using m2⟩
    rw [a2]
    have hA : abs h1 (pre ++ [p] ++ n :: post) = abs h1 (pre ++ p :: n :: post) := by simp
    rw [hA, a1]
    have hlen : ((abs h (pre ++ p :: post)).take pre.length ++ [v]).length = (pre ++ [p]).length := by
      rw [(take_drop_split h pre p post).1]; simp
    have hsplit : (abs h (pre ++ p :: post)).take pre.length ++ v :: (abs h (pre ++ p :: post)).drop pre.length =
        ((abs h (pre ++ p :: post)).take pre.length ++ [v]) ++ (abs h (pre ++ p :: post)).drop pre.length := by simp
    rw [hsplit, List.take_left' hlen, List.drop_left' hlen]
    simp

theorem remove_abs (h : Heap) (pre : List Nat) (p t : Nat) (post : List Nat)
    (hw : WF h (pre ++ p :: t :: post)) :
    ∃ h1, remove h p = .ok (h1, (abs h (pre ++ p :: t :: post)).getD pre.length 0) ∧
      WF h1 (pre ++ p :: post) ∧
      abs h1 (pre ++ p :: post) = (abs h (pre ++ p :: t :: post)).eraseIdx pre.length ∧
      h1.link t = some t := by
  obtain ⟨h1, e1, w1, l1, v1, _⟩ := remove_wf h pre p t post hw
  obtain ⟨a1, a2⟩ := abs_split h pre p (t :: post)
  have hval : ∀ j, h1.val j = h.val j := fun j => by simp [Heap.val, v1]
  refine ⟨h1, ?_, w1, ?_, l1⟩
  · rw [e1, a1, getD_append_at _ _ _ _ a2]; simp
  · rw [(abs_split h1 pre p post).1, a1, List.eraseIdx_append_of_length_le (by omega), a2, Nat.sub_self]
    simp only [List.map_cons, List.eraseIdx_cons_zero]
    congr 1 <;> exact List.map_congr_left (fun j _ => hval j)

theorem truncate_abs (h : Heap) (pre : List Nat) (p : Nat) (post : List Nat)
    (hw : WF h (pre ++ p :: post)) :
    ∃ h1, truncate h p = .ok h1 ∧ WF h1 (pre ++ [p]) ∧
      abs h1 (pre ++ [p]) = (abs h (pre ++ p :: post)).take pre.length ∧
      ∀ j ∈ post, h1.link j = some j := by
  obtain ⟨h1, e1, w1, l1, v1, _⟩ := truncate_wf h pre p post hw
  refine ⟨h1, e1, w1, ?_, l1⟩
  rw [(take_drop_split h pre p post).1, (abs_split h1 pre p []).1]
  simp only [List.map_nil, List.append_nil]
  exact List.map_congr_left (fun j _ => by simp [Heap.val, v1])


end MdsVerif.Proofs.Mlink
