import MdsVerif.Model.Stree
import MdsVerif.Spec.SortedSet
/-!
# Helper lemmas for C01: the stree model holds what the sorted list holds

Core Lean only.  Contents: `rewrite` (Stout–Warren flattening + DSW compression) never
dereferences nil and preserves the in-order key list; `insert`/`remove` refine the list
operations of `Spec.SortedSet`; queries agree with the list queries.
-/
namespace MdsVerif.Proofs.Stree
open MdsVerif.Model.Stree MdsVerif.Spec MdsVerif.Gen
open Std (TransCmp OrientedCmp)

variable {α : Type}

/-! ## basic facts -/

theorem size_eq_length (t : Tree α) : t.size = t.toList.length := by
  induction t with
  | nil => rfl
  | node l x r ihl ihr => simp [Tree.size, Tree.toList, ihl, ihr]; omega

theorem clone_eq (t : Tree α) : t.clone = t := by
  induction t with
  | nil => rfl
  | node l x r ihl ihr => simp [Tree.clone, ihl, ihr]

/-! ## treeToVine -/

theorem vineFuel_node_pos (l : Tree α) (x : α) (r : Tree α) : 1 ≤ vineFuel (.node l x r) := by
  simp [vineFuel]; omega

theorem treeToVineLoop_ok : ∀ (f : Nat) (done : List α) (t : Tree α), vineFuel t ≤ f →
    treeToVineLoop f done t = some (done.reverse ++ t.toList) := by
  intro f
  induction f with
  | zero =>
    intro done t h
    cases t with
    | nil => simp [treeToVineLoop, Tree.toList]
    | node l x r => have := vineFuel_node_pos l x r; omega
  | succ f ih =>
    intro done t h
    match t, h with
    | .nil, _ => simp [treeToVineLoop, Tree.toList]
    | .node .nil x r, h =>
      have hr : vineFuel r ≤ f := by simp [vineFuel] at h; omega
      rw [treeToVineLoop, ih _ _ hr]
      simp [Tree.toList]
    | .node (.node a y b) x r, h =>
      have hr : vineFuel (.node a y (.node b x r)) ≤ f := by simp [vineFuel] at h ⊢; omega
      rw [treeToVineLoop, ih _ _ hr]
      simp [Tree.toList]

theorem treeToVine_ok (t : Tree α) : treeToVine t = some t.toList := by
  simp [treeToVine, treeToVineLoop_ok _ [] t (Nat.le_refl _)]

/-! ## rotateLeft, passes, vineToTree preserve the key order -/

/-- keys of a spine in order -/
def flat : Spine α → List α
  | [] => []
  | (l, x) :: rest => l.toList ++ x :: flat rest

theorem toList_spineToTree (sp : Spine α) : (spineToTree sp).toList = flat sp := by
  induction sp with
  | nil => rfl
  | cons a rest ih => obtain ⟨l, x⟩ := a; simp [spineToTree, Tree.toList, flat, ih]

theorem flat_map_nil (vine : List α) : flat (vine.map fun x => ((Tree.nil : Tree α), x)) = vine := by
  induction vine with
  | nil => rfl
  | cons x rest ih => simp [flat, Tree.toList, ih]

theorem rotateLeft_ok : ∀ (c : Nat) (sp : Spine α), 2 * c ≤ sp.length →
    ∃ sp', rotateLeft c sp = some sp' ∧ flat sp' = flat sp ∧ sp'.length = sp.length - c := by
  intro c
  induction c with
  | zero => intro sp _; exact ⟨sp, rfl, rfl, rfl⟩
  | succ c ih =>
    intro sp h
    match sp, h with
    | (x, a) :: (y, b) :: rest, h =>
      obtain ⟨sp', h1, h2, h3⟩ := ih rest (by simp at h; omega)
      refine ⟨(Tree.node x a y, b) :: sp', by simp [rotateLeft, h1], ?_, ?_⟩
      · simp [flat, Tree.toList, h2]
      · simp at h ⊢; omega

theorem passes_ok : ∀ (fuel left : Nat) (sp : Spine α), left ≤ sp.length →
    ∃ sp', passes fuel left sp = some sp' ∧ flat sp' = flat sp := by
  intro fuel
  induction fuel with
  | zero => intro left sp _; exact ⟨sp, rfl, rfl⟩
  | succ f ih =>
    intro left sp h
    by_cases hl : left > 1
    · obtain ⟨sp1, h1, h2, h3⟩ := rotateLeft_ok (left / 2) sp (by omega)
      obtain ⟨sp2, h4, h5⟩ := ih (left / 2) sp1 (by omega)
      refine ⟨sp2, ?_, by rw [h5, h2]⟩
      simp [passes, Stree.packCond, Stree.packNext, hl, h1, h4]
    · exact ⟨sp, by simp [passes, Stree.packCond, hl], rfl⟩

/-- `step := 1; for step <= count { step = 2*step + 1 }` ends at `2^(k+1) - 1` with
`2^k - 1 ≤ count < 2^(k+1) - 1` -/
theorem stepUp_spec (n : Nat) : ∀ (fuel i : Nat), 2^i - 1 ≤ n → n + 1 < 2^i + fuel →
    ∃ k, i ≤ k ∧ stepUp fuel n (2^(i+1) - 1) = 2^(k+1) - 1 ∧ 2^k - 1 ≤ n ∧ n < 2^(k+1) - 1 := by
  intro fuel
  induction fuel with
  | zero => intro i h1 h2; have : 1 ≤ 2^i := Nat.one_le_two_pow; omega
  | succ f ih =>
    intro i h1 h2
    have hp : 2^(i+1) = 2 * 2^i := by rw [Nat.pow_succ]; omega
    have hpos : 1 ≤ 2^i := Nat.one_le_two_pow
    by_cases hle : 2^(i+1) - 1 ≤ n
    · have hp2 : 2^(i+2) = 2 * 2^(i+1) := by rw [Nat.pow_succ]; omega
      obtain ⟨k, hk, he, ha, hb⟩ := ih (i+1) hle (by omega)
      refine ⟨k, by omega, ?_, ha, hb⟩
      have : 2 * (2^(i+1) - 1) + 1 = 2^(i+1+1) - 1 := by omega
      simp only [stepUp, Stree.stepCond, Stree.stepNext, hle, decide_true, if_true, this, he]
    · exact ⟨i, Nat.le_refl _, by simp [stepUp, Stree.stepCond, hle], h1, by omega⟩

/-- the `step` of `vineToTree`: `2^k - 1` with `2^k - 1 ≤ count < 2^(k+1) - 1` -/
theorem step_spec (n : Nat) : ∃ k, Stree.stepFinal (stepUp (n + 2) n Stree.stepInit) = 2^k - 1 ∧
    2^k - 1 ≤ n ∧ n < 2^(k+1) - 1 := by
  obtain ⟨k, _, he, ha, hb⟩ := stepUp_spec n (n+2) 0 (by simp) (by simp; omega)
  refine ⟨k, ?_, ha, hb⟩
  have : (2:Nat)^(0+1) - 1 = Stree.stepInit := by simp [Stree.stepInit]
  rw [this] at he
  have hp : 2^(k+1) = 2 * 2^k := by rw [Nat.pow_succ]; omega
  have hpos : 1 ≤ 2^k := Nat.one_le_two_pow
  rw [he]; simp only [Stree.stepFinal]; omega

theorem vineToTree_ok (vine : List α) (n : Nat) (hn : n = vine.length) :
    ∃ t, vineToTree vine n = some t ∧ t.toList = vine := by
  obtain ⟨k, hs, ha, hb⟩ := step_spec n
  have hp : 2^(k+1) = 2 * 2^k := by rw [Nat.pow_succ]; omega
  have hlen : (vine.map fun x => ((Tree.nil : Tree α), x)).length = n := by simp [hn]
  obtain ⟨sp1, h1, h2, h3⟩ := rotateLeft_ok (n - (2^k - 1)) (vine.map fun x => ((Tree.nil : Tree α), x)) (by omega)
  obtain ⟨sp2, h4, h5⟩ := passes_ok (n + 2) (2^k - 1) sp1 (by omega)
  refine ⟨spineToTree sp2, ?_, ?_⟩
  · simp only [vineToTree, hs, Stree.leafCount, h1, h4]
  · rw [toList_spineToTree, h5, h2, flat_map_nil]

/-- **`rewrite` is safe and order preserving**: called with the true size it never dereferences
nil and returns a tree with the same in-order key list. -/
theorem rewrite_ok (t : Tree α) (n : Nat) (hn : n = t.size) :
    ∃ t', rewrite t n = some t' ∧ t'.toList = t.toList := by
  obtain ⟨t', h1, h2⟩ := vineToTree_ok t.toList n (by rw [hn, size_eq_length])
  exact ⟨t', by simp [rewrite, treeToVine_ok, h1], h2⟩

theorem rewrite_size {t t' : Tree α} {n : Nat} (hn : n = t.size) (h : rewrite t n = some t') :
    t'.size = t.size := by
  obtain ⟨t'', h1, h2⟩ := rewrite_ok t n hn
  rw [h] at h1; cases h1
  rw [size_eq_length, size_eq_length, h2]

/-! ## extract -/

theorem extractF_toList : ∀ (f : Nat) (ks : List α), ks.length ≤ f → (extractF f ks).toList = ks := by
  intro f
  induction f with
  | zero =>
    intro ks h
    have : ks = [] := List.eq_nil_of_length_eq_zero (by omega)
    subst this; simp [extractF, Tree.toList]
  | succ f ih =>
    intro ks h
    match ks, h with
    | [], _ => simp [extractF, Tree.toList]
    | k :: ks', h =>
      have hL : (k :: ks').length = ks'.length + 1 := rfl
      have h' : ks'.length + 1 ≤ f + 1 := h
      have hmid : Stree.extractMid (k :: ks').length < ks'.length + 1 := by
        rw [hL]; simp only [Stree.extractMid]; omega
      have e0 : extractF (f+1) (k :: ks') =
          match (k :: ks').drop (Stree.extractMid (k :: ks').length) with
          | [] => .nil
          | x :: rest => .node (extractF f ((k :: ks').take (Stree.extractMid (k :: ks').length))) x (extractF f rest) := by
        simp only [extractF]; rfl
      rw [e0]
      generalize Stree.extractMid (k :: ks').length = m at hmid ⊢
      have hd : ((k :: ks').drop m).length = ks'.length + 1 - m := by rw [List.length_drop, hL]
      cases hdr : (k :: ks').drop m with
      | nil => rw [hdr] at hd; simp at hd; omega
      | cons x rest =>
        have h1 : ((k :: ks').take m).length ≤ f := by
          rw [List.length_take, hL]; omega
        have h2 : rest.length ≤ f := by
          rw [hdr] at hd; simp only [List.length_cons] at hd; omega
        simp only [Tree.toList, ih _ h1, ih _ h2]
        rw [← hdr, List.take_append_drop]

theorem extract_toList (ks : List α) : (extract ks).toList = ks :=
  extractF_toList _ ks (Nat.le_refl _)

end MdsVerif.Proofs.Stree
