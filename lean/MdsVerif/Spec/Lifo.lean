import MdsVerif.Model.Stack
/-! # Reference LIFO: a plain list, newest element first -/
namespace MdsVerif.Spec.Lifo
open MdsVerif.Model.Stack (Op Out)
variable {α : Type} [Inhabited α]

abbrev L (α : Type) := List α

def step (d : L α) : Op α → L α × Out α
  | .push v => (v :: d, .unit)
  | .add v => (v :: d, .unit)
  | .pop => (d.tail, .opt d.head?)
  | .clear => ([], .unit)
  | .top => (d, .val (d.headD default))
  | .peek n => (d, if n < 0 then .panicIndex else .opt d[n.toNat]?)
  | .each k => (d, .list (d.take (k + 1)))
  | .len => (d, .nat d.length)
  | .isEmpty => (d, .bool d.isEmpty)
  | .slice => (d, .list d)

def run (d : L α) : List (Op α) → List (Out α)
  | [] => []
  | op :: ops => let (d', o) := step d op; o :: run d' ops

end MdsVerif.Spec.Lifo
