/-!
# Reference appliers for the normal, unified and context diff formats (core Lean only) — C14

Written from the published rules (POSIX `diff` "Diff Default Output Format", GNU diffutils manual
"Detailed Normal / Unified / Context", and what GNU `patch` does with them); they share nothing
with the model of the writers and readers (`Model/MdiffFmt.lean`), not even the number parser.

A text is the list of its lines (without the newline); `none` = the patch does not apply.

* **normal**: `LaR` adds the lines `R` of the new file after line `L` of the old file; `FcT`
  replaces the lines `F` by the lines `T`; `RdL` deletes the lines `R`, `L` being the line of the
  new file after which they would have appeared.  `n` alone is the range `n,n`.  `< ` lines are
  the old lines, `> ` lines the new ones, `---` separates them.
* **unified**: `@@ -l,s +r,t @@`; an omitted count is 1; if the OLD count `s` is 0 the start `l` is
  the line *before* the (empty) range, i.e. the line after which the new lines are inserted.  If the
  NEW count `t` is 0 the hunk writes nothing, so the new-side start carries no information that an
  applier needs: GNU `patch` places a hunk by its old-side position and applies `@@ -2 +2,0 @@` and
  `@@ -2 +1,0 @@` alike; the reference applier therefore does not check `r` when `t = 0`.
  ` ` context, `-` old, `+` new; the hunk has exactly `s` old-side and `t` new-side lines.
  `applyUnifiedWith true` is the variant that reads the start of an empty OLD range the way
  `mdiff.Unified` writes it (`start,0` = the empty range *at* `start`: recorded finding F6); the
  driver uses it only to decide whether a failure of `applyUnified` is exactly F6.
* **context**: `***************`, `*** a,b ****`, old-side lines (`  `, `- `, `! `), `--- c,d ----`,
  new-side lines (`  `, `+ `, `! `); `a` alone is one line, an empty range is `a,a-1`; a side
  whose lines are all context may be omitted and is then taken from the other side.

Every applier checks what it can: old lines (context and deletions) must match the old file at
the stated position, hunks must be in order, and the stated new-file position must be the
position at which the output actually is.
-/
namespace MdsVerif.Spec.DiffApply

abbrev Line := List Char

def num? (s : Line) : Option Nat :=
  if s ≠ [] ∧ s.all Char.isDigit then some (s.foldl (fun n c => 10 * n + (c.toNat - 48)) 0) else none

/-- split at the first `sep` -/
def splitFirst (sep : Char) : Line → Line × Option Line
  | [] => ([], none)
  | c :: cs =>
    if c = sep then ([], some cs)
    else let p := splitFirst sep cs; (c :: p.1, p.2)

/-- `a` or `a,b` -/
def range? (s : Line) : Option (Nat × Option Nat) :=
  match splitFirst ',' s with
  | (a, none) => (num? a).map fun a => (a, none)
  | (a, some b) =>
    match num? a, num? b with
    | some a, some b => some (a, some b)
    | _, _ => none

def dropPrefix? (pfx s : Line) : Option Line :=
  if pfx.isPrefixOf s then some (s.drop pfx.length) else none

/-- take exactly `k` lines, each beginning with `pfx`; returns their contents and the rest -/
def takeMarked (pfx : Line) : Nat → List Line → Option (List Line × List Line)
  | 0, ls => some ([], ls)
  | _ + 1, [] => none
  | k + 1, l :: ls =>
    match dropPrefix? pfx l with
    | none => none
    | some t => (takeMarked pfx k ls).map fun p => (t :: p.1, p.2)

/-- lines `[a, b]` (inclusive, 1-based) of the old file -/
def linesIncl (L : List Line) (a b : Nat) : List Line := (L.drop (a - 1)).take (b + 1 - a)

/-- State of an applier: the output so far and the next unconsumed line of the old file. -/
structure St where
  out : List Line
  pos : Nat

/-- copy old lines `pos .. upto-1`, check that exactly `old` follows there, that the output is
then at new-file line `newAt`, skip `old` and write `new` -/
def St.hunk (s : St) (L : List Line) (start : Nat) (old new : List Line) (newAt : Nat) : Option St :=
  if start < s.pos ∨ start < 1 ∨ start + old.length > L.length + 1 then none
  else if linesIncl L start (start + old.length - 1) ≠ old ∧ old ≠ [] then none
  else
    let out := s.out ++ linesIncl L s.pos (start - 1)
    if out.length + 1 ≠ newAt then none
    else some ⟨out ++ new, start + old.length⟩

/-- the new-file line at which the output stands once the old lines before `start` are copied -/
def St.newPos (s : St) (L : List Line) (start : Nat) : Nat :=
  (s.out ++ linesIncl L s.pos (start - 1)).length + 1

def St.finish (s : St) (L : List Line) : List Line := s.out ++ L.drop (s.pos - 1)

/-! ## normal -/

def parseNormalCmd (line : Line) : Option ((Nat × Option Nat) × Char × (Nat × Option Nat)) :=
  let l := line.takeWhile fun c => c.isDigit || c == ','
  match line.drop l.length with
  | k :: r =>
    if k = 'a' ∨ k = 'c' ∨ k = 'd' then
      match range? l, range? r with
      | some a, some b => some (a, k, b)
      | _, _ => none
    else none
  | [] => none

def applyNormalLoop (L : List Line) : Nat → List Line → St → Option (List Line)
  | 0, _, _ => none
  | _ + 1, [], s => some (s.finish L)
  | f + 1, line :: rest, s =>
    match parseNormalCmd line with
    | none => none
    | some ((l1, l2?), k, (r1, r2?)) =>
      let l2 := l2?.getD l1
      let r2 := r2?.getD r1
      if l2 < l1 ∨ r2 < r1 then none else
      if k = 'a' then
        if l2?.isSome then none else
        match takeMarked ['>', ' '] (r2 + 1 - r1) rest with
        | none => none
        | some (new, rest') =>
          -- added after old line l1: the (empty) old range starts at l1 + 1
          match s.hunk L (l1 + 1) [] new r1 with
          | none => none
          | some s' => applyNormalLoop L f rest' s'
      else if k = 'd' then
        if r2?.isSome then none else
        match takeMarked ['<', ' '] (l2 + 1 - l1) rest with
        | none => none
        | some (old, rest') =>
          -- would have appeared after new line r1: the output is at line r1 + 1
          match s.hunk L l1 old [] (r1 + 1) with
          | none => none
          | some s' => applyNormalLoop L f rest' s'
      else
        match takeMarked ['<', ' '] (l2 + 1 - l1) rest with
        | none => none
        | some (old, rest1) =>
          match rest1 with
          | sep :: rest2 =>
            if sep ≠ ['-', '-', '-'] then none else
            match takeMarked ['>', ' '] (r2 + 1 - r1) rest2 with
            | none => none
            | some (new, rest') =>
              match s.hunk L l1 old new r1 with
              | none => none
              | some s' => applyNormalLoop L f rest' s'
          | [] => none

/-- apply a normal-format diff to `L` -/
def applyNormal (text : List Line) (L : List Line) : Option (List Line) :=
  applyNormalLoop L (text.length + 1) text ⟨[], 1⟩

/-! ## unified -/

/-- `@@ -l[,s] +r[,t] @@…` -/
def parseUnifiedHeader (line : Line) : Option ((Nat × Option Nat) × (Nat × Option Nat)) :=
  match dropPrefix? ['@', '@', ' ', '-'] line with
  | none => none
  | some t =>
    let a := t.takeWhile (· ≠ ' ')
    match dropPrefix? [' ', '+'] (t.drop a.length) with
    | none => none
    | some u =>
      let b := u.takeWhile (· ≠ ' ')
      if ([' ', '@', '@'] : Line).isPrefixOf (u.drop b.length) then
        match range? a, range? b with
        | some x, some y => some (x, y)
        | _, _ => none
      else none

/-- read hunk lines until the old side has `s` and the new side `t` lines -/
def unifiedBody : Nat → Nat → List Line → Option (List Line × List Line × List Line)
  | 0, 0, rest => some ([], [], rest)
  | _, _, [] => none
  | s, t, (c :: text) :: rest =>
    if c = ' ' then
      match s, t with
      | s + 1, t + 1 => (unifiedBody s t rest).map fun p => (text :: p.1, text :: p.2.1, p.2.2)
      | _, _ => none
    else if c = '-' then
      match s with
      | s + 1 => (unifiedBody s t rest).map fun p => (text :: p.1, p.2.1, p.2.2)
      | 0 => none
    else if c = '+' then
      match t with
      | t + 1 => (unifiedBody s t rest).map fun p => (p.1, text :: p.2.1, p.2.2)
      | 0 => none
    else none
  | _, _, [] :: _ => none

/-- `asWritten = false`: the published rules.  `asWritten = true`: an empty old range `l,0` is read
as the empty range *at* line `l` (what `mdiff.Unified` writes, finding F6) instead of *after* it. -/
def applyUnifiedLoop (asWritten : Bool) (L : List Line) : Nat → List Line → St → Option (List Line)
  | 0, _, _ => none
  | _ + 1, [], s => some (s.finish L)
  | f + 1, line :: rest, s =>
    match parseUnifiedHeader line with
    | none => none
    | some ((l, s?), (r, t?)) =>
      let sc := s?.getD 1
      let tc := t?.getD 1
      match unifiedBody sc tc rest with
      | none => none
      | some (old, new, rest') =>
        -- an old count of 0: the start is the line before the empty range (the insertion point)
        let start := if sc = 0 ∧ asWritten = false then l + 1 else l
        -- a new count of 0: nothing is written, the new-side start is not checked
        let newAt := if tc = 0 then s.newPos L start else r
        match s.hunk L start old new newAt with
        | none => none
        | some s' => applyUnifiedLoop asWritten L f rest' s'

def skipHeader (p1 p2 : Line) (text : List Line) : List Line :=
  match text with
  | a :: b :: rest => if p1.isPrefixOf a ∧ p2.isPrefixOf b then rest else text
  | _ => text

def applyUnifiedWith (asWritten : Bool) (text : List Line) (L : List Line) : Option (List Line) :=
  let body := skipHeader ['-', '-', '-', ' '] ['+', '+', '+', ' '] text
  applyUnifiedLoop asWritten L (body.length + 1) body ⟨[], 1⟩

/-- apply a unified-format diff (with or without the two-line file header) to `L` by the published rules -/
def applyUnified (text : List Line) (L : List Line) : Option (List Line) :=
  applyUnifiedWith false text L

/-! ## context -/

/-- `<pfx>a[,b]<sfx>` → first line and number of lines (`a` alone: one line; `a,a-1`: none) -/
def parseContextRange (pfx sfx : Line) (line : Line) : Option (Nat × Nat) :=
  match dropPrefix? pfx line with
  | none => none
  | some t =>
    let a := t.takeWhile (· ≠ ' ')
    if t.drop a.length ≠ sfx then none else
    match range? a with
    | some (x, none) => some (x, 1)
    | some (x, some y) => if y + 1 < x then none else some (x, y + 1 - x)
    | none => none

/-- one side of a context hunk: `k` lines with a two-byte marker whose second byte is a space;
returns `(marker byte, content)` -/
def contextSide (ok : Char → Bool) : Nat → List Line → Option (List (Char × Line) × List Line)
  | 0, ls => some ([], ls)
  | _ + 1, [] => none
  | k + 1, l :: ls =>
    match l with
    | m :: ' ' :: t => if ok m then (contextSide ok k ls).map fun p => ((m, t) :: p.1, p.2) else none
    | _ => none

def stars : Line := List.replicate 15 '*'

def applyContextLoop (L : List Line) : Nat → List Line → St → Option (List Line)
  | 0, _, _ => none
  | _ + 1, [], s => some (s.finish L)
  | f + 1, l0 :: rest, s =>
    if l0 ≠ stars then none else
    match rest with
    | [] => none
    | l1 :: rest1 =>
      match parseContextRange ['*', '*', '*', ' '] [' ', '*', '*', '*', '*'] l1 with
      | none => none
      | some (a, na) =>
        -- the old side is omitted iff the next line is the new-side header
        let oldSide? : Option (Option (List (Char × Line)) × List Line) :=
          match rest1 with
          | h :: _ =>
            if (['-', '-', '-', ' '] : Line).isPrefixOf h then some (none, rest1)
            else (contextSide (fun m => m = ' ' ∨ m = '-' ∨ m = '!') na rest1).map fun p => (some p.1, p.2)
          | [] => none
        match oldSide? with
        | none => none
        | some (oldSide, rest2) =>
          match rest2 with
          | [] => none
          | l2 :: rest3 =>
            match parseContextRange ['-', '-', '-', ' '] [' ', '-', '-', '-', '-'] l2 with
            | none => none
            | some (c, nc) =>
              -- the new side is omitted iff the hunk ends here
              let newSide? : Option (Option (List (Char × Line)) × List Line) :=
                match rest3 with
                | [] => some (none, [])
                | h :: _ =>
                  if h = stars then some (none, rest3)
                  else (contextSide (fun m => m = ' ' ∨ m = '+' ∨ m = '!') nc rest3).map fun p => (some p.1, p.2)
              match newSide? with
              | none => none
              | some (newSide, rest4) =>
                let ctxOf (side : List (Char × Line)) : List Line :=
                  (side.filter fun p => p.1 = ' ').map (·.2)
                let old? : Option (List Line) :=
                  match oldSide, newSide with
                  | some o, _ => some (o.map (·.2))
                  | none, some n => some (ctxOf n)
                  | none, none => none
                let new? : Option (List Line) :=
                  match newSide, oldSide with
                  | some n, _ => some (n.map (·.2))
                  | none, some o => some (ctxOf o)
                  | none, none => none
                match old?, new? with
                | some old, some new =>
                  if old.length ≠ na ∨ new.length ≠ nc then none else
                  match s.hunk L a old new c with
                  | none => none
                  | some s' => applyContextLoop L f rest4 s'
                | _, _ => none

/-- apply a context-format diff (with or without the two-line file header) to `L` -/
def applyContext (text : List Line) (L : List Line) : Option (List Line) :=
  let body := match text with
    | a :: _ => if a = stars then text else skipHeader ['*', '*', '*', ' '] ['-', '-', '-', ' '] text
    | [] => text
  applyContextLoop L (body.length + 1) body ⟨[], 1⟩

end MdsVerif.Spec.DiffApply
