import MdsVerif.Model.Cache
/-!
# Reference LRU cache: a recency list of `(key, value)`, least recently used first
-/
namespace MdsVerif.Spec.LruRef
open MdsVerif.Model.Cache (Op Out)

structure R where
  items : List (Nat × Nat) := []     -- oldest first
  limit : Int := 1
  evicted : List (Nat × Nat) := []   -- most recent first
deriving Repr

def total (sizeOf : Nat → Int) (l : List (Nat × Nat)) : Int := (l.map (fun e => sizeOf e.2)).foldl (· + ·) 0

/-- drop least-recently-used entries until `need` more fits -/
def makeRoom (sizeOf : Nat → Int) (limit need : Int) : List (Nat × Nat) → List (Nat × Nat) × List (Nat × Nat)
  | [] => ([], [])
  | e :: rest =>
    if total sizeOf (e :: rest) + need > limit then
      let (kept, gone) := makeRoom sizeOf limit need rest
      (kept, e :: gone)
    else (e :: rest, [])

def step (sizeOf : Nat → Int) (r : R) : Op → R × Out
  | .put k v =>
    if sizeOf v > r.limit then (r, .bool false)
    else
      let (items, ev1) := match r.items.find? (·.1 == k) with
        | some e => (r.items.filter (·.1 != k), [e])
        | none => (r.items, [])
      let (kept, gone) := makeRoom sizeOf r.limit (sizeOf v) items
      ({ r with items := kept ++ [(k, v)], evicted := (ev1 ++ gone).reverse ++ r.evicted }, .bool true)
  | .get k =>
    match r.items.find? (·.1 == k) with
    | some e => ({ r with items := r.items.filter (·.1 != k) ++ [e] }, .opt (some e.2))
    | none => (r, .opt none)
  | .has k => (r, .bool (r.items.any (·.1 == k)))
  | .remove k =>
    match r.items.find? (·.1 == k) with
    | some e => ({ r with items := r.items.filter (·.1 != k), evicted := e :: r.evicted }, .bool true)
    | none => (r, .bool false)
  | .clear => ({ r with items := [], evicted := r.items.reverse ++ r.evicted }, .unit)
  | .len => (r, .int r.items.length)
  | .size => (r, .int (total sizeOf r.items))

end MdsVerif.Spec.LruRef
