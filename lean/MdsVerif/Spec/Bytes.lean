/-!
# Reference definitions for C20 (core Lean only, independent of the models)

* naive zero-byte counts and the all-zero slice (`mbits`);
* well-formed UTF-8 (Unicode 15 Table 3-7, what Go's `utf8.ValidString`
  accepts) and the purely structural notion "lead byte + continuation bytes";
* the tokenised key of `CompareNatural`: maximal digit runs become their
  numeric value (an unbounded `Nat`), maximal non-digit runs stay byte strings;
  keys are compared lexicographically, a number against a string by the first
  byte (every digit is above `/` and below `:`).
-/
namespace MdsVerif.Spec.Bytes

abbrev Bytes := List UInt8

/-! ### mbits -/

/-- number of zero bytes at the front, byte by byte -/
def lzCount : Bytes → Nat
  | [] => 0
  | b :: t => if b = 0 then lzCount t + 1 else 0

/-- number of zero bytes at the end -/
def tzCount (d : Bytes) : Nat := lzCount d.reverse

/-- the slice after `Zero` -/
def zeroed (d : Bytes) : Bytes := List.replicate d.length 0

/-! ### UTF-8 -/

def inR (b lo hi : UInt8) : Bool := lo ≤ b && b ≤ hi
/-- continuation byte `10xxxxxx` -/
def cont (b : UInt8) : Bool := inR b 0x80 0xBF

/-- first two bytes of a well-formed three-byte sequence -/
def second3 (b0 b1 : UInt8) : Bool :=
  (b0 == 0xE0 && inR b1 0xA0 0xBF) || (inR b0 0xE1 0xEC && cont b1) ||
  (b0 == 0xED && inR b1 0x80 0x9F) || (inR b0 0xEE 0xEF && cont b1)

/-- first two bytes of a well-formed four-byte sequence -/
def second4 (b0 b1 : UInt8) : Bool :=
  (b0 == 0xF0 && inR b1 0x90 0xBF) || (inR b0 0xF1 0xF3 && cont b1) ||
  (b0 == 0xF4 && inR b1 0x80 0x8F)

/-- length of the well-formed UTF-8 sequence at the head of `s` (Table 3-7); 0 if there is none -/
def charLen : Bytes → Nat
  | [] => 0
  | b0 :: t =>
    if b0 < 0x80 then 1 else
    match t with
    | [] => 0
    | b1 :: t1 =>
      if inR b0 0xC2 0xDF && cont b1 then 2 else
      match t1 with
      | [] => 0
      | b2 :: t2 =>
        if second3 b0 b1 && cont b2 then 3 else
        match t2 with
        | [] => 0
        | b3 :: _ => if second4 b0 b1 && cont b2 && cont b3 then 4 else 0

def validF : Nat → Bytes → Bool
  | _, [] => true
  | 0, _ :: _ => false
  | f+1, b :: t =>
    let k := charLen (b :: t)
    k != 0 && validF f ((b :: t).drop k)

/-- `utf8.ValidString` -/
def validUTF8 (s : Bytes) : Bool := validF s.length s

/-! ### natural-order key -/

def isDigit (b : UInt8) : Bool := 0x30 ≤ b && b ≤ 0x39

inductive Tok where
  | num (v : Nat)
  | str (p : Bytes)
deriving Repr, DecidableEq

/-- decimal value of a digit string -/
def decVal (run : Bytes) : Nat := run.foldl (fun v b => v * 10 + (b.toNat - 48)) 0

def keyF : Nat → Bytes → List Tok
  | _, [] => []
  | 0, _ :: _ => []
  | f+1, b :: t =>
    if isDigit b then
      let run := (b :: t).takeWhile isDigit
      .num (decVal run) :: keyF f ((b :: t).dropWhile isDigit)
    else
      let run := (b :: t).takeWhile (fun c => !isDigit c)
      .str run :: keyF f ((b :: t).dropWhile (fun c => !isDigit c))

/-- tokenise: maximal digit runs ↦ value, maximal non-digit runs ↦ themselves -/
def key (s : Bytes) : List Tok := keyF s.length s

def cmpNat (a b : Nat) : Int := if a < b then -1 else if b < a then 1 else 0

/-- bytewise lexicographic order -/
def lexBytes : Bytes → Bytes → Int
  | [], [] => 0
  | [], _ :: _ => -1
  | _ :: _, [] => 1
  | x :: xs, y :: ys => if x < y then -1 else if y < x then 1 else lexBytes xs ys

/-- a string token sorts above every number iff it starts above `'9'` -/
def high : Bytes → Bool
  | [] => false
  | c :: _ => 0x39 < c

def cmpTok : Tok → Tok → Int
  | .num v, .num w => cmpNat v w
  | .str p, .str q => lexBytes p q
  | .num _, .str q => if high q then -1 else 1
  | .str p, .num _ => if high p then 1 else -1

/-- lexicographic order on keys -/
def cmpKey : List Tok → List Tok → Int
  | [], [] => 0
  | [], _ :: _ => -1
  | _ :: _, [] => 1
  | x :: xs, y :: ys => if cmpTok x y ≠ 0 then cmpTok x y else cmpKey xs ys

/-- the value of a digit run fits Go's 64-bit `int` -/
def fitsInt : Tok → Bool
  | .num v => v < 9223372036854775808
  | .str _ => true

/-- no digit run of `s` overflows `int` (in particular: every run has at most 18 digits, or any
number of leading zeros followed by at most 18 digits) -/
def noOverflow (s : Bytes) : Bool := (key s).all fitsInt

/-- the specification of `CompareNatural` -/
def natCompare (a b : Bytes) : Int := cmpKey (key a) (key b)

end MdsVerif.Spec.Bytes
