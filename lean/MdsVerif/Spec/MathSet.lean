import MdsVerif.Model.Mapset
/-!
# Reference for C18: mathematical sets (core Lean only)

A reference set is a list used only through membership (kept free of
repetitions by `List.insert`/`filter`, so that its cardinality is its length);
operations are the bulk set-theoretic definitions — no size shortcuts, no nil
special cases, no loops with `break`.  Independently of the set, a flag records
whether the variable is a nil map, following the documentation ("never nil",
"returns s").

The reference cannot choose which element `Pop` removes or in which order
`Slice`/`Append` list the members; for these the operation carries the *observed*
choice and the reference only judges it (`Res.bad` = not admissible).
-/
namespace MdsVerif.Spec.MathSet
open MdsVerif.Model.Mapset (Op Out Res Ident)
variable {α : Type} [DecidableEq α] [Inhabited α]

structure RSet (α : Type) where
  isNil : Bool
  mem : List α

abbrev Regs (α : Type) := Nat → RSet α
def Regs.set (S : Regs α) (r : Nat) (v : RSet α) : Regs α := fun i => if i = r then v else S i
def Regs.init : Regs α := fun _ => ⟨true, []⟩

def insertAll (S : List α) (items : List α) : List α := items.foldl (fun S x => S.insert x) S
def ofList (items : List α) : List α := insertAll [] items
def diff (S T : List α) : List α := S.filter (fun x => x ∉ T)
def subset (S T : List α) : Bool := S.all (fun x => x ∈ T)
/-- n-ary intersection; the intersection of no sets is taken to be empty (as documented) -/
def interAll : List (List α) → List α
  | [] => []
  | S :: Ss => S.filter (fun x => Ss.all (fun T => x ∈ T))

/-- identity of a variable that keeps its map -/
def keep (s : RSet α) : Ident := if s.isNil then .nil else .recv

/-- a fresh non-nil set stored in `d` -/
def fresh (S : Regs α) (d : Nat) (m : List α) : Regs α × Out α :=
  (S.set d ⟨false, m⟩, ⟨.unit, some (d, .fresh)⟩)

/-- in-place update of `r` by a method with a value receiver: nil stays nil, the receiver is returned -/
def inPlace (S : Regs α) (r : Nat) (m : List α) : Regs α × Out α :=
  (S.set r ⟨(S r).isNil, m⟩, ⟨.ret (keep (S r)), some (r, keep (S r))⟩)

/-- update through a pointer receiver: a nil receiver is replaced by a fresh map; the receiver is returned -/
def viaPtr (S : Regs α) (r : Nat) (m : List α) : Regs α × Out α :=
  (S.set r ⟨false, m⟩, ⟨.ret .recv, some (r, if (S r).isNil then .fresh else .recv)⟩)

def step (S : Regs α) : Op α → Regs α × Out α
  | .setNil d => (S.set d ⟨true, []⟩, ⟨.unit, some (d, .nil)⟩)
  | .new d items => fresh S d (ofList items)
  | .newSize d _ => fresh S d []
  | .clone d r => fresh S d (S r).mem
  | .intersect d rs => fresh S d (interAll (rs.map fun r => (S r).mem))
  | .range d items => fresh S d (ofList items)
  | .keys d m => fresh S d (ofList ((m.getD []).map (·.1)))
  | .values d m => fresh S d (ofList ((m.getD []).map (·.2)))
  | .add r items => viaPtr S r (insertAll (S r).mem items)
  | .addAll r t => viaPtr S r (insertAll (S r).mem (S t).mem)
  | .remove r items => inPlace S r (diff (S r).mem items)
  | .removeAll r t => inPlace S r (diff (S r).mem (S t).mem)
  | .pop r x =>
    if (S r).mem = [] then (S, ⟨.val default, some (r, keep (S r))⟩)
    else if x ∈ (S r).mem then (S.set r ⟨false, (S r).mem.erase x⟩, ⟨.val x, some (r, .recv)⟩)
    else (S, ⟨.bad, none⟩)
  | .clear r => inPlace S r []
  | .has r x => (S, ⟨.bool (x ∈ (S r).mem), none⟩)
  | .len r => (S, ⟨.nat (S r).mem.length, none⟩)
  | .isEmpty r => (S, ⟨.bool ((S r).mem.length == 0), none⟩)
  | .isNil r => (S, ⟨.bool (S r).isNil, none⟩)
  | .intersects r t => (S, ⟨.bool ((S r).mem.any (fun x => x ∈ (S t).mem)), none⟩)
  | .isSubset r t => (S, ⟨.bool (subset (S r).mem (S t).mem), none⟩)
  | .equals r t => (S, ⟨.bool (subset (S r).mem (S t).mem && subset (S t).mem (S r).mem), none⟩)
  | .hasAll r ts => (S, ⟨.bool (ts.all fun x => x ∈ (S r).mem), none⟩)
  | .hasAny r ts => (S, ⟨.bool (ts.any fun x => x ∈ (S r).mem), none⟩)
  | .slice r h =>
    if (S r).mem = [] then (S, ⟨.list none, none⟩)
    else if h.isPerm (S r).mem then (S, ⟨.list (some h), none⟩)
    else (S, ⟨.bad, none⟩)
  | .append r vs h =>
    if (S r).mem = [] then (S, ⟨.list vs, none⟩)
    else if h.isPerm (S r).mem then (S, ⟨.list (some (vs.getD [] ++ h)), none⟩)
    else (S, ⟨.bad, none⟩)
  | .shuffle _ _ => (S, ⟨.unit, none⟩)

/-- The reference judging the observed outputs `outs` of the history `ops`: each operation is
taken with its oracle replaced by the observed choice (`Op.resolve`), and its output must be
exactly the reference's.  `some S'` = accepted, with the reference sets afterwards. -/
def judge (S : Regs α) : List (Op α) → List (Out α) → Option (Regs α)
  | [], [] => some S
  | op :: ops, o :: outs =>
    let (S', o') := step S (op.resolve o)
    if o' = o then judge S' ops outs else none
  | _, _ => none

def accepts (S : Regs α) (ops : List (Op α)) (outs : List (Out α)) : Bool := (judge S ops outs).isSome

end MdsVerif.Spec.MathSet
