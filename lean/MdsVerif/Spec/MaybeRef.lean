/-!
# Reference for package `value`: a `Maybe[int]` is an optional integer

Acceptance tests of the observed results against `Option Int` (independent of the model).
-/
namespace MdsVerif.Spec.MaybeRef

/-- everything the harness observes of a `Maybe[int]` `m` (with `Or` argument `o`) -/
structure Obs where
  present : Bool
  okVal : Int
  okFlag : Bool
  get : Int
  ptr : Option Int
  str : String
  orPresent : Bool
  orGet : Int
deriving Repr, DecidableEq

/-- the observation the documentation prescribes for the optional integer `ref` -/
def expect (ref : Option Int) (o : Int) : Obs :=
  { present := ref.isSome, okVal := ref.getD 0, okFlag := ref.isSome, get := ref.getD 0, ptr := ref,
    str := match ref with | some v => toString v | none => "Absent[int]",
    orPresent := true, orGet := ref.getD o }

def maybeOk (ref : Option Int) (o : Int) (got : Obs) : Bool := got == expect ref o

/-- `At`, `AtDefault`, `Cond` -/
def atRef (p : Option Int) : Int := p.getD 0
def atDefaultRef (p : Option Int) (d : Int) : Int := p.getD d
def condRef (b : Bool) (x y : Int) : Int := if b then x else y

end MdsVerif.Spec.MaybeRef
