import MdsVerif.Model.Omap
/-!
# Reference ordered map (C04): a strictly ascending association list

Core Lean only; shares only `Op`/`Out` with the model.  `none` is the zero Map.  An iterator is
an index into the list (`none` = invalid): `First` = 0, `Last` = length-1, `Seek k` = index of the
first key `≥ k`, `Next`/`Prev` = ±1, invalid off either end.
-/
namespace MdsVerif.Spec.AssocRef
open MdsVerif.Model.Stree (Regs)
open MdsVerif.Model.Omap (Op Out)

variable {K V : Type}

def insert (cmp : K → K → Ordering) (k : K) (v : V) : List (K × V) → List (K × V) × Bool
  | [] => ([(k, v)], true)
  | (x, w) :: rest =>
    match cmp k x with
    | .lt => ((k, v) :: (x, w) :: rest, true)
    | .eq => ((k, v) :: rest, false)
    | .gt => let p := insert cmp k v rest; ((x, w) :: p.1, p.2)

def erase (cmp : K → K → Ordering) (k : K) : List (K × V) → List (K × V) × Bool
  | [] => ([], false)
  | (x, w) :: rest =>
    match cmp k x with
    | .lt => ((x, w) :: rest, false)
    | .eq => (rest, true)
    | .gt => let p := erase cmp k rest; ((x, w) :: p.1, p.2)

def lookup (cmp : K → K → Ordering) (k : K) : List (K × V) → Option V
  | [] => none
  | (x, w) :: rest => if cmp k x == .eq then some w else lookup cmp k rest

/-- index of the first entry whose key is not less than `k` (`length` when there is none) -/
def lowerBound (cmp : K → K → Ordering) (k : K) : List (K × V) → Nat
  | [] => 0
  | (x, _) :: rest => if cmp x k == .lt then lowerBound cmp k rest + 1 else 0

/-- iterator register: stale, or a position -/
inductive SIt where
  | stale
  | at (i : Option Nat)

structure S (K V : Type) where
  l : Option (List (K × V))
  its : Regs SIt := []

def S.list (s : S K V) : List (K × V) := s.l.getD []

def staleAll (its : Regs SIt) : Regs SIt := its.map fun p => (p.1, .stale)

/-- a position that ran off the list is invalid -/
def norm (n : Nat) (i : Nat) : Option Nat := if i < n then some i else none

def readAt (l : List (K × V)) : Option Nat → Out K V
  | none => .iter none
  | some i => .iter l[i]?

variable (cmp : K → K → Ordering) [Inhabited V]

def step (s : S K V) : Op K V → S K V × Out K V
  | .set k v =>
    match s.l with
    | none => (s, .panic)
    | some l => let p := insert cmp k v l; ({ l := some p.1, its := staleAll s.its }, .bool p.2)
  | .delete k =>
    match s.l with
    | none => (s, .bool false)
    | some l =>
      let p := erase cmp k l
      ({ l := some p.1, its := if p.2 then staleAll s.its else s.its }, .bool p.2)
  | .clear =>
    match s.l with
    | none => (s, .unit)
    | some _ => ({ l := some [], its := staleAll s.its }, .unit)
  | .get k => (s, .val ((lookup cmp k s.list).getD default))
  | .getOK k => (s, .valOK (lookup cmp k s.list))
  | .len => (s, .nat s.list.length)
  | .keys => (s, .keys (s.list.map (·.1)))
  | .string => (s, .entries s.list)
  | .first i => let p := norm s.list.length 0; ({ s with its := s.its.set i (.at p) }, readAt s.list p)
  | .last i =>
    let p := if s.list.length = 0 then none else some (s.list.length - 1)
    ({ s with its := s.its.set i (.at p) }, readAt s.list p)
  | .seek i k =>
    let p := norm s.list.length (lowerBound cmp k s.list)
    ({ s with its := s.its.set i (.at p) }, readAt s.list p)
  | .itSeek i k =>
    match s.its.get i with
    | some _ =>
      let p := norm s.list.length (lowerBound cmp k s.list)
      ({ s with its := s.its.set i (.at p) }, readAt s.list p)
    | none => (s, .noreg)
  | .itNext i =>
    match s.its.get i with
    | some (.at p) =>
      let p' := p.bind fun j => norm s.list.length (j + 1)
      ({ s with its := s.its.set i (.at p') }, readAt s.list p')
    | some .stale => (s, .stale)
    | none => (s, .noreg)
  | .itPrev i =>
    match s.its.get i with
    | some (.at p) =>
      let p' := p.bind fun j => if j = 0 then none else some (j - 1)
      ({ s with its := s.its.set i (.at p') }, readAt s.list p')
    | some .stale => (s, .stale)
    | none => (s, .noreg)
  | .itRead i =>
    match s.its.get i with
    | some (.at p) => (s, readAt s.list p)
    | some .stale => (s, .stale)
    | none => (s, .noreg)

def run : S K V → List (Op K V) → List (Out K V)
  | _, [] => []
  | s, op :: ops => let p := step cmp s op; p.2 :: run p.1 ops

end MdsVerif.Spec.AssocRef
