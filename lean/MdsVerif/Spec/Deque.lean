import MdsVerif.Model.Queue
/-! # Reference double-ended queue: a plain list, front first -/
namespace MdsVerif.Spec.Deque
variable {α : Type} [Inhabited α]

abbrev D (α : Type) := List α

def add (d : D α) (v : α) : D α := d ++ [v]
def push (d : D α) (v : α) : D α := v :: d
def pop : D α → D α × Option α
  | [] => ([], none)
  | x :: d => (d, some x)
def popLast (d : D α) : D α × Option α :=
  match d.getLast? with
  | none => (d, none)
  | some x => (d.dropLast, some x)
def front (d : D α) : α := d.headD default
/-- `Peek k`: offset from the front, negative offsets count from the back -/
def peek (d : D α) (k : Int) : Option α :=
  if 0 ≤ k then d[k.toNat]? else
  if k + d.length < 0 then none else d[(k + d.length).toNat]?
def each (d : D α) (k : Nat) : List α := d.take (k + 1)

end MdsVerif.Spec.Deque

namespace MdsVerif.Spec.Deque
open MdsVerif.Model.Queue (Op Out)
variable {α : Type} [Inhabited α]

/-- the reference semantics of each operation on the plain list -/
def step (d : D α) : Op α → D α × Out α
  | .add v _ => (add d v, .unit)
  | .push v _ => (push d v, .unit)
  | .pop => let (d', r) := pop d; (d', .opt r)
  | .popLast => let (d', r) := popLast d; (d', .opt r)
  | .clear => ([], .unit)
  | .peek k => (d, .opt (peek d k))
  | .each k => (d, .list (each d k))
  | .front => (d, .val (front d))
  | .len => (d, .nat d.length)
  | .isEmpty => (d, .bool d.isEmpty)
  | .slice => (d, .list d)

def run (d : D α) : List (Op α) → List (Out α)
  | [] => []
  | op :: ops => let (d', o) := step d op; o :: run d' ops

end MdsVerif.Spec.Deque
