/-!
# Reference specification for C15/C16: POSIX quoting rules (core Lean only)

Written from IEEE Std 1003.1 "Shell Command Language" §2.2 (Quoting) and §2.6.5
(Field Splitting of blanks/newlines), independently of `shell.go`: no table, no
character set taken from the Go source, byte values written out here.

* `refSplit`: a direct recursive tokenizer with three modes (unquoted / single
  quotes / double quotes): blanks (space, tab) and newlines separate fields; a
  backslash outside quotes preserves the next byte, backslash-newline is a line
  continuation (both removed); single quotes preserve everything up to the next
  single quote; inside double quotes a backslash escapes only `\` and `"` —
  before any other byte it is kept (the `$` and backquote escapes of POSIX are outside
  this tokenizer: it performs no expansions) — and backslash-newline is removed.
  The flag is false when the input ends inside quotes or right after a backslash.
* `endsTokens` / `consumedPrefix`: the bytes a scanner has consumed when it has delivered given
  tokens — the shortest prefix whose reference fields are these tokens, the last one terminated.
* `posixWord`: evaluation of ONE shell word in which every byte with special
  meaning to the shell must be quoted, else `none`.
-/
namespace MdsVerif.Spec.Posix

/-- space, tab, newline -/
def isBlank (c : UInt8) : Bool := c = 32 || c = 9 || c = 10

mutual
/-- between fields -/
def refGap : List UInt8 → List (List UInt8) × Bool
  | [] => ([], true)
  | c :: rest =>
    if isBlank c then refGap rest
    else if c = 92 then
      match rest with
      | [] => ([[]], false)                 -- lone trailing backslash: an empty, incomplete field
      | d :: rest' => if d = 10 then refGap rest' else refWord [d] rest'
    else if c = 39 then refSingle [] rest
    else if c = 34 then refDouble [] rest
    else refWord [c] rest
/-- inside an unquoted stretch of a field; `acc` is the field so far, reversed -/
def refWord (acc : List UInt8) : List UInt8 → List (List UInt8) × Bool
  | [] => ([acc.reverse], true)
  | c :: rest =>
    if isBlank c then
      let (ts, ok) := refGap rest
      (acc.reverse :: ts, ok)
    else if c = 92 then
      match rest with
      | [] => ([acc.reverse], false)
      | d :: rest' => if d = 10 then refWord acc rest' else refWord (d :: acc) rest'
    else if c = 39 then refSingle acc rest
    else if c = 34 then refDouble acc rest
    else refWord (c :: acc) rest
/-- inside single quotes -/
def refSingle (acc : List UInt8) : List UInt8 → List (List UInt8) × Bool
  | [] => ([acc.reverse], false)
  | c :: rest => if c = 39 then refWord acc rest else refSingle (c :: acc) rest
/-- inside double quotes -/
def refDouble (acc : List UInt8) : List UInt8 → List (List UInt8) × Bool
  | [] => ([acc.reverse], false)
  | c :: rest =>
    if c = 34 then refWord acc rest
    else if c = 92 then
      match rest with
      | [] => ([acc.reverse], false)
      | d :: rest' =>
        if d = 10 then refDouble acc rest'
        else if d = 92 ∨ d = 34 then refDouble (d :: acc) rest'
        else refDouble (d :: 92 :: acc) rest'
    else refDouble (c :: acc) rest
end

/-- the reference tokenizer: fields and "input complete" -/
def refSplit (s : List UInt8) : List (List UInt8) × Bool := refGap s

/-! ### how much of the input a scanner has consumed when it has delivered some tokens

A scanner that returns a token as soon as the separator ending it is read has consumed, when it has
delivered the tokens `toks` (each ended by a separator), the SHORTEST prefix of the input whose
reference tokenisation yields exactly `toks`, all complete, with the last one terminated: a further
ordinary byte would start a new field instead of extending the last one.  Computed from `refSplit`
alone.  (`none`: no prefix ends the tokens — the last token runs to the end of the input.) -/

/-- the reference fields of `p` are `toks`, complete, and the last one is terminated -/
def endsTokens (toks : List (List UInt8)) (p : List UInt8) : Bool :=
  refSplit p == (toks, true) && (refSplit (p ++ [120])).1 == toks ++ [[120]]

/-- the least `k' ≥ k` (within `fuel`) such that `input.take k'` ends the tokens -/
def consumedFrom (toks : List (List UInt8)) (input : List UInt8) : Nat → Nat → Option Nat
  | 0, _ => none
  | fuel + 1, k =>
    if endsTokens toks (input.take k) then some k
    else if k ≥ input.length then none
    else consumedFrom toks input fuel (k + 1)

/-- the shortest prefix of `input` that ends the tokens `toks` -/
def consumedPrefix (toks : List (List UInt8)) (input : List UInt8) : Option (List UInt8) :=
  (consumedFrom toks input (input.length + 1) 0).map input.take

/-- POSIX §2.2: `| & ; < > ( ) $ backquote \ " ' space tab newline` must be quoted to represent
    themselves, and `* ? [ # ~ = %` "may need to be quoted under certain circumstances". -/
def specials : List UInt8 :=
  [124, 38, 59, 60, 62, 40, 41, 36, 96, 92, 34, 39, 32, 9, 10,    -- | & ; < > ( ) $ ` \ " ' SP TAB NL
   42, 63, 91, 35, 126, 61, 37]                                    -- * ? [ # ~ = %

/-- evaluate one word; the Boolean is "inside single quotes".  Outside quotes only a backslash
    escape or a non-special byte is accepted (double quotes are not: `Quote` never needs them, and
    accepting fewer spellings makes `quote_protects` stronger). -/
def pw : Bool → List UInt8 → Option (List UInt8)
  | false, [] => some []
  | true, [] => none
  | true, c :: r => if c = 39 then pw false r else (pw true r).map (c :: ·)
  | false, c :: r =>
    if c = 39 then pw true r
    else if c = 92 then
      match r with
      | [] => none
      | d :: r' => if d = 10 then pw false r' else (pw false r').map (d :: ·)
    else if specials.contains c then none
    else (pw false r).map (c :: ·)

/-- what a POSIX shell obtains from the word `w`, `none` if some special byte is left unquoted -/
def posixWord (w : List UInt8) : Option (List UInt8) := pw false w

end MdsVerif.Spec.Posix
