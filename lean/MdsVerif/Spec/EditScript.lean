import MdsVerif.Model.Edit
/-!
# What a valid, minimal, canonical edit script is (core Lean only)

Only the *types* `EditOp`/`Edit` are shared with the model.

* `ValidFrom lhs rhs es i j`: executing `es` in order from the offsets `(i, j)` — Drop and Emit
  consume `lhs`, Emit, Copy and Replace produce `rhs` — every `X` is the span of `lhs` at the
  current `lhs` offset, every `Y` (for Emit: `X` again) the span of `rhs` at the current `rhs`
  offset, unused fields are empty, and at the end both inputs are used up exactly.
* `Valid es lhs rhs`: the empty script stands for "output = input" (`lhs = rhs`, documented:
  "If the edit script is empty, the output is equal to the input"); otherwise `ValidFrom … 0 0`.
* `emitted es`: number of kept elements.
* `Canonical es`: no empty edit, and of two adjacent edits exactly one is an Emit — so adjacent
  kinds differ, and a Drop never sits next to a Copy (they are fused into one Replace).
-/
namespace MdsVerif.Spec.EditScript
open MdsVerif.Model.Edit

variable {α : Type}

/-- `X` is the span `l[i : i+|X|]` -/
def IsSpan (l : List α) (i : Nat) (X : List α) : Prop := X <+: l.drop i

def ValidFrom (lhs rhs : List α) : List (Edit α) → Nat → Nat → Prop
  | [], i, j => i = lhs.length ∧ j = rhs.length
  | e :: es, i, j =>
    match e.op with
    | .drop => IsSpan lhs i e.X ∧ e.Y = [] ∧ ValidFrom lhs rhs es (i + e.X.length) j
    | .emit => IsSpan lhs i e.X ∧ IsSpan rhs j e.X ∧ e.Y = [] ∧
        ValidFrom lhs rhs es (i + e.X.length) (j + e.X.length)
    | .copy => e.X = [] ∧ IsSpan rhs j e.Y ∧ ValidFrom lhs rhs es i (j + e.Y.length)
    | .replace => IsSpan lhs i e.X ∧ IsSpan rhs j e.Y ∧
        ValidFrom lhs rhs es (i + e.X.length) (j + e.Y.length)

def Valid (es : List (Edit α)) (lhs rhs : List α) : Prop :=
  (es = [] ∧ lhs = rhs) ∨ (es ≠ [] ∧ ValidFrom lhs rhs es 0 0)

/-- number of emitted (kept) elements -/
def emitted : List (Edit α) → Nat
  | [] => 0
  | e :: es => (if e.op = .emit then e.X.length else 0) + emitted es

/-- no empty edit: the fields an edit uses are non-empty -/
def NonEmpty (e : Edit α) : Prop :=
  match e.op with
  | .drop => e.X ≠ []
  | .emit => e.X ≠ []
  | .copy => e.Y ≠ []
  | .replace => e.X ≠ [] ∧ e.Y ≠ []

/-- of two adjacent edits exactly one is an Emit -/
def AdjOk (e f : Edit α) : Prop := (e.op = .emit ∧ f.op ≠ .emit) ∨ (e.op ≠ .emit ∧ f.op = .emit)

def Alternates : List (Edit α) → Prop
  | [] => True
  | [_] => True
  | e :: f :: es => AdjOk e f ∧ Alternates (f :: es)

def Canonical (es : List (Edit α)) : Prop := (∀ e ∈ es, NonEmpty e) ∧ Alternates es

/-! ### executable versions for the driver (judging the *implementation's* script) -/

def isSpanB [BEq α] (l : List α) (i : Nat) (X : List α) : Bool := X.isPrefixOf (l.drop i)

def validFromB [BEq α] (lhs rhs : List α) : List (Edit α) → Nat → Nat → Bool
  | [], i, j => i == lhs.length && j == rhs.length
  | e :: es, i, j =>
    match e.op with
    | .drop => isSpanB lhs i e.X && e.Y.isEmpty && validFromB lhs rhs es (i + e.X.length) j
    | .emit => isSpanB lhs i e.X && isSpanB rhs j e.X && e.Y.isEmpty &&
        validFromB lhs rhs es (i + e.X.length) (j + e.X.length)
    | .copy => e.X.isEmpty && isSpanB rhs j e.Y && validFromB lhs rhs es i (j + e.Y.length)
    | .replace => isSpanB lhs i e.X && isSpanB rhs j e.Y &&
        validFromB lhs rhs es (i + e.X.length) (j + e.Y.length)

def validB [BEq α] (es : List (Edit α)) (lhs rhs : List α) : Bool :=
  if es.isEmpty then lhs == rhs else validFromB lhs rhs es 0 0

def nonEmptyB (e : Edit α) : Bool :=
  match e.op with
  | .drop => !e.X.isEmpty
  | .emit => !e.X.isEmpty
  | .copy => !e.Y.isEmpty
  | .replace => !e.X.isEmpty && !e.Y.isEmpty

def alternatesB : List (Edit α) → Bool
  | [] => true
  | [_] => true
  | e :: f :: es => (decide (e.op = .emit) != decide (f.op = .emit)) && alternatesB (f :: es)

def canonicalB (es : List (Edit α)) : Bool := es.all nonEmptyB && alternatesB es

end MdsVerif.Spec.EditScript
