import MdsVerif.Spec.Bytes
/-!
# Reference splitter and acceptance tests for `mstr.Split` / `mstr.Lines` (C20.split)

Core Lean only, independent of `Model/MstrSplit.lean` (nothing of the model is
used).  Two ingredients:

* a **reference splitter** written differently from the library code: one
  left-to-right pass, byte by byte, that accumulates the current piece and
  closes it when the separator starts at the current position (`refSplit`);
  for the empty separator the string is cut into its UTF-8 characters, an
  ill-formed byte being a piece of its own (`refChars`);
* **acceptance tests** on the pieces the *implementation* returned
  (`splitVerdict`, `linesVerdict`): nil exactly for the empty input; joining
  the pieces with the separator gives the input back (for `Lines`: the input
  without one trailing newline); no piece contains the separator; for the empty
  separator every piece is non-empty, their concatenation is the input, each
  piece is one well-formed UTF-8 character (`charLen p = len p`) or a single
  byte, and there are as many pieces as runes; finally the pieces are exactly
  the reference splitter's.
-/
namespace MdsVerif.Spec.SplitRef
open MdsVerif.Spec.Bytes (charLen)

abbrev Bytes := List UInt8

/-- does `sub` occur in `s`? (naive, position by position) -/
def contains : Bytes → Bytes → Bool
  | [], sub => sub.isEmpty
  | b :: t, sub => sub.isPrefixOf (b :: t) || contains t sub

/-- one pass over `rest`; `cur` is the current piece, reversed. `sep ≠ []`. -/
def refSplitF : Nat → Bytes → Bytes → Bytes → List Bytes
  | 0, _, _, cur => [cur.reverse]
  | _+1, [], _, cur => [cur.reverse]
  | f+1, b :: t, sep, cur =>
    if sep.isPrefixOf (b :: t) then cur.reverse :: refSplitF f ((b :: t).drop sep.length) sep []
    else refSplitF f t sep (b :: cur)

/-- the pieces of `s` between non-overlapping occurrences of `sep ≠ []`, leftmost first -/
def refSplit (s sep : Bytes) : List Bytes := refSplitF (s.length + 1) s sep []

/-- the UTF-8 characters of `s`; a byte that starts no well-formed sequence is a piece of its own -/
def refCharsF : Nat → Bytes → List Bytes
  | _, [] => []
  | 0, _ :: _ => []
  | f+1, b :: t =>
    match charLen (b :: t) with
    | 0 => [b] :: refCharsF f t
    | k => (b :: t).take k :: refCharsF f ((b :: t).drop k)

def refChars (s : Bytes) : List Bytes := refCharsF s.length s

/-- `s` without one trailing newline -/
def stripNL (s : Bytes) : Bytes :=
  match s.reverse with
  | 10 :: r => r.reverse
  | _ => s

/-- a piece of an empty-separator split: one well-formed character or one byte -/
def isRunePiece (p : Bytes) : Bool := p.length == 1 || (p.length != 0 && charLen p == p.length)

/-- acceptance test for `Split(s, sep)`; `isNil`/`ps` are the implementation's result -/
def splitVerdict (s sep : Bytes) (isNil : Bool) (ps : List Bytes) : String :=
  if s.isEmpty then (if isNil && ps.isEmpty then "ok" else "bad empty-input-not-nil")
  else if isNil then "bad nil-on-nonempty-input"
  else if ps.isEmpty then "bad no-pieces"
  else if sep.isEmpty then
    if ps.any (·.isEmpty) then "bad empty-piece"
    else if ps.flatten != s then "bad concat-differs"
    else if !ps.all isRunePiece then "bad piece-not-a-rune"
    else if ps.length != (refChars s).length then "bad rune-count"
    else if ps != refChars s then "bad differs-from-reference"
    else "ok"
  else
    if List.intercalate sep ps != s then "bad join-differs"
    else if ps.any (contains · sep) then "bad piece-contains-sep"
    else if ps != refSplit s sep then "bad differs-from-reference"
    else "ok"

/-- acceptance test for `Lines(s)` -/
def linesVerdict (s : Bytes) (isNil : Bool) (ps : List Bytes) : String :=
  if s.isEmpty then (if isNil && ps.isEmpty then "ok" else "bad empty-input-not-nil")
  else if isNil then "bad nil-on-nonempty-input"
  else if ps.isEmpty then "bad no-pieces"
  else if List.intercalate [10] ps != stripNL s then "bad join-differs"
  else if ps.any (·.contains 10) then "bad line-contains-newline"
  else if ps != refSplit (stripNL s) [10] then "bad differs-from-reference"
  else "ok"

end MdsVerif.Spec.SplitRef
