import MdsVerif.Model.Stree
/-!
# Reference sorted set: a strictly `cmp`-ascending list, one representative per class

The simplest object named by property C01.  Nothing here is derived from the
tree model (only the `Op`/`Out` vocabulary and the register file are shared).
-/
namespace MdsVerif.Spec.SortedSet
variable {α : Type} (cmp : α → α → Ordering)

/-- insert `k` in order; when an equivalent key is present keep it (`rep = false`) or put `k` in
its place (`rep = true`); reports whether `k`'s class was absent -/
def ins (rep : Bool) (k : α) : List α → List α × Bool
  | [] => ([k], true)
  | x :: xs =>
    match cmp k x with
    | .lt => (k :: x :: xs, true)
    | .eq => ((if rep then k else x) :: xs, false)
    | .gt => let p := ins rep k xs; (x :: p.1, p.2)

/-- `Add`: insert `k` unless an equivalent key is present; reports whether it was absent -/
def add (k : α) (l : List α) : List α × Bool := ins cmp false k l
/-- `Replace`: insert `k`, or put it in the place of the equivalent key; reports whether it was absent -/
def replace (k : α) (l : List α) : List α × Bool := ins cmp true k l

/-- delete the key equivalent to `k`; reports whether there was one -/
def remove (k : α) : List α → List α × Bool
  | [] => ([], false)
  | x :: xs =>
    match cmp k x with
    | .lt => (x :: xs, false)
    | .eq => (xs, true)
    | .gt => let p := remove k xs; (x :: p.1, p.2)

/-- the stored representative of `k`'s class -/
def get (k : α) (l : List α) : Option α := l.find? fun x => cmp k x == .eq
def min (l : List α) : Option α := l.head?
def max (l : List α) : Option α := l.getLast?
/-- the keys not less than `k`, in order -/
def after (k : α) (l : List α) : List α := l.filter fun x => cmp x k != .lt
/-- what a consumer sees that stops once it holds `j` keys (it always receives the first) -/
def stopped (stop : Option Nat) (l : List α) : List α :=
  match stop with
  | none => l
  | some j => l.take (Max.max j 1)

/-- strictly ascending -/
def Asc (l : List α) : Prop := l.Pairwise fun a b => cmp a b = .lt

/-- what `slices.SortFunc` + `slices.CompactFunc` are required to deliver for `New`:
strictly ascending, drawn from the given keys, one representative of every class -/
structure SortCompact (srt : List α → List α) : Prop where
  asc : ∀ ks, Asc cmp (srt ks)
  sub : ∀ ks, ∀ x ∈ srt ks, x ∈ ks
  cover : ∀ ks, ∀ k ∈ ks, ∃ x ∈ srt ks, cmp k x = .eq

/-- the keys `New(β, cmp, keys…)` starts with (`srt` is not consulted for an empty argument list) -/
def newKeys (srt : List α → List α) (keys : List α) : List α :=
  match keys with
  | [] => []
  | _ => srt keys

/-- one set: its keys, its balance factor (irrelevant to the contents) and
`peak` = the largest `Len` since it was created, cleared or last empty (C02's `P`) -/
structure S (α : Type) where
  keys : List α := []
  β : Nat := 0
  peak : Nat := 0

def S.put (s : S α) (keys : List α) : S α :=
  { s with keys := keys, peak := if keys.length = 0 then 0 else Max.max s.peak keys.length }

open MdsVerif.Model.Stree (Op Out Regs)

def step (srt : List α → List α) (s : Regs (S α)) : Op α → Regs (S α) × Out α
  | .new r β keys =>
    if β < 0 ∨ β > 1000 then (s, .panic)
    else
      let ks := newKeys srt keys
      (s.set r { keys := ks, β := β.toNat, peak := ks.length }, .unit)
  | .clone dst src =>
    match s.get src with
    | some t => (s.set dst t, .unit)
    | none => (s, .panic)
  | .add r k =>
    match s.get r with
    | some t => let p := add cmp k t.keys; (s.set r (t.put p.1), .bool p.2)
    | none => (s, .panic)
  | .replace r k =>
    match s.get r with
    | some t => let p := replace cmp k t.keys; (s.set r (t.put p.1), .bool p.2)
    | none => (s, .panic)
  | .remove r k =>
    match s.get r with
    | some t => let p := remove cmp k t.keys; (s.set r (t.put p.1), .bool p.2)
    | none => (s, .panic)
  | .clear r =>
    match s.get r with
    | some t => (s.set r (t.put []), .unit)
    | none => (s, .panic)
  | .len r => (s, match s.get r with | some t => .nat t.keys.length | none => .panic)
  | .isEmpty r => (s, match s.get r with | some t => .bool t.keys.isEmpty | none => .panic)
  | .get r k => (s, match s.get r with | some t => .opt (get cmp k t.keys) | none => .panic)
  | .min r => (s, match s.get r with | some t => .opt (min t.keys) | none => .panic)
  | .max r => (s, match s.get r with | some t => .opt (max t.keys) | none => .panic)
  | .inorder r stop => (s, match s.get r with | some t => .list (stopped stop t.keys) | none => .panic)
  | .inorderAfter r k stop =>
    (s, match s.get r with | some t => .list (stopped stop (after cmp k t.keys)) | none => .panic)

def run (srt : List α → List α) : Regs (S α) → List (Op α) → List (Out α)
  | _, [] => []
  | s, op :: ops => let p := step cmp srt s op; p.2 :: run srt p.1 ops

end MdsVerif.Spec.SortedSet
