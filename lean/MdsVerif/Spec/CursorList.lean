import MdsVerif.Model.Mlink
/-!
# Reference object for `mlink.List` with cursors, and for `mlink.Queue`

The documented before/after pictures, read as operations on a plain `List Int`
and on *positions*: a cursor is `at i` (`0 ≤ i ≤ length`, `i = length` is the
end of the list) or `stale` ("invalidated").  Editing through one cursor moves
the other cursors exactly as the documentation says: `Push`/`Add` shift the
positions behind the insertion point, `Remove` invalidates the cursors at the
position *after* the removed element and shifts the later ones, `Truncate`
and `Clear` invalidate every cursor behind the cut.  A stale cursor refuses
everything.
-/
namespace MdsVerif.Spec.CursorList
open MdsVerif.Model.Mlink (Op Out QOp)

inductive Pos where
  | at_ (i : Nat) | stale
deriving Repr, DecidableEq

structure A where
  l : List Int := []
  regs : List (Option Pos) := [none, none, none, none]
deriving Repr, DecidableEq

def A.reg (a : A) (c : Nat) : Option Pos := a.regs.getD c none
def A.setReg (a : A) (c : Nat) (p : Pos) : A := { a with regs := a.regs.set c (some p) }

/-- apply `f` to the position of every live, non-stale cursor -/
def mapPos (f : Nat → Pos) (regs : List (Option Pos)) : List (Option Pos) :=
  regs.map fun r => match r with
    | some (.at_ j) => some (f j)
    | r => r

/-- call through the cursor in register `c` -/
def withCursor (a : A) (c : Nat) (f : Nat → A × Out) : A × Out :=
  match a.reg c with
  | none => (a, .unset)
  | some .stale => (a, .panicInvalid)
  | some (.at_ i) => f i

def step (a : A) : Op → A × Out
  | .at_ c n => if n < 0 then (a, .panicIndex) else (a.setReg c (.at_ (min n.toNat a.l.length)), .unit)
  | .find c v => (a.setReg c (.at_ (a.l.findIdx (· == v))), .unit)
  | .last c => (a.setReg c (.at_ (a.l.length - 1)), .unit)
  | .end_ c => (a.setReg c (.at_ a.l.length), .unit)
  | .copy c d => match a.reg d with
    | none => (a, .unset)
    | some p => (a.setReg c p, .unit)
  | .push c v => withCursor a c fun i =>
    ({ l := a.l.take i ++ v :: a.l.drop i,
       regs := mapPos (fun j => .at_ (if j > i then j + 1 else j)) a.regs }, .unit)
  | .add c vs =>
    -- `Add()` with no values does not touch the cursor at all (not even a stale one)
    if vs.isEmpty then (match a.reg c with | none => (a, .unset) | some _ => (a, .unit)) else
    withCursor a c fun i =>
    ({ l := a.l.take i ++ vs ++ a.l.drop i,
       regs := (mapPos (fun j => .at_ (if j > i then j + vs.length else j)) a.regs).set c (some (.at_ (i + vs.length))) },
     .unit)
  | .set c v => withCursor a c fun i =>
    ({ a with l := if i < a.l.length then a.l.set i v else a.l ++ [v] }, .unit)
  | .remove c => withCursor a c fun i =>
    if i < a.l.length then
      ({ l := a.l.eraseIdx i,
         regs := mapPos (fun j => if j = i + 1 then .stale else .at_ (if j > i then j - 1 else j)) a.regs },
       .val (a.l.getD i 0))
    else (a, .val 0)
  | .truncate c => withCursor a c fun i =>
    ({ l := a.l.take i, regs := mapPos (fun j => if j > i then .stale else .at_ j) a.regs }, .unit)
  | .next c => withCursor a c fun i =>
    if i < a.l.length then (a.setReg c (.at_ (i + 1)), .bool (i + 1 < a.l.length)) else (a, .bool false)
  | .get c => withCursor a c fun i => (a, .val (a.l.getD i 0))
  | .atEnd c => withCursor a c fun i => (a, .bool (i ≥ a.l.length))
  | .clear => ({ l := [], regs := mapPos (fun j => if j > 0 then .stale else .at_ j) a.regs }, .unit)
  | .peek n => if n < 0 then (a, .panicIndex) else
      (a, match a.l[n.toNat]? with | some v => .pair v true | none => .pair 0 false)
  | .each k => (a, .list (a.l.take (k + 1)))
  | .len => (a, .nat a.l.length)
  | .isEmpty => (a, .bool a.l.isEmpty)

def run (a : A) : List Op → List Out
  | [] => []
  | op :: ops => let (a', o) := step a op; o :: run a' ops

/-! ## FIFO queue: a plain list, oldest first -/

def qstep (d : List Int) : QOp → List Int × Out
  | .add v => (d ++ [v], .unit)
  | .pop => match d with
    | [] => ([], .pair 0 false)
    | x :: d' => (d', .pair x true)
  | .clear => ([], .unit)
  | .front => (d, .val (d.headD 0))
  | .peek n => if n < 0 then (d, .panicIndex) else
      (d, match d[n.toNat]? with | some v => .pair v true | none => .pair 0 false)
  | .each k => (d, .list (d.take (k + 1)))
  | .len => (d, .val d.length)
  | .isEmpty => (d, .bool d.isEmpty)

def qrun (d : List Int) : List QOp → List Out
  | [] => []
  | op :: ops => let (d', o) := qstep d op; o :: qrun d' ops

end MdsVerif.Spec.CursorList
