import MdsVerif.Model.Ring
/-!
# Reference object for `ring.Ring`: a set of cycles written as lists

Elements are numbered in creation order (`Of 1 2 3` creates three elements
whose cycle reads `[1 2 3]` from the first).  The state is the list of cycles;
`Join` and `Pop` are the list surgery of the documentation's pictures.
-/
namespace MdsVerif.Spec.Cycles
open MdsVerif.Model.Ring (Op Out Ptr)

structure C where
  vals : List Int := []
  cycles : List (List Nat) := []
  regs : List Ptr := List.replicate 8 none
deriving Repr, DecidableEq

def C.reg (c : C) (i : Nat) : Ptr := c.regs.getD i none
def C.setReg (c : C) (i : Nat) (p : Ptr) : C := { c with regs := c.regs.set i p }
def C.val (c : C) (i : Nat) : Int := c.vals.getD i 0

/-- the cycle through `r`, read from `r` -/
def C.cycleOf (c : C) (r : Nat) : List Nat :=
  match c.cycles.find? (·.contains r) with
  | none => [r]
  | some cyc => let i := cyc.idxOf r; cyc.drop i ++ cyc.take i

def C.without (c : C) (r : Nat) : List (List Nat) := c.cycles.filter (fun cyc => !cyc.contains r)

/-- `n` fresh elements forming one cycle in creation order -/
def C.fresh (c : C) (vs : List Int) : C × Ptr :=
  if vs.isEmpty then (c, none) else
  let ids := List.range' c.vals.length vs.length
  ({ c with vals := c.vals ++ vs, cycles := c.cycles ++ [ids] }, some c.vals.length)

def step (c : C) : Op → C × Out
  | .of d vs => let (c', p) := c.fresh vs; (c'.setReg d p, .unit)
  | .new d n => let (c', p) := c.fresh (List.replicate n.toNat 0); (c'.setReg d p, .unit)
  | .join d r s =>
    match c.reg r, c.reg s with
    | none, none => (c.setReg d none, .unit)
    | none, some _ => (c, .panicNil)
    | some _, none => (c, .panicNil)
    | some r, some s =>
      let cyc := c.cycleOf r
      let rs := cyc.drop 1
      if cyc.contains s then
        -- same ring `[r1 r2 … ri s1 … rn]`: `r2 … ri` is spliced out and returned
        let i := cyc.idxOf s
        if i ≤ 1 then (c.setReg d none, .unit) else
        let mid := (cyc.take i).drop 1
        ({ c with cycles := c.without r ++ [r :: cyc.drop i, mid] }.setReg d mid.head?, .unit)
      else
        -- different rings: `[r1 s1 … sm r2 … rn]`, returns `r2` (`r1` when `n = 1`)
        let ss := c.cycleOf s
        ({ c with cycles := (c.without r).filter (fun (y : List Nat) => !y.contains s) ++ [r :: ss ++ rs] }.setReg d
          (some (rs.headD r)), .unit)
  | .pop d r =>
    match c.reg r with
    | none => (c.setReg d none, .unit)
    | some r =>
      let rs := (c.cycleOf r).drop 1
      if rs.isEmpty then (c.setReg d (some r), .unit)
      else ({ c with cycles := c.without r ++ [rs, [r]] }.setReg d (some r), .unit)
  | .next d r => match c.reg r with
    | none => (c, .panicNil)
    | some r => let cyc := c.cycleOf r; (c.setReg d (some (cyc.getD 1 r)), .unit)
  | .prev d r => match c.reg r with
    | none => (c, .panicNil)
    | some r => let cyc := c.cycleOf r; (c.setReg d (some (cyc.getLastD r)), .unit)
  | .at_ d r n => (c.setReg d (at? c (c.reg r) n), .unit)
  | .peek r n => match at? c (c.reg r) n with
    | none => (c, .pair 0 false)
    | some e => (c, .pair (c.val e) true)
  | .len r => match c.reg r with
    | none => (c, .nat 0)
    | some r => (c, .nat (c.cycleOf r).length)
  | .each r k => match c.reg r with
    | none => (c, .list [])
    | some r => (c, .list (((c.cycleOf r).take (k + 1)).map c.val))
  | .isEmpty r => (c, .bool (c.reg r).isNone)
where
  /-- the element at offset `n` (either direction); nil when `|n|` reaches the length of the cycle -/
  at? (c : C) (r : Ptr) (n : Int) : Ptr :=
    match r with
    | none => none
    | some r =>
      let cyc := c.cycleOf r
      if n.natAbs ≥ cyc.length then none
      else if n ≥ 0 then cyc[n.toNat]? else cyc[cyc.length - n.natAbs]?

def run (c : C) : List Op → List Out
  | [] => []
  | op :: ops => let (c', o) := step c op; o :: run c' ops

end MdsVerif.Spec.Cycles
