import MdsVerif.Model.Cursor
/-!
# Reference for cursor navigation (C03): a position in the sorted key list

Core Lean only; shares only the `Op` type with the model.

A tree is its strictly ascending key list `keys`.  A valid cursor is an index `idx` into
`keys` together with the index interval `[lo, hi]` of the keys of its subtree (the keys of a
subtree of a search tree are a contiguous run of the sorted list that contains the subtree's
own key).  The reference does not know the shape of the tree, so it is a *relation*: it judges
the implementation's observation (`Obs`) after every move and continues from the position the
observation reports.

* `Next`/`Prev`: `idx ± 1`, invalid off either end; `HasNext`/`HasPrev` accordingly.
* `Left`: valid iff `lo < idx`, and then the new subtree is exactly `[lo, idx-1]`;
  `Right`: valid iff `idx < hi`, new subtree exactly `[idx+1, hi]`.
* `Up`: valid iff the subtree is not the whole list; the parent is the key just below `lo` or just
  above `hi`, and its subtree extends the old one on that side only.
* `Min`/`Max`: the first / last key of the subtree.
* `Inorder`: exactly `keys[lo..hi]` (a prefix when the consumer stops).
* everything on an invalid cursor leaves it invalid, `Key` is the zero key.
-/
namespace MdsVerif.Spec.CursorRef
open MdsVerif.Model.Stree (Regs)
open MdsVerif.Model.Cursor (Op)

variable {α : Type}

/-! ### the sorted key list -/

def insertKey (cmp : α → α → Ordering) (replace : Bool) (k : α) : List α → List α × Bool
  | [] => ([k], true)
  | x :: rest =>
    match cmp k x with
    | .lt => (k :: x :: rest, true)
    | .eq => ((if replace then k else x) :: rest, false)
    | .gt => let p := insertKey cmp replace k rest; (x :: p.1, p.2)

def removeKey (cmp : α → α → Ordering) (k : α) : List α → List α × Bool
  | [] => ([], false)
  | x :: rest =>
    match cmp k x with
    | .lt => (x :: rest, false)
    | .eq => (rest, true)
    | .gt => let p := removeKey cmp k rest; (x :: p.1, p.2)

def findKey (cmp : α → α → Ordering) (k : α) : List α → Nat → Option Nat
  | [], _ => none
  | x :: rest, i => if cmp k x == .eq then some i else findKey cmp k rest (i + 1)

/-! ### cursor positions -/

structure CPos where
  idx : Nat
  lo : Nat
  hi : Nat
  deriving Repr, BEq

structure CReg (α : Type) where
  keys : List α
  pos : Option CPos

structure S (α : Type) where
  sets : Regs (List α) := []
  curs : Regs (CReg α) := []

/-- what the harness reports after an operation on cursor register `c` -/
structure Obs (α : Type) where
  valid : Bool
  key : Option α
  hasLeft : Bool
  hasRight : Bool
  hasParent : Bool
  hasNext : Bool
  hasPrev : Bool
  inorder : List α
  ups : List α

variable [BEq α]

def idxOf (x : α) : List α → Nat → Option Nat
  | [], _ => none
  | y :: rest, i => if x == y then some i else idxOf x rest (i + 1)

/-- the position an observation describes, with the reason when it describes none -/
def locate (keys : List α) (o : Obs α) : Except String CPos :=
  match o.key with
  | none => .error "valid cursor without key"
  | some k =>
    match idxOf k keys 0 with
    | none => .error "key not in the set"
    | some idx =>
      match o.inorder with
      | [] => .error "valid cursor with empty Inorder"
      | first :: _ =>
        match idxOf first keys 0 with
        | none => .error "Inorder lists a key that is not in the set"
        | some lo =>
          let hi := lo + o.inorder.length - 1
          if !((keys.drop lo).take o.inorder.length == o.inorder) then
            .error "Inorder is not a contiguous ascending run of the keys"
          else if !(lo ≤ idx && idx ≤ hi) then .error "Inorder does not contain the cursor's key"
          else .ok { idx := idx, lo := lo, hi := hi }

def firstBad (checks : List (Bool × String)) : String :=
  match checks.find? (fun c => !c.1) with
  | none => "ok"
  | some c => "bad " ++ c.2

/-- checks every valid observation must satisfy at position `p` -/
def localChecks (keys : List α) (o : Obs α) (p : CPos) : List (Bool × String) :=
  let n := keys.length
  let whole := p.lo == 0 && p.hi + 1 == n
  [ (o.hasNext == decide (p.idx + 1 < n), "HasNext"),
    (o.hasPrev == decide (0 < p.idx), "HasPrev"),
    (o.hasLeft == decide (p.lo < p.idx), "HasLeft"),
    (o.hasRight == decide (p.idx < p.hi), "HasRight"),
    (o.hasParent == !whole, "HasParent"),
    (o.ups.isEmpty == whole, "ancestors"),
    (match o.ups.head? with
      | none => true
      | some par => (p.lo > 0 && keys[p.lo - 1]? == some par) || keys[p.hi + 1]? == some par,
     "the parent is not the neighbour of the subtree's key range") ]

def invalidChecks (o : Obs α) : List (Bool × String) :=
  [ (!o.valid, "should be invalid"), (o.key.isNone, "Key of an invalid cursor"),
    (!o.hasLeft && !o.hasRight && !o.hasParent && !o.hasNext && !o.hasPrev, "Has* of an invalid cursor"),
    (o.inorder.isEmpty, "Inorder of an invalid cursor"), (o.ups.isEmpty, "Up from an invalid cursor") ]

/-- how a move may change the position: `expect old new` -/
inductive Move where
  | next | prev | left | right | up | min | max | same | fresh | freshRoot

/-- must the cursor be valid after the move from `old`? -/
def Move.validAfter (n : Nat) (old : CPos) : Move → Bool
  | .next => old.idx + 1 < n
  | .prev => 0 < old.idx
  | .left => old.lo < old.idx
  | .right => old.idx < old.hi
  | .up => !(old.lo == 0 && old.hi + 1 == n)
  | _ => true

def Move.checks (old p : CPos) : Move → List (Bool × String)
  | .next => [(p.idx == old.idx + 1, "Next is not the next larger key")]
  | .prev => [(p.idx + 1 == old.idx, "Prev is not the next smaller key")]
  | .left => [(p.lo == old.lo && p.hi + 1 == old.idx, "Left subtree is not exactly the keys below the cursor")]
  | .right => [(p.lo == old.idx + 1 && p.hi == old.hi, "Right subtree is not exactly the keys above the cursor")]
  | .up => [((p.idx == old.hi + 1 && p.lo == old.lo && p.hi ≥ p.idx) ||
             (p.idx + 1 == old.lo && p.hi == old.hi && p.lo ≤ p.idx), "Up is not the parent")]
  | .min => [(p.idx == old.lo && p.lo == old.lo, "Min is not the smallest key of the subtree"),
             (if old.idx == old.lo then p == old else p.hi < old.idx, "Min left the left spine")]
  | .max => [(p.idx == old.hi && p.hi == old.hi, "Max is not the largest key of the subtree"),
             (if old.idx == old.hi then p == old else p.lo > old.idx, "Max left the right spine")]
  | .same => [(p == old, "position changed")]
  | .fresh => []
  | .freshRoot => []

/-- judge the observation after `mv` on a register that was at `reg` -/
def judgeMove (reg : CReg α) (mv : Move) (o : Obs α) : CReg α × String :=
  match reg.pos with
  | none => ({ reg with pos := none }, firstBad (invalidChecks o))
  | some old =>
    if !mv.validAfter reg.keys.length old then ({ reg with pos := none }, firstBad (invalidChecks o))
    else if !o.valid then ({ reg with pos := none }, "bad became invalid")
    else
      match locate reg.keys o with
      | .error e => ({ reg with pos := none }, "bad " ++ e)
      | .ok p => ({ reg with pos := some p }, firstBad (localChecks reg.keys o p ++ mv.checks old p))

/-- judge a freshly made cursor (`Cursor(k)`: `want = some index`, `Root()`: the whole list) -/
def judgeFresh (keys : List α) (want : Option Nat) (isRoot : Bool) (o : Obs α) : CReg α × String :=
  if (if isRoot then keys.isEmpty else want.isNone) then ({ keys := keys, pos := none }, firstBad (invalidChecks o))
  else if !o.valid then ({ keys := keys, pos := none }, "bad invalid cursor for a present key")
  else
    match locate keys o with
    | .error e => ({ keys := keys, pos := none }, "bad " ++ e)
    | .ok p =>
      ({ keys := keys, pos := some p },
       firstBad (localChecks keys o p ++
         [ (isRoot || want == some p.idx, "Cursor(key) does not report the stored key"),
           (!isRoot || (p.lo == 0 && p.hi + 1 == keys.length), "Root() is not the root") ]))

/-- the result of an `Inorder` stopped after `stop` keys -/
def inorderWant (reg : CReg α) (stop : Option Nat) : List α :=
  match reg.pos with
  | none => []
  | some p =>
    let all := (reg.keys.drop p.lo).take (p.hi + 1 - p.lo)
    match stop with
    | none => all
    | some j => all.take (Nat.max j 1)

/-- `(valid, key)` the reference expects of a register -/
def CReg.brief (reg : CReg α) : Bool × Option α :=
  match reg.pos with
  | none => (false, none)
  | some p => (true, reg.keys[p.idx]?)

end MdsVerif.Spec.CursorRef
