/-!
# Reference notions for C11/C12 (core Lean only): common / increasing subsequences and their optima

Nothing here is derived from the models: `lcsLen` is the textbook recursion,
`lcsLenDP` the textbook full-table dynamic programme (used by the driver, where
the exponential recursion is too slow), `lisLen` the quadratic dynamic programme
("longest chain ending at each position").  "Subsequence" is core's
`List.Sublist` (`<+`), decided by `List.isSublist`.
-/
namespace MdsVerif.Spec.Subseq

variable {α : Type}

/-- textbook optimum: the length of a longest common subsequence -/
def lcsLen [DecidableEq α] : List α → List α → Nat
  | [], _ => 0
  | _ :: _, [] => 0
  | a :: x, b :: y =>
    if a = b then 1 + lcsLen x y else max (lcsLen x (b :: y)) (lcsLen (a :: x) y)

/-- One row of the full table, right to left: given `t = [lcsLen x y[j:] | j = 0..|y|]` returns
`[lcsLen (a :: x) y[j:] | j = 0..|y|]`. -/
def lcsRow [DecidableEq α] (a : α) : List α → List Nat → List Nat
  | [], _ => [0]
  | b :: y, t =>
    let r := lcsRow a y t.tail
    (if a = b then 1 + t.tail.headD 0 else max (r.headD 0) (t.headD 0)) :: r

def lcsTable [DecidableEq α] : List α → List α → List Nat
  | [], y => List.replicate (y.length + 1) 0
  | a :: x, y => lcsRow a y (lcsTable x y)

/-- the same optimum by dynamic programming (quadratic) -/
def lcsLenDP [DecidableEq α] (x y : List α) : Nat := (lcsTable x y).headD 0

/-- Which argument the ELEMENTS returned by `LCSFunc(as, bs, eq)` are taken from.  It only matters
for an `eq` coarser than `==` (elements that are `eq` but different).  The documentation is silent;
the code sizes its buffers by "the smaller input" (`if len(bs) < len(as) { as, bs = bs, as }`) and
reads the output from the swapped `as` (`out = append(out, as[p.i])`): the elements come from the
SHORTER argument, and from the FIRST one when both are equally long.  The driver checks the
implementation's values against this rule; `Props.C12.lcsFunc_values_from` proves it of the model. -/
def lcsSource (as bs : List α) : List α := if bs.length < as.length then bs else as

/-- all adjacent-or-not pairs in order satisfy `R` (Bool version of `List.Pairwise`) -/
def pairwiseB (R : α → α → Bool) : List α → Bool
  | [] => true
  | a :: l => l.all (R a) && pairwiseB R l

/-- Quadratic reference: `ends` lists, for each processed element (most recent first), the
length of a longest `R`-chain ending there. -/
def lisEnds (R : α → α → Bool) : List α → List (α × Nat) → List (α × Nat)
  | [], ends => ends
  | v :: vs, ends =>
    let best := (ends.filter (fun p => R p.1 v)).foldl (fun m p => max m p.2) 0
    lisEnds R vs ((v, best + 1) :: ends)

/-- the length of a longest subsequence in which every element may be followed by the next (`R`) -/
def lisLen (R : α → α → Bool) (vs : List α) : Nat :=
  (lisEnds R vs []).foldl (fun m p => max m p.2) 0

end MdsVerif.Spec.Subseq
