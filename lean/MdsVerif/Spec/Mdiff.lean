import MdsVerif.Model.Mdiff
/-!
# What a correct diff chunk is (core Lean only) — property C13

Only the *types* `Edit`, `Chunk` are shared with the model.

* `consumed es` / `produced es`: the lines of the left input the edits read (Drop, Emit, Replace
  `X`) and the lines of the right input they write (Emit `X`, Copy, Replace `Y`).
* `span l s e`: lines `[s, e)` of `l`, 1-based.
* `ChunkOK c L R`: the ranges of `c` lie inside the inputs and the edits of `c` consume exactly
  `L[LStart, LEnd)` and produce exactly `R[RStart, REnd)`.
* `Ascending cs`: consecutive chunks are in order and disjoint on both sides;
  `NonAdjacent cs`: moreover there is at least one left line between consecutive chunks.
* `patch L cs`: replace each chunk's left range by its output, copying the gaps.
* `CtxOf n c c'`: `c'` is `c` with at most `n` context lines added before and after: the same
  edits with an optional Emit in front and an optional Emit behind, both ranges grown by exactly
  the numbers of lines of those Emits.

* `CtxBounded n es`: the context clause for a chunk after `Unify` (at most `n` Emit lines before the
  first and after the last change, at most `2n` between two changes); `ctxBoundedB` decides it.

All predicates are decidable (`DecidableEq α`); the driver evaluates them on the implementation's
observations with `decide`.
-/
namespace MdsVerif.Spec.Mdiff
open MdsVerif.Model.Edit MdsVerif.Model.Mdiff

variable {α : Type}

def consumedOf (e : Edit α) : List α :=
  match e.op with
  | .drop => e.X | .emit => e.X | .replace => e.X | .copy => []

def producedOf (e : Edit α) : List α :=
  match e.op with
  | .drop => [] | .emit => e.X | .replace => e.Y | .copy => e.Y

def consumed (es : List (Edit α)) : List α := es.flatMap consumedOf
def produced (es : List (Edit α)) : List α := es.flatMap producedOf

/-- lines `[s, e)` of `l`, 1-based -/
def span (l : List α) (s e : Nat) : List α := (l.drop (s - 1)).take (e - s)

structure ChunkOK (c : Chunk α) (L R : List α) : Prop where
  l1 : 1 ≤ c.lstart
  l2 : c.lstart ≤ c.lend
  l3 : c.lend ≤ L.length + 1
  r1 : 1 ≤ c.rstart
  r2 : c.rstart ≤ c.rend
  r3 : c.rend ≤ R.length + 1
  cons : consumed c.edits = span L c.lstart c.lend
  prod : produced c.edits = span R c.rstart c.rend

instance [DecidableEq α] (c : Chunk α) (L R : List α) : Decidable (ChunkOK c L R) :=
  if h : 1 ≤ c.lstart ∧ c.lstart ≤ c.lend ∧ c.lend ≤ L.length + 1 ∧ 1 ≤ c.rstart ∧
      c.rstart ≤ c.rend ∧ c.rend ≤ R.length + 1 ∧ consumed c.edits = span L c.lstart c.lend ∧
      produced c.edits = span R c.rstart c.rend
  then isTrue ⟨h.1, h.2.1, h.2.2.1, h.2.2.2.1, h.2.2.2.2.1, h.2.2.2.2.2.1, h.2.2.2.2.2.2.1, h.2.2.2.2.2.2.2⟩
  else isFalse fun k => h ⟨k.l1, k.l2, k.l3, k.r1, k.r2, k.r3, k.cons, k.prod⟩

def AllOK (cs : List (Chunk α)) (L R : List α) : Prop := ∀ c ∈ cs, ChunkOK c L R

instance [DecidableEq α] (cs : List (Chunk α)) (L R : List α) : Decidable (AllOK cs L R) :=
  inferInstanceAs (Decidable (∀ c ∈ cs, ChunkOK c L R))

/-- consecutive chunks are in order and disjoint, on both sides -/
def Ascending : List (Chunk α) → Prop
  | [] => True
  | [_] => True
  | c :: d :: cs => c.lend ≤ d.lstart ∧ c.rend ≤ d.rstart ∧ Ascending (d :: cs)

/-- consecutive chunks are separated by at least one line of the left input -/
def NonAdjacent : List (Chunk α) → Prop
  | [] => True
  | [_] => True
  | c :: d :: cs => c.lend < d.lstart ∧ NonAdjacent (d :: cs)

def ascendingB : List (Chunk α) → Bool
  | [] => true
  | [_] => true
  | c :: d :: cs => decide (c.lend ≤ d.lstart) && decide (c.rend ≤ d.rstart) && ascendingB (d :: cs)

def nonAdjacentB : List (Chunk α) → Bool
  | [] => true
  | [_] => true
  | c :: d :: cs => decide (c.lend < d.lstart) && nonAdjacentB (d :: cs)

theorem ascendingB_iff (cs : List (Chunk α)) : ascendingB cs = true ↔ Ascending cs := by
  induction cs with
  | nil => simp [ascendingB, Ascending]
  | cons c cs ih =>
    cases cs with
    | nil => simp [ascendingB, Ascending]
    | cons d cs => simp [ascendingB, Ascending, ih, and_assoc]

theorem nonAdjacentB_iff (cs : List (Chunk α)) : nonAdjacentB cs = true ↔ NonAdjacent cs := by
  induction cs with
  | nil => simp [nonAdjacentB, NonAdjacent]
  | cons c cs ih =>
    cases cs with
    | nil => simp [nonAdjacentB, NonAdjacent]
    | cons d cs => simp [nonAdjacentB, NonAdjacent, ih]

instance (cs : List (Chunk α)) : Decidable (Ascending cs) :=
  decidable_of_iff _ (ascendingB_iff cs)
instance (cs : List (Chunk α)) : Decidable (NonAdjacent cs) :=
  decidable_of_iff _ (nonAdjacentB_iff cs)

/-- apply the chunks to `L` from left line `pos` on: copy the gap, write the chunk's output,
continue after the chunk's left range -/
def patchFrom (L : List α) : Nat → List (Chunk α) → List α
  | pos, [] => L.drop (pos - 1)
  | pos, c :: cs => span L pos c.lstart ++ produced c.edits ++ patchFrom L c.lend cs

/-- replacing each chunk's left range by its output -/
def patch (L : List α) (cs : List (Chunk α)) : List α := patchFrom L 1 cs

/-- `c'` is `c` with `pre` in front and `post` behind -/
def IsCtxOf (c c' : Chunk α) (pre post : List α) : Prop :=
  c'.edits = (if pre = [] then [] else [⟨.emit, pre, []⟩]) ++ c.edits ++
             (if post = [] then [] else [⟨.emit, post, []⟩]) ∧
  c'.lstart + pre.length = c.lstart ∧ c'.rstart + pre.length = c.rstart ∧
  c'.lend = c.lend + post.length ∧ c'.rend = c.rend + post.length

/-- at most `n` context lines were added before and after -/
def CtxOf (n : Nat) (c c' : Chunk α) : Prop :=
  ∃ pre post, pre.length ≤ n ∧ post.length ≤ n ∧ IsCtxOf c c' pre post

/-- executable form of `CtxOf` (reads `pre`/`post` off the first/last edit of `c'`) -/
def ctxOfB [DecidableEq α] (n : Nat) (c c' : Chunk α) : Bool :=
  let k := c.lstart - c'.lstart
  let m := c'.lend - c.lend
  let pre := if k = 0 then [] else (c'.edits.head?.map (·.X)).getD []
  let post := if m = 0 then [] else (c'.edits.getLast?.map (·.X)).getD []
  decide (pre.length = k ∧ post.length = m ∧ k ≤ n ∧ m ≤ n ∧ c'.lstart ≤ c.lstart ∧ c.lend ≤ c'.lend ∧
    c'.edits = (if pre = [] then [] else [⟨.emit, pre, []⟩]) ++ c.edits ++
               (if post = [] then [] else [⟨.emit, post, []⟩]) ∧
    c'.lstart + pre.length = c.lstart ∧ c'.rstart + pre.length = c.rstart ∧
    c'.lend = c.lend + post.length ∧ c'.rend = c.rend + post.length)

theorem ctxOfB_sound [DecidableEq α] {n : Nat} {c c' : Chunk α} (h : ctxOfB n c c' = true) :
    CtxOf n c c' := by
  unfold ctxOfB at h
  simp only [decide_eq_true_eq] at h
  obtain ⟨h1, h2, h3, h4, -, -, h5, h6, h7, h8, h9⟩ := h
  exact ⟨_, _, by omega, by omega, h5, h6, h7, h8, h9⟩

/-- pointwise `CtxOf` over two chunk lists of the same length -/
def AllCtxOf (n : Nat) : List (Chunk α) → List (Chunk α) → Prop
  | [], [] => True
  | c :: cs, c' :: cs' => CtxOf n c c' ∧ AllCtxOf n cs cs'
  | _, _ => False

def allCtxOfB [DecidableEq α] (n : Nat) : List (Chunk α) → List (Chunk α) → Bool
  | [], [] => true
  | c :: cs, c' :: cs' => ctxOfB n c c' && allCtxOfB n cs cs'
  | _, _ => false

/-! ## "at most `n` context lines before and after each chunk", after `Unify`

After `AddContext(n)` the clause is `CtxOf n` (above).  `Unify` merges chunks whose contexts touch
or overlap, so a unified chunk may hold several changes; the clause then reads: the Emit lines in
front of the first change and behind the last change are at most `n`, and the Emit lines between
two changes are at most `2n` (the post-context of one and the pre-context of the next). -/

def AllEmit (es : List (Edit α)) : Prop := ∀ e ∈ es, e.op = .emit

/-- the context clause for the edits of one unified chunk, stated over ALL runs of Emit edits:
a run at the start (`lead`) or at the end (`trail`) of the edit list has at most `n` lines, a run
anywhere (`mid`) at most `2n` (`consumed` of a run of Emits is its lines) -/
structure CtxBounded (n : Nat) (es : List (Edit α)) : Prop where
  lead : ∀ a b, es = a ++ b → AllEmit a → (consumed a).length ≤ n
  trail : ∀ a b, es = a ++ b → AllEmit b → (consumed b).length ≤ n
  mid : ∀ a b c, es = a ++ b ++ c → AllEmit b → (consumed b).length ≤ 2 * n

/-- one pass over the edits: `seen` = a non-Emit edit has been passed, `run` = Emit lines since the
last non-Emit edit (or since the start).  A run is checked when it ends: against `n` before the
first change and at the end of the list, against `2n` between two changes. -/
def ctxScan (n : Nat) : Bool → Nat → List (Edit α) → Bool
  | _, run, [] => decide (run ≤ n)
  | seen, run, e :: es =>
    if e.op = .emit then ctxScan n seen (run + e.X.length) es
    else decide (run ≤ if seen then 2 * n else n) && ctxScan n true 0 es

/-- executable form of `CtxBounded` (`Proofs.MdiffCtx.ctxBoundedB_sound`); the driver evaluates it
on every chunk the implementation returns after `Unify` -/
def ctxBoundedB (n : Nat) (es : List (Edit α)) : Bool := ctxScan n false 0 es

def allCtxBoundedB (n : Nat) (cs : List (Chunk α)) : Bool := cs.all fun c => ctxBoundedB n c.edits

end MdsVerif.Spec.Mdiff
