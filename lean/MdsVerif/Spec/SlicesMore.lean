import MdsVerif.Spec.Slices
/-!
# Reference specification of `Dedup`, `Reverse`, `Zero`, `Select`, `MapKeys`, `MatchingKeys`

Written from the documentation on plain lists, as decidable acceptance tests of
what the harness OBSERVED (nothing here refers to the model).

* `Dedup`: "rearranges the elements of vs in-place to deduplicate consecutive
  runs of identical elements; returns a prefix of vs that contains the first
  element of each run found" and, being `slices.Compact`, "zeroes the elements
  between the new length and the original length".
* map iteration order is unspecified: `MapKeys` is judged as a permutation of the
  key set, `MatchingKeys` as a duplicate-free selection of matching keys of the
  right size.
-/
namespace MdsVerif.Spec.SlicesMore
open MdsVerif.Spec.Slices

/-- drop every element equal to its predecessor `prev` -/
def uniqFrom (prev : Int) : List Int → List Int
  | [] => []
  | b :: t => if b = prev then uniqFrom prev t else b :: uniqFrom b t

/-- the first element of each run of identical elements -/
def uniq : List Int → List Int
  | [] => []
  | a :: t => a :: uniqFrom a t

/-- `Dedup(vs)`: `res` the returned subslice, `after` the contents of `vs` (original length) afterwards -/
def dedupOk (orig : List Int) (res : Sub) (after : List Int) : Bool :=
  res.elems == uniq orig
  && res.posIs 0
  && after.length == orig.length
  && after.take res.len == res.elems
  && after.drop res.len == List.replicate (orig.length - res.len) 0

def reverseOk (orig after : List Int) : Bool := after == orig.reverse

def zeroOk (orig after : List Int) : Bool := after == List.replicate orig.length 0

/-- what a loop `for v := range seq { out = append(out, v); if len(out) == lim { break } }` collects
from a sequence that delivers `l` -/
def collected (l : List Int) (lim : Nat) : List Int := if lim = 0 then l else l.take lim

/-- number of elements of `vs` an early-stopping scan looks at until `lim` matches were found -/
def scanned (f : Int → Bool) : List Int → Nat → Nat → Nat
  | [], _, _ => 0
  | v :: vs, found, lim =>
    if f v then (if found + 1 = lim then 1 else scanned f vs (found + 1) lim + 1)
    else scanned f vs found lim + 1

/-- `Select(vs, f)`: the values delivered, in order; the predicate is not called any more once the
consumer has left the loop -/
def selectOk (f : Int → Bool) (orig : List Int) (lim : Nat) (yielded : List Int) (visited : Nat) : Bool :=
  yielded == collected (orig.filter f) lim && visited == scanned f orig 0 lim

/-- `MapKeys(m)`: `keys` are the map's keys (sorted, distinct), `raw` what the call returned -/
def mapKeysOk (keys raw : List Int) (isNil : Bool) : Bool :=
  raw.isPerm keys && (isNil == keys.isEmpty)

def nodupB : List Int → Bool
  | [] => true
  | a :: t => !t.contains a && nodupB t

/-- `MatchingKeys(m, f)` consumed until `lim` keys were delivered: distinct keys of `m` whose value
satisfies `f`; all of them unless the consumer stopped early -/
def matchingOk (f : Int → Bool) (entries : List (Int × Int)) (lim : Nat) (yielded : List Int) : Bool :=
  let matching := (entries.filter fun kv => f kv.2).map (·.1)
  nodupB yielded
  && yielded.all (matching.contains ·)
  && yielded.length == (if lim = 0 then matching.length else min lim matching.length)

end MdsVerif.Spec.SlicesMore
