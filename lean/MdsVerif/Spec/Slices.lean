/-!
# Reference specification of the slice utilities (C17)

Written directly from the documentation / property text, on plain lists, as
decidable acceptance tests of an *observed* result (what the Go call returned,
as seen by the harness: elements, capacity and position of every returned
subslice, the argument slice afterwards).  Nothing here refers to the model.

Positions are relative to `vs[0]` (`none` when a subslice has capacity 0 and no
address can be taken).  "Capacity-clipped" is read by its purpose (DESIGN.md §5):
appending to a returned subslice never overwrites an element of `vs`, i.e.
`cap = len ∨ end = len vs`.
-/
namespace MdsVerif.Spec.Slices

/-- an observed subslice -/
structure Sub where
  elems : List Int
  cap : Nat
  /-- index of its first cell relative to `vs[0]`, when observable -/
  pos : Option Int
deriving Repr, DecidableEq

def Sub.len (s : Sub) : Nat := s.elems.length

/-- appending to `s`, which starts at `start` within `vs`, cannot overwrite an element of `vs` -/
def Sub.safe (s : Sub) (start vsLen : Nat) : Bool :=
  s.cap == s.len || start + s.len == vsLen

def Sub.posIs (s : Sub) (p : Nat) : Bool := s.pos == none || s.pos == some (p : Int)

/-- `Partition`: result = the kept elements in order, a prefix of the rearranged `vs`, which is a
permutation of the original; clipped.

The documentation of `Partition` says literally "The capacity of the slice returned is clipped to its
length", so — unlike `Chunks`/`Batches`, whose documentation promises nothing about capacity and which are
judged by the purposive reading `Sub.safe` — the acceptance test is STRICT: `cap = len` (this is also what
`Props.C17.partition_spec` proves of the model).  The single exception is an EMPTY input slice, for which
the code returns `vs` itself (`if len(vs) == 0 { return vs }`), spare capacity (`vsCap`) included: an
observation about the code, not a finding — an empty `vs` has no elements an append could modify, so the
purpose stated in the same sentence of the documentation holds. -/
def partitionOk (keep : Int → Bool) (orig : List Int) (vsCap : Nat) (res : Sub) (after : List Int) : Bool :=
  res.elems == orig.filter keep
  && after.take res.len == res.elems
  && after.isPerm orig
  && res.posIs 0
  && (res.cap == res.len || (orig.isEmpty && res.cap == vsCap))

/-- the list in which the element at index `i` of `l` sits at index `(i + k) mod n` -/
def rotated (l : List Int) (k : Int) : List Int :=
  let n := l.length
  (List.range n).map fun (j : Nat) => l.getD (((j : Int) - k) % n).toNat 0

/-- `Rotate`: `after = none` means the call panicked -/
def rotateOk (orig : List Int) (k : Int) (after : Option (List Int)) : Bool :=
  let n : Int := orig.length
  if -n ≤ k ∧ k ≤ n then after == some (rotated orig k) else after == none

/-- consecutive subslices of `vs` starting at `start`, each safe to append to -/
def consecutive (vsLen : Nat) : Nat → List Sub → Bool
  | _, [] => true
  | start, s :: ss => s.posIs start && s.safe start vsLen && consecutive vsLen (start + s.len) ss

def cat (ss : List Sub) : List Int := (ss.map (·.elems)).flatten

/-- `Chunks(vs, n)`; `none` = panicked -/
def chunksOk (orig : List Int) (n : Int) : Option (List Sub) → Bool
  | none => n < 0
  | some ss =>
    n ≥ 0 && cat ss == orig && consecutive orig.length 0 ss &&
    (if n = 0 ∨ orig = [] then ss.length == 1
     else ss.dropLast.all (fun s => (s.len : Int) == n) &&
          (match ss.getLast? with | some s => 1 ≤ s.len && (s.len : Int) ≤ n | none => false))

/-- `Batches(vs, n)`; `none` = panicked -/
def batchesOk (orig : List Int) (n : Int) : Option (List Sub) → Bool
  | none => n < 0
  | some ss =>
    -- `n = 0` is documented to return nil (no batches, whatever `vs` is); the covering clause is for `n ≥ 1`
    n ≥ 0 && (n == 0 || cat ss == orig) && consecutive orig.length 0 ss &&
    (ss.length : Int) == min n orig.length &&
    ss.all fun s => ss.all fun t => s.len ≤ t.len + 1

/-- `Head(vs, n)` for `n ≥ 0` (a negative `n` is not documented: `none` = no verdict) -/
def headOk (orig : List Int) (n : Int) (res : Option Sub) : Option Bool :=
  if n < 0 then none else
  match res with
  | none => some false
  | some s => some (s.elems == orig.take n.toNat && s.posIs 0)

def tailOk (orig : List Int) (n : Int) (res : Option Sub) : Option Bool :=
  if n < 0 then none else
  match res with
  | none => some false
  | some s => some (s.elems == orig.drop (orig.length - n.toNat) && s.posIs (orig.length - n.toNat))

/-- `Stripe(vs, i)` for `i ≥ 0` -/
def stripeOk (vs : List (List Int)) (i : Int) (res : Option (List Int)) : Option Bool :=
  if i < 0 then none else some (res == some (vs.filterMap (·[i.toNat]?)))

/-- the element `At`/`PtrAt` designate: index `i`, or `len + i` for negative `i` -/
def designated (orig : List Int) (i : Int) : Option (Nat × Int) :=
  let n : Int := orig.length
  let j := if i < 0 then n + i else i
  if 0 ≤ j ∧ j < n then (orig[j.toNat]?).map (fun v => (j.toNat, v)) else none

/-- `At(ss, i)`: the designated element, a panic when out of range (`res = none`) -/
def atOk (orig : List Int) (i : Int) (res : Option Int) : Bool :=
  res == (designated orig i).map (·.2)

/-- `PtrAt(ss, i)`: a pointer to the designated cell (position, value read through it), else nil -/
def ptrAtOk (orig : List Int) (i : Int) (res : Option (Nat × Int)) : Bool :=
  res == designated orig i

end MdsVerif.Spec.Slices
