/-!
# Reference specification for C19 (core Lean only; not derived from the model)

The specification looks only at what the property text talks about: the set of
distinct values added since construction/`Reset`, the buffer size, and the
implementation's observation after each call (`Len`, `Count`, the threshold
`p`, the buffer contents).  It demands

* exact regime: while fewer distinct values than the buffer size were added,
  `Count` (and `Len`) equal their number and the scale is 2^0;
* `Len ≤ size` at all times;
* `Count = Len · 2^j` (as a `uint64`; the scale is read off the threshold,
  `p = 2^(64-j) − 1`), with `j` not decreasing until `Reset`;
* the buffer only holds values that were added;
* `Reset` restores the initial observation.
-/
namespace MdsVerif.Spec.DistinctCount

structure Obs where
  len : Nat
  count : Nat
  p : Nat
  buf : List Nat

structure Sp where
  size : Nat := 0
  /-- distinct values added since construction / Reset -/
  seen : List Nat := []
  /-- scale exponent of the previous observation -/
  j : Nat := 0

/-- the `j ≤ 64` with `p = 2^(64-j) − 1`, if any -/
def scaleOf (p : Nat) : Option Nat :=
  (List.range 65).find? (fun j => p + 1 == 2 ^ (64 - j))

def firstBad (checks : List (Bool × String)) : String :=
  match checks.find? (fun c => !c.1) with
  | none => "ok"
  | some c => "bad " ++ c.2

/-- verdict after `Add v` -/
def afterAdd (s : Sp) (v : Nat) (o : Obs) : Sp × String :=
  let seen := if s.seen.contains v then s.seen else v :: s.seen
  let d := seen.length
  match scaleOf o.p with
  | none => ({ s with seen := seen }, s!"bad threshold {o.p} is not of the form 2^(64-j)-1")
  | some j =>
    let scale := if j ≥ 64 then 0 else 2 ^ j
    ({ s with seen := seen, j := j },
     firstBad [
      (o.len == o.buf.length, s!"Len {o.len} is not the number of buffered values {o.buf.length}"),
      (o.buf.all seen.contains, "the buffer holds a value that was never added"),
      (o.count == (o.len * scale) % 2 ^ 64, s!"Count {o.count} is not Len {o.len} times 2^{j}"),
      (s.j ≤ j, s!"the scale exponent decreased from {s.j} to {j} without Reset"),
      (!(d < s.size) || (j == 0 && o.count == d && o.len == d),
        s!"exact regime: {d} distinct values added, fewer than the buffer size {s.size}, but Count={o.count} Len={o.len} scale=2^{j}"),
      (o.len ≤ s.size, s!"Len {o.len} exceeds the buffer size {s.size}")])

/-- verdict after `Reset` (and after construction) -/
def afterReset (s : Sp) (o : Obs) : Sp × String :=
  ({ s with seen := [], j := 0 },
   firstBad [
    (o.len == 0 && o.buf.isEmpty, "Reset must empty the buffer"),
    (o.count == 0, "Count must be 0 after Reset"),
    (o.p + 1 == 2 ^ 64, "Reset must restore the threshold to MaxUint64 (exact regime)")])

end MdsVerif.Spec.DistinctCount
