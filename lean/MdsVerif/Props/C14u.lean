import MdsVerif.Proofs.MdiffUnified
/-!
# C14 (unified format) — `ReadUnified ∘ Unified` round-trips, up to the recorded defect F5

Statements about `MdsVerif.Model.MdiffFmt` (`unified`, `readUnified`, `render`, `readLines`)
instantiated with the facts regenerated from the Go sources (`Gen.MdiffFmt`).  This file proves the
statement that `Props/C14.lean` keeps as a comment (`unified_roundtrip_partial`), in a slightly
stronger form: no assumption on the shape of the edits (`EditOK`) and none on `1 ≤ start`.

What a reader has to trust, all defined in `Proofs/MdiffUnified.lean`:

* `regroup es` — the edits `readUnifiedChunk` rebuilds from the body written for `es`: the edits
  are flattened to classified lines (`flat`: Drop X ↦ X as `-` lines, Emit X ↦ X as context lines,
  Copy Y ↦ Y as `+` lines, Replace X Y ↦ the drops X then the copies Y) and the reader's closure
  `addLine` is folded over them from `[]`.  `regroup_canonical` and `regroup_replace` below say
  what that is: nothing changes unless there is something to fuse or a Replace to split.
* `normFi f` — `f` with an empty name replaced by the default `a` / `b` (what `Unified` writes).
* `HeaderOK pt f` — the (defaulted) names contain no `'\n'` and no `'\t'`; every present timestamp
  `t` (carried in formatted form) contains no `'\n'` and satisfies `pt t = some t`, the explicit,
  opaque round-trip assumption for `time.Parse(TimeFormat, ·) ∘ Time.Format(TimeFormat)`.

**Partial** because of F5 (`known_findings.json`; `Props.C14.unified_range_F5`,
`Props.C14.C14_F5_witness`): `parseSpan` answers the count 0 for a range written without a count,
so the statement is *false* for chunks with a range of exactly one line.  The hypothesis `hno1`
excludes exactly those; nothing else is missing.  The full-strength statement (kept here as a
comment, not provable for the current sources because it is false for them):

```
theorem unified_roundtrip_full (pt) (cs) (fi) (hcs : cs ≠ [])
    (hrng : ∀ c ∈ cs, c.lstart ≤ c.lend ∧ c.rstart ≤ c.rend)
    (hnl : ∀ c ∈ cs, EditsNoNl c.edits) (hfi : ∀ f, fi = some f → HeaderOK pt f) :
    readUnified pt (readLines (render (unified cs fi))) =
      some ⟨fi.map normFi, cs.map fun c => { c with edits := regroup c.edits }⟩ ∧
    render (unified (cs.map fun c => { c with edits := regroup c.edits }) (fi.map normFi))
      = render (unified cs fi)
  -- true for a reader with `spanOmitted lo = 1`; false here: Props.C14.C14_F5_witness
```
-/
namespace MdsVerif.Props.C14u
open MdsVerif.Model.Edit MdsVerif.Model.Mdiff MdsVerif.Model.MdiffFmt
open MdsVerif.Proofs.MdiffFmt MdsVerif.Proofs.MdiffUnified
open MdsVerif.Gen

/-- **unified_roundtrip_partial.**  For every non-empty chunk list with `start ≤ end` on both sides,
newline-free content (lines may be empty, contain tabs, or look like diff structure: `--- a`,
`@@ -1 +1 @@`, `+`, …), any file header satisfying `HeaderOK` (or none), and — because of the
recorded defect F5 — **no range of exactly one line**:

* `ReadUnified` applied to the bytes written by `Unified` succeeds; it returns the header with the
  names as written (empty ↦ `a`/`b`) and the timestamps unchanged, and chunk for chunk the same
  line ranges with the edits `regroup c.edits` (adjacent edits of one kind fused, a Replace
  returned as its Drop half followed by its Copy half);
* re-formatting the parsed patch with `Unified` reproduces the text byte for byte.

Missing for the full property: the case of a range of length 1 (hypothesis `hno1`), where the
statement is false for the current sources (`Props.C14.C14_F5_witness`). -/
theorem unified_roundtrip_partial (pt : Line → Option Line) (cs : List (Chunk Line)) (fi : Option FileInfo)
    (hcs : cs ≠ [])
    (hrng : ∀ c ∈ cs, c.lstart ≤ c.lend ∧ c.rstart ≤ c.rend)
    (hno1 : ∀ c ∈ cs, c.lend - c.lstart ≠ 1 ∧ c.rend - c.rstart ≠ 1)      -- no range of length 1 (F5)
    (hnl : ∀ c ∈ cs, EditsNoNl c.edits)
    (hfi : ∀ f, fi = some f → HeaderOK pt f) :
    readUnified pt (readLines (render (unified cs fi))) =
      some ⟨fi.map normFi, cs.map fun c => { c with edits := regroup c.edits }⟩ ∧
    render (unified (cs.map fun c => { c with edits := regroup c.edits }) (fi.map normFi))
      = render (unified cs fi) := by
  have hok : ∀ c ∈ cs, RangesOK c := fun c hc =>
    ⟨(hrng c hc).1, (hrng c hc).2, (hno1 c hc).1, (hno1 c hc).2⟩
  constructor
  · rw [readLines_render _ (noNl_unified pt cs fi hnl hfi)]
    exact readUnified_unified pt cs fi hcs hok hfi
  · exact congrArg render (unified_regroup cs fi)

/-- the instance used for the non-vacuity checks: two chunks, context Emits, a Replace, adjacent
Drops (fused on the way back), lines that are empty or look like diff structure (the dropped line
`-- x` is written as `--- x`), a header with a name containing a space, an empty (defaulted) name
and one timestamp -/
def exCs : List (Chunk Line) :=
  [⟨[⟨.emit, [str "--- a"], []⟩, ⟨.replace, [str "@@ -1 +1 @@", []], [str "+"]⟩, ⟨.emit, [[]], []⟩],
      1, 5, 1, 4⟩,
   ⟨[⟨.drop, [str "-- x"], []⟩, ⟨.drop, [str " "], []⟩, ⟨.copy, [], [str "+++ b", str "@"]⟩,
     ⟨.emit, [str "\t"], []⟩], 9, 12, 8, 11⟩]

def exFi : FileInfo := ⟨str "old name", [], some (str "2026-01-02 03:04:05 +0000"), none⟩

/-- a `time.Parse` that accepts exactly one string -/
def exPt (t : Line) : Option Line := if t = str "2026-01-02 03:04:05 +0000" then some t else none

/-- non-vacuity, the text: what `Unified` writes for the instance -/
example : unified exCs (some exFi) =
    [str "--- old name\t2026-01-02 03:04:05 +0000", str "+++ b",
     str "@@ -1,4 +1,3 @@", str " --- a", str "-@@ -1 +1 @@", str "-", str "++", str " ",
     str "@@ -9,3 +8,3 @@", str "--- x", str "- ", str "++++ b", str "+@", str " \t"] := by decide

/-- non-vacuity, the hypotheses hold for the instance -/
example : exCs ≠ [] ∧ (∀ c ∈ exCs, c.lstart ≤ c.lend ∧ c.rstart ≤ c.rend) ∧
    (∀ c ∈ exCs, c.lend - c.lstart ≠ 1 ∧ c.rend - c.rstart ≠ 1) ∧
    (∀ c ∈ exCs, EditsNoNl c.edits) ∧ (∀ f, some exFi = some f → HeaderOK exPt f) := by
  refine ⟨by decide, by decide, by decide, by unfold EditsNoNl NoNl; decide, ?_⟩
  intro f hf; cases hf
  unfold HeaderOK NameOK TimeOK NoNl
  refine ⟨by decide, by decide, ?_, ?_⟩
  · intro s hs; cases hs; decide
  · intro s hs; cases hs

/-- non-vacuity, the conclusion evaluated on the instance (header, ranges, regrouped edits) -/
example :
    (readUnified exPt (readLines (render (unified exCs (some exFi))))).map (fun p => (p.fileInfo, p.chunks))
      = some (some ⟨str "old name", str "b", some (str "2026-01-02 03:04:05 +0000"), none⟩,
         [⟨[⟨.emit, [str "--- a"], []⟩, ⟨.drop, [str "@@ -1 +1 @@", []], []⟩, ⟨.copy, [], [str "+"]⟩,
            ⟨.emit, [[]], []⟩], 1, 5, 1, 4⟩,
          ⟨[⟨.drop, [str "-- x", str " "], []⟩, ⟨.copy, [], [str "+++ b", str "@"]⟩,
            ⟨.emit, [str "\t"], []⟩], 9, 12, 8, 11⟩]) ∧
    (readUnified exPt (readLines (render (unified exCs (some exFi))))).map
        (fun p => render (unified p.chunks p.fileInfo)) = some (render (unified exCs (some exFi))) := by
  decide

/-- **unified_roundtrip_nofi.**  The same without a file header (`fi = nil`): the first line of the
text is a hunk header, which `readUnifiedHeader` does not take for a file header. -/
theorem unified_roundtrip_nofi (pt : Line → Option Line) (cs : List (Chunk Line)) (hcs : cs ≠ [])
    (hrng : ∀ c ∈ cs, c.lstart ≤ c.lend ∧ c.rstart ≤ c.rend)
    (hno1 : ∀ c ∈ cs, c.lend - c.lstart ≠ 1 ∧ c.rend - c.rstart ≠ 1)
    (hnl : ∀ c ∈ cs, EditsNoNl c.edits) :
    readUnified pt (readLines (render (unified cs none))) =
      some ⟨none, cs.map fun c => { c with edits := regroup c.edits }⟩ ∧
    render (unified (cs.map fun c => { c with edits := regroup c.edits }) none)
      = render (unified cs none) :=
  unified_roundtrip_partial pt cs none hcs hrng hno1 hnl (fun _ h => by cases h)

example :
    (readUnified (fun _ => none) (readLines (render (unified exCs none)))).map (fun p => (p.fileInfo, p.chunks))
      = some (none, exCs.map fun c => { c with edits := regroup c.edits }) := by decide

/-- **regroup_canonical.**  If the edits contain no Replace, no empty edit, have their unused field
empty (`CanonEdit`) and no two adjacent edits are of the same kind (`NoAdj`), the reader rebuilds
exactly them: under the hypotheses of `unified_roundtrip_partial` such chunks come back
unchanged. -/
theorem regroup_canonical (es : List (Edit Line)) (hc : ∀ e ∈ es, CanonEdit e) (hadj : NoAdj es) :
    regroup es = es :=
  MdsVerif.Proofs.MdiffUnified.regroup_canonical es hc hadj

example :
    let es : List (Edit Line) := [⟨.emit, [str "--- a", []], []⟩, ⟨.drop, [str "@@ -1 +1 @@"], []⟩,
      ⟨.copy, [], [str "+", []]⟩, ⟨.emit, [str "+"], []⟩, ⟨.copy, [], [str "-"]⟩]
    ((∀ e ∈ es, CanonEdit e) ∧ NoAdj es) ∧ regroup es = es := by
  refine ⟨⟨?_, ?_⟩, by decide⟩
  · intro e he
    simp only [List.mem_cons, List.not_mem_nil, or_false] at he
    rcases he with rfl | rfl | rfl | rfl | rfl <;> simp [CanonEdit, str]
  · simp [NoAdj]

/-- **regroup_replace.**  A Replace with both sides non-empty comes back as its Drop half followed
by its Copy half. -/
theorem regroup_replace (X Y : List Line) (hX : X ≠ []) (hY : Y ≠ []) :
    regroup [⟨.replace, X, Y⟩] = [⟨.drop, X, []⟩, ⟨.copy, [], Y⟩] :=
  MdsVerif.Proofs.MdiffUnified.regroup_replace X Y hX hY

example : regroup [⟨.replace, [str "--- a", []], [str "@@ -1 +1 @@", str "+"]⟩]
    = [⟨.drop, [str "--- a", []], []⟩, ⟨.copy, [], [str "@@ -1 +1 @@", str "+"]⟩] := by decide

/-- **regroup_flat.**  In general `regroup` neither loses, adds nor reorders a line: flattened to
classified lines it is the input (so it differs from the input only in how lines are grouped). -/
theorem regroup_flat (es : List (Edit Line)) : flat (regroup es) = flat es := flat_regroup es

example : flat (regroup [⟨.drop, [str "+"], []⟩, ⟨.drop, [[]], []⟩, ⟨.replace, [str "@@"], [str "--- a"]⟩])
    = [(.drop, str "+"), (.drop, []), (.drop, str "@@"), (.copy, str "--- a")] := by decide

end MdsVerif.Props.C14u
