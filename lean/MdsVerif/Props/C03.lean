import MdsVerif.Proofs.Cursor
import MdsVerif.Proofs.CursorHist
import MdsVerif.Drv.C03
/-!
# C03 — `stree.Cursor` navigation is consistent with key order and tree structure

All theorems are about the executable model `Model.Cursor` (the functions the driver stream
`C03` runs) and hold for EVERY binary tree / every search tree (`Ordered cmp root`: the in-order
key list is strictly ascending) — not only for the shapes reachable by operation histories, so the
skewed shapes that β = 1000 allows are covered.  `cmp` is any comparator with `Std.TransCmp`.

Notation: a valid cursor is a position `p = (root, dirs)` with `p.WF` (the path stays inside
the tree).  `p.before` / `p.after` are the keys of the whole tree before / after the cursor's
key in order (`zipper`: `root.toList = p.before ++ x :: p.after`).

Clone: `clone c = c` — in the value model a clone is a copy, so independence of the clone is
immediate; that Go's `Clone` really copies the path slice is tied by the correspondence stream
(every line prints Valid/Key of every cursor register; sharing the backing array is caught).

`C03_current`: the navigation choices of the model (which child, which direction, the `HasNext`/`HasPrev`
formula, truncation, `HasParent`/`Up`) are definitions of `Gen.Cursor`, regenerated from stree/cursor.go on
every run by `extract/cursor.go`; the theorem pins each of them.
-/
namespace MdsVerif.Props.C03
open MdsVerif.Model.Stree MdsVerif.Model.Cursor MdsVerif.Proofs.Cursor

variable {α : Type}

/-- a well-formed position has a key, and the tree's key list splits around it -/
theorem zipper (p : Pos α) (hw : p.WF) :
    ∃ x, key? (some p) = some x ∧ p.root.toList = p.before ++ x :: p.after := by
  obtain ⟨l, x, r, h⟩ := isNil_eq_false.mp hw
  exact ⟨x, key?_some h, MdsVerif.Proofs.Cursor.Pos.zipper p h⟩

/-- **`Cursor(key)` is valid iff the key is in the tree** -/
theorem cursor_valid_iff (cmp : α → α → Ordering) [Std.TransCmp cmp] (root : Tree α)
    (ho : Ordered cmp root) (k : α) :
    valid (ofKey cmp root k) = true ↔ ∃ y ∈ root.toList, cmp k y = .eq :=
  ofKey_valid_iff cmp root ho k

/-- **…and then it is a position inside that tree whose `Key` is the stored representative** of
`k`'s class (the only element of the tree equivalent to `k`) -/
theorem cursor_key (cmp : α → α → Ordering) [Std.TransCmp cmp] (root : Tree α) (ho : Ordered cmp root)
    (k : α) (p : Pos α) (h : ofKey cmp root k = some p) :
    p.root = root ∧ p.WF ∧ ∃ x, key? (some p) = some x ∧ x ∈ root.toList ∧ cmp k x = .eq ∧
      ∀ y ∈ root.toList, cmp k y = .eq → y = x := by
  obtain ⟨h1, h2, x, h3, h4, h5⟩ := ofKey_some cmp root k h
  exact ⟨h1, h2, x, h3, h5, h4, fun y hy he => ho.unique hy h5 he h4⟩

/-- **`Root()`**: invalid on the empty tree, otherwise the position of the whole tree -/
theorem root_spec (root : Tree α) :
    (root = .nil ∧ ofRoot root = none) ∨ (∃ p, ofRoot root = some p ∧ p.root = root ∧ p.dirs = [] ∧ p.WF) :=
  ofRoot_spec root

/-- **`Next` moves to exactly the next position of the in-order list and becomes invalid past the
end**: with `root.toList = before ++ x :: after`, `Next` is invalid iff `after = []`; otherwise
the new cursor is inside the same tree, shows `after.head`, and its `before`/`after` are the old
ones moved by one element. -/
theorem next_is_succ (p : Pos α) (hw : p.WF) :
    ∃ x, key? (some p) = some x ∧
      ((p.after = [] ∧ next (some p) = none) ∨
       (∃ p' y, next (some p) = some p' ∧ p'.WF ∧ p'.root = p.root ∧ key? (some p') = some y ∧
          p.after = y :: p'.after ∧ p'.before = p.before ++ [x])) := by
  obtain ⟨l, x, r, h⟩ := isNil_eq_false.mp hw
  exact ⟨x, key?_some h, next_spec p l r x h⟩

/-- **`Prev`** symmetrically -/
theorem prev_is_pred (p : Pos α) (hw : p.WF) :
    ∃ x, key? (some p) = some x ∧
      ((p.before = [] ∧ prev (some p) = none) ∨
       (∃ p' y, prev (some p) = some p' ∧ p'.WF ∧ p'.root = p.root ∧ key? (some p') = some y ∧
          p.before = p'.before ++ [y] ∧ p'.after = x :: p.after)) := by
  obtain ⟨l, x, r, h⟩ := isNil_eq_false.mp hw
  exact ⟨x, key?_some h, prev_spec p l r x h⟩

/-- in a search tree the key shown by `Next` is the least key greater than the current one -/
theorem next_least_greater (cmp : α → α → Ordering) [Std.TransCmp cmp] (p : Pos α) (hw : p.WF)
    (ho : Ordered cmp p.root) (x : α) (hx : key? (some p) = some x) (p' : Pos α) (y : α)
    (hn : next (some p) = some p') (hy : key? (some p') = some y) :
    cmp x y = .lt ∧ ∀ z ∈ p.root.toList, cmp x z = .lt → z = y ∨ cmp y z = .lt := by
  obtain ⟨x', hx', hcase⟩ := next_is_succ p hw
  rw [hx] at hx'; cases hx'
  obtain ⟨x2, hx2, hz2⟩ := zipper p hw
  rw [hx] at hx2; cases hx2
  rcases hcase with ⟨_, hnone⟩ | ⟨p'', y', hn', _, _, hy', hafter, _⟩
  · rw [hn] at hnone; cases hnone
  · rw [hn] at hn'; cases hn'
    rw [hy] at hy'; cases hy'
    have hpw : (p.before ++ x :: y :: p'.after).Pairwise (fun a b => cmp a b = .lt) := by
      have := ho; unfold Ordered at this; rw [hz2, hafter] at this; exact this
    rw [List.pairwise_append] at hpw
    obtain ⟨_, hcons, hcross⟩ := hpw
    rw [List.pairwise_cons] at hcons
    obtain ⟨hxall, hrest⟩ := hcons
    rw [List.pairwise_cons] at hrest
    refine ⟨hxall y (by simp), ?_⟩
    intro z hzmem hlt
    rw [hz2, hafter] at hzmem
    simp only [List.mem_append, List.mem_cons] at hzmem
    rcases hzmem with hb | rfl | rfl | ha
    · have := hcross z hb x (by simp)
      rw [Std.OrientedCmp.gt_of_lt this] at hlt; cases hlt
    · have hr : cmp z z = .eq := Std.ReflCmp.compare_self
      rw [hr] at hlt; cases hlt
    · exact Or.inl rfl
    · exact Or.inr (hrest.1 z ha)

/-- in a search tree the key shown by `Prev` is the greatest key smaller than the current one -/
theorem prev_greatest_smaller (cmp : α → α → Ordering) [Std.TransCmp cmp] (p : Pos α) (hw : p.WF)
    (ho : Ordered cmp p.root) (x : α) (hx : key? (some p) = some x) (p' : Pos α) (y : α)
    (hn : prev (some p) = some p') (hy : key? (some p') = some y) :
    cmp y x = .lt ∧ ∀ z ∈ p.root.toList, cmp z x = .lt → z = y ∨ cmp z y = .lt := by
  obtain ⟨x', hx', hcase⟩ := prev_is_pred p hw
  rw [hx] at hx'; cases hx'
  obtain ⟨x2, hx2, hz2⟩ := zipper p hw
  rw [hx] at hx2; cases hx2
  rcases hcase with ⟨_, hnone⟩ | ⟨p'', y', hn', _, _, hy', hbefore, _⟩
  · rw [hn] at hnone; cases hnone
  · rw [hn] at hn'; cases hn'
    rw [hy] at hy'; cases hy'
    have hpw : ((p'.before ++ [y]) ++ x :: p.after).Pairwise (fun a b => cmp a b = .lt) := by
      have := ho; unfold Ordered at this; rw [hz2, hbefore] at this; exact this
    rw [List.pairwise_append] at hpw
    obtain ⟨hb, hcons, hcross⟩ := hpw
    rw [List.pairwise_append] at hb
    rw [List.pairwise_cons] at hcons
    refine ⟨hcross y (by simp) x (by simp), ?_⟩
    intro z hzmem hlt
    rw [hz2, hbefore] at hzmem
    simp only [List.mem_append, List.mem_cons, List.mem_singleton, List.not_mem_nil, or_false] at hzmem
    rcases hzmem with (hb' | rfl) | rfl | ha
    · exact Or.inr (hb.2.2 z hb' y (by simp))
    · exact Or.inl rfl
    · have hr : cmp z z = .eq := Std.ReflCmp.compare_self
      rw [hr] at hlt; cases hlt
    · have := hcons.1 z ha
      rw [Std.OrientedCmp.gt_of_lt this] at hlt; cases hlt

/-- **`HasNext`/`HasPrev`/`HasLeft`/`HasRight`/`HasParent` predict the validity of the move** -/
theorem has_predicts (c : Cursor α) :
    hasNext c = valid (next c) ∧ hasPrev c = valid (prev c) ∧ hasLeft c = valid (goLeft c) ∧
    hasRight c = valid (goRight c) ∧ hasParent c = valid (up c) := by
  refine ⟨hasNext_eq c, hasPrev_eq c, ?_, ?_, ?_⟩
  · cases c with
    | none => rfl
    | some p => simp only [hasLeft_def, goLeft_def]; cases isNil (left p.cur) <;> rfl
  · cases c with
    | none => rfl
    | some p => simp only [hasRight_def, goRight_def]; cases isNil (right p.cur) <;> rfl
  · cases c with
    | none => rfl
    | some p =>
      simp only [hasParent_def, up_def]
      cases h : p.dirs with
      | nil => simp [valid]
      | cons d ds => simp [valid]

/-- **every move keeps the cursor inside its tree**: whatever `Next/Prev/Left/Right/Up/Min/Max`
return from a well-formed position is invalid or a well-formed position of the same tree -/
theorem moves_stay_inside (p : Pos α) (hw : p.WF) :
    ∀ f ∈ [next, prev, goLeft, goRight, up, min, max], ∀ p', f (some p) = some p' → p'.WF ∧ p'.root = p.root := by
  obtain ⟨l, x, r, h⟩ := isNil_eq_false.mp hw
  intro f hf p' hp'
  simp only [List.mem_cons, List.not_mem_nil, or_false] at hf
  rcases hf with rfl | rfl | rfl | rfl | rfl | rfl | rfl
  · rcases next_spec p l r x h with ⟨_, hn⟩ | ⟨q, _, hn, h1, h2, _⟩
    · rw [hn] at hp'; cases hp'
    · rw [hn] at hp'; cases hp'; exact ⟨h1, h2⟩
  · rcases prev_spec p l r x h with ⟨_, hn⟩ | ⟨q, _, hn, h1, h2, _⟩
    · rw [hn] at hp'; cases hp'
    · rw [hn] at hp'; cases hp'; exact ⟨h1, h2⟩
  · rcases goLeft_spec p l r x h with ⟨_, hn⟩ | ⟨q, hn, h1, h2, _⟩
    · rw [hn] at hp'; cases hp'
    · rw [hn] at hp'; cases hp'; exact ⟨h1, h2⟩
  · rcases goRight_spec p l r x h with ⟨_, hn⟩ | ⟨q, hn, h1, h2, _⟩
    · rw [hn] at hp'; cases hp'
    · rw [hn] at hp'; cases hp'; exact ⟨h1, h2⟩
  · rcases up_spec p hw with ⟨_, hn⟩ | ⟨q, _, hn, h1, h2, _⟩
    · rw [hn] at hp'; cases hp'
    · rw [hn] at hp'; cases hp'; exact ⟨h1, h2⟩
  · obtain ⟨q, _, _, hn, h1, h2, _⟩ := min_spec p l r x h
    rw [hn] at hp'; cases hp'; exact ⟨h1, h2⟩
  · obtain ⟨q, _, _, hn, h1, h2, _⟩ := max_spec p l r x h
    rw [hn] at hp'; cases hp'; exact ⟨h1, h2⟩

/-- **`Left`/`Right`** go to the left / right child (invalid when there is none) -/
theorem left_right_spec (p : Pos α) (hw : p.WF) :
    ∃ l x r, p.cur = .node l x r ∧
      ((l = .nil ∧ goLeft (some p) = none) ∨
        ∃ p', goLeft (some p) = some p' ∧ p'.dirs = p.dirs ++ [.L] ∧ p'.cur = l) ∧
      ((r = .nil ∧ goRight (some p) = none) ∨
        ∃ p', goRight (some p) = some p' ∧ p'.dirs = p.dirs ++ [.R] ∧ p'.cur = r) := by
  obtain ⟨l, x, r, h⟩ := isNil_eq_false.mp hw
  refine ⟨l, x, r, h, ?_, ?_⟩
  · rcases goLeft_spec p l r x h with h1 | ⟨q, h1, _, _, h2, h3⟩
    · exact Or.inl h1
    · exact Or.inr ⟨q, h1, h2, h3⟩
  · rcases goRight_spec p l r x h with h1 | ⟨q, h1, _, _, h2, h3⟩
    · exact Or.inl h1
    · exact Or.inr ⟨q, h1, h2, h3⟩

/-- **everything reachable through `Left` is smaller, through `Right` larger than the cursor's
key**: every key of every subtree whose path continues the cursor's path with `L` (resp. `R`) -/
theorem below_left_right (cmp : α → α → Ordering) (p : Pos α) (hw : p.WF) (ho : Ordered cmp p.root)
    (x : α) (hx : key? (some p) = some x) (more : List Dir) :
    (∀ y ∈ (sub p.root (p.dirs ++ .L :: more)).toList, cmp y x = .lt) ∧
    (∀ y ∈ (sub p.root (p.dirs ++ .R :: more)).toList, cmp x y = .lt) := by
  obtain ⟨l, x', r, h⟩ := isNil_eq_false.mp hw
  have := key?_some h
  rw [hx] at this; cases this
  exact ⟨below_left_lt p ho l r x h more, below_right_gt p ho l r x h more⟩

/-- **`Up`**: invalid at the root, otherwise the parent: the old current node is its left or right
child, according to the step that is dropped from the path -/
theorem up_is_parent (p : Pos α) (hw : p.WF) :
    (p.dirs = [] ∧ up (some p) = none) ∨
    (∃ p' d, up (some p) = some p' ∧ p'.WF ∧ p'.root = p.root ∧ p.dirs = p'.dirs ++ [d] ∧
      (match d with | .L => left p'.cur | .R => right p'.cur) = p.cur) :=
  up_spec p hw

/-- **`Min`/`Max`** move to the first / last key of the cursor's subtree, down its left / right spine -/
theorem min_max_spec (p : Pos α) (hw : p.WF) :
    (∃ p' y r', min (some p) = some p' ∧ p'.dirs = p.dirs ++ spineL p.cur ∧ p'.cur = .node .nil y r' ∧
      p.cur.toList.head? = some y) ∧
    (∃ p' y l', max (some p) = some p' ∧ p'.dirs = p.dirs ++ spineR p.cur ∧ p'.cur = .node l' y .nil ∧
      p.cur.toList.getLast? = some y) := by
  obtain ⟨l, x, r, h⟩ := isNil_eq_false.mp hw
  obtain ⟨q, y, r', h1, _, _, h2, h3, h4⟩ := min_spec p l r x h
  obtain ⟨q2, y2, l', g1, _, _, g2, g3, g4⟩ := max_spec p l r x h
  exact ⟨⟨q, y, r', h1, h2, h3, h4⟩, ⟨q2, y2, l', g1, g2, g3, g4⟩⟩

/-- **the cursor's `Inorder` lists exactly the keys of its subtree**, which in a search tree is a
strictly ascending list -/
theorem inorder_subtree (cmp : α → α → Ordering) (p : Pos α) (ho : Ordered cmp p.root) :
    inorder (some p) none = p.cur.toList ∧ (inorder (some p) none).Pairwise (fun a b => cmp a b = .lt) := by
  rw [MdsVerif.Proofs.Cursor.inorder_subtree]
  exact ⟨rfl, ho.sub p.dirs⟩

/-- a consumer that stops early sees a prefix: `Inorder` stopped once it holds `j` keys yields the
first `max j 1` keys of the subtree (the consumer always receives the first key) -/
theorem inorder_stopped (p : Pos α) (stop : Option Nat) :
    inorder (some p) stop = MdsVerif.Spec.SortedSet.stopped stop p.cur.toList :=
  MdsVerif.Proofs.Cursor.inorder_stopped p stop

/-- the model's `Tree.Cursor` follows the very path C01's model of `node.pathTo` returns -/
theorem cursor_follows_pathTo (cmp : α → α → Ordering) (k : α) (t : Tree α) :
    pathTo cmp k t = ((List.range ((pathDirs cmp k t).length + 1)).map
      fun i => sub t ((pathDirs cmp k t).take i)).filter (fun u => !isNil u) :=
  pathTo_eq cmp k t

/-- **operations on an invalid or nil cursor are harmless no-ops yielding the zero key** -/
theorem invalid_noop [Inhabited α] :
    let c : Cursor α := none
    valid c = false ∧ key c = default ∧ key? c = none ∧
    next c = c ∧ prev c = c ∧ goLeft c = c ∧ goRight c = c ∧ up c = c ∧ min c = c ∧ max c = c ∧ clone c = c ∧
    hasNext c = false ∧ hasPrev c = false ∧ hasLeft c = false ∧ hasRight c = false ∧ hasParent c = false ∧
    ∀ stop, inorder c stop = [] := by
  refine ⟨rfl, rfl, rfl, rfl, rfl, rfl, rfl, rfl, rfl, rfl, rfl, rfl, rfl, rfl, rfl, rfl, fun _ => rfl⟩

/-- `Clone` is a copy (value semantics) -/
theorem clone_eq (c : Cursor α) : clone c = c := rfl

/-- **the hypotheses above hold in every reachable state**: after any history of tree operations
(New/Add/Replace/Remove/Clear/Clone with any β — the C01 model, run by the very `step` of the
driver) and cursor operations (Cursor(k), Root, nil, Clone, Next, Prev, Left, Right, Up, Min, Max,
queries), every cursor register is invalid or a well-formed position in a search tree.  So
`next_is_succ`, `next_least_greater`, `below_left_right`, … apply to every cursor any history
produces — on all tree shapes reachable by operation histories, for all sequences of moves. -/
theorem C03_reachable (cmp : α → α → Ordering) [Std.TransCmp cmp] (ops : List (MdsVerif.Model.Cursor.Op α)) :
    let s := ops.foldl (fun s op => (MdsVerif.Model.Cursor.step cmp (sortCompact cmp) s op).1) {}
    ∀ c cur, s.curs.get c = some cur →
      match cur with
      | none => True
      | some p => p.WF ∧ Ordered cmp p.root := by
  intro s c cur hg
  have := (inv_reachable cmp MdsVerif.Props.C01.sortCompact_spec ops).2 c cur hg
  cases cur with
  | none => trivial
  | some p => exact this

/-! ## the comparators the driver runs are total preorders -/

instance cmpNat_trans : Std.TransCmp MdsVerif.Drv.C03.cmpNat :=
  inferInstanceAs (Std.TransCmp (fun a b : Int => compare a b))
instance cmpDiv10_trans : Std.TransCmp MdsVerif.Drv.C03.cmpDiv10 :=
  MdsVerif.Props.C01.transCmp_on (compare : Int → Int → Ordering) (fun a : Int => a.tdiv 10)
instance drvCmp_trans (d : MdsVerif.Drv.C03.S) : Std.TransCmp d.cmp := by
  unfold MdsVerif.Drv.C03.S.cmp; split <;> infer_instance

/-- **C03_reachable for what the driver executes**: stream `C03` runs `Model.Cursor.step` with
`Drv.C03.S.cmp` (natural order on `int`, or order by `a / 10` with equivalent distinct keys) and
`sortCompact` of that comparator; in either mode every cursor register is invalid or a well-formed
position in a search tree after every history -/
theorem C03_reachable_drv (d : MdsVerif.Drv.C03.S) (ops : List (MdsVerif.Model.Cursor.Op Int)) :
    let s := ops.foldl (fun s op => (MdsVerif.Model.Cursor.step d.cmp (sortCompact d.cmp) s op).1) {}
    ∀ c cur, s.curs.get c = some cur →
      match cur with
      | none => True
      | some p => p.WF ∧ Ordered d.cmp p.root := by
  intro s c cur hg
  have h := C03_reachable d.cmp ops c cur hg
  cases cur with
  | none => trivial
  | some p => exact h

example : MdsVerif.Drv.C03.cmpDiv10 12 17 = .eq ∧ MdsVerif.Drv.C03.cmpDiv10 (-3) 7 = .eq ∧
    MdsVerif.Drv.C03.cmpNat 12 17 = .lt := by decide

/-! ## the facts regenerated from stree/cursor.go -/

/-- **C03_current.**  The facts regenerated from `stree/cursor.go` (`Gen.Cursor`, `extract/cursor.go`) are the
pinned ones, and the extractor recognised the statement skeleton of every method of `Cursor`.
`Model.Cursor` takes from these definitions: the child `findNext`/`findPrev` test first and the child link their
walk-up loops compare with, the direction in which `Next`/`Prev`/`Min`/`Max` descend, the child `Left`/`Right`/
`HasLeft`/`HasRight` look at, the `HasNext`/`HasPrev` formula, the truncation test and length of `Next`/`Prev`,
`HasParent`'s test and `Up`'s new length — so the theorems above are about the choices that are in the source
now.  The index expressions and bounds of the walk-up loop (`i := len(c.path) - 1`, `j := i - 1`, `for j >= 0`,
`j--`, `return nil, -1`), `Valid`'s length test and `Key`'s index are pinned here without being wired (the
model's `walkUp` is structural on the direction list).  A one-token change in any of them changes
`Gen/Cursor.lean` and this theorem (and the `*_def` lemmas of `Proofs.Cursor`) no longer compile. -/
theorem C03_current :
    Gen.Cursor.recognised = true ∧
    (∀ len, Gen.Cursor.validLen len = decide (len ≠ 0)) ∧
    (∀ len, Gen.Cursor.curIdx len = len - 1) ∧
    -- findNext, HasNext, Next
    (∀ len, Gen.Cursor.nextLast len = len - 1) ∧
    Gen.Cursor.nextChildIsLeft = false ∧
    Gen.Cursor.nextChildIdx = -1 ∧
    (∀ i, Gen.Cursor.nextWalkStart i = i - 1) ∧
    (∀ j, Gen.Cursor.nextWalkContinues j = decide (j ≥ 0)) ∧
    Gen.Cursor.nextWalkIsLeft = true ∧
    (∀ j, Gen.Cursor.nextWalkStep j = j - 1) ∧
    Gen.Cursor.nextNotFound = -1 ∧
    (∀ hasChild i, Gen.Cursor.hasNextOf hasChild i = (hasChild || decide (i ≥ 0))) ∧
    Gen.Cursor.nextDescendIsLeft = true ∧
    (∀ j, Gen.Cursor.nextTruncates j = decide (j ≥ 0)) ∧
    (∀ j, Gen.Cursor.nextTruncLen j = j + 1) ∧
    -- findPrev, HasPrev, Prev
    (∀ len, Gen.Cursor.prevLast len = len - 1) ∧
    Gen.Cursor.prevChildIsLeft = true ∧
    Gen.Cursor.prevChildIdx = -1 ∧
    (∀ i, Gen.Cursor.prevWalkStart i = i - 1) ∧
    (∀ j, Gen.Cursor.prevWalkContinues j = decide (j ≥ 0)) ∧
    Gen.Cursor.prevWalkIsLeft = false ∧
    (∀ j, Gen.Cursor.prevWalkStep j = j - 1) ∧
    Gen.Cursor.prevNotFound = -1 ∧
    (∀ hasChild i, Gen.Cursor.hasPrevOf hasChild i = (hasChild || decide (i ≥ 0))) ∧
    Gen.Cursor.prevDescendIsLeft = false ∧
    (∀ j, Gen.Cursor.prevTruncates j = decide (j ≥ 0)) ∧
    (∀ j, Gen.Cursor.prevTruncLen j = j + 1) ∧
    -- HasLeft/Left, HasRight/Right, HasParent/Up, Min/Max
    Gen.Cursor.hasLeftIsLeft = true ∧ Gen.Cursor.leftIsLeft = true ∧
    Gen.Cursor.hasRightIsLeft = false ∧ Gen.Cursor.rightIsLeft = false ∧
    (∀ len, Gen.Cursor.hasParentTest len = decide (len > 1)) ∧
    (∀ len, Gen.Cursor.upLen len = len - 1) ∧
    Gen.Cursor.minIsLeft = true ∧ Gen.Cursor.maxIsLeft = false :=
  ⟨rfl, fun _ => rfl, fun _ => rfl,
   fun _ => rfl, rfl, rfl, fun _ => rfl, fun _ => rfl, rfl, fun _ => rfl, rfl, fun _ _ => rfl, rfl, fun _ => rfl,
   fun _ => rfl,
   fun _ => rfl, rfl, rfl, fun _ => rfl, fun _ => rfl, rfl, fun _ => rfl, rfl, fun _ _ => rfl, rfl, fun _ => rfl,
   fun _ => rfl,
   rfl, rfl, rfl, rfl, fun _ => rfl, fun _ => rfl, rfl, rfl⟩

/-! ## non-vacuity: a skewed search tree `4 → (1 → · , 3 → (2)) , 5` walked with the model -/

def t5 : Tree Nat :=
  .node (.node .nil 1 (.node (.node .nil 2 .nil) 3 .nil)) 4 (.node .nil 5 .nil)

def natCmp (a b : Nat) : Ordering := compare a b

example : t5.toList = [1, 2, 3, 4, 5] := by decide
-- `Cursor(3)` is valid and shows 3; `Cursor(7)` is nil
example : key? (ofKey natCmp t5 3) = some 3 ∧ valid (ofKey natCmp t5 7) = false := by decide
-- Next from 3 walks up two levels to 4; from 1 it descends to 2; from 5 it falls off
example : key? (next (ofKey natCmp t5 3)) = some 4 ∧ key? (next (ofKey natCmp t5 1)) = some 2 ∧
    next (ofKey natCmp t5 5) = none := by decide
-- Prev from 4 descends to 3, from 2 walks up two levels to 1, from 1 falls off
example : key? (prev (ofKey natCmp t5 4)) = some 3 ∧ key? (prev (ofKey natCmp t5 2)) = some 1 ∧
    prev (ofKey natCmp t5 1) = none := by decide
-- the decomposition at 3
example : (ofKey natCmp t5 3).map Pos.before = some [1, 2] ∧ (ofKey natCmp t5 3).map Pos.after = some [4, 5] := by
  decide
-- Inorder of the cursor at 1 lists its subtree; Up from the root invalidates; Min/Max of the root
example : inorder (ofKey natCmp t5 1) none = [1, 2, 3] ∧ up (ofRoot t5) = none ∧
    key? (min (ofRoot t5)) = some 1 ∧ key? (max (ofRoot t5)) = some 5 := by decide

end MdsVerif.Props.C03
