import MdsVerif.Proofs.Distinct
import MdsVerif.Gen.Distinct
import Mathlib.Data.Finset.Card
/-!
# C19 — `distinct.Counter` is exact below capacity, bounded (with recorded finding F8), and unbiased above it

All theorems are about `Model.Distinct.add/step/run`, the functions the driver
stream `C19` executes, for **every** script of random words, **every** visiting
order of the halving pass (every oracle, including non-permutations, which the
model ignores), every buffer size, every value stream and both polarities of
the low-bit test (`keepOne`).

* `C19_exact_regime`, `C19_reset_restores` — the exact regime;
* `C19_count_shape` — `Count = Len·2^k`, `k` monotone, bounded by 64;
* `C19_len_bound_conditional`, `C19_len_bound_run` — `Len ≤ size` **unless a
  halving pass kept every element**; `C19_F8_witness` — the recorded history on
  which `Len = 3 > 2` (known finding F8: one halving pass, `if` not `for`);
* `C19_current` — the facts regenerated from distinct.go are the pinned ones;
* unbiasedness: see `Props/C19Exp.lean` (`C19_unbiased`, `C19_bias_bound`).
-/
namespace MdsVerif.Props.C19
open MdsVerif.Model.Distinct MdsVerif.Proofs.Distinct

/-- the number of distinct values of a stream, as the length of the first-occurrence list -/
theorem seen_card (vs : List Nat) : (seenFrom [] vs).length = vs.toFinset.card := by
  rw [← List.toFinset_card_of_nodup (seenFrom_nodup vs [] List.nodup_nil)]
  congr 1
  ext x
  simp [mem_seenFrom]

/-- **Exact regime.**  From a fresh (or freshly `Reset`) counter of any size (a Go `int`, so `≤ 2^63`), any
    history of `Add`s — any values, repeated in any pattern, any scripted words, any iteration orders —
    whose number of distinct values is below the size: no random word is drawn by any call, no halving pass
    runs, `k` stays `0`, the buffer holds exactly the distinct values, and `Count = Len =` the exact number
    of distinct values.  (The hypothesis is prefix-closed, so this holds after every call of the history.) -/
theorem C19_exact_regime (keepOne : Bool) (size : Nat) (hsize : size ≤ 2 ^ 63) (ops : List Op)
    (hadds : allAdds ops) (hbelow : (valsOf ops).toFinset.card < size) :
    let s := run keepOne (new size) ops
    s.k = 0 ∧ s.count = (valsOf ops).toFinset.card ∧ s.len = (valsOf ops).toFinset.card ∧
    (∀ x, x ∈ s.buf ↔ x ∈ valsOf ops) ∧ s.buf.Nodup ∧
    ∀ o ∈ outs keepOne (new size) ops, o.2.used = 0 ∧ o.2.halved = false ∧ o.1.k = 0 := by
  have hl : (seenFrom (new size).buf (valsOf ops)).length < (new size).cap := by
    show (seenFrom [] (valsOf ops)).length < size
    rw [seen_card]; exact hbelow
  obtain ⟨hrun, houts⟩ := run_exact keepOne ops (new size) hadds rfl hl
  have hlen : (seenFrom [] (valsOf ops)).length = (valsOf ops).toFinset.card := seen_card _
  intro s
  have hs : s = { new size with buf := seenFrom [] (valsOf ops) } := hrun
  have hk : s.k = 0 := by rw [hs]; rfl
  have hbuf : s.buf = seenFrom [] (valsOf ops) := by rw [hs]
  refine ⟨hk, ?_, by show s.buf.length = _; rw [hbuf]; exact hlen, ?_, ?_, ?_⟩
  · rw [count_eq, hk, hbuf, if_pos (by decide), Nat.pow_zero, Nat.mul_one, hlen]
    apply Nat.mod_eq_of_lt
    calc _ < size := hbelow
      _ ≤ 2 ^ 63 := hsize
      _ < 2 ^ 64 := by decide
  · intro x; rw [hbuf]
    simp [mem_seenFrom]
  · rw [hbuf]; exact seenFrom_nodup _ _ List.nodup_nil
  · intro o ho
    obtain ⟨h1, h2⟩ := houts o ho
    rw [h1]; exact ⟨rfl, rfl, h2⟩

/-- non-vacuity: size 4, stream 7 7 9 7 9 8 (3 distinct values, repeated, interleaved) -/
example : (run true (new 4) [.add 7 [1] [], .add 7 [] [], .add 9 [5, 5] [9], .add 7 [] [], .add 9 [] [], .add 8 [] []]).count = 3 := by
  decide

/-- **Reset restores the exact regime**: after `Reset` the state is that of a fresh counter of the same size
    (so `C19_exact_regime` applies again). -/
theorem C19_reset_restores (keepOne : Bool) (s : St) : (step keepOne s .reset).1 = new s.cap := rfl

/-- **Count's shape.**  In every state `Count = Len · 2^k` as a `uint64` (it is `0` once `k = 64`, where the
    threshold `p` is `0` and Go's `1 << 64` is `0`), exactly `Len · 2^k` when that fits 64 bits; the threshold is
    `p = 2^(64-k) − 1`; an `Add` never decreases `k`, increases it by exactly one when a halving pass runs and
    not otherwise; `k ≤ 64` is preserved; only `Reset` returns to `k = 0`. -/
theorem C19_count_shape (keepOne : Bool) (s : St) (v : Nat) (ws ord : List Nat) :
    (s.count = if s.k < 64 then (s.len * 2 ^ s.k) % 2 ^ 64 else 0) ∧
    (s.len * 2 ^ s.k < 2 ^ 64 → s.k < 64 → s.count = s.len * 2 ^ s.k) ∧
    (s.k ≤ 64 → pOf s.k + 1 = 2 ^ (64 - s.k)) ∧
    s.k ≤ (add keepOne s v ws ord).1.k ∧
    (add keepOne s v ws ord).1.k = (if (add keepOne s v ws ord).2.halved then s.k + 1 else s.k) ∧
    (s.k ≤ 64 → (add keepOne s v ws ord).1.k ≤ 64) ∧
    (step keepOne s .reset).1.k = 0 := by
  refine ⟨count_eq s, ?_, fun h => pOf_succ_eq s.k (by omega), add_k_mono .., add_k_eq ..,
    fun h => add_k_le_64 keepOne s v ws ord h, rfl⟩
  intro h1 h2
  rw [count_eq, if_pos h2]
  exact Nat.mod_eq_of_lt h1

/-- `k ≤ 64` in every reachable state -/
theorem C19_k_le_64 (keepOne : Bool) (size : Nat) (ops : List Op) : (run keepOne (new size) ops).k ≤ 64 :=
  run_k_le_64 keepOne ops (new size) (Nat.zero_le _)

/-- non-vacuity: two halvings at size 2, `Count = 2 · 2^2` -/
example : (run true (new 2) [.add 1 [] [], .add 2 [3] [1, 2], .add 3 [0, 3] [1, 2, 3]]).count = 8 := by decide

/-- **Len bound, conditional (known finding F8).**  If `Len ≤ size` before an `Add`, then after it `Len ≤ size`
    **unless** a halving pass ran and kept every element. -/
theorem C19_len_bound_conditional (keepOne : Bool) (s : St) (v : Nat) (ws ord : List Nat)
    (h : s.len ≤ s.cap) :
    (add keepOne s v ws ord).1.len ≤ s.cap ∨
      ((add keepOne s v ws ord).2.halved = true ∧ (add keepOne s v ws ord).2.keptAll = true) :=
  add_len_bound keepOne s v ws ord h

/-- … hence along every history (with `Reset`s) from a fresh counter: as long as no halving pass keeps every
    element, `Len ≤ size` after every call. -/
theorem C19_len_bound_run (keepOne : Bool) (size : Nat) (ops : List Op)
    (h : ∀ o ∈ outs keepOne (new size) ops, o.2.keptAll = false) :
    ∀ o ∈ outs keepOne (new size) ops, o.1.len ≤ size :=
  run_len_bound keepOne ops (new size) (Nat.zero_le _) h

/-- non-vacuity: a halving pass that drops an element keeps `Len ≤ size` -/
example : (run true (new 2) [.add 1 [] [], .add 2 [1] [1, 2], .add 3 [0, 3] [1, 3]]).len = 2 := by decide

/-
Full-strength statement that the property text asks for and that is FALSE for the code as it is
(`C19_F8_witness`):
  theorem len_bound_full (keepOne size ops) : ∀ o ∈ outs keepOne (new size) ops, o.1.len ≤ size
-/

/-- **F8 witness** (corpus/C19/F8.ops): size 2; `Add 1` draws nothing; `Add 2` fills the buffer, its halving
    pass draws `0b11` and keeps both; `Add 3` draws `0` for the coin (kept: `0 < p`) and `0b111` for the
    halving pass, which keeps all three: `Len = 3 > 2`, with 2 words drawn by the last call. -/
theorem C19_F8_witness :
    let ops := [Op.add 1 [] [], .add 2 [3] [1, 2], .add 3 [0, 7] [1, 2, 3]]
    (run true (new 2) ops).len = 3 ∧ ¬ (∀ o ∈ outs true (new 2) ops, o.1.len ≤ 2) ∧
    (outs true (new 2) ops).map (·.2.used) = [0, 1, 2] := by
  decide

/-- the defect does not depend on the polarity of the low-bit test -/
theorem C19_F8_any_polarity (keepOne : Bool) :
    ∃ ops, (run keepOne (new 2) ops).len = 3 := by
  cases keepOne
  · exact ⟨[.add 1 [] [], .add 2 [0] [1, 2], .add 3 [0, 0] [1, 2, 3]], by decide⟩
  · exact ⟨[.add 1 [] [], .add 2 [3] [1, 2], .add 3 [0, 7] [1, 2, 3]], by decide⟩

/-- The obligation on the *current* distinct.go (facts regenerated by `extract/distinct.go` on every run):
    the guards of `Counter.Add` are the ones the model mirrors — capacity test `>=`, a single halving pass
    (`if`; this is F8), `p >>= 1`, coin dropped on `word >= p`, coin only when `p < MaxUint64`, one bit per
    element — and the low-bit polarity is one of the two (equivalent) spellings, the one the driver passes to
    the model.  Any other value breaks this theorem. -/
theorem C19_current :
    Gen.Distinct.recognised = true ∧ Gen.Distinct.capOp = ">=" ∧ Gen.Distinct.halvingIsLoop = false ∧
    Gen.Distinct.pShift = 1 ∧ Gen.Distinct.coinDropOp = ">=" ∧ Gen.Distinct.coinGuardOp = "<" ∧
    ((Gen.Distinct.removeBit = 0 ∧ Gen.Distinct.keepOne = true) ∨
     (Gen.Distinct.removeBit = 1 ∧ Gen.Distinct.keepOne = false)) := by
  decide

end MdsVerif.Props.C19
