import MdsVerif.Proofs.Distinct
import MdsVerif.Proofs.DistinctExp
import MdsVerif.Gen.Distinct
import Mathlib.Data.Finset.Card
/-!
# C19 — `distinct.Counter` is exact below capacity, bounded (with recorded finding F8), and unbiased above it

All theorems are about `Model.Distinct.add/step/run`, the functions the driver
stream `C19` executes, for **every** script of random words, **every** visiting
order of the halving pass (every oracle, including non-permutations, which the
model ignores), every buffer size, every value stream and both polarities of
the low-bit test (`keepOne`).

* `C19_exact_regime`, `C19_reset_restores` — the exact regime;
* `C19_count_shape` — `Count = Len·2^k`, `k` monotone, bounded by 64;
* `C19_len_bound_conditional`, `C19_len_bound_run` — `Len ≤ size` **unless a
  halving pass kept every element**; `C19_len_bound_unconditional` — always `Len ≤ size + k ≤ size + 64`
  and `Len ≤ size +` (number of keep-all passes); `C19_F8_witness` — the recorded history on
  which `Len = 3 > 2` (known finding F8: one halving pass, `if` not `for`);
* `C19_current` — the facts regenerated from distinct.go are the pinned ones;
* unbiasedness as an exact expectation in the idealised probabilistic semantics `addD`/`runD`
  (`Proofs/DistinctExp.lean`; NOT the executable `add`: the two share state, `ins`/`erase`, capacity test and
  single halving pass, and are linked only by the coin-fraction lemma `C19_coin_fraction`): `C19_unbiased_per_value`, `C19_unbiased`, `C19_coin_fraction`,
  `C19_bias_bound_partial`.
-/
namespace MdsVerif.Props.C19
open MdsVerif.Model.Distinct MdsVerif.Proofs.Distinct

/-- the number of distinct values of a stream, as the length of the first-occurrence list -/
theorem seen_card (vs : List Nat) : (seenFrom [] vs).length = vs.toFinset.card := by
  rw [← List.toFinset_card_of_nodup (seenFrom_nodup vs [] List.nodup_nil)]
  congr 1
  ext x
  simp [mem_seenFrom]

/-- **Exact regime.**  From a fresh (or freshly `Reset`) counter of any size (a Go `int`, so `≤ 2^63`), any
    history of `Add`s — any values, repeated in any pattern, any scripted words, any iteration orders —
    whose number of distinct values is below the size: no random word is drawn by any call, no halving pass
    runs, `k` stays `0`, the buffer holds exactly the distinct values, and `Count = Len =` the exact number
    of distinct values.  (The hypothesis is prefix-closed, so this holds after every call of the history.) -/
theorem C19_exact_regime (keepOne : Bool) (size : Nat) (hsize : size ≤ 2 ^ 63) (ops : List Op)
    (hadds : allAdds ops) (hbelow : (valsOf ops).toFinset.card < size) :
    let s := run keepOne (new size) ops
    s.k = 0 ∧ s.count = (valsOf ops).toFinset.card ∧ s.len = (valsOf ops).toFinset.card ∧
    (∀ x, x ∈ s.buf ↔ x ∈ valsOf ops) ∧ s.buf.Nodup ∧
    ∀ o ∈ outs keepOne (new size) ops, o.2.used = 0 ∧ o.2.halved = false ∧ o.1.k = 0 := by
  have hl : (seenFrom (new size).buf (valsOf ops)).length < (new size).cap := by
    show (seenFrom [] (valsOf ops)).length < size
    rw [seen_card]; exact hbelow
  obtain ⟨hrun, houts⟩ := run_exact keepOne ops (new size) hadds rfl hl
  have hlen : (seenFrom [] (valsOf ops)).length = (valsOf ops).toFinset.card := seen_card _
  intro s
  have hs : s = { new size with buf := seenFrom [] (valsOf ops) } := hrun
  have hk : s.k = 0 := by rw [hs]; rfl
  have hbuf : s.buf = seenFrom [] (valsOf ops) := by rw [hs]
  refine ⟨hk, ?_, by show s.buf.length = _; rw [hbuf]; exact hlen, ?_, ?_, ?_⟩
  · rw [count_eq, hk, hbuf, if_pos (by decide), Nat.pow_zero, Nat.mul_one, hlen]
    apply Nat.mod_eq_of_lt
    calc _ < size := hbelow
      _ ≤ 2 ^ 63 := hsize
      _ < 2 ^ 64 := by decide
  · intro x; rw [hbuf]
    simp [mem_seenFrom]
  · rw [hbuf]; exact seenFrom_nodup _ _ List.nodup_nil
  · intro o ho
    obtain ⟨h1, h2⟩ := houts o ho
    rw [h1]; exact ⟨rfl, rfl, h2⟩

/-- non-vacuity: size 4, stream 7 7 9 7 9 8 (3 distinct values, repeated, interleaved) -/
example : (run true (new 4) [.add 7 [1] [], .add 7 [] [], .add 9 [5, 5] [9], .add 7 [] [], .add 9 [] [], .add 8 [] []]).count = 3 := by
  decide

/-- **Reset restores the exact regime**: after `Reset` the state is that of a fresh counter of the same size
    (so `C19_exact_regime` applies again). -/
theorem C19_reset_restores (keepOne : Bool) (s : St) : (step keepOne s .reset).1 = new s.cap := rfl

/-- **Count's shape.**  In every state `Count = Len · 2^k` as a `uint64` (it is `0` once `k = 64`, where the
    threshold `p` is `0` and Go's `1 << 64` is `0`), exactly `Len · 2^k` when that fits 64 bits; the threshold is
    `p = 2^(64-k) − 1`; an `Add` never decreases `k`, increases it by exactly one when a halving pass runs and
    not otherwise; `k ≤ 64` is preserved; only `Reset` returns to `k = 0`. -/
theorem C19_count_shape (keepOne : Bool) (s : St) (v : Nat) (ws ord : List Nat) :
    (s.count = if s.k < 64 then (s.len * 2 ^ s.k) % 2 ^ 64 else 0) ∧
    (s.len * 2 ^ s.k < 2 ^ 64 → s.k < 64 → s.count = s.len * 2 ^ s.k) ∧
    (s.k ≤ 64 → pOf s.k + 1 = 2 ^ (64 - s.k)) ∧
    s.k ≤ (add keepOne s v ws ord).1.k ∧
    (add keepOne s v ws ord).1.k = (if (add keepOne s v ws ord).2.halved then s.k + 1 else s.k) ∧
    (s.k ≤ 64 → (add keepOne s v ws ord).1.k ≤ 64) ∧
    (step keepOne s .reset).1.k = 0 := by
  refine ⟨count_eq s, ?_, fun h => pOf_succ_eq s.k (by omega), add_k_mono .., add_k_eq ..,
    fun h => add_k_le_64 keepOne s v ws ord h, rfl⟩
  intro h1 h2
  rw [count_eq, if_pos h2]
  exact Nat.mod_eq_of_lt h1

/-- `k ≤ 64` in every reachable state -/
theorem C19_k_le_64 (keepOne : Bool) (size : Nat) (ops : List Op) : (run keepOne (new size) ops).k ≤ 64 :=
  run_k_le_64 keepOne ops (new size) (Nat.zero_le _)

/-- non-vacuity: two halvings at size 2, `Count = 2 · 2^2` -/
example : (run true (new 2) [.add 1 [] [], .add 2 [3] [1, 2], .add 3 [0, 3] [1, 2, 3]]).count = 8 := by decide

/-- **Len bound, conditional (known finding F8).**  If `Len ≤ size` before an `Add`, then after it `Len ≤ size`
    **unless** a halving pass ran and kept every element. -/
theorem C19_len_bound_conditional (keepOne : Bool) (s : St) (v : Nat) (ws ord : List Nat)
    (h : s.len ≤ s.cap) :
    (add keepOne s v ws ord).1.len ≤ s.cap ∨
      ((add keepOne s v ws ord).2.halved = true ∧ (add keepOne s v ws ord).2.keptAll = true) :=
  add_len_bound keepOne s v ws ord h

/-- … hence along every history (with `Reset`s) from a fresh counter: as long as no halving pass keeps every
    element, `Len ≤ size` after every call. -/
theorem C19_len_bound_run (keepOne : Bool) (size : Nat) (ops : List Op)
    (h : ∀ o ∈ outs keepOne (new size) ops, o.2.keptAll = false) :
    ∀ o ∈ outs keepOne (new size) ops, o.1.len ≤ size :=
  run_len_bound keepOne ops (new size) (Nat.zero_le _) h

/-- non-vacuity: a halving pass that drops an element keeps `Len ≤ size` -/
example : (run true (new 2) [.add 1 [] [], .add 2 [1] [1, 2], .add 3 [0, 3] [1, 3]]).len = 2 := by decide

/-- **Len bound, unconditional.**  For every size, every history of `Add`s and `Reset`s from a fresh counter,
    every script of random words and every visiting order — no hypothesis on what the halving passes kept —
    after every call (the history is arbitrary, so this is every prefix):
    `Len ≤ size + k`, where `k ≤ 64` is the number of halving passes since construction/`Reset`
    (`Count = Len·2^k`), hence `Len ≤ size + 64` always; and more sharply `Len ≤ size +` the number of halving
    passes of the history that kept every element (so `C19_len_bound_run` is the case where that number
    is 0, and F8 is exactly the possibility of it being positive). -/
theorem C19_len_bound_unconditional (keepOne : Bool) (size : Nat) (ops : List Op) :
    let s := run keepOne (new size) ops
    s.len ≤ size + s.k ∧ s.k ≤ 64 ∧ s.len ≤ size + 64 ∧
    s.len ≤ size + keptAllCount (outs keepOne (new size) ops) := by
  intro s
  have h1 : s.len ≤ size + s.k := run_len_le_k keepOne ops (new size) (Nat.zero_le _)
  have h2 : s.k ≤ 64 := run_k_le_64 keepOne ops (new size) (Nat.zero_le _)
  have h3 : s.len ≤ size + 0 + keptAllCount (outs keepOne (new size) ops) :=
    run_len_excess keepOne ops (new size) 0 (Nat.zero_le _)
  exact ⟨h1, h2, by omega, by omega⟩

/-- non-vacuity: on the F8 history the bounds are attained with `k = 2` and two keep-all passes:
    `Len = 3 = size + 1`, within `size + k = 4` and `size + keptAllCount = 4` -/
example :
    let ops := [Op.add 1 [] [], .add 2 [3] [1, 2], .add 3 [0, 7] [1, 2, 3]]
    (run true (new 2) ops).len = 3 ∧ (run true (new 2) ops).k = 2 ∧ keptAllCount (outs true (new 2) ops) = 2 := by
  decide

/-
Full-strength statement that the property text asks for and that is FALSE for the code as it is
(`C19_F8_witness`):
  theorem len_bound_full (keepOne size ops) : ∀ o ∈ outs keepOne (new size) ops, o.1.len ≤ size
-/

/-- **F8 witness** (corpus/C19/F8.ops): size 2; `Add 1` draws nothing; `Add 2` fills the buffer, its halving
    pass draws `0b11` and keeps both; `Add 3` draws `0` for the coin (kept: `0 < p`) and `0b111` for the
    halving pass, which keeps all three: `Len = 3 > 2`, with 2 words drawn by the last call. -/
theorem C19_F8_witness :
    let ops := [Op.add 1 [] [], .add 2 [3] [1, 2], .add 3 [0, 7] [1, 2, 3]]
    (run true (new 2) ops).len = 3 ∧ ¬ (∀ o ∈ outs true (new 2) ops, o.1.len ≤ 2) ∧
    (outs true (new 2) ops).map (·.2.used) = [0, 1, 2] := by
  decide

/-- the defect does not depend on the polarity of the low-bit test -/
theorem C19_F8_any_polarity (keepOne : Bool) :
    ∃ ops, (run keepOne (new 2) ops).len = 3 := by
  cases keepOne
  · exact ⟨[.add 1 [] [], .add 2 [0] [1, 2], .add 3 [0, 0] [1, 2, 3]], by decide⟩
  · exact ⟨[.add 1 [] [], .add 2 [3] [1, 2], .add 3 [0, 7] [1, 2, 3]], by decide⟩

/-- The obligation on the *current* distinct.go (facts regenerated by `extract/distinct.go` on every run):
    the guards of `Counter.Add` are the ones the model mirrors — capacity test `>=`, a single halving pass
    (`if`; this is F8), `p >>= 1`, coin dropped on `word >= p`, coin only when `p < MaxUint64`, one bit per
    element — and the low-bit polarity is one of the two (equivalent) spellings, the one the driver passes to
    the model.  Any other value breaks this theorem. -/
theorem C19_current :
    Gen.Distinct.recognised = true ∧ Gen.Distinct.capOp = ">=" ∧ Gen.Distinct.halvingIsLoop = false ∧
    Gen.Distinct.pShift = 1 ∧ Gen.Distinct.coinDropOp = ">=" ∧ Gen.Distinct.coinGuardOp = "<" ∧
    ((Gen.Distinct.removeBit = 0 ∧ Gen.Distinct.keepOne = true) ∨
     (Gen.Distinct.removeBit = 1 ∧ Gen.Distinct.keepOne = false)) ∧
    Gen.Distinct.newCap = "size" ∧ Gen.Distinct.newP = "math.MaxUint64" ∧
    Gen.Distinct.newBuf = "make(mapset.Set[T])" ∧ Gen.Distinct.newRng = "rand.NewChaCha8(seed)" := by
  decide

/-! ## Unbiasedness (idealised probabilistic semantics: independent uniform words)

`runD q (new size) vs` is the finite distribution (`List (ℚ × St)`) over final states obtained by replacing
"the next scripted word" in `Model.Distinct.add` by a coin with keep-probability `q k` at level `k ≥ 1` and
one fair bit per buffered element in the halving pass; `E d f` is the expectation of `f`;
`countQ s = 2^k · Len` is `Count` without the `uint64` wrap (`C19_countQ_is_count`). -/
open MdsVerif.Proofs.DistinctExp

/-- `countQ` is the model's `Count` whenever `Len·2^k` fits a `uint64` -/
theorem C19_countQ_is_count (s : St) (h1 : s.k < 64) (h2 : s.len * 2 ^ s.k < 2 ^ 64) :
    countQ s = (s.count : ℚ) := by
  rw [(C19_count_shape true s 0 [] []).2.1 h2 h1]
  unfold countQ St.len
  push_cast
  ring

/-- **Per value.**  With exact `2^-k` coins, for every stream, every size, every start state with a
    duplicate-free buffer and every value `x`: `E[2^k·1_{x ∈ buf}]` is `1` if `x` occurs in the stream and
    keeps its initial value otherwise. -/
theorem C19_unbiased_per_value (q : Nat → ℚ) (hq : ∀ k, k ≠ 0 → 2 ^ k * q k = 1) (x : Nat)
    (vs : List Nat) (s : St) (hnd : s.buf.Nodup) :
    E (runD q s vs) (phi x) = if x ∈ vs then 1 else phi x s :=
  run_phi q hq x vs s hnd

/-- **E[Count] = D.**  With exact `2^-k` coins the expectation of `Count = Len·2^k` after any stream
    (any values, any repetition pattern, any length) on a counter of any size equals the number of distinct
    values of the stream — below, at and far above the buffer size, F8 notwithstanding. -/
theorem C19_unbiased (q : Nat → ℚ) (hq : ∀ k, k ≠ 0 → 2 ^ k * q k = 1) (size : Nat) (vs : List Nat) :
    E (runD q (new size) vs) countQ = (vs.toFinset.card : ℚ) :=
  unbiased q hq size vs

/-- non-vacuity: `q k = 1/2^k` satisfies the hypothesis; size 2, stream 5 5 7 9 7 (96 outcomes; `#eval` gives 3) -/
example : E (runD (fun k => 1 / 2 ^ k) (new 2) [5, 5, 7, 9, 7]) countQ = 3 := by
  have h := C19_unbiased (fun k => 1 / 2 ^ k) (fun k _ => by field_simp) 2 [5, 5, 7, 9, 7]
  rw [h]
  decide

/-- The code's coin: the keep-probability at level `k` is `qFix k = pOf k / 2^64`, because exactly `pOf k` of
    the `2^64` words fail the model's drop test `pOf k ≤ word`; and `2^k·qFix k = 1 − 2^k/2^64` for
    `1 ≤ k ≤ 64` (the fixed-point threshold is `2^(64-k) − 1`, one short of `2^(64-k)`). -/
theorem C19_coin_fraction (k : Nat) :
    ((Finset.range (2 ^ 64)).filter (fun w => ¬ pOf k ≤ w)).card = pOf k ∧
    (k ≤ 64 → g qFix k = if k = 0 then 1 else 1 - 2 ^ k / 2 ^ 64) :=
  ⟨coin_fraction k, g_qFix k⟩

/-
Full-strength statement planned in DESIGN.md §6 (not proved):
  for every stream with D distinct values on whose (positive-probability) paths at most K halving passes
  happen,  D·(1 − 2^(K−64)) ≤ E[Count] ≤ D.
-/
/-- **Two-sided bound for the code's fixed-point coin — partial.**  `E[Count] ≤ D` for every stream (the
    estimator never over-estimates in expectation), and `D·(1 − 2^n/2^64) ≤ E[Count]` where `n` is the number
    of `Add`s.  What is missing w.r.t. the planned statement: the lower bound is in terms of the stream length
    `n` (every `Add` raises `k` by at most one) instead of the number `K` of halving passes, so it is
    informative only for `n < 64`; a bound through `E[2^k]` needs a maximal inequality that is not formalised.
    The exact per-value identity behind it is proved: an `Add` of `x` at level `k` resets `E[2^k·1_{x∈buf}]`
    to `1 − 2^k/2^64` (`step_self`, `C19_coin_fraction`) and other `Add`s leave it unchanged (`step_other`). -/
theorem C19_bias_bound_partial (size : Nat) (vs : List Nat) :
    (vs.toFinset.card : ℚ) * (1 - 2 ^ vs.length / 2 ^ 64) ≤ E (runD qFix (new size) vs) countQ ∧
    E (runD qFix (new size) vs) countQ ≤ (vs.toFinset.card : ℚ) :=
  bias_bound size vs

/-- non-vacuity: the bias is real — size 2, stream 5 5 7 9 7: `E[Count] < 3` (evaluated: `3 − 5·2^-64·…`) -/
example : (3 : ℚ) * (1 - 2 ^ 5 / 2 ^ 64) ≤ E (runD qFix (new 2) [5, 5, 7, 9, 7]) countQ := by
  have h := (C19_bias_bound_partial 2 [5, 5, 7, 9, 7]).1
  have hc : ([5, 5, 7, 9, 7] : List Nat).toFinset.card = 3 := by decide
  rw [hc] at h
  exact h

end MdsVerif.Props.C19
