import MdsVerif.Proofs.MdiffFmt
import MdsVerif.Spec.Mdiff
import MdsVerif.Spec.DiffApply
/-!
# C14 — the text formats of `mdiff` round-trip and mean what GNU diff/patch say they mean

All statements are about `MdsVerif.Model.MdiffFmt` (the writers `normal`, `unified`, `context`
and the readers `read`, `readUnified`, `readGitPatch` that the driver streams `C14.*` execute)
instantiated with the facts regenerated from the Go sources (`Gen.MdiffFmt`), and about the
independent reference appliers of `Spec.DiffApply`.

Recorded defects carried by the model (`known_findings.json`): **F5** — `parseSpan` returns the
count 0 for a range written without count, so every range of exactly one line comes back empty
from `ReadUnified` (`unified_range_F5`, `C14_F5_witness`); **F6** — `uspan` spells an empty range
`start,0` where POSIX/GNU spell it `start-1,0`; it matters for an empty LEFT range, the insertion
point (`C14_F6_witness`), not for an empty right range, where nothing is written.

Reading of the round-trip clause (agreed): it is about texts with at least one hunk.  For the
empty diff (`Left = Right`) `Unified` writes nothing and `ReadUnified("")` answers
"diff header: EOF" (`readUnified_empty`); that is an observation, not a failure.

Proved here: the token layer (`lex_print_lines`, `lex_print_number`, `lex_print_range`,
`lex_print_urange`, `lex_print_command`), `normal_roundtrip` (full), the general form of F5 on
ranges, the two witnesses, `C14_current`.  The other C14 theorems are in their own modules:
`Props/C14u.lean` (`unified_roundtrip_partial`: ReadUnified ∘ Unified incl. header names and
timestamps, under "no range of length 1"), `Props/C14g.lean` (`git_roundtrip_partial`:
ReadGitPatch on git-style wrappers), `Props/C14a.lean` (`apply_normal_*`, `apply_context_*` — full,
for `New` and for `New.AddContext(n).Unify()` — and `apply_unified_*_partial` under "no empty
LEFT range").
-/
namespace MdsVerif.Props.C14
open MdsVerif.Model.Edit MdsVerif.Model.Mdiff MdsVerif.Model.MdiffFmt MdsVerif.Proofs.MdiffFmt
open MdsVerif.Spec MdsVerif.Gen

/-! ## token layer: `lex (print t) = t` for content without newline -/

/-- **Lines.** Reading the bytes written for a list of newline-free lines, line by line as
`diffReader.readline` does, returns exactly those lines — whatever else they contain (empty
lines, lines starting with `-`, `+`, `<`, `>`, `@`, space, `---`, `diff `). -/
theorem lex_print_lines (ls : List Line) (h : ∀ l ∈ ls, NoNl l) : readLines (render ls) = ls :=
  readLines_render ls h

example : readLines (render [str "--- a", [], str "@@ -1 +1 @@", str " "]) =
    [str "--- a", [], str "@@ -1 +1 @@", str " "] := by decide

/-- **Numbers.** `Atoi(Itoa(n)) = n`. -/
theorem lex_print_number (n : Nat) : atoi? (itoa n) = some n := atoi_itoa n

example : atoi? (itoa 1203) = some 1203 := by decide

/-- **Ranges of the normal and context formats.** `parseSpan("", dspan(s, e))` returns the start
and, for a range not of length one, the inclusive end `e - 1`; a one-line range is written as one
number and comes back with second component 0 (which `readNormal` then turns into `s`). -/
theorem lex_print_range (s e : Nat) :
    parseSpan [] (dspan s e) = some (s, if e - s = 1 then 0 else e - 1) := parseSpan_dspan s e

example : parseSpan [] (dspan 3 7) = some (3, 6) := by decide

/-- **Ranges of the unified format.** `parseSpan(side, uspan(side, s, e))` returns the start and
the count — except that the count of a one-line range, which is not written, comes back as 0. -/
theorem lex_print_urange (side : Line) (s e : Nat) :
    parseSpan side (uspan side s e) = some (s, if e - s = 1 then 0 else e - s) :=
  parseSpan_uspan side s e

example : parseSpan ['-'] (uspan ['-'] 3 7) = some (3, 4) := by decide

/-- **Change commands.** The three `strings.Cut` attempts of `readNormal` split `<range>k<range>`
at the command letter `k ∈ {a, c, d}` (ranges consist of digits and commas). -/
theorem lex_print_command (a b : Line) (k : Char) (ha : SpanChars a) (hb : SpanChars b)
    (hk : k = 'a' ∨ k = 'c' ∨ k = 'd') : cutCmd (a ++ k :: b) = some (a, k, b) :=
  cutCmd_cmd a b k ha hb hk

example : cutCmd (str "12,14c3") = some (str "12,14", 'c', str "3") := by decide

/-! ## the normal format -/

/-- **normal_roundtrip** (full).  For every chunk list whose chunks start at lines ≥ 1 and whose
edits are what `New`/`AddContext`/`Unify` produce (`EditOK`: no empty change, the unused side of a
Drop/Copy empty; Emits arbitrary) with newline-free content — any number of chunks, any
positions, lines that are empty or look like diff structure —

* `Read` applied to the bytes written by `Normal` succeeds and returns `normalChunks cs`: one
  chunk per change command, holding that edit alone, at the line ranges the edit occupies
  (context Emits are not written and only advance the positions);
* re-formatting the parsed patch with `Normal` reproduces the text byte for byte. -/
theorem normal_roundtrip (cs : List (Chunk Line))
    (hok : ∀ c ∈ cs, (∀ e ∈ c.edits, EditOK e) ∧ 1 ≤ c.lstart ∧ 1 ≤ c.rstart)
    (hnl : ∀ c ∈ cs, EditsNoNl c.edits) :
    read (readLines (render (normal cs))) = some ⟨none, normalChunks cs⟩ ∧
    render (normal (normalChunks cs)) = render (normal cs) := by
  constructor
  · rw [readLines_render _ (noNl_normal cs hnl)]
    simp [Model.MdiffFmt.read, readNormalLoop_chunks cs hok [] _ (Nat.le_refl _)]
  · congr 1
    induction cs with
    | nil => rfl
    | cons c cs ih =>
      have : normalChunks (c :: cs) = normalChunksOf c.edits c.lstart c.rstart ++ normalChunks cs := by
        simp [normalChunks]
      rw [this, normal_cons]
      have happ : ∀ a b : List (Chunk Line), normal (a ++ b) = normal a ++ normal b := by
        intro a b; simp [normal]
      rw [happ, normal_normalChunksOf,
        ih (fun c' hc' => hok c' (by simp [hc'])) (fun c' hc' => hnl c' (by simp [hc']))]

/-- non-vacuity: a chunk with context, a deletion, a replacement and an insertion, with lines that
look like diff structure -/
example :
    let cs : List (Chunk Line) := [⟨[⟨.emit, [str "--- a"], []⟩, ⟨.drop, [str "< x", []], []⟩,
      ⟨.emit, [str "@@"], []⟩, ⟨.replace, [str "---"], [str "> y", str "1a2"]⟩,
      ⟨.emit, [[]], []⟩, ⟨.copy, [], [str "+"]⟩], 4, 10, 4, 9⟩]
    (read (readLines (render (normal cs)))).map (·.chunks) = some
      [⟨[⟨.drop, [str "< x", []], []⟩], 5, 7, 5, 5⟩,
       ⟨[⟨.replace, [str "---"], [str "> y", str "1a2"]⟩], 8, 9, 6, 8⟩,
       ⟨[⟨.copy, [], [str "+"]⟩], 10, 10, 9, 10⟩] := by decide

/-! ## the unified format: F5 and F6 -/

/-- **F5 in general form.**  Whatever the side, a range `[s, e)` of exactly one line written by
`uspan` and read back by `parseSpan` + `readUnifiedChunk`'s `LEnd: llo + lhi` comes back as the
*empty* range `[s, s)`; every other range (including the empty one) comes back as itself. -/
theorem unified_range_F5 (side : Line) (s e : Nat) (hse : s ≤ e) :
    (parseSpan side (uspan side s e)).map (fun p => (MdiffFmt.uniLStart p.1 p.2 0 0, MdiffFmt.uniLEnd p.1 p.2 0 0))
      = some (s, if e - s = 1 then s else e) := by
  rw [parseSpan_uspan]
  simp only [Option.map, MdiffFmt.uniLStart, MdiffFmt.uniLEnd]
  split <;> simp <;> omega

/-- **C14_F5_witness.**  `Left = [a b c]`, `Right = [a X c]`: `Unified` writes `@@ -2 +2 @@`;
`ReadUnified` returns a chunk with the ranges `2:2` / `2:2` whose edits drop one line and add one
(not `ChunkOK`), and re-formatting the parsed patch gives `@@ -2,0 +2,0 @@` — not the text. -/
theorem C14_F5_witness :
    let L : List Line := [['a'], ['b'], ['c']]
    let R : List Line := [['a'], ['X'], ['c']]
    let text := unified (Model.Mdiff.new L R).chunks none
    text = [str "@@ -2 +2 @@", str "-b", str "+X"] ∧
    (readUnified some (readLines (render text))).map (·.chunks)
      = some [⟨[⟨.drop, [['b']], []⟩, ⟨.copy, [], [['X']]⟩], 2, 2, 2, 2⟩] ∧
    ¬ Mdiff.ChunkOK (⟨[⟨.drop, [['b']], []⟩, ⟨.copy, [], [['X']]⟩], 2, 2, 2, 2⟩ : Chunk Line) L R ∧
    (readUnified some (readLines (render text))).map (fun p => unified p.chunks p.fileInfo)
      = some [str "@@ -2,0 +2,0 @@", str "-b", str "+X"] := by
  decide

/-- **C14_F6_witness.**  `Left = [a b c d]`, `Right = [a b X c d]`, no context: `Unified` writes
`@@ -3,0 +3 @@`; applied to `Left` by the GNU rules (the start of an empty range is the line
*before* it) this does not give `Right`, whereas the POSIX/GNU spelling `@@ -2,0 +3 @@` does, and
so does the text itself when `start,0` is read the way it is written (`applyUnifiedWith true`).
The same spelling on the RIGHT side is harmless: for the pure deletion `Right' = [a b d]` the text
`@@ -3 +3,0 @@` applies by the published rules (GNU `patch` accepts it, too). -/
theorem C14_F6_witness :
    let L : List Line := [['a'], ['b'], ['c'], ['d']]
    let R : List Line := [['a'], ['b'], ['X'], ['c'], ['d']]
    let text := unified (Model.Mdiff.new L R).chunks none
    text = [str "@@ -3,0 +3 @@", str "+X"] ∧
    DiffApply.applyUnified text L ≠ some R ∧
    DiffApply.applyUnified [str "@@ -2,0 +3 @@", str "+X"] L = some R ∧
    DiffApply.applyUnifiedWith true text L = some R ∧
    (let R' : List Line := [['a'], ['b'], ['d']]
     unified (Model.Mdiff.new L R').chunks none = [str "@@ -3 +3,0 @@", str "-c"] ∧
     DiffApply.applyUnified (unified (Model.Mdiff.new L R').chunks none) L = some R') := by
  decide

/-- The empty diff: `Unified` writes nothing, and `ReadUnified` on the empty text is an error
(`readUnifiedHeader` returns `io.EOF`, wrapped as "diff header: EOF"), while `Read` (normal
format) returns an empty patch.  Read as an observation, not as a round-trip failure. -/
theorem readUnified_empty (pt : Line → Option Line) (fi : Option FileInfo) :
    unified [] fi = [] ∧ readUnified pt (readLines (render [])) = none ∧
    (read (readLines (render (normal [])))).map (·.chunks) = some [] := by
  refine ⟨rfl, rfl, rfl⟩

/-! ## the obligation for the current sources -/

/-- **C14_current.**  The facts regenerated from `mdiff/format.go` and `mdiff/reader.go` are the
pinned ones (the ones all theorems above are about): the case analysis and numbers of `dspan` /
`uspan` (with F6's `start` for an empty range), Normal's `rpos-1` / `lpos-1`, every prefix, the
reader's `return lo, 0, nil` (F5), `LEnd: llo + lhi`, `hi == 0 → hi = lo`, `lhi++`, `rhi++`,
`llo++`, `rlo++`, and the line-class bytes.  Any other configuration fails to elaborate. -/
theorem C14_current :
    MdiffFmt.recognised = true ∧
    (∀ s e, MdiffFmt.dspanSingle s e = true ↔ e - s = 1) ∧ (∀ s e, MdiffFmt.dspanOne s e = s) ∧
    (∀ s e, MdiffFmt.dspanFst s e = s) ∧ (∀ s e, MdiffFmt.dspanSnd s e = e - 1) ∧
    (∀ s e, MdiffFmt.uspanSingle s e = true ↔ e - s = 1) ∧ (∀ s e, MdiffFmt.uspanOne s e = s) ∧
    (∀ s e, MdiffFmt.uspanFst s e = s) ∧ (∀ s e, MdiffFmt.uspanSnd s e = e - s) ∧
    (∀ l r, MdiffFmt.normalDropRight l r = r - 1) ∧ (∀ l r, MdiffFmt.normalAddLeft l r = l - 1) ∧
    MdiffFmt.uniDrop = "-" ∧ MdiffFmt.uniEmit = " " ∧ MdiffFmt.uniCopy = "+" ∧
    MdiffFmt.ctxDrop = "- " ∧ MdiffFmt.ctxEmit = "  " ∧ MdiffFmt.ctxRepl = "! " ∧ MdiffFmt.ctxCopy = "+ " ∧
    MdiffFmt.nrmDel = "< " ∧ MdiffFmt.nrmIns = "> " ∧
    (∀ lo, MdiffFmt.spanOmitted lo = 0) ∧
    (∀ a b c d, MdiffFmt.uniLStart a b c d = a) ∧ (∀ a b c d, MdiffFmt.uniLEnd a b c d = a + b) ∧
    (∀ a b c d, MdiffFmt.uniRStart a b c d = c) ∧ (∀ a b c d, MdiffFmt.uniREnd a b c d = c + d) ∧
    MdiffFmt.rdUniEmit = ' ' ∧ MdiffFmt.rdUniDrop = '-' ∧ MdiffFmt.rdUniCopy = '+' ∧ MdiffFmt.rdUniHunk = '@' ∧
    MdiffFmt.nrmZeroMeansSame = true ∧ MdiffFmt.nrmLhiInc = 1 ∧ MdiffFmt.nrmRhiInc = 1 ∧
    MdiffFmt.nrmAddLloInc = 1 ∧ MdiffFmt.nrmDelRloInc = 1 ∧
    MdiffFmt.rdNrmDel = "< " ∧ MdiffFmt.rdNrmIns = "> " ∧ MdiffFmt.rdNrmSep = "---" := by
  -- the arithmetic facts are proved up to semantic equality (`simp` + `omega`), so that an
  -- equivalent rewrite of an extracted expression (`end == start+1`) does not raise a false alarm
  refine ⟨rfl, ?_, ?_, ?_, ?_, ?_, ?_, ?_, ?_, ?_, ?_,
    rfl, rfl, rfl, rfl, rfl, rfl, rfl, rfl, rfl, ?_, ?_, ?_, ?_, ?_,
    rfl, rfl, rfl, rfl, rfl, rfl, rfl, rfl, rfl, rfl, rfl, rfl⟩
  · intro s e; simp [MdiffFmt.dspanSingle] <;> omega
  · intro s e; simp [MdiffFmt.dspanOne] <;> omega
  · intro s e; simp [MdiffFmt.dspanFst] <;> omega
  · intro s e; simp [MdiffFmt.dspanSnd] <;> omega
  · intro s e; simp [MdiffFmt.uspanSingle] <;> omega
  · intro s e; simp [MdiffFmt.uspanOne] <;> omega
  · intro s e; simp [MdiffFmt.uspanFst] <;> omega
  · intro s e; simp [MdiffFmt.uspanSnd] <;> omega
  · intro l r; simp [MdiffFmt.normalDropRight] <;> omega
  · intro l r; simp [MdiffFmt.normalAddLeft] <;> omega
  · intro lo; simp [MdiffFmt.spanOmitted] <;> omega
  · intro a b c d; simp [MdiffFmt.uniLStart] <;> omega
  · intro a b c d; simp [MdiffFmt.uniLEnd] <;> omega
  · intro a b c d; simp [MdiffFmt.uniRStart] <;> omega
  · intro a b c d; simp [MdiffFmt.uniREnd] <;> omega

/-! ## statements that are false for the current sources (kept at full strength as comments)

`unified_roundtrip_full` (no "no range of length 1" hypothesis): see `Props/C14u.lean`; false by
`C14_F5_witness`, true for a reader with `spanOmitted lo = 1`.
`apply_unified_chunks` / `apply_unified_new` / `apply_unified_pipeline` (no "no empty LEFT range"
hypothesis): see `Props/C14a.lean`; false by `C14_F6_witness`, true for
`uspanFst s e = if e = s then s - 1 else s`.
-/

end MdsVerif.Props.C14
