import MdsVerif.Proofs.StreeDepth
import MdsVerif.Proofs.StreeLimit
import MdsVerif.Props.C01
/-!
# C02 — `stree.Tree` stays height-balanced within the scapegoat bound

Heights are in NODES (`Model.Stree.Tree.height`): "no key lies deeper below the root than `L` edges" is
`height ≤ L + 1`.  `P` is `Spec.SortedSet.S.peak`: the largest `Len` since the tree was created,
cleared or last empty, tracked by the reference specification from the operation history.

* `vineToTree_height`, `rewrite_height` — the DSW rebuild yields height `≤ ⌊log₂ n⌋ + 1` nodes;
* `add_height` — the scapegoat step: after `insert` no goat is pending at the root and the height
  is at most `max H (lim(size+1) + 2)`;
* `remove_height` — removal (with `popMinRight`) never deepens;
* `C02_depth_partial` — from `LimOK` (the depth limit dominates `log₂` and is monotone), for every
  β < 1000, every history and every register, after every operation:
  `height ≤ exactLimit β P + 2` nodes (depth ≤ `exactLimit β P + 1` edges) and `Get` makes at
  most `height ≤ exactLimit β P + 2` comparisons;
* `C02_new` — `New` builds height exactly `⌊log₂ n⌋ + 1` nodes for `n ≥ 1` stored keys;
* `size_lt_two_pow_height`, `C02_new_minimal` — every tree of height `h` holds fewer than `2^h` keys, so
  no tree with `n` keys is shallower than what `New` builds.
-/
namespace MdsVerif.Props.C02
open MdsVerif.Model.Stree MdsVerif.Spec MdsVerif.Gen MdsVerif.Proofs.Stree
open MdsVerif.Spec.SortedSet (Asc ins SortCompact)
open MdsVerif.Props.C01 (RelT)
open Std (TransCmp)

variable {α : Type} {cmp : α → α → Ordering}

/-- the DSW result of `n ≥ 1` nodes has height at most `⌊log₂ n⌋ + 1` nodes (minimal) -/
theorem vineToTree_height (vine : List α) (n : Nat) (hn : n = vine.length) (h1 : 1 ≤ n)
    {t : Model.Stree.Tree α} (ht : vineToTree vine n = some t) : t.height ≤ Nat.log2 n + 1 :=
  DSW.vineToTree_height vine n hn h1 ht

theorem rewrite_height {t t' : Model.Stree.Tree α} {n : Nat} (hn : n = t.size) (h1 : 1 ≤ n)
    (h : rewrite t n = some t') : t'.height ≤ Nat.log2 n + 1 :=
  DSW.rewrite_height hn h1 h

/-- the scapegoat step, for any comparator and any limit function dominating `log₂` -/
theorem add_height {lim : Nat → Nat} (hlim : ∀ n, 1 ≤ n → Nat.log2 n ≤ lim n) (key : α) (replace : Bool)
    (t : Model.Stree.Tree α) {q : Res α}
    (hq : insert cmp lim key replace t (Int.ofNat (lim (Stree.limitArg t.size))) = some q) :
    q.2.2.1 = 0 ∧ q.1.height ≤ max t.height (lim (t.size + 1) + 2) ∧
      (q.2.1 = false → q.1.height = t.height) :=
  Goat.add_height cmp hlim key replace t hq

/-- removal never deepens -/
theorem remove_height (k : α) (t : Model.Stree.Tree α) : (remove cmp k t).1.height ≤ t.height :=
  Proofs.Stree.remove_height k t

/-- a lookup makes at most `height` (nodes) = depth (edges) + 1 comparisons -/
theorem get_steps (t : T α) (k : α) : t.getSteps cmp k ≤ t.root.height := getC_steps k t.root

/-- what C02 needs of the depth limit `exactLimit β` (β < 1000) -/
structure LimOK : Prop where
  log : ∀ β n, β < 1000 → 1 ≤ n → Nat.log2 n ≤ exactLimit β n
  mono : ∀ β a b, β < 1000 → a ≤ b → exactLimit β a ≤ exactLimit β b

theorem hgt_le (hL : LimOK) {β : Nat} (hβ : β < 1000) (n : Nat) : DSW.hgt n ≤ exactLimit β n + 1 := by
  unfold DSW.hgt
  by_cases h : n = 0
  · simp [h]
  · have := hL.log β n hβ (by omega)
    simp [h]; exact this

/-- the invariant: the tree stands for the reference set, `Len ≤ P`, height within the bound -/
def Inv (cmp : α → α → Ordering) (t : T α) (s : SortedSet.S α) : Prop :=
  RelT cmp t s ∧ s.keys.length ≤ s.peak ∧ (t.β < 1000 → t.root.height ≤ exactLimit t.β s.peak + 2)

def Rel2 (cmp : α → α → Ordering) (m : Regs (T α)) (sp : Regs (SortedSet.S α)) : Prop :=
  ∀ r, (∃ t s, m.get r = some t ∧ sp.get r = some s ∧ Inv cmp t s) ∨ (m.get r = none ∧ sp.get r = none)

theorem rel2_set {m : Regs (T α)} {sp : Regs (SortedSet.S α)} (h : Rel2 cmp m sp) (r : Nat)
    {t : T α} {s : SortedSet.S α} (hts : Inv cmp t s) : Rel2 cmp (m.set r t) (sp.set r s) := by
  intro r'
  rw [regs_get_set, regs_get_set]
  by_cases e : r' = r
  · simp only [e, if_true]; exact Or.inl ⟨t, s, rfl, rfl, hts⟩
  · simp only [e, if_false]; exact h r'

theorem put_keys (s : SortedSet.S α) (ks : List α) :
    (s.put ks).keys = ks ∧ (s.put ks).β = s.β ∧ ks.length ≤ (s.put ks).peak ∧
    (ks.length ≠ 0 → (s.put ks).peak = max s.peak ks.length) := by
  unfold SortedSet.S.put
  by_cases h : ks.length = 0
  · simp [h]
  · simp only [h, if_false]; exact ⟨trivial, trivial, by omega, fun _ => trivial⟩

theorem inv_insert [TransCmp cmp] (hL : LimOK) {t : T α} {s : SortedSet.S α} (k : α) (rep : Bool)
    (hi : Inv cmp t s) :
    ∃ t', t.insertTop cmp k rep = some (t', (ins cmp rep k s.keys).2) ∧
      Inv cmp t' (s.put (ins cmp rep k s.keys).1) := by
  obtain ⟨⟨hw, hl, hβ⟩, hlen, hh⟩ := hi
  obtain ⟨t', h1, h2, h3, h4⟩ := insertTop_ok (cmp := cmp) t k rep hw
  rw [hl] at h1 h2
  obtain ⟨p1, p2, p3, p4⟩ := put_keys s (ins cmp rep k s.keys).1
  refine ⟨t', h1, ⟨h3, by rw [p1, h2], by rw [p2, h4, hβ]⟩, p3, fun hb => ?_⟩
  rw [h4] at hb ⊢
  obtain ⟨g1, g2⟩ := insertTop_height (fun β n hβ hn => hL.log β n hβ hn) t k rep hw.2 hb h1
  have hH := hh hb
  have hlen' := ins_length (cmp := cmp) rep k s.keys
  have hsz : t.size = s.keys.length := by rw [hw.2, size_eq_length, hl]
  cases hfl : (ins cmp rep k s.keys).2 with
  | false =>
    rw [hfl] at hlen'
    have hne : s.keys ≠ [] := by
      intro e; rw [e] at hfl; simp [ins] at hfl
    have hpos : s.keys.length ≠ 0 := fun e => hne (List.eq_nil_of_length_eq_zero e)
    have hpk := p4 (by simp at hlen'; omega)
    have : (s.put (ins cmp rep k s.keys).1).peak = s.peak := by
      rw [hpk]; simp at hlen'; omega
    rw [this, g2 hfl]; exact hH
  | true =>
    rw [hfl] at hlen'
    have hpk := p4 (by simp at hlen'; omega)
    simp at hlen'
    have m1 := hL.mono t.β s.peak _ hb (by rw [hpk]; omega : s.peak ≤ (s.put (ins cmp rep k s.keys).1).peak)
    have m2 := hL.mono t.β (t.size + 1) _ hb (by rw [hpk]; omega : t.size + 1 ≤ (s.put (ins cmp rep k s.keys).1).peak)
    omega

theorem inv_remove [TransCmp cmp] (hL : LimOK) {t : T α} {s : SortedSet.S α} (k : α)
    (hi : Inv cmp t s) :
    ∃ t', t.remove cmp k = some (t', (SortedSet.remove cmp k s.keys).2) ∧
      Inv cmp t' (s.put (SortedSet.remove cmp k s.keys).1) := by
  obtain ⟨⟨hw, hl, hβ⟩, hlen, hh⟩ := hi
  obtain ⟨t', h1, h2, h3, h4⟩ := remove_top_ok (cmp := cmp) t k hw
  rw [hl] at h1 h2
  obtain ⟨p1, p2, p3, p4⟩ := put_keys s (SortedSet.remove cmp k s.keys).1
  refine ⟨t', h1, ⟨h3, by rw [p1, h2], by rw [p2, h4, hβ]⟩, p3, fun hb => ?_⟩
  rw [h4] at hb ⊢
  have g := remove_top_height (cmp := cmp) t k hw h1
  have hH := hh hb
  have hlen' := remove_length (cmp := cmp) k s.keys
  have hsz' : t'.root.size = (SortedSet.remove cmp k s.keys).1.length := by rw [size_eq_length, h2]
  by_cases h0 : (SortedSet.remove cmp k s.keys).1.length = 0
  · have : t'.root.toList = [] := by rw [h2]; exact List.eq_nil_of_length_eq_zero h0
    rw [toList_nil_height this]; omega
  · have hpk := p4 h0
    have hle : (SortedSet.remove cmp k s.keys).1.length ≤ s.keys.length := by omega
    have : (s.put (SortedSet.remove cmp k s.keys).1).peak = s.peak := by rw [hpk]; omega
    rw [this]
    have hg := hgt_le hL hb t'.root.size
    have m := hL.mono t.β t'.root.size s.peak hb (by omega)
    omega

/-- one step keeps the invariant on every register -/
theorem step_depth [TransCmp cmp] (hL : LimOK) {srt : List α → List α} (hs : SortCompact cmp srt)
    (m : Regs (T α)) (sp : Regs (SortedSet.S α)) (op : Op α) (h : Rel2 cmp m sp) :
    Rel2 cmp (step cmp srt m op).1 (SortedSet.step cmp srt sp op).1 := by
  cases op with
  | new r β keys =>
    by_cases hb : β < 0 ∨ β > 1000
    · have hn : T.new srt β keys = none := (C01.new_panics srt β keys).mpr hb
      simp only [step, hn, SortedSet.step, hb, if_true]
      exact h
    · cases hn : T.new srt β keys with
      | none => exact absurd ((C01.new_panics srt β keys).mp hn) hb
      | some t =>
        obtain ⟨hw, hl, hβ⟩ := new_ok hs hn
        have hh := new_height hn
        simp only [step, hn, SortedSet.step, hb, if_false]
        refine rel2_set h r ⟨⟨hw, hl, hβ⟩, Nat.le_refl _, fun hb' => ?_⟩
        show t.root.height ≤ exactLimit t.β (SortedSet.newKeys srt keys).length + 2
        rw [hh, hw.2, size_eq_length, hl]
        have := hgt_le hL hb' (SortedSet.newKeys srt keys).length
        omega
  | clone dst src =>
    rcases h src with ⟨t, s, hm, hsp, hr⟩ | ⟨hm, hsp⟩
    · simp only [step, hm, SortedSet.step, hsp]
      refine rel2_set h dst ?_
      simp only [T.clone, clone_eq]; exact hr
    · simp only [step, hm, SortedSet.step, hsp]; exact h
  | add r k =>
    rcases h r with ⟨t, s, hm, hsp, hi⟩ | ⟨hm, hsp⟩
    · obtain ⟨t', h1, h2⟩ := inv_insert hL k false hi
      simp only [step, hm, SortedSet.step, hsp, T.add, h1, SortedSet.add]
      exact rel2_set h r h2
    · simp only [step, hm, SortedSet.step, hsp]; exact h
  | replace r k =>
    rcases h r with ⟨t, s, hm, hsp, hi⟩ | ⟨hm, hsp⟩
    · obtain ⟨t', h1, h2⟩ := inv_insert hL k true hi
      simp only [step, hm, SortedSet.step, hsp, T.replace, h1, SortedSet.replace]
      exact rel2_set h r h2
    · simp only [step, hm, SortedSet.step, hsp]; exact h
  | remove r k =>
    rcases h r with ⟨t, s, hm, hsp, hi⟩ | ⟨hm, hsp⟩
    · obtain ⟨t', h1, h2⟩ := inv_remove hL k hi
      simp only [step, hm, SortedSet.step, hsp, h1]
      exact rel2_set h r h2
    · simp only [step, hm, SortedSet.step, hsp]; exact h
  | clear r =>
    rcases h r with ⟨t, s, hm, hsp, ⟨hw, hl, hβ⟩, _, _⟩ | ⟨hm, hsp⟩
    · simp only [step, hm, SortedSet.step, hsp]
      refine rel2_set h r ⟨⟨⟨?_, rfl⟩, ?_, ?_⟩, ?_, fun _ => ?_⟩
      · simp [T.clear, Model.Stree.Tree.toList, Asc]
      · simp [T.clear, Model.Stree.Tree.toList, SortedSet.S.put]
      · simp [T.clear, SortedSet.S.put, hβ]
      · simp [SortedSet.S.put]
      · simp [T.clear, Model.Stree.Tree.height]
    · simp only [step, hm, SortedSet.step, hsp]; exact h
  | len r => exact h
  | isEmpty r => exact h
  | get r k => exact h
  | min r => exact h
  | max r => exact h
  | inorder r stop => exact h
  | inorderAfter r k stop => exact h

/-- register files after a history -/
def exec (cmp : α → α → Ordering) (srt : List α → List α) (ops : List (Op α)) : Regs (T α) :=
  ops.foldl (fun m op => (step cmp srt m op).1) []
def specExec (cmp : α → α → Ordering) (srt : List α → List α) (ops : List (Op α)) : Regs (SortedSet.S α) :=
  ops.foldl (fun m op => (SortedSet.step cmp srt m op).1) []

theorem exec_rel2 [TransCmp cmp] (hL : LimOK) {srt : List α → List α} (hs : SortCompact cmp srt)
    (ops : List (Op α)) : Rel2 cmp (exec cmp srt ops) (specExec cmp srt ops) := by
  suffices H : ∀ (m : Regs (T α)) (sp : Regs (SortedSet.S α)), Rel2 cmp m sp →
      Rel2 cmp (ops.foldl (fun m op => (step cmp srt m op).1) m)
        (ops.foldl (fun m op => (SortedSet.step cmp srt m op).1) sp) from
    H [] [] (fun _ => Or.inr ⟨rfl, rfl⟩)
  induction ops with
  | nil => intro m sp h; exact h
  | cons op ops ih =>
    intro m sp h
    simp only [List.foldl_cons]
    exact ih _ _ (step_depth hL hs m sp op h)

/-
Full-strength statement (the goal):

  theorem C02_depth [TransCmp cmp] (hs : SortCompact cmp srt) (ops) (r) (t) (s)
      (hm : (exec cmp srt ops).get r = some t) (hsp : (specExec cmp srt ops).get r = some s)
      (hβ : t.β < 1000) :
      t.root.height ≤ exactLimit t.β s.peak + 2 ∧ ∀ k, t.getSteps cmp k ≤ exactLimit t.β s.peak + 2

It is `C02_depth_partial` with the hypothesis `LimOK` discharged (see `C02_depth` below if present).
-/

/-- **C02 (depth)**, from `LimOK`: for every comparator that is a total preorder, every history on
any number of trees and clones, every register, after every operation (the history `ops` is
arbitrary, so this is the state after every prefix): for β < 1000 the tree's height is at most
`exactLimit β P + 2` nodes — no key lies deeper than `exactLimit β P + 1` edges below the root,
`P` the largest `Len` since creation/`Clear`/last empty — and every `Get` makes at most that many
comparisons plus one.  `LimOK` is the only hypothesis: the exact integer depth limit dominates
`⌊log₂ n⌋` and is monotone in `n`. -/
theorem C02_depth_partial [TransCmp cmp] (hL : LimOK) {srt : List α → List α} (hs : SortCompact cmp srt)
    (ops : List (Op α)) (r : Nat) (t : T α) (s : SortedSet.S α)
    (hm : (exec cmp srt ops).get r = some t) (hsp : (specExec cmp srt ops).get r = some s)
    (hβ : t.β < 1000) :
    t.root.height ≤ exactLimit t.β s.peak + 2 ∧
    (∀ k, t.getSteps cmp k ≤ exactLimit t.β s.peak + 2) ∧
    t.β = s.β ∧ t.len = s.keys.length ∧ s.keys.length ≤ s.peak := by
  rcases exec_rel2 hL hs ops r with ⟨t', s', h1, h2, ⟨hw, hl, hb⟩, hlen, hh⟩ | ⟨h1, _⟩
  · rw [hm] at h1; rw [hsp] at h2; cases h1; cases h2
    refine ⟨hh hβ, fun k => Nat.le_trans (get_steps t k) (hh hβ), hb, ?_, hlen⟩
    show t.size = _
    rw [hw.2, size_eq_length, hl]
  · rw [hm] at h1; cases h1

/-- **C02 (New)**: a tree built by `New` from keys of `n ≥ 1` distinct classes (`n = Len`) has the
minimum possible height: `⌊log₂ n⌋ + 1` nodes, i.e. `⌊log₂ n⌋` edges; the empty tree has height 0 -/
theorem C02_new {srt : List α → List α} {β : Int} {keys : List α} {t : T α}
    (h : T.new srt β keys = some t) :
    t.root.height = (if t.len = 0 then 0 else Nat.log2 t.len + 1) :=
  new_height h

/-- **no binary tree is shallower than `⌊log₂ n⌋ + 1` nodes**: a tree of height `h` (nodes) holds
fewer than `2^h` keys -/
theorem size_lt_two_pow_height (t : Model.Stree.Tree α) : t.size < 2 ^ t.height := by
  induction t with
  | nil => simp [Model.Stree.Tree.size, Model.Stree.Tree.height]
  | node l x r ihl ihr =>
    simp only [Model.Stree.Tree.size, Model.Stree.Tree.height]
    have h1 : 2 ^ l.height ≤ 2 ^ max l.height r.height := Nat.pow_le_pow_right (by omega) (Nat.le_max_left _ _)
    have h2 : 2 ^ r.height ≤ 2 ^ max l.height r.height := Nat.pow_le_pow_right (by omega) (Nat.le_max_right _ _)
    have h3 : 2 ^ (1 + max l.height r.height) = 2 * 2 ^ max l.height r.height := by
      rw [Nat.add_comm, Nat.pow_succ, Nat.mul_comm]
    omega

/-- hence every tree with `n ≥ 1` keys has height at least `⌊log₂ n⌋ + 1` nodes -/
theorem height_ge_log2 (t : Model.Stree.Tree α) (h : t.size ≠ 0) : Nat.log2 t.size + 1 ≤ t.height := by
  have := (Nat.log2_lt h).mpr (size_lt_two_pow_height t)
  omega

/-- **C02 (New), minimality**: the tree built by `New` holds `Len` keys at height `⌊log₂ Len⌋ + 1`
nodes (0 when empty), and NO binary tree with that many keys is shallower — "the minimum possible
height" is meant literally, over all trees of the same size, whatever their keys. -/
theorem C02_new_minimal {srt : List α → List α} {β : Int} {keys : List α} {t : T α}
    (h : T.new srt β keys = some t) :
    t.root.size = t.len ∧
    t.root.height = (if t.len = 0 then 0 else Nat.log2 t.len + 1) ∧
    ∀ u : Model.Stree.Tree α, u.size = t.len → t.root.height ≤ u.height := by
  have hsz : t.root.size = t.len := by
    unfold T.new at h
    by_cases hb : Stree.betaOutOfRange β = true
    · simp [hb] at h
    · simp only [hb] at h
      cases keys with
      | nil => simp at h; subst h; rfl
      | cons k ks =>
        simp at h; subst h
        show (extract (srt (k :: ks))).size = (srt (k :: ks)).length
        rw [size_eq_length, extract_toList]
  refine ⟨hsz, C02_new h, fun u hu => ?_⟩
  rw [C02_new h]
  by_cases h0 : t.len = 0
  · simp [h0]
  · simp only [h0, if_false]
    have := height_ge_log2 u (by rw [hu]; exact h0)
    rw [hu] at this; exact this

/-- non-vacuity: `New` from 5 keys has height 3, and a 5-key right spine has height 5 ≥ 3 -/
example : (T.new id 0 [1, 2, 3, 4, 5]).map (fun t : T Nat => (t.root.height, t.len)) = some (3, 5) ∧
    (Model.Stree.Tree.node .nil 1 (.node .nil 2 (.node .nil 3 (.node .nil 4 (.node .nil 5 .nil))))).height = 5 := by
  decide

/-! ## the exact integer depth limit meets `LimOK` -/

/-- `exactLimit β n` is `⌊log_{2000/(1000+β)} n⌋`: the largest `k` with `2000^k ≤ n·(1000+β)^k` -/
theorem exactLimit_spec {β n : Nat} (hβ : β < 1000) (hn : 1 ≤ n) :
    2000 ^ exactLimit β n ≤ n * (β + 1000) ^ exactLimit β n ∧
    n * (β + 1000) ^ (exactLimit β n + 1) < 2000 ^ (exactLimit β n + 1) := by
  obtain ⟨h1, h2⟩ := Limit.exactLimit_spec hβ hn
  exact ⟨h1, Nat.lt_of_not_le h2⟩

/-- β = 1000 (no rebalancing): the limit is `n + 1` -/
theorem exactLimit_1000 (n : Nat) : exactLimit 1000 n = n + 1 := by
  simp [exactLimit, Stree.fracNum, Stree.fracDen, Stree.fracLimit, Stree.maxBalance, Stree.limitNoBalance]

theorem exactLimit_ge_log2 {β n : Nat} (hβ : β < 1000) (hn : 1 ≤ n) : Nat.log2 n ≤ exactLimit β n :=
  Limit.exactLimit_ge_log2 hβ hn

theorem exactLimit_mono {β a b : Nat} (hβ : β < 1000) (hab : a ≤ b) : exactLimit β a ≤ exactLimit β b :=
  Limit.exactLimit_mono hβ hab

theorem limOK : LimOK :=
  ⟨fun _ _ hβ hn => Limit.exactLimit_ge_log2 hβ hn, fun _ _ _ hβ hab => Limit.exactLimit_mono hβ hab⟩

/-- **C02 (depth)**: for every comparator that is a total preorder, every β < 1000, every history
of New/Add/Replace/Remove/Clear/Clone on any number of trees, every register and after every
operation: no key lies deeper than `exactLimit β P + 1` edges below the root
(`height ≤ exactLimit β P + 2` nodes), where `exactLimit β P = ⌊log_{2000/(1000+β)} P⌋`
(`exactLimit_spec`) and `P` is the largest `Len` since creation/`Clear`/last empty; a lookup makes
at most `exactLimit β P + 2` comparisons. -/
theorem C02_depth [TransCmp cmp] {srt : List α → List α} (hs : SortCompact cmp srt)
    (ops : List (Op α)) (r : Nat) (t : T α) (s : SortedSet.S α)
    (hm : (exec cmp srt ops).get r = some t) (hsp : (specExec cmp srt ops).get r = some s)
    (hβ : t.β < 1000) :
    t.root.height ≤ exactLimit t.β s.peak + 2 ∧
    (∀ k, t.getSteps cmp k ≤ exactLimit t.β s.peak + 2) ∧
    t.β = s.β ∧ t.len = s.keys.length ∧ s.keys.length ≤ s.peak :=
  C02_depth_partial limOK hs ops r t s hm hsp hβ

/-- **C02 (depth) for what the driver executes**: streams `C01`/`C02` run the model with
`Drv.C01.S.cmp` (natural order or order by `a / 10`; both `Std.TransCmp`: `Props.C01.drvCmp_trans`)
and the stable-sort + compact `sortCompact` (`Props.C01.sortCompact_spec`) -/
theorem C02_depth_drv (d : MdsVerif.Drv.C01.S) (ops : List (Op Int)) (r : Nat) (t : T Int) (s : SortedSet.S Int)
    (hm : (exec d.cmp (sortCompact d.cmp) ops).get r = some t)
    (hsp : (specExec d.cmp (sortCompact d.cmp) ops).get r = some s) (hβ : t.β < 1000) :
    t.root.height ≤ exactLimit t.β s.peak + 2 ∧
    (∀ k, t.getSteps d.cmp k ≤ exactLimit t.β s.peak + 2) ∧
    t.β = s.β ∧ t.len = s.keys.length ∧ s.keys.length ≤ s.peak :=
  C02_depth MdsVerif.Props.C01.sortCompact_spec ops r t s hm hsp hβ

/-! ## non-vacuity

β = 250: seven ascending `Add`s (goat rebuilds), three `Remove`s, two more `Add`s.  The tree then
holds 6 keys, `P = 7`, `exactLimit 250 7 = 4`, and the height is 4 nodes (bound: 6). -/

def exCmp (a b : Nat) : Ordering := compare a b
def exOps : List (Op Nat) :=
  [.new 0 250 [], .add 0 1, .add 0 2, .add 0 3, .add 0 4, .add 0 5, .add 0 6, .add 0 7,
   .remove 0 1, .remove 0 2, .remove 0 3, .add 0 8, .add 0 9]

example : ((exec exCmp id exOps).get 0).map (fun t => (t.root.height, t.size, t.max)) = some (4, 6, 7) := by
  decide
example : ((specExec exCmp id exOps).get 0).map (fun s => (s.peak, s.keys)) = some (7, [4, 5, 6, 7, 8, 9]) := by
  decide
example : exactLimit 0 8 = 3 ∧ exactLimit 500 8 = 7 ∧ exactLimit 1000 8 = 9 ∧ exactLimit 250 7 = 4 := by
  decide
/-- `New` from 5 keys: height 3 nodes = ⌊log₂ 5⌋ + 1 -/
example : (T.new id 0 [1, 2, 3, 4, 5]).map (fun t : T Nat => t.root.height) = some 3 := by decide

end MdsVerif.Props.C02
