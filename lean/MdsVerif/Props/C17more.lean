import MdsVerif.Proofs.SliceMore
import MdsVerif.Model.Maybe
import MdsVerif.Spec.SlicesMore
import Mathlib.Data.List.Destutter
import Mathlib.Data.List.Nodup
/-!
# C17 (extension) — `Dedup`, `Reverse`, `Zero`, `Select`, `MapKeys`, `MatchingKeys`, package `value`

Statements about `MdsVerif.Model.SliceMore` / `MdsVerif.Model.Maybe` (the functions the driver
streams `C17.dedup`, `C17.misc`, `C17.value` execute), for every backing array `mem`, every
well-formed header `h = (off, len, cap)`, every predicate, every loop body, every map iteration order.

`Dedup` returns `vs[:k]`: a prefix of `vs` that KEEPS the capacity of `vs` (it is not clipped; what
lies behind the result inside `vs` has been zeroed, which is what `slices.Compact` documents).
-/
namespace MdsVerif.Props.C17more
open MdsVerif.Model.Slice MdsVerif.Model.SliceMore MdsVerif.Proofs.Slice MdsVerif.Proofs.SliceMore
variable {α : Type}

/-! ## Dedup -/

/-- the reference `uniq` is Mathlib's `destutter (· ≠ ·)` (greedily drop every element equal to its
predecessor) … -/
theorem uniq_eq_destutter [DecidableEq α] (l : List α) : uniq l = l.destutter (· ≠ ·) := by
  have key : ∀ (t : List α) (a : α), a :: uniqFrom a t = List.destutter' (· ≠ ·) a t := by
    intro t
    induction t with
    | nil => intro a; rfl
    | cons b t ih =>
      intro a
      unfold uniqFrom
      by_cases h : b = a
      · rw [if_pos h, List.destutter'_cons_neg _ (by simp [h]), ih a]
      · rw [if_neg h, List.destutter'_cons_pos _ (Ne.symm h), ih b]
  cases l with
  | nil => rfl
  | cons a t => exact key t a

/-- … so: a sublist of the input in which no two neighbours are equal, equal to the input when the
input has no two equal neighbours, and idempotent; it starts with the first element of the input
(it "contains the first element of each run") -/
theorem uniq_spec [DecidableEq α] (l : List α) :
    (uniq l).Sublist l ∧ (uniq l).IsChain (· ≠ ·) ∧ (l.IsChain (· ≠ ·) → uniq l = l) ∧
    uniq (uniq l) = uniq l ∧ (uniq l).head? = l.head? := by
  refine ⟨?_, ?_, ?_, ?_, by cases l <;> rfl⟩
  · rw [uniq_eq_destutter]; exact List.destutter_sublist _ l
  · rw [uniq_eq_destutter]; exact List.isChain_destutter _ l
  · rw [uniq_eq_destutter]; exact List.destutter_of_isChain _ l
  · rw [uniq_eq_destutter, uniq_eq_destutter]; exact List.destutter_idem _ _

/-- the reference used by the driver's spec verdict (`Spec.SlicesMore.uniq`, on `Int`) is the same function -/
theorem spec_uniq_eq (l : List Int) : MdsVerif.Spec.SlicesMore.uniq l = uniq l := by
  have key : ∀ (t : List Int) (a : Int), MdsVerif.Spec.SlicesMore.uniqFrom a t = uniqFrom a t := by
    intro t
    induction t with
    | nil => intro a; rfl
    | cons b t ih => intro a; simp only [MdsVerif.Spec.SlicesMore.uniqFrom, uniqFrom, ih]
  cases l with
  | nil => rfl
  | cons a t => simp only [MdsVerif.Spec.SlicesMore.uniq, uniq, key]

/-- **Dedup(vs)** (= `slices.Compact`), for every slice (empty, with offset, with spare capacity):
the call returns (no panic, both loops terminate); the result `r` is a prefix of `vs`
(`r.off = vs.off`) holding the first element of each run of identical elements (`uniq`), and it keeps
the capacity of `vs`; afterwards `vs` consists of that result followed by zero values up to its
original length; nothing outside `vs` is written. -/
theorem dedup_spec [Inhabited α] [DecidableEq α] (mem : List α) (h : Hdr) (hw : h.WF mem.length) :
    ∃ mem' r, dedup mem h = .ok (mem', r) ∧
      r.off = h.off ∧ r.cap = h.cap ∧
      window mem' r = uniq (window mem h) ∧
      r.len = (uniq (window mem h)).length ∧ r.len ≤ h.len ∧
      window mem' h = uniq (window mem h) ++ List.replicate (h.len - r.len) default ∧
      mem'.length = mem.length ∧
      mem'.take h.off = mem.take h.off ∧
      mem'.drop (h.off + h.len) = mem.drop (h.off + h.len) := by
  have hwl := window_length mem h hw
  obtain ⟨w, r, e, hl, post⟩ := compactW_spec (window mem h)
  have hlw : w.length = h.len := by rw [hl, hwl]
  unfold dedup
  rw [e]
  rcases post with ⟨rfl, rfl, hu⟩ | ⟨k', rfl, hk, hul, hwq⟩
  · refine ⟨store mem h (window mem h), h, rfl, rfl, rfl, ?_, ?_, Nat.le_refl _, ?_,
      store_length mem h hw _ hlw, store_take mem h hw _, store_drop mem h hw _ hlw⟩
    · rw [window_store mem h hw _ hlw, hu]
    · rw [hu, hwl]
    · rw [window_store mem h hw _ hlw, hu]; simp
  · have hk2 : k' ≤ h.cap := by have := hw.1; omega
    have hs : slice2 h 0 k' = .ok ⟨h.off + 0, k' - 0, h.cap - 0⟩ := by
      have := slice2_nat h 0 k' (Nat.zero_le _) hk2
      simpa using this
    refine ⟨store mem h w, ⟨h.off + 0, k' - 0, h.cap - 0⟩, ?_, rfl, rfl, ?_, ?_, ?_, ?_,
      store_length mem h hw _ hlw, store_take mem h hw _, store_drop mem h hw _ hlw⟩
    · show (Res.ok (w, some k')).bind _ = _
      simp only [Res.bind, hs, Res.map]
    · simp only [Nat.add_zero, Nat.sub_zero]
      rw [window_prefix (store mem h w) h k' h.cap (by omega), window_store mem h hw _ hlw, hwq,
        List.take_left' hul]
    · simp only [Nat.sub_zero]; exact hul.symm
    · simp only [Nat.sub_zero]; omega
    · simp only [Nat.sub_zero]
      rw [window_store mem h hw _ hlw, hwq, hwl]

/-- non-vacuity: offset 1, spare capacity 2: the result keeps the capacity, the tail is zeroed -/
example : dedup [900, 2, 2, 1, 1, 1, 3, 2, 2, 901, 902, 903] ⟨1, 8, 10⟩
    = .ok ([900, 2, 1, 3, 2, 0, 0, 0, 0, 901, 902, 903], ⟨1, 4, 10⟩) := by decide
/-- no duplicates: `return s` -/
example : dedup [900, 1, 2, 1, 901] ⟨1, 3, 3⟩ = .ok ([900, 1, 2, 1, 901], ⟨1, 3, 3⟩) := by decide

/-! ## Reverse, Zero -/

/-- **Reverse(vs)**: the loop terminates and leaves the elements of `vs` in reverse order; nothing
outside `vs` is written. -/
theorem reverse_spec [Inhabited α] (mem : List α) (h : Hdr) (hw : h.WF mem.length) :
    ∃ mem', reverse mem h = .ok mem' ∧ window mem' h = (window mem h).reverse ∧
      mem'.length = mem.length ∧ mem'.take h.off = mem.take h.off ∧
      mem'.drop (h.off + h.len) = mem.drop (h.off + h.len) := by
  have hl : (window mem h).reverse.length = h.len := by rw [List.length_reverse, window_length mem h hw]
  refine ⟨store mem h (window mem h).reverse, ?_, window_store mem h hw _ hl,
    store_length mem h hw _ hl, store_take mem h hw _, store_drop mem h hw _ hl⟩
  unfold reverse
  rw [reverseW_spec]; rfl

example : reverse [900, 1, 2, 3, 4, 5, 901] ⟨1, 5, 6⟩ = .ok [900, 5, 4, 3, 2, 1, 901] := by decide

/-- **Zero(vs)**: every element of `vs` is the zero value afterwards; nothing outside `vs` is written. -/
theorem zero_spec [Inhabited α] (mem : List α) (h : Hdr) (hw : h.WF mem.length) :
    window (zero mem h) h = List.replicate h.len default ∧
      (zero mem h).length = mem.length ∧ (zero mem h).take h.off = mem.take h.off ∧
      (zero mem h).drop (h.off + h.len) = mem.drop (h.off + h.len) := by
  have hwl := window_length mem h hw
  have hl : (zeroW (window mem h)).length = h.len := by rw [zeroW_spec, List.length_replicate, hwl]
  unfold zero
  refine ⟨?_, store_length mem h hw _ hl, store_take mem h hw _, store_drop mem h hw _ hl⟩
  rw [window_store mem h hw _ hl, zeroW_spec, hwl]

example : zero [900, 1, 2, 3, 901, 902] ⟨1, 3, 4⟩ = [900, 0, 0, 0, 901, 902] := by decide

/-! ## Select -/

/-- **Select(vs, f)**, for every loop body `yield` (a state machine that may leave the loop) and
every initial state: consuming the iterator is consuming the list `vs.filter f` — the elements
satisfying `f`, in their original order — with the same body, stopping when the body stops; the
predicate is called on at most `len(vs)` elements, on all of them when the body never stops. -/
theorem select_spec {σ : Type} (f : α → Bool) (vs : List α) (yield : σ → α → σ × Bool) (st : σ) :
    (select f vs yield st).1 = forEachUntil yield (vs.filter f) st ∧
    (select f vs yield st).2 ≤ vs.length ∧
    ((∀ st v, (yield st v).2 = true) → (select f vs yield st).2 = vs.length) := by
  have h := selectLoop_snd f yield vs st 0
  refine ⟨selectLoop_fst f yield vs st 0, by simpa [select] using h.1, fun hy => by simpa [select] using h.2 hy⟩

/-- with the collecting body of the harness (`append; if len(out) == lim { break }`): the first `lim`
selected elements, all of them for `lim = 0` -/
theorem select_collect (f : α → Bool) (vs : List α) (lim : Nat) :
    (select f vs (collect lim) []).1 = if lim = 0 then vs.filter f else (vs.filter f).take lim := by
  rw [(select_spec f vs (collect lim) []).1, forEachUntil_collect lim _ [] (by simp; omega)]
  simp

example : select (fun v : Nat => v % 2 == 0) [6, 1, 3, 2, 8, 4, 5] (collect 3) [] = ([6, 2, 8], 5) := by decide
example : select (fun v : Nat => v % 2 == 0) [6, 1, 3, 2, 8, 4, 5] (collect 0) [] = ([6, 2, 8, 4], 7) := by decide

/-! ## MapKeys, MatchingKeys: for every iteration order of the map -/

variable {κ υ σ : Type}

/-- **MapKeys(m)**: whatever order `it` the runtime iterates the entries of `m` in (`it` a
permutation of the entries), the result is nil exactly for the empty map, and otherwise a
permutation of the keys of `m` (duplicate-free, as the keys of a map are). -/
theorem mapKeys_spec (m it : List (κ × υ)) (hp : it.Perm m) :
    (mapKeys it = none ↔ m = []) ∧
    ∀ ks, mapKeys it = some ks → ks.Perm (m.map (·.1)) ∧ ((m.map (·.1)).Nodup → ks.Nodup) := by
  unfold mapKeys
  rw [foldl_keys it []]
  constructor
  · constructor
    · intro h
      by_cases h0 : it.length = 0
      · have : it = [] := List.eq_nil_of_length_eq_zero h0
        subst this; exact hp.symm.eq_nil
      · rw [if_neg h0] at h; cases h
    · intro h; subst h; rw [hp.eq_nil]; rfl
  · intro ks h
    by_cases h0 : it.length = 0
    · rw [if_pos h0] at h; cases h
    · rw [if_neg h0] at h
      simp only [List.nil_append, Option.some.injEq] at h
      subst h
      exact ⟨hp.map _, fun hn => (hp.map (·.1)).nodup_iff.2 hn⟩

example : mapKeys [(3, 'c'), (1, 'a'), (2, 'b')] = some [3, 1, 2] := by decide
example : mapKeys ([] : List (Nat × Nat)) = none := by decide

/-- **MatchingKeys(m, f)**, for every iteration order `it` of the entries of `m` and every loop
body: consuming the iterator is consuming the list of keys `k` with `f(m[k])`, in iteration order,
with the same body.  That list is duplicate-free, consists of keys of `m` whose value satisfies `f`,
and is a permutation of ALL such keys — so a body that never stops receives every matching key
exactly once, and a body that stops has received distinct matching keys only. -/
theorem matchingKeys_spec (f : υ → Bool) (m it : List (κ × υ)) (hp : it.Perm m)
    (hk : (m.map (·.1)).Nodup) (yield : σ → κ → σ × Bool) (st : σ) :
    let delivered := (it.filter fun kv => f kv.2).map (·.1)
    (matchingKeys f it yield st).1 = forEachUntil yield delivered st ∧
    delivered.Nodup ∧
    (∀ k ∈ delivered, ∃ v, (k, v) ∈ m ∧ f v = true) ∧
    delivered.Perm ((m.filter fun kv => f kv.2).map (·.1)) := by
  refine ⟨matchingLoop_eq_select f yield it st 0, ?_, ?_, (hp.filter _).map _⟩
  · have h1 : (it.map (·.1)).Nodup := (hp.map (·.1)).nodup_iff.2 hk
    exact (List.filter_sublist.map _).nodup h1
  · intro k hk'
    simp only [List.mem_map, List.mem_filter] at hk'
    obtain ⟨⟨k', v⟩, ⟨hm, hf⟩, rfl⟩ := hk'
    exact ⟨v, hp.mem_iff.1 hm, hf⟩

/-- with the collecting body: the first `lim` matching keys of the iteration order (all for `lim = 0`) -/
theorem matchingKeys_collect (f : υ → Bool) (it : List (κ × υ)) (lim : Nat) :
    (matchingKeys f it (collect lim) []).1 =
      if lim = 0 then (it.filter fun kv => f kv.2).map (·.1)
      else ((it.filter fun kv => f kv.2).map (·.1)).take lim := by
  unfold matchingKeys
  rw [matchingLoop_eq_select f (collect lim) it [] 0, forEachUntil_collect lim _ [] (by simp; omega)]
  simp

example : matchingKeys (fun v : Nat => v % 2 == 0) [(3, 30), (1, 11), (2, 20), (5, 50)] (collect 2) []
    = ([3, 2], 3) := by decide

/-! ## package value -/
section value
open MdsVerif.Model.Maybe
variable [Inhabited α]

/-- every `Maybe` the package can produce holds the zero value when it is absent -/
def Maybe.WF (m : Maybe α) : Prop := m.present = false → m.value = default

/-- **Maybe**: `Just(v)` is present with value `v`; `Absent()` is not present, `Get` gives the zero
value and `Ptr` nil; `GetOK` is `(Get, Present)`; `Or` keeps a present value and replaces an absent
one by `Just(o)`; `Check(v, err)` is `Just(v)` exactly when `err == nil`. -/
theorem maybe_laws (v o : α) :
    (just v).isPresent = true ∧ (just v).get = v ∧ (just v).getOK = (v, true) ∧ (just v).ptr = some v ∧
    (absent : Maybe α).isPresent = false ∧ (absent : Maybe α).get = default ∧
    (absent : Maybe α).getOK = (default, false) ∧ (absent : Maybe α).ptr = none ∧
    (just v).or o = just v ∧ (absent : Maybe α).or o = just o ∧
    check v false = just v ∧ check v true = absent := by
  simp [just, absent, Maybe.isPresent, Maybe.get, Maybe.getOK, Maybe.ptr, Maybe.or, check]

omit [Inhabited α] in
/-- `Or` always yields a present value, and never changes a present one; `m.Or(o1).Or(o2) = m.Or(o1)` -/
theorem maybe_or (m : Maybe α) (o1 o2 : α) :
    (m.or o1).isPresent = true ∧ (m.isPresent = true → m.or o1 = m) ∧ (m.or o1).or o2 = m.or o1 ∧
    (m.or o1).get = if m.isPresent then m.get else o1 := by
  cases m with
  | mk value present => cases present <;> simp [Maybe.or, just, Maybe.isPresent, Maybe.get]

/-- all constructors keep the invariant "absent ⇒ zero value" (`Get` of an absent `Maybe` is zero) -/
theorem maybe_wf (v o : α) (e : Bool) (p : Option α) (m : Maybe α) (hm : Maybe.WF m) :
    Maybe.WF (just v) ∧ Maybe.WF (absent : Maybe α) ∧ Maybe.WF (check v e) ∧ Maybe.WF (atMaybe p) ∧
    Maybe.WF (m.or o) := by
  refine ⟨by simp [Maybe.WF, just], by simp [Maybe.WF, absent], ?_, ?_, ?_⟩
  · cases e <;> simp [Maybe.WF, check, just]
  · cases p <;> simp [Maybe.WF, atMaybe, just, absent]
  · cases m with
    | mk value present => cases present <;> simp_all [Maybe.WF, Maybe.or, just]

/-- `String()`: the value's own representation when present, `Absent[T]` otherwise -/
theorem maybe_str (shw : α → String) (ty : String) (v : α) :
    (just v).str shw ty = shw v ∧ (absent : Maybe α).str shw ty = "Absent[" ++ ty ++ "]" := by
  simp [Maybe.str, just, absent]

/-- **value.go**: `At`, `AtDefault`, `AtMaybe` on nil and non-nil pointers, `Ptr`, `Cond` -/
theorem value_laws (v d x y : α) :
    atP (none : Option α) = default ∧ atP (some v) = v ∧ atP (ptr v) = v ∧
    atDefault none d = d ∧ atDefault (some v) d = v ∧
    atMaybe (none : Option α) = absent ∧ atMaybe (some v) = just v ∧
    (atMaybe (some v)).ptr = some v ∧
    Model.Maybe.cond true x y = x ∧ Model.Maybe.cond false x y = y := by
  simp [atP, ptr, atDefault, atMaybe, Model.Maybe.cond, Maybe.ptr, just]

/-- `AtMaybe` and `Ptr()` are mutually inverse (up to pointer identity) on well-formed values -/
theorem atMaybe_ptr (m : Maybe α) (hm : Maybe.WF m) (p : Option α) :
    atMaybe m.ptr = m ∧ (atMaybe p).ptr = p := by
  constructor
  · cases m with
    | mk value present =>
      cases present
      · have : value = default := hm rfl
        simp [Maybe.ptr, atMaybe, absent, this]
      · simp [Maybe.ptr, atMaybe, just]
  · cases p <;> simp [atMaybe, Maybe.ptr, absent, just]

example : ((atMaybe (none : Option Int)).or 7).get = 7 ∧ (check (5 : Int) true).get = 0 ∧
    (just (3 : Int)).str toString "int" = "3" ∧ (absent : Maybe Int).str toString "int" = "Absent[int]" := by
  decide

end value

end MdsVerif.Props.C17more
