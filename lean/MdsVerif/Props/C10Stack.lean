import MdsVerif.Props.C10
/-!
# C10 (stack) — the facts regenerated from stack/stack.go

`C10_current_stack`: every test and index expression of `Model.Stack` is a definition of `Gen.Stack`,
regenerated from stack/stack.go on every run by `extract/stack.go`; the theorem pins each of them to the
expression the proofs (`Proofs.Stack.*_def`, `Props.C10.stack_step_refines`) are about.  (A separate file so that
the `Gen` pins of the other C10 containers can be added to `Props/C10.lean` independently.)
-/
namespace MdsVerif.Props.C10
open MdsVerif.Model.Stack

/-- **C10_current_stack.**  The facts regenerated from `stack/stack.go` (`Gen.Stack`) are the pinned ones, and the
extractor recognised the statement skeleton of every method of `Stack`.  `Model.Stack` takes from them: `IsEmpty`'s
test, `Top`'s empty test and index, `Peek`'s range test and index `len-1-n`, the argument of the `Peek` inside
`Pop` and the length `Pop` truncates to, the start index of `Each`/`Slice` and `Slice`'s empty test.  The loop
tests and steps of `Each`/`Slice` and the cell `Pop` zeroes are pinned here without being wired (the model's
`walkDown` is structural).  A one-token change in any of them changes `Gen/Stack.lean` and this theorem (and the
`*_def` lemmas of `Proofs.Stack`) no longer compile. -/
theorem C10_current_stack :
    Gen.Stack.recognised = true ∧
    (∀ len, Gen.Stack.isEmptyTest len = decide (len = 0)) ∧
    (∀ len, Gen.Stack.topEmpty len = decide (len = 0)) ∧
    (∀ len, Gen.Stack.topIdx len = len - 1) ∧
    (∀ n len, Gen.Stack.peekOut n len = decide (n ≥ len)) ∧
    (∀ n len, Gen.Stack.peekIdx n len = len - 1 - n) ∧
    Gen.Stack.popPeeks = 0 ∧
    (∀ len, Gen.Stack.popZeroIdx len = len - 1) ∧
    (∀ len, Gen.Stack.popLen len = len - 1) ∧
    (∀ len, Gen.Stack.eachStart len = len - 1) ∧
    (∀ i, Gen.Stack.eachContinues i = decide (i ≥ 0)) ∧
    (∀ i, Gen.Stack.eachStep i = i - 1) ∧
    (∀ len, Gen.Stack.sliceEmpty len = decide (len = 0)) ∧
    Gen.Stack.sliceFirst = 0 ∧
    (∀ len, Gen.Stack.sliceStart len = len - 1) ∧
    (∀ i len, Gen.Stack.sliceContinues i len = decide (i < len)) ∧
    (∀ e, Gen.Stack.sliceStep e = e - 1) :=
  ⟨rfl, fun _ => rfl, fun _ => rfl, fun _ => rfl, fun _ _ => rfl, fun _ _ => rfl, rfl, fun _ => rfl, fun _ => rfl,
   fun _ => rfl, fun _ => rfl, fun _ => rfl, fun _ => rfl, rfl, fun _ => rfl, fun _ _ => rfl, fun _ => rfl⟩

/-- the wired model on a concrete stack: `Peek(1)` of `[1,2,3]` (top last) is 2, `Peek(3)` has no value,
`Peek(-1)` is Go's index panic, `Pop` returns 3 and leaves `[1,2]` -/
example : peek ([1, 2, 3] : S Nat) 1 = .opt (some 2) ∧ peek ([1, 2, 3] : S Nat) 3 = .opt none ∧
    peek ([1, 2, 3] : S Nat) (-1) = .panicIndex ∧ pop ([1, 2, 3] : S Nat) = ([1, 2], some 3) ∧
    slice ([1, 2, 3] : S Nat) = [3, 2, 1] ∧ top ([] : S Nat) = 0 := by decide

end MdsVerif.Props.C10
