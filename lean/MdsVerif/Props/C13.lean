import MdsVerif.Proofs.Mdiff
import MdsVerif.Proofs.MdiffCtx
/-!
# C13 — `mdiff.New`, `AddContext`, `Unify` produce correct chunks

All statements are about `MdsVerif.Model.Mdiff` (the functions the driver streams `C13.*`
execute) and are judged by `MdsVerif.Spec.Mdiff` (`ChunkOK`, `Ascending`, `NonAdjacent`, `patch`,
`CtxOf`, `CtxBounded`).
-/
namespace MdsVerif.Props.C13
open MdsVerif.Model.Edit MdsVerif.Model.Mdiff MdsVerif.Spec.Mdiff MdsVerif.Spec
open MdsVerif.Proofs.Mdiff

variable {α : Type} [DecidableEq α]

/-! ## New -/

omit [DecidableEq α] in
/-- **The chunks of `New`**, for every *valid* edit script `es` of `L`, `R` (validity only, no
canonicity, is used): every chunk consumes exactly `L[LStart, LEnd)` and produces exactly
`R[RStart, REnd)`; the chunks are in order, disjoint on both sides and separated by at least one
left line; replacing each chunk's left range by its output turns `L` into `R`; no chunk contains an
Emit; every chunk has a non-empty range on at least one side and hence at least one edit. -/
theorem newChunks_ok (es : List (Edit α)) (L R : List α) (h : EditScript.Valid es L R) :
    AllOK (newChunks es) L R ∧ Ascending (newChunks es) ∧ NonAdjacent (newChunks es) ∧
    patch L (newChunks es) = R ∧
    (∀ c ∈ newChunks es, ∀ e ∈ c.edits, e.op ≠ .emit) ∧
    (∀ c ∈ newChunks es, (c.lstart < c.lend ∨ c.rstart < c.rend) ∧ c.edits ≠ []) := by
  have r := newChunks_res es h
  exact ⟨r.ok, r.asc, r.na, patch_of_aligned r.ok r.al, r.noemit,
    fun c hc => ⟨r.nonempty c hc, edits_ne_nil_of_range (r.ok c hc) (r.nonempty c hc)⟩⟩

/-- **`New(L, R)`** stores its inputs and the edit script, and its chunks are correct (as in
`newChunks_ok`).  `hvalid` is `Props.C11.editScript_valid`. -/
theorem new_ok (L R : List α) (hvalid : EditScript.Valid (editScript L R) L R) :
    let d := new L R
    d.left = L ∧ d.right = R ∧ d.edits = editScript L R ∧ AllOK d.chunks L R ∧
    Ascending d.chunks ∧ NonAdjacent d.chunks ∧ patch L d.chunks = R := by
  have r := newChunks_ok (editScript L R) L R hvalid
  exact ⟨rfl, rfl, rfl, r.1, r.2.1, r.2.2.1, r.2.2.2.1⟩

/-- non-vacuity: two chunks (the F4 input) -/
example : (new ([3, 2] : List Nat) [3, 3, 2, 2]).chunks =
    [⟨[⟨.copy, [], [3]⟩], 2, 2, 2, 3⟩, ⟨[⟨.copy, [], [2]⟩], 3, 3, 4, 5⟩] ∧
    EditScript.validB (editScript ([3, 2] : List Nat) [3, 3, 2, 2]) [3, 2] [3, 3, 2, 2] = true := by
  decide
/-- non-vacuity: two Replace chunks separated by five lines -/
example : (new ([1, 2, 3, 4, 5, 6, 7, 8, 9] : List Nat) [1, 0, 3, 4, 5, 6, 7, 0, 9]).chunks =
    [⟨[⟨.replace, [2], [0]⟩], 2, 3, 2, 3⟩, ⟨[⟨.replace, [8], [0]⟩], 8, 9, 8, 9⟩] := by decide

/-! ## AddContext -/

/-- **`AddContext(n)` on correct chunks** (the code with the gap bound of commit 67e3ccb, which is
what `addContextChunks` is: `C13_current`): `findContext` never reads out of range; every chunk of
the result still consumes exactly its left range and produces exactly its right range; chunk by
chunk the result is the original chunk with at most `n` context lines (one Emit) in front and at
most `n` behind, the original edits untouched in between, both ranges grown by exactly the numbers
of context lines. -/
theorem addContext_ok (L R : List α) (n : Nat) (cs : List (Chunk α)) (hok : AllOK cs L R) :
    ∃ cs', addContextChunks L R n cs = some cs' ∧ AllOK cs' L R ∧ AllCtxOf n cs cs' := by
  obtain ⟨cs', h1, h2⟩ := addContext_rel n cs hok
  exact ⟨cs', h1, ctxRel_ok cs cs' 1 hok h2⟩

/-- **Context stays inside the gap between the original chunks**: if the chunks are in order then,
for consecutive chunks `c`, `d` with images `c'`, `d'` under `AddContext(n)`, the post-context of
`c` ends at or before `d` begins and the pre-context of `d` begins at or after `c` ends (`c'` and
`d'` themselves may overlap; `Unify` resolves that); and line numbers stay ≥ 1. -/
theorem addContext_gap (L R : List α) (n : Nat) (cs cs' : List (Chunk α)) (hok : AllOK cs L R)
    (hasc : Ascending cs) (hctx : addContextChunks L R n cs = some cs') :
    (∀ (i : Nat) (c d c' d' : Chunk α), cs[i]? = some c → cs[i + 1]? = some d →
      cs'[i]? = some c' → cs'[i + 1]? = some d' → c'.lend ≤ d.lstart ∧ c.lend ≤ d'.lstart) ∧
    (∀ c' ∈ cs', 1 ≤ c'.lstart ∧ 1 ≤ c'.rstart) := by
  obtain ⟨cs'', h1, h2⟩ := addContext_rel n cs hok
  rw [hctx] at h1
  cases h1
  exact ⟨ctxRel_gap cs cs' 1 hasc h2, fun c' hc' =>
    ⟨((ctxRel_ok cs cs' 1 hok h2).1 c' hc').l1, ((ctxRel_ok cs cs' 1 hok h2).1 c' hc').r1⟩⟩

/-- `(*Diff).AddContext` changes nothing but the chunks -/
theorem addContext_edits (d d' : Diff α) (n : Nat) (h : d.addContext? n = some d') :
    d'.edits = d.edits ∧ d'.left = d.left ∧ d'.right = d.right := by
  unfold Diff.addContext? at h
  cases hc : addContextChunks d.left d.right n d.chunks with
  | none => rw [hc] at h; cases h
  | some cs => rw [hc] at h; cases h; exact ⟨rfl, rfl, rfl⟩

/-- non-vacuity: context 1 around two Replace chunks; with context 3 the two chunks overlap (line 5
is post-context of the first and pre-context of the second; both stay inside the gap `[3, 8)`) -/
example : addContextChunks ([1, 2, 3, 4, 5, 6, 7, 8, 9] : List Nat) [1, 0, 3, 4, 5, 6, 7, 0, 9] 1
      (new ([1, 2, 3, 4, 5, 6, 7, 8, 9] : List Nat) [1, 0, 3, 4, 5, 6, 7, 0, 9]).chunks =
    some [⟨[⟨.emit, [1], []⟩, ⟨.replace, [2], [0]⟩, ⟨.emit, [3], []⟩], 1, 4, 1, 4⟩,
          ⟨[⟨.emit, [7], []⟩, ⟨.replace, [8], [0]⟩, ⟨.emit, [9], []⟩], 7, 10, 7, 10⟩] := by decide
example : (addContextChunks ([1, 2, 3, 4, 5, 6, 7, 8, 9] : List Nat) [1, 0, 3, 4, 5, 6, 7, 0, 9] 3
      (new ([1, 2, 3, 4, 5, 6, 7, 8, 9] : List Nat) [1, 0, 3, 4, 5, 6, 7, 0, 9]).chunks).map
        (fun cs => cs.map fun c => (c.lstart, c.lend)) = some [(1, 6), (5, 10)] := by decide

/-! ## Unify -/

omit [DecidableEq α] in
/-- `New`'s chunks are *aligned* (`Proofs.Mdiff.Aligned L R 1 1 cs`: walking both inputs from line 1,
the gap before each chunk is the same text, of the same length, in `L[prev.LEnd, c.LStart)` and
`R[prev.REnd, c.RStart)`, and after the last chunk the rest of `L` equals the rest of `R`).
Together with `AllOK` this implies `patch L cs = R` (`patch_of_aligned`); it is what `Unify`
needs, see `unify_ok_partial`. -/
theorem newChunks_aligned (es : List (Edit α)) (L R : List α) (h : EditScript.Valid es L R) :
    Aligned L R 1 1 (newChunks es) := (newChunks_res es h).al

/-
The statement that was asked for,

  theorem unify_ok (L R) (n) (cs cs') (hok : AllOK cs L R) (hasc : Ascending cs)
      (hna : NonAdjacent cs) (hpatch : patch L cs = R)
      (hne : ∀ c ∈ cs, c.edits ≠ [] ∧ ∀ e ∈ c.edits, e.op ≠ .emit)
      (hctx : addContextChunks L R n cs = some cs') :
      ∃ u, unifyChunks cs' = .ok u ∧ AllOK u L R ∧ Ascending u ∧ NonAdjacent u ∧ patch L u = R

is FALSE (`unify_ok_counterexample` below): `AllOK ∧ patch L cs = R` does not determine where on the
right side a pure insertion sits among equal lines, and `AddContext`/`Unify` compute the right-hand
line numbers of context from the chunk's own `RStart`.  The hypothesis that is needed instead of
`hpatch` is that the right-hand ranges are the ones that correspond to the left-hand ranges
(`Aligned`), which holds for every diff made by `New` (`newChunks_aligned`).
-/

set_option maxRecDepth 4000 in
/-- the witness: `L = [7,8]`, `R = [7,7,8,8]`, the two insertions recorded at right lines 2 and 4
(instead of 1 or 2, and 3 or 4 consistently): all hypotheses of the statement above hold, `n = 2`,
and the unified chunk is not `ChunkOK`. -/
theorem unify_ok_counterexample :
    let L : List Nat := [7, 8]
    let R : List Nat := [7, 7, 8, 8]
    let cs : List (Chunk Nat) := [⟨[⟨.copy, [], [7]⟩], 1, 1, 2, 3⟩, ⟨[⟨.copy, [], [8]⟩], 3, 3, 4, 5⟩]
    AllOK cs L R ∧ Ascending cs ∧ NonAdjacent cs ∧ patch L cs = R ∧
    (∀ c ∈ cs, c.edits ≠ [] ∧ ∀ e ∈ c.edits, e.op ≠ .emit) ∧
    (addContextChunks L R 2 cs).map (fun cs' => (unifyChunks cs').toOption.map
      (fun u => decide (AllOK u L R))) = some (some false) := by decide

/-- **`Unify` after `AddContext(n)`** on chunks that are correct, separated by at least one left
line, aligned (see `newChunks_aligned`), non-empty and free of Emits: `UnifyChunks` does not panic
(neither the nil dereference nor "context merge did not work correctly"); the resulting chunks
consume/produce exactly their ranges, are in order, disjoint on both sides, not adjacent; patching
`L` with them gives `R`; and they are aligned again.

`_partial`: compared with the statement asked for (comment above) the hypothesis `patch L cs = R`
is replaced by the stronger `Aligned L R 1 1 cs` (`Ascending cs` is then not needed).  Nothing else
is missing; with `patch L cs = R` alone the statement is false (`unify_ok_counterexample`). -/
theorem unify_ok_partial (L R : List α) (n : Nat) (cs cs' : List (Chunk α)) (hok : AllOK cs L R)
    (hna : NonAdjacent cs) (hal : Aligned L R 1 1 cs)
    (hne : ∀ c ∈ cs, c.edits ≠ [] ∧ ∀ e ∈ c.edits, e.op ≠ .emit)
    (hctx : addContextChunks L R n cs = some cs') :
    ∃ u, unifyChunks cs' = .ok u ∧ AllOK u L R ∧ Ascending u ∧ NonAdjacent u ∧ patch L u = R ∧
      Aligned L R 1 1 u := by
  obtain ⟨cs'', h1, h2⟩ := addContext_rel n cs hok
  rw [hctx] at h1
  cases h1
  obtain ⟨u, u1, u2, u3, u4, u5⟩ := unify_rel hok hna hal hne h2
  exact ⟨u, u1, u2, u3, u4, patch_of_aligned u2 u5, u5⟩

omit [DecidableEq α] in
/-- `(*Diff).Unify` changes nothing but the chunks -/
theorem unify_edits (d d' : Diff α) (h : d.unify? = .ok d') :
    d'.edits = d.edits ∧ d'.left = d.left ∧ d'.right = d.right := by
  unfold Diff.unify? at h
  cases hc : unifyChunks d.chunks with
  | error e => rw [hc] at h; cases h
  | ok cs => rw [hc] at h; cases h; exact ⟨rfl, rfl, rfl⟩

/-- `Unify` directly after `New` changes nothing (the chunks of `New` are never adjacent) -/
theorem unify_new (L R : List α) (hvalid : EditScript.Valid (editScript L R) L R) :
    (new L R).unify? = .ok (new L R) := by
  unfold Diff.unify?
  rw [show (new L R).chunks = newChunks (editScript L R) from rfl,
    unifyChunks_id _ (newChunks_res _ hvalid).na]
  rfl

/-- **The pipeline `New(L, R).AddContext(n).Unify()`**, for all inputs and every `n`
(`hvalid` is `Props.C11.editScript_valid`): neither step panics; after `AddContext` every chunk
consumes exactly `L[LStart, LEnd)` and produces exactly `R[RStart, REnd)` and is the chunk of `New`
with at most `n` context lines before and after; after `Unify` the chunks still do, are in order,
disjoint, not adjacent, and patching `L` with them gives `R`; `Edits` is the edit script throughout. -/
theorem pipeline_ok (L R : List α) (n : Nat) (hvalid : EditScript.Valid (editScript L R) L R) :
    ∃ d1 d2, (new L R).addContext? n = some d1 ∧ d1.unify? = .ok d2 ∧
      AllOK d1.chunks L R ∧ AllCtxOf n (new L R).chunks d1.chunks ∧ d1.edits = editScript L R ∧
      AllOK d2.chunks L R ∧ Ascending d2.chunks ∧ NonAdjacent d2.chunks ∧ patch L d2.chunks = R ∧
      d2.edits = editScript L R := by
  have r := newChunks_res (editScript L R) hvalid
  obtain ⟨cs', h1, h2⟩ := addContext_rel n (newChunks (editScript L R)) r.ok
  obtain ⟨u, u1, u2, u3, u4, u5⟩ := unify_rel r.ok r.na r.al
    (fun c hc => ⟨edits_ne_nil_of_range (r.ok c hc) (r.nonempty c hc), r.noemit c hc⟩) h2
  have k := ctxRel_ok _ _ 1 r.ok h2
  refine ⟨{ new L R with chunks := cs' }, { new L R with chunks := u }, ?_, ?_, k.1, k.2, rfl,
    u2, u3, u4, patch_of_aligned u2 u5, rfl⟩
  · show (addContextChunks L R n (newChunks (editScript L R))).map _ = _
    rw [h1]; rfl
  · show (unifyChunks cs').map _ = _
    rw [u1]; rfl

set_option maxRecDepth 4000 in
/-- non-vacuity: with `n = 1` the two chunks stay apart, with `n = 3` their contexts overlap in
line 5 and `Unify` merges them into one chunk covering `[1, 10)` with a single Emit `[3,4,5,6,7]`
in the middle; the F4 input with `n = 4` is merged into one correct chunk. -/
example :
    (((new ([1, 2, 3, 4, 5, 6, 7, 8, 9] : List Nat) [1, 0, 3, 4, 5, 6, 7, 0, 9]).addContext? 1).map
      fun d => (Diff.unify? d).toOption.map fun d => d.chunks.map fun c => (c.lstart, c.lend))
      = some (some [(1, 4), (7, 10)]) ∧
    (((new ([1, 2, 3, 4, 5, 6, 7, 8, 9] : List Nat) [1, 0, 3, 4, 5, 6, 7, 0, 9]).addContext? 3).map
      fun d => (Diff.unify? d).toOption.map fun d => d.chunks)
      = some (some [⟨[⟨.emit, [1], []⟩, ⟨.replace, [2], [0]⟩, ⟨.emit, [3, 4, 5, 6, 7], []⟩,
          ⟨.replace, [8], [0]⟩, ⟨.emit, [9], []⟩], 1, 10, 1, 10⟩]) ∧
    (((new ([3, 2] : List Nat) [3, 3, 2, 2]).addContext? 4).map
      fun d => (Diff.unify? d).toOption.map fun d => d.chunks)
      = some (some [⟨[⟨.emit, [3], []⟩, ⟨.copy, [], [3]⟩, ⟨.emit, [2], []⟩, ⟨.copy, [], [2]⟩],
          1, 3, 1, 5⟩]) := by decide

/-- **unify_context_bound** — "at most `n` context lines added before and after each chunk", after
`Unify`.  For chunks that are correct, separated by at least one left line, aligned, non-empty and
free of Emits (every diff of `New`: `newChunks_ok`, `newChunks_aligned`), the chunks `UnifyChunks`
returns for the result of `AddContext(n)` all satisfy `Spec.Mdiff.CtxBounded n`: in the edit list of
a unified chunk every run of Emit edits at the start (before the first change) and at the end
(after the last change) has at most `n` lines, and every run of Emit edits anywhere — in particular
between two changes merged into one chunk — has at most `2n` lines.  (After `AddContext` alone the
clause is `AllCtxOf n`, `addContext_ok`.)  Full strength: leading, trailing and interior bound. -/
theorem unify_context_bound (L R : List α) (n : Nat) (cs cs' : List (Chunk α)) (hok : AllOK cs L R)
    (hna : NonAdjacent cs) (hal : Aligned L R 1 1 cs)
    (hne : ∀ c ∈ cs, c.edits ≠ [] ∧ ∀ e ∈ c.edits, e.op ≠ .emit)
    (hctx : addContextChunks L R n cs = some cs') :
    ∃ u, unifyChunks cs' = .ok u ∧ ∀ c ∈ u, CtxBounded n c.edits := by
  obtain ⟨cs'', h1, h2⟩ := addContext_rel n cs hok
  rw [hctx] at h1
  cases h1
  obtain ⟨u, u1, u2⟩ := MdsVerif.Proofs.MdiffCtx.unify_ctx hok hna hal hne h2
  exact ⟨u, u1, fun c hc => MdsVerif.Proofs.MdiffCtx.ctxBoundedB_sound (u2 c hc)⟩

/-- the same for the pipeline `New(L, R).AddContext(n).Unify()`, every `L`, `R`, `n` -/
theorem pipeline_context_bound (L R : List α) (n : Nat) (hvalid : EditScript.Valid (editScript L R) L R) :
    ∃ d1 d2, (new L R).addContext? n = some d1 ∧ d1.unify? = .ok d2 ∧
      ∀ c ∈ d2.chunks, CtxBounded n c.edits := by
  have r := newChunks_res (editScript L R) hvalid
  obtain ⟨cs', h1, _⟩ := addContext_rel n (newChunks (editScript L R)) r.ok
  obtain ⟨u, u1, u2⟩ := unify_context_bound L R n _ cs' r.ok r.na r.al
    (fun c hc => ⟨edits_ne_nil_of_range (r.ok c hc) (r.nonempty c hc), r.noemit c hc⟩) h1
  refine ⟨{ new L R with chunks := cs' }, { new L R with chunks := u }, ?_, ?_, u2⟩
  · show (addContextChunks L R n (newChunks (editScript L R))).map _ = _
    rw [h1]; rfl
  · show (unifyChunks cs').map _ = _
    rw [u1]; rfl

set_option maxRecDepth 4000 in
/-- non-vacuity: `n = 3` on the two Replace chunks five lines apart: one unified chunk with one line
of leading context (only one exists), FIVE lines between the changes (> n, ≤ 2n) and one trailing;
it passes the check for `n = 3` and fails it for `n = 2` (interior run 5 > 4) — and a chunk with four
leading context lines fails for `n = 3` -/
example :
    (((new ([1, 2, 3, 4, 5, 6, 7, 8, 9] : List Nat) [1, 0, 3, 4, 5, 6, 7, 0, 9]).addContext? 3).map
      fun d => (Diff.unify? d).toOption.map fun d => d.chunks.map fun c =>
        (ctxBoundedB 3 c.edits, ctxBoundedB 2 c.edits)) = some (some [(true, false)]) ∧
    ctxBoundedB 3 ([⟨.emit, [1, 2, 3, 4], []⟩, ⟨.drop, [5], []⟩] : List (Edit Nat)) = false ∧
    ctxBoundedB 3 ([⟨.emit, [1, 2, 3], []⟩, ⟨.drop, [5], []⟩, ⟨.emit, [6, 7, 8, 9], []⟩] : List (Edit Nat)) = false := by
  decide

/-- **`Unify` after `AddContext(n)` after the chunking of `New`, for every valid edit script** (not
only the one `EditScript` computes): the statement asked for as `unify_ok`, at full strength for
`cs = newChunks es`. -/
theorem unify_ok_new (es : List (Edit α)) (L R : List α) (n : Nat) (cs' : List (Chunk α))
    (hvalid : EditScript.Valid es L R) (hctx : addContextChunks L R n (newChunks es) = some cs') :
    ∃ u, unifyChunks cs' = .ok u ∧ AllOK u L R ∧ Ascending u ∧ NonAdjacent u ∧ patch L u = R := by
  have r := newChunks_res es hvalid
  obtain ⟨u, h⟩ := unify_ok_partial L R n (newChunks es) cs' r.ok r.na r.al
    (fun c hc => ⟨edits_ne_nil_of_range (r.ok c hc) (r.nonempty c hc), r.noemit c hc⟩) hctx
  exact ⟨u, h.1, h.2.1, h.2.2.1, h.2.2.2.1, h.2.2.2.2.1⟩

/-! ## Regression: finding F4 (AddContext before commit 67e3ccb) and the generated fact -/

set_option maxRecDepth 4000 in
/-- **F4 witness, pinned.**  With the `AddContext` loop *before* commit 67e3ccb
(`addContextWith false`: context is not limited to the gap between neighbouring chunks),
`L = [3,2]`, `R = [3,3,2,2]`, `n = 4`: `AddContext` and `Unify` both return, but the unified chunk
list violates `ChunkOK` (the merged chunk emits the line `3` twice). -/
theorem C13_pinned_F4_witness :
    (addContextWith false ([3, 2] : List Nat) [3, 3, 2, 2] 4
        (new ([3, 2] : List Nat) [3, 3, 2, 2]).chunks).map
      (fun cs => (unifyChunks cs).toOption.map (fun u => decide (AllOK u [3, 2] [3, 3, 2, 2])))
    = some (some false) := by decide

set_option maxRecDepth 4000 in
/-- the same input with the gap bound of commit 67e3ccb (`addContextWith true`): all chunks OK -/
theorem C13_F4_fixed :
    (addContextWith true ([3, 2] : List Nat) [3, 3, 2, 2] 4
        (new ([3, 2] : List Nat) [3, 3, 2, 2]).chunks).map
      (fun cs => (unifyChunks cs).toOption.map (fun u => decide (AllOK u [3, 2] [3, 3, 2, 2])))
    = some (some true) := by decide

/-- the code that is checked today has the gap bound, and the extractor recognised its shape -/
theorem C13_current :
    Gen.MdiffFmt.addContextBoundsGap = true ∧ Gen.MdiffFmt.recognised = true := ⟨rfl, rfl⟩

end MdsVerif.Props.C13
