import MdsVerif.Proofs.Mdiff
/-!
# C13 — `mdiff.New`, `AddContext`, `Unify` produce correct chunks

All statements are about `MdsVerif.Model.Mdiff` (the functions the driver streams `C13.*`
execute) and are judged by `MdsVerif.Spec.Mdiff` (`ChunkOK`, `Ascending`, `NonAdjacent`, `patch`,
`CtxOf`).
-/
namespace MdsVerif.Props.C13
open MdsVerif.Model.Edit MdsVerif.Model.Mdiff MdsVerif.Spec.Mdiff MdsVerif.Spec
open MdsVerif.Proofs.Mdiff

variable {α : Type} [DecidableEq α]

/-! ## Regression: finding F4 (AddContext before commit 67e3ccb) and the generated fact -/

set_option maxRecDepth 4000 in
/-- **F4 witness, pinned.**  With the `AddContext` loop *before* commit 67e3ccb
(`addContextWith false`: context is not limited to the gap between neighbouring chunks),
`L = [3,2]`, `R = [3,3,2,2]`, `n = 4`: `AddContext` and `Unify` both return, but the unified chunk
list violates `ChunkOK` (the merged chunk emits the line `3` twice). -/
theorem C13_pinned_F4_witness :
    (addContextWith false ([3, 2] : List Nat) [3, 3, 2, 2] 4
        (new ([3, 2] : List Nat) [3, 3, 2, 2]).chunks).map
      (fun cs => (unifyChunks cs).toOption.map (fun u => decide (AllOK u [3, 2] [3, 3, 2, 2])))
    = some (some false) := by decide

set_option maxRecDepth 4000 in
/-- the same input with the gap bound of commit 67e3ccb (`addContextWith true`): all chunks OK -/
theorem C13_F4_fixed :
    (addContextWith true ([3, 2] : List Nat) [3, 3, 2, 2] 4
        (new ([3, 2] : List Nat) [3, 3, 2, 2]).chunks).map
      (fun cs => (unifyChunks cs).toOption.map (fun u => decide (AllOK u [3, 2] [3, 3, 2, 2])))
    = some (some true) := by decide

/-- the code that is checked today has the gap bound, and the extractor recognised its shape -/
theorem C13_current :
    Gen.MdiffFmt.addContextBoundsGap = true ∧ Gen.MdiffFmt.recognised = true := ⟨rfl, rfl⟩

end MdsVerif.Props.C13
