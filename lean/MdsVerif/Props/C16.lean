import MdsVerif.Proofs.ShellFsm
import MdsVerif.Proofs.ShellScanner
import MdsVerif.Proofs.ShellRest
/-!
# C16 — `shell.Split` / `Scanner` tokenize by POSIX quoting rules, independent of chunking

Everything below is about `MdsVerif.Model.Shell` (the functions the driver
streams `C16` and `C16.scanner` execute), instantiated with the transition
table, byte classes, initial/`Reset`/`Rest` states, `Complete` state set and
end-of-input test that `extract/shell.go` regenerates from `shell/shell.go`
into `MdsVerif.Gen.ShellTable` on every run.  The reference is
`MdsVerif.Spec.Posix.refSplit`, written from the POSIX quoting rules without
any table.  No bound on the length of inputs or histories.
-/
namespace MdsVerif.Props.C16
open MdsVerif.Gen.ShellTable MdsVerif.Model.Shell MdsVerif.Spec.Posix
open MdsVerif.Proofs.ShellFsm MdsVerif.Proofs.ShellScanner

/-- **Split = reference tokenizer**: for every byte string, the fields and the completeness flag
    computed by the table-driven scanner (pooled scanner, `Reset`, `Scanner.Split`, `Complete`)
    are those of the recursive POSIX reference tokenizer. -/
theorem fsm_eq_ref (bytes : Bytes) : split bytes = refSplit bytes := by
  have h := splitP_eq_run bytes (by decide)
  have := (fsm_eq_ref_all bytes).1
  simp only [runB, okSt] at this
  simp only [split, h, refSplit, ← this]
  rfl

/-- … and the table lookup `update[s.st][classOf[c]]` never indexes out of range on the way. -/
theorem split_no_panic (bytes : Bytes) : (splitP bytes).2.2 = false := by
  rw [splitP_eq_run bytes (by decide)]

/-- the transitions never leave the seven live states (`stNone`, whose table row is empty, is
    entered only by `Rest`, after which `Next` does not read). -/
theorem update_closed (st : St) (cl : Cl) (h : st ≠ .stNone) :
    (update st cl).1 ≠ .stNone ∧ (update st cl).2 ≠ .panic :=
  MdsVerif.Proofs.ShellFsm.update_closed st cl h

example : split [97, 32, 39, 98, 32, 99, 39, 92, 10, 100, 32, 34, 92, 120, 92, 34] =
    ([[97], [98, 32, 99, 100], [92, 120, 34]], false) := by decide
example : refSplit [97, 32, 39, 98, 32, 99, 39, 92, 10, 100, 32, 34, 92, 120, 92, 34] =
    ([[97], [98, 32, 99, 100], [92, 120, 34]], false) := by decide

/-- **`Next` stops permanently**: once `Next` has returned false — at the end of the input, after a
    read error — every later `Next` returns false and `Split`/`Each` yield nothing, whatever else is
    called in between (short of `Reset`). -/
theorem next_false_forever (s : Scanner) (h : s.next.2 = .ret false) (ops : List Op)
    (hno : ∀ op ∈ ops, Op.noReset op = true) :
    ∀ o ∈ (s.next.1.runOps ops).2, Out.noToken o :=
  (dead_run ops s.next.1 (next_false_dead s h) hno).2

/-- the same after `Rest` ("After calling this method, Next will always return false"). -/
theorem rest_then_nothing (s : Scanner) (ops : List Op) (hno : ∀ op ∈ ops, Op.noReset op = true) :
    ∀ o ∈ (s.rest.1.runOps ops).2, Out.noToken o :=
  (dead_run ops s.rest.1 (by simp [Scanner.rest]) hno).2

example : ((Scanner.new [97, 32, 98] .eof).runOps [.next, .next, .next, .next, .split]).2.length = 5 := by decide
example : (Scanner.new [32] .eof).next.2 = .ret false := by decide

/-- **`Complete` for the final token**: a new scanner run to the end of an input that ends with
    `io.EOF` yields exactly the reference fields, and `Complete` then reports the reference flag. -/
theorem complete_correct (input : Bytes) :
    (Scanner.new input .eof).split.2.1 = (refSplit input).1 ∧
    (Scanner.new input .eof).split.1.complete = (refSplit input).2 ∧
    (Scanner.new input .eof).split.2.2 = false := by
  have h := split_eq_run (Scanner.new input .eof) rfl rfl (show initState ≠ .stNone by decide)
  have := (fsm_eq_ref_all input).1
  simp only [runB, okSt] at this
  obtain ⟨h1, h2, h3, _⟩ := h
  simp only [Scanner.complete, h1, h2, h3, refSplit, ← this]
  exact ⟨rfl, rfl, trivial⟩

/-- **`Complete` for every other token**: a token that `Next` returned before the end of the input
    (`Err() == nil`) was ended by a separator, and `Complete` reports true. -/
theorem complete_mid (s : Scanner) (h : s.next.2 = .ret true) (he : s.next.1.err = .nil) :
    s.next.1.complete = true := by
  by_cases h0 : s.err = .nil
  · rw [next_live s h0] at h he ⊢
    exact nextLoop_mid_complete _ _ _ _ h he
  · rw [next_dead s h0] at h; cases h

example : (Scanner.new [39, 97] .eof).split.1.complete = false := by decide

/-- **`Rest` returns a suffix of the input**: at every point of every history of
    `Next/Split/Each/Rest` calls on a new scanner, the reader returned by `Rest` delivers a suffix
    of the input — `consumed ++ rest = input` for some `consumed` — and then ends the way the
    original reader ends.  WHICH suffix is the content of `rest_tokens` and `rest_exact_position`
    below (the input minus the shortest prefix that ends the tokens returned so far). -/
theorem rest_exact (input : Bytes) (tail : Tail) (ops : List Op) (hno : ∀ op ∈ ops, Op.noReset op = true) :
    ∃ consumed, consumed ++ (((Scanner.new input tail).runOps ops).1.rest).2.1 = input ∧
      (((Scanner.new input tail).runOps ops).1.rest).2.2 = tail := by
  obtain ⟨⟨pre, h1⟩, h2⟩ := run_suffix ops (Scanner.new input tail) hno
  exact ⟨pre, h1, h2⟩

example : ((Scanner.new [97, 32, 98, 32, 99] .eof).runOps [.next]).1.rest.2.1 = [98, 32, 99] := by decide

/-- **… and the consumed bytes are exactly those of the tokens seen**: after `k` calls of `Next`
    that each returned a token before the end of the input (`nexts`), the bytes `Rest` hands back
    are the input minus a prefix `consumed` whose reference fields are exactly those `k` tokens
    (all complete): nothing of a later token has been consumed, nothing of a returned token is left. -/
theorem rest_tokens (input : Bytes) (tail : Tail) (k : Nat) (s : Scanner) (toks : List Bytes)
    (h : nexts k (Scanner.new input tail) = some (s, toks)) :
    ∃ consumed, consumed ++ s.rest.2.1 = input ∧ s.rest.2.2 = tail ∧ refSplit consumed = (toks, true) := by
  obtain ⟨consumed, h1, h2, h3⟩ := nexts_feed k (Scanner.new input tail) s toks rfl rfl h
  refine ⟨consumed, h1, h3, ?_⟩
  have hr := run_of_feed consumed .stBreak [] (by decide)
  rw [h2] at hr
  have := (fsm_eq_ref_all consumed).1
  simp only [runB, hr] at this
  rw [refSplit, ← this]
  simp [run, eofNoToken, okSt, completeStates]

example : (nexts 2 (Scanner.new [97, 32, 39, 98, 32, 99, 39, 10, 100] .eof)).map (fun p => (p.1.rem, p.2)) =
    some ([100], [[97], [98, 32, 99]]) := by decide

/-- **`Rest` is exact — the position**: after `k` calls of `Next` that each returned a token before
    the end of the input, the bytes consumed are exactly `Spec.Posix.consumedPrefix toks input`: the
    SHORTEST prefix of the input whose reference tokenisation yields exactly the `k` tokens, all
    complete, with the last one terminated (`endsTokens`: a further ordinary byte would start a new
    field) — computed from the reference tokenizer alone, and it is what the driver's verdict for
    `Rest` compares the implementation's bytes with.  `Rest` hands back the input minus exactly that
    prefix: not a byte more (nothing of a later token, no blank after the separator) and not a byte
    less.  With `k = 0` the prefix is empty (`Rest` on a new scanner returns the whole input). -/
theorem rest_exact_position (input : Bytes) (tail : Tail) (k : Nat) (s : Scanner) (toks : List Bytes)
    (h : nexts k (Scanner.new input tail) = some (s, toks)) :
    ∃ consumed, consumedPrefix toks input = some consumed ∧ consumed ++ s.rest.2.1 = input ∧
      s.rest.2.2 = tail ∧ endsTokens toks consumed = true ∧
      ∀ p q, p ++ q = consumed → q ≠ [] → endsTokens toks p = false := by
  obtain ⟨c, h1, h2, h3⟩ := MdsVerif.Proofs.ShellRest.rest_after_consumedPrefix input tail k s toks h
  obtain ⟨c', g1, g2, g3, g4⟩ := MdsVerif.Proofs.ShellRest.consumed_shortest input tail k s toks h
  have : c = c' := List.append_cancel_right (h2.trans g1.symm)
  subst this
  exact ⟨c, h1, h2, h3, g3, g4⟩

/-- non-vacuity: two tokens of `a  'b c'⏎  d`: consumed `a  'b c'⏎` (8 bytes: up to and including the
    newline that ended the second token, not the blanks after it), `Rest` returns `  d`; the prefix
    without the newline and the prefix with one more blank do not qualify as shortest -/
example :
    (nexts 2 (Scanner.new [97, 32, 32, 39, 98, 32, 99, 39, 10, 32, 32, 100] .eof)).map
      (fun p => (p.1.rest.2.1, p.2)) = some ([32, 32, 100], [[97], [98, 32, 99]]) ∧
    consumedPrefix [[97], [98, 32, 99]] [97, 32, 32, 39, 98, 32, 99, 39, 10, 32, 32, 100] =
      some [97, 32, 32, 39, 98, 32, 99, 39, 10] ∧
    endsTokens [[97], [98, 32, 99]] [97, 32, 32, 39, 98, 32, 99, 39] = false ∧
    endsTokens [[97], [98, 32, 99]] [97, 32, 32, 39, 98, 32, 99, 39, 10, 32] = true ∧
    consumedPrefix [[97]] [97] = none := by decide

/-- **Chunking independence — what is and is not proved.**  This is a congruence over an ABSTRACT
    reader (`Model.Shell.Reader`: a buffer plus a list of fragments, `readByte` taking the next byte
    of their concatenation): the model scanner is a function of the byte sequence its reader
    delivers, so two such readers that fragment the same bytes differently (including empty reads)
    give identical outputs for every call history.  It is NOT a statement about `bufio.Reader`.
    That the Go `Scanner` sees its input as that byte sequence rests on: the extractor fact
    `readByte_only` (the only methods called on the `bufio.Reader` are `ReadByte` and `Reset`,
    re-read from `shell.go` on every run), trust in `bufio.Reader.ReadByte`, and the stream
    `C16.scanner`, which runs every short input under every cut set (and random cut sets, empty
    reads, failing readers beyond) against the model fed the concatenation. -/
theorem chunking_independent (r₁ r₂ : Reader)
    (h : r₁.buf ++ r₁.chunks.flatten = r₂.buf ++ r₂.chunks.flatten) (tail : Tail) (ops : List Op) :
    (Scanner.new r₁.drain tail).runOps ops = (Scanner.new r₂.drain tail).runOps ops := by
  rw [drain_eq, drain_eq, h]

theorem drain_flatten (chunks : List Bytes) (tail : Tail) :
    (Reader.mk [] chunks tail).drain = chunks.flatten := by
  rw [drain_eq]; rfl

/-- the extractor's reading of the Go source: the only methods ever called on the `bufio.Reader` -/
theorem readByte_only : bufUses = ["ReadByte", "Reset"] := rfl

example : (Reader.mk [] [[97], [], [32, 98], []] .eof).drain = [97, 32, 98] := by decide

end MdsVerif.Props.C16
