import MdsVerif.Proofs.MstrSplit
/-!
# C20 (continued) — `mstr.Split` and `mstr.Lines` split as their documentation says, on every input

`Model/MstrSplit.lean` mirrors `mstr.Split` / `mstr.Lines` **and** the loops of
`strings.Split` below them (`genSplit` with its pre-computed `Count`, its clamp
and its loop bound; `explode` for the empty separator; `TrimSuffix`).  Byte
strings are `List UInt8`, a result is `Option (List Bytes)` with `none` = the
nil slice (also what running out of fuel would produce).  The theorems below
hold for **every** byte string and separator — no length bound:

* the result is nil exactly for the empty input, otherwise a non-empty slice
  (so the model never runs out of fuel; `index_bound` / `runeSize_le`: no slice
  expression of the loops is out of range);
* non-empty separator: joining the pieces with the separator gives the input
  back, no piece contains the separator, and there are exactly
  `Count(s, sep) + 1` pieces (neither the bound `i < n` nor the clamp
  `n > len(s)+1` ever cuts the loop short); `index` itself is the *first*
  occurrence (`index_spec`);
* empty separator: the pieces concatenate to the input, and each is non-empty
  and either one well-formed UTF-8 character (Unicode Table 3-7) or a single
  byte; there are `runeCount s` of them;
* `Lines`: the lines joined by `"\n"` are the input without **one** trailing
  newline, no line contains a newline, and (one-byte separator) this
  decomposition is the only one, so `Lines` is *the* list of lines.
-/
namespace MdsVerif.Props.C20more
open MdsVerif.Model.MstrSplit MdsVerif.Proofs.MstrSplit
open MdsVerif.Spec.Bytes (charLen)

/-- `index s sep = some m` iff `sep` occurs at offset `m` and at no earlier offset -/
theorem index_spec (s sep : Bytes) (m : Nat) :
    index s sep = some m ↔ (sep <+: s.drop m ∧ ∀ j, j < m → ¬ sep <+: s.drop j) :=
  MdsVerif.Proofs.MstrSplit.index_spec s sep m

/-- `index s sep = none` iff `sep` occurs nowhere in `s` -/
theorem index_none_iff (s sep : Bytes) : index s sep = none ↔ ∀ j, ¬ sep <+: s.drop j :=
  MdsVerif.Proofs.MstrSplit.index_none_iff s sep

/-- the slice expressions `s[:m]`, `s[m+len(sep):]` are in range -/
theorem index_bound (s sep : Bytes) (m : Nat) (h : index s sep = some m) : m + sep.length ≤ s.length :=
  MdsVerif.Proofs.MstrSplit.index_bound h

/-- the model's `join` (used nowhere below) is `List.intercalate` -/
theorem join_is_intercalate (sep : Bytes) (ps : List Bytes) : join sep ps = List.intercalate sep ps :=
  join_eq_intercalate sep ps

theorem split_of_ne {s : Bytes} (hs : s ≠ []) (sep : Bytes) : split s sep = genSplit s sep := by
  cases s with
  | nil => exact absurd rfl hs
  | cons b t => simp [split]

theorem lines_of_ne {s : Bytes} (hs : s ≠ []) : lines s = genSplit (trimSuffixNL s) [10] := by
  cases s with
  | nil => exact absurd rfl hs
  | cons b t => simp [lines]

theorem split_some_ne {s sep : Bytes} {ps : List Bytes} (h : split s sep = some ps) : s ≠ [] := by
  rintro rfl; simp [split] at h

theorem lines_some_ne {s : Bytes} {ps : List Bytes} (h : lines s = some ps) : s ≠ [] := by
  rintro rfl; simp [lines] at h

/-! ## Split -/

/-- nil for the empty input (whatever the separator); for every other input a non-nil, non-empty
slice — no panic, no fuel exhaustion -/
theorem C20_split_empty (s sep : Bytes) :
    split [] sep = none ∧ (s ≠ [] → ∃ ps, split s sep = some ps ∧ ps ≠ []) := by
  refine ⟨rfl, fun hs => ?_⟩
  rw [split_of_ne hs]
  by_cases hsep : sep = []
  · subst hsep
    obtain ⟨ps, h1, _, h3, _⟩ := explode_spec s hs
    refine ⟨ps, h1, ?_⟩
    rintro rfl
    exact hs ((runeCount_eq_zero s).mp h3.symm)
  · obtain ⟨c, ps, _, h2, h3, _⟩ := genSplit_spec s sep hsep
    exact ⟨ps, h2, by rintro rfl; simp at h3⟩

/-- joining the pieces with the separator gives the input back -/
theorem C20_split_join (s sep : Bytes) (ps : List Bytes) (hsep : sep ≠ []) (h : split s sep = some ps) :
    List.intercalate sep ps = s := by
  rw [split_of_ne (split_some_ne h)] at h
  obtain ⟨c, ps', _, h2, _, h4, _⟩ := genSplit_spec s sep hsep
  rw [h2, Option.some.injEq] at h; subst h
  rw [← join_eq_intercalate]; exact h4

/-- no piece contains the separator -/
theorem C20_split_sepfree (s sep : Bytes) (ps : List Bytes) (hsep : sep ≠ []) (h : split s sep = some ps) :
    ∀ p ∈ ps, index p sep = none := by
  rw [split_of_ne (split_some_ne h)] at h
  obtain ⟨c, ps', _, h2, _, _, h5⟩ := genSplit_spec s sep hsep
  rw [h2, Option.some.injEq] at h; subst h
  exact h5

/-- exactly `Count(s, sep) + 1` pieces: the bound `i < n` and the clamp never cut the loop short -/
theorem C20_split_count (s sep : Bytes) (hsep : sep ≠ []) (hs : s ≠ []) :
    ∃ c ps, count s sep = some c ∧ split s sep = some ps ∧ ps.length = c + 1 := by
  rw [split_of_ne hs]
  obtain ⟨c, ps, h1, h2, h3, _⟩ := genSplit_spec s sep hsep
  exact ⟨c, ps, h1, h2, h3⟩

/-- no occurrence of the separator: the input is the only piece -/
theorem C20_split_nosep (s sep : Bytes) (hs : s ≠ []) (h : index s sep = none) : split s sep = some [s] := by
  have hsep : sep ≠ [] := by
    rintro rfl
    exact (index_none_iff s []).mp h 0 List.nil_prefix
  have he : sep.isEmpty = false := by cases sep <;> simp_all
  rw [split_of_ne hs]
  simp [genSplit, he, count, countLoop, h, genSplitLoop]

/-- empty separator: the pieces concatenate to the input, each is non-empty and one well-formed
UTF-8 character or a single byte, and there are `runeCount s` of them -/
theorem C20_split_emptysep (s : Bytes) (hs : s ≠ []) :
    ∃ ps, split s [] = some ps ∧ ps.flatten = s ∧ ps.length = runeCount s ∧
      ∀ p ∈ ps, p ≠ [] ∧ (charLen p = p.length ∨ p.length = 1) := by
  rw [split_of_ne hs]
  exact explode_spec s hs

/-! ## Lines -/

theorem C20_lines_empty (s : Bytes) :
    lines [] = none ∧ (s ≠ [] → ∃ ls, lines s = some ls ∧ ls ≠ []) := by
  refine ⟨rfl, fun hs => ?_⟩
  rw [lines_of_ne hs]
  obtain ⟨c, ps, _, h2, h3, _⟩ := genSplit_spec (trimSuffixNL s) [10] (by simp)
  exact ⟨ps, h2, by rintro rfl; simp at h3⟩

/-- `trimSuffixNL` removes exactly one trailing newline if there is one -/
theorem trimSuffixNL_char (s : Bytes) :
    (s = trimSuffixNL s ∨ s = trimSuffixNL s ++ [10]) ∧ (∀ t, s = t ++ [10] → trimSuffixNL s = t) :=
  ⟨trimSuffixNL_cases s, fun t h => h ▸ trimSuffixNL_append t⟩

/-- the lines joined with newlines are the input without one trailing newline -/
theorem C20_lines_join (s : Bytes) (ls : List Bytes) (h : lines s = some ls) :
    List.intercalate [10] ls = trimSuffixNL s ∧
    (s = trimSuffixNL s ∨ s = trimSuffixNL s ++ [10]) := by
  rw [lines_of_ne (lines_some_ne h)] at h
  obtain ⟨c, ps, _, h2, _, h4, _⟩ := genSplit_spec (trimSuffixNL s) [10] (by simp)
  rw [h2, Option.some.injEq] at h; subst h
  exact ⟨by rw [← join_eq_intercalate]; exact h4, trimSuffixNL_cases s⟩

/-- no line contains a newline -/
theorem C20_lines_nonl (s : Bytes) (ls : List Bytes) (h : lines s = some ls) : ∀ l ∈ ls, (10 : UInt8) ∉ l := by
  rw [lines_of_ne (lines_some_ne h)] at h
  obtain ⟨c, ps, _, h2, _, _, h5⟩ := genSplit_spec (trimSuffixNL s) [10] (by simp)
  rw [h2, Option.some.injEq] at h; subst h
  exact fun l hl => (index_single_none 10 l).mp (h5 l hl)

/-- a lone newline is one empty line (not two, not none) -/
theorem C20_lines_only_nl : lines [10] = some [[]] := by decide

/-- `Lines` is *the* decomposition: any non-empty list of newline-free pieces whose join is the
input without one trailing newline is what `Lines` returns -/
theorem C20_lines_unique (s : Bytes) (qs : List Bytes) (hs : s ≠ []) (hq : qs ≠ [])
    (hfree : ∀ q ∈ qs, (10 : UInt8) ∉ q) (hjoin : List.intercalate [10] qs = trimSuffixNL s) :
    lines s = some qs := by
  obtain ⟨ls, h1, h2⟩ := (C20_lines_empty s).2 hs
  have hj := (C20_lines_join s ls h1).1
  rw [h1, join_single_unique 10 ls qs h2 hq (C20_lines_nonl s ls h1) hfree
    (by rw [join_eq_intercalate, join_eq_intercalate, hj, hjoin])]

/-- the same for `Split` with a one-byte separator -/
theorem C20_split_unique (s : Bytes) (c : UInt8) (qs : List Bytes) (hs : s ≠ []) (hq : qs ≠ [])
    (hfree : ∀ q ∈ qs, c ∉ q) (hjoin : List.intercalate [c] qs = s) :
    split s [c] = some qs := by
  obtain ⟨ps, h1, h2⟩ := (C20_split_empty s [c]).2 hs
  have hj := C20_split_join s [c] ps (by simp) h1
  have hf := C20_split_sepfree s [c] ps (by simp) h1
  rw [h1, join_single_unique c ps qs h2 hq (fun p hp => (index_single_none c p).mp (hf p hp)) hfree
    (by rw [join_eq_intercalate, join_eq_intercalate, hj, hjoin])]

/-! ## non-vacuity: concrete, non-trivial instances evaluated by the kernel -/

-- "a,b," on ","  →  ["a" "b" ""]  (trailing separator gives a trailing empty piece)
example : split [0x61, 0x2c, 0x62, 0x2c] [0x2c] = some [[0x61], [0x62], []] := by decide
example : List.intercalate [0x2c] [[0x61], [0x62], []] = [0x61, 0x2c, 0x62, 0x2c] := by decide
example : count [0x61, 0x2c, 0x62, 0x2c] [0x2c] = some 2 := by decide
-- overlapping occurrences are consumed left to right: "aaaaa" on "aa" → ["" "" "a"]
example : split [0x61, 0x61, 0x61, 0x61, 0x61] [0x61, 0x61] = some [[], [], [0x61]] := by decide
example : index [0x61, 0x62, 0x61, 0x62, 0x61] [0x62, 0x61, 0x62] = some 1 := by decide
example : index [0x61] [0x61, 0x61] = none := by decide
example : index [0x61, 0x62] [] = some 0 := by decide
-- separator longer than / equal to the string
example : split [0x61] [0x61, 0x61] = some [[0x61]] := by decide
example : split [0x61, 0x61] [0x61, 0x61] = some [[], []] := by decide
example : split [] [0x2c] = none := by decide
example : split [] [] = none := by decide
-- empty separator: "é€" then a truncated "€" (e2 82), a stray continuation byte and 'a'
example : split [0xc3, 0xa9, 0xe2, 0x82, 0xac, 0xe2, 0x82, 0x80, 0x61] [] =
    some [[0xc3, 0xa9], [0xe2, 0x82, 0xac], [0xe2, 0x82, 0x80], [0x61]] := by decide
example : split [0xe2, 0x82, 0x61, 0x80] [] = some [[0xe2], [0x82], [0x61], [0x80]] := by decide
example : runeCount [0xe2, 0x82, 0x61, 0x80] = 4 := by decide
-- Lines: "a\nb\n" → ["a" "b"], "a\n\n" → ["a" ""], "\n" → [""], "" → nil
example : lines [0x61, 10, 0x62, 10] = some [[0x61], [0x62]] := by decide
example : lines [0x61, 10, 10] = some [[0x61], []] := by decide
example : lines [10, 0x61] = some [[], [0x61]] := by decide
example : lines [] = none := by decide
example : trimSuffixNL [0x61, 10, 10] = [0x61, 10] := by decide

end MdsVerif.Props.C20more
