import MdsVerif.Proofs.Lock
import MdsVerif.Proofs.LockRT
import MdsVerif.Model.Cache
import MdsVerif.Gen.CacheLock
import MdsVerif.Props.C08
/-!
# C09 — `cache.Cache` under concurrency: the locking discipline and what it implies

What a theorem can carry here is the *logic* of the guarantee: (1) every
method of `Cache` takes the one mutex first and releases it by `defer`
(`all_methods_locked`, decided over the table regenerated from cache.go on
every run), and (2) under that discipline every interleaving of calls is
explained by running the calls atomically in lock-acquisition order
(`C09_lock_linearizable`), for the sequential cache model of C08 in particular
(`C09_cache`).  Goroutine schedules, the Go memory model, `sync.Mutex` itself
and data races are outside any Lean model: they are exercised by the harness
(race detector + linearizability search over recorded histories, stream C09).
-/
namespace MdsVerif.Props.C09
open MdsVerif.Proofs.Lock MdsVerif.Model

/-- the methods the extractor must find, sorted -/
def expectedMethods : List String := ["Clear", "Get", "Has", "Len", "Put", "Remove", "Size"]

/-- **locking discipline**: every method declared on `Cache` starts with `c.μ.Lock()`, continues with
`defer c.μ.Unlock()`, and contains no other lock operation, `go` statement or channel operation. -/
theorem all_methods_locked :
    Gen.CacheLock.recognised = true ∧
    Gen.CacheLock.methods.map (·.name) = expectedMethods ∧
    ∀ m ∈ Gen.CacheLock.methods, m.locksFirst = true ∧ m.defersUnlock = true ∧ m.noOtherSync = true := by
  decide

/-- **lock linearizability** (generic in the method bodies): see `Proofs.Lock.reach_inv`. -/
theorem C09_lock_linearizable {σ Loc Op Res : Type} (prog : Op → Body σ Loc Res) (s0 : σ)
    (c : Conf σ Loc Op Res) (h : Reach prog (initConf s0) c) :
    -- every completed call's result is the atomic result at its place in lock-acquisition order
    LogOK prog s0 c.log ∧
    -- whenever the lock is free the shared state is the state of that sequential run
    (c.lock = none → c.shared = seqState prog s0 c.log) ∧
    -- every result handed back to a caller belongs to a logged (linearized) call
    (∀ t op r, c.ph t = .done op r → (t, op, r) ∈ c.log) := by
  have inv := reach_inv prog s0 c h
  exact ⟨inv.logok, fun hl => (inv.free hl).1, inv.results⟩

/-- **real-time order**: along every execution (every `Reach`able configuration has such a trace,
`Reach.toLReach`), with `inv`/`resp` the events a client observes and `lin` the release of the lock:
(1) the lock-acquisition-order log is exactly the sequence of linearization events;
(2) every thread's events form a prefix of `(inv · lin · resp)*` with matching operation and result, i.e. each
call takes effect between its invocation and its response;
(3) in particular every response is preceded by its own linearization point — so a call that responded before
another was invoked precedes it in the log: the explaining sequential order respects real-time order. -/
theorem C09_realtime {σ Loc Op Res : Type} (prog : Op → Body σ Loc Res) (s0 : σ)
    (evs : List (Ev Op Res)) (c : Conf σ Loc Op Res) (h : LReach prog (initConf s0) evs c) :
    c.log = lins evs ∧
    (∀ t, Run t (.idle : CallSt Op Res) evs (phaseSt (c.ph t))) ∧
    (∀ t op r pre post, evs = pre ++ .resp t op r :: post →
      ∃ p1 p2, pre = p1 ++ .lin t op r :: p2 ∧ ∀ e ∈ p2, e.tid ≠ t) := by
  obtain ⟨h1, h2⟩ := lreach_trace prog s0 evs c h
  refine ⟨h1, h2, fun t op r pre post he => ?_⟩
  rcases (h2 t).resp_after_lin pre post op r he with ⟨hs, _⟩ | h3
  · cases hs
  · exact h3

theorem C09_every_execution_has_a_trace {σ Loc Op Res : Type} (prog : Op → Body σ Loc Res) (s0 : σ)
    (c : Conf σ Loc Op Res) (h : Reach prog (initConf s0) c) : ∃ evs, LReach prog (initConf s0) evs c :=
  Reach.toLReach prog h

/-- the cache methods as bodies over the sequential model of C08 (one micro-step each; the theorem above
holds for any finer decomposition with the same atomic meaning) -/
def cacheProg (cfg : Heapq.Cfg) (sizeOf : Nat → Int) : Cache.Op → Body Cache.Cache (Option Cache.Out) (Option Cache.Out) :=
  fun op => { steps := [fun c _ => let r := Cache.step cfg sizeOf c op; (r.1, some r.2)], init := none, ret := id }

theorem cacheProg_atomic (cfg : Heapq.Cfg) (sizeOf : Nat → Int) (op : Cache.Op) (c : Cache.Cache) :
    atomic (cacheProg cfg sizeOf op) c = ((Cache.step cfg sizeOf c op).1, some (Cache.step cfg sizeOf c op).2) := rfl

/-- **C09 for the cache model**: under every interleaving, the calls that have completed are explained,
in lock-acquisition order, by the sequential cache model of C08 — results and shared state alike. -/
theorem C09_cache (cfg : Heapq.Cfg) (sizeOf : Nat → Int) (c0 : Cache.Cache)
    (c : Conf Cache.Cache (Option Cache.Out) Cache.Op (Option Cache.Out))
    (h : Reach (cacheProg cfg sizeOf) (initConf c0) c) :
    LogOK (cacheProg cfg sizeOf) c0 c.log ∧ (c.lock = none → c.shared = seqState (cacheProg cfg sizeOf) c0 c.log) :=
  let r := C09_lock_linearizable (cacheProg cfg sizeOf) c0 c h
  ⟨r.1, r.2.1⟩

/-! ## corollaries for the cache instance: the C08 theorems hold of every concurrent execution

The shared state of a reachable configuration with the lock free is the state of a *sequential* run of the
C08 model (`C09_cache`), so everything C08 proves about sequential histories from the empty cache transfers
to every interleaving. -/

/-- the operations of the completed calls, in lock-acquisition order -/
def logOps (log : List (Nat × Cache.Op × Option Cache.Out)) : List Cache.Op := log.map (·.2.1)

theorem seqState_cache (cfg : Heapq.Cfg) (sizeOf : Nat → Int) (c0 : Cache.Cache)
    (log : List (Nat × Cache.Op × Option Cache.Out)) :
    seqState (cacheProg cfg sizeOf) c0 log = Proofs.Cache.exec cfg sizeOf c0 (logOps log) := by
  induction log generalizing c0 with
  | nil => rfl
  | cons x log ih =>
    obtain ⟨t, op, r⟩ := x
    simp only [seqState, cacheProg_atomic, logOps, List.map_cons, Proofs.Cache.exec]
    exact ih _

theorem logOK_cache (cfg : Heapq.Cfg) (sizeOf : Nat → Int) (c0 : Cache.Cache)
    (log : List (Nat × Cache.Op × Option Cache.Out)) (h : LogOK (cacheProg cfg sizeOf) c0 log) :
    log.map (·.2.2) = (Proofs.Cache.outs cfg sizeOf c0 (logOps log)).map some := by
  induction log generalizing c0 with
  | nil => rfl
  | cons x log ih =>
    obtain ⟨t, op, r⟩ := x
    obtain ⟨h1, h2⟩ := h
    simp only [cacheProg_atomic] at h1 h2
    simp only [List.map_cons, logOps, Proofs.Cache.outs, h1]
    exact congrArg _ (ih _ h2)

/-- **C09 ∘ C08, accounting under concurrency.**  In every configuration reachable from the empty cache
`cache.New(limit, LRU())` by any interleaving of calls (any number of threads), whenever the lock is free:
the shared cache is the state of the sequential run of the completed calls in lock-acquisition order; it
satisfies the C08 invariant `Inv` (exact index, `count`, `size = Σ sizeOf`), in particular
`0 ≤ size ≤ limit` and the limit is unchanged; the results of the completed calls are exactly the outputs of
that sequential run, none of them a panic; and **every result handed back** to a caller (`ph t = done op r`)
equals the sequential result at its place in the log.  For every heap configuration of the class `CfgOK`
(pinned or repaired) and every `sizeOf ≥ 0`. -/
theorem C09_size_le_limit (cfg : Heapq.Cfg) (ok : Proofs.Cache.CfgOK cfg) (sizeOf : Nat → Int)
    (hs : ∀ v, 0 ≤ sizeOf v) (limit : Int) (hl : 0 < limit)
    (c : Conf Cache.Cache (Option Cache.Out) Cache.Op (Option Cache.Out))
    (h : Reach (cacheProg cfg sizeOf) (initConf (Props.C08.empty limit)) c) :
    (c.lock = none →
      c.shared = Proofs.Cache.exec cfg sizeOf (Props.C08.empty limit) (logOps c.log) ∧
      Proofs.Cache.Inv sizeOf c.shared ∧ 0 ≤ c.shared.size ∧ c.shared.size ≤ limit ∧ c.shared.limit = limit) ∧
    c.log.map (·.2.2) = (Proofs.Cache.outs cfg sizeOf (Props.C08.empty limit) (logOps c.log)).map some ∧
    (∀ e ∈ c.log, ∀ m, e.2.2 ≠ some (.panic m)) ∧
    (∀ t op r, c.ph t = .done op r → ∃ pre post, c.log = pre ++ (t, op, r) :: post ∧
      r = some (Cache.step cfg sizeOf (Proofs.Cache.exec cfg sizeOf (Props.C08.empty limit) (logOps pre)) op).2) := by
  obtain ⟨hlog, hfree, hres⟩ := C09_lock_linearizable (cacheProg cfg sizeOf) (Props.C08.empty limit) c h
  obtain ⟨inv, hlim, hnp⟩ := Props.C08.C08_accounting cfg ok sizeOf hs limit hl (logOps c.log)
  have houts := logOK_cache cfg sizeOf _ c.log hlog
  refine ⟨fun hl0 => ?_, houts, ?_, ?_⟩
  · have hsh : c.shared = Proofs.Cache.exec cfg sizeOf (Props.C08.empty limit) (logOps c.log) := by
      rw [hfree hl0, seqState_cache]
    rw [hsh]
    refine ⟨rfl, inv, ?_, ?_, hlim⟩
    · rw [inv.size]; exact Proofs.Cache.sizeSum_nonneg hs _
    · have := inv.le; rw [hlim] at this; exact this
  · intro e he m hm
    have h1 : e.2.2 ∈ c.log.map (·.2.2) := List.mem_map.2 ⟨e, he, rfl⟩
    rw [houts, hm] at h1
    obtain ⟨o, ho, hoe⟩ := List.mem_map.1 h1
    exact hnp o ho m (Option.some.inj hoe)
  · intro t op r hd
    obtain ⟨pre, post, hsplit⟩ := List.append_of_mem (hres t op r hd)
    refine ⟨pre, post, hsplit, ?_⟩
    have := logOK_at (cacheProg cfg sizeOf) (Props.C08.empty limit) pre post (t, op, r) (hsplit ▸ hlog)
    simp only [cacheProg_atomic, seqState_cache] at this
    exact this

/-- **C09 ∘ C08, eviction callbacks under concurrency.**  In every reachable configuration with the lock
free, the callback log followed by the entries still present is a permutation of everything that entered
through a successful `Put` of the completed calls: **each departing entry was reported exactly once**, with
its key and value, and nothing else was reported — whatever the interleaving. -/
theorem C09_callbacks_once (cfg : Heapq.Cfg) (ok : Proofs.Cache.CfgOK cfg) (sizeOf : Nat → Int)
    (hs : ∀ v, 0 ≤ sizeOf v) (limit : Int) (hl : 0 < limit)
    (c : Conf Cache.Cache (Option Cache.Out) Cache.Op (Option Cache.Out))
    (h : Reach (cacheProg cfg sizeOf) (initConf (Props.C08.empty limit)) c) (hfree : c.lock = none) :
    (c.shared.evicted ++ Proofs.Cache.ents c.shared).Perm
      (Proofs.Cache.entered cfg sizeOf (Props.C08.empty limit) (logOps c.log)) := by
  have hsh : c.shared = Proofs.Cache.exec cfg sizeOf (Props.C08.empty limit) (logOps c.log) := by
    rw [(C09_cache cfg sizeOf _ c h).2 hfree, seqState_cache]
  rw [hsh]
  exact (Props.C08.C08_callbacks cfg ok sizeOf hs).2 limit (logOps c.log) hl

/-- both corollaries at the configuration the driver runs (regenerated from heapq.go) -/
theorem C09_size_le_limit_current (sizeOf : Nat → Int) (hs : ∀ v, 0 ≤ sizeOf v) (limit : Int) (hl : 0 < limit)
    (c : Conf Cache.Cache (Option Cache.Out) Cache.Op (Option Cache.Out))
    (h : Reach (cacheProg Drv.C05.cfg sizeOf) (initConf (Props.C08.empty limit)) c) (hfree : c.lock = none) :
    Proofs.Cache.Inv sizeOf c.shared ∧ 0 ≤ c.shared.size ∧ c.shared.size ≤ limit :=
  let r := (C09_size_le_limit Drv.C05.cfg Props.C08.current_cfg_ok.1 sizeOf hs limit hl c h).1 hfree
  ⟨r.2.1, r.2.2.1, r.2.2.2.1⟩

/-- non-vacuity of the cache corollaries: two threads `Put` into a cache of limit 1 (the second invoked
before the first acquires the lock); the reachable configuration has the lock free, two logged calls, one
entry evicted and reported -/
example : ∃ c : Conf Cache.Cache (Option Cache.Out) Cache.Op (Option Cache.Out),
    Reach (cacheProg Props.C08.pinned (fun _ => 1)) (initConf (Props.C08.empty 1)) c ∧ c.lock = none ∧
    logOps c.log = [.put 1 10, .put 2 20] ∧ c.shared.evicted = [(1, 10)] ∧ c.shared.size = 1 := by
  let prog := cacheProg Props.C08.pinned (fun _ => 1)
  let c0 : Conf Cache.Cache (Option Cache.Out) Cache.Op (Option Cache.Out) := initConf (Props.C08.empty 1)
  let c1 : Conf _ _ _ _ := { c0 with ph := upd c0.ph 0 (.pending (.put 1 10)) }
  let c2 : Conf _ _ _ _ := { c1 with ph := upd c1.ph 1 (.pending (.put 2 20)) }
  let c3 : Conf _ _ _ _ := { c2 with lock := some 0, ph := upd c2.ph 0 (.inCS (.put 1 10) (prog (.put 1 10)).steps none) }
  have r3 : Reach prog c0 c3 :=
    .step (.step (.step .refl (Step.invoke c0 0 (.put 1 10) rfl)) (Step.invoke c1 1 (.put 2 20) rfl))
      (Step.acquire c2 0 (.put 1 10) rfl rfl)
  obtain ⟨m, hm⟩ : ∃ m, (prog (.put 1 10)).steps = [m] := ⟨_, rfl⟩
  let c4 : Conf _ _ _ _ := { c3 with shared := (m c3.shared none).1, ph := upd c3.ph 0 (.inCS (.put 1 10) [] (m c3.shared none).2) }
  have r4 : Reach prog c0 c4 := .step r3 (Step.micro c3 0 (.put 1 10) m [] none (by simp [c3, upd, hm]) rfl)
  let c5 : Conf _ _ _ _ := { c4 with lock := none, ph := upd c4.ph 0 (.done (.put 1 10) ((prog (.put 1 10)).ret (m c3.shared none).2)), log := c4.log ++ [(0, .put 1 10, (prog (.put 1 10)).ret (m c3.shared none).2)] }
  have r5 : Reach prog c0 c5 := .step r4 (Step.release c4 0 (.put 1 10) _ (by simp [c4, upd]) rfl)
  let c6 : Conf _ _ _ _ := { c5 with lock := some 1, ph := upd c5.ph 1 (.inCS (.put 2 20) (prog (.put 2 20)).steps none) }
  have r6 : Reach prog c0 c6 := .step r5 (Step.acquire c5 1 (.put 2 20) (by simp [c5, c4, c3, c2, upd]) rfl)
  obtain ⟨m', hm'⟩ : ∃ m', (prog (.put 2 20)).steps = [m'] := ⟨_, rfl⟩
  let c7 : Conf _ _ _ _ := { c6 with shared := (m' c6.shared none).1, ph := upd c6.ph 1 (.inCS (.put 2 20) [] (m' c6.shared none).2) }
  have r7 : Reach prog c0 c7 := .step r6 (Step.micro c6 1 (.put 2 20) m' [] none (by simp [c6, upd, hm']) rfl)
  let c8 : Conf _ _ _ _ := { c7 with lock := none, ph := upd c7.ph 1 (.done (.put 2 20) ((prog (.put 2 20)).ret (m' c6.shared none).2)), log := c7.log ++ [(1, .put 2 20, (prog (.put 2 20)).ret (m' c6.shared none).2)] }
  have r8 : Reach prog c0 c8 := .step r7 (Step.release c7 1 (.put 2 20) _ (by simp [c7, upd]) rfl)
  refine ⟨c8, r8, rfl, rfl, ?_, ?_⟩
  · cases hm; cases hm'; decide
  · cases hm; cases hm'; decide

/-! non-vacuity: two threads, interleaved invoke/acquire/micro/release steps reach a configuration with a
non-empty log -/
example : ∃ c : Conf Nat Nat Unit Nat,
    Reach (fun _ => ({ steps := [fun s _ => (s + 1, s)], init := 0, ret := id } : Body Nat Nat Nat)) (initConf 0) c ∧
    c.log = [(1, (), 0)] ∧ c.shared = 1 := by
  let prog : Unit → Body Nat Nat Nat := fun _ => { steps := [fun s _ => (s + 1, s)], init := 0, ret := id }
  let c0 : Conf Nat Nat Unit Nat := initConf 0
  let c1 : Conf Nat Nat Unit Nat := { c0 with ph := upd c0.ph 0 (.pending ()) }
  let c2 : Conf Nat Nat Unit Nat := { c1 with ph := upd c1.ph 1 (.pending ()) }
  let c3 : Conf Nat Nat Unit Nat := { c2 with lock := some 1, ph := upd c2.ph 1 (.inCS () (prog ()).steps (prog ()).init) }
  let c4 : Conf Nat Nat Unit Nat := { c3 with shared := 1, ph := upd c3.ph 1 (.inCS () [] 0) }
  let c5 : Conf Nat Nat Unit Nat := { c4 with lock := none, ph := upd c4.ph 1 (.done () 0), log := c4.log ++ [(1, (), 0)] }
  refine ⟨c5, ?_, rfl, rfl⟩
  have r1 : Reach prog c0 c1 := .step .refl (Step.invoke c0 0 () rfl)
  have r2 : Reach prog c0 c2 := .step r1 (Step.invoke c1 1 () rfl)
  have r3 : Reach prog c0 c3 := .step r2 (Step.acquire c2 1 () rfl rfl)
  have r4 : Reach prog c0 c4 := .step r3 (Step.micro c3 1 () _ [] 0 rfl rfl)
  exact .step r4 (Step.release c4 1 () 0 rfl rfl)

end MdsVerif.Props.C09
