import MdsVerif.Proofs.Lock
import MdsVerif.Model.Cache
import MdsVerif.Gen.CacheLock
/-!
# C09 — `cache.Cache` under concurrency: the locking discipline and what it implies

What a theorem can carry here is the *logic* of the guarantee: (1) every
method of `Cache` takes the one mutex first and releases it by `defer`
(`all_methods_locked`, decided over the table regenerated from cache.go on
every run), and (2) under that discipline every interleaving of calls is
explained by running the calls atomically in lock-acquisition order
(`C09_lock_linearizable`), for the sequential cache model of C08 in particular
(`C09_cache`).  Goroutine schedules, the Go memory model, `sync.Mutex` itself
and data races are outside any Lean model: they are exercised by the harness
(race detector + linearizability search over recorded histories, stream C09).
-/
namespace MdsVerif.Props.C09
open MdsVerif.Proofs.Lock MdsVerif.Model

/-- the methods the extractor must find, sorted -/
def expectedMethods : List String := ["Clear", "Get", "Has", "Len", "Put", "Remove", "Size"]

/-- **locking discipline**: every method declared on `Cache` starts with `c.μ.Lock()`, continues with
`defer c.μ.Unlock()`, and contains no other lock operation, `go` statement or channel operation. -/
theorem all_methods_locked :
    Gen.CacheLock.recognised = true ∧
    Gen.CacheLock.methods.map (·.name) = expectedMethods ∧
    ∀ m ∈ Gen.CacheLock.methods, m.locksFirst = true ∧ m.defersUnlock = true ∧ m.noOtherSync = true := by
  decide

/-- **lock linearizability** (generic in the method bodies): see `Proofs.Lock.reach_inv`. -/
theorem C09_lock_linearizable {σ Loc Op Res : Type} (prog : Op → Body σ Loc Res) (s0 : σ)
    (c : Conf σ Loc Op Res) (h : Reach prog (initConf s0) c) :
    -- every completed call's result is the atomic result at its place in lock-acquisition order
    LogOK prog s0 c.log ∧
    -- whenever the lock is free the shared state is the state of that sequential run
    (c.lock = none → c.shared = seqState prog s0 c.log) ∧
    -- every result handed back to a caller belongs to a logged (linearized) call
    (∀ t op r, c.ph t = .done op r → (t, op, r) ∈ c.log) := by
  have inv := reach_inv prog s0 c h
  exact ⟨inv.logok, fun hl => (inv.free hl).1, inv.results⟩

/-- the cache methods as bodies over the sequential model of C08 (one micro-step each; the theorem above
holds for any finer decomposition with the same atomic meaning) -/
def cacheProg (cfg : Heapq.Cfg) (sizeOf : Nat → Int) : Cache.Op → Body Cache.Cache (Option Cache.Out) (Option Cache.Out) :=
  fun op => { steps := [fun c _ => let r := Cache.step cfg sizeOf c op; (r.1, some r.2)], init := none, ret := id }

theorem cacheProg_atomic (cfg : Heapq.Cfg) (sizeOf : Nat → Int) (op : Cache.Op) (c : Cache.Cache) :
    atomic (cacheProg cfg sizeOf op) c = ((Cache.step cfg sizeOf c op).1, some (Cache.step cfg sizeOf c op).2) := rfl

/-- **C09 for the cache model**: under every interleaving, the calls that have completed are explained,
in lock-acquisition order, by the sequential cache model of C08 — results and shared state alike. -/
theorem C09_cache (cfg : Heapq.Cfg) (sizeOf : Nat → Int) (c0 : Cache.Cache)
    (c : Conf Cache.Cache (Option Cache.Out) Cache.Op (Option Cache.Out))
    (h : Reach (cacheProg cfg sizeOf) (initConf c0) c) :
    LogOK (cacheProg cfg sizeOf) c0 c.log ∧ (c.lock = none → c.shared = seqState (cacheProg cfg sizeOf) c0 c.log) :=
  let r := C09_lock_linearizable (cacheProg cfg sizeOf) c0 c h
  ⟨r.1, r.2.1⟩

/-! non-vacuity: two threads, interleaved invoke/acquire/micro/release steps reach a configuration with a
non-empty log -/
example : ∃ c : Conf Nat Nat Unit Nat,
    Reach (fun _ => ({ steps := [fun s _ => (s + 1, s)], init := 0, ret := id } : Body Nat Nat Nat)) (initConf 0) c ∧
    c.log = [(1, (), 0)] ∧ c.shared = 1 := by
  let prog : Unit → Body Nat Nat Nat := fun _ => { steps := [fun s _ => (s + 1, s)], init := 0, ret := id }
  let c0 : Conf Nat Nat Unit Nat := initConf 0
  let c1 : Conf Nat Nat Unit Nat := { c0 with ph := upd c0.ph 0 (.pending ()) }
  let c2 : Conf Nat Nat Unit Nat := { c1 with ph := upd c1.ph 1 (.pending ()) }
  let c3 : Conf Nat Nat Unit Nat := { c2 with lock := some 1, ph := upd c2.ph 1 (.inCS () (prog ()).steps (prog ()).init) }
  let c4 : Conf Nat Nat Unit Nat := { c3 with shared := 1, ph := upd c3.ph 1 (.inCS () [] 0) }
  let c5 : Conf Nat Nat Unit Nat := { c4 with lock := none, ph := upd c4.ph 1 (.done () 0), log := c4.log ++ [(1, (), 0)] }
  refine ⟨c5, ?_, rfl, rfl⟩
  have r1 : Reach prog c0 c1 := .step .refl (Step.invoke c0 0 () rfl)
  have r2 : Reach prog c0 c2 := .step r1 (Step.invoke c1 1 () rfl)
  have r3 : Reach prog c0 c3 := .step r2 (Step.acquire c2 1 () rfl rfl)
  have r4 : Reach prog c0 c4 := .step r3 (Step.micro c3 1 () _ [] 0 rfl rfl)
  exact .step r4 (Step.release c4 1 () 0 rfl rfl)

end MdsVerif.Props.C09
