import MdsVerif.Proofs.MdiffApply
import MdsVerif.Proofs.MdiffNormalRT
import MdsVerif.Props.C13
import MdsVerif.Props.C14
/-!
# C14 (apply) — every rendering of a diff, applied to `Left` by the published rules, gives `Right`

Property text: "Interpreted by the published rules of the normal, unified and context formats — as
GNU patch does — each rendering of a diff from New, optionally followed by AddContext(n).Unify(),
applied to Left yields Right."

The writers are the model's `normal`, `unified`, `context` (`Model.MdiffFmt`, instantiated with the
facts regenerated from the Go sources, `Gen.MdiffFmt`); the appliers are the independent reference
appliers of `Spec.DiffApply` (`applyNormal`, `applyUnified`, `applyContext`), which check every old
line, the order of the hunks and the stated new-file positions.

Chunk-list level (`apply_*_chunks`): for ANY chunk list `cs` with
* `hok : AllOK cs L R` — every chunk consumes exactly `L[LStart, LEnd)` and produces exactly
  `R[RStart, REnd)` (`Spec.Mdiff.ChunkOK`),
* `hal : Aligned L R 1 1 cs` — the gap before each chunk and the tail after the last one are the
  same text in `L` and `R` (`Proofs.Mdiff.Aligned`; with `AllOK` it implies `patch L cs = R`,
  `patch_of_aligned`; `Props.C13.newChunks_aligned` and `unify_ok_new` deliver it),
* `hed` — every edit in a chunk is `EditOK` (no empty change, the unused side of a Drop/Copy empty).
Proved, full strength: `apply_normal_chunks`, `apply_context_chunks` (with `hch`: every chunk has a
non-Emit edit), `apply_normal_new`, `apply_context_new`, `apply_normal_pipeline`,
`apply_context_pipeline` (all `L`, `R`, `n`, any `FileInfo`; hypotheses `hvalid`, `hcanon` = C11's
theorems about `EditScript`).  Proved under "no empty LEFT range": `apply_unified_chunks_partial`,
`apply_unified_new_partial`, `apply_unified_pipeline_partial`.
The recorded defect F6 (`uspan` spells an empty range `start,0`, POSIX/GNU `start-1,0`) makes the
unified statement false when a chunk has an empty LEFT range, i.e. is a pure insertion
(`Props.C14.C14_F6_witness`); hence the hypothesis `hne` of `apply_unified_chunks_partial`.  An empty
RIGHT range (a pure deletion, `@@ -2 +2,0 @@`) is harmless: nothing is written there, GNU `patch`
places a hunk by its old-side position, and the reference applier does not check the new-side start
of a hunk that writes nothing.  `apply_unified_chunks_asWritten` (full): read with F6's own
convention (`Spec.DiffApply.applyUnifiedWith true`) the text of EVERY correct, aligned chunk list
applies — so the empty left range is exactly what stands between the code and the property.
-/
namespace MdsVerif.Props.C14a
open MdsVerif.Model.Edit MdsVerif.Model.Mdiff MdsVerif.Model.MdiffFmt MdsVerif.Proofs.MdiffFmt
open MdsVerif.Spec MdsVerif.Spec.Mdiff MdsVerif.Proofs.Mdiff MdsVerif.Proofs.MdiffApply

/-- the running example: `L = [a b c d e f]`, `R = [a X c d Y Z f]` -/
def exL : List Line := [['a'], ['b'], ['c'], ['d'], ['e'], ['f']]
def exR : List Line := [['a'], ['X'], ['c'], ['d'], ['Y'], ['Z'], ['f']]
/-- the chunks of `New(exL, exR).AddContext(1).Unify()` -/
def exPipe : List (Chunk Line) :=
  match (Model.Mdiff.new exL exR).addContext? 1 with
  | some d => (match d.unify? with | .ok d' => d'.chunks | _ => [])
  | none => []

/-! ## normal -/

/-- **apply_normal_chunks.**  For every chunk list that is `AllOK`, `Aligned` and made of `EditOK`
edits, the reference applier of the normal format (POSIX/GNU rules: `LaR`, `FcT`, `RdL`, `< `, `> `,
`---`; every old line checked against `L`, the new-file position of every command checked against
the output) run on the text written by `Normal` over `L` returns `R`. -/
theorem apply_normal_chunks (cs : List (Chunk Line)) (L R : List Line) (hok : AllOK cs L R)
    (hal : Aligned L R 1 1 cs) (hed : ∀ c ∈ cs, ∀ e ∈ c.edits, EditOK e) :
    DiffApply.applyNormal (normal cs) L = some R :=
  applyNormal_chunks cs hok hal hed

set_option maxRecDepth 8000 in
/-- non-vacuity: the hypotheses hold for the two chunks of `New(exL, exR)` and the text is not
trivial (two change commands) -/
example :
    let cs := (Model.Mdiff.new exL exR).chunks
    AllOK cs exL exR ∧ Aligned exL exR 1 1 cs ∧ (∀ c ∈ cs, ∀ e ∈ c.edits, EditOK e) ∧
    normal cs = [str "2c2", str "< b", str "---", str "> X", str "5c5,6", str "< e", str "---",
      str "> Y", str "> Z"] ∧
    DiffApply.applyNormal (normal cs) exL = some exR := by decide

/-! ## context -/

/-- **apply_context_chunks.**  For every chunk list that is `AllOK`, `Aligned`, made of `EditOK`
edits and in which every chunk has an edit that is not an Emit (`hch`: true of every chunk of
`New`/`AddContext`/`Unify`, see `pipeline_chunks`; the writer omits the old side of a hunk without
Drop/Replace and the new side of a hunk without Copy/Replace, and a hunk of Emits only would have
neither), the reference applier of the context format (`***************`, `*** a,b ****`, old side
`  `/`- `/`! `, `--- c,d ----`, new side `  `/`+ `/`! `; an omitted side is taken from the context
lines of the other; every old and context line checked against `L`, the new-file position checked
against the output; an optional `***`/`---` header is skipped) run on the text written by `Context`
— with any `FileInfo` or none — over `L` returns `R`. -/
theorem apply_context_chunks (cs : List (Chunk Line)) (L R : List Line) (fi : Option FileInfo)
    (hok : AllOK cs L R) (hal : Aligned L R 1 1 cs) (hed : ∀ c ∈ cs, ∀ e ∈ c.edits, EditOK e)
    (hch : ∀ c ∈ cs, ∃ e ∈ c.edits, e.op ≠ .emit) :
    DiffApply.applyContext (context cs fi) L = some R :=
  applyContext_chunks cs L R fi hok hal hed hch

/-- a file header with names and one timestamp, for the examples -/
def exFi : FileInfo := ⟨str "old.txt", [], some (str "2024-01-02 03:04:05 +0000"), none⟩

/-- a second instance: a pure deletion and a pure insertion (one side of each hunk is omitted) -/
def exL2 : List Line := [['a'], ['b'], ['c'], ['d']]
def exR2 : List Line := [['a'], ['c'], ['Q'], ['d']]

set_option maxRecDepth 8000 in
/-- non-vacuity: hypotheses and conclusion on the chunks of `New(exL, exR)` (both sides written) and
of `New(exL2, exR2)` (old side only / new side only), without and with a file header -/
example :
    let cs := (Model.Mdiff.new exL exR).chunks
    let cs2 := (Model.Mdiff.new exL2 exR2).chunks
    AllOK cs exL exR ∧ Aligned exL exR 1 1 cs ∧ (∀ c ∈ cs, ∀ e ∈ c.edits, EditOK e) ∧
    (∀ c ∈ cs, ∃ e ∈ c.edits, e.op ≠ .emit) ∧
    context cs none = [str "***************", str "*** 2 ****", str "! b", str "--- 2 ----", str "! X",
      str "***************", str "*** 5 ****", str "! e", str "--- 5,6 ----", str "! Y", str "! Z"] ∧
    DiffApply.applyContext (context cs none) exL = some exR ∧
    DiffApply.applyContext (context cs (some exFi)) exL = some exR ∧
    AllOK cs2 exL2 exR2 ∧ Aligned exL2 exR2 1 1 cs2 ∧ (∀ c ∈ cs2, ∀ e ∈ c.edits, EditOK e) ∧
    (∀ c ∈ cs2, ∃ e ∈ c.edits, e.op ≠ .emit) ∧
    context cs2 none = [str "***************", str "*** 2 ****", str "- b", str "--- 2,1 ----",
      str "***************", str "*** 4,3 ****", str "--- 3 ----", str "+ Q"] ∧
    DiffApply.applyContext (context cs2 (some exFi)) exL2 = some exR2 := by decide

/-! ## unified (under "no empty LEFT range": F6) -/

/-- **apply_unified_chunks_partial.**  For every chunk list that is `AllOK` and `Aligned` and in
which no chunk has an empty LEFT range (`hne`), the reference applier of the unified format
(`@@ -l,s +r,t @@`, an omitted count is 1, exactly `s` old-side and `t` new-side lines, every old and
context line checked against `L`, the new-file position of every hunk that writes something checked
against the output; an optional `---`/`+++` header is skipped) run on the text written by `Unified` — with any `FileInfo` or none —
over `L` returns `R`.  (`EditOK` is not needed for this format.)

`_partial`: the hypothesis `hne` is what is missing from the property text.  Without it the
statement is FALSE for the code as it is — recorded defect F6: `uspan` spells an empty range
`start,0`, POSIX/GNU spell it `start-1,0`; witness `Props.C14.C14_F6_witness`
(`L = [a b c d]`, `R = [a b X c d]`, no context).  Nothing else is missing
(`apply_unified_chunks_asWritten`). -/
theorem apply_unified_chunks_partial (cs : List (Chunk Line)) (L R : List Line) (fi : Option FileInfo)
    (hok : AllOK cs L R) (hal : Aligned L R 1 1 cs)
    (hne : ∀ c ∈ cs, c.lstart < c.lend) :
    DiffApply.applyUnified (unified cs fi) L = some R :=
  applyUnified_chunks cs L R fi hok hal hne

set_option maxRecDepth 8000 in
/-- non-vacuity: hypotheses and conclusion on the two chunks of `New(exL, exR)` (one range of length
one, written without count, and one of length two), without and with a file header -/
example :
    let cs := (Model.Mdiff.new exL exR).chunks
    AllOK cs exL exR ∧ Aligned exL exR 1 1 cs ∧ (∀ c ∈ cs, c.lstart < c.lend) ∧
    unified cs none = [str "@@ -2 +2 @@", str "-b", str "+X", str "@@ -5 +5,2 @@", str "-e", str "+Y",
      str "+Z"] ∧
    DiffApply.applyUnified (unified cs none) exL = some exR ∧
    DiffApply.applyUnified (unified cs (some exFi)) exL = some exR := by decide

/-- a pure deletion (empty RIGHT range) and a replacement: `L = [a b c d]`, `R = [a c Q]` -/
def exR3 : List Line := [['a'], ['c'], ['Q']]

set_option maxRecDepth 8000 in
/-- non-vacuity on an empty right range: the hypotheses hold and the text `@@ -2 +2,0 @@` applies -/
example :
    let cs := (Model.Mdiff.new exL2 exR3).chunks
    AllOK cs exL2 exR3 ∧ Aligned exL2 exR3 1 1 cs ∧ (∀ c ∈ cs, c.lstart < c.lend) ∧
    (∃ c ∈ cs, c.rstart = c.rend) ∧
    unified cs none = [str "@@ -2 +2,0 @@", str "-b", str "@@ -4 +3 @@", str "-d", str "+Q"] ∧
    DiffApply.applyUnified (unified cs none) exL2 = some exR3 := by decide

/-- **apply_unified_chunks_asWritten** (full strength, no F6 hypothesis).  Read with the convention
the writer uses — `start,0` is the empty range AT line `start` (`applyUnifiedWith true`; every other
rule as in `applyUnified`) — the unified rendering of every `AllOK`, `Aligned` chunk list applied to
`L` gives `R`.  Together with `C14_F6_witness` this says that the spelling of an empty left range is
the only thing in which `Unified`'s output departs from the published rules. -/
theorem apply_unified_chunks_asWritten (cs : List (Chunk Line)) (L R : List Line) (fi : Option FileInfo)
    (hok : AllOK cs L R) (hal : Aligned L R 1 1 cs) :
    DiffApply.applyUnifiedWith true (unified cs fi) L = some R :=
  applyUnifiedAsWritten_chunks cs L R fi hok hal

set_option maxRecDepth 8000 in
/-- non-vacuity: a pure insertion (`exL2 → exR2` has one) applies as written but not by the rules -/
example :
    let cs := (Model.Mdiff.new exL2 exR2).chunks
    AllOK cs exL2 exR2 ∧ Aligned exL2 exR2 1 1 cs ∧ (∃ c ∈ cs, c.lstart = c.lend) ∧
    unified cs none = [str "@@ -2 +2,0 @@", str "-b", str "@@ -4,0 +3 @@", str "+Q"] ∧
    DiffApply.applyUnifiedWith true (unified cs none) exL2 = some exR2 ∧
    DiffApply.applyUnified (unified cs none) exL2 ≠ some exR2 := by decide

/-! ## corollaries for `New(L, R)` -/

/-- every chunk of `New` (for a valid, canonical script) consists of `EditOK` edits and contains an
edit that is not an Emit (`Props.C13.newChunks_ok`: no Emit at all, and at least one edit) -/
theorem newChunks_good (L R : List Line) (hvalid : EditScript.Valid (editScript L R) L R)
    (hcanon : EditScript.Canonical (editScript L R)) :
    ∀ c ∈ newChunks (editScript L R), Good EditOK c := by
  have r := C13.newChunks_ok (editScript L R) L R hvalid
  have hok := newChunks_all EditOK _ (editOK_of_valid_canonical _ hvalid hcanon)
  intro c hc
  refine ⟨hok c hc, ?_⟩
  have hne := (r.2.2.2.2.2 c hc).2
  cases he : c.edits with
  | nil => exact absurd he hne
  | cons e es => exact ⟨e, by simp, r.2.2.2.2.1 c hc e (by simp [he])⟩

set_option maxRecDepth 8000 in
example : (∀ c ∈ newChunks (editScript exL exR), ∀ e ∈ c.edits, EditOK e) ∧
    (∀ c ∈ newChunks (editScript exL2 exR2), ∃ e ∈ c.edits, e.op ≠ .emit) ∧
    (newChunks (editScript exL2 exR2)).length = 2 := by decide

/-- **apply_normal_new.**  The normal-format rendering of `New(L, R)`, applied to `L` by the
reference rules, gives `R`.  `hvalid`, `hcanon` are C11's theorems about `EditScript` (the script is
valid and canonical); they give `AllOK`/`Aligned` (`Props.C13.newChunks_ok`, `newChunks_aligned`)
and `EditOK` for every edit of a chunk (`editOK_of_valid_canonical`, `newChunks_all`). -/
theorem apply_normal_new (L R : List Line) (hvalid : EditScript.Valid (editScript L R) L R)
    (hcanon : EditScript.Canonical (editScript L R)) :
    DiffApply.applyNormal (normal (Model.Mdiff.new L R).chunks) L = some R :=
  apply_normal_chunks (newChunks (editScript L R)) L R (C13.newChunks_ok _ L R hvalid).1
    (C13.newChunks_aligned _ L R hvalid)
    (newChunks_all EditOK _ (editOK_of_valid_canonical _ hvalid hcanon))

set_option maxRecDepth 8000 in
/-- non-vacuity: the script of the running example is valid and canonical, and the conclusion holds -/
example :
    EditScript.validB (editScript exL exR) exL exR = true ∧
    EditScript.canonicalB (editScript exL exR) = true ∧
    DiffApply.applyNormal (normal (Model.Mdiff.new exL exR).chunks) exL = some exR := by decide

/-- **apply_context_new.**  The context-format rendering of `New(L, R)`, with any `FileInfo` or
none, applied to `L` by the reference rules, gives `R` (`hvalid`, `hcanon`: C11). -/
theorem apply_context_new (L R : List Line) (fi : Option FileInfo)
    (hvalid : EditScript.Valid (editScript L R) L R) (hcanon : EditScript.Canonical (editScript L R)) :
    DiffApply.applyContext (context (Model.Mdiff.new L R).chunks fi) L = some R :=
  apply_context_chunks (newChunks (editScript L R)) L R fi (C13.newChunks_ok _ L R hvalid).1
    (C13.newChunks_aligned _ L R hvalid) (fun c hc => (newChunks_good L R hvalid hcanon c hc).1)
    (fun c hc => (newChunks_good L R hvalid hcanon c hc).2)

set_option maxRecDepth 8000 in
example :
    EditScript.validB (editScript exL2 exR2) exL2 exR2 = true ∧
    EditScript.canonicalB (editScript exL2 exR2) = true ∧
    DiffApply.applyContext (context (Model.Mdiff.new exL exR).chunks (some exFi)) exL = some exR ∧
    DiffApply.applyContext (context (Model.Mdiff.new exL2 exR2).chunks none) exL2 = some exR2 := by decide

/-- **apply_unified_new_partial.**  The unified rendering of `New(L, R)` applied to `L` gives `R`,
provided no chunk has an empty LEFT range, i.e. `New(L, R)` has no pure insertion (`hne`; F6, see
`apply_unified_chunks_partial` — exactly this is missing). -/
theorem apply_unified_new_partial (L R : List Line) (fi : Option FileInfo)
    (hvalid : EditScript.Valid (editScript L R) L R)
    (hne : ∀ c ∈ (Model.Mdiff.new L R).chunks, c.lstart < c.lend) :
    DiffApply.applyUnified (unified (Model.Mdiff.new L R).chunks fi) L = some R :=
  apply_unified_chunks_partial (newChunks (editScript L R)) L R fi (C13.newChunks_ok _ L R hvalid).1
    (C13.newChunks_aligned _ L R hvalid) hne

set_option maxRecDepth 8000 in
example :
    EditScript.validB (editScript exL exR) exL exR = true ∧
    (∀ c ∈ (Model.Mdiff.new exL exR).chunks, c.lstart < c.lend) ∧
    DiffApply.applyUnified (unified (Model.Mdiff.new exL exR).chunks (some exFi)) exL = some exR := by
  decide

/-! ## the pipeline `New(L, R).AddContext(n).Unify()` -/

/-- The chunks of the pipeline are correct and aligned (validity of the script only):
`Props.C13.addContext_ok`, `unify_ok_partial`. -/
theorem pipeline_aligned (L R : List Line) (n : Nat) (hvalid : EditScript.Valid (editScript L R) L R) :
    ∃ d1 d2, (Model.Mdiff.new L R).addContext? n = some d1 ∧ d1.unify? = .ok d2 ∧
      AllOK d2.chunks L R ∧ Aligned L R 1 1 d2.chunks := by
  have r := C13.newChunks_ok (editScript L R) L R hvalid
  have ral := C13.newChunks_aligned (editScript L R) L R hvalid
  obtain ⟨cs', h1, _, _⟩ := C13.addContext_ok L R n (newChunks (editScript L R)) r.1
  obtain ⟨u, u1, u2, _, _, _, u6⟩ := C13.unify_ok_partial L R n _ cs' r.1 r.2.2.1 ral
    (fun c hc => ⟨(r.2.2.2.2.2 c hc).2, r.2.2.2.2.1 c hc⟩) h1
  refine ⟨{ Model.Mdiff.new L R with chunks := cs' }, { Model.Mdiff.new L R with chunks := u }, ?_, ?_,
    u2, u6⟩
  · show (addContextChunks L R n (newChunks (editScript L R))).map _ = _
    rw [h1]; rfl
  · show (unifyChunks cs').map _ = _
    rw [u1]; rfl

set_option maxRecDepth 8000 in
example : exPipe ≠ [] ∧ AllOK exPipe exL exR ∧ Aligned exL exR 1 1 exPipe := by decide

/-- The chunks of the pipeline, for all inputs and every `n`: neither step fails, the unified
chunks are `AllOK` and `Aligned` (`Props.C13.unify_ok_partial`), all their edits are `EditOK` and
every chunk contains an edit that is not an Emit (`AddContext` only adds Emits, `UnifyChunks` only
trims, drops and fuses Emits at chunk boundaries: `addContextChunks_good`, `unifyChunks_good`). -/
theorem pipeline_chunks (L R : List Line) (n : Nat) (hvalid : EditScript.Valid (editScript L R) L R)
    (hcanon : EditScript.Canonical (editScript L R)) :
    ∃ d1 d2, (Model.Mdiff.new L R).addContext? n = some d1 ∧ d1.unify? = .ok d2 ∧
      AllOK d2.chunks L R ∧ Aligned L R 1 1 d2.chunks ∧
      (∀ c ∈ d2.chunks, ∀ e ∈ c.edits, EditOK e) ∧ (∀ c ∈ d2.chunks, ∃ e ∈ c.edits, e.op ≠ .emit) := by
  have r := C13.newChunks_ok (editScript L R) L R hvalid
  have ral := C13.newChunks_aligned (editScript L R) L R hvalid
  obtain ⟨cs', h1, _, _⟩ := C13.addContext_ok L R n (newChunks (editScript L R)) r.1
  obtain ⟨u, u1, u2, _, _, _, u6⟩ := C13.unify_ok_partial L R n _ cs' r.1 r.2.2.1 ral
    (fun c hc => ⟨(r.2.2.2.2.2 c hc).2, r.2.2.2.2.1 c hc⟩) h1
  have g0 := newChunks_good L R hvalid hcanon
  have g2 := unifyChunks_good editOK_of_emit cs' u
    (addContextChunks_good editOK_of_emit L R n _ cs' g0 h1) u1
  refine ⟨{ Model.Mdiff.new L R with chunks := cs' }, { Model.Mdiff.new L R with chunks := u }, ?_, ?_,
    u2, u6, fun c hc => (g2 c hc).1, fun c hc => (g2 c hc).2⟩
  · show (addContextChunks L R n (newChunks (editScript L R))).map _ = _
    rw [h1]; rfl
  · show (unifyChunks cs').map _ = _
    rw [u1]; rfl

set_option maxRecDepth 8000 in
example : (∀ c ∈ exPipe, ∀ e ∈ c.edits, EditOK e) ∧ (∀ c ∈ exPipe, ∃ e ∈ c.edits, e.op ≠ .emit) ∧
    (∃ c ∈ exPipe, ∃ e ∈ c.edits, e.op = .emit) := by decide

/-- **apply_normal_pipeline.**  For all `L`, `R`, `n`: `New(L, R).AddContext(n).Unify()` succeeds and
the normal-format rendering of its chunks, applied to `L` by the reference rules, gives `R`. -/
theorem apply_normal_pipeline (L R : List Line) (n : Nat)
    (hvalid : EditScript.Valid (editScript L R) L R) (hcanon : EditScript.Canonical (editScript L R)) :
    ∃ d1 d2, (Model.Mdiff.new L R).addContext? n = some d1 ∧ d1.unify? = .ok d2 ∧
      DiffApply.applyNormal (normal d2.chunks) L = some R := by
  obtain ⟨d1, d2, h1, h2, hok, hal, hed, _⟩ := pipeline_chunks L R n hvalid hcanon
  exact ⟨d1, d2, h1, h2, apply_normal_chunks _ L R hok hal hed⟩

set_option maxRecDepth 8000 in
/-- non-vacuity: with `n = 1` the contexts of the two chunks meet in `c d` and `Unify` merges them
into one chunk `[1,7)`/`[1,8)` of five edits (Emit, Replace, Emit, Replace, Emit) -/
example :
    exPipe.map (fun c => (c.lstart, c.lend, c.rstart, c.rend, c.edits.length)) = [(1, 7, 1, 8, 5)] ∧
    normal exPipe = [str "2c2", str "< b", str "---", str "> X", str "5c5,6", str "< e", str "---",
      str "> Y", str "> Z"] ∧
    DiffApply.applyNormal (normal exPipe) exL = some exR := by decide

/-- **apply_context_pipeline.**  The same for the context format, with any `FileInfo` or none. -/
theorem apply_context_pipeline (L R : List Line) (n : Nat) (fi : Option FileInfo)
    (hvalid : EditScript.Valid (editScript L R) L R) (hcanon : EditScript.Canonical (editScript L R)) :
    ∃ d1 d2, (Model.Mdiff.new L R).addContext? n = some d1 ∧ d1.unify? = .ok d2 ∧
      DiffApply.applyContext (context d2.chunks fi) L = some R := by
  obtain ⟨d1, d2, h1, h2, hok, hal, hed, hch⟩ := pipeline_chunks L R n hvalid hcanon
  exact ⟨d1, d2, h1, h2, apply_context_chunks _ L R fi hok hal hed hch⟩

set_option maxRecDepth 8000 in
example :
    context exPipe (some exFi) = [str "*** old.txt\t2024-01-02 03:04:05 +0000", str "--- b",
      str "***************", str "*** 1,6 ****", str "  a", str "! b", str "  c", str "  d", str "! e",
      str "  f", str "--- 1,7 ----", str "  a", str "! X", str "  c", str "  d", str "! Y", str "! Z",
      str "  f"] ∧
    DiffApply.applyContext (context exPipe (some exFi)) exL = some exR ∧
    DiffApply.applyContext (context exPipe none) exL = some exR := by decide

/-- **apply_unified_pipeline_partial.**  The same for the unified format, with any `FileInfo` or
none, provided no chunk of the result has an empty LEFT range (`hne`; F6, see
`apply_unified_chunks_partial` — exactly this is missing; it holds e.g. whenever every chunk got at
least one line of context). -/
theorem apply_unified_pipeline_partial (L R : List Line) (n : Nat) (fi : Option FileInfo)
    (hvalid : EditScript.Valid (editScript L R) L R) :
    ∃ d1 d2, (Model.Mdiff.new L R).addContext? n = some d1 ∧ d1.unify? = .ok d2 ∧
      ((∀ c ∈ d2.chunks, c.lstart < c.lend) →
        DiffApply.applyUnified (unified d2.chunks fi) L = some R) := by
  obtain ⟨d1, d2, h1, h2, hok, hal⟩ := pipeline_aligned L R n hvalid
  exact ⟨d1, d2, h1, h2, fun hne => apply_unified_chunks_partial _ L R fi hok hal hne⟩

set_option maxRecDepth 8000 in
example :
    (∀ c ∈ exPipe, c.lstart < c.lend) ∧
    unified exPipe none = [str "@@ -1,6 +1,7 @@", str " a", str "-b", str "+X", str " c", str " d",
      str "-e", str "+Y", str "+Z", str " f"] ∧
    DiffApply.applyUnified (unified exPipe (some exFi)) exL = some exR := by decide

/-! ## round trip ∘ pipeline: the normal rendering parses back to chunks that describe the same patch -/

/-- **normal_readback_chunks.**  For every chunk list that is `AllOK`, `Aligned`, made of `EditOK`
edits with newline-free lines: `Read` applied to the bytes written by `Normal` succeeds, and the
chunks it returns (`Props.C14.normal_roundtrip`: one per change command) are again `AllOK` for
`L`, `R`, aligned, and `patch L` of them is `R` — what is parsed back describes the same change at
the line ranges of the individual commands. -/
theorem normal_readback_chunks (cs : List (Chunk Line)) (L R : List Line) (hok : AllOK cs L R)
    (hal : Aligned L R 1 1 cs) (hed : ∀ c ∈ cs, ∀ e ∈ c.edits, EditOK e)
    (hnl : ∀ c ∈ cs, EditsNoNl c.edits) :
    ∃ p, read (readLines (render (normal cs))) = some p ∧ AllOK p.chunks L R ∧
      Aligned L R 1 1 p.chunks ∧ Mdiff.patch L p.chunks = R := by
  have h := (C14.normal_roundtrip cs (fun c hc => ⟨hed c hc, (hok c hc).l1, (hok c hc).r1⟩) hnl).1
  obtain ⟨k1, k2⟩ := MdsVerif.Proofs.MdiffNormalRT.normalChunks_ok cs 1 1 (Nat.le_refl _) (Nat.le_refl _) hok hal
  exact ⟨_, h, k1, k2, patch_of_aligned k1 k2⟩

/-- **normal_readback_new.**  For `New(L, R)` with newline-free lines: the normal rendering parses
back (`Read`) to chunks that are `AllOK` for `L`, `R` and patch `L` into `R` (`hvalid`, `hcanon`: C11). -/
theorem normal_readback_new (L R : List Line) (hvalid : EditScript.Valid (editScript L R) L R)
    (hcanon : EditScript.Canonical (editScript L R)) (hL : ∀ l ∈ L, NoNl l) (hR : ∀ l ∈ R, NoNl l) :
    ∃ p, read (readLines (render (normal (Model.Mdiff.new L R).chunks))) = some p ∧
      AllOK p.chunks L R ∧ Mdiff.patch L p.chunks = R := by
  have r := C13.newChunks_ok (editScript L R) L R hvalid
  have g := newChunks_good L R hvalid hcanon
  obtain ⟨p, h1, h2, _, h4⟩ := normal_readback_chunks (newChunks (editScript L R)) L R r.1
    (C13.newChunks_aligned _ L R hvalid) (fun c hc => (g c hc).1)
    (fun c hc => MdsVerif.Proofs.MdiffNormalRT.editsNoNl_of_ok (r.1 c hc) (g c hc).1 (r.2.2.2.2.1 c hc) hL hR)
  exact ⟨p, h1, h2, h4⟩

/-- **normal_readback_pipeline.**  The same for `New(L, R).AddContext(n).Unify()`, every `n`,
provided the lines held by the unified chunks are newline-free (`hnl`; they are lines of `L` and
`R` — context lines are copied from `Left` — but that is not proved here: `EditsNoNl` also speaks
about the unused `Y` field of Emit edits). -/
theorem normal_readback_pipeline (L R : List Line) (n : Nat)
    (hvalid : EditScript.Valid (editScript L R) L R) (hcanon : EditScript.Canonical (editScript L R)) :
    ∃ d1 d2, (Model.Mdiff.new L R).addContext? n = some d1 ∧ d1.unify? = .ok d2 ∧
      ((∀ c ∈ d2.chunks, EditsNoNl c.edits) →
        ∃ p, read (readLines (render (normal d2.chunks))) = some p ∧
          AllOK p.chunks L R ∧ Mdiff.patch L p.chunks = R) := by
  obtain ⟨d1, d2, h1, h2, hok, hal, hed, _⟩ := pipeline_chunks L R n hvalid hcanon
  refine ⟨d1, d2, h1, h2, fun hnl => ?_⟩
  obtain ⟨p, k1, k2, _, k4⟩ := normal_readback_chunks d2.chunks L R hok hal hed hnl
  exact ⟨p, k1, k2, k4⟩

set_option maxRecDepth 8000 in
/-- non-vacuity: the merged chunk of the running example (`n = 1`: five edits, three of them Emits)
is newline-free, and `Read(Normal(·))` returns the two change commands as two chunks that patch
`exL` into `exR` -/
example :
    (exPipe.all fun c => c.edits.all fun e => (e.X ++ e.Y).all fun l => !l.contains '\n') = true ∧
    (read (readLines (render (normal exPipe)))).map (fun p => (p.chunks.map fun c =>
        (c.lstart, c.lend, c.rstart, c.rend), decide (AllOK p.chunks exL exR),
        decide (Mdiff.patch exL p.chunks = exR)))
      = some ([(2, 3, 2, 3), (5, 6, 5, 7)], true, true) := by decide

/-! ## full-strength statements that are NOT theorems of the code as it is (F6)

```
theorem apply_unified_chunks (cs) (L R) (fi) (hok : AllOK cs L R) (hal : Aligned L R 1 1 cs) :
    DiffApply.applyUnified (unified cs fi) L = some R
theorem apply_unified_new (L R) (fi) (hvalid) :
    DiffApply.applyUnified (unified (new L R).chunks fi) L = some R
theorem apply_unified_pipeline (L R) (n) (fi) (hvalid) :
    ∃ d1 d2, (new L R).addContext? n = some d1 ∧ d1.unify? = .ok d2 ∧
      DiffApply.applyUnified (unified d2.chunks fi) L = some R
```
These are false: `Props.C14.C14_F6_witness` (`L = [a b c d]`, `R = [a b X c d]`, `New` without
context: `Unified` writes `@@ -3,0 +3 @@`, the published rules want `@@ -2,0 +3 @@`).  They become
provable (same proof, `parseUnifiedHeader_chunk` and `applyUnifiedLoop_chunk` extended by the case
of a count 0) once `uspan` writes `start-1` for an empty range, i.e. for
`Gen.MdiffFmt.uspanFst s e = if e = s then s - 1 else s`.  The `_partial` versions above carry the
hypothesis "no chunk has an empty LEFT range" instead; nothing else is weakened
(`apply_unified_chunks_asWritten`: with the writer's own reading of `start,0` no hypothesis is needed).
The normal and context statements are proved at full strength.
-/

end MdsVerif.Props.C14a
