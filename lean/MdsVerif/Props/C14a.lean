import MdsVerif.Proofs.MdiffApply
import MdsVerif.Props.C13
/-!
# C14 (apply) — every rendering of a diff, applied to `Left` by the published rules, gives `Right`

Property text: "Interpreted by the published rules of the normal, unified and context formats — as
GNU patch does — each rendering of a diff from New, optionally followed by AddContext(n).Unify(),
applied to Left yields Right."

The writers are the model's `normal`, `unified`, `context` (`Model.MdiffFmt`, instantiated with the
facts regenerated from the Go sources, `Gen.MdiffFmt`); the appliers are the independent reference
appliers of `Spec.DiffApply` (`applyNormal`, `applyUnified`, `applyContext`), which check every old
line, the order of the hunks and the stated new-file positions.

Chunk-list level (`apply_*_chunks`): for ANY chunk list `cs` with
* `hok : AllOK cs L R` — every chunk consumes exactly `L[LStart, LEnd)` and produces exactly
  `R[RStart, REnd)` (`Spec.Mdiff.ChunkOK`),
* `hal : Aligned L R 1 1 cs` — the gap before each chunk and the tail after the last one are the
  same text in `L` and `R` (`Proofs.Mdiff.Aligned`; with `AllOK` it implies `patch L cs = R`,
  `patch_of_aligned`; `Props.C13.newChunks_aligned` and `unify_ok_new` deliver it),
* `hed` — every edit in a chunk is `EditOK` (no empty change, the unused side of a Drop/Copy empty).
The recorded defect F6 (`uspan` spells an empty range `start,0`, POSIX/GNU `start-1,0`) makes the
unified statement false when a chunk has an empty left or right range (`Props.C14.C14_F6_witness`);
hence the hypothesis `hne` of `apply_unified_chunks_partial`.
-/
namespace MdsVerif.Props.C14a
open MdsVerif.Model.Edit MdsVerif.Model.Mdiff MdsVerif.Model.MdiffFmt MdsVerif.Proofs.MdiffFmt
open MdsVerif.Spec MdsVerif.Spec.Mdiff MdsVerif.Proofs.Mdiff MdsVerif.Proofs.MdiffApply

/-- the running example: `L = [a b c d e f]`, `R = [a X c d Y Z f]` -/
def exL : List Line := [['a'], ['b'], ['c'], ['d'], ['e'], ['f']]
def exR : List Line := [['a'], ['X'], ['c'], ['d'], ['Y'], ['Z'], ['f']]
/-- the chunks of `New(exL, exR).AddContext(1).Unify()` -/
def exPipe : List (Chunk Line) :=
  match (Model.Mdiff.new exL exR).addContext? 1 with
  | some d => (match d.unify? with | .ok d' => d'.chunks | _ => [])
  | none => []

/-! ## normal -/

/-- **apply_normal_chunks.**  For every chunk list that is `AllOK`, `Aligned` and made of `EditOK`
edits, the reference applier of the normal format (POSIX/GNU rules: `LaR`, `FcT`, `RdL`, `< `, `> `,
`---`; every old line checked against `L`, the new-file position of every command checked against
the output) run on the text written by `Normal` over `L` returns `R`. -/
theorem apply_normal_chunks (cs : List (Chunk Line)) (L R : List Line) (hok : AllOK cs L R)
    (hal : Aligned L R 1 1 cs) (hed : ∀ c ∈ cs, ∀ e ∈ c.edits, EditOK e) :
    DiffApply.applyNormal (normal cs) L = some R :=
  applyNormal_chunks cs hok hal hed

set_option maxRecDepth 8000 in
/-- non-vacuity: the hypotheses hold for the two chunks of `New(exL, exR)` and the text is not
trivial (two change commands) -/
example :
    let cs := (Model.Mdiff.new exL exR).chunks
    AllOK cs exL exR ∧ Aligned exL exR 1 1 cs ∧ (∀ c ∈ cs, ∀ e ∈ c.edits, EditOK e) ∧
    normal cs = [str "2c2", str "< b", str "---", str "> X", str "5c5,6", str "< e", str "---",
      str "> Y", str "> Z"] ∧
    DiffApply.applyNormal (normal cs) exL = some exR := by decide

/-- **apply_normal_new.**  The normal-format rendering of `New(L, R)`, applied to `L` by the
reference rules, gives `R`.  `hvalid`, `hcanon` are C11's theorems about `EditScript` (the script is
valid and canonical); they give `AllOK`/`Aligned` (`Props.C13.newChunks_ok`, `newChunks_aligned`)
and `EditOK` for every edit of a chunk (`editOK_of_valid_canonical`, `newChunks_all`). -/
theorem apply_normal_new (L R : List Line) (hvalid : EditScript.Valid (editScript L R) L R)
    (hcanon : EditScript.Canonical (editScript L R)) :
    DiffApply.applyNormal (normal (Model.Mdiff.new L R).chunks) L = some R :=
  apply_normal_chunks (newChunks (editScript L R)) L R (C13.newChunks_ok _ L R hvalid).1
    (C13.newChunks_aligned _ L R hvalid)
    (newChunks_all EditOK _ (editOK_of_valid_canonical _ hvalid hcanon))

set_option maxRecDepth 8000 in
/-- non-vacuity: the script of the running example is valid and canonical, and the conclusion holds -/
example :
    EditScript.validB (editScript exL exR) exL exR = true ∧
    EditScript.canonicalB (editScript exL exR) = true ∧
    DiffApply.applyNormal (normal (Model.Mdiff.new exL exR).chunks) exL = some exR := by decide

end MdsVerif.Props.C14a
