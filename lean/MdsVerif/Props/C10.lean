import MdsVerif.Proofs.Stack
/-!
# C10 — stack, mlink.List/Queue and ring.Ring preserve their abstract sequence

## stack.Stack

`C10_stack_history`: for every history of `Push, Add, Pop, Clear` interleaved
with every observation (`Top, Peek n` for every integer `n`, `Each` stopped
anywhere, `Len, IsEmpty, Slice`) the slice model returns exactly what the LIFO
list returns (including the index panic of `Peek(n<0)`).
-/
namespace MdsVerif.Props.C10
section stack
open MdsVerif.Model.Stack MdsVerif.Spec MdsVerif.Proofs.Stack
variable {α : Type} [Inhabited α]

/-- one step: results agree and the abstraction `reverse` commutes -/
theorem stack_step_refines (s : S α) (op : Op α) :
    Lifo.step s.reverse op = ((step s op).1.reverse, (step s op).2) := by
  cases op with
  | push v => simp [step, Lifo.step, push]
  | add v => simp [step, Lifo.step, push]
  | pop => simp [step, Lifo.step, pop_abs]
  | clear => simp [step, Lifo.step]
  | top => simp [step, Lifo.step, top_abs]
  | peek n => simp [step, Lifo.step, peek_abs]
  | each k => simp [step, Lifo.step, each_abs]
  | len => simp [step, Lifo.step]
  | isEmpty =>
    simp only [step, Lifo.step, Prod.mk.injEq, true_and, Out.bool.injEq]
    cases s <;> simp
  | slice => simp [step, Lifo.step, slice_abs]

theorem stack_run_refines (s : S α) (ops : List (Op α)) : run s ops = Lifo.run s.reverse ops := by
  induction ops generalizing s with
  | nil => rfl
  | cons op ops ih =>
    simp only [run, Lifo.run, stack_step_refines s op]
    rw [ih]

/-- **C10 (stack)**: every history on the zero value / `New()` -/
theorem C10_stack_history (ops : List (Op α)) : run ([] : S α) ops = Lifo.run [] ops :=
  stack_run_refines [] ops

/-- nothing lost, duplicated or reordered: after any history `Slice` is the LIFO list -/
theorem C10_stack_contents (ops : List (Op α)) :
    slice (ops.foldl (fun s op => (step s op).1) ([] : S α)) =
      ops.foldl (fun d op => (Lifo.step d op).1) [] := by
  suffices h : ∀ s : S α, (ops.foldl (fun s op => (step s op).1) s).reverse =
      ops.foldl (fun d op => (Lifo.step d op).1) s.reverse by
    rw [slice_abs]; exact h []
  induction ops with
  | nil => intro s; rfl
  | cons op ops ih =>
    intro s
    simp only [List.foldl_cons, stack_step_refines s op]
    exact ih _

example :
    run ([] : S Int) [.push 1, .add 2, .push 3, .peek 1, .peek (-1), .pop, .each 0, .slice, .pop, .pop, .pop, .top]
    = [.unit, .unit, .unit, .opt (some 2), .panicIndex, .opt (some 3), .list [2], .list [2, 1],
       .opt (some 2), .opt (some 1), .opt none, .val 0] := by decide

end stack
end MdsVerif.Props.C10
