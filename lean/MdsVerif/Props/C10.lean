import MdsVerif.Proofs.Stack
import MdsVerif.Proofs.Mlink
import MdsVerif.Proofs.MlinkRefine
import MdsVerif.Proofs.Ring
import MdsVerif.Proofs.RingCycle
import MdsVerif.Proofs.RingRefine
import MdsVerif.Gen.MlinkCursor
/-!
# C10 — stack, mlink.List/Queue and ring.Ring preserve their abstract sequence

## stack.Stack

`C10_stack_history`: for every history of `Push, Add, Pop, Clear` interleaved
with every observation (`Top, Peek n` for every integer `n`, `Each` stopped
anywhere, `Len, IsEmpty, Slice`) the slice model returns exactly what the LIFO
list returns (including the index panic of `Peek(n<0)`).
-/
namespace MdsVerif.Props.C10
section stack
open MdsVerif.Model.Stack MdsVerif.Spec MdsVerif.Proofs.Stack
variable {α : Type} [Inhabited α]

/-- one step: results agree and the abstraction `reverse` commutes -/
theorem stack_step_refines (s : S α) (op : Op α) :
    Lifo.step s.reverse op = ((step s op).1.reverse, (step s op).2) := by
  cases op with
  | push v => simp [step, Lifo.step, push]
  | add v => simp [step, Lifo.step, push]
  | pop => simp [step, Lifo.step, pop_abs]
  | clear => simp [step, Lifo.step]
  | top => simp [step, Lifo.step, top_abs]
  | peek n => simp [step, Lifo.step, peek_abs]
  | each k => simp [step, Lifo.step, each_abs]
  | len => simp [step, Lifo.step]
  | isEmpty =>
    simp only [step, Lifo.step, isEmptyTest_eq, Prod.mk.injEq, true_and, Out.bool.injEq]
    cases s <;> simp
  | slice => simp [step, Lifo.step, slice_abs]

theorem stack_run_refines (s : S α) (ops : List (Op α)) : run s ops = Lifo.run s.reverse ops := by
  induction ops generalizing s with
  | nil => rfl
  | cons op ops ih =>
    simp only [run, Lifo.run, stack_step_refines s op]
    rw [ih]

/-- **C10 (stack)**: every history on the zero value / `New()` -/
theorem C10_stack_history (ops : List (Op α)) : run ([] : S α) ops = Lifo.run [] ops :=
  stack_run_refines [] ops

/-- nothing lost, duplicated or reordered: after any history `Slice` is the LIFO list -/
theorem C10_stack_contents (ops : List (Op α)) :
    slice (ops.foldl (fun s op => (step s op).1) ([] : S α)) =
      ops.foldl (fun d op => (Lifo.step d op).1) [] := by
  suffices h : ∀ s : S α, (ops.foldl (fun s op => (step s op).1) s).reverse =
      ops.foldl (fun d op => (Lifo.step d op).1) s.reverse by
    rw [slice_abs]; exact h []
  induction ops with
  | nil => intro s; rfl
  | cons op ops ih =>
    intro s
    simp only [List.foldl_cons, stack_step_refines s op]
    exact ih _

example :
    run ([] : S Int) [.push 1, .add 2, .push 3, .peek 1, .peek (-1), .pop, .each 0, .slice, .pop, .pop, .pop, .top]
    = [.unit, .unit, .unit, .opt (some 2), .panicIndex, .opt (some 3), .list [2], .list [2, 1],
       .opt (some 2), .opt (some 1), .opt none, .val 0] := by decide

end stack
/-!
## mlink.Queue

`C10_queue_fifo`: for every history of `Add, Pop, Clear` with every observation (`Front, Peek n`
for every integer `n`, `Each` stopped anywhere, `Len, IsEmpty`), on the zero value and on
`NewQueue()`, the heap model of `mlink.Queue` (list + `back` cursor + `size`) returns exactly what
a plain FIFO list returns.  In particular no call panics (except `Peek(n<0)`, as documented) and no
loop runs out of fuel (`hang` is not in the reference's vocabulary).  Invariant: `QInv` — the heap
is well formed, `back.pred` is the last cell of the chain (so `back` is the end cursor, also after
the queue was emptied by `Pop` or `Clear`), `size` is the length.
-/
section queue
open MdsVerif.Model MdsVerif.Model.Mlink MdsVerif.Spec MdsVerif.Proofs.Mlink

theorem queue_step_refines (q : Q) (xs : List Nat) (hi : QInv q xs) (op : QOp) :
    ∃ xs', QInv (qstep q op).1 xs' ∧
      CursorList.qstep (abs q.h xs) op = (abs (qstep q op).1.h xs', (qstep q op).2) := by
  obtain ⟨ids, rfl⟩ := xs_cons q.h xs hi.wf
  cases op with
  | add v =>
    obtain ⟨xs', h1, h2, h3⟩ := qadd_inv q _ v hi
    exact ⟨xs', h1, by simp [qstep, CursorList.qstep, h2, h3]⟩
  | pop => exact qpop_inv q _ hi
  | clear =>
    obtain ⟨h1, h2, h3⟩ := qclear_inv q _ hi
    exact ⟨[0], h1, by simp [qstep, CursorList.qstep, h2, h3]⟩
  | front =>
    refine ⟨_, hi, ?_⟩
    simp only [qstep, CursorList.qstep, qpeek, Int.lt_irrefl, if_false, Int.toNat_zero,
      peek_wf q.h ids hi.wf 0, abs, List.tail_cons]
    cases List.map q.h.val ids <;> simp
  | peek n =>
    refine ⟨_, hi, ?_⟩
    by_cases hn : n < 0
    · simp [qstep, CursorList.qstep, qpeek, hn]
    · simp only [qstep, CursorList.qstep, qpeek, hn, if_false, peek_wf q.h ids hi.wf, abs, List.tail_cons]
      cases (List.map q.h.val ids)[n.toNat]? <;> simp
  | each k =>
    refine ⟨_, hi, ?_⟩
    simp [qstep, CursorList.qstep, each_wf q.h ids hi.wf, abs, List.map_take]
  | len =>
    refine ⟨_, hi, ?_⟩
    have := hi.size
    simp only [qstep, CursorList.qstep, abs, List.tail_cons, List.length_map, Prod.mk.injEq, true_and,
      Out.val.injEq, List.length_cons] at this ⊢
    push_cast at this; omega
  | isEmpty =>
    refine ⟨_, hi, ?_⟩
    have := cell_link q.h [] 0 ids none hi.wf.seg
    simp only [qstep, CursorList.qstep, abs, List.tail_cons, Mlink.isEmpty, this]
    cases ids <;> simp

theorem queue_run_refines (q : Q) (xs : List Nat) (hi : QInv q xs) (ops : List QOp) :
    qrun q ops = CursorList.qrun (abs q.h xs) ops := by
  induction ops generalizing q xs with
  | nil => rfl
  | cons op ops ih =>
    obtain ⟨xs', h1, h2⟩ := queue_step_refines q xs hi op
    simp only [qrun, CursorList.qrun, h2]
    rw [ih _ xs' h1]

/-- **C10 (mlink.Queue)**: every history on the zero value -/
theorem C10_queue_fifo (ops : List QOp) : qrun {} ops = CursorList.qrun [] ops :=
  queue_run_refines {} [0] qinv_zero ops

/-- **C10 (mlink.Queue)**: every history on `NewQueue()` -/
theorem C10_queue_fifo_new (ops : List QOp) : qrun Q.new ops = CursorList.qrun [] ops :=
  queue_run_refines Q.new [0] qinv_new ops

example :
    qrun {} [.add 1, .add 2, .pop, .pop, .pop, .add 3, .add 4, .peek 1, .peek (-1), .each 0, .clear, .add 5, .front, .len]
    = [.unit, .unit, .pair 1 true, .pair 2 true, .pair 0 false, .unit, .unit, .pair 4 true, .panicIndex,
       .list [3], .unit, .unit, .val 5, .val 1] := by decide

end queue

/-!
## mlink.Cursor: a stale cursor refuses every further use

A cursor is *stale* when its `pred` entry is self-linked (that is what `Remove`, `Truncate` and
`Clear` do to the entries they detach: `remove_wf`, `truncate_wf`).  `C10_stale_cursor_refuses`:
on ANY heap (no well-formedness needed) every `Cursor` method called through a stale cursor
returns `panic "invalid cursor"` at its first statement, with the heap and the cursor unchanged —
hence in bounded time and without touching the list.  `C10_stale_step`: the same seen through the
register machine the driver executes: state unchanged, observation `panic:invalid-cursor`.
`Add()` with no values is the only call that does not look at the cursor at all.
-/
section stale
open MdsVerif.Model MdsVerif.Model.Mlink MdsVerif.Proofs.Mlink

theorem C10_stale_cursor_refuses (h : Heap) (p : Nat) (hs : h.link p = some p) :
    atEnd h p = .panic h p ∧ Mlink.get h p = .panic h p ∧ (∀ v, Mlink.set h p v = .panic h p) ∧
    next h p = .panic h p ∧ (∀ v, push h p v = .panic h p) ∧
    (∀ v vs, add h p (v :: vs) = .panic h p) ∧ remove h p = .panic h p ∧ truncate h p = .panic h p :=
  stale_refuses h p hs

/-- every cursor operation of the register machine through a stale cursor: nothing changes, the
observation is `panic:invalid-cursor` -/
theorem C10_stale_step (s : St) (c p : Nat) (hc : s.reg c = some p) (hs : s.h.link p = some p) (v : Int)
    (vs : List Int) :
    step s (.push c v) = (s, .panicInvalid) ∧ step s (.add c (v :: vs)) = (s, .panicInvalid) ∧
    step s (.set c v) = (s, .panicInvalid) ∧ step s (.remove c) = (s, .panicInvalid) ∧
    step s (.truncate c) = (s, .panicInvalid) ∧ step s (.next c) = (s, .panicInvalid) ∧
    step s (.get c) = (s, .panicInvalid) ∧ step s (.atEnd c) = (s, .panicInvalid) := by
  obtain ⟨h1, h2, h3, h4, h5, h6, h7, h8⟩ := stale_refuses s.h p hs
  have e := setReg_self s c p hc
  refine ⟨?_, ?_, ?_, ?_, ?_, ?_, ?_, ?_⟩ <;>
    simp only [step, withCursor, hc, h1, h2, h3, h4, h5, h6, h7, h8, e]

/-- **F7 regression**: `Truncate` as it was before the repair (no `checkValid`) exhausts every
amount of fuel on a stale cursor — the hang that `corpus/C10.mlink/F7.ops` reproduced -/
theorem C10_F7_unfixed_truncate_diverges (h : Heap) (p : Nat) (hp : p < h.size) (hs : h.link p = some p) :
    ∀ fuel, truncateUnfixed fuel h p = .hang := by
  intro fuel
  simp [truncateUnfixed, hs, invalidate_selfloop p fuel h hp hs]

/-- the F7 scenario on the model as it is now: `[1 2 3 4]`, `c1 = At(1)`, `c2 = At(2)`, `c1.Remove()`,
then `c2.Truncate()` is refused and `c2.Next()`, `c2.Get()` too; the list is `[1 3 4]` throughout -/
example :
    run {} [.end_ 0, .add 0 [1, 2, 3, 4], .at_ 1 1, .at_ 2 2, .remove 1, .truncate 2, .next 2, .get 2,
      .each 10, .get 1]
    = [.unit, .unit, .unit, .unit, .val 2, .panicInvalid, .panicInvalid, .panicInvalid,
       .list [1, 3, 4], .val 3] := by decide

/-! ### every method of `Cursor` checks validity before it dereferences `c.pred` (regenerated table) -/

/-- a method is safe when the first thing its body does with the cursor is `c.pred.checkValid()`, or a
call of another method of `Cursor` that is safe (`fuel` bounds the delegation chain) -/
def cursorMethodSafe (ms : List Gen.MlinkCursor.Method) : Nat → String → Bool
  | 0, _ => false
  | fuel + 1, name =>
    match ms.find? (·.name == name) with
    | none => false
    | some m => !m.derefsFirst && (m.checksFirst || (m.delegatesTo != "" && cursorMethodSafe ms fuel m.delegatesTo))

/-- **C10_cursor_methods_check_validity.**  Over the table `Gen.MlinkCursor.methods`, regenerated from
mlink/list.go by `extract/mlink.go` on every run (for every method declared on `Cursor`: the first use of
the cursor in its body, in source order): the methods are exactly the eight the model `Model.Mlink`
mirrors, none of them dereferences `c.pred` before a validity check, and each either starts with
`c.pred.checkValid()` (`AtEnd`, `Push`, `Truncate`) or with a call of such a method (`Get`, `Set`, `Next`,
`Remove` → `AtEnd`; `Add` → `Push`); `entry.checkValid` still panics with "invalid cursor" on a
self-linked entry (`recognised`).  This is what finding F7 was about: before commit 7f86572 `Truncate`
was `c.pred.link.invalidate()` (`derefsFirst`), which never returns on a stale cursor
(`C10_F7_unfixed_truncate_diverges`).  A method added to `Cursor`, or one whose first statement changes,
changes `Gen/MlinkCursor.lean` and this theorem is re-decided. -/
theorem C10_cursor_methods_check_validity :
    Gen.MlinkCursor.recognised = true ∧
    Gen.MlinkCursor.methods.map (·.name) = ["Add", "AtEnd", "Get", "Next", "Push", "Remove", "Set", "Truncate"] ∧
    (∀ m ∈ Gen.MlinkCursor.methods, m.derefsFirst = false) ∧
    ∀ m ∈ Gen.MlinkCursor.methods, cursorMethodSafe Gen.MlinkCursor.methods 3 m.name = true := by
  decide

/-- non-vacuity: the table of the code before commit 7f86572 (finding F7) is rejected -/
example : cursorMethodSafe
    [{ name := "AtEnd", checksFirst := true, delegatesTo := "", derefsFirst := false },
     { name := "Truncate", checksFirst := false, delegatesTo := "", derefsFirst := true }] 3 "Truncate" = false := by
  decide

/-- **C10_mlink_current.**  The facts regenerated from mlink/queue.go and mlink/list.go by `extract/mlinkq.go`
(`Gen.MlinkQueue`) are the pinned ones: `Queue.Pop` resets `q.back` exactly when `q.list.IsEmpty()` (not on a
test of `q.size`), `Pop`/`Add`/`Clear` leave `q.size - 1` / `q.size + 1` / `0`, `Cursor.Remove` self-links the
removed entry unconditionally, `Cursor.Truncate` invalidates the tail before it cuts it off; and the extractor
recognised the statement skeleton of every `Queue` method, of `Cursor.Remove`, `Truncate`, `Add` and of
`entry.invalidate` (which cursor `Add` uses, `Clear`'s resets, the delegating one-liners as text).
`Model.Mlink.remove`, `truncate`, `qadd`, `qpop`, `qclear` call these definitions; a change in one of them
changes `Gen/MlinkQueue.lean`, and this theorem and the `*_def` lemmas of `Proofs.Mlink` no longer compile. -/
theorem C10_mlink_current :
    Gen.MlinkQueue.recognised = true ∧
    (∀ listEmpty size, Gen.MlinkQueue.popResets listEmpty size = listEmpty) ∧
    (∀ size, Gen.MlinkQueue.popSize size = size - 1) ∧
    (∀ size, Gen.MlinkQueue.addSize size = size + 1) ∧
    Gen.MlinkQueue.clearSize = 0 ∧
    Gen.MlinkQueue.removeSelfLinksAlways = true ∧
    Gen.MlinkQueue.truncateInvalidatesFirst = true :=
  ⟨rfl, fun _ _ => rfl, fun _ => rfl, fun _ => rfl, rfl, rfl, rfl⟩

end stale

/-!
## mlink.Cursor: each operation transforms (sequence, position) as documented

`WF h xs`: `xs = 0 :: ids` is the duplicate-free chain from the sentinel to nil, all other cells are
self-linked; the abstract sequence is `abs h xs`.  A cursor whose `pred` is `p` with
`xs = pre ++ p :: post` is at position `i = pre.length` (`post = []`: end of list).  For a cursor at
ANY position of ANY well-formed list (`A := abs h xs`):

* `C10_cursor_push`: `Push v` succeeds, keeps `WF`, the sequence becomes `A.take i ++ v :: A.drop i`
  and the cursor (same `pred`, same `pre`) is still at position `i`, now on the new element; no cell
  leaves the chain, so no other cursor is invalidated.  (`Set` at the end of the list is the same
  heap operation; `Add v` is `Push v; Next`.)
* `C10_cursor_remove`: on an element, `Remove` returns `A[i]`, the sequence becomes `A.eraseIdx i`,
  the cursor stays at `i`; the removed cell — the `pred` of exactly the cursors at position `i+1` —
  is self-linked afterwards (those cursors are stale by `C10_stale_cursor_refuses`), every other
  cell stays on the chain.  At the end of the list `Remove` returns the zero value and changes
  nothing.
* `C10_cursor_truncate`: the sequence becomes `A.take i`, the cursor is at the end, and every cell
  behind the cursor is self-linked (all cursors at positions `> i` are stale).  `Clear` is
  `Truncate` at position 0 (`clear_eq_truncate`).
* `C10_cursor_set`: on an element, `Set v` gives `A.set i v`, nothing else changes.
* `C10_cursor_read`: `Get` is `A[i]` (zero value at the end), `AtEnd` is `i = |A|`, `Next` moves to
  position `i+1` and reports whether that is before the end (no move at the end).
-/
section cursor
open MdsVerif.Model MdsVerif.Model.Mlink MdsVerif.Proofs.Mlink

theorem C10_cursor_push (h : Heap) (pre : List Nat) (p : Nat) (post : List Nat) (v : Int)
    (hw : WF h (pre ++ p :: post)) :
    ∃ h1 n, push h p v = .ok h1 ∧ WF h1 (pre ++ p :: n :: post) ∧
      abs h1 (pre ++ p :: n :: post) =
        (abs h (pre ++ p :: post)).take pre.length ++ v :: (abs h (pre ++ p :: post)).drop pre.length :=
  push_abs h pre p post v hw

/-- `Add(vs...)` = `Push; Next` per value: the values are inserted in order at the cursor's position and
the cursor ends up behind them, on the element it pointed to before (position `i + |vs|`). -/
theorem C10_cursor_add : ∀ (vs : List Int) (h : Heap) (pre : List Nat) (p : Nat) (post : List Nat),
    WF h (pre ++ p :: post) →
    ∃ h1 pre1 p1, add h p vs = .ok (h1, p1) ∧ WF h1 (pre1 ++ p1 :: post) ∧
      pre1.length = pre.length + vs.length ∧
      abs h1 (pre1 ++ p1 :: post) =
        (abs h (pre ++ p :: post)).take pre.length ++ vs ++ (abs h (pre ++ p :: post)).drop pre.length := by
  intro vs h pre p post hw
  obtain ⟨h1, pre1, p1, e, w, l, a, _⟩ := add_abs vs h pre p post hw
  exact ⟨h1, pre1, p1, e, w, l, a⟩

theorem C10_cursor_remove (h : Heap) (pre : List Nat) (p t : Nat) (post : List Nat)
    (hw : WF h (pre ++ p :: t :: post)) :
    ∃ h1, remove h p = .ok (h1, (abs h (pre ++ p :: t :: post)).getD pre.length 0) ∧
      WF h1 (pre ++ p :: post) ∧
      abs h1 (pre ++ p :: post) = (abs h (pre ++ p :: t :: post)).eraseIdx pre.length ∧
      h1.link t = some t :=
  remove_abs h pre p t post hw

theorem C10_cursor_remove_at_end (h : Heap) (pre : List Nat) (p : Nat) (hw : WF h (pre ++ [p])) :
    remove h p = .ok (h, 0) := remove_end h pre p hw

theorem C10_cursor_truncate (h : Heap) (pre : List Nat) (p : Nat) (post : List Nat)
    (hw : WF h (pre ++ p :: post)) :
    ∃ h1, truncate h p = .ok h1 ∧ WF h1 (pre ++ [p]) ∧
      abs h1 (pre ++ [p]) = (abs h (pre ++ p :: post)).take pre.length ∧
      ∀ j ∈ post, h1.link j = some j :=
  truncate_abs h pre p post hw

theorem C10_cursor_set (h : Heap) (pre : List Nat) (p t : Nat) (post : List Nat) (v : Int)
    (hw : WF h (pre ++ p :: t :: post)) :
    ∃ h1, Mlink.set h p v = .ok h1 ∧ WF h1 (pre ++ p :: t :: post) ∧
      abs h1 (pre ++ p :: t :: post) = (abs h (pre ++ p :: t :: post)).set pre.length v :=
  ⟨_, set_mid_wf h pre p t post v hw⟩

theorem C10_cursor_read (h : Heap) (pre : List Nat) (p : Nat) (post : List Nat)
    (hw : WF h (pre ++ p :: post)) :
    Mlink.get h p = .ok ((abs h (pre ++ p :: post)).getD pre.length 0) ∧
    atEnd h p = .ok (decide (pre.length = (abs h (pre ++ p :: post)).length)) ∧
    (post = [] → next h p = .ok (p, false)) ∧
    (∀ q r, post = q :: r → next h p = .ok (q, !r.isEmpty)) := by
  obtain ⟨a1, a2⟩ := abs_split h pre p post
  refine ⟨?_, ?_, ?_, ?_⟩
  · rw [get_cell h pre p post hw.seg hw.nodup, a1, getD_append_at _ _ _ _ a2]
    cases post <;> simp
  · rw [atEnd_cell h pre p post hw.seg hw.nodup, a1, List.length_append, a2]
    cases post <;> simp
  · intro e; subst e; exact next_end h pre p hw.seg hw.nodup
  · intro q r e; subst e; exact next_cell h pre p q r hw.seg hw.nodup

/-- **List methods agree with the abstract sequence** `A = abs h xs` of any well-formed heap:
`Each` (stopped anywhere, or never), `Len`, `Peek n`, `IsEmpty` read `A`; `At n`, `Find`, `Last`,
`End` return (without panic or fuel exhaustion) a cursor whose position — the length of the chain
prefix before its `pred` — is `min n |A|`, the index of the first match (`|A|` if none),
`|A| - 1` (0 for the empty list), `|A|`. -/
theorem C10_list_queries (h : Heap) (ids : List Nat) (hw : WF h (0 :: ids)) :
    let A := abs h (0 :: ids)
    (each h none = .ok A ∧ ∀ k, each h (some k) = .ok (A.take (k + 1))) ∧
    len h = .ok A.length ∧
    (∀ n, peek h n = .ok (match A[n]? with | some v => (v, true) | none => (0, false))) ∧
    Mlink.isEmpty h = A.isEmpty ∧
    (∀ n, ∃ pre p post, 0 :: ids = pre ++ p :: post ∧ pre.length = min n A.length ∧ at_ h n = .ok p) ∧
    (∀ v, ∃ pre p post, 0 :: ids = pre ++ p :: post ∧ pre.length = A.findIdx (· == v) ∧ find h v = .ok p) ∧
    (∃ pre p post, 0 :: ids = pre ++ p :: post ∧ pre.length = A.length - 1 ∧ last h = .ok p) ∧
    (∃ pre p, 0 :: ids = pre ++ [p] ∧ end_ h = .ok p) := by
  have hA : abs h (0 :: ids) = ids.map h.val := rfl
  simp only [hA, List.length_map]
  refine ⟨⟨by simpa using each_wf h ids hw none, fun k => by simpa [List.map_take] using each_wf h ids hw (some k)⟩,
    ?_, peek_wf h ids hw, ?_, at_wf h ids hw, find_wf h ids hw, last_wf h ids hw, end_wf h ids hw⟩
  · simp [len, each_wf h ids hw none]
  · have := cell_link h [] 0 ids none hw.seg
    simp only [Mlink.isEmpty, this]; cases ids <;> simp

/-- **C10 (mlink.List with cursors)**: for every history of the register machine — cursors obtained by
`At, Find, Last, End` or copied, advanced by `Next`, edited through with `Push, Add, Set, Remove,
Truncate` at any position, `Clear`, and every observation `Get, AtEnd, Peek, Each, Len, IsEmpty`,
with up to four cursors alive at once and stale cursors used again — the heap model returns exactly
what the positional reference `Spec.CursorList` returns: the same sequence, the same cursor
positions, `panic "invalid cursor"` for exactly the cursors the documentation says are
invalidated, never a fuel exhaustion (`hang` is not in the reference's vocabulary). -/
theorem C10_mlink_history (ops : List Op) :
    Mlink.run {} ops = MdsVerif.Spec.CursorList.run {} ops :=
  run_sim {} {} [0] R_init ops

/-- one step of the simulation, from any related pair of states -/
theorem C10_mlink_step (s : St) (a : MdsVerif.Spec.CursorList.A) (xs : List Nat) (hR : R s a xs) (op : Op) :
    ∃ xs', R (Mlink.step s op).1 (MdsVerif.Spec.CursorList.step a op).1 xs' ∧
      (Mlink.step s op).2 = (MdsVerif.Spec.CursorList.step a op).2 :=
  step_sim s a xs hR op

/-- non-vacuity of `WF` and of the position view: the heap built by `End; Add 1 2 3 4` is well formed
with chain `[0,1,2,3,4]`, and the cursor with `pred = 2` is at position 2 -/
example : (run {} [.end_ 0, .add 0 [1, 2, 3, 4], .at_ 1 2, .get 1, .remove 1, .each 9]) =
    [.unit, .unit, .unit, .val 3, .val 3, .list [1, 2, 4]] := by decide

end cursor

/-!
## ring.Ring: `Next` and `Prev` stay mutually inverse; no cell is lost or duplicated

`C10_ring_invariant`: after every history of `Of, New, Join, Pop, Next, Prev, At, Peek, Len, Each`
over the element registers (any registers, any arguments, including nil rings and `Join` of two
elements of the same ring at any distance), `prev (next i) = i` and `next (prev i) = i` for every
cell `i` ever allocated, both stay inside the heap, and every register is nil or a cell.  Since
`next` is then a bijection of the allocated cells, every cell lies on exactly one cycle: `Join` and
`Pop` (which change neither the number of cells nor any value: `C10_ring_surgery_conserves`)
rearrange cycles without losing or duplicating an element.
-/
section ring
open MdsVerif.Model.Ring MdsVerif.Proofs.Ring

theorem C10_ring_invariant (ops : List Op) :
    let s := ops.foldl (fun s op => (step s op).1) ({} : St)
    (∀ i, i < s.h.size → s.h.nx i < s.h.size ∧ s.h.pv i < s.h.size ∧
      s.h.pv (s.h.nx i) = i ∧ s.h.nx (s.h.pv i) = i) ∧
    (∀ r q, s.reg r = some q → q < s.h.size) := by
  suffices h : ∀ s : St, RInv s → RInv (ops.foldl (fun s op => (step s op).1) s) by
    have := h {} rinv_init
    exact ⟨fun i hi => ⟨this.inv.nlt i hi, this.inv.plt i hi, this.inv.pn i hi, this.inv.np i hi⟩, this.regs⟩
  induction ops with
  | nil => intro s hs; exact hs
  | cons op ops ih => intro s hs; exact ih _ (step_rinv s op hs)

/-- `Join` and `Pop` on cells of a well-formed heap keep it well formed, allocate nothing and change no
value: the cells are only re-linked.  `Pop` leaves `r` linked to itself only. -/
theorem C10_ring_surgery_conserves (h : Heap) (hi : Inv h) (r s : Nat) (hr : r < h.size) (hs : s < h.size) :
    (∃ h' p, join h (some r) (some s) = .ok (h', p) ∧ Inv h' ∧ h'.size = h.size ∧ h'.vals = h.vals) ∧
    (Inv (pop h (some r)) ∧ (pop h (some r)).size = h.size ∧ (pop h (some r)).vals = h.vals ∧
      (pop h (some r)).nx r = r ∧ (pop h (some r)).pv r = r) := by
  obtain ⟨h', p, e, i', sz, v, _⟩ := join_inv h hi r s hr hs
  exact ⟨⟨h', p, e, i', sz, v⟩, pop_inv h hi r hr⟩

/-- non-vacuity: `Of 1 2 3 4 5`, `Join` of the first element with the one at distance 3 splices out
`[2 3]`; joining that back after `4` gives `[1 4 2 3 5]`; popping `4` leaves `[1 2 3 5]` -/
example :
    run {} [.of 0 [1, 2, 3, 4, 5], .at_ 1 0 3, .join 2 0 1, .each 2 9, .each 0 9, .join 3 1 2, .each 0 9,
      .pop 4 1, .each 0 9, .each 4 9, .len 0, .peek 0 (-1), .peek 0 4]
    = [.unit, .unit, .unit, .list [2, 3], .list [1, 4, 5], .unit, .list [1, 4, 2, 3, 5],
       .unit, .list [1, 2, 3, 5], .list [4], .nat 4, .pair 5 true, .pair 0 false] := by decide

/-!
### `Join` and `Pop` produce exactly the documented cycles

`Cyc h c`: the duplicate-free list `c` of cells is a cycle of `next` read from its first element
(with `Inv`, `prev` walks it backwards).

* `C10_ring_join_different`: rings `[r1 … rn]` and `[s1 … sm]` (disjoint) become
  `[r1 s1 … sm r2 … rn]`, and `Join` returns `r2` (`r1` itself when `n = 1`).
* `C10_ring_join_same`: for `[r1 r2 … ri s1 … ]` with at least one element between `r1` and `s1`,
  the ring becomes `[r1 s1 …]`, the spliced-out `[r2 … ri]` is a ring of its own and `r2` is
  returned.  (Distance 0 and 1 return nil and change nothing: by definition of `join`.)
* `C10_ring_pop`: `[a r rest…]` becomes `[a rest…]` and `[r]`; a singleton is left alone.
All of them keep `Inv`, the number of cells and all values.
-/

theorem C10_ring_join_different (h : Heap) (hi : Inv h) (r s : Nat) (rs ss : List Nat)
    (c1 : Cyc h (r :: rs)) (c2 : Cyc h (s :: ss)) (hd : ∀ x ∈ r :: rs, x ∉ s :: ss) :
    ∃ h', join h (some r) (some s) = .ok (h', some (rs.headD r)) ∧
      Cyc h' (r :: ((s :: ss) ++ rs)) ∧ Inv h' ∧ h'.size = h.size ∧ h'.vals = h.vals :=
  join_different h hi r s rs ss c1 c2 hd

theorem C10_ring_join_same (h : Heap) (hi : Inv h) (r c s : Nat) (m rest : List Nat)
    (c1 : Cyc h (r :: ((m ++ [c]) ++ (s :: rest)))) :
    ∃ h', join h (some r) (some s) = .ok (h', some ((m ++ [c]).headD 0)) ∧
      Cyc h' (r :: s :: rest) ∧ Cyc h' (m ++ [c]) ∧ Inv h' ∧ h'.size = h.size ∧ h'.vals = h.vals :=
  join_same h hi r c s m rest c1

theorem C10_ring_pop (h : Heap) (hi : Inv h) (a r : Nat) (rest : List Nat) (c1 : Cyc h (a :: r :: rest)) :
    Cyc (pop h (some r)) [r] ∧ Cyc (pop h (some r)) (a :: rest) ∧ Inv (pop h (some r)) ∧
      (pop h (some r)).size = h.size ∧ (pop h (some r)).vals = h.vals :=
  pop_cyc h hi a r rest c1

theorem C10_ring_pop_singleton (h : Heap) (hi : Inv h) (r : Nat) (c1 : Cyc h [r]) : pop h (some r) = h :=
  pop_singleton h hi r c1

/-- **`Of vs` has cycle `vs`**: on any well-formed heap, `Of(v, vs...)` returns an element `r` whose cycle,
read by `next` from `r`, carries exactly `v :: vs`, and the heap stays well formed.  (`Of()` and
`New(n ≤ 0)` return nil by definition.) -/
theorem C10_ring_of (h : Heap) (hi : Inv h) (v : Int) (vs : List Int) :
    ∃ r l, (of h (v :: vs)).2 = some r ∧ Cyc (of h (v :: vs)).1 (r :: l) ∧
      (r :: l).map (of h (v :: vs)).1.val = v :: vs ∧ Inv (of h (v :: vs)).1 :=
  of_cyc h hi v vs

/-- **Observations are relative to the current cycle**: for an element `r` whose cycle is `r :: l`,
`Each` visits the values of `r :: l` in order (the first `k+1` if stopped), `Len` is `|l| + 1` (so
neither runs out of fuel), `At n` is the element at offset `n` along the cycle and `At (-n)` the one
at offset `n` along the reversed cycle, both nil exactly when `n ≥ Len` (the code's test; the
documentation says "greater than"), and `Peek` reports the value found there. -/
theorem C10_ring_observations (h : Heap) (hi : Inv h) (r : Nat) (l : List Nat) (hc : Cyc h (r :: l)) :
    each h (some r) none = .ok ((r :: l).map h.val) ∧
    (∀ k, each h (some r) (some k) = .ok (((r :: l).take (k + 1)).map h.val)) ∧
    len h (some r) = .ok (l.length + 1) ∧
    (∀ n : Nat, at_ h (some r) n = (if n ≤ l.length then (r :: l)[n]? else none) ∧
      at_ h (some r) (-(n : Int)) = (if n ≤ l.length then (r :: l.reverse)[n]? else none)) ∧
    (∀ n : Nat, n ≤ l.length → peek h (some r) n = (((r :: l).map h.val).getD n 0, true)) ∧
    (∀ n : Nat, l.length < n → peek h (some r) n = (0, false) ∧ peek h (some r) (-(n : Int)) = (0, false)) := by
  refine ⟨by simp [each, scan_cyc h r l hc none], fun k => by simp [each, scan_cyc h r l hc (some k)],
    by simp [len, scan_cyc h r l hc none], at_cyc h hi r l hc, ?_, ?_⟩
  · intro n hn
    have hlt : n < (r :: l).length := by simp; omega
    simp only [peek, (at_cyc h hi r l hc n).1, hn, if_true, List.getElem?_eq_getElem hlt]
    rw [List.getD_eq_getElem?_getD, List.getElem?_map, List.getElem?_eq_getElem hlt]
    simp
  · intro n hn
    have : ¬ n ≤ l.length := by omega
    simp [peek, (at_cyc h hi r l hc n).1, (at_cyc h hi r l hc n).2, this]

/-- non-vacuity of `Cyc`/`Inv`: `Of 1 2 3` on the empty heap is the cycle of cells `[0, 2, 1]` carrying
`[1, 2, 3]` (the loop of `New` inserts each fresh cell directly after the first one) -/
example : Cyc (of {} [1, 2, 3]).1 [0, 2, 1] ∧ [0, 2, 1].map (of {} [1, 2, 3]).1.val = [1, 2, 3] ∧
    Inv (of {} [1, 2, 3]).1 :=
  ⟨⟨by simp, ⟨rfl, rfl, rfl, trivial⟩, by decide, by decide⟩, by decide, (of_inv {} inv_empty _).1⟩

/-!
### Every cell of a reachable heap lies on a cycle (audit item 7)

The per-operation theorems above assume `Cyc h (r :: l)`.  `C10_ring_cycle_exists` discharges that
assumption from the history invariant alone: with `next`/`prev` mutually inverse inside a finite
heap, the orbit of `r` under `next` returns to `r` within `size` steps (pigeonhole on the first
`size + 1` iterates, injectivity of `next` pulls the coincidence back to `r`), and the iterates up
to the first return are the duplicate-free list of the cycle.  The list is unique
(`cyc_unique`), so "the ring of `r`" is well defined.  `C10_ring_history_cycles` restates the
history theorem: after every history every allocated cell — in particular every non-nil register —
lies on such a cycle, `Len`/`Each`/`At` read it, and `C10_ring_never_hangs`: no operation of any
history exhausts the fuel of `scan`.  `C10_ring_pop_any` / `C10_ring_join_any` are the `Pop` and
`Join` pictures without any hypothesis on cycles.
-/

/-- **cycle existence and uniqueness**: in a heap whose `next`/`prev` are mutually inverse and in
range, every cell `r` starts exactly one list `r :: l` that is a cycle of `next`; it has at most
`size` cells -/
theorem C10_ring_cycle_exists (h : Heap) (hi : Inv h) (r : Nat) (hr : r < h.size) :
    ∃ l, Cyc h (r :: l) ∧ (∀ l', Cyc h (r :: l') → l' = l) ∧ l.length + 1 ≤ h.size := by
  obtain ⟨l, c⟩ := cyc_exists h hi r hr
  exact ⟨l, c, fun l' c' => cyc_unique h r l' l c' c, by simpa using cyc_length_le h _ c⟩

/-- two cells are on the same cycle or on disjoint cycles: a cycle is closed under `next`, and the
cycles through `r` and `s` share an element only if `s` is on the cycle of `r` -/
theorem C10_ring_cycles_partition (h : Heap) (r s : Nat) (l l' : List Nat)
    (c1 : Cyc h (r :: l)) (c2 : Cyc h (s :: l')) :
    (∀ x ∈ r :: l, h.nx x ∈ r :: l) ∧
    (s ∈ r :: l → ∀ y, y ∈ s :: l' ↔ y ∈ r :: l) ∧
    (s ∉ r :: l → ∀ x ∈ r :: l, x ∉ s :: l') := by
  refine ⟨fun x hx => cyc_nx_mem h _ c1 x hx, fun hs y => ⟨?_, ?_⟩, fun hs => ?_⟩
  · exact cyc_mem_of_common h _ _ c1 c2 s hs (by simp) y
  · exact cyc_mem_of_common h _ _ c2 c1 s (by simp) hs y
  · exact cyc_disjoint_of_not_mem h _ _ c1 c2 s (by simp) hs

/-- the invariant of `C10_ring_invariant` as the predicate `Inv`/`RInv` of the per-operation theorems -/
theorem ring_history_rinv (ops : List Op) : RInv (ops.foldl (fun s op => (step s op).1) ({} : St)) := by
  suffices h : ∀ s : St, RInv s → RInv (ops.foldl (fun s op => (step s op).1) s) from h {} rinv_init
  induction ops with
  | nil => intro s hs; exact hs
  | cons op ops ih => intro s hs; exact ih _ (step_rinv s op hs)

/-- **after every history every cell lies on a cycle**: for every allocated cell `q` of the state
reached by any history — in particular for every register that is not nil — there is exactly one
duplicate-free list `q :: l` of cells that is a cycle of `next` (and, read backwards, of `prev`);
`Len` is its length, `Each` visits its values in order (neither runs out of fuel), `At`/`Peek` index
it in both directions.  All per-operation theorems (`C10_ring_join_*`, `C10_ring_pop`,
`C10_ring_observations`) therefore apply to every ring reached by a history. -/
theorem C10_ring_history_cycles (ops : List Op) :
    let s := ops.foldl (fun s op => (step s op).1) ({} : St)
    Inv s.h ∧
    (∀ q, q < s.h.size → ∃ l, Cyc s.h (q :: l) ∧ ∀ l', Cyc s.h (q :: l') → l' = l) ∧
    (∀ i q, s.reg i = some q → ∃ l, Cyc s.h (q :: l) ∧ (∀ l', Cyc s.h (q :: l') → l' = l) ∧
      len s.h (s.reg i) = .ok (l.length + 1) ∧
      each s.h (s.reg i) none = .ok ((q :: l).map s.h.val) ∧
      (∀ k, each s.h (s.reg i) (some k) = .ok (((q :: l).take (k + 1)).map s.h.val)) ∧
      (∀ n : Nat, at_ s.h (s.reg i) n = (if n ≤ l.length then (q :: l)[n]? else none) ∧
        at_ s.h (s.reg i) (-(n : Int)) = (if n ≤ l.length then (q :: l.reverse)[n]? else none))) := by
  intro s
  have hs : RInv s := ring_history_rinv ops
  refine ⟨hs.inv, fun q hq => ?_, fun i q hq => ?_⟩
  · obtain ⟨l, c, u, _⟩ := C10_ring_cycle_exists s.h hs.inv q hq
    exact ⟨l, c, u⟩
  · obtain ⟨l, c, u, _⟩ := C10_ring_cycle_exists s.h hs.inv q (hs.regs i q hq)
    obtain ⟨o1, o2, o3, o4, _, _⟩ := C10_ring_observations s.h hs.inv q l c
    rw [hq]
    exact ⟨l, c, u, o3, o1, o2, o4⟩

/-- on a well-formed state no operation hangs (`scan` never runs out of fuel) -/
theorem step_no_hang (s : St) (hs : RInv s) (op : Op) : (step s op).2 ≠ .hang := by
  have hscan : ∀ r stop, scan s.h (s.reg r) stop ≠ .hang := by
    intro r stop
    cases hr : s.reg r with
    | none => simp [scan]
    | some q =>
      obtain ⟨l, c⟩ := cyc_exists s.h hs.inv q (hs.regs r q hr)
      rw [scan_cyc s.h q l c stop]; simp
  cases op with
  | of d vs => simp [step]
  | new d n => simp [step]
  | join d r t =>
    simp only [step]
    cases hr : s.reg r with
    | none => cases ht : s.reg t <;> simp [join_nn, join_ns]
    | some a => cases ht : s.reg t with
      | none => simp [join_sn]
      | some b =>
        obtain ⟨h', p, e, _⟩ := join_inv s.h hs.inv a b (hs.regs r a hr) (hs.regs t b ht)
        rw [e]; simp
  | pop d r => simp [step]
  | next d r => simp only [step]; split <;> simp
  | prev d r => simp only [step]; split <;> simp
  | at_ d r n => simp [step]
  | peek r n => simp [step]
  | len r =>
    simp only [step, len]
    have := hscan r none
    cases hsc : scan s.h (s.reg r) none with
    | ok l => simp
    | panicNil => simp
    | hang => exact absurd hsc this
  | each r k =>
    simp only [step, each]
    have := hscan r (some k)
    cases hsc : scan s.h (s.reg r) (some k) with
    | ok l => simp
    | panicNil => simp
    | hang => exact absurd hsc this
  | isEmpty r => simp [step]

/-- **scan terminates on every ring reached by a history**: no operation of any history returns
`hang` (the model's "fuel of `scan` exhausted"; `size + 1` iterations always suffice) -/
theorem C10_ring_never_hangs (ops : List Op) : Out.hang ∉ run {} ops := by
  suffices h : ∀ s : St, RInv s → Out.hang ∉ run s ops from h {} rinv_init
  induction ops with
  | nil => intro s _; simp [run]
  | cons op ops ih =>
    intro s hs
    simp only [run, List.mem_cons, not_or]
    exact ⟨fun e => step_no_hang s hs op e.symm, ih _ (step_rinv s op hs)⟩

/-- **`Pop` without a hypothesis on cycles**: for every cell `r` of a well-formed heap, with
`r :: l` its cycle: a singleton is left alone; otherwise `r` becomes a ring of its own and the rest
`l` (read from the old `r.Next()`) is a cycle -/
theorem C10_ring_pop_any (h : Heap) (hi : Inv h) (r : Nat) (hr : r < h.size) :
    ∃ l, Cyc h (r :: l) ∧ (l = [] → pop h (some r) = h) ∧
      (l ≠ [] → Cyc (pop h (some r)) [r] ∧ Cyc (pop h (some r)) l) ∧
      Inv (pop h (some r)) ∧ (pop h (some r)).size = h.size ∧ (pop h (some r)).vals = h.vals :=
  pop_any h hi r hr

/-- **`Join` without a hypothesis on cycles**: for any two cells `r`, `s` of a well-formed heap, with
`r :: l` the cycle of `r`: (1) `s = r` or `s = r.Next()`: nothing happens, nil is returned;
(2) `s` farther along the same ring, `l = m ++ s :: rest` with `m ≠ []`: the ring becomes
`r :: s :: rest`, `m` is a ring of its own and its first element is returned; (3) `s` on another
ring `s :: l'`: the rings are merged into `r :: s :: l' ++ l` and `r`'s old successor is returned.
Exactly one of the three cases applies. -/
theorem C10_ring_join_any (h : Heap) (hi : Inv h) (r s : Nat) (hr : r < h.size) (hs : s < h.size) :
    ∃ l, Cyc h (r :: l) ∧
      ((s = r ∨ l.head? = some s) → join h (some r) (some s) = .ok (h, none)) ∧
      (∀ m rest, l = m ++ s :: rest → m ≠ [] →
        ∃ h', join h (some r) (some s) = .ok (h', m.head?) ∧ Cyc h' (r :: s :: rest) ∧ Cyc h' m ∧
          Inv h' ∧ h'.size = h.size ∧ h'.vals = h.vals) ∧
      (s ∉ r :: l → ∃ l' h', Cyc h (s :: l') ∧ join h (some r) (some s) = .ok (h', some (l.headD r)) ∧
          Cyc h' (r :: ((s :: l') ++ l)) ∧ Inv h' ∧ h'.size = h.size ∧ h'.vals = h.vals) ∧
      (s = r ∨ s ∈ l ∨ s ∉ r :: l) :=
  join_any h hi r s hr hs

/-- non-vacuity of cycle existence on a reached heap: after `Of 1 2 3 4 5`, `Join` (splice out `[2 3]`)
and `Pop`, every cell is on a cycle and `Len` reads it (register 2 holds the spliced-out ring) -/
example :
    let s := [Op.of 0 [1, 2, 3, 4, 5], .at_ 1 0 3, .join 2 0 1, .pop 4 1].foldl (fun s op => (step s op).1) ({} : St)
    s.h.size = 5 ∧ len s.h (s.reg 2) = .ok 2 ∧ len s.h (s.reg 0) = .ok 2 ∧ len s.h (s.reg 4) = .ok 1 := by
  decide

/-!
### The ring register machine refines the list-of-cycles reference

`Spec.Cycles` is the documentation's picture: a list of cycles, `Join` and `Pop` as list surgery,
elements numbered in creation order along their ring.  The model allocates heap cells in the order
the loop of `New` links them (`Of 1 2 3` on the empty heap is the cycle of cells `[0, 2, 1]`, the
reference calls the same elements `[0, 1, 2]`), so the simulation relation `Sim s c ρ` carries a
renaming `ρ` of cells to element ids: `ρ` is a bijection of the allocated cells, values and
registers agree through `ρ`, every reference cycle is the `ρ`-image of a model cycle and every cell
is covered.  Outputs never contain a pointer, so the theorem itself is an equality of outputs.
-/

/-- **one step** from any related pair of states: same output, related states (the renaming is
extended by `Of`/`New`, unchanged otherwise) -/
theorem C10_ring_step (s : St) (c : MdsVerif.Spec.Cycles.C) (ρ : Nat → Nat) (hs : Sim s c ρ) (op : Op) :
    ∃ ρ', Sim (step s op).1 (MdsVerif.Spec.Cycles.step c op).1 ρ' ∧
      (step s op).2 = (MdsVerif.Spec.Cycles.step c op).2 :=
  step_sim hs op

/-- **C10 (ring)**: for every history of `Of, New, Join, Pop, Next, Prev, At, Peek, Len, Each, IsEmpty`
over the element registers — any registers, any arguments, nil rings, `Join` of two elements of the
same ring at any distance or of different rings, `Pop` of any element — the explicit-heap model of
ring.go returns exactly what the list-of-cycles reference returns: the same values in the same
order, the same lengths, the same nil-pointer panics, and never `hang`. -/
theorem C10_ring_history (ops : List Op) : run {} ops = MdsVerif.Spec.Cycles.run {} ops :=
  run_sim ops {} {} id sim_init

/-- non-vacuity: the renaming is not the identity — `Of 1 2 3` is the cycle of cells `[0, 2, 1]` in the
model and of element ids `[0, 1, 2]` in the reference — and the two agree on a history with both kinds
of `Join` and a `Pop` -/
example : (of {} [1, 2, 3]).1.next = [2, 0, 1] ∧
    (MdsVerif.Spec.Cycles.step {} (.of 0 [1, 2, 3])).1.cycles = [[0, 1, 2]] ∧
    MdsVerif.Spec.Cycles.run {} [.of 0 [1, 2, 3, 4, 5], .at_ 1 0 3, .join 2 0 1, .each 2 9, .each 0 9, .join 3 1 2,
      .each 0 9, .pop 4 1, .each 0 9, .each 4 9, .len 0, .peek 0 (-1), .peek 0 4, .join 5 6 0]
    = [.unit, .unit, .unit, .list [2, 3], .list [1, 4, 5], .unit, .list [1, 4, 2, 3, 5],
       .unit, .list [1, 2, 3, 5], .list [4], .nat 4, .pair 5 true, .pair 0 false, .panicNil] := by decide

/-- **C10_ring_current.**  The pointer surgery of ring/ring.go as regenerated by `extract/ring.go` on every run
(`Gen.Ring`) is the pinned one: `Join`'s early-return disjuncts in order, its locals, its four assignments IN
ORDER with their operands, its result; `Pop`'s guard, locals and four assignments; the four assignments of
`New`'s loop body; `New`'s two tests; the fields behind `Next`/`Prev`; `At`'s sign test, negation and the two
step functions; `scan`'s wrap test and step; and the extractor recognised the statement skeleton of every
function of the package.  `Model.Ring.join`, `pop`, `newLoop` *interpret* these tables on the heap and `new`,
`at_` call the facts, so `C10_ring_history` is about the statements that are in the source now: a reordered
assignment, a changed operand or field, or a changed test changes `Gen/Ring.lean`, and this theorem and the
`join_ss` / `pop_some` / `newLoop_succ'` / `new_def` / `at_some` lemmas of `Proofs.Ring` no longer compile.
(`newGoes`, `atGoes`, `nextFld`, `prevFld`, `scanWrapFld`, `scanStepFld` are not used by the model — loops are
recursions on the counter, `Next`/`Prev`/`scan` read `nx`/`pv` directly — and are tied by this theorem alone.) -/
theorem C10_ring_current :
    Gen.Ring.recognised = true ∧
    -- Join: `if r == s || r.next == s { return nil }; rnext, sprev := r.next, s.prev`
    Gen.Ring.joinEarly = [(⟨.r, []⟩, ⟨.s, []⟩), (⟨.r, [.next]⟩, ⟨.s, []⟩)] ∧
    Gen.Ring.joinLocals = [(.rnext, ⟨.r, [.next]⟩), (.sprev, ⟨.s, [.prev]⟩)] ∧
    -- `r.next = s; s.prev = r; sprev.next = rnext; rnext.prev = sprev; return rnext`
    Gen.Ring.joinAssigns = [⟨⟨.r, []⟩, .next, ⟨.s, []⟩⟩, ⟨⟨.s, []⟩, .prev, ⟨.r, []⟩⟩,
      ⟨⟨.sprev, []⟩, .next, ⟨.rnext, []⟩⟩, ⟨⟨.rnext, []⟩, .prev, ⟨.sprev, []⟩⟩] ∧
    Gen.Ring.joinReturn = ⟨.rnext, []⟩ ∧
    -- Pop: `if r != nil && r.prev != r { rprev, rnext := r.prev, r.next; … }`
    Gen.Ring.popGuard = [(⟨.r, [.prev]⟩, ⟨.r, []⟩)] ∧
    Gen.Ring.popLocals = [(.rprev, ⟨.r, [.prev]⟩), (.rnext, ⟨.r, [.next]⟩)] ∧
    -- `rprev.next = r.next; rnext.prev = r.prev; r.prev = r; r.next = r`
    Gen.Ring.popAssigns = [⟨⟨.rprev, []⟩, .next, ⟨.r, [.next]⟩⟩, ⟨⟨.rnext, []⟩, .prev, ⟨.r, [.prev]⟩⟩,
      ⟨⟨.r, []⟩, .prev, ⟨.r, []⟩⟩, ⟨⟨.r, []⟩, .next, ⟨.r, []⟩⟩] ∧
    -- New: `if n <= 0`, `for n > 1`, `elt.next = r.next; r.next.prev = elt; elt.prev = r; r.next = elt`
    (∀ n, Gen.Ring.newNil n = decide (n ≤ 0)) ∧
    (∀ n, Gen.Ring.newGoes n = decide (n > 1)) ∧
    Gen.Ring.newAssigns = [⟨⟨.elt, []⟩, .next, ⟨.r, [.next]⟩⟩, ⟨⟨.r, [.next]⟩, .prev, ⟨.elt, []⟩⟩,
      ⟨⟨.elt, []⟩, .prev, ⟨.r, []⟩⟩, ⟨⟨.r, []⟩, .next, ⟨.elt, []⟩⟩] ∧
    -- Next, Prev, At, scan
    Gen.Ring.nextFld = .next ∧ Gen.Ring.prevFld = .prev ∧
    (∀ n, Gen.Ring.atNeg n = decide (n < 0)) ∧
    Gen.Ring.atStepFwd = 1 ∧ Gen.Ring.atStepBack = -1 ∧
    Gen.Ring.atFwd = .next ∧ Gen.Ring.atBack = .prev ∧
    (∀ n, Gen.Ring.atGoes n = decide (n ≠ 0)) ∧
    Gen.Ring.scanWrapFld = .next ∧ Gen.Ring.scanStepFld = .next :=
  ⟨rfl, rfl, rfl, rfl, rfl, rfl, rfl, rfl, fun _ => rfl, fun _ => rfl, rfl, rfl, rfl, fun _ => rfl, rfl, rfl,
   rfl, rfl, fun _ => rfl, rfl, rfl⟩

/-- non-vacuity of the table interpreter: the model's `Join` of two elements of one ring executes the four
regenerated assignments on the heap (`Of 1 2 3 4`, `Join` of the first and third element splices out the second) -/
example : (join (of {} [1, 2, 3, 4]).1 (some 0) (at_ (of {} [1, 2, 3, 4]).1 (some 0) 2)) =
    .ok ({ vals := [1, 4, 3, 2], next := [2, 0, 1, 3], prev := [1, 2, 0, 3] }, some 3) := by decide

end ring

end MdsVerif.Props.C10
