import MdsVerif.Model.Mapset
import MdsVerif.Spec.MathSet
