import MdsVerif.Proofs.MapsetRefine
/-!
# C18 — `mapset.Set` operations agree with mathematical sets, including nil and empty sets

Model: `Model.Mapset` (`none` = nil map, `some l` = map with duplicate-free key list `l`, in
*any* order; Go's map iteration order is an explicit oracle wherever a result depends on it).
Reference: `Spec.MathSet`.

* `C18_history` — every history of every operation (mutators, constructors, predicates,
  `Pop`/`Slice`/`Append` under every oracle, arbitrary re-orderings in between) on the set
  variables `s0, s1, …`: every output of the model is exactly the output the reference demands,
  and afterwards every variable has the nil-ness, the members and the `Len` of its reference set.
* `C18_mutators`, `C18_intersects` … `C18_intersect` — the same facts stated directly as
  set theory over `has`, for all operands including `none` and `some []`.
* `C18_fresh`, `C18_no_alias`, `C18_returns_receiver` — identities.
* `C18_pop`, `C18_pop_any`, `C18_slice`, `C18_append`, `C18_every_order` — the order-dependent
  operations, for every oracle.
-/
set_option linter.unusedSectionVars false
namespace MdsVerif.Props.C18
open MdsVerif.Model.Mapset MdsVerif.Spec MdsVerif.Proofs.Mapset
variable {α : Type} [DecidableEq α] [Inhabited α]

/-- the reference accepts the model's outputs from related states, and the states stay related -/
theorem history_from (R : Regs α) (S : MathSet.Regs α) (h : Rel R S) (ops : List (Op α)) :
    ∃ S', MathSet.judge S ops (run R ops) = some S' ∧ Rel (exec R ops) S' := by
  induction ops generalizing R S with
  | nil => exact ⟨S, rfl, h⟩
  | cons op ops ih =>
    obtain ⟨h1, h2⟩ := sim_step h op
    obtain ⟨S', h3, h4⟩ := ih _ _ h2
    refine ⟨S', ?_, h4⟩
    simp only [run, MathSet.judge, h1, if_true]
    exact h3

/-- **C18, histories.**  Starting from nil set variables, for every list of operations and every
choice of iteration orders: the reference set machine accepts every output of the model
(results of `Len`, `Has`, `IsEmpty`, `Intersects`, `IsSubset`, `Equals`, `HasAll`, `HasAny`, the
identity of every returned set, the popped elements, the slices), and after the history every set
variable agrees with its reference set in nil-ness, membership and `Len`, and holds each key once. -/
theorem C18_history (ops : List (Op α)) :
    ∃ S', MathSet.judge MathSet.Regs.init ops (run Regs.init ops) = some S' ∧
      ∀ i, isNil (exec Regs.init ops i) = (S' i).isNil ∧
           (∀ x, has (exec Regs.init ops i) x = decide (x ∈ (S' i).mem)) ∧
           len (exec Regs.init ops i) = (S' i).mem.length ∧
           (S' i).mem.Nodup ∧ WF (exec Regs.init ops i) := by
  obtain ⟨S', h1, h2⟩ := history_from (α := α) _ _ rel_init ops
  refine ⟨S', h1, fun i => ⟨(h2 i).nil, fun x => ?_, (h2 i).len_eq, (h2 i).nd, (h2 i).wf⟩⟩
  rw [Bool.eq_iff_iff]; simp [(h2 i).mem x]

theorem C18_accepts (ops : List (Op α)) :
    MathSet.accepts MathSet.Regs.init ops (run Regs.init ops) = true := by
  obtain ⟨S', h, _⟩ := C18_history ops
  simp [MathSet.accepts, h]

/-- every set variable holds each key once, after any history (the invariant the predicate theorems assume) -/
theorem C18_wf (ops : List (Op α)) (i : Nat) : WF (exec (Regs.init : Regs α) ops i) := by
  obtain ⟨_, _, h⟩ := C18_history ops
  exact (h i).2.2.2.2

/-! ### the mutators, as set theory -/

/-- `Add`, `AddAll`, `Remove`, `RemoveAll`, `Clear` on every receiver/argument including nil and empty:
membership afterwards, nil-ness afterwards, and the invariant. -/
theorem C18_mutators (s t : MSet α) (items : List α) (hs : WF s) :
    (∀ x, has (add s items).1.val x = (has s x || decide (x ∈ items))) ∧
    (∀ x, has (addAll s t).1.val x = (has s x || has t x)) ∧
    (∀ x, has (remove s items).1.val x = (has s x && !decide (x ∈ items))) ∧
    (∀ x, has (removeAll s t).1.val x = (has s x && !has t x)) ∧
    (∀ x, has (clear s).1.val x = false) ∧
    isNil (add s items).1.val = false ∧ isNil (addAll s t).1.val = false ∧
    isNil (remove s items).1.val = isNil s ∧ isNil (removeAll s t).1.val = isNil s ∧
    isNil (clear s).1.val = isNil s := by
  have rm : ∀ xs : List α, (∀ x, has (removeLoop s xs) x = (has s x && !decide (x ∈ xs))) ∧
      isNil (removeLoop s xs) = isNil s := by
    intro xs
    cases s with
    | none => simp [has, isNil]
    | some l =>
      obtain ⟨l', h1, _, h3⟩ := removeLoop_some xs l hs
      rw [h1]
      refine ⟨fun x => ?_, rfl⟩
      rw [Bool.eq_iff_iff]; simp [h3 x]
  refine ⟨fun x => ?_, fun x => ?_, (rm items).1, (rm (elems t)).1, fun x => ?_, ?_, ?_, (rm items).2, (rm (elems t)).2, ?_⟩
  · rw [Bool.eq_iff_iff]; cases s <;> simp [add, mem_addItems]
  · rw [Bool.eq_iff_iff]
    cases s with
    | none => cases t <;> simp [addAll, clone]
    | some l => simp [addAll, mem_addItems]
  · cases s <;> simp [clear, has]
  · cases s <;> rfl
  · cases s <;> cases t <;> rfl
  · cases s <;> rfl

/-! ### the predicates, as set theory, for all operands (nil, empty, equal, any sizes) -/

theorem C18_intersects (s t : MSet α) :
    intersects s t = true ↔ ∃ x, has s x = true ∧ has t x = true := by
  simp [intersects_iff]

theorem C18_isSubset (s t : MSet α) (hs : WF s) :
    isSubset s t = true ↔ ∀ x, has s x = true → has t x = true := by
  simp [isSubset_iff s t hs]

theorem C18_equals (s t : MSet α) (hs : WF s) (ht : WF t) :
    equals s t = true ↔ ∀ x, has s x = has t x := by
  rw [equals_iff s t hs ht]
  constructor
  · intro h x; rw [Bool.eq_iff_iff]; simp [h x]
  · intro h x; have := h x; rw [Bool.eq_iff_iff] at this; simpa using this

theorem C18_hasAll (s : MSet α) (ts : List α) :
    hasAll s ts = true ↔ ∀ x, x ∈ ts → has s x = true := by
  simp [hasAll_iff]

theorem C18_hasAny (s : MSet α) (ts : List α) :
    hasAny s ts = true ↔ ∃ x, x ∈ ts ∧ has s x = true := by
  simp [hasAny_iff]

/-- `Intersect(ss...)`: a fresh, non-nil, duplicate-free set holding exactly the common members
(the empty set for no operands) -/
theorem C18_intersect (ss : List (MSet α)) :
    (intersect ss).id = .fresh ∧ isNil (intersect ss).val = false ∧ WF (intersect ss).val ∧
    (ss = [] → len (intersect ss).val = 0) ∧
    (ss ≠ [] → ∀ x, has (intersect ss).val x = true ↔ ∀ s, s ∈ ss → has s x = true) := by
  obtain ⟨out, h1, h2, h3, h4⟩ := intersect_spec ss
  rw [h1]
  refine ⟨rfl, rfl, h2, fun h => by simp [h3 h], fun h x => ?_⟩
  simp [h4 h x]

/-! ### identities -/

/-- `New`, `NewSize`, `Clone`, `Intersect`, `Range`, `Keys`, `Values`: the result is a map allocated by
the call (not the receiver's, not an argument's) and is not nil — for all arguments, nil included. -/
theorem C18_fresh (s : MSet α) (ss : List (MSet α)) (items : List α) (n : Nat) (m : Option (List (α × α))) :
    ((new items).id = .fresh ∧ isNil (new items).val = false) ∧
    ((newSize n : SetRes α).id = .fresh ∧ isNil (newSize n : SetRes α).val = false) ∧
    ((clone s).id = .fresh ∧ isNil (clone s).val = false) ∧
    ((intersect ss).id = .fresh ∧ isNil (intersect ss).val = false) ∧
    ((range items).id = .fresh ∧ isNil (range items).val = false) ∧
    ((keys m).id = .fresh ∧ isNil (keys m).val = false) ∧
    ((values m).id = .fresh ∧ isNil (values m).val = false) := by
  refine ⟨⟨rfl, rfl⟩, ⟨rfl, rfl⟩, ⟨clone_id s, by cases s <;> rfl⟩, ?_, ⟨rfl, rfl⟩, ⟨rfl, rfl⟩, ⟨rfl, rfl⟩⟩
  exact ⟨(C18_intersect ss).1, (C18_intersect ss).2.1⟩

/-- and what the fresh sets contain -/
theorem C18_constructed (s : MSet α) (items : List α) (m : Option (List (α × α))) (x : α) :
    has (new items).val x = decide (x ∈ items) ∧
    has (clone s).val x = has s x ∧
    has (range items).val x = decide (x ∈ items) ∧
    has (keys m).val x = decide (∃ p, p ∈ m.getD [] ∧ p.1 = x) ∧
    has (values m).val x = decide (∃ p, p ∈ m.getD [] ∧ p.2 = x) := by
  refine ⟨?_, ?_, ?_, ?_, ?_⟩ <;> rw [Bool.eq_iff_iff]
  · simp [new, mem_addItems]
  · cases s <;> simp [clone]
  · simp [range, mem_addItems]
  · simp [keys, mem_addItems]
  · simp [values, mem_addItems]

/-- In the register machine a variable is only ever assigned nil, a fresh map, or the map it already
held: no two variables come to share a map, no operation hands out an operand's map. -/
theorem C18_no_alias (R : Regs α) (op : Op α) (r : Nat) (id : Ident) :
    (step R op).2.asg = some (r, id) → id ≠ .arg := by
  intro h hid
  subst hid
  cases op <;> simp [step, ctor, mutr, new, newSize, range, keys, values] at h
  case clone d r' => have := clone_id (R r'); rw [h.2] at this; cases this
  case intersect d rs => have := (C18_intersect (rs.map R)).1; rw [h.2] at this; cases this
  case add r' items => cases hm : R r' <;> simp [add, hm] at h
  case addAll r' t =>
    cases hm : R r' with
    | none => have := clone_id (R t); simp [addAll, hm] at h; rw [h.2] at this; cases this
    | some l => simp [addAll, hm] at h
  case remove r' items => cases hm : removeLoop (R r') items <;> simp [remove, idOf, hm] at h
  case removeAll r' t => cases hm : removeLoop (R r') (elems (R t)) <;> simp [removeAll, idOf, hm] at h
  case pop r' hint => cases hm : (pop (R r') hint).1 <;> simp [idOf, hm] at h
  case clear r' => cases hm : R r' <;> simp [clear, hm] at h

/-- `Add`, `AddAll`, `Remove`, `RemoveAll`, `Clear` return the receiver (which is nil only when a
value-receiver method was called on a nil set). -/
theorem C18_returns_receiver (s t : MSet α) (items : List α) :
    (add s items).2 = .recv ∧ (addAll s t).2 = .recv ∧
    (remove s items).2 = (remove s items).1.id ∧ (removeAll s t).2 = (removeAll s t).1.id ∧
    (clear s).2 = (clear s).1.id ∧
    ((remove s items).2 = if isNil s then .nil else .recv) ∧
    ((removeAll s t).2 = if isNil s then .nil else .recv) ∧
    ((clear s).2 = if isNil s then .nil else .recv) := by
  have rm : ∀ xs : List α, idOf (removeLoop s xs) = if isNil s then .nil else .recv := by
    intro xs
    cases s with
    | none => simp [idOf, isNil]
    | some l =>
      -- `removeLoop` never turns a map into nil
      induction xs generalizing l with
      | nil => rfl
      | cons y ys ih =>
        simp only [removeLoop]
        split
        · rfl
        · exact ih (l.erase y)
  refine ⟨by cases s <;> rfl, by cases s <;> rfl, rfl, rfl, by cases s <;> rfl, rm items, rm (elems t), by cases s <;> rfl⟩

/-! ### `Pop`, `Slice`, `Append`: every iteration order -/

/-- `Pop`, for every oracle: on an empty (or nil) set the zero value is returned and nothing changes;
otherwise the result was a member, exactly it is removed, `Len` drops by one. -/
theorem C18_pop (s : MSet α) (hint : α) (hs : WF s) :
    (len s = 0 → pop s hint = (s, default)) ∧
    (len s ≠ 0 →
      has s (pop s hint).2 = true ∧
      (∀ y, has (pop s hint).1 y = (has s y && decide (y ≠ (pop s hint).2))) ∧
      len (pop s hint).1 + 1 = len s ∧ WF (pop s hint).1 ∧ isNil (pop s hint).1 = false) := by
  refine ⟨pop_empty s hint, fun h0 => ?_⟩
  obtain ⟨h1, h2, _⟩ := pop_nonempty s hint h0
  refine ⟨by simpa using h1, fun y => ?_, ?_, ?_, ?_⟩
  · rw [h2, Bool.eq_iff_iff]; simp [mem_delete hs]
  · rw [h2]; exact len_delete _ h1
  · rw [h2]; exact WF_delete hs _
  · rw [h2]; cases s with
    | none => simp at h0
    | some l => rfl

/-- every member is a possible result of `Pop` -/
theorem C18_pop_any (s : MSet α) (x : α) (hx : has s x = true) : (pop s x).2 = x := by
  have hx : x ∈ elems s := by simpa using hx
  have h0 : len s ≠ 0 := by
    intro h; rw [(len_eq_zero_iff s).mp h] at hx; cases hx
  exact (pop_nonempty s x h0).2.2 hx

/-- `Slice`, for every oracle: nil for an empty set, otherwise each member exactly once -/
theorem C18_slice (s : MSet α) (h : List α) (hs : WF s) :
    (len s = 0 → slice s h = none) ∧
    (len s ≠ 0 → ∃ p, slice s h = some p ∧ p.Nodup ∧ p.length = len s ∧ ∀ x, x ∈ p ↔ has s x = true) := by
  refine ⟨slice_empty s h, fun h0 => ⟨_, slice_nonempty s h h0, ?_, ?_, fun x => ?_⟩⟩
  · exact (order_perm h _).symm.nodup hs
  · exact (order_perm h _).length_eq
  · rw [(order_perm h _).mem_iff]; simp

/-- `Append(vs)`, for every oracle: `vs` itself for an empty set, otherwise `vs` followed by each member exactly once -/
theorem C18_append (s : MSet α) (vs : Option (List α)) (h : List α) (hs : WF s) :
    (len s = 0 → append s vs h = vs) ∧
    (len s ≠ 0 → ∃ p, append s vs h = some (vs.getD [] ++ p) ∧ p.Nodup ∧ p.length = len s ∧
      ∀ x, x ∈ p ↔ has s x = true) := by
  refine ⟨append_empty s vs h, fun h0 => ⟨_, append_nonempty s vs h h0, ?_, ?_, fun x => ?_⟩⟩
  · exact (order_perm h _).symm.nodup hs
  · exact (order_perm h _).length_eq
  · rw [(order_perm h _).mem_iff]; simp

/-- the oracle reaches every order: any arrangement of the members is a possible `Slice`/`Append` order,
and `shuffle` keeps the set -/
theorem C18_every_order (s : MSet α) (p : List α) (hp : p.Perm (elems s)) (h0 : len s ≠ 0) :
    slice s p = some p ∧ (∀ vs, append s vs p = some (vs.getD [] ++ p)) := by
  refine ⟨?_, fun vs => ?_⟩
  · rw [slice_nonempty s p h0, order_of_perm p _ hp]
  · rw [append_nonempty s vs p h0, order_of_perm p _ hp]

/-! ### non-vacuity: concrete instances, evaluated by the kernel -/

/-- a history through nil receivers, self-aliasing, both size shortcuts, `Pop` with an oracle, `Slice` -/
example :
    (run (Regs.init : Regs Int)
      [.add 0 [3, 1, 3], .addAll 1 0, .add 1 [7], .isSubset 0 1, .isSubset 1 0, .equals 0 1, .intersects 2 0,
       .removeAll 1 0, .len 1, .pop 0 1, .pop 0 9, .pop 0 0, .isNil 0, .intersect 3 [0, 1], .clear 2,
       .addAll 2 2, .isNil 2, .slice 1 [7], .hasAll 2 [], .hasAll 2 [1]]).map (·.res)
    = [.ret .recv, .ret .recv, .ret .recv, .bool true, .bool false, .bool false, .bool false,
       .ret .recv, .nat 1, .val 1, .val 3, .val 0, .bool false, .unit, .ret .nil,
       .ret .recv, .bool false, .list (some [7]), .bool true, .bool false] := by decide

example : MathSet.accepts MathSet.Regs.init
    [Op.add 0 [3, 1, 3], .pop 0 1, .slice 0 []] (run (Regs.init : Regs Int) [.add 0 [3, 1, 3], .pop 0 1, .slice 0 []])
    = true := by decide

/-- the reference rejects an element that was not a member, and a slice that repeats a member -/
example : MathSet.accepts MathSet.Regs.init [Op.add 0 [3, 1], .pop 0 5]
    [⟨.ret .recv, some (0, .fresh)⟩, ⟨.val (5 : Int), some (0, .recv)⟩] = false := by decide
example : MathSet.accepts MathSet.Regs.init [Op.add 0 [3, 1], .slice 0 []]
    [⟨.ret .recv, some (0, .fresh)⟩, ⟨.list (some [3, 3, 1] : Option (List Int)), none⟩] = false := by decide

example : isSubset (some [1, 2] : MSet Int) (some [3, 2, 1]) = true ∧ isSubset (some [1, 2, 4] : MSet Int) (some [1, 2]) = false
    ∧ isSubset (none : MSet Int) none = true ∧ equals (none : MSet Int) (some []) = true
    ∧ equals (some [1, 2] : MSet Int) (some [2, 1]) = true ∧ equals (some [1, 2] : MSet Int) (some [2, 3]) = false
    ∧ intersects (some [1, 2, 3] : MSet Int) (some [5, 3]) = true ∧ intersects (some [1] : MSet Int) none = false
    ∧ hasAll (none : MSet Int) [] = true ∧ hasAll (none : MSet Int) [1] = false ∧ hasAny (some [1] : MSet Int) [2, 1] = true := by
  decide

example : intersect [some [1, 2, 3], some [3, 4, 2], some [2, 3, 9, 10]] = (⟨some [2, 3], .fresh⟩ : SetRes Int)
    ∧ intersect [some [1, 2, 3], none] = (⟨some [], .fresh⟩ : SetRes Int)
    ∧ intersect ([] : List (MSet Int)) = ⟨some [], .fresh⟩ := by decide

example : pop (some [4, 5, 6] : MSet Int) 5 = (some [4, 6], 5) ∧ pop (some [4, 5, 6] : MSet Int) 9 = (some [5, 6], 4)
    ∧ pop (none : MSet Int) 9 = (none, 0) ∧ pop (some [] : MSet Int) 9 = (some [], 0) := by decide

example : slice (some [4, 5, 6] : MSet Int) [6, 4, 5] = some [6, 4, 5] ∧ slice (some [4, 5, 6] : MSet Int) [6, 6, 1] = some [6, 4, 5]
    ∧ slice (some [] : MSet Int) [] = none ∧ append (some [4, 5] : MSet Int) (some [1]) [5, 4] = some [1, 5, 4]
    ∧ append (none : MSet Int) none [] = none := by decide

/-! ## the regenerated facts -/

/-- **C18_current.**  The size-based shortcut conditions regenerated from `mapset/mapset.go`
(`Gen.Mapset`, written by `extract/mapset.go` on every run) are the pinned ones: `Intersects` swaps its
operands when `len(s) > len(t)`; `HasAll` answers `len(ts) == 0` and `HasAny` answers false for
`len(s) == 0`; `IsSubset` answers true for `len(s) == 0` and false for `len(s) > len(t)`; `Equals` answers
false for `len(s) != len(t)`; and the extractor recognised the rest of the text of these five methods
(the loops and their results).  `Model.Mapset` is built from these definitions (`Proofs.Mapset.*_def`
restate it with the tests written out), so the theorems above are about the tests that are in the source
now; a one-token change in any of them changes `Gen/Mapset.lean` and this theorem stops compiling. -/
theorem C18_current :
    MdsVerif.Gen.Mapset.recognised = true ∧
    (∀ (ls : Nat) (lt : Nat), MdsVerif.Gen.Mapset.intersectsSwaps ls lt = decide (ls > lt)) ∧
    (∀ (ls : Nat), MdsVerif.Gen.Mapset.hasAllEmpty ls = decide (ls = 0)) ∧
    (∀ (lts : Nat), MdsVerif.Gen.Mapset.hasAllEmptyResult lts = decide (lts = 0)) ∧
    (∀ (ls : Nat), MdsVerif.Gen.Mapset.hasAnyEmpty ls = decide (ls = 0)) ∧
    (∀ (ls : Nat), MdsVerif.Gen.Mapset.isSubsetEmpty ls = decide (ls = 0)) ∧
    (∀ (ls : Nat) (lt : Nat), MdsVerif.Gen.Mapset.isSubsetTooBig ls lt = decide (ls > lt)) ∧
    (∀ (ls : Nat) (lt : Nat), MdsVerif.Gen.Mapset.equalsDiffer ls lt = decide (ls ≠ lt)) :=
  ⟨rfl,
   by gen_fact MdsVerif.Gen.Mapset.intersectsSwaps,
   by gen_fact MdsVerif.Gen.Mapset.hasAllEmpty,
   by gen_fact MdsVerif.Gen.Mapset.hasAllEmptyResult,
   by gen_fact MdsVerif.Gen.Mapset.hasAnyEmpty,
   by gen_fact MdsVerif.Gen.Mapset.isSubsetEmpty,
   by gen_fact MdsVerif.Gen.Mapset.isSubsetTooBig,
   by gen_fact MdsVerif.Gen.Mapset.equalsDiffer⟩

end MdsVerif.Props.C18
