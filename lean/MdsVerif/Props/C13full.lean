import MdsVerif.Props.C11
import MdsVerif.Props.C13
import MdsVerif.Props.C14a
/-!
# C13 / C14 at full strength: the hypotheses about `EditScript` discharged by C11

`Props.C13` and `Props.C14a` state their theorems for every edit script that is
`Valid` (and, for the appliers, `Canonical`).  `Props.C11.editScript_valid` and
`editScript_canonical` prove exactly that of the script `slice.EditScript`
computes, for every pair of inputs; the corollaries below are therefore the
unconditional statements about `mdiff.New(L, R)` and
`New(L, R).AddContext(n).Unify()`, for all `L`, `R`, `n`.
-/
namespace MdsVerif.Props.C13full
open MdsVerif.Model.Edit MdsVerif.Model.Mdiff MdsVerif.Model.MdiffFmt MdsVerif.Spec MdsVerif.Spec.Mdiff

theorem editScript_Valid {α : Type} [DecidableEq α] (L R : List α) : EditScript.Valid (editScript L R) L R :=
  C11.editScript_valid L R

/-- **C13, `New`** — no hypotheses. -/
theorem C13_new {α : Type} [DecidableEq α] (L R : List α) :
    let d := new L R
    d.left = L ∧ d.right = R ∧ d.edits = editScript L R ∧ AllOK d.chunks L R ∧
    Ascending d.chunks ∧ NonAdjacent d.chunks ∧ patch L d.chunks = R :=
  C13.new_ok L R (editScript_Valid L R)

/-- **C13, `New(L,R).AddContext(n).Unify()`** for every `L`, `R`, `n` — no hypotheses. -/
theorem C13_pipeline {α : Type} [DecidableEq α] (L R : List α) (n : Nat) :
    ∃ d1 d2, (new L R).addContext? n = some d1 ∧ d1.unify? = .ok d2 ∧
      AllOK d1.chunks L R ∧ AllCtxOf n (new L R).chunks d1.chunks ∧ d1.edits = editScript L R ∧
      AllOK d2.chunks L R ∧ Ascending d2.chunks ∧ NonAdjacent d2.chunks ∧ patch L d2.chunks = R ∧
      d2.edits = editScript L R :=
  C13.pipeline_ok L R n (editScript_Valid L R)

/-- **C13, context bound after `Unify`** for every `L`, `R`, `n` — no hypotheses: in every unified
chunk at most `n` Emit lines before the first and after the last change, at most `2n` between two. -/
theorem C13_context_bound {α : Type} [DecidableEq α] (L R : List α) (n : Nat) :
    ∃ d1 d2, (new L R).addContext? n = some d1 ∧ d1.unify? = .ok d2 ∧
      ∀ c ∈ d2.chunks, CtxBounded n c.edits :=
  C13.pipeline_context_bound L R n (editScript_Valid L R)

/-- **C14, normal format applied by the POSIX/GNU rules** — `New` and the full pipeline, no hypotheses. -/
theorem C14_apply_normal (L R : List Line) (n : Nat) :
    DiffApply.applyNormal (normal (Model.Mdiff.new L R).chunks) L = some R ∧
    ∃ d1 d2, (Model.Mdiff.new L R).addContext? n = some d1 ∧ d1.unify? = .ok d2 ∧
      DiffApply.applyNormal (normal d2.chunks) L = some R :=
  ⟨C14a.apply_normal_new L R (editScript_Valid L R) (C11.editScript_canonical L R),
   C14a.apply_normal_pipeline L R n (editScript_Valid L R) (C11.editScript_canonical L R)⟩

/-- **C14, round trip ∘ pipeline (normal format)** — for `New(L, R)` with newline-free lines, no other
hypothesis: `Read(Normal(New(L, R)))` returns chunks that are `AllOK` for `L`, `R` and patch `L`
into `R`; for the pipeline the same under "the unified chunks hold newline-free lines". -/
theorem C14_normal_readback (L R : List Line) (n : Nat)
    (hL : ∀ l ∈ L, MdsVerif.Proofs.MdiffFmt.NoNl l) (hR : ∀ l ∈ R, MdsVerif.Proofs.MdiffFmt.NoNl l) :
    (∃ p, read (readLines (render (normal (Model.Mdiff.new L R).chunks))) = some p ∧
      AllOK p.chunks L R ∧ patch L p.chunks = R) ∧
    ∃ d1 d2, (Model.Mdiff.new L R).addContext? n = some d1 ∧ d1.unify? = .ok d2 ∧
      ((∀ c ∈ d2.chunks, MdsVerif.Proofs.MdiffFmt.EditsNoNl c.edits) →
        ∃ p, read (readLines (render (normal d2.chunks))) = some p ∧
          AllOK p.chunks L R ∧ patch L p.chunks = R) :=
  ⟨C14a.normal_readback_new L R (editScript_Valid L R) (C11.editScript_canonical L R) hL hR,
   C14a.normal_readback_pipeline L R n (editScript_Valid L R) (C11.editScript_canonical L R)⟩

/-- **C14, context format applied by the POSIX/GNU rules** — no hypotheses. -/
theorem C14_apply_context (L R : List Line) (n : Nat) (fi : Option FileInfo) :
    DiffApply.applyContext (context (Model.Mdiff.new L R).chunks fi) L = some R ∧
    ∃ d1 d2, (Model.Mdiff.new L R).addContext? n = some d1 ∧ d1.unify? = .ok d2 ∧
      DiffApply.applyContext (context d2.chunks fi) L = some R :=
  ⟨C14a.apply_context_new L R fi (editScript_Valid L R) (C11.editScript_canonical L R),
   C14a.apply_context_pipeline L R n fi (editScript_Valid L R) (C11.editScript_canonical L R)⟩

/-- **C14, unified format** — partial only in the F6 hypothesis (no chunk with an empty LEFT range). -/
theorem C14_apply_unified_partial (L R : List Line) (n : Nat) (fi : Option FileInfo) :
    ∃ d1 d2, (Model.Mdiff.new L R).addContext? n = some d1 ∧ d1.unify? = .ok d2 ∧
      ((∀ c ∈ d2.chunks, c.lstart < c.lend) →
        DiffApply.applyUnified (unified d2.chunks fi) L = some R) :=
  C14a.apply_unified_pipeline_partial L R n fi (editScript_Valid L R)

end MdsVerif.Props.C13full
