import MdsVerif.Proofs.MdiffGit
/-!
# C14 — `ReadGitPatch` on git-style wrappers

`git diff -p` output is a sequence of sections, each `diff --git …`, further header lines
(`index …`, `new file mode …`), the unified header `--- a` / `+++ b` and the hunks.
-/
namespace MdsVerif.Props.C14g
open MdsVerif.Model.Edit MdsVerif.Model.Mdiff MdsVerif.Model.MdiffFmt
open MdsVerif.Proofs.MdiffFmt MdsVerif.Proofs.MdiffUnified MdsVerif.Proofs.MdiffGit

/-- **git_roundtrip_partial.**  For every non-empty sequence of sections — each with arbitrary lines
in front of the unified header of which the first begins with `diff ` and none with `--- `, a file
header satisfying `HeaderOK` (names without tab/newline; timestamps under the opaque assumption
`pt t = some t`), and a non-empty chunk list with `start ≤ end` and, because of the recorded defect
F5, **no range of exactly one line** — `ReadGitPatch` returns one patch per section, with the
file names as written and, chunk for chunk, the same line ranges and the edits `regroup c.edits`:
exactly what `ReadUnified` returns for the section's unified text
(`Props.C14u.unified_roundtrip_partial`).  Content lines can never be mistaken for a `diff ` line
because every one carries its prefix byte.

Missing for the full property: ranges of length 1 (false for the current sources, F5). -/
theorem git_roundtrip_partial (pt : Line → Option Line) (ss : List Section) (hss : ss ≠ [])
    (h : ∀ s ∈ ss, s.OK pt) :
    readGitPatch pt (gitText ss)
      = some (ss.map fun s => ⟨some (normFi s.fi), s.chunks.map regroupChunk⟩) := by
  unfold readGitPatch
  rw [readGitLoop_sections pt ss h [] _ (Nat.le_refl _) (fun e => absurd e hss)]
  simp

/-- non-vacuity: two sections (as the harness wraps them), a Replace, context, a content line
`-- x` (written as `--- x`) and one starting with `diff ` -/
def exSections : List Section :=
  [⟨[str "diff --git a/f b/f", str "index 83db48f..bf269f4 100644"], ⟨str "f", [], none, none⟩,
     [⟨[⟨.emit, [str "diff x"], []⟩, ⟨.replace, [str "-- x", str "b"], [str "c", []]⟩], 3, 6, 3, 6⟩,
      ⟨[⟨.copy, [], [str "@@", str "+"]⟩], 9, 9, 9, 11⟩]⟩,
   ⟨[str "diff --git a/g b/g", str "new file mode 100644", str "index 0000000..bf269f4"],
     ⟨str "g", str "h", none, none⟩, [⟨[⟨.drop, [str "x", str "y"], []⟩], 1, 3, 1, 1⟩]⟩]

example : (readGitPatch some (gitText exSections)).map (fun ps => ps.map fun p => (p.fileInfo, p.chunks))
    = some [(some ⟨str "f", str "b", none, none⟩,
              [⟨[⟨.emit, [str "diff x"], []⟩, ⟨.drop, [str "-- x", str "b"], []⟩, ⟨.copy, [], [str "c", []]⟩], 3, 6, 3, 6⟩,
               ⟨[⟨.copy, [], [str "@@", str "+"]⟩], 9, 9, 9, 11⟩]),
            (some ⟨str "g", str "h", none, none⟩, [⟨[⟨.drop, [str "x", str "y"], []⟩], 1, 3, 1, 1⟩])] := by
  decide

end MdsVerif.Props.C14g
