import MdsVerif.Proofs.Cache
import MdsVerif.Proofs.CacheHeap
import MdsVerif.Props.C05
import MdsVerif.Drv.C05
/-!
# C08 — `cache.Cache` with the LRU store: accounting, callbacks, LRU order

All theorems are about `Model.Cache.step` — the function the driver stream `C08` runs — over an arbitrary
size function `sizeOf ≥ 0`, an arbitrary limit `> 0`, arbitrary histories, and every heap configuration
of the class `CfgOK` (`parent i < i`, `left i > i`; `pop` with or without upward repair), which contains the
pinned configuration regenerated from heapq.go (`current_cfg_ok`) and the repaired one.

* `C08_accounting`  – the invariant `Inv` holds after every history from the empty cache and no
  operation panics; `C08_observations` spells out what `Inv` means for `Len`, `Size`, `Has`, `Get`,
  a refused `Put`, `Clear`.
* `C08_callbacks`   – the eviction-callback log: every entry that ever entered is either still present
  or was reported exactly once (multiset conservation), per step and per history.
* `C08_evicts_only_when_needed` – unconditional: `Put` evicts only while the new entry does not fit, stops
  as soon as it fits, evicts nothing when it fits at once; the number of victims is the least one for the
  order in which the store yields its entries.
* `C08_F2_witness`  – the recorded defect F2: on corpus/C08/F2.ops the pinned model evicts key 9 where
  the reference LRU evicts key 2.  Hence the *victim choice* clause of C08 fails for the pinned heap.
* `C08_refines_if_evict_min` – the conditional full theorem: on every history on which each `Evict`
  executed by `Put` finds a minimal timestamp at the root of the heap (`runMin`; what a correct heap
  provides, what F2 breaks), model and reference LRU cache produce the same outputs and the same
  callback sequence.
* `C08_lru_if_no_hit`, `C08_lru_no_interior_removal`, `C08_lru_no_interior_removal_current` – the
  hypothesis `runMin` discharged, for the pinned configuration (F1 and F2 present), on every history that
  never touches a present key (no replacing `Put`, no `Get`/`Remove` that hits; `Has`, `Len`, `Size`,
  `Clear` unrestricted) — in particular on the *syntactic* class `freshKeys []`: the heap is then only
  changed by `Add` of the newest timestamp and `pop(0)`, both of which keep heap order.
* `C08_lru_small_cache` – the hypothesis discharged for the pinned configuration on **every** history of a
  cache that never holds more than 4 entries (sizes `≥ 1`, `limit ≤ 4`): F2 needs a heap of 5.
* `C08_full_repaired` – for the repaired heap configuration (`CfgRepaired`: `parent i = (i-1)/2`, guarded
  sift-up in `pop`) the cache refines the reference LRU cache on **every** history: F2 (with F1) is the
  only obstacle.
* `C08_current` – every test, size/count update, clock step, time stamp and the `comparePrio` comparison of the
  model is a definition of `Gen.Cache`, regenerated from cache.go/lru.go on every run by
  `extract/cachecore.go`; the theorem pins each of them to the expression the proofs are about.
-/
namespace MdsVerif.Props.C08
open MdsVerif.Model MdsVerif.Model.Cache MdsVerif.Proofs.Cache MdsVerif.Spec

/-- the pinned heap configuration, written out -/
def pinned : Heapq.Cfg :=
  { parent := fun i => i / 2, left := fun i => 2 * i + 1, right := fun lc => lc + 1,
    heapifyStart := fun n => n / 2, popSiftsUp := false }

theorem pinned_ok : CfgOK pinned :=
  ⟨fun i hi => by show i / 2 < i; omega, fun i => by show i < 2 * i + 1; omega⟩

theorem pinned_std : Proofs.Heapq.CfgStd pinned where
  left_eq := fun _ => rfl
  right_eq := fun _ => rfl
  start_ge := fun n => by simp only [pinned]; omega
  noSiftUp := rfl

/-- the configuration the driver runs (regenerated from heapq.go on every check) is in the class, and its
`pop` does not repair upwards; this fails to elaborate — a broken obligation — as soon as the index
arithmetic or `pop` changes shape.  (The class `CfgOK` itself no longer requires `popSiftsUp = false`: the
accounting/callback theorems also cover a repaired `pop`.) -/
theorem current_cfg_ok : CfgOK Drv.C05.cfg ∧ Drv.C05.cfg.popSiftsUp = false :=
  ⟨⟨fun i hi => by show i / 2 < i; omega, fun i => by show i < 2 * i + 1; omega⟩, rfl⟩

theorem current_cfg_eq : Drv.C05.cfg = pinned := Props.C05.cfg_eq_pinned

/-- the empty cache `cache.New(limit, LRU())` -/
def empty (limit : Int) : Cache := { limit := limit }

/-- keys held by the store (heap-array order) -/
def keys (c : Cache) : List Nat := c.store.h.data.map (·.key)

/-! ## 1. accounting -/

/-- **C08, accounting invariant over histories.**  After every history from the empty cache:
`Inv` holds — (a) `present` is exact (`lru.fwd`, `lru.bwd`; keys pairwise distinct: `LruInv.nodup`),
(b) `count` = number of heap entries, (c) `size = Σ sizeOf value`, (d) `size ≤ limit`
(and `0 ≤ size`: `sizeSum_nonneg`), (e) timestamps pairwise distinct and `≤ clock`; the limit is
unchanged; and **no operation of the history panicked** (`Store` on a present key, `Evict` on an empty
store and the consistency check of `Clear` are unreachable; the fuel of the two loops suffices, because
running out of fuel would leave `newSize > limit` resp. `count > 0`, contradicting `Inv` of the result). -/
theorem C08_accounting (cfg : Heapq.Cfg) (ok : CfgOK cfg) (sizeOf : Nat → Int) (hs : ∀ v, 0 ≤ sizeOf v)
    (limit : Int) (hl : 0 < limit) (ops : List Op) :
    Inv sizeOf (exec cfg sizeOf (empty limit) ops) ∧
    (exec cfg sizeOf (empty limit) ops).limit = limit ∧
    ∀ o ∈ outs cfg sizeOf (empty limit) ops, ∀ m, o ≠ .panic m := by
  obtain ⟨inv, hlim, _, np⟩ := exec_inv ok hs ops (inv_empty sizeOf limit hl)
  exact ⟨inv, hlim, np⟩

/-- **C08, what the invariant means for the observations** (for any state satisfying `Inv`, in
particular every reachable one, by `C08_accounting`). -/
theorem C08_observations (cfg : Heapq.Cfg) (ok : CfgOK cfg) (sizeOf : Nat → Int) (hs : ∀ v, 0 ≤ sizeOf v)
    (c : Cache) (inv : Inv sizeOf c) :
    -- Len is the number of present keys; keys are pairwise distinct; Has tells exactly the present keys
    (step cfg sizeOf c .len).2 = .int (keys c).length ∧ (keys c).Nodup ∧
    (∀ k, has c k = true ↔ k ∈ keys c) ∧
    -- Size is the sum of the sizes of the present values, between 0 and the limit
    (step cfg sizeOf c .size).2 = .int (sizeSum sizeOf c.store.h.data) ∧
    0 ≤ sizeSum sizeOf c.store.h.data ∧ sizeSum sizeOf c.store.h.data ≤ c.limit ∧
    -- a Put larger than the limit is refused and changes nothing
    (∀ k v, sizeOf v > c.limit → step cfg sizeOf c (.put k v) = (c, .bool false)) ∧
    -- a Put that fits reports true, and the key then maps to the new value
    (∀ k v, ¬ sizeOf v > c.limit → (step cfg sizeOf c (.put k v)).2 = .bool true ∧
        (step cfg sizeOf c (.put k v)).1.store.check k = some v) ∧
    -- Has, Len, Size change nothing
    (∀ k, (step cfg sizeOf c (.has k)).1 = c) ∧ (step cfg sizeOf c .len).1 = c ∧
    (step cfg sizeOf c .size).1 = c ∧
    -- the key ↦ value map is the heap's: `check k = some v` iff `(k, v)` is an entry
    (∀ k v, c.store.check k = some v ↔ (k, v) ∈ ents c) ∧
    -- Get returns the value of a present key, `none` for an absent one, and does not change the entries
    (∀ k, (step cfg sizeOf c (.get k)).2 = .opt (c.store.check k) ∧
        (ents (step cfg sizeOf c (.get k)).1).Perm (ents c)) ∧
    -- Remove reports whether the key was present; afterwards it is absent
    (∀ k, (step cfg sizeOf c (.remove k)).2 = .bool (has c k) ∧
        has (step cfg sizeOf c (.remove k)).1 k = false) ∧
    -- Clear does not panic and leaves the cache empty
    ((step cfg sizeOf c .clear).2 = .unit ∧ ents (step cfg sizeOf c .clear).1 = [] ∧
      (step cfg sizeOf c .clear).1.size = 0 ∧ (step cfg sizeOf c .clear).1.count = 0) := by
  have hhas : ∀ c' : Cache, Inv sizeOf c' → ∀ k, has c' k = true ↔ k ∈ keys c' := by
    intro c' inv' k
    by_cases hk : k ∈ c'.store.h.data.map (·.key)
    · obtain ⟨e, he, rfl⟩ := List.mem_map.1 hk
      simp [has, check_of_mem inv'.lru he, keys, hk]
    · simp [has, check_of_not_mem inv'.lru hk, keys, hk]
  have hcheck : ∀ c' : Cache, Inv sizeOf c' → ∀ k v, c'.store.check k = some v ↔ (k, v) ∈ ents c' := by
    intro c' inv' k v
    rw [check_eq_some_iff inv'.lru]
    simp only [ents, List.mem_map, kv, Prod.mk.injEq]
  refine ⟨?_, inv.lru.nodup, hhas c inv, (by show Out.int c.size = _; rw [inv.size]), sizeSum_nonneg hs _,
    ?_, ?_, ?_, fun _ => rfl, rfl, rfl,
    hcheck c inv, ?_, ?_, ?_⟩
  · show Out.int c.count = _
    rw [inv.count]; simp [keys]
  · rw [← inv.size]; exact inv.le
  · intro k v h
    simp only [step, put_refused cfg sizeOf c k v h]
  · intro k v h
    obtain ⟨c', hp, inv', _, hmem, _⟩ := put_spec ok hs inv k v h
    simp only [step, hp]
    exact ⟨trivial, (hcheck c' inv' k v).2 hmem⟩
  · intro k
    by_cases hk : k ∈ c.store.h.data.map (·.key)
    · obtain ⟨e, he, rfl⟩ := List.mem_map.1 hk
      obtain ⟨hv, _, _, perm⟩ := get_spec_present ok inv he
      refine ⟨?_, perm⟩
      show Out.opt (MdsVerif.Model.Cache.get cfg c e.key).2 = _
      rw [hv, check_of_mem inv.lru he]
    · simp only [step, get_spec_absent inv hk, check_of_not_mem inv.lru hk]
      exact ⟨trivial, .refl _⟩
  · intro k
    by_cases hk : k ∈ c.store.h.data.map (·.key)
    · obtain ⟨e, he, rfl⟩ := List.mem_map.1 hk
      obtain ⟨hb, inv', _, perm, _⟩ := remove_spec_present ok hs inv he
      have hnot := (perm_cons_nodup_keys perm inv.lru.nodup).1
      refine ⟨?_, ?_⟩
      · show Out.bool (remove cfg sizeOf c e.key).2 = _
        rw [hb, (hhas c inv e.key).2 hk]
      · have := hhas _ inv' e.key
        show has (remove cfg sizeOf c e.key).1 e.key = false
        cases hh : has (remove cfg sizeOf c e.key).1 e.key
        · rfl
        · exact absurd (this.1 hh) hnot
    · have hf : has c k = false := by
        cases hh : has c k
        · rfl
        · exact absurd ((hhas c inv k).1 hh) hk
      simp only [step, remove_spec_absent inv hk, hf]
      exact ⟨trivial, trivial⟩
  · obtain ⟨c', hc, inv', hd, _, _⟩ := clear_spec ok hs inv
    simp only [step, hc]
    refine ⟨trivial, by simp [ents, hd], ?_, ?_⟩
    · rw [inv'.size, hd]; rfl
    · rw [inv'.count, hd]; rfl

/-! ## 2. callbacks -/

/-- **C08, eviction callbacks.**  Per step: the callback log only grows, by `gone` (most recent first),
and `gone ++ entries after` is a permutation of `added ++ entries before`, where `added` is `[(k, v)]`
for a `Put k v` that reported `true` and `[]` otherwise — i.e. every entry that leaves the store
(replaced or evicted by `Put`, removed, cleared) is reported exactly once, with its key and value, and
nothing else is reported.  Per history from the empty cache: log `++` present entries is a permutation
of everything that ever entered — every entry that ever entered is either present or appears exactly
once in the log. -/
theorem C08_callbacks (cfg : Heapq.Cfg) (ok : CfgOK cfg) (sizeOf : Nat → Int) (hs : ∀ v, 0 ≤ sizeOf v) :
    (∀ (c : Cache) (op : Op), Inv sizeOf c →
      ∃ gone, (step cfg sizeOf c op).1.evicted = gone ++ c.evicted ∧
        (gone ++ ents (step cfg sizeOf c op).1).Perm (addedBy op (step cfg sizeOf c op).2 ++ ents c)) ∧
    (∀ (limit : Int) (ops : List Op), 0 < limit →
      ((exec cfg sizeOf (empty limit) ops).evicted ++ ents (exec cfg sizeOf (empty limit) ops)).Perm
        (entered cfg sizeOf (empty limit) ops)) := by
  refine ⟨fun c op inv => (step_inv ok hs inv op).2.2.1, fun limit ops hl => ?_⟩
  obtain ⟨_, _, ⟨gone, hg, perm⟩, _⟩ := exec_inv ok hs ops (inv_empty sizeOf limit hl)
  have h1 : (exec cfg sizeOf (empty limit) ops).evicted = gone := hg.trans (List.append_nil _)
  rw [h1]
  have h2 : entered cfg sizeOf (empty limit) ops ++ ents (empty limit) = entered cfg sizeOf (empty limit) ops :=
    List.append_nil _
  rw [← h2]; exact perm

/-! ## 2b. `Put` evicts only what is needed -/

/-- **C08, "the entries needed to make room" (unconditional; every `CfgOK` configuration, pinned or
repaired; every `sizeOf ≥ 0`).**  Let a `Put k v` with `sizeOf v ≤ limit` be executed in a state satisfying
the invariant, `c1 := putReplace … c k` the state after the replace step (`replaced c k` = the old entry for
`k`, if any, reported first; `c1.size = c.size - Σ replaced`).  Then there is a list `gone` such that

* the callbacks of this step are exactly `replaced c k` followed by `gone` (the log is most-recent-first);
* `gone` is a prefix of the order in which the store yields its entries under successive `Evict`s from
  `c1` (`evictSeq`);
* every eviction was executed while the new entry did **not** fit: for each `j < gone.length`,
  `c1.size + sizeOf v - Σ (first j of gone) > limit`;
* after the last one it fits, `c1.size + sizeOf v - Σ gone ≤ limit`, and this is the new `size`;
* if `c1.size + sizeOf v ≤ limit` then `gone = []`.

Hence `gone.length` is the *least* `m` such that removing the first `m` entries of the store's yield order
makes room (for `m < gone.length` it does not fit, for `m = gone.length` it does).  Which entries the store
yields first is the LRU-order clause (`C08_refines_if_evict_min` and the theorems of §4/§5). -/
theorem C08_evicts_only_when_needed (cfg : Heapq.Cfg) (ok : CfgOK cfg) (sizeOf : Nat → Int)
    (hs : ∀ v, 0 ≤ sizeOf v) (c : Cache) (inv : Inv sizeOf c) (k v : Nat) (hfit : ¬ sizeOf v > c.limit) :
    let c1 := putReplace cfg sizeOf c k
    let c' := (step cfg sizeOf c (.put k v)).1
    c1.size = c.size - sizeKV sizeOf (replaced c k) ∧
    ∃ gone : List (Nat × Nat),
      c'.evicted = gone.reverse ++ (replaced c k ++ c.evicted) ∧
      gone = evictSeq cfg gone.length c1.store ∧
      (∀ j, j < gone.length → c1.size + sizeOf v - sizeKV sizeOf (gone.take j) > c.limit) ∧
      c1.size + sizeOf v - sizeKV sizeOf gone ≤ c.limit ∧
      c'.size = c1.size + sizeOf v - sizeKV sizeOf gone ∧
      (c1.size + sizeOf v ≤ c.limit → gone = []) := by
  obtain ⟨a1, a2, _⟩ := putReplace_acct cfg sizeOf c k
  obtain ⟨c', gone, hp, g1, g2, g3, g4, g5⟩ := put_needed ok hs inv k v hfit
  refine ⟨a2, gone, ?_, g2, g3, g4, ?_, ?_⟩
  · simp only [step, hp]; rw [g1, a1]
  · simp only [step, hp]; exact g5
  · intro hle
    cases hg : gone with
    | nil => rfl
    | cons e rest =>
      have := g3 0 (by rw [hg]; simp)
      simp only [List.take_zero, sizeKV] at this
      omega

/-! ## 3. the recorded defect F2 -/

/-- corpus/C08/F2.ops (limit 8, unit sizes) -/
def f2ops : List Op :=
  [.put 7 7, .put 10 14, .put 3 16, .put 13 22, .put 6 25, .put 11 31, .put 2 40, .put 9 45, .put 12 54,
   .get 6, .put 10 55, .remove 13, .get 12, .put 13 61, .put 1 69, .put 0 72, .put 8 82]

set_option maxRecDepth 100000 in
/-- **F2 seen through the cache**: on the recorded history the last `Put` of the pinned model evicts key 9
(value 45), while the reference LRU cache evicts key 2 (value 40), the least recently used entry: the
`Remove 13` before has left the heap on `lastAccess` out of order (`pop` does not sift up). -/
theorem C08_F2_witness :
    (exec pinned (fun _ => 1) (empty 8) f2ops).evicted.head? = some (9, 45) ∧
    (execRef (fun _ => 1) { limit := 8 } f2ops).evicted.head? = some (2, 40) ∧
    outs pinned (fun _ => 1) (empty 8) f2ops = outsRef (fun _ => 1) { limit := 8 } f2ops ∧
    -- … and this is exactly a run on which an `Evict` did not find the minimal timestamp at the root
    runMin pinned (fun _ => 1) (empty 8) f2ops = false := by
  decide

/-! ## 4. conditional refinement of the reference LRU cache -/

/-- **C08, one step, conditional.**  From a state satisfying the invariant and related to a reference
state (`Abs`: the recency list is the heap's entries in timestamp order), if every `Evict` executed by
this step finds a minimal timestamp at the root (`stepMin`; vacuous unless the step is a `Put` that must
make room), then model and reference give the same output, stay related, and report the same new
callbacks in the same order (for `Clear`: the same callbacks up to order — the order in which `Clear`
reports is not part of the property, and the correspondence stream compares it as a sorted list too). -/
theorem C08_step_refines_if_evict_min (cfg : Heapq.Cfg) (ok : CfgOK cfg) (sizeOf : Nat → Int)
    (hs : ∀ v, 0 ≤ sizeOf v) (c : Cache) (r : LruRef.R) (inv : Inv sizeOf c) (abs : Abs c r) (op : Op)
    (hmin : stepMin cfg sizeOf c op = true) :
    (step cfg sizeOf c op).2 = (LruRef.step sizeOf r op).2 ∧
    Abs (step cfg sizeOf c op).1 (LruRef.step sizeOf r op).1 ∧
    ∃ g g', (step cfg sizeOf c op).1.evicted = g ++ c.evicted ∧
      (LruRef.step sizeOf r op).1.evicted = g' ++ r.evicted ∧
      (if op == .clear then g.Perm g' else g = g') :=
  step_refines ok hs inv abs op hmin

/-- **C08, conditional full theorem.**  For every history from the empty cache on which every `Evict`
executed by a `Put` finds a minimal timestamp at the root of the heap (`runMin`), `Model.Cache.step` and
`Spec.LruRef.step` produce the same outputs; the final states are related; the callback logs agree as
multisets, and as sequences when the history contains no `Clear`.  (Per step, including the exact
callback sequence of every non-`Clear` step of histories *with* `Clear`: `C08_step_refines_if_evict_min`.)
So: a `Put` that fits evicts exactly the least-recently-used entries needed to make room, in that order
(`LruRef.makeRoom`), `Put` and successful `Get` count as uses, `Has` does not. -/
theorem C08_refines_if_evict_min (cfg : Heapq.Cfg) (ok : CfgOK cfg) (sizeOf : Nat → Int)
    (hs : ∀ v, 0 ≤ sizeOf v) (limit : Int) (hl : 0 < limit) (ops : List Op)
    (hmin : runMin cfg sizeOf (empty limit) ops = true) :
    outs cfg sizeOf (empty limit) ops = outsRef sizeOf { limit := limit } ops ∧
    Abs (exec cfg sizeOf (empty limit) ops) (execRef sizeOf { limit := limit } ops) ∧
    (exec cfg sizeOf (empty limit) ops).evicted.Perm (execRef sizeOf { limit := limit } ops).evicted ∧
    (Op.clear ∉ ops →
      (exec cfg sizeOf (empty limit) ops).evicted = (execRef sizeOf { limit := limit } ops).evicted) := by
  have abs0 : Abs (empty limit) { limit := limit } := ⟨[], .refl _, List.Pairwise.nil, rfl, rfl⟩
  obtain ⟨h1, h2, h3, h4⟩ :=
    run_refines ok hs ops (inv_empty sizeOf limit hl) abs0 hmin (.refl _)
  exact ⟨h1, h2, h3, fun hn => h4 hn rfl⟩

/-- **C08, full theorem from a heap-order invariant.**  If the heap configuration admits an invariant `P`
of the heap that is kept by `pop` (at a valid offset) and by `add` of an element newer than all others,
and that puts a minimal timestamp at the root (`HeapInv`: exactly what a heap-order theorem for the
configuration — C05 — provides), then the hypothesis of `C08_refines_if_evict_min` holds on every history,
i.e. the cache model refines the reference LRU cache unconditionally.  The pinned configuration has no such
invariant (`C08_pinned_has_no_heap_invariant`); the repaired one has (`C08_repaired_has_heap_invariant`),
and `C08_full_repaired` is the instance. -/
theorem C08_full_if_heap_invariant (cfg : Heapq.Cfg) (ok : CfgOK cfg) (P : Heapq.H Entry → Prop)
    (hi : HeapInv cfg P) (sizeOf : Nat → Int) (hs : ∀ v, 0 ≤ sizeOf v) (limit : Int) (hl : 0 < limit)
    (ops : List Op) :
    outs cfg sizeOf (empty limit) ops = outsRef sizeOf { limit := limit } ops ∧
    Abs (exec cfg sizeOf (empty limit) ops) (execRef sizeOf { limit := limit } ops) ∧
    (exec cfg sizeOf (empty limit) ops).evicted.Perm (execRef sizeOf { limit := limit } ops).evicted ∧
    (Op.clear ∉ ops →
      (exec cfg sizeOf (empty limit) ops).evicted = (execRef sizeOf { limit := limit } ops).evicted) :=
  C08_refines_if_evict_min cfg ok sizeOf hs limit hl ops
    (runMin_of_heapInv ok hi hs ops (inv_empty sizeOf limit hl) hi.nil)

/-- consequence of F2: the pinned heap has no invariant that keeps the minimum at the root -/
theorem C08_pinned_has_no_heap_invariant : ¬ ∃ P, HeapInv pinned P := by
  rintro ⟨P, hi⟩
  have h := runMin_of_heapInv pinned_ok hi (sizeOf := fun _ => 1) (fun _ => by decide) f2ops
    (inv_empty _ 8 (by decide)) hi.nil
  have h' : runMin pinned (fun _ => 1) (empty 8) f2ops = true := h
  rw [C08_F2_witness.2.2.2] at h'
  cases h'

/-! ## 5. the hypothesis discharged: histories without removal of an interior heap slot (pinned heap),
and every history (repaired heap) -/

/-- **C08, LRU order for the pinned heap on every history that never touches a present key.**  For every
configuration with the standard child layout, *any* parent index `< i` (F1 included) and `pop` without
sift-up (F2 included) — in particular the pinned one — and every history from the empty cache on which no
`Put` replaces an entry and no `Get`/`Remove` hits (`runMiss`; `Has`, `Len`, `Size`, `Clear` and refused
`Put`s are unrestricted): the heap is only ever changed by `Add` of the newest timestamp (`pushUp` never
swaps: `add_max_heap`) and by `pop(0)` (`pop0_heap`), so it stays in heap order, every `Evict` finds the
minimal timestamp at the root, and the cache model refines the reference LRU cache — same outputs, same
callback sequence: the victims of every `Put` are exactly the least-recently-used entries needed, in that
order. -/
theorem C08_lru_if_no_hit (cfg : Heapq.Cfg) (hstd : Proofs.Heapq.CfgStd cfg) (ok : CfgOK cfg)
    (sizeOf : Nat → Int) (hs : ∀ v, 0 ≤ sizeOf v) (limit : Int) (hl : 0 < limit) (ops : List Op)
    (hmiss : runMiss cfg sizeOf (empty limit) ops = true) :
    runMin cfg sizeOf (empty limit) ops = true ∧
    outs cfg sizeOf (empty limit) ops = outsRef sizeOf { limit := limit } ops ∧
    Abs (exec cfg sizeOf (empty limit) ops) (execRef sizeOf { limit := limit } ops) ∧
    (exec cfg sizeOf (empty limit) ops).evicted.Perm (execRef sizeOf { limit := limit } ops).evicted ∧
    (Op.clear ∉ ops →
      (exec cfg sizeOf (empty limit) ops).evicted = (execRef sizeOf { limit := limit } ops).evicted) := by
  have hmin := runMin_of_heapInv0 ok (Proofs.CacheHeap.heapInv0_std hstd (Proofs.CacheHeap.cfgOK_heapq ok)) hs ops
    (inv_empty sizeOf limit hl) Proofs.CacheHeap.heapOrd_nil hmiss
  exact ⟨hmin, C08_refines_if_evict_min cfg ok sizeOf hs limit hl ops hmin⟩

/-- **C08, LRU order on a syntactic class of histories (pinned heap, unconditional).**  `freshKeys [] ops`:
every `Put` of the history uses a key that no earlier `Put` used, every `Get`/`Remove` names a key that no
earlier `Put` used (so it misses); `Has`, `Len`, `Size`, `Clear` are unrestricted.  This contains all
histories of pure insertion + eviction (`Put`s with pairwise distinct keys, no `Get`, no `Remove`).  On
this class the model refines the reference LRU cache for every configuration with the standard child
layout, any `parent i < i` and `pop` without sift-up. -/
theorem C08_lru_no_interior_removal (cfg : Heapq.Cfg) (hstd : Proofs.Heapq.CfgStd cfg) (ok : CfgOK cfg)
    (sizeOf : Nat → Int) (hs : ∀ v, 0 ≤ sizeOf v) (limit : Int) (hl : 0 < limit) (ops : List Op)
    (hfresh : freshKeys [] ops = true) :
    outs cfg sizeOf (empty limit) ops = outsRef sizeOf { limit := limit } ops ∧
    Abs (exec cfg sizeOf (empty limit) ops) (execRef sizeOf { limit := limit } ops) ∧
    (exec cfg sizeOf (empty limit) ops).evicted.Perm (execRef sizeOf { limit := limit } ops).evicted ∧
    (Op.clear ∉ ops →
      (exec cfg sizeOf (empty limit) ops).evicted = (execRef sizeOf { limit := limit } ops).evicted) :=
  (C08_lru_if_no_hit cfg hstd ok sizeOf hs limit hl ops
    (runMiss_of_fresh ok hs ops (inv_empty sizeOf limit hl) (fun k hk => by cases hk) hfresh)).2

/-- … instantiated at the configuration the driver runs (regenerated from heapq.go) -/
theorem C08_lru_no_interior_removal_current (sizeOf : Nat → Int) (hs : ∀ v, 0 ≤ sizeOf v) (limit : Int)
    (hl : 0 < limit) (ops : List Op) (hfresh : freshKeys [] ops = true) :
    outs Drv.C05.cfg sizeOf (empty limit) ops = outsRef sizeOf { limit := limit } ops ∧
    Abs (exec Drv.C05.cfg sizeOf (empty limit) ops) (execRef sizeOf { limit := limit } ops) ∧
    (exec Drv.C05.cfg sizeOf (empty limit) ops).evicted.Perm (execRef sizeOf { limit := limit } ops).evicted ∧
    (Op.clear ∉ ops →
      (exec Drv.C05.cfg sizeOf (empty limit) ops).evicted = (execRef sizeOf { limit := limit } ops).evicted) :=
  C08_lru_no_interior_removal Drv.C05.cfg Props.C05.current_std current_cfg_ok.1 sizeOf hs limit hl ops hfresh

/-- **C08, LRU order for the pinned heap on every history of a small cache.**  If every value has size
`≥ 1` and `limit ≤ 4` (so that at most 4 entries are ever live: `length_le_limit`), then for every
configuration with the standard child layout, any `parent i < i` and `pop` without sift-up — the pinned one
in particular — the cache model refines the reference LRU cache on **every** history (replacing `Put`s,
`Get`s, `Remove`s included): a heap of at most 4 elements stays in heap order under `pop` at every offset
(`heapInvB_std`); the smallest heap on which F2 shows is one of 5 elements (removal at offset 3). -/
theorem C08_lru_small_cache (cfg : Heapq.Cfg) (hstd : Proofs.Heapq.CfgStd cfg) (ok : CfgOK cfg)
    (sizeOf : Nat → Int) (h1 : ∀ v, 1 ≤ sizeOf v) (limit : Int) (hl : 0 < limit) (hl4 : limit ≤ 4)
    (ops : List Op) :
    outs cfg sizeOf (empty limit) ops = outsRef sizeOf { limit := limit } ops ∧
    Abs (exec cfg sizeOf (empty limit) ops) (execRef sizeOf { limit := limit } ops) ∧
    (exec cfg sizeOf (empty limit) ops).evicted.Perm (execRef sizeOf { limit := limit } ops).evicted ∧
    (Op.clear ∉ ops →
      (exec cfg sizeOf (empty limit) ops).evicted = (execRef sizeOf { limit := limit } ops).evicted) := by
  have hs : ∀ v, 0 ≤ sizeOf v := fun v => by have := h1 v; omega
  exact C08_refines_if_evict_min cfg ok sizeOf hs limit hl ops
    (runMin_of_heapInvB ok (Proofs.CacheHeap.heapInvB_std hstd (Proofs.CacheHeap.cfgOK_heapq ok)) h1 ops
      (inv_empty sizeOf limit hl) Proofs.CacheHeap.heapOrd_nil (by show limit ≤ ((4 : Nat) : Int); omega))

/-- … instantiated at the configuration the driver runs -/
theorem C08_lru_small_cache_current (sizeOf : Nat → Int) (h1 : ∀ v, 1 ≤ sizeOf v) (limit : Int)
    (hl : 0 < limit) (hl4 : limit ≤ 4) (ops : List Op) :
    outs Drv.C05.cfg sizeOf (empty limit) ops = outsRef sizeOf { limit := limit } ops ∧
    (Op.clear ∉ ops →
      (exec Drv.C05.cfg sizeOf (empty limit) ops).evicted = (execRef sizeOf { limit := limit } ops).evicted) :=
  let r := C08_lru_small_cache Drv.C05.cfg Props.C05.current_std current_cfg_ok.1 sizeOf h1 limit hl hl4 ops
  ⟨r.1, r.2.2.2⟩

/-- **C08, full theorem for the repaired heap.**  For every repaired configuration (`CfgRepaired`: standard
child layout, `parent i = (i-1)/2`, `pop` sifts up under the guard `i < n` — e.g. `Props.C05.repaired`, for
which C05 proves `C05_full`) the cache model refines the reference LRU cache on **every** history: same
outputs, same callback sequence (up to order inside `Clear`).  This is the instance of
`C08_full_if_heap_invariant` with heap order as the invariant (`pop_heap`, `add_heap`, `heap_root_min`).
It says nothing about the current source (F1/F2 are pinned by `C05_current`); it records that they are the
only obstacle to the unconditional LRU clause, and it is the theorem that applies once heapq.go is
repaired. -/
theorem C08_full_repaired (cfg : Heapq.Cfg) (hr : Proofs.Heapq.CfgRepaired cfg) (sizeOf : Nat → Int)
    (hs : ∀ v, 0 ≤ sizeOf v) (limit : Int) (hl : 0 < limit) (ops : List Op) :
    outs cfg sizeOf (empty limit) ops = outsRef sizeOf { limit := limit } ops ∧
    Abs (exec cfg sizeOf (empty limit) ops) (execRef sizeOf { limit := limit } ops) ∧
    (exec cfg sizeOf (empty limit) ops).evicted.Perm (execRef sizeOf { limit := limit } ops).evicted ∧
    (Op.clear ∉ ops →
      (exec cfg sizeOf (empty limit) ops).evicted = (execRef sizeOf { limit := limit } ops).evicted) :=
  C08_full_if_heap_invariant cfg (Proofs.CacheHeap.cfgOK_cache hr.ok) Proofs.CacheHeap.HeapOrd
    (Proofs.CacheHeap.heapInv_repaired hr) sizeOf hs limit hl ops

/-- the bridge is not vacuous: the repaired configuration has a heap invariant (the pinned one has none) -/
theorem C08_repaired_has_heap_invariant : ∃ P, HeapInv Props.C05.repaired P :=
  ⟨_, Proofs.CacheHeap.heapInv_repaired Props.C05.repaired_ok⟩

/- The unconditional statement for the configuration the driver runs — NOT provable for the pinned heap
(`C08_F2_witness` refutes it); after a repair of heapq.go it is `C08_full_repaired` at `Drv.C05.cfg`
(`IsRepaired cfg` = `Proofs.Heapq.CfgRepaired cfg`):

theorem C08_full_current (sizeOf : Nat → Int) (hs : ∀ v, 0 ≤ sizeOf v)
    (limit : Int) (hl : 0 < limit) (ops : List Op) :
    outs Drv.C05.cfg sizeOf (empty limit) ops = outsRef sizeOf { limit := limit } ops ∧
    (Op.clear ∉ ops →
      (exec Drv.C05.cfg sizeOf (empty limit) ops).evicted = (execRef sizeOf { limit := limit } ops).evicted)
-/

/-! ## non-vacuity -/

/-- a history with replacement, eviction by size, Get, Remove, a refused Put and Clear; variable sizes -/
def demoOps : List Op :=
  [.put 1 3, .put 2 1, .put 3 2, .get 1, .put 2 11, .put 4 14, .remove 1, .put 5 23, .put 9 9, .has 1, .has 2,
   .len, .size, .put 6 4, .get 7]

def demoSize (v : Nat) : Int := (v % 10 : Nat)

set_option maxRecDepth 100000 in
example : (exec pinned demoSize (empty 8) demoOps).evicted = [(4, 14), (2, 11), (1, 3), (3, 2), (2, 1)] ∧
    ents (exec pinned demoSize (empty 8) demoOps) = [(5, 23), (6, 4)] ∧
    entered pinned demoSize (empty 8) demoOps = [(6, 4), (5, 23), (4, 14), (2, 11), (3, 2), (2, 1), (1, 3)] ∧
    (exec pinned demoSize (empty 8) demoOps).size = 7 ∧ (exec pinned demoSize (empty 8) demoOps).count = 2 ∧
    outs pinned demoSize (empty 8) demoOps =
      [.bool true, .bool true, .bool true, .opt (some 3), .bool true, .bool true, .bool true, .bool true,
       .bool false, .bool false, .bool true, .int 3, .int 8, .bool true, .opt none] := by
  decide

/-- the refinement hypothesis holds on the demo history (evictions by `Put` included), so
`C08_refines_if_evict_min` applies to it; and it fails on the F2 history (`C08_F2_witness`) -/
example : runMin pinned demoSize (empty 8) demoOps = true ∧
    (execRef demoSize { limit := 8 } demoOps).evicted = [(4, 14), (2, 11), (1, 3), (3, 2), (2, 1)] := by
  decide

set_option maxRecDepth 100000 in
example : (step pinned demoSize (exec pinned demoSize (empty 8) demoOps) .clear).1.evicted.length = 7 ∧
    (step pinned demoSize (exec pinned demoSize (empty 8) demoOps) .clear).2 = .unit := by
  decide

/-- `C08_evicts_only_when_needed` on a concrete step: in the state after `put 1 3, put 2 1, put 3 2` (sizes
3, 1, 2; limit 8) a `Put 4 14` (size 4) evicts exactly one entry — 6 + 4 > 8, 3 + 4 ≤ 8 — and
`Put 5 28` (size 8) evicts all three, in the store's yield order -/
example : evictSeq pinned 3 (exec pinned demoSize (empty 8) [.put 1 3, .put 2 1, .put 3 2]).store =
      [(1, 3), (2, 1), (3, 2)] ∧
    (step pinned demoSize (exec pinned demoSize (empty 8) [.put 1 3, .put 2 1, .put 3 2]) (.put 4 14)).1.evicted =
      [(1, 3)] ∧
    (step pinned demoSize (exec pinned demoSize (empty 8) [.put 1 3, .put 2 1, .put 3 2]) (.put 5 28)).1.evicted =
      [(3, 2), (2, 1), (1, 3)] ∧
    (step pinned demoSize (exec pinned demoSize (empty 8) [.put 1 3, .put 2 1, .put 3 2]) (.put 6 2)).1.evicted =
      [] := by
  decide

/-- a history of the syntactic class `freshKeys []` with evictions, a missing `Get`/`Remove`, `Has`, a
refused `Put` and a `Clear` in mid-life -/
def freshOps : List Op :=
  [.put 1 3, .put 2 1, .put 3 2, .has 1, .put 4 14, .get 9, .put 5 23, .remove 7, .len, .put 8 9, .put 6 4,
   .clear, .put 7 5, .put 10 4, .size]

set_option maxRecDepth 100000 in
example : freshKeys [] freshOps = true ∧
    (exec pinned demoSize (empty 8) freshOps).evicted = [(7, 5), (6, 4), (5, 23), (4, 14), (3, 2), (2, 1), (1, 3)] ∧
    freshKeys [] f2ops = false ∧ freshKeys [] demoOps = false := by
  decide

/-- a history with replacing `Put`s, hitting `Get`s and `Remove`s on a cache of limit 4 (unit sizes):
`C08_lru_small_cache` applies; the callback sequence is the reference's -/
def smallOps : List Op :=
  [.put 1 1, .put 2 2, .put 3 3, .put 4 4, .get 2, .put 5 5, .remove 3, .put 1 6, .get 4, .put 6 7, .put 7 8,
   .put 2 9, .remove 5, .put 8 10, .put 9 11]

set_option maxRecDepth 100000 in
example : (exec pinned (fun _ => 1) (empty 4) smallOps).evicted =
      [(6, 7), (4, 4), (1, 6), (5, 5), (2, 2), (3, 3), (1, 1)] ∧
    (exec pinned (fun _ => 1) (empty 4) smallOps).evicted = (execRef (fun _ => 1) { limit := 4 } smallOps).evicted ∧
    freshKeys [] smallOps = false := by
  decide

set_option maxRecDepth 100000 in
/-- the F2 history on the repaired configuration: the last `Put` evicts key 2, as the reference does -/
example : (exec Props.C05.repaired (fun _ => 1) (empty 8) f2ops).evicted.head? = some (2, 40) ∧
    (exec Props.C05.repaired (fun _ => 1) (empty 8) f2ops).evicted =
      (execRef (fun _ => 1) { limit := 8 } f2ops).evicted := by
  decide

/-- **C08_current.**  The facts regenerated from `cache/cache.go` and `cache/lru.go` (`Gen.Cache`,
`extract/cachecore.go`) are the pinned ones, and the extractor recognised the statement skeleton of every
function it looks at.  `Model.Cache` is built from exactly these definitions (the refusal test of `Put`, every
size/count update, the loop conditions of `Put` and `Clear`, `Clear`'s consistency test, the clock ticks and
time stamps of `Access`/`Store`, the comparison of `comparePrio`), so the theorems above are about the
expressions that are in the source now; the facts that are not expressions (which store method is called where,
`Check` does not tick the clock, `Access` removes at the recorded position and re-adds, `Remove`/`Evict` delete
the key from `present`, the `Update` callback records positions, the default size) are pinned as `Bool`s and
constants.  A one-token change in any of them changes `Gen/Cache.lean` and this theorem (and the `*_def`
lemmas of `Proofs.Cache`) no longer compile. -/
theorem C08_current :
    Gen.Cache.recognised = true ∧
    -- New
    (∀ limit, Gen.Cache.newPanics limit = decide (limit ≤ 0)) ∧
    -- Put
    (∀ valSize limit, Gen.Cache.putRefuses valSize limit = decide (valSize > limit)) ∧
    Gen.Cache.putReplaceSteps = true ∧
    (∀ size oldSize, Gen.Cache.replaceSize size oldSize = size - oldSize) ∧
    (∀ count, Gen.Cache.replaceCount count = count - 1) ∧
    (∀ size valSize, Gen.Cache.putNewSize size valSize = size + valSize) ∧
    (∀ newSize limit, Gen.Cache.putEvicts newSize limit = decide (newSize > limit)) ∧
    Gen.Cache.putEvictSteps = true ∧
    (∀ count, Gen.Cache.evictCount count = count - 1) ∧
    (∀ newSize evSize, Gen.Cache.evictNewSize newSize evSize = newSize - evSize) ∧
    Gen.Cache.putStoresLast = true ∧
    (∀ size newSize, Gen.Cache.putSize size newSize = newSize) ∧
    (∀ count, Gen.Cache.putCount count = count + 1) ∧
    -- Remove
    Gen.Cache.removeSteps = true ∧
    (∀ size oldSize, Gen.Cache.removeSize size oldSize = size - oldSize) ∧
    (∀ count, Gen.Cache.removeCount count = count - 1) ∧
    -- Clear
    (∀ count, Gen.Cache.clearContinues count = decide (count > 0)) ∧
    Gen.Cache.clearSteps = true ∧
    (∀ size evSize, Gen.Cache.clearSize size evSize = size - evSize) ∧
    (∀ count, Gen.Cache.clearCount count = count - 1) ∧
    (∀ size count, Gen.Cache.clearInconsistent size count = (decide (size ≠ 0) || decide (count ≠ 0))) ∧
    Gen.Cache.defaultSize = 1 ∧
    -- lru.go
    (∀ a b, Gen.Cache.prioLess a b = decide (a < b)) ∧
    Gen.Cache.updateRecordsPos = true ∧
    Gen.Cache.checkTicks = false ∧
    Gen.Cache.checkPeeksAtPos = true ∧
    (∀ clock, Gen.Cache.accessClock clock = clock + 1) ∧
    (∀ clock, Gen.Cache.accessStamp clock = clock) ∧
    Gen.Cache.accessRemovesThenAdds = true ∧
    (∀ clock, Gen.Cache.storeClock clock = clock + 1) ∧
    (∀ clock, Gen.Cache.storeStamp clock = clock) ∧
    Gen.Cache.storeAddsAndRecords = true ∧
    Gen.Cache.removeDeletesKey = true ∧
    Gen.Cache.evictDeletesKey = true :=
  ⟨rfl,
   by gen_fact Gen.Cache.newPanics,
   by gen_fact Gen.Cache.putRefuses,
   by gen_fact Gen.Cache.putReplaceSteps,
   by gen_fact Gen.Cache.replaceSize,
   by gen_fact Gen.Cache.replaceCount,
   by gen_fact Gen.Cache.putNewSize,
   by gen_fact Gen.Cache.putEvicts,
   by gen_fact Gen.Cache.putEvictSteps,
   by gen_fact Gen.Cache.evictCount,
   by gen_fact Gen.Cache.evictNewSize,
   by gen_fact Gen.Cache.putStoresLast,
   by gen_fact Gen.Cache.putSize,
   by gen_fact Gen.Cache.putCount,
   by gen_fact Gen.Cache.removeSteps,
   by gen_fact Gen.Cache.removeSize,
   by gen_fact Gen.Cache.removeCount,
   by gen_fact Gen.Cache.clearContinues,
   by gen_fact Gen.Cache.clearSteps,
   by gen_fact Gen.Cache.clearSize,
   by gen_fact Gen.Cache.clearCount,
   by gen_fact Gen.Cache.clearInconsistent,
   by gen_fact Gen.Cache.defaultSize,
   by gen_fact Gen.Cache.prioLess,
   by gen_fact Gen.Cache.updateRecordsPos,
   by gen_fact Gen.Cache.checkTicks,
   by gen_fact Gen.Cache.checkPeeksAtPos,
   by gen_fact Gen.Cache.accessClock,
   by gen_fact Gen.Cache.accessStamp,
   by gen_fact Gen.Cache.accessRemovesThenAdds,
   by gen_fact Gen.Cache.storeClock,
   by gen_fact Gen.Cache.storeStamp,
   by gen_fact Gen.Cache.storeAddsAndRecords,
   by gen_fact Gen.Cache.removeDeletesKey,
   by gen_fact Gen.Cache.evictDeletesKey⟩

/-- the model's entry order is the regenerated comparison: `ltEntry a b` iff `a` was accessed earlier -/
example : ltEntry ⟨3, 0, 0⟩ ⟨4, 1, 1⟩ = true ∧ ltEntry ⟨4, 0, 0⟩ ⟨4, 1, 1⟩ = false ∧ ltEntry ⟨5, 0, 0⟩ ⟨4, 1, 1⟩ = false := by
  decide

end MdsVerif.Props.C08
