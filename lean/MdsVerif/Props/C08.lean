import MdsVerif.Proofs.Cache
import MdsVerif.Drv.C05
/-!
# C08 — `cache.Cache` with the LRU store: accounting, callbacks, (conditional) LRU order

All theorems are about `Model.Cache.step` — the function the driver stream `C08` runs — over an arbitrary
size function `sizeOf ≥ 0`, an arbitrary limit `> 0`, arbitrary histories, and every heap configuration
of the class `CfgOK` (`parent i < i`, `left i > i`, `pop` without upward repair), which contains the
pinned configuration regenerated from heapq.go (`current_cfg_ok`).

* `C08_accounting`  – the invariant `Inv` holds after every history from the empty cache and no
  operation panics; `C08_observations` spells out what `Inv` means for `Len`, `Size`, `Has`, `Get`,
  a refused `Put`, `Clear`.
* `C08_callbacks`   – the eviction-callback log: every entry that ever entered is either still present
  or was reported exactly once (multiset conservation), per step and per history.
* `C08_F2_witness`  – the recorded defect F2: on corpus/C08/F2.ops the pinned model evicts key 9 where
  the reference LRU evicts key 2.  Hence the *victim choice* clause of C08 fails for the pinned heap.
* `C08_refines_if_evict_min` – the conditional full theorem: on every history on which each `Evict`
  executed by `Put` finds a minimal timestamp at the root of the heap (`runMin`; what a correct heap
  provides, what F2 breaks), model and reference LRU cache produce the same outputs and the same
  callback sequence.
-/
namespace MdsVerif.Props.C08
open MdsVerif.Model MdsVerif.Model.Cache MdsVerif.Proofs.Cache MdsVerif.Spec

/-- the pinned heap configuration, written out -/
def pinned : Heapq.Cfg :=
  { parent := fun i => i / 2, left := fun i => 2 * i + 1, right := fun lc => lc + 1,
    heapifyStart := fun n => n / 2, popSiftsUp := false }

theorem pinned_ok : CfgOK pinned :=
  ⟨fun i hi => by show i / 2 < i; omega, fun i => by show i < 2 * i + 1; omega, rfl⟩

/-- the configuration the driver runs (regenerated from heapq.go on every check) is in the class; this
fails to elaborate — a broken obligation — as soon as the index arithmetic or `pop` changes shape -/
theorem current_cfg_ok : CfgOK Drv.C05.cfg :=
  ⟨fun i hi => by show i / 2 < i; omega, fun i => by show i < 2 * i + 1; omega, rfl⟩

/-- the empty cache `cache.New(limit, LRU())` -/
def empty (limit : Int) : Cache := { limit := limit }

/-- keys held by the store (heap-array order) -/
def keys (c : Cache) : List Nat := c.store.h.data.map (·.key)

/-! ## 1. accounting -/

/-- **C08, accounting invariant over histories.**  After every history from the empty cache:
`Inv` holds — (a) `present` is exact (`lru.fwd`, `lru.bwd`; keys pairwise distinct: `LruInv.nodup`),
(b) `count` = number of heap entries, (c) `size = Σ sizeOf value`, (d) `size ≤ limit`
(and `0 ≤ size`: `sizeSum_nonneg`), (e) timestamps pairwise distinct and `≤ clock`; the limit is
unchanged; and **no operation of the history panicked** (`Store` on a present key, `Evict` on an empty
store and the consistency check of `Clear` are unreachable; the fuel of the two loops suffices, because
running out of fuel would leave `newSize > limit` resp. `count > 0`, contradicting `Inv` of the result). -/
theorem C08_accounting (cfg : Heapq.Cfg) (ok : CfgOK cfg) (sizeOf : Nat → Int) (hs : ∀ v, 0 ≤ sizeOf v)
    (limit : Int) (hl : 0 < limit) (ops : List Op) :
    Inv sizeOf (exec cfg sizeOf (empty limit) ops) ∧
    (exec cfg sizeOf (empty limit) ops).limit = limit ∧
    ∀ o ∈ outs cfg sizeOf (empty limit) ops, ∀ m, o ≠ .panic m := by
  obtain ⟨inv, hlim, _, np⟩ := exec_inv ok hs ops (inv_empty sizeOf limit hl)
  exact ⟨inv, hlim, np⟩

/-- **C08, what the invariant means for the observations** (for any state satisfying `Inv`, in
particular every reachable one, by `C08_accounting`). -/
theorem C08_observations (cfg : Heapq.Cfg) (ok : CfgOK cfg) (sizeOf : Nat → Int) (hs : ∀ v, 0 ≤ sizeOf v)
    (c : Cache) (inv : Inv sizeOf c) :
    -- Len is the number of present keys; keys are pairwise distinct; Has tells exactly the present keys
    (step cfg sizeOf c .len).2 = .int (keys c).length ∧ (keys c).Nodup ∧
    (∀ k, has c k = true ↔ k ∈ keys c) ∧
    -- Size is the sum of the sizes of the present values, between 0 and the limit
    (step cfg sizeOf c .size).2 = .int (sizeSum sizeOf c.store.h.data) ∧
    0 ≤ sizeSum sizeOf c.store.h.data ∧ sizeSum sizeOf c.store.h.data ≤ c.limit ∧
    -- a Put larger than the limit is refused and changes nothing
    (∀ k v, sizeOf v > c.limit → step cfg sizeOf c (.put k v) = (c, .bool false)) ∧
    -- a Put that fits reports true, and the key then maps to the new value
    (∀ k v, ¬ sizeOf v > c.limit → (step cfg sizeOf c (.put k v)).2 = .bool true ∧
        (step cfg sizeOf c (.put k v)).1.store.check k = some v) ∧
    -- Has, Len, Size change nothing
    (∀ k, (step cfg sizeOf c (.has k)).1 = c) ∧ (step cfg sizeOf c .len).1 = c ∧
    (step cfg sizeOf c .size).1 = c ∧
    -- the key ↦ value map is the heap's: `check k = some v` iff `(k, v)` is an entry
    (∀ k v, c.store.check k = some v ↔ (k, v) ∈ ents c) ∧
    -- Get returns the value of a present key, `none` for an absent one, and does not change the entries
    (∀ k, (step cfg sizeOf c (.get k)).2 = .opt (c.store.check k) ∧
        (ents (step cfg sizeOf c (.get k)).1).Perm (ents c)) ∧
    -- Remove reports whether the key was present; afterwards it is absent
    (∀ k, (step cfg sizeOf c (.remove k)).2 = .bool (has c k) ∧
        has (step cfg sizeOf c (.remove k)).1 k = false) ∧
    -- Clear does not panic and leaves the cache empty
    ((step cfg sizeOf c .clear).2 = .unit ∧ ents (step cfg sizeOf c .clear).1 = [] ∧
      (step cfg sizeOf c .clear).1.size = 0 ∧ (step cfg sizeOf c .clear).1.count = 0) := by
  have hhas : ∀ c' : Cache, Inv sizeOf c' → ∀ k, has c' k = true ↔ k ∈ keys c' := by
    intro c' inv' k
    by_cases hk : k ∈ c'.store.h.data.map (·.key)
    · obtain ⟨e, he, rfl⟩ := List.mem_map.1 hk
      simp [has, check_of_mem inv'.lru he, keys, hk]
    · simp [has, check_of_not_mem inv'.lru hk, keys, hk]
  have hcheck : ∀ c' : Cache, Inv sizeOf c' → ∀ k v, c'.store.check k = some v ↔ (k, v) ∈ ents c' := by
    intro c' inv' k v
    rw [check_eq_some_iff inv'.lru]
    simp only [ents, List.mem_map, kv, Prod.mk.injEq]
  refine ⟨?_, inv.lru.nodup, hhas c inv, (by show Out.int c.size = _; rw [inv.size]), sizeSum_nonneg hs _,
    ?_, ?_, ?_, fun _ => rfl, rfl, rfl,
    hcheck c inv, ?_, ?_, ?_⟩
  · show Out.int c.count = _
    rw [inv.count]; simp [keys]
  · rw [← inv.size]; exact inv.le
  · intro k v h
    simp only [step, put_refused cfg sizeOf c k v h]
  · intro k v h
    obtain ⟨c', hp, inv', _, hmem, _⟩ := put_spec ok hs inv k v h
    simp only [step, hp]
    exact ⟨trivial, (hcheck c' inv' k v).2 hmem⟩
  · intro k
    by_cases hk : k ∈ c.store.h.data.map (·.key)
    · obtain ⟨e, he, rfl⟩ := List.mem_map.1 hk
      obtain ⟨hv, _, _, perm⟩ := get_spec_present ok inv he
      refine ⟨?_, perm⟩
      show Out.opt (MdsVerif.Model.Cache.get cfg c e.key).2 = _
      rw [hv, check_of_mem inv.lru he]
    · simp only [step, get_spec_absent inv hk, check_of_not_mem inv.lru hk]
      exact ⟨trivial, .refl _⟩
  · intro k
    by_cases hk : k ∈ c.store.h.data.map (·.key)
    · obtain ⟨e, he, rfl⟩ := List.mem_map.1 hk
      obtain ⟨hb, inv', _, perm, _⟩ := remove_spec_present ok hs inv he
      have hnot := (perm_cons_nodup_keys perm inv.lru.nodup).1
      refine ⟨?_, ?_⟩
      · show Out.bool (remove cfg sizeOf c e.key).2 = _
        rw [hb, (hhas c inv e.key).2 hk]
      · have := hhas _ inv' e.key
        show has (remove cfg sizeOf c e.key).1 e.key = false
        cases hh : has (remove cfg sizeOf c e.key).1 e.key
        · rfl
        · exact absurd (this.1 hh) hnot
    · have hf : has c k = false := by
        cases hh : has c k
        · rfl
        · exact absurd ((hhas c inv k).1 hh) hk
      simp only [step, remove_spec_absent inv hk, hf]
      exact ⟨trivial, trivial⟩
  · obtain ⟨c', hc, inv', hd, _, _⟩ := clear_spec ok hs inv
    simp only [step, hc]
    refine ⟨trivial, by simp [ents, hd], ?_, ?_⟩
    · rw [inv'.size, hd]; rfl
    · rw [inv'.count, hd]; rfl

/-! ## 2. callbacks -/

/-- **C08, eviction callbacks.**  Per step: the callback log only grows, by `gone` (most recent first),
and `gone ++ entries after` is a permutation of `added ++ entries before`, where `added` is `[(k, v)]`
for a `Put k v` that reported `true` and `[]` otherwise — i.e. every entry that leaves the store
(replaced or evicted by `Put`, removed, cleared) is reported exactly once, with its key and value, and
nothing else is reported.  Per history from the empty cache: log `++` present entries is a permutation
of everything that ever entered — every entry that ever entered is either present or appears exactly
once in the log. -/
theorem C08_callbacks (cfg : Heapq.Cfg) (ok : CfgOK cfg) (sizeOf : Nat → Int) (hs : ∀ v, 0 ≤ sizeOf v) :
    (∀ (c : Cache) (op : Op), Inv sizeOf c →
      ∃ gone, (step cfg sizeOf c op).1.evicted = gone ++ c.evicted ∧
        (gone ++ ents (step cfg sizeOf c op).1).Perm (addedBy op (step cfg sizeOf c op).2 ++ ents c)) ∧
    (∀ (limit : Int) (ops : List Op), 0 < limit →
      ((exec cfg sizeOf (empty limit) ops).evicted ++ ents (exec cfg sizeOf (empty limit) ops)).Perm
        (entered cfg sizeOf (empty limit) ops)) := by
  refine ⟨fun c op inv => (step_inv ok hs inv op).2.2.1, fun limit ops hl => ?_⟩
  obtain ⟨_, _, ⟨gone, hg, perm⟩, _⟩ := exec_inv ok hs ops (inv_empty sizeOf limit hl)
  have h1 : (exec cfg sizeOf (empty limit) ops).evicted = gone := hg.trans (List.append_nil _)
  rw [h1]
  have h2 : entered cfg sizeOf (empty limit) ops ++ ents (empty limit) = entered cfg sizeOf (empty limit) ops :=
    List.append_nil _
  rw [← h2]; exact perm

/-! ## 3. the recorded defect F2 -/

/-- corpus/C08/F2.ops (limit 8, unit sizes) -/
def f2ops : List Op :=
  [.put 7 7, .put 10 14, .put 3 16, .put 13 22, .put 6 25, .put 11 31, .put 2 40, .put 9 45, .put 12 54,
   .get 6, .put 10 55, .remove 13, .get 12, .put 13 61, .put 1 69, .put 0 72, .put 8 82]

set_option maxRecDepth 100000 in
/-- **F2 seen through the cache**: on the recorded history the last `Put` of the pinned model evicts key 9
(value 45), while the reference LRU cache evicts key 2 (value 40), the least recently used entry: the
`Remove 13` before has left the heap on `lastAccess` out of order (`pop` does not sift up). -/
theorem C08_F2_witness :
    (exec pinned (fun _ => 1) (empty 8) f2ops).evicted.head? = some (9, 45) ∧
    (execRef (fun _ => 1) { limit := 8 } f2ops).evicted.head? = some (2, 40) ∧
    outs pinned (fun _ => 1) (empty 8) f2ops = outsRef (fun _ => 1) { limit := 8 } f2ops ∧
    -- … and this is exactly a run on which an `Evict` did not find the minimal timestamp at the root
    runMin pinned (fun _ => 1) (empty 8) f2ops = false := by
  decide

/-! ## 4. conditional refinement of the reference LRU cache -/

/-- **C08, one step, conditional.**  From a state satisfying the invariant and related to a reference
state (`Abs`: the recency list is the heap's entries in timestamp order), if every `Evict` executed by
this step finds a minimal timestamp at the root (`stepMin`; vacuous unless the step is a `Put` that must
make room), then model and reference give the same output, stay related, and report the same new
callbacks in the same order (for `Clear`: the same callbacks up to order — the order in which `Clear`
reports is not part of the property, and the correspondence stream compares it as a sorted list too). -/
theorem C08_step_refines_if_evict_min (cfg : Heapq.Cfg) (ok : CfgOK cfg) (sizeOf : Nat → Int)
    (hs : ∀ v, 0 ≤ sizeOf v) (c : Cache) (r : LruRef.R) (inv : Inv sizeOf c) (abs : Abs c r) (op : Op)
    (hmin : stepMin cfg sizeOf c op = true) :
    (step cfg sizeOf c op).2 = (LruRef.step sizeOf r op).2 ∧
    Abs (step cfg sizeOf c op).1 (LruRef.step sizeOf r op).1 ∧
    ∃ g g', (step cfg sizeOf c op).1.evicted = g ++ c.evicted ∧
      (LruRef.step sizeOf r op).1.evicted = g' ++ r.evicted ∧
      (if op == .clear then g.Perm g' else g = g') :=
  step_refines ok hs inv abs op hmin

/-- **C08, conditional full theorem.**  For every history from the empty cache on which every `Evict`
executed by a `Put` finds a minimal timestamp at the root of the heap (`runMin`), `Model.Cache.step` and
`Spec.LruRef.step` produce the same outputs; the final states are related; the callback logs agree as
multisets, and as sequences when the history contains no `Clear`.  (Per step, including the exact
callback sequence of every non-`Clear` step of histories *with* `Clear`: `C08_step_refines_if_evict_min`.)
So: a `Put` that fits evicts exactly the least-recently-used entries needed to make room, in that order
(`LruRef.makeRoom`), `Put` and successful `Get` count as uses, `Has` does not. -/
theorem C08_refines_if_evict_min (cfg : Heapq.Cfg) (ok : CfgOK cfg) (sizeOf : Nat → Int)
    (hs : ∀ v, 0 ≤ sizeOf v) (limit : Int) (hl : 0 < limit) (ops : List Op)
    (hmin : runMin cfg sizeOf (empty limit) ops = true) :
    outs cfg sizeOf (empty limit) ops = outsRef sizeOf { limit := limit } ops ∧
    Abs (exec cfg sizeOf (empty limit) ops) (execRef sizeOf { limit := limit } ops) ∧
    (exec cfg sizeOf (empty limit) ops).evicted.Perm (execRef sizeOf { limit := limit } ops).evicted ∧
    (Op.clear ∉ ops →
      (exec cfg sizeOf (empty limit) ops).evicted = (execRef sizeOf { limit := limit } ops).evicted) := by
  have abs0 : Abs (empty limit) { limit := limit } := ⟨[], .refl _, List.Pairwise.nil, rfl, rfl⟩
  obtain ⟨h1, h2, h3, h4⟩ :=
    run_refines ok hs ops (inv_empty sizeOf limit hl) abs0 hmin (.refl _)
  exact ⟨h1, h2, h3, fun hn => h4 hn rfl⟩

/-- **C08, full theorem from a heap-order invariant.**  If the heap configuration admits an invariant `P`
of the heap that is kept by `pop` (at a valid offset) and by `add` of an element newer than all others,
and that puts a minimal timestamp at the root (`HeapInv`: exactly what a heap-order theorem for the
configuration — C05 — provides), then the hypothesis of `C08_refines_if_evict_min` holds on every history,
i.e. the cache model refines the reference LRU cache unconditionally.  No instance is proved here (the
pinned configuration has none: `C08_pinned_has_no_heap_invariant`; a configuration of the class that has
one is the degenerate "sorted array" `parent i = i - 1, left i = i + 1, right lc = lc` — remark, not
proved); the theorem is the bridge a repaired heap has to cross. -/
theorem C08_full_if_heap_invariant (cfg : Heapq.Cfg) (ok : CfgOK cfg) (P : Heapq.H Entry → Prop)
    (hi : HeapInv cfg P) (sizeOf : Nat → Int) (hs : ∀ v, 0 ≤ sizeOf v) (limit : Int) (hl : 0 < limit)
    (ops : List Op) :
    outs cfg sizeOf (empty limit) ops = outsRef sizeOf { limit := limit } ops ∧
    Abs (exec cfg sizeOf (empty limit) ops) (execRef sizeOf { limit := limit } ops) ∧
    (exec cfg sizeOf (empty limit) ops).evicted.Perm (execRef sizeOf { limit := limit } ops).evicted ∧
    (Op.clear ∉ ops →
      (exec cfg sizeOf (empty limit) ops).evicted = (execRef sizeOf { limit := limit } ops).evicted) :=
  C08_refines_if_evict_min cfg ok sizeOf hs limit hl ops
    (runMin_of_heapInv ok hi hs ops (inv_empty sizeOf limit hl) hi.nil)

/-- consequence of F2: the pinned heap has no invariant that keeps the minimum at the root -/
theorem C08_pinned_has_no_heap_invariant : ¬ ∃ P, HeapInv pinned P := by
  rintro ⟨P, hi⟩
  have h := runMin_of_heapInv pinned_ok hi (sizeOf := fun _ => 1) (fun _ => by decide) f2ops
    (inv_empty _ 8 (by decide)) hi.nil
  have h' : runMin pinned (fun _ => 1) (empty 8) f2ops = true := h
  rw [C08_F2_witness.2.2.2] at h'
  cases h'

/- The unconditional statement — NOT provable for the pinned heap (`C08_F2_witness` refutes it), and the
obligation that a repaired heap configuration has to discharge (it amounts to `runMin … = true` for every
history, i.e. to: `pop`/`add` keep the minimum of `lastAccess` at the root):

theorem C08_full (cfg : Heapq.Cfg) (h : IsRepaired cfg) (sizeOf : Nat → Int) (hs : ∀ v, 0 ≤ sizeOf v)
    (limit : Int) (hl : 0 < limit) (ops : List Op) :
    outs cfg sizeOf (empty limit) ops = outsRef sizeOf { limit := limit } ops ∧
    (Op.clear ∉ ops →
      (exec cfg sizeOf (empty limit) ops).evicted = (execRef sizeOf { limit := limit } ops).evicted)
-/

/-! ## non-vacuity -/

/-- a history with replacement, eviction by size, Get, Remove, a refused Put and Clear; variable sizes -/
def demoOps : List Op :=
  [.put 1 3, .put 2 1, .put 3 2, .get 1, .put 2 11, .put 4 14, .remove 1, .put 5 23, .put 9 9, .has 1, .has 2,
   .len, .size, .put 6 4, .get 7]

def demoSize (v : Nat) : Int := (v % 10 : Nat)

set_option maxRecDepth 100000 in
example : (exec pinned demoSize (empty 8) demoOps).evicted = [(4, 14), (2, 11), (1, 3), (3, 2), (2, 1)] ∧
    ents (exec pinned demoSize (empty 8) demoOps) = [(5, 23), (6, 4)] ∧
    entered pinned demoSize (empty 8) demoOps = [(6, 4), (5, 23), (4, 14), (2, 11), (3, 2), (2, 1), (1, 3)] ∧
    (exec pinned demoSize (empty 8) demoOps).size = 7 ∧ (exec pinned demoSize (empty 8) demoOps).count = 2 ∧
    outs pinned demoSize (empty 8) demoOps =
      [.bool true, .bool true, .bool true, .opt (some 3), .bool true, .bool true, .bool true, .bool true,
       .bool false, .bool false, .bool true, .int 3, .int 8, .bool true, .opt none] := by
  decide

/-- the refinement hypothesis holds on the demo history (evictions by `Put` included), so
`C08_refines_if_evict_min` applies to it; and it fails on the F2 history (`C08_F2_witness`) -/
example : runMin pinned demoSize (empty 8) demoOps = true ∧
    (execRef demoSize { limit := 8 } demoOps).evicted = [(4, 14), (2, 11), (1, 3), (3, 2), (2, 1)] := by
  decide

set_option maxRecDepth 100000 in
example : (step pinned demoSize (exec pinned demoSize (empty 8) demoOps) .clear).1.evicted.length = 7 ∧
    (step pinned demoSize (exec pinned demoSize (empty 8) demoOps) .clear).2 = .unit := by
  decide

end MdsVerif.Props.C08
