import MdsVerif.Proofs.Heapq
import MdsVerif.Drv.C05
/-!
# C06 — heapq position reports track every element's true offset

`Model.Heapq.H.log` is the sequence of `move(value, index)` callbacks of the update function, most
recent first; `lastPos log x` is the index in the most recent callback for `x`.

`C06_positions`: for **every configuration** of the index arithmetic with `parent i < i` (i > 0) and
`left i > i` (`Proofs.Heapq.CfgOK` — nothing is assumed about `right`, `heapifyStart`, `popSiftsUp`;
in particular the pinned one regenerated from heapq.go,
`C06_current`), every comparison function (no order axioms are needed), and every history of
`Add / Pop / Remove i / Set / Reorder / Clear / NewWithData` (and the observers) over pairwise
distinct elements, after every operation each held element that entered through `Add` or `Set`
since the last construction sits at the offset most recently reported for it.
`C06_add_returns`: `Add v` returns the offset of `v`.  `C06_remove_reported`: `Remove (lastPos x)`
returns `x` and `x` is no longer held.

Elements that were already there when the update function was installed (`NewWithData`) are outside
the claim (the tracked set `T` becomes empty), exactly as in the property text.
-/
namespace MdsVerif.Props.C06
open MdsVerif.Model.Heapq MdsVerif.Proofs.Heapq

variable {α : Type} [Inhabited α] [DecidableEq α]

/-- the elements of `data` are pairwise distinct, and every held element in the tracked set `T` is
found (by `Peek`) at the offset most recently reported for it -/
def PosOK (T : α → Prop) (h : H α) : Prop :=
  h.data.Nodup ∧
  ∀ (i : Nat) (hi : i < h.data.length), T h.data[i] → lastPos h.log h.data[i] = some i

theorem posOK_iff (T : α → Prop) (h : H α) : PosOK T h ↔ Inv (fun _ x => T x) h := by
  constructor
  · rintro ⟨hn, ht⟩
    refine ⟨hn, fun k hk hq => ?_⟩
    rw [get_eq h k hk] at hq ⊢
    exact ht k hk hq
  · rintro ⟨hn, ht⟩
    refine ⟨hn, fun i hi hq => ?_⟩
    have := ht i hi
    rw [get_eq h i hi] at this
    exact this hq

/-- the set of elements covered by the claim after an operation: those that entered through `Add`
or `Set`; construction over existing data (`NewWithData`, no update function yet) empties it -/
def tracked (T : α → Prop) : Op α → α → Prop
  | .add v => fun x => x = v ∨ T x
  | .set vs => fun x => x ∈ vs
  | .newWithData _ _ => fun _ => False
  | _ => T

/-- "over pairwise distinct elements": what an operation may bring in is new and distinct -/
def distinctOp (s : S α) : Op α → Prop
  | .add v => v ∉ s.h.data
  | .set vs => vs.Nodup
  | .newWithData vs _ => vs.Nodup
  | _ => True

instance (s : S α) (op : Op α) : Decidable (distinctOp s op) := by
  cases op <;> simp only [distinctOp] <;> infer_instance

section
variable {cfg : Cfg} (hc : CfgOK cfg) (lt : α → α → Bool)
include hc

/-- one operation keeps the invariant -/
theorem step_posOK (s : S α) (T : α → Prop) (op : Op α) (hd : distinctOp s op) (hv : PosOK T s.h) :
    PosOK (tracked T op) (step cfg lt s op).1.h := by
  rw [posOK_iff] at hv ⊢
  cases op with
  | add v => exact (add_inv hc _ T s.h v hv hd).1
  | pop =>
    simp only [step]
    split
    · exact hv
    · exact pop_inv hc _ _ s.h 0 (by omega) hv
  | remove i =>
    simp only [step]
    split
    · exact hv
    · exact pop_inv hc _ _ s.h i (by omega) hv
  | set vs => exact (set_inv hc.left_gt _ s.h vs hd).weaken (fun _ _ _ => trivial)
  | reorder rev => exact reorder_inv hc.left_gt _ _ _ hv
  | clear => exact ⟨List.nodup_nil, fun k hk => by simp [step, clear, H.len] at hk⟩
  | newWithData vs rev =>
    refine ⟨?_, fun k _ hq => absurd hq (by simp [tracked])⟩
    exact (newWithData_perm hc.left_gt _ vs).nodup_iff.mpr hd
  | front => exact hv
  | peek i => exact hv
  | len => exact hv

/-- **Add returns the offset of the new element** -/
theorem C06_add_returns (s : S α) (T : α → Prop) (v : α) (hv : PosOK T s.h) (hd : v ∉ s.h.data) :
    ∃ i, (step cfg lt s (.add v)).2 = .idx i ∧ (step cfg lt s (.add v)).1.h.data[i]? = some v := by
  rw [posOK_iff] at hv
  obtain ⟨_, h2, h3⟩ := add_inv hc (s.lt lt) T s.h v hv hd
  refine ⟨(add cfg (s.lt lt) s.h v).2, rfl, ?_⟩
  rw [get_eq _ _ h2] at h3
  simp only [step]
  rw [List.getElem?_eq_getElem h2, h3]

/-- **Remove(p) with an element's reported position p removes exactly that element** -/
theorem C06_remove_reported (s : S α) (T : α → Prop) (x : α) (hv : PosOK T s.h) (hx : x ∈ s.h.data)
    (ht : T x) :
    ∃ p, lastPos s.h.log x = some p ∧ peek s.h p = some x ∧
      (step cfg lt s (.remove p)).2 = .opt (some x) ∧ x ∉ (step cfg lt s (.remove p)).1.h.data := by
  obtain ⟨p, hp, rfl⟩ := List.getElem_of_mem hx
  refine ⟨p, hv.2 p hp ht, by simp [peek, hp], ?_⟩
  have hp' : p < s.h.len := hp
  have hperm := pop_perm hc (s.lt lt) s.h p hp'
  have hout := pop_out cfg (s.lt lt) s.h p
  rw [get_eq _ _ hp'] at hout
  simp only [step, if_neg (Nat.not_le.mpr hp')]
  refine ⟨congrArg (fun v => Out.opt (some v)) hout, ?_⟩
  have hn := hperm.nodup_iff.mpr hv.1
  rw [hout] at hn
  exact (List.nodup_cons.mp hn).1

/-- **Remove(p) removes only that element: the others remain** (and remain tracked).  With `p` the
reported position of a held tracked `x`: the array after `Remove(p)` together with `x` is a permutation of
the array before; an element is held afterwards iff it was held before and is not `x`; exactly one slot
disappears; and every remaining tracked element still sits at its last reported position. -/
theorem C06_remove_others_remain (s : S α) (T : α → Prop) (x : α) (hv : PosOK T s.h) (hx : x ∈ s.h.data)
    (ht : T x) :
    ∃ p, lastPos s.h.log x = some p ∧
      (x :: (step cfg lt s (.remove p)).1.h.data).Perm s.h.data ∧
      (∀ y, y ∈ (step cfg lt s (.remove p)).1.h.data ↔ y ∈ s.h.data ∧ y ≠ x) ∧
      (step cfg lt s (.remove p)).1.h.data.length + 1 = s.h.data.length ∧
      PosOK T (step cfg lt s (.remove p)).1.h := by
  obtain ⟨p, hp, rfl⟩ := List.getElem_of_mem hx
  have hp' : p < s.h.len := hp
  have hperm := pop_perm hc (s.lt lt) s.h p hp'
  have hout := pop_out cfg (s.lt lt) s.h p
  rw [get_eq _ _ hp'] at hout
  rw [hout] at hperm
  have hst : (step cfg lt s (.remove p)).1.h = (pop cfg (s.lt lt) s.h p).1 := by
    simp only [step, if_neg (Nat.not_le.mpr hp')]
  have hn := hperm.nodup_iff.mpr hv.1
  refine ⟨p, hv.2 p hp ht, ?_, ?_, ?_, ?_⟩
  · rw [hst]; exact hperm
  · intro y
    rw [hst]
    constructor
    · intro hy
      exact ⟨hperm.subset (List.mem_cons_of_mem _ hy), fun e => (List.nodup_cons.mp hn).1 (e ▸ hy)⟩
    · rintro ⟨hy, hne⟩
      rcases List.mem_cons.mp (hperm.mem_iff.mpr hy) with e | h
      · exact absurd e hne
      · exact h
  · rw [hst]
    have := hperm.length_eq
    simpa using this
  · exact step_posOK hc lt s T (.remove p) trivial hv

/-! ### histories -/

def runS (cfg : Cfg) (lt : α → α → Bool) (s : S α) (ops : List (Op α)) : S α :=
  ops.foldl (fun s op => (step cfg lt s op).1) s

/-- the distinctness side condition along a history -/
def Distinct (cfg : Cfg) (lt : α → α → Bool) : S α → List (Op α) → Prop
  | _, [] => True
  | s, op :: ops => distinctOp s op ∧ Distinct cfg lt (step cfg lt s op).1 ops

instance decDistinct (cfg : Cfg) (lt : α → α → Bool) : ∀ (s : S α) (ops : List (Op α)), Decidable (Distinct cfg lt s ops)
  | _, [] => isTrue trivial
  | s, op :: ops => by
    unfold Distinct
    exact @instDecidableAnd _ _ _ (decDistinct cfg lt _ ops)

def trackedAfter (T : α → Prop) (ops : List (Op α)) : α → Prop := ops.foldl tracked T

/-- **C06**: the invariant holds after every history (hence, every prefix being a history, after
every operation), from any state that satisfies it -/
theorem C06_positions_from (ops : List (Op α)) (s : S α) (T : α → Prop) (hv : PosOK T s.h)
    (hd : Distinct cfg lt s ops) : PosOK (trackedAfter T ops) (runS cfg lt s ops).h := by
  induction ops generalizing s T with
  | nil => exact hv
  | cons op ops ih =>
    exact ih _ _ (step_posOK hc lt s T op hd.1 hv) hd.2

/-- **C06**, from the empty queue with the update function installed -/
theorem C06_positions (ops : List (Op α)) (hd : Distinct cfg lt ({} : S α) ops) :
    PosOK (trackedAfter (fun _ => False) ops) (runS cfg lt ({} : S α) ops).h :=
  C06_positions_from hc lt ops {} _ ⟨List.nodup_nil, fun i hi => by simp at hi⟩ hd

end

/-! ### the current source -/

/-- the configuration regenerated from heapq.go is in the class (F1's `i / 2` is still `< i`) -/
theorem C06_current : CfgOK Drv.C05.cfg where
  parent_lt := fun i hi => by simp only [Drv.C05.cfg, Gen.Heapq.parentIdx]; omega
  left_gt := fun i => by simp only [Drv.C05.cfg, Gen.Heapq.leftIdx]; omega

/-- **C06 for the code as it is** (with the driver's comparison, or any other) -/
theorem C06_positions_current (lt : Nat → Nat → Bool) (ops : List (Op Nat))
    (hd : Distinct Drv.C05.cfg lt ({} : S Nat) ops) :
    PosOK (trackedAfter (fun _ => False) ops) (runS Drv.C05.cfg lt ({} : S Nat) ops).h :=
  C06_positions C06_current lt ops hd

/-! ### non-vacuity: a history with sift-ups (incl. through the F1 parent), interior removal,
removal of the last slot, `Set` and `Reorder`; its side condition holds and the tracked set and the
final array are non-trivial -/
def exOps : List (Op Nat) :=
  [.add 60, .add 20, .add 90, .add 21, .add 30, .pop, .add 31, .remove 2, .remove 3, .reorder true,
   .set [5, 15, 25, 35, 45, 55], .add 1, .remove 1]

example : Distinct Drv.C05.cfg Drv.C05.ltKey ({} : S Nat) exOps := by decide
example : (runS Drv.C05.cfg Drv.C05.ltKey ({} : S Nat) exOps).h.data = [55, 35, 25, 1, 15, 5] := by decide
example : lastPos (runS Drv.C05.cfg Drv.C05.ltKey ({} : S Nat) exOps).h.log 1 = some 3 := by decide
example : trackedAfter (fun _ => False) exOps 15 := by simp [trackedAfter, exOps, tracked]

/-- `C06_remove_others_remain` on a concrete state: removing the tracked element 15 (reported at offset 4)
from `[55, 35, 25, 1, 15, 5]` leaves the other five -/
example : lastPos (runS Drv.C05.cfg Drv.C05.ltKey ({} : S Nat) exOps).h.log 15 = some 4 ∧
    (step Drv.C05.cfg Drv.C05.ltKey (runS Drv.C05.cfg Drv.C05.ltKey ({} : S Nat) exOps) (.remove 4)).1.h.data =
      [55, 35, 25, 1, 5] := by decide

end MdsVerif.Props.C06
