import MdsVerif.Proofs.Lcs
import MdsVerif.Proofs.LcsKeyed
import MdsVerif.Proofs.Lis
/-!
# C12 — LCS, LIS and LNDS return optimal subsequences

Statements about `Model.Edit.lcsFunc?` (driver stream `C12.lcs`) and `Model.Lis.lisFunc` /
`lndsFunc` (= `lisCore true` / `lisCore false`, driver stream `C12.lis`), for all inputs, any
element type, no bound on lengths; `none` is Go's index-out-of-range panic.

* LCS: for every `eq` deciding equality the result is a common subsequence of both arguments of
  the reference optimal length `lcsLen` (textbook recursion, `Spec.Subseq`); for an `eq` that is
  equality of a key (`LCSFunc` with a custom equality) the returned ELEMENTS are, in order, elements
  of the shorter argument (the first if equally long) and their keys an optimal common subsequence
  of the key sequences (`lcsFunc_values_from`).
* LIS / LNDS: for every comparison `cmp` that is the three-way comparison of a total preorder
  (`CmpOK`: `cmp a b < 0 ↔ cmp b a > 0`, and `≤` transitive) the result is a subsequence of the
  input, strictly increasing (`cmp a b < 0` for every earlier `a`, later `b`) resp. non-decreasing
  (`cmp a b ≤ 0`), and no such subsequence of the input is longer.
* "None of them modifies its input": the models are pure functions of the input *values* (they
  never write `vs`, `as`, `bs`: `tails`/`prev`/`p`/`c`/`out`/`ret` are the only things written);
  that the Go code shares this is checked by the harness (`mod=F` on every call).
-/
namespace MdsVerif.Props.C12
open List MdsVerif.Model.Edit MdsVerif.Model.Lis MdsVerif.Spec.Subseq
open MdsVerif.Proofs.Lcs MdsVerif.Proofs.Lis

variable {α : Type}

/-! ## LCS / LCSFunc -/

/-- **LCS**: `LCSFunc` returns, and its result is a subsequence of both arguments whose length is
the reference optimum `lcsLen as bs`; no common subsequence is longer. -/
theorem lcs_optimal_common [DecidableEq α] {eq : α → α → Bool} (heq : ∀ a b, eq a b = true ↔ a = b)
    (as bs : List α) :
    ∃ r, lcsFunc? eq as bs = some r ∧ r <+ as ∧ r <+ bs ∧ r.length = lcsLen as bs ∧
      ∀ s, s <+ as → s <+ bs → s.length ≤ r.length := by
  obtain ⟨r, h, h1, h2, h3⟩ := lcsFunc_spec heq as bs
  exact ⟨r, h, h1, h2, length_eq_lcsLen h1 h2 h3, h3⟩

example : lcsFunc? (fun a b : Nat => decide (a = b)) [0, 1, 0, 2, 1] [1, 0, 1, 2] = some [1, 0, 1] := by
  decide

/-- **lcsFunc_values_from**: `LCSFunc` with a custom equality that is equality of a key
(`eq a b ↔ key a = key b`; the harness uses `a % k = b % k`) returns — never panicking — a list `r`
of ELEMENTS such that
* `r <+ lcsSource as bs`: element for element, as values and in order, `r` is taken from the shorter
  argument (from the first one when both are equally long) — the rule `Spec.Subseq.lcsSource` states
  and the driver checks on the implementation's values;
* the keys of `r` are a common subsequence of the two key sequences;
* its length is the reference optimum `lcsLen` of the two key sequences.
With `key = id` this is `lcs_optimal_common`. -/
theorem lcsFunc_values_from {κ : Type} [DecidableEq κ] (key : α → κ) {eq : α → α → Bool}
    (heq : ∀ a b, eq a b = true ↔ key a = key b) (as bs : List α) :
    ∃ r, lcsFunc? eq as bs = some r ∧ r <+ lcsSource as bs ∧
      r.map key <+ as.map key ∧ r.map key <+ bs.map key ∧
      r.length = lcsLen (as.map key) (bs.map key) := by
  rw [lcsFunc?_def]; unfold lcsSource
  by_cases h0 : as.length = 0 ∨ bs.length = 0
  · simp only [if_pos h0]
    refine ⟨[], rfl, nil_sublist _, by simp, by simp, ?_⟩
    rcases h0 with h | h
    · rw [List.eq_nil_of_length_eq_zero h]; simp [lcsLen]
    · rw [List.eq_nil_of_length_eq_zero h]; simp [lcsLen_nil_right]
  · simp only [if_neg h0]
    by_cases hsw : bs.length < as.length
    · simp only [if_pos hsw]
      obtain ⟨r, h1, h2, h3, h4⟩ := MdsVerif.Proofs.LcsKeyed.lcsCore_keyed key heq bs as
      exact ⟨r, h1, h2, h3, h2.map key, by rw [h4, MdsVerif.Proofs.LcsKeyed.lcsLen_comm]⟩
    · simp only [if_neg hsw]
      obtain ⟨r, h1, h2, h3, h4⟩ := MdsVerif.Proofs.LcsKeyed.lcsCore_keyed key heq as bs
      exact ⟨r, h1, h2, h2.map key, h3, h4⟩

/-- non-vacuity: equality modulo 2 on `[10, 21, 30]` / `[41, 50, 61, 70]` (the first is shorter) and
with the arguments exchanged: the same ELEMENTS, those of the three-element argument, both times —
although the other argument has `eq`-equal elements; with equally long arguments the elements of
the first one -/
example :
    lcsFunc? (fun a b : Nat => decide (a % 2 = b % 2)) [10, 21, 30] [41, 50, 61, 70] = some [10, 21, 30] ∧
    lcsFunc? (fun a b : Nat => decide (a % 2 = b % 2)) [41, 50, 61, 70] [10, 21, 30] = some [10, 21, 30] ∧
    lcsSource [41, 50, 61, 70] [10, 21, 30] = [10, 21, 30] ∧
    lcsFunc? (fun a b : Nat => decide (a % 2 = b % 2)) [10, 21] [41, 50] = some [10] ∧
    lcsFunc? (fun a b : Nat => decide (a % 2 = b % 2)) [41, 50] [10, 21] = some [41] ∧
    lcsSource [10, 21] [41, 50] = [10, 21] := by decide

/-! ## LIS / LNDS -/

/-- **LIS**: for every total-preorder comparison, `LISFunc` returns a strictly increasing
subsequence of the input of maximal length. -/
theorem lis_spec {cmp : α → α → Int} (ok : CmpOK cmp) (vs : List α) :
    ∃ r, lisFunc cmp vs = some r ∧ r <+ vs ∧ r.Pairwise (fun a b => cmp a b < 0) ∧
      ∀ s, s <+ vs → s.Pairwise (fun a b => cmp a b < 0) → s.length ≤ r.length := by
  obtain ⟨r, h, h1, h2, h3⟩ := lisCore_spec ok true vs
  have e : MayFollow true cmp = fun a b => cmp a b < 0 := by funext a b; simp [MayFollow]
  rw [e] at h1 h3
  exact ⟨r, h, h2, h1, h3⟩

/-- **LNDS**: for every total-preorder comparison, `LNDSFunc` returns a non-decreasing
subsequence of the input of maximal length. -/
theorem lnds_spec {cmp : α → α → Int} (ok : CmpOK cmp) (vs : List α) :
    ∃ r, lndsFunc cmp vs = some r ∧ r <+ vs ∧ r.Pairwise (fun a b => cmp a b ≤ 0) ∧
      ∀ s, s <+ vs → s.Pairwise (fun a b => cmp a b ≤ 0) → s.length ≤ r.length := by
  obtain ⟨r, h, h1, h2, h3⟩ := lisCore_spec ok false vs
  have e : MayFollow false cmp = fun a b => cmp a b ≤ 0 := by funext a b; simp [MayFollow]
  rw [e] at h1 h3
  exact ⟨r, h, h2, h1, h3⟩

/-- the natural order on integers (`cmp.Compare`, used by `LIS` / `LNDS`) is admissible … -/
theorem cmpInt_ok : CmpOK cmpInt := by
  refine ⟨?_, ?_⟩
  · intro a b; unfold cmpInt; split <;> split <;> (try split) <;> (try split) <;> omega
  · intro a b c; unfold cmpInt; repeat' split
    all_goals omega

/-- … and so is the reverse of any admissible comparison (the "custom (reversed) comparison"). -/
theorem reversed_ok {cmp : α → α → Int} (ok : CmpOK cmp) : CmpOK (fun a b => cmp b a) := by
  refine ⟨fun a b => ?_, fun a b c h1 h2 => ok.trans c b a h2 h1⟩
  have := ok.anti b a
  have := ok.anti a b
  omega

/-- `slice.LIS` / `slice.LNDS` on integers: strictly increasing / non-decreasing in the usual sense. -/
theorem lis_lnds_int (vs : List Int) :
    (∃ r, lisFunc cmpInt vs = some r ∧ r <+ vs ∧ r.Pairwise (· < ·) ∧
      ∀ s, s <+ vs → s.Pairwise (· < ·) → s.length ≤ r.length) ∧
    (∃ r, lndsFunc cmpInt vs = some r ∧ r <+ vs ∧ r.Pairwise (· ≤ ·) ∧
      ∀ s, s <+ vs → s.Pairwise (· ≤ ·) → s.length ≤ r.length) := by
  have e1 : (fun a b : Int => cmpInt a b < 0) = (· < ·) := by
    funext a b; unfold cmpInt; apply propext; split <;> (try split) <;> omega
  have e2 : (fun a b : Int => cmpInt a b ≤ 0) = (· ≤ ·) := by
    funext a b; unfold cmpInt; apply propext; split <;> (try split) <;> omega
  have h1 := lis_spec cmpInt_ok vs
  have h2 := lnds_spec cmpInt_ok vs
  rw [e1] at h1; rw [e2] at h2
  exact ⟨h1, h2⟩

/-! ### non-vacuity -/

example : lisFunc cmpInt [3, 1, 4, 1, 5, 9, 2, 6, 5, 3, 5] = some [1, 2, 3, 5] := by decide
example : lndsFunc cmpInt [3, 1, 4, 1, 5, 9, 2, 6, 5, 3, 5] = some [1, 1, 2, 3, 5] := by decide
example : lisFunc (fun a b => cmpInt b a) [3, 1, 4, 1, 5, 9, 2, 6, 5, 3, 5] = some [9, 6, 5, 3] := by decide

/-! ### the regenerated facts -/

/-- **C12_current.**  The facts regenerated from `slice/lis.go` (`Gen.Slice`, written by
`extract/slice.go` on every run) are the pinned ones: `LNDSFunc` takes the fast path on `cmp … >= 0` and
searches with `bisectRight`, `LISFunc` takes it on `cmp … > 0` and searches with
`slices.BinarySearchFunc`; both test `replaceIdx == 0`; `bisectRight` goes left on `cmp … > 0`; and the
extractor recognised the statement skeleton of `LNDSFunc`, `LISFunc` and `bisectRight` (the rest of the
text the model mirrors).  `Model.Lis` is built from these definitions (`Proofs/LisDefs.lean` restates it
with the expressions written out), so `lis_spec`/`lnds_spec` are about the tests that are in the source
now; a change of one of them changes `Gen/Slice.lean` and this theorem and `lisStep_def` stop compiling. -/
theorem C12_current :
    MdsVerif.Gen.Slice.recognised = true ∧
    (∀ c, MdsVerif.Gen.Slice.lndsFast c = decide (c ≥ 0)) ∧
    MdsVerif.Gen.Slice.lndsUsesBisectRight = true ∧
    (∀ (r : Nat), MdsVerif.Gen.Slice.lndsFirst r = decide (r = 0)) ∧
    (∀ c, MdsVerif.Gen.Slice.lisFast c = decide (c > 0)) ∧
    MdsVerif.Gen.Slice.lisUsesBisectRight = false ∧
    (∀ (r : Nat), MdsVerif.Gen.Slice.lisFirst r = decide (r = 0)) ∧
    (∀ c, MdsVerif.Gen.Slice.bisectGoLeft c = decide (c > 0)) :=
  ⟨rfl,
   by gen_fact MdsVerif.Gen.Slice.lndsFast,
   by gen_fact MdsVerif.Gen.Slice.lndsUsesBisectRight,
   by gen_fact MdsVerif.Gen.Slice.lndsFirst,
   by gen_fact MdsVerif.Gen.Slice.lisFast,
   by gen_fact MdsVerif.Gen.Slice.lisUsesBisectRight,
   by gen_fact MdsVerif.Gen.Slice.lisFirst,
   by gen_fact MdsVerif.Gen.Slice.bisectGoLeft⟩

end MdsVerif.Props.C12
