import MdsVerif.Proofs.StreeHist
import MdsVerif.Drv.C01
/-!
# C01 — `stree.Tree` is a sorted set: results and contents match a reference set

All theorems are about the shape-exact model `Model.Stree` of stree.go/node.go (tied to the Go
code by streams `C01`/`C02`) and hold for **every** comparator that is a total preorder
(`[Std.TransCmp cmp]`; distinct equivalent keys allowed), every depth-limit function (so in
particular for the float one of the Go code, whatever it rounds to), every balance factor and
every history.

* `rewrite_ok` — the DSW rebuild never dereferences nil and keeps the key order;
* `insert_spec`, `remove_spec`, `add_spec`, `replace_spec`, `remove_top_spec`, `new_spec` —
  each mutator is the list operation of `Spec.SortedSet` (Boolean = was absent / was present,
  stored representative: the old one for `Add`, the new one for `Replace`);
* `get_spec`, `min_spec`, `max_spec`, `inorder_spec`, `inorderAfter_spec`, `iteration_ascending`;
* `C01_history` — every history of New/Add/Replace/Remove/Clear/Clone on any number of trees
  (a clone is a further register) interleaved with every query returns exactly what the reference
  sorted sets return.
-/
namespace MdsVerif.Props.C01
open MdsVerif.Model.Stree MdsVerif.Spec MdsVerif.Gen MdsVerif.Proofs.Stree
open MdsVerif.Spec.SortedSet (Asc ins SortCompact)
open Std (TransCmp OrientedCmp)

variable {α : Type} {cmp : α → α → Ordering}

/-- `rewrite(root, size)` called with the true size: no panic, same keys in the same order -/
theorem rewrite_ok (t : Tree α) (n : Nat) (hn : n = t.size) :
    ∃ t', rewrite t n = some t' ∧ t'.toList = t.toList :=
  Proofs.Stree.rewrite_ok t n hn

/-- `insert` (any limit function, any limit, any subtree with ascending keys): no panic; the new key
list is the list insertion (`rep = false`: an equivalent stored key is kept, `rep = true`: it is
replaced by `k`); the flag says whether `k`'s class was absent -/
theorem insert_spec [TransCmp cmp] (lim : Nat → Nat) (k : α) (rep : Bool) (t : Tree α) (limit : Int)
    (h : Asc cmp t.toList) :
    ∃ q, insert cmp lim k rep t limit = some q ∧
      q.1.toList = (ins cmp rep k t.toList).1 ∧ q.2.1 = (ins cmp rep k t.toList).2 ∧
      Asc cmp q.1.toList := by
  obtain ⟨q, hq, h1, h2, _⟩ := insert_ok (cmp := cmp) lim k rep t limit h
  exact ⟨q, hq, h1, h2, by rw [h1]; exact ins_asc rep k h⟩

/-- `node.remove` with `popMinRight` is the list deletion; the flag says whether the class was present -/
theorem remove_spec [TransCmp cmp] (k : α) (t : Tree α) (h : Asc cmp t.toList) :
    (remove cmp k t).1.toList = (SortedSet.remove cmp k t.toList).1 ∧
    (remove cmp k t).2 = (SortedSet.remove cmp k t.toList).2 ∧
    Asc cmp (remove cmp k t).1.toList := by
  obtain ⟨h1, h2⟩ := remove_ok (cmp := cmp) k t h
  exact ⟨h1, h2, by rw [h1]; exact remove_asc k h⟩

/-- `Add` on a well-formed tree -/
theorem add_spec [TransCmp cmp] (t : T α) (k : α) (h : WF cmp t) :
    ∃ t', t.add cmp k = some (t', (SortedSet.add cmp k t.root.toList).2) ∧
      t'.root.toList = (SortedSet.add cmp k t.root.toList).1 ∧ WF cmp t' ∧ t'.β = t.β :=
  insertTop_ok t k false h

/-- `Replace` on a well-formed tree -/
theorem replace_spec [TransCmp cmp] (t : T α) (k : α) (h : WF cmp t) :
    ∃ t', t.replace cmp k = some (t', (SortedSet.replace cmp k t.root.toList).2) ∧
      t'.root.toList = (SortedSet.replace cmp k t.root.toList).1 ∧ WF cmp t' ∧ t'.β = t.β :=
  insertTop_ok t k true h

/-- `Remove` on a well-formed tree, including the delete-side whole rebuild -/
theorem remove_top_spec [TransCmp cmp] (t : T α) (k : α) (h : WF cmp t) :
    ∃ t', t.remove cmp k = some (t', (SortedSet.remove cmp k t.root.toList).2) ∧
      t'.root.toList = (SortedSet.remove cmp k t.root.toList).1 ∧ WF cmp t' ∧ t'.β = t.β :=
  remove_top_ok t k h

/-- `New`: for any sort+compact meeting its specification the tree holds exactly the sorted,
compacted keys: strictly ascending, drawn from `keys`, one representative of every class -/
theorem new_spec {srt : List α → List α} (hs : SortCompact cmp srt) {β : Int} {keys : List α} {t : T α}
    (h : T.new srt β keys = some t) :
    WF cmp t ∧ Asc cmp t.root.toList ∧ (∀ x ∈ t.root.toList, x ∈ keys) ∧
      (∀ k ∈ keys, ∃ x ∈ t.root.toList, cmp k x = .eq) ∧ (0 ≤ β ∧ β ≤ 1000) := by
  obtain ⟨hw, hl, _⟩ := new_ok hs h
  refine ⟨hw, hw.1, ?_, ?_, ?_⟩
  · rw [hl]; cases keys with
    | nil => simp [SortedSet.newKeys]
    | cons k ks => exact hs.sub _
  · rw [hl]; cases keys with
    | nil => simp [SortedSet.newKeys]
    | cons k ks => exact hs.cover _
  · unfold T.new at h
    by_cases hb : Stree.betaOutOfRange β = true
    · simp [hb] at h
    · simp [Stree.betaOutOfRange, Stree.maxBalance] at hb; omega

/-- `New` panics exactly for β outside [0, 1000] -/
theorem new_panics (srt : List α → List α) (β : Int) (keys : List α) :
    T.new srt β keys = none ↔ (β < 0 ∨ β > 1000) := by
  unfold T.new
  by_cases hb : Stree.betaOutOfRange β = true
  · simp only [hb, if_true, true_iff]
    simp [Stree.betaOutOfRange, Stree.maxBalance] at hb; omega
  · simp only [hb]
    have : ¬ (β < 0 ∨ β > 1000) := by simp [Stree.betaOutOfRange, Stree.maxBalance] at hb; omega
    cases keys <;> simp [this]

theorem get_spec [TransCmp cmp] (t : T α) (k : α) (h : WF cmp t) :
    t.get cmp k = SortedSet.get cmp k t.root.toList := getC_ok k t.root h.1

theorem min_spec (t : T α) : t.min = SortedSet.min t.root.toList := minKey_ok t.root
theorem max_spec (t : T α) : t.max' = SortedSet.max t.root.toList := maxKey_ok t.root

/-- `Inorder` hands any consumer the keys in order and stops exactly when told to; a consumer
that stops once it holds `j` keys has received the first `max j 1` keys -/
theorem inorder_spec (t : T α) :
    (∀ {σ : Type} (f : Yield σ α) (s : σ), inorderF f t.root s = visit f t.root.toList s) ∧
    (∀ stop, t.inorder stop = SortedSet.stopped stop t.root.toList) := by
  refine ⟨fun f s => inorderF_eq f t.root s, fun stop => ?_⟩
  simp only [T.inorder, inorderF_eq, collect_stopped]

/-- `InorderAfter(k)` likewise, over the keys not less than `k` -/
theorem inorderAfter_spec [TransCmp cmp] (t : T α) (k : α) (h : WF cmp t) :
    (∀ {σ : Type} (f : Yield σ α) (s : σ),
      inorderAfterF cmp f k t.root s = visit f (SortedSet.after cmp k t.root.toList) s) ∧
    (∀ stop, t.inorderAfter cmp k stop = SortedSet.stopped stop (SortedSet.after cmp k t.root.toList)) := by
  refine ⟨fun f s => inorderAfterF_eq f k t.root s h.1, fun stop => ?_⟩
  simp only [T.inorderAfter, inorderAfterF_eq _ _ _ _ h.1, collect_stopped]

/-- iteration is strictly ascending -/
theorem iteration_ascending [TransCmp cmp] (t : T α) (k : α) (stop : Option Nat) (h : WF cmp t) :
    Asc cmp (t.inorder stop) ∧ Asc cmp (t.inorderAfter cmp k stop) := by
  rw [(inorder_spec t).2, (inorderAfter_spec t k h).2]
  have hsub : ∀ l : List α, (SortedSet.stopped stop l).Sublist l := by
    intro l; cases stop <;> simp [SortedSet.stopped, List.take_sublist]
  exact ⟨List.Pairwise.sublist (hsub _) h.1,
    List.Pairwise.sublist ((hsub _).trans List.filter_sublist) h.1⟩

/-! ## histories -/

/-- a tree object and the reference set it stands for -/
def RelT (cmp : α → α → Ordering) (t : T α) (s : SortedSet.S α) : Prop :=
  WF cmp t ∧ t.root.toList = s.keys ∧ t.β = s.β

/-- register files agree: the same registers hold trees, related pointwise -/
def Rel (cmp : α → α → Ordering) (m : Regs (T α)) (sp : Regs (SortedSet.S α)) : Prop :=
  ∀ r, (∃ t s, m.get r = some t ∧ sp.get r = some s ∧ RelT cmp t s) ∨ (m.get r = none ∧ sp.get r = none)

theorem rel_set {m : Regs (T α)} {sp : Regs (SortedSet.S α)} (h : Rel cmp m sp) (r : Nat)
    {t : T α} {s : SortedSet.S α} (hts : RelT cmp t s) : Rel cmp (m.set r t) (sp.set r s) := by
  intro r'
  rw [regs_get_set, regs_get_set]
  by_cases e : r' = r
  · simp only [e, if_true]; exact Or.inl ⟨t, s, rfl, rfl, hts⟩
  · simp only [e, if_false]; exact h r'

theorem betaOut_iff (β : Int) : Stree.betaOutOfRange β = true ↔ (β < 0 ∨ β > 1000) := by
  simp [Stree.betaOutOfRange, Stree.maxBalance]

/-- one-step refinement: same output, related register files afterwards -/
theorem step_refines [TransCmp cmp] {srt : List α → List α} (hs : SortCompact cmp srt)
    (m : Regs (T α)) (sp : Regs (SortedSet.S α)) (op : Op α) (h : Rel cmp m sp) :
    (step cmp srt m op).2 = (SortedSet.step cmp srt sp op).2 ∧
    Rel cmp (step cmp srt m op).1 (SortedSet.step cmp srt sp op).1 := by
  cases op with
  | new r β keys =>
    by_cases hb : β < 0 ∨ β > 1000
    · have hn : T.new srt β keys = none := (new_panics srt β keys).mpr hb
      simp only [step, hn, SortedSet.step, hb, if_true]
      exact ⟨by first | trivial | rfl, h⟩
    · cases hn : T.new srt β keys with
      | none => exact absurd ((new_panics srt β keys).mp hn) hb
      | some t =>
        obtain ⟨hw, hl, hβ⟩ := new_ok hs hn
        simp only [step, hn, SortedSet.step, hb, if_false]
        exact ⟨by first | trivial | rfl, rel_set h r ⟨hw, hl, hβ⟩⟩
  | clone dst src =>
    rcases h src with ⟨t, s, hm, hsp, hr⟩ | ⟨hm, hsp⟩
    · simp only [step, hm, SortedSet.step, hsp]
      refine ⟨by first | trivial | rfl, rel_set h dst ?_⟩
      simp only [T.clone, clone_eq]; exact hr
    · simp only [step, hm, SortedSet.step, hsp]; exact ⟨by first | trivial | rfl, h⟩
  | add r k =>
    rcases h r with ⟨t, s, hm, hsp, hw, hl, hβ⟩ | ⟨hm, hsp⟩
    · obtain ⟨t', h1, h2, h3, h4⟩ := insertTop_ok (cmp := cmp) t k false hw
      simp only [step, hm, SortedSet.step, hsp, T.add, h1, SortedSet.add, ← hl]
      exact ⟨by first | trivial | rfl, rel_set h r ⟨h3, by simp [SortedSet.S.put, h2], by simp [SortedSet.S.put, h4, hβ]⟩⟩
    · simp only [step, hm, SortedSet.step, hsp]; exact ⟨by first | trivial | rfl, h⟩
  | replace r k =>
    rcases h r with ⟨t, s, hm, hsp, hw, hl, hβ⟩ | ⟨hm, hsp⟩
    · obtain ⟨t', h1, h2, h3, h4⟩ := insertTop_ok (cmp := cmp) t k true hw
      simp only [step, hm, SortedSet.step, hsp, T.replace, h1, SortedSet.replace, ← hl]
      exact ⟨by first | trivial | rfl, rel_set h r ⟨h3, by simp [SortedSet.S.put, h2], by simp [SortedSet.S.put, h4, hβ]⟩⟩
    · simp only [step, hm, SortedSet.step, hsp]; exact ⟨by first | trivial | rfl, h⟩
  | remove r k =>
    rcases h r with ⟨t, s, hm, hsp, hw, hl, hβ⟩ | ⟨hm, hsp⟩
    · obtain ⟨t', h1, h2, h3, h4⟩ := remove_top_ok (cmp := cmp) t k hw
      simp only [step, hm, SortedSet.step, hsp, h1, ← hl]
      exact ⟨by first | trivial | rfl, rel_set h r ⟨h3, by simp [SortedSet.S.put, h2], by simp [SortedSet.S.put, h4, hβ]⟩⟩
    · simp only [step, hm, SortedSet.step, hsp]; exact ⟨by first | trivial | rfl, h⟩
  | clear r =>
    rcases h r with ⟨t, s, hm, hsp, hw, hl, hβ⟩ | ⟨hm, hsp⟩
    · simp only [step, hm, SortedSet.step, hsp]
      refine ⟨by first | trivial | rfl, rel_set h r ⟨⟨?_, rfl⟩, ?_, ?_⟩⟩
      · simp [T.clear, Tree.toList, Asc]
      · simp [T.clear, Tree.toList, SortedSet.S.put]
      · simp [T.clear, SortedSet.S.put, hβ]
    · simp only [step, hm, SortedSet.step, hsp]; exact ⟨by first | trivial | rfl, h⟩
  | len r =>
    rcases h r with ⟨t, s, hm, hsp, hw, hl, hβ⟩ | ⟨hm, hsp⟩
    · simp only [step, hm, SortedSet.step, hsp, T.len, hw.2, size_eq_length, hl]; exact ⟨by first | trivial | rfl, h⟩
    · simp only [step, hm, SortedSet.step, hsp]; exact ⟨by first | trivial | rfl, h⟩
  | isEmpty r =>
    rcases h r with ⟨t, s, hm, hsp, hw, hl, hβ⟩ | ⟨hm, hsp⟩
    · simp only [step, hm, SortedSet.step, hsp, T.isEmpty, hw.2, size_eq_length, hl]
      refine ⟨?_, h⟩
      cases s.keys <;> simp
    · simp only [step, hm, SortedSet.step, hsp]; exact ⟨by first | trivial | rfl, h⟩
  | get r k =>
    rcases h r with ⟨t, s, hm, hsp, hw, hl, hβ⟩ | ⟨hm, hsp⟩
    · simp only [step, hm, SortedSet.step, hsp, get_spec t k hw, hl]; exact ⟨by first | trivial | rfl, h⟩
    · simp only [step, hm, SortedSet.step, hsp]; exact ⟨by first | trivial | rfl, h⟩
  | min r =>
    rcases h r with ⟨t, s, hm, hsp, hw, hl, hβ⟩ | ⟨hm, hsp⟩
    · simp only [step, hm, SortedSet.step, hsp, min_spec, hl]; exact ⟨by first | trivial | rfl, h⟩
    · simp only [step, hm, SortedSet.step, hsp]; exact ⟨by first | trivial | rfl, h⟩
  | max r =>
    rcases h r with ⟨t, s, hm, hsp, hw, hl, hβ⟩ | ⟨hm, hsp⟩
    · simp only [step, hm, SortedSet.step, hsp, max_spec, hl]; exact ⟨by first | trivial | rfl, h⟩
    · simp only [step, hm, SortedSet.step, hsp]; exact ⟨by first | trivial | rfl, h⟩
  | inorder r stop =>
    rcases h r with ⟨t, s, hm, hsp, hw, hl, hβ⟩ | ⟨hm, hsp⟩
    · simp only [step, hm, SortedSet.step, hsp, (inorder_spec t).2, hl]; exact ⟨by first | trivial | rfl, h⟩
    · simp only [step, hm, SortedSet.step, hsp]; exact ⟨by first | trivial | rfl, h⟩
  | inorderAfter r k stop =>
    rcases h r with ⟨t, s, hm, hsp, hw, hl, hβ⟩ | ⟨hm, hsp⟩
    · simp only [step, hm, SortedSet.step, hsp, (inorderAfter_spec t k hw).2, hl]; exact ⟨by first | trivial | rfl, h⟩
    · simp only [step, hm, SortedSet.step, hsp]; exact ⟨by first | trivial | rfl, h⟩

theorem run_refines [TransCmp cmp] {srt : List α → List α} (hs : SortCompact cmp srt)
    (m : Regs (T α)) (sp : Regs (SortedSet.S α)) (ops : List (Op α)) (h : Rel cmp m sp) :
    run cmp srt m ops = SortedSet.run cmp srt sp ops := by
  induction ops generalizing m sp with
  | nil => rfl
  | cons op ops ih =>
    obtain ⟨h1, h2⟩ := step_refines hs m sp op h
    simp only [run, SortedSet.run, h1, ih _ _ h2]

/-- **C01**: for every comparator that is a total preorder, every sort+compact meeting its
specification, and every history of `New(β, keys…)`/`Add`/`Replace`/`Remove`/`Clear`/`Clone`
interleaved with `Len`/`IsEmpty`/`Get`/`Min`/`Max`/`Inorder`/`InorderAfter` (each stoppable
anywhere) on any number of trees, the model of stree.go returns exactly what the reference
sorted sets return — in particular no operation panics except `New` with β outside [0,1000],
and clones and originals evolve independently. -/
theorem C01_history [TransCmp cmp] {srt : List α → List α} (hs : SortCompact cmp srt)
    (ops : List (Op α)) :
    run cmp srt [] ops = SortedSet.run cmp srt [] ops :=
  run_refines hs [] [] ops (fun _ => Or.inr ⟨rfl, rfl⟩)

/-! ## the concrete sort + compact of the driver meets the specification -/

theorem compactFrom_spec [TransCmp cmp] : ∀ (l : List α) (x : α),
    (x :: l).Pairwise (fun a b => (cmp a b != .gt) = true) →
    Asc cmp (compactFrom cmp x l) ∧ (∀ z ∈ compactFrom cmp x l, z ∈ x :: l) ∧
    (∀ z ∈ compactFrom cmp x l, (cmp x z != .gt) = true) ∧
    (∀ k ∈ x :: l, ∃ z ∈ compactFrom cmp x l, cmp k z = .eq) := by
  intro l
  induction l with
  | nil =>
    intro x _
    simp [compactFrom, Asc, Std.ReflCmp.compare_self (cmp := cmp)]
  | cons y rest ih =>
    intro x hp
    have hxy : (cmp x y != .gt) = true := (List.pairwise_cons.mp hp).1 y (by simp)
    have hxr : ∀ z ∈ rest, (cmp x z != .gt) = true := fun z hz => (List.pairwise_cons.mp hp).1 z (by simp [hz])
    have hyr : (y :: rest).Pairwise (fun a b => (cmp a b != .gt) = true) := (List.pairwise_cons.mp hp).2
    by_cases he : cmp x y = .eq
    · have hp' : (x :: rest).Pairwise (fun a b => (cmp a b != .gt) = true) :=
        List.pairwise_cons.mpr ⟨hxr, (List.pairwise_cons.mp hyr).2⟩
      obtain ⟨h1, h2, h3, h4⟩ := ih x hp'
      simp only [compactFrom, he, beq_self_eq_true, if_true]
      refine ⟨h1, fun z hz => ?_, h3, fun k hk => ?_⟩
      · rcases List.mem_cons.mp (h2 z hz) with rfl | h
        · simp
        · simp [h]
      · rcases List.mem_cons.mp hk with rfl | hk
        · exact h4 k (by simp)
        · rcases List.mem_cons.mp hk with rfl | hk
          · obtain ⟨z, hz, hxz⟩ := h4 x (by simp)
            exact ⟨z, hz, TransCmp.eq_trans (OrientedCmp.eq_symm he) hxz⟩
          · exact h4 k (by simp [hk])
    · have hlt : cmp x y = .lt := by
        cases hc : cmp x y with
        | lt => rfl
        | eq => exact absurd hc he
        | gt => rw [hc] at hxy; simp at hxy
      obtain ⟨h1, h2, h3, h4⟩ := ih y hyr
      have hne : (cmp x y == .eq) = false := by rw [hlt]; decide
      simp only [compactFrom, hne, Bool.false_eq_true, if_false]
      refine ⟨List.pairwise_cons.mpr ⟨fun z hz => ?_, h1⟩, fun z hz => ?_, fun z hz => ?_, fun k hk => ?_⟩
      · have hyz : (cmp y z).isLE := by
          have := h3 z hz
          cases hc : cmp y z <;> simp [hc] at this ⊢
        exact TransCmp.lt_of_lt_of_isLE hlt hyz
      · rcases List.mem_cons.mp hz with rfl | hz
        · simp
        · exact List.mem_cons_of_mem _ (h2 z hz)
      · rcases List.mem_cons.mp hz with rfl | hz
        · rw [Std.ReflCmp.compare_self (cmp := cmp)]; decide
        · have hyz : (cmp y z).isLE := by
            have := h3 z hz
            cases hc : cmp y z <;> simp [hc] at this ⊢
          rw [TransCmp.lt_of_lt_of_isLE hlt hyz]; decide
      · rcases List.mem_cons.mp hk with rfl | hk
        · exact ⟨k, by simp, Std.ReflCmp.compare_self (cmp := cmp)⟩
        · obtain ⟨z, hz, hkz⟩ := h4 k hk
          exact ⟨z, List.mem_cons_of_mem _ hz, hkz⟩

/-- stable merge sort followed by keeping the first key of every run of equivalent keys meets
the specification of `slices.SortFunc` + `slices.CompactFunc` -/
theorem sortCompact_spec [TransCmp cmp] : SortCompact cmp (sortCompact cmp) := by
  have hsorted : ∀ ks : List α, (ks.mergeSort fun a b => cmp a b != .gt).Pairwise
      (fun a b => (cmp a b != .gt) = true) := by
    intro ks
    apply List.pairwise_mergeSort
    · intro a b c hab hbc
      have h1 : (cmp a b).isLE := by cases hc : cmp a b <;> simp [hc] at hab ⊢
      have h2 : (cmp b c).isLE := by cases hc : cmp b c <;> simp [hc] at hbc ⊢
      have := TransCmp.isLE_trans h1 h2
      cases hc : cmp a c <;> simp [hc] at this ⊢
    · intro a b
      cases hc : cmp a b with
      | lt => simp
      | eq => simp
      | gt => have : cmp b a = .lt := OrientedCmp.gt_iff_lt.mp hc
              simp [this]
  refine ⟨fun ks => ?_, fun ks x hx => ?_, fun ks k hk => ?_⟩
  all_goals
    simp only [sortCompact, compact] at *
    have hp := hsorted ks
    cases hm : (ks.mergeSort fun a b => cmp a b != .gt) with
    | nil =>
      first
      | (simp [Asc]; done)
      | (rw [hm] at hx; simp [compact] at hx)
      | (have : k ∈ (ks.mergeSort fun a b => cmp a b != .gt) := List.mem_mergeSort.mpr hk
         rw [hm] at this; simp at this)
    | cons y rest =>
      rw [hm] at hp
      obtain ⟨h1, h2, _, h4⟩ := compactFrom_spec rest y hp
      first
      | exact h1
      | (rw [hm] at hx
         have := h2 x hx
         rw [← hm] at this
         exact List.mem_mergeSort.mp this)
      | (have : k ∈ (ks.mergeSort fun a b => cmp a b != .gt) := List.mem_mergeSort.mpr hk
         rw [hm] at this
         exact h4 k this)

/-- **C01** for the sort+compact the driver executes -/
theorem C01_history_driver [TransCmp cmp] (ops : List (Op α)) :
    run cmp (sortCompact cmp) [] ops = SortedSet.run cmp (sortCompact cmp) [] ops :=
  C01_history sortCompact_spec ops

/-! ## `Len` after `New` from pairwise inequivalent keys -/

/-- a list of pairwise inequivalent keys each of which has an equivalent in `l₂` is no longer than `l₂` -/
theorem length_le_of_cover [TransCmp cmp] : ∀ (l₁ l₂ : List α),
    l₁.Pairwise (fun a b => cmp a b ≠ .eq) → (∀ k ∈ l₁, ∃ z ∈ l₂, cmp k z = .eq) → l₁.length ≤ l₂.length := by
  intro l₁
  induction l₁ with
  | nil => intro l₂ _ _; simp
  | cons k ks ih =>
    intro l₂ hp hc
    obtain ⟨z, hz, hkz⟩ := hc k (by simp)
    obtain ⟨a, b, e⟩ := List.append_of_mem hz
    have hp' := List.pairwise_cons.mp hp
    have := ih (a ++ b) hp'.2 (fun k' hk' => by
      obtain ⟨z', hz', hkz'⟩ := hc k' (by simp [hk'])
      refine ⟨z', ?_, hkz'⟩
      rw [e] at hz'
      simp only [List.mem_append, List.mem_cons] at hz' ⊢
      rcases hz' with h | h | h
      · exact Or.inl h
      · subst h
        exact absurd (TransCmp.eq_trans hkz (OrientedCmp.eq_symm hkz')) (hp'.1 k' hk')
      · exact Or.inr h)
    rw [e]; simp only [List.length_append, List.length_cons] at this ⊢; omega

/-- **`New` stores every key when no two are equivalent**: for pairwise `cmp`-inequivalent `keys`
(in particular distinct keys under an order in which only identical keys are equivalent),
`New(β, cmp, keys…).Len() = len(keys)` -/
theorem C01_new_len [TransCmp cmp] {srt : List α → List α} (hs : SortCompact cmp srt) {β : Int} {keys : List α}
    {t : T α} (h : T.new srt β keys = some t) (hk : keys.Pairwise (fun a b => cmp a b ≠ .eq)) :
    t.len = keys.length := by
  obtain ⟨hw, hl, _⟩ := new_ok hs h
  show t.size = _
  rw [hw.2, size_eq_length, hl]
  cases keys with
  | nil => rfl
  | cons k ks =>
    show (srt (k :: ks)).length = _
    apply Nat.le_antisymm
    · apply length_le_of_cover (cmp := cmp)
      · exact (hs.asc (k :: ks)).imp (fun h e => by rw [h] at e; cases e)
      · exact fun x hx => ⟨x, hs.sub _ x hx, Std.ReflCmp.compare_self (cmp := cmp)⟩
    · exact length_le_of_cover (cmp := cmp) _ _ hk (hs.cover (k :: ks))

/-! ## the comparators the drivers run are total preorders

Streams `C01`/`C02` run `Model.Stree.step` with `Drv.C01.S.cmp`: the natural order on `int` or the
order by `a / 10` (Go's truncated division: equivalent, distinct keys).  Both satisfy `Std.TransCmp`,
so `C01_history` (and `C02_depth`) apply to exactly the comparator and sort the driver executes. -/

/-- a comparator pulled back along any function is a total preorder -/
theorem transCmp_on {β : Type} (c : β → β → Ordering) [TransCmp c] (f : α → β) :
    TransCmp (fun a b => c (f a) (f b)) where
  eq_swap := OrientedCmp.eq_swap (cmp := c)
  isLE_trans := TransCmp.isLE_trans (cmp := c)

instance cmpNat_trans : TransCmp MdsVerif.Drv.C01.cmpNat :=
  inferInstanceAs (TransCmp (fun a b : Int => compare a b))
instance cmpDiv10_trans : TransCmp MdsVerif.Drv.C01.cmpDiv10 :=
  transCmp_on (compare : Int → Int → Ordering) (fun a : Int => a.tdiv 10)
instance drvCmp_trans (s : MdsVerif.Drv.C01.S) : TransCmp s.cmp := by
  unfold MdsVerif.Drv.C01.S.cmp; split <;> infer_instance

/-- **C01 for what the driver executes**: whatever the state of the driver stream (either comparator
mode), the model run with the driver's comparator and the driver's sort+compact agrees with the
reference on every history -/
theorem C01_history_drv (s : MdsVerif.Drv.C01.S) (ops : List (Op Int)) :
    run s.cmp (sortCompact s.cmp) [] ops = SortedSet.run s.cmp (sortCompact s.cmp) [] ops :=
  C01_history_driver ops

/-- non-vacuity: `cmpDiv10` has equivalent distinct keys (12 ~ 17, also across zero: -3 ~ 7 under Go's
truncated division); `New` from the pairwise inequivalent keys 30, 12, 50 has `Len` 3 -/
example : MdsVerif.Drv.C01.cmpDiv10 12 17 = .eq ∧ MdsVerif.Drv.C01.cmpDiv10 (-3) 7 = .eq ∧
    MdsVerif.Drv.C01.cmpDiv10 12 30 = .lt := by decide
example (t : T Int) (h : T.new (sortCompact MdsVerif.Drv.C01.cmpDiv10) 0 [30, 12, 50] = some t) : t.len = 3 :=
  C01_new_len sortCompact_spec h (by decide)

/-! ## non-vacuity

A concrete history over ℕ ordered by `a/10` (so 12, 17 are equivalent and distinct), β = 0:
bulk `New`, ascending `Add`s that force goat rebuilds, an `Add` and a `Replace` of an equivalent
key (the stored representative is visible through `Get`), a two-child `Remove`, a `Clone` that
then diverges from its original, a stopped iteration. -/

def exCmp (a b : Nat) : Ordering := compare (a / 10) (b / 10)

def exOps : List (Op Nat) :=
  [.new 0 0 [12, 30, 50], .add 0 60, .add 0 70, .add 0 80, .add 0 90, .add 0 17, .get 0 10,
   .replace 0 17, .get 0 10, .clone 1 0, .remove 0 50, .remove 1 12, .inorder 0 none, .inorder 1 none,
   .inorderAfter 0 35 (some 2), .min 1, .max 0, .len 0, .new 2 1001 []]

example : run exCmp id [] exOps =
    [.unit, .bool true, .bool true, .bool true, .bool true, .bool false, .opt (some 12),
     .bool false, .opt (some 17), .unit, .bool true, .bool true, .list [17, 30, 60, 70, 80, 90],
     .list [30, 50, 60, 70, 80, 90], .list [30, 60], .opt (some 30), .opt (some 90), .nat 6, .panic] := by
  decide

example : SortedSet.run exCmp id [] exOps = run exCmp id [] exOps := by decide

/-- the history above really rebuilds: after the ascending `Add`s the tree is not the right spine
that plain BST insertion would build -/
example : ((step exCmp id [] (.new 0 0 [10, 20])).1.get 0).bind (fun t =>
    (t.add exCmp 30).bind fun p => (p.1.add exCmp 40).map fun q => q.1.root.height) = some 3 := by decide

end MdsVerif.Props.C01
