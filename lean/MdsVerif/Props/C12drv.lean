import MdsVerif.Props.C12
import MdsVerif.Drv.C12
/-!
# C12 — the comparisons the driver runs are admissible (`CmpOK`)

Stream `C12.lis` runs `Model.Lis.lisCore strict (Drv.C12.cmpOf mode)`.  `cmpOf` maps the mode
string to: the natural order `cmpInt` (default, any unknown mode), its reverse (`rev`), the order
by `⌊a/2⌋` (`half`: equivalent distinct values) and its reverse (`revhalf`), and two comparisons
whose results are not confined to `{-1, 0, 1}`: `a - b` (`diff`) and `2·(b - a)` (`rdiff2`).
`cmpOf_ok`: every one of them satisfies `CmpOK` (sign-antisymmetric, `≤` transitive), so
`lis_spec`/`lnds_spec` apply to exactly what the driver executes, whatever the mode string:
`lis_spec_drv`, `lnds_spec_drv`.
-/
namespace MdsVerif.Props.C12
open List MdsVerif.Model.Lis MdsVerif.Proofs.Lis

/-- an admissible comparison pulled back along any function is admissible -/
theorem on_ok {α β : Type} {cmp : β → β → Int} (ok : CmpOK cmp) (f : α → β) :
    CmpOK (fun a b => cmp (f a) (f b)) :=
  ⟨fun a b => ok.anti (f a) (f b), fun a b c => ok.trans (f a) (f b) (f c)⟩

/-- `a - b` is an admissible comparison of integers (values outside `{-1,0,1}`) -/
theorem diff_ok : CmpOK (fun a b : Int => a - b) :=
  ⟨fun a b => by omega, fun a b c h1 h2 => by omega⟩

/-- `2·(b - a)`: reversed, doubled -/
theorem rdiff2_ok : CmpOK (fun a b : Int => 2 * (b - a)) :=
  ⟨fun a b => by omega, fun a b c h1 h2 => by omega⟩

/-- **every comparison of the driver is admissible**, for every mode string -/
theorem cmpOf_ok (mode : String) : CmpOK (MdsVerif.Drv.C12.cmpOf mode) := by
  unfold MdsVerif.Drv.C12.cmpOf
  split
  · exact reversed_ok cmpInt_ok
  split
  · exact on_ok cmpInt_ok (fun a : Int => a / 2)
  split
  · exact reversed_ok (on_ok cmpInt_ok (fun a : Int => a / 2))
  split
  · exact diff_ok
  split
  · exact rdiff2_ok
  · exact cmpInt_ok

/-- **LIS for what the driver executes**: for every mode string and every input, `LISFunc` with the
driver's comparison returns a strictly increasing subsequence of maximal length -/
theorem lis_spec_drv (mode : String) (vs : List Int) :
    ∃ r, lisFunc (MdsVerif.Drv.C12.cmpOf mode) vs = some r ∧ r <+ vs ∧
      r.Pairwise (fun a b => MdsVerif.Drv.C12.cmpOf mode a b < 0) ∧
      ∀ s, s <+ vs → s.Pairwise (fun a b => MdsVerif.Drv.C12.cmpOf mode a b < 0) → s.length ≤ r.length :=
  lis_spec (cmpOf_ok mode) vs

/-- **LNDS for what the driver executes** -/
theorem lnds_spec_drv (mode : String) (vs : List Int) :
    ∃ r, lndsFunc (MdsVerif.Drv.C12.cmpOf mode) vs = some r ∧ r <+ vs ∧
      r.Pairwise (fun a b => MdsVerif.Drv.C12.cmpOf mode a b ≤ 0) ∧
      ∀ s, s <+ vs → s.Pairwise (fun a b => MdsVerif.Drv.C12.cmpOf mode a b ≤ 0) → s.length ≤ r.length :=
  lnds_spec (cmpOf_ok mode) vs

/-- non-vacuity: the modes really select different comparisons, two of them with values outside `{-1,0,1}` -/
example : MdsVerif.Drv.C12.cmpOf "diff" 7 2 = 5 ∧ MdsVerif.Drv.C12.cmpOf "rdiff2" 7 2 = -10 ∧
    MdsVerif.Drv.C12.cmpOf "half" 4 5 = 0 ∧ MdsVerif.Drv.C12.cmpOf "revhalf" 2 5 = 1 ∧
    MdsVerif.Drv.C12.cmpOf "rev" 1 2 = 1 ∧ MdsVerif.Drv.C12.cmpOf "" 1 2 = -1 := by decide
example : lisFunc (MdsVerif.Drv.C12.cmpOf "rdiff2") [3, 1, 4, 1, 5, 9, 2, 6, 5, 3, 5] = some [9, 6, 5, 3] := by decide

end MdsVerif.Props.C12
