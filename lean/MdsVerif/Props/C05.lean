import MdsVerif.GenFact
import MdsVerif.Proofs.Heapq
import MdsVerif.Drv.C05
/-!
# C05 — `heapq.Queue` yields a minimum element; contents are conserved

The pinned code carries two recorded defects (DESIGN.md §5): F1 `pushUp` computes the parent as
`i / 2` although children are at `2i+1`, `2i+2`; F2 `pop(i)` only sifts down.  The ordering claim
of C05 is therefore **false** for histories with `Add` into deeper levels or interior `Remove`
(`C05_F1_witness`, `C05_F2_witness`, by `decide` on the model the driver executes).  What is
proved, for all histories and without bounds:

* `C05_conservation` (+ the per-operation theorems `C05_*_conserves`): for every configuration with
  `parent i < i` (i > 0), `left i > i` (`CfgOK`) and every comparison function, the
  multiset of held elements is exactly what was put in minus what was taken out, and `Remove(i)` /
  `Pop` return what `Peek(i)` / `Peek(0)` showed.
* `C05_establish`, `C05_pop_preserves`, `heap_root_min`, `C05_partial_order`: for the standard
  child layout (`CfgStd`; `parent` arbitrary) and a total preorder, `NewWithData`, `Set`, `Reorder`
  establish heap order, `Pop`/`Remove 0`/`Clear` preserve it, so on every history without `Add`
  and interior `Remove` `Front`/`Pop` return a minimal held element and draining is non-decreasing.
* `C05_partial_order_wide`: the same conclusions on the wider, state-dependent fragment `allowedRun`:
  additionally `Remove i` of the **last** slot or out of range (`i + 1 ≥ len`: no sift), `Remove i` with
  `i ≤ 2` (the moved element's new parent is the root: F2 needs an interior offset `≥ 3`) and `Add v` of an
  element not smaller than any held one (monotone insertion: `pushUp` never swaps, F1 is not reached).
* `sort_correct`: `heapq.Sort` leaves a sorted permutation (it only uses `NewWithData` + `Pop`).
* `C05_full`: for the *repaired* configuration (`parent i = (i-1)/2`, sift-up in `pop`) the ordering
  claim holds on every history — F1 and F2 are the only obstacles.
* `C05_current`: the configuration regenerated from heapq.go (`Gen.Heapq`) **is** the pinned one;
  the corollaries `*_current` instantiate the theorems at `Drv.C05.cfg`, which the driver runs.
* `C05_verdict`: the disjunctive obligation of DESIGN.md §5 — `(IsRepaired cfg ∧ Full cfg) ∨ (IsPinned cfg ∧
  Partial cfg ∧ Witnessed cfg)` at the regenerated configuration, proved today by the right-hand disjunct;
  its doc comment says how the proof term is switched when heapq.go is repaired.
-/
namespace MdsVerif.Props.C05
open MdsVerif.Model.Heapq MdsVerif.Proofs.Heapq
open List (Perm)

variable {α : Type} [Inhabited α]

/-! ## 1. conservation (every `CfgOK` configuration, every comparison) -/
section Conservation
variable {cfg : Cfg} (hc : CfgOK cfg) (lt : α → α → Bool)
include hc

theorem C05_add_conserves (s : S α) (v : α) :
    (step cfg lt s (.add v)).1.h.data.Perm (v :: s.h.data) :=
  add_perm hc _ s.h v

/-- `Remove(i)`: out of range → `(zero, false)` and nothing changes; otherwise it returns the
element `Peek(i)` showed, and that element plus what is left is what was there -/
theorem C05_remove_conserves (s : S α) (i : Nat) :
    match peek s.h i with
    | none => step cfg lt s (.remove i) = (s, .opt none)
    | some v => (step cfg lt s (.remove i)).2 = .opt (some v) ∧
        (v :: (step cfg lt s (.remove i)).1.h.data).Perm s.h.data := by
  by_cases hi : i < s.h.len
  · have hperm := pop_perm hc (s.lt lt) s.h i hi
    have hout := pop_out cfg (s.lt lt) s.h i
    rw [hout] at hperm
    rw [get_eq _ _ hi] at hout hperm
    have hpk : peek s.h i = some (s.h.data[i]'hi) := List.getElem?_eq_getElem hi
    rw [hpk]
    simp only [step, if_neg (Nat.not_le.mpr hi)]
    exact ⟨congrArg (fun v => Out.opt (some v)) hout, hperm⟩
  · have hpk : peek s.h i = none := by
      simp only [peek, List.getElem?_eq_none_iff]; exact Nat.not_lt.mp hi
    rw [hpk]
    simp only [step, if_pos (Nat.not_lt.mp hi)]

/-- `Pop` = `Remove(0)` -/
theorem C05_pop_conserves (s : S α) :
    match peek s.h 0 with
    | none => step cfg lt s .pop = (s, .opt none)
    | some v => (step cfg lt s .pop).2 = .opt (some v) ∧
        (v :: (step cfg lt s .pop).1.h.data).Perm s.h.data := by
  have e : step cfg lt s .pop = step cfg lt s (.remove 0) := by
    simp only [step]
    by_cases h0 : s.h.len = 0
    · simp [h0]
    · simp [h0]
  rw [e]; exact C05_remove_conserves hc lt s 0

theorem C05_set_conserves (s : S α) (vs : List α) : (step cfg lt s (.set vs)).1.h.data.Perm vs :=
  set_perm hc.left_gt _ s.h vs

theorem C05_reorder_conserves (s : S α) (rev : Bool) :
    (step cfg lt s (.reorder rev)).1.h.data.Perm s.h.data :=
  reorder_perm hc.left_gt _ _

theorem C05_newWithData_conserves (s : S α) (vs : List α) (rev : Bool) :
    (step cfg lt s (.newWithData vs rev)).1.h.data.Perm vs :=
  newWithData_perm hc.left_gt _ vs

omit hc in
theorem C05_clear_conserves (s : S α) : (step cfg lt s .clear).1.h.data = [] := rfl

omit hc in
/-- the observers change nothing and show the array as it is -/
theorem C05_observers (s : S α) (i : Nat) :
    step cfg lt s .front = (s, .val (s.h.data.getD 0 default)) ∧
    step cfg lt s (.peek i) = (s, .opt s.h.data[i]?) ∧
    step cfg lt s .len = (s, .nat s.h.data.length) := ⟨rfl, rfl, rfl⟩

/-! ### histories: the reference multiset -/
section
variable [DecidableEq α]

/-- the reference: a plain multiset (list up to `Perm`) of what was put in minus what came out -/
def refHeld (held : List α) : Op α → Out α → List α
  | .add v, _ => v :: held
  | .pop, .opt (some v) => held.erase v
  | .remove _, .opt (some v) => held.erase v
  | .set vs, _ => vs
  | .clear, _ => []
  | .newWithData vs _, _ => vs
  | _, _ => held

/-- run a history; model state and reference multiset side by side -/
def runHeld (cfg : Cfg) (lt : α → α → Bool) : S α → List α → List (Op α) → S α × List α
  | s, held, [] => (s, held)
  | s, held, op :: ops =>
    runHeld cfg lt (step cfg lt s op).1 (refHeld held op (step cfg lt s op).2) ops

theorem step_refHeld (s : S α) (held : List α) (op : Op α) (h0 : s.h.data.Perm held) :
    (step cfg lt s op).1.h.data.Perm (refHeld held op (step cfg lt s op).2) := by
  cases op with
  | add v => exact (C05_add_conserves hc lt s v).trans (h0.cons v)
  | pop =>
    have := C05_pop_conserves hc lt s
    split at this
    · rw [this]; exact h0
    · rename_i v _
      rw [this.1]
      simp only [refHeld]
      have h1 := (this.2.trans h0).erase v
      rwa [List.erase_cons_head] at h1
  | remove i =>
    have := C05_remove_conserves hc lt s i
    split at this
    · rw [this]; exact h0
    · rename_i v _
      rw [this.1]
      simp only [refHeld]
      have h1 := (this.2.trans h0).erase v
      rwa [List.erase_cons_head] at h1
  | set vs => exact C05_set_conserves hc lt s vs
  | reorder rev => exact (C05_reorder_conserves hc lt s rev).trans h0
  | clear => exact Perm.refl _
  | newWithData vs rev => exact C05_newWithData_conserves hc lt s vs rev
  | front => exact h0
  | peek i => exact h0
  | len => exact h0

/-- **C05 conservation**: after every history the held elements are, as a multiset, exactly what
was put in (`Add`, `Set`, construction over existing data) minus what was taken out (`Pop`,
`Remove`, `Clear`, replacement by `Set`) -/
theorem C05_conservation (ops : List (Op α)) (s : S α) (held : List α) (h0 : s.h.data.Perm held) :
    (runHeld cfg lt s held ops).1.h.data.Perm (runHeld cfg lt s held ops).2 := by
  induction ops generalizing s held with
  | nil => exact h0
  | cons op ops ih => exact ih _ _ (step_refHeld hc lt s held op h0)

end
end Conservation

/-! ## 2. heap order (standard child layout, total preorder) -/

/-- heap order w.r.t. children at `2i+1`, `2i+2`: no child is smaller than its parent -/
def HeapOK (lt : α → α → Bool) (data : List α) : Prop :=
  ∀ i, (∀ h : 2 * i + 1 < data.length, lt data[2 * i + 1] data[i] = false) ∧
       (∀ h : 2 * i + 2 < data.length, lt data[2 * i + 2] data[i] = false)

theorem heapOK_iff (lt : α → α → Bool) (h : H α) : HeapOK lt h.data ↔ HeapFrom lt h 0 := by
  constructor
  · intro hh k _ c hc hcl
    have hk : k < h.len := by omega
    rw [get_eq h c hcl, get_eq h k hk]
    rcases hc with rfl | rfl
    · exact (hh k).1 hcl
    · exact (hh k).2 hcl
  · intro hh i
    refine ⟨fun hl => ?_, fun hl => ?_⟩
    · have := hh i (Nat.zero_le _) _ (Or.inl rfl) hl
      rwa [get_eq h _ hl, get_eq h i (show i < h.len from by have : 2 * i + 1 < h.len := hl; omega)] at this
    · have := hh i (Nat.zero_le _) _ (Or.inr rfl) hl
      rwa [get_eq h _ hl, get_eq h i (show i < h.len from by have : 2 * i + 2 < h.len := hl; omega)] at this

theorem orderOK_dir {lt : α → α → Bool} (ho : OrderOK lt) (s : S α) : OrderOK (s.lt lt) := by
  unfold S.lt; split
  · exact ho.flip
  · exact ho

/-- **the root of a heap is minimal among all held elements** -/
theorem heap_root_min {lt : α → α → Bool} (ho : OrderOK lt) (data : List α) (hh : HeapOK lt data)
    (x : α) (hx : x ∈ data) : lt x (data.getD 0 default) = false :=
  Proofs.Heapq.heap_root_min_mem ho ⟨data, []⟩ ((heapOK_iff lt ⟨data, []⟩).mp hh) x hx

/-- operations of the defect-free fragment: everything except `Add` and interior `Remove` -/
def allowedOp : Op α → Bool
  | .add _ => false
  | .remove (_ + 1) => false
  | _ => true

/-- `NewWithData`, `Set`, `Reorder` (and `Clear`) **establish** heap order, whatever was there -/
theorem C05_establish {cfg : Cfg} (hl : CfgLayout cfg) {lt : α → α → Bool} (ho : OrderOK lt) (s : S α) :
    (∀ vs rev, let s' := (step cfg lt s (.newWithData vs rev)).1; HeapOK (s'.lt lt) s'.h.data) ∧
    (∀ vs, let s' := (step cfg lt s (.set vs)).1; HeapOK (s'.lt lt) s'.h.data) ∧
    (∀ rev, let s' := (step cfg lt s (.reorder rev)).1; HeapOK (s'.lt lt) s'.h.data) ∧
    (let s' := (step cfg lt s .clear).1; HeapOK (s'.lt lt) s'.h.data) := by
  refine ⟨fun vs rev => ?_, fun vs => ?_, fun rev => ?_, ?_⟩
  · let s' : S α := { h := { data := [], log := s.h.log }, rev := rev }
    show HeapOK (s'.lt lt) (newWithData cfg (s'.lt lt) vs).data
    rw [heapOK_iff]
    exact heapify_heap hl (orderOK_dir ho s') _ _ (hl.start_ge _)
  · show HeapOK (s.lt lt) (Model.Heapq.set cfg (s.lt lt) s.h vs).data
    rw [heapOK_iff]
    simp only [Model.Heapq.set]
    split
    · rename_i e; intro k _ c _ hcl; simp [H.len, e] at hcl
    · rename_i n e
      exact setLoop_heap hl (orderOK_dir ho s) _ n (by simp [H.len, e])
  · let s' : S α := { s with rev := rev }
    show HeapOK (s'.lt lt) (reorder cfg (s'.lt lt) s'.h).data
    rw [heapOK_iff]
    exact heapify_heap hl (orderOK_dir ho s') _ _ (hl.start_ge _)
  · show HeapOK _ ([] : List α)
    intro i; exact ⟨fun h => absurd h (by simp), fun h => absurd h (by simp)⟩

/-- what the drain lemmas need of `Pop`: it keeps heap order, and the popped root plus the rest is
what was there -/
structure PopOK (cfg : Cfg) (lt : α → α → Bool) : Prop where
  pres : ∀ s : S α, HeapOK (s.lt lt) s.h.data → HeapOK (s.lt lt) (pop cfg (s.lt lt) s.h 0).1.data
  perm : ∀ s : S α, 0 < s.h.len → (s.h.get 0 :: (pop cfg (s.lt lt) s.h 0).1.data).Perm s.h.data

/-- in heap order, `Front` and `Pop` return one and the same held element, minimal under the current
comparison among the elements currently held -/
theorem front_pop_min {cfg : Cfg} {lt : α → α → Bool} (ho : OrderOK lt) (s : S α)
    (hh : HeapOK (s.lt lt) s.h.data) (hne : s.h.data ≠ []) :
    ∃ v, step cfg lt s .front = (s, .val v) ∧ (step cfg lt s .pop).2 = .opt (some v) ∧
      v ∈ s.h.data ∧ ∀ x ∈ s.h.data, s.lt lt x v = false := by
  have hpos : 0 < s.h.len := List.length_pos_iff.mpr hne
  refine ⟨s.h.get 0, rfl, ?_, get_mem s.h 0 hpos, ?_⟩
  · simp only [step, if_neg (Nat.ne_of_gt hpos)]
    exact congrArg (fun v => Out.opt (some v)) (pop_out cfg (s.lt lt) s.h 0)
  · exact heap_root_min_mem (orderOK_dir ho s) s.h ((heapOK_iff _ _).mp hh)

/-- draining: `Pop` until empty (at most `fuel` times) -/
def drain (cfg : Cfg) (lt : α → α → Bool) : Nat → S α → List α
  | 0, _ => []
  | f + 1, s =>
    match (step cfg lt s .pop).2 with
    | .opt (some v) => v :: drain cfg lt f (step cfg lt s .pop).1
    | _ => []

/-- draining a heap yields a non-decreasing sequence of held elements … -/
theorem drain_sorted {cfg : Cfg} {lt : α → α → Bool} (ho : OrderOK lt) (hp : PopOK (α := α) cfg lt)
    (f : Nat) (s : S α) (hh : HeapOK (s.lt lt) s.h.data) :
    (drain cfg lt f s).Pairwise (fun a b => s.lt lt b a = false) ∧
    ∀ v ∈ drain cfg lt f s, v ∈ s.h.data := by
  induction f generalizing s with
  | zero => exact ⟨List.Pairwise.nil, fun v hv => by simp [drain] at hv⟩
  | succ f ih =>
    by_cases hne : s.h.data = []
    · have h0 : s.h.len = 0 := by simp [H.len, hne]
      have : drain cfg lt (f + 1) s = [] := by simp [drain, step, h0]
      rw [this]; exact ⟨List.Pairwise.nil, fun v hv => by simp at hv⟩
    · obtain ⟨v, _, hpop, hv, hmin⟩ := front_pop_min (cfg := cfg) ho s hh hne
      have hpos : 0 < s.h.len := List.length_pos_iff.mpr hne
      have hd : drain cfg lt (f + 1) s = v :: drain cfg lt f (step cfg lt s .pop).1 := by
        simp only [drain, hpop]
      have hperm := hp.perm s hpos
      have hstate : (step cfg lt s .pop).1 = { s with h := (pop cfg (s.lt lt) s.h 0).1 } := by
        simp only [step, if_neg (Nat.ne_of_gt hpos)]
      have hsub : ∀ x ∈ (step cfg lt s .pop).1.h.data, x ∈ s.h.data := by
        rw [hstate]; exact fun x hx => hperm.subset (List.mem_cons_of_mem _ hx)
      have := ih (step cfg lt s .pop).1 (by rw [hstate]; exact hp.pres s hh)
      have hlt : (step cfg lt s .pop).1.lt lt = s.lt lt := by rw [hstate]; rfl
      rw [hlt] at this
      rw [hd]
      refine ⟨List.pairwise_cons.mpr ⟨fun b hb => hmin b (hsub b (this.2 b hb)), this.1⟩, ?_⟩
      intro x hx
      rcases List.mem_cons.mp hx with rfl | hx
      · exact hv
      · exact hsub x (this.2 x hx)

/-- … and, given enough fuel, all of them -/
theorem drain_perm {cfg : Cfg} {lt : α → α → Bool} (hp : PopOK (α := α) cfg lt) (f : Nat) (s : S α)
    (hf : s.h.len ≤ f) : (drain cfg lt f s).Perm s.h.data := by
  induction f generalizing s with
  | zero =>
    have : s.h.data = [] := List.length_eq_zero_iff.mp (by simp only [H.len] at hf; omega)
    rw [this]; exact Perm.refl _
  | succ f ih =>
    by_cases h0 : s.h.len = 0
    · have hd : s.h.data = [] := List.length_eq_zero_iff.mp h0
      have : drain cfg lt (f + 1) s = [] := by simp [drain, step, h0]
      rw [this, hd]
    · have hpos : 0 < s.h.len := Nat.pos_of_ne_zero h0
      have hpop : (step cfg lt s .pop).2 = .opt (some (s.h.get 0)) := by
        simp only [step, if_neg h0]
        exact congrArg (fun v => Out.opt (some v)) (pop_out cfg (s.lt lt) s.h 0)
      have hd : drain cfg lt (f + 1) s = s.h.get 0 :: drain cfg lt f (step cfg lt s .pop).1 := by
        simp only [drain, hpop]
      have hstate : (step cfg lt s .pop).1 = { s with h := (pop cfg (s.lt lt) s.h 0).1 } := by
        simp only [step, if_neg h0]
      have hperm := hp.perm s hpos
      have hlen : (step cfg lt s .pop).1.h.len ≤ f := by
        rw [hstate]
        have := hperm.length_eq
        simp only [H.len, List.length_cons] at this hf ⊢; omega
      rw [hd]
      refine ((ih _ hlen).cons _).trans ?_
      rw [hstate]; exact hperm

def runS (cfg : Cfg) (lt : α → α → Bool) (s : S α) (ops : List (Op α)) : S α :=
  ops.foldl (fun s op => (step cfg lt s op).1) s

section Order
variable {cfg : Cfg} (hs : CfgStd cfg) {lt : α → α → Bool} (ho : OrderOK lt)
include hs ho

/-- `Pop` and `Remove(0)` **preserve** heap order -/
theorem C05_pop_preserves (s : S α) (hh : HeapOK (s.lt lt) s.h.data) :
    (let s' := (step cfg lt s .pop).1; HeapOK (s'.lt lt) s'.h.data) ∧
    (let s' := (step cfg lt s (.remove 0)).1; HeapOK (s'.lt lt) s'.h.data) := by
  have key : HeapOK (s.lt lt) (pop cfg (s.lt lt) s.h 0).1.data := by
    rw [heapOK_iff] at hh ⊢
    exact pop0_heap hs (orderOK_dir ho s) s.h hh
  refine ⟨?_, ?_⟩
  · simp only [step]; split
    · exact hh
    · exact key
  · simp only [step]; split
    · exact hh
    · exact key

/-- one allowed operation keeps heap order (w.r.t. the comparison then installed) -/
theorem step_heapOK (s : S α) (op : Op α) (ha : allowedOp op = true)
    (hh : HeapOK (s.lt lt) s.h.data) :
    HeapOK ((step cfg lt s op).1.lt lt) (step cfg lt s op).1.h.data := by
  cases op with
  | add v => simp [allowedOp] at ha
  | pop => exact (C05_pop_preserves hs ho s hh).1
  | remove i =>
    cases i with
    | zero => exact (C05_pop_preserves hs ho s hh).2
    | succ i => simp [allowedOp] at ha
  | set vs => exact (C05_establish hs.toCfgLayout ho s).2.1 vs
  | reorder rev => exact (C05_establish hs.toCfgLayout ho s).2.2.1 rev
  | clear => exact (C05_establish hs.toCfgLayout ho s).2.2.2
  | newWithData vs rev => exact (C05_establish hs.toCfgLayout ho s).1 vs rev
  | front => exact hh
  | peek i => exact hh
  | len => exact hh

theorem popOK_std : PopOK (α := α) cfg lt where
  pres := fun s hh => by
    rw [heapOK_iff] at hh ⊢
    exact pop0_heap hs (orderOK_dir ho s) s.h hh
  perm := fun s hpos => pop0_perm hs (s.lt lt) s.h hpos

/-- **C05, the part that holds of the pinned code**: after every history over
`NewWithData, Set, Reorder, Pop, Remove 0, Clear, Front, Peek, Len` (no `Add`, no interior
`Remove`), from the empty queue or any state in heap order: the array is in heap order for the
comparison currently installed; if it is non-empty, `Front` and `Pop` return one and the same held
element, minimal among those held; draining yields a non-decreasing sequence, a permutation of
what is held. -/
theorem C05_partial_order (ops : List (Op α)) (hall : ∀ op ∈ ops, allowedOp op = true) (s0 : S α)
    (h0 : HeapOK (s0.lt lt) s0.h.data) :
    let s := runS cfg lt s0 ops
    HeapOK (s.lt lt) s.h.data ∧
    (s.h.data ≠ [] → ∃ v, step cfg lt s .front = (s, .val v) ∧ (step cfg lt s .pop).2 = .opt (some v) ∧
      v ∈ s.h.data ∧ ∀ x ∈ s.h.data, s.lt lt x v = false) ∧
    (∀ f, (drain cfg lt f s).Pairwise (fun a b => s.lt lt b a = false)) ∧
    (drain cfg lt s.h.len s).Perm s.h.data := by
  have inv : HeapOK ((runS cfg lt s0 ops).lt lt) (runS cfg lt s0 ops).h.data := by
    induction ops generalizing s0 with
    | nil => exact h0
    | cons op ops ih =>
      exact ih (fun o ho' => hall o (List.mem_cons_of_mem _ ho')) _
        (step_heapOK hs ho s0 op (hall op List.mem_cons_self) h0)
  exact ⟨inv, front_pop_min ho _ inv, fun f => (drain_sorted ho (popOK_std hs ho) f _ inv).1,
    drain_perm (popOK_std hs ho) _ _ (Nat.le_refl _)⟩

/-! ### the wider, state-dependent fragment: also `Remove` of the last slot and `Add` of a maximum -/

/-- operations that provably keep heap order on the pinned code, given the current state: everything of
`allowedOp`, plus `Remove i` with `i + 1 ≥ len` (the **last** slot — no element moves, no sift — or out of
range) or `i ≤ 2` (the new parent of the moved element is the root: no sift-up is needed), plus `Add v` of
an element that is not smaller than any held one (`pushUp`'s one comparison fails, whatever the parent
index is: monotone insertion never reaches F1) -/
def allowedAt (lt : α → α → Bool) (s : S α) : Op α → Bool
  | .add v => s.h.data.all (fun x => !(s.lt lt) v x)
  | .remove i => decide (i ≤ 2) || decide (s.h.len ≤ i + 1)
  | _ => true

/-- every operation of the history is allowed in the state in which it is executed -/
def allowedRun (cfg : Cfg) (lt : α → α → Bool) : S α → List (Op α) → Bool
  | _, [] => true
  | s, op :: ops => allowedAt lt s op && allowedRun cfg lt (step cfg lt s op).1 ops

omit hs ho [Inhabited α] in
theorem allowedAt_of_allowedOp (s : S α) (op : Op α) (h : allowedOp op = true) : allowedAt lt s op = true := by
  cases op with
  | add v => simp [allowedOp] at h
  | remove i =>
    cases i with
    | zero => simp [allowedAt]
    | succ i => simp [allowedOp] at h
  | _ => rfl

omit hs ho in
/-- the state-independent fragment of `C05_partial_order` is contained in the wider one -/
theorem allowedRun_of_allowedOp (ops : List (Op α)) (hall : ∀ op ∈ ops, allowedOp op = true) (s : S α) :
    allowedRun cfg lt s ops = true := by
  induction ops generalizing s with
  | nil => rfl
  | cons op ops ih =>
    simp only [allowedRun, allowedAt_of_allowedOp s op (hall op List.mem_cons_self), Bool.true_and]
    exact ih (fun o ho' => hall o (List.mem_cons_of_mem _ ho')) _

/-- one operation of the wider fragment keeps heap order -/
theorem step_heapOK_wide (hc : CfgOK cfg) (s : S α) (op : Op α) (ha : allowedAt lt s op = true)
    (hh : HeapOK (s.lt lt) s.h.data) :
    HeapOK ((step cfg lt s op).1.lt lt) (step cfg lt s op).1.h.data := by
  cases op with
  | add v =>
    show HeapOK (s.lt lt) (add cfg (s.lt lt) s.h v).1.data
    rw [heapOK_iff] at hh ⊢
    refine add_max_heap hc s.h v ?_ hh
    intro x hx
    simp only [allowedAt, List.all_eq_true, Bool.not_eq_true'] at ha
    exact ha x hx
  | remove i =>
    simp only [allowedAt, Bool.or_eq_true, decide_eq_true_eq] at ha
    rcases ha with h2 | hlast
    · simp only [step]
      split
      · exact hh
      · rename_i hlt
        show HeapOK (s.lt lt) (pop cfg (s.lt lt) s.h i).1.data
        rw [heapOK_iff] at hh ⊢
        exact pop_shallow_heap hs (orderOK_dir ho s) s.h i (by omega) h2 hh
    · simp only [step]
      split
      · exact hh
      · rename_i hlt
        show HeapOK (s.lt lt) (pop cfg (s.lt lt) s.h i).1.data
        rw [heapOK_iff] at hh ⊢
        exact pop_last_heap hs.toCfgLayout.left_gt s.h i (by omega) hh
  | pop => exact (C05_pop_preserves hs ho s hh).1
  | set vs => exact (C05_establish hs.toCfgLayout ho s).2.1 vs
  | reorder rev => exact (C05_establish hs.toCfgLayout ho s).2.2.1 rev
  | clear => exact (C05_establish hs.toCfgLayout ho s).2.2.2
  | newWithData vs rev => exact (C05_establish hs.toCfgLayout ho s).1 vs rev
  | front => exact hh
  | peek i => exact hh
  | len => exact hh

/-- **C05, the wider part that holds of the pinned code** (F1 and F2 present): the conclusions of
`C05_partial_order` on every history each of whose operations is, in the state in which it is executed,
one of `NewWithData, Set, Reorder, Pop, Clear, Front, Peek, Len`, `Remove i` with `i ≤ 2` or `i + 1 ≥ len`
(root, a child of the root, last slot, out of range), or `Add v` with `v` not smaller than any held element (`allowedRun`).
Contains the fragment of `C05_partial_order` (`allowedRun_of_allowedOp`). -/
theorem C05_partial_order_wide (hc : CfgOK cfg) (ops : List (Op α)) (s0 : S α)
    (hall : allowedRun cfg lt s0 ops = true) (h0 : HeapOK (s0.lt lt) s0.h.data) :
    let s := runS cfg lt s0 ops
    HeapOK (s.lt lt) s.h.data ∧
    (s.h.data ≠ [] → ∃ v, step cfg lt s .front = (s, .val v) ∧ (step cfg lt s .pop).2 = .opt (some v) ∧
      v ∈ s.h.data ∧ ∀ x ∈ s.h.data, s.lt lt x v = false) ∧
    (∀ f, (drain cfg lt f s).Pairwise (fun a b => s.lt lt b a = false)) ∧
    (drain cfg lt s.h.len s).Perm s.h.data := by
  have inv : HeapOK ((runS cfg lt s0 ops).lt lt) (runS cfg lt s0 ops).h.data := by
    induction ops generalizing s0 with
    | nil => exact h0
    | cons op ops ih =>
      simp only [allowedRun, Bool.and_eq_true] at hall
      exact ih _ hall.2 (step_heapOK_wide hs ho hc s0 op hall.1 h0)
  exact ⟨inv, front_pop_min ho _ inv, fun f => (drain_sorted ho (popOK_std hs ho) f _ inv).1,
    drain_perm (popOK_std hs ho) _ _ (Nat.le_refl _)⟩

/-- **`heapq.Sort` leaves its argument a sorted permutation of the input** -/
theorem sort_correct (vs : List α) :
    (sort cfg lt vs).Perm vs ∧ (sort cfg lt vs).Pairwise (fun a b => lt b a = false) :=
  ⟨(sort_spec hs ho vs).2, (sort_spec hs ho vs).1⟩

end Order

/-! ## 3. the recorded defects, on the model the driver executes -/

/-- the configuration of the pinned source, written out -/
def pinned : Cfg :=
  { parent := fun i => i / 2, left := fun i => 2 * i + 1, right := fun lc => lc + 1,
    heapifyStart := fun n => n / 2, popSiftsUp := false }

def minimalIn (lt : α → α → Bool) (data : List α) (v : α) : Bool := data.all (fun x => !lt x v)

/-- does every successful `Pop` of the history return a minimal held element? -/
def allPopsMinimal (cfg : Cfg) (lt : α → α → Bool) : S α → List (Op α) → Bool
  | _, [] => true
  | s, op :: ops =>
    (match op, (step cfg lt s op).2 with
      | .pop, .opt (some v) => minimalIn (s.lt lt) s.h.data v
      | _, _ => true) && allPopsMinimal cfg lt (step cfg lt s op).1 ops

/-- corpus/C05/F1.ops -/
def f1Ops : List (Op Nat) :=
  [.newWithData [] false, .add 60, .add 20, .add 90, .add 21, .add 30, .pop, .add 31, .add 91, .add 92,
   .pop, .pop, .pop]

/-- corpus/C05/F2.ops (no `Add`) -/
def f2Ops : List (Op Nat) :=
  [.newWithData [0, 60, 1, 2, 61, 70, 30, 40, 62, 50, 41, 3, 42, 31, 4, 51, 43, 52, 53, 5, 32, 33] true,
   .pop, .pop, .remove 17, .remove 13, .remove 2, .pop, .pop, .pop, .pop, .pop, .pop]

/-- **F1**: after `Add` into deeper levels a `Pop` returns a non-minimal element -/
theorem C05_F1_witness : allPopsMinimal pinned Drv.C05.ltKey {} f1Ops = false := by decide

/-- **F2**: after interior `Remove`s (no `Add` anywhere) a `Pop` returns a non-minimal element -/
theorem C05_F2_witness : allPopsMinimal pinned Drv.C05.ltKey {} f2Ops = false := by decide

/-- F1 is the only culprit of the first history: with `parent i = (i-1)/2` all pops are minimal -/
example : allPopsMinimal { pinned with parent := fun i => (i - 1) / 2 } Drv.C05.ltKey {} f1Ops = true := by
  decide

/-! ## 4. the current source -/

/-- the driver's comparison (`v / 10`) is a total preorder in which distinct elements can be
equivalent: the order hypotheses are satisfiable -/
theorem ltKey_order : OrderOK Drv.C05.ltKey where
  le_total := fun a b => by simp only [le, Drv.C05.ltKey, Bool.not_eq_true', decide_eq_false_iff_not]; omega
  le_trans := fun a b c => by
    simp only [le, Drv.C05.ltKey, Bool.not_eq_true', decide_eq_false_iff_not]; omega

theorem pinned_ok : CfgOK pinned where
  parent_lt := fun i hi => by simp only [pinned]; omega
  left_gt := fun i => by simp only [pinned]; omega

theorem pinned_std : CfgStd pinned where
  left_eq := fun _ => rfl
  right_eq := fun _ => rfl
  start_ge := fun n => by simp only [pinned]; omega
  noSiftUp := rfl

/-- **The obligation on the current source.**  The index arithmetic regenerated from heapq.go by
`extract/heapq.go` is, pointwise, the pinned configuration (F1 and F2 present) — proved by computation
(`gen_fact`), so `2*i + 1` and `i*2 + 1` both qualify.  If the Go code is changed so that an index changes
for some `i`, `Gen.Heapq` changes and this theorem no longer compiles. -/
theorem C05_current :
    (∀ i, Gen.Heapq.parentIdx i = i / 2) ∧ (∀ i, Gen.Heapq.leftIdx i = 2 * i + 1) ∧
    (∀ lc, Gen.Heapq.rightOfLeft lc = lc + 1) ∧ (∀ n, Gen.Heapq.heapifyStart n = n / 2) ∧
    Gen.Heapq.popSiftsUp = false ∧ Gen.Heapq.recognised = true :=
  ⟨by gen_fact Gen.Heapq.parentIdx, by gen_fact Gen.Heapq.leftIdx, by gen_fact Gen.Heapq.rightOfLeft,
   by gen_fact Gen.Heapq.heapifyStart, rfl, rfl⟩

/-- hence the configuration the driver runs **is** `pinned` -/
theorem cfg_eq_pinned : Drv.C05.cfg = pinned := by
  obtain ⟨h1, h2, h3, h4, h5, _⟩ := C05_current
  simp only [Drv.C05.cfg, pinned, Cfg.mk.injEq]
  exact ⟨funext h1, funext h2, funext h3, funext h4, h5⟩

theorem current_ok : CfgOK Drv.C05.cfg := cfg_eq_pinned ▸ pinned_ok
theorem current_std : CfgStd Drv.C05.cfg := cfg_eq_pinned ▸ pinned_std

section Current
variable [DecidableEq α]

theorem C05_conservation_current (lt : α → α → Bool) (ops : List (Op α)) :
    (runHeld Drv.C05.cfg lt ({} : S α) [] ops).1.h.data.Perm (runHeld Drv.C05.cfg lt ({} : S α) [] ops).2 :=
  C05_conservation current_ok lt ops {} [] (Perm.refl _)

end Current

theorem C05_partial_order_current {lt : α → α → Bool} (ho : OrderOK lt) (ops : List (Op α))
    (hall : ∀ op ∈ ops, allowedOp op = true) :
    let s := runS Drv.C05.cfg lt ({} : S α) ops
    HeapOK (s.lt lt) s.h.data ∧
    (s.h.data ≠ [] → ∃ v, step Drv.C05.cfg lt s .front = (s, .val v) ∧
      (step Drv.C05.cfg lt s .pop).2 = .opt (some v) ∧ v ∈ s.h.data ∧ ∀ x ∈ s.h.data, s.lt lt x v = false) ∧
    (∀ f, (drain Drv.C05.cfg lt f s).Pairwise (fun a b => s.lt lt b a = false)) ∧
    (drain Drv.C05.cfg lt s.h.len s).Perm s.h.data :=
  C05_partial_order current_std ho ops hall {}
    (fun i => ⟨fun h => absurd h (by simp), fun h => absurd h (by simp)⟩)

theorem C05_partial_order_wide_current {lt : α → α → Bool} (ho : OrderOK lt) (ops : List (Op α))
    (hall : allowedRun Drv.C05.cfg lt ({} : S α) ops = true) :
    let s := runS Drv.C05.cfg lt ({} : S α) ops
    HeapOK (s.lt lt) s.h.data ∧
    (s.h.data ≠ [] → ∃ v, step Drv.C05.cfg lt s .front = (s, .val v) ∧
      (step Drv.C05.cfg lt s .pop).2 = .opt (some v) ∧ v ∈ s.h.data ∧ ∀ x ∈ s.h.data, s.lt lt x v = false) ∧
    (∀ f, (drain Drv.C05.cfg lt f s).Pairwise (fun a b => s.lt lt b a = false)) ∧
    (drain Drv.C05.cfg lt s.h.len s).Perm s.h.data :=
  C05_partial_order_wide current_std ho current_ok ops {} hall
    (fun i => ⟨fun h => absurd h (by simp), fun h => absurd h (by simp)⟩)

theorem sort_correct_current {lt : α → α → Bool} (ho : OrderOK lt) (vs : List α) :
    (sort Drv.C05.cfg lt vs).Perm vs ∧ (sort Drv.C05.cfg lt vs).Pairwise (fun a b => lt b a = false) :=
  sort_correct current_std ho vs

/-- the two findings hold of the configuration the driver runs -/
theorem C05_findings_current :
    allPopsMinimal Drv.C05.cfg Drv.C05.ltKey {} f1Ops = false ∧
    allPopsMinimal Drv.C05.cfg Drv.C05.ltKey {} f2Ops = false := by
  rw [cfg_eq_pinned]; exact ⟨C05_F1_witness, C05_F2_witness⟩

/-! ## 5. `C05_full`: the whole ordering claim, for the repaired configuration

`CfgRepaired`: standard child layout, `parent i = (i-1)/2`, and `pop(i)` sifts up when the moved
element did not go down (guarded by `i < n`, see the model).  For it the ordering clause of C05
holds on **every** history.  It is false for the pinned configuration (`C05_F1_witness`,
`C05_F2_witness`).  This theorem says nothing about the current source (`C05_current` pins that);
it records that the two findings are the only obstacles. -/
section Full
variable {cfg : Cfg} (hr : CfgRepaired cfg) {lt : α → α → Bool} (ho : OrderOK lt)
include hr ho

theorem popOK_repaired : PopOK (α := α) cfg lt where
  pres := fun s hh => by
    by_cases h0 : 0 < s.h.len
    · rw [heapOK_iff] at hh ⊢
      exact pop_heap hr (orderOK_dir ho s) s.h 0 h0 hh
    · have hlen : s.h.len - 1 = 0 := by omega
      rw [pop_eq, if_pos hlen]
      intro i; exact ⟨fun h => absurd h (by simp), fun h => absurd h (by simp)⟩
  perm := fun s hpos => by
    have := pop_perm hr.ok (s.lt lt) s.h 0 hpos
    rwa [pop_out] at this

/-- every operation keeps heap order (w.r.t. the comparison then installed) -/
theorem step_heapOK_full (s : S α) (op : Op α) (hh : HeapOK (s.lt lt) s.h.data) :
    HeapOK ((step cfg lt s op).1.lt lt) (step cfg lt s op).1.h.data := by
  cases op with
  | add v =>
    show HeapOK (s.lt lt) (add cfg (s.lt lt) s.h v).1.data
    rw [heapOK_iff] at hh ⊢
    exact add_heap hr (orderOK_dir ho s) s.h v hh
  | pop =>
    simp only [step]; split
    · exact hh
    · show HeapOK (s.lt lt) (pop cfg (s.lt lt) s.h 0).1.data
      rw [heapOK_iff] at hh ⊢
      exact pop_heap hr (orderOK_dir ho s) s.h 0 (by omega) hh
  | remove i =>
    simp only [step]; split
    · exact hh
    · show HeapOK (s.lt lt) (pop cfg (s.lt lt) s.h i).1.data
      rw [heapOK_iff] at hh ⊢
      exact pop_heap hr (orderOK_dir ho s) s.h i (by omega) hh
  | set vs => exact (C05_establish hr.toCfgLayout ho s).2.1 vs
  | reorder rev => exact (C05_establish hr.toCfgLayout ho s).2.2.1 rev
  | clear => exact (C05_establish hr.toCfgLayout ho s).2.2.2
  | newWithData vs rev => exact (C05_establish hr.toCfgLayout ho s).1 vs rev
  | front => exact hh
  | peek i => exact hh
  | len => exact hh

/-- **C05 (ordering), repaired configuration**: after every history of `Add, Pop, Remove(i), Set,
Reorder, Clear, NewWithData` (and the observers), in both comparison directions and with changes of
comparison in mid-life: heap order holds, `Front` and `Pop` return a minimal held element, draining
yields a non-decreasing sequence that is a permutation of what is held. -/
theorem C05_full (ops : List (Op α)) (s0 : S α) (h0 : HeapOK (s0.lt lt) s0.h.data) :
    let s := runS cfg lt s0 ops
    HeapOK (s.lt lt) s.h.data ∧
    (s.h.data ≠ [] → ∃ v, step cfg lt s .front = (s, .val v) ∧ (step cfg lt s .pop).2 = .opt (some v) ∧
      v ∈ s.h.data ∧ ∀ x ∈ s.h.data, s.lt lt x v = false) ∧
    (∀ f, (drain cfg lt f s).Pairwise (fun a b => s.lt lt b a = false)) ∧
    (drain cfg lt s.h.len s).Perm s.h.data := by
  have inv : HeapOK ((runS cfg lt s0 ops).lt lt) (runS cfg lt s0 ops).h.data := by
    induction ops generalizing s0 with
    | nil => exact h0
    | cons op ops ih => exact ih _ (step_heapOK_full hr ho s0 op h0)
  exact ⟨inv, front_pop_min ho _ inv, fun f => (drain_sorted ho (popOK_repaired hr ho) f _ inv).1,
    drain_perm (popOK_repaired hr ho) _ _ (Nat.le_refl _)⟩

end Full

/-- the repaired configuration, written out -/
def repaired : Cfg := { pinned with parent := fun i => (i - 1) / 2, popSiftsUp := true }

theorem repaired_ok : CfgRepaired repaired where
  left_eq := fun _ => rfl
  right_eq := fun _ => rfl
  start_ge := fun n => by simp only [repaired, pinned]; omega
  parent_eq := fun _ => rfl
  siftUp := rfl

/-- non-vacuity: on the repaired configuration both witness histories (and removal of the last
slot) pop only minimal elements -/
example : allPopsMinimal repaired Drv.C05.ltKey {} (f1Ops ++ f2Ops ++ [.remove 6, .pop]) = true := by decide

/-! ## 6. the disjunctive obligation on the current source (DESIGN.md §5)

`C05_current` above is a hard pin: it stops compiling as soon as heapq.go changes shape, *also* when the
change is a genuine repair of F1/F2.  `C05_verdict` is the obligation DESIGN.md §5 promised: it accepts
exactly two shapes of the regenerated configuration — the pinned one (then: the partial theorem and the two
witnesses) or a repaired one (then: the full theorem) — and fails to elaborate for any third shape. -/

/-- the ordering claim at the end of a history from `s0` -/
def OrderedAfter (cfg : Cfg) (lt : α → α → Bool) (s0 : S α) (ops : List (Op α)) : Prop :=
  let s := runS cfg lt s0 ops
  HeapOK (s.lt lt) s.h.data ∧
  (s.h.data ≠ [] → ∃ v, step cfg lt s .front = (s, .val v) ∧ (step cfg lt s .pop).2 = .opt (some v) ∧
    v ∈ s.h.data ∧ ∀ x ∈ s.h.data, s.lt lt x v = false) ∧
  (∀ f, (drain cfg lt f s).Pairwise (fun a b => s.lt lt b a = false)) ∧
  (drain cfg lt s.h.len s).Perm s.h.data

/-- the whole ordering clause of C05: on **every** history -/
def Full (cfg : Cfg) : Prop :=
  ∀ (α : Type) [Inhabited α] (lt : α → α → Bool), OrderOK lt → ∀ (ops : List (Op α)) (s0 : S α),
    HeapOK (s0.lt lt) s0.h.data → OrderedAfter cfg lt s0 ops

/-- the part that does not depend on the defects: on every history of the wider fragment (`allowedRun`) -/
def Partial (cfg : Cfg) : Prop :=
  ∀ (α : Type) [Inhabited α] (lt : α → α → Bool), OrderOK lt → ∀ (ops : List (Op α)) (s0 : S α),
    allowedRun cfg lt s0 ops = true → HeapOK (s0.lt lt) s0.h.data → OrderedAfter cfg lt s0 ops

/-- the two recorded witnesses fail on the configuration -/
def Witnessed (cfg : Cfg) : Prop :=
  allPopsMinimal cfg Drv.C05.ltKey {} f1Ops = false ∧ allPopsMinimal cfg Drv.C05.ltKey {} f2Ops = false

/-- pointwise: the configuration is the pinned one (F1: `parent i = i / 2`; F2: no sift-up in `pop`) -/
def IsPinned (cfg : Cfg) : Prop :=
  (∀ i, cfg.parent i = i / 2) ∧ (∀ i, cfg.left i = 2 * i + 1) ∧ (∀ lc, cfg.right lc = lc + 1) ∧
  (∀ n, cfg.heapifyStart n = n / 2) ∧ cfg.popSiftsUp = false

/-- pointwise: the configuration is a repaired one (`parent i = (i-1)/2`, sift-up in `pop`) -/
abbrev IsRepaired (cfg : Cfg) : Prop := CfgRepaired cfg

def Verdict (cfg : Cfg) : Prop :=
  (IsRepaired cfg ∧ Full cfg) ∨ (IsPinned cfg ∧ Partial cfg ∧ Witnessed cfg)

theorem isPinned_eq {cfg : Cfg} (h : IsPinned cfg) : cfg = pinned := by
  obtain ⟨h1, h2, h3, h4, h5⟩ := h
  cases cfg
  simp only [pinned, Cfg.mk.injEq]
  exact ⟨funext h1, funext h2, funext h3, funext h4, h5⟩

theorem verdict_of_pinned (cfg : Cfg) (h : IsPinned cfg) : Verdict cfg := by
  have e := isPinned_eq h
  subst e
  exact Or.inr ⟨h, fun _ _ _ ho ops s0 hall h0 => C05_partial_order_wide pinned_std ho pinned_ok ops s0 hall h0,
    C05_F1_witness, C05_F2_witness⟩

theorem verdict_of_repaired (cfg : Cfg) (h : IsRepaired cfg) : Verdict cfg :=
  Or.inl ⟨h, fun _ _ _ ho ops s0 h0 => C05_full h ho ops s0 h0⟩

/-- **The disjunctive obligation on the current source.**  Today heapq.go is the pinned code, so the
right-hand disjunct is proved (`IsPinned Drv.C05.cfg` holds by `rfl` on the regenerated definitions).

*When heapq.go is repaired* (parent `(i-1)/2`, `pop` sifts up), this proof no longer elaborates; replace it by

    verdict_of_repaired _ ⟨⟨fun _ => rfl, fun _ => rfl, fun n => by show n ≤ 2 * (n / 2) + 3; omega⟩,
      fun _ => rfl, rfl⟩

(a two-line change: the left-hand disjunct, i.e. `C05_full` at the regenerated configuration), remove the
hard pin `C05_current` and its `*_current` corollaries from the obligation list of props/C05.json (they state
that F1/F2 are present), set the findings F1/F2 to `fixed` in known_findings.json, and use
`C08_full_repaired` for the cache.  Any third shape of the code satisfies neither disjunct: a broken
obligation, and the search for a failing input starts. -/
theorem C05_verdict : Gen.Heapq.recognised = true ∧ Verdict Drv.C05.cfg :=
  ⟨rfl, verdict_of_pinned _ ⟨fun _ => rfl, fun _ => rfl, fun _ => rfl, fun _ => rfl, rfl⟩⟩

/-- the left-hand disjunct is not vacuous: it is proved for the written-out repaired configuration -/
theorem C05_verdict_repaired : Verdict repaired :=
  verdict_of_repaired _ ⟨⟨fun _ => rfl, fun _ => rfl, fun n => by show n ≤ 2 * (n / 2) + 3; omega⟩,
    fun _ => rfl, rfl⟩

/-! ## non-vacuity -/

/-- a history of the defect-free fragment with a change of direction, on equivalent-but-distinct keys -/
def exOps : List (Op Nat) :=
  [.newWithData [52, 17, 33, 91, 15, 70, 34, 8] false, .pop, .remove 0, .reorder true, .pop,
   .set [41, 12, 77, 13, 58, 90], .pop, .front]

example : ∀ op ∈ exOps, allowedOp op = true := by decide
example : (runS Drv.C05.cfg Drv.C05.ltKey {} exOps).h.data = [77, 58, 41, 13, 12] := by decide
example : drain Drv.C05.cfg Drv.C05.ltKey 9 (runS Drv.C05.cfg Drv.C05.ltKey {} exOps) = [77, 58, 41, 13, 12] := by
  decide
example : (runHeld Drv.C05.cfg Drv.C05.ltKey {} [] (f1Ops ++ f2Ops ++ [.remove 3, .add 7])).2.length = 11 := by
  decide
example : sort Drv.C05.cfg Drv.C05.ltKey [52, 17, 33, 91, 15, 70, 34, 8] = [8, 15, 17, 33, 34, 52, 70, 91] := by
  decide

/-- a history of the wider fragment: monotone `Add`s into deeper levels (through the F1 parent index),
removal of the last slot and out of range, `Pop`s in between; it is not in the old fragment, and both
witness histories are outside the wider one -/
def wideOps : List (Op Nat) :=
  [.add 10, .add 20, .add 21, .add 30, .add 45, .add 50, .add 51, .add 60, .remove 7, .pop, .add 70, .remove 9,
   .remove 6, .pop, .add 80, .add 85, .remove 2, .remove 1, .front]

example : allowedRun Drv.C05.cfg Drv.C05.ltKey {} wideOps = true ∧
    (∃ op ∈ wideOps, allowedOp op = false) ∧
    (runS Drv.C05.cfg Drv.C05.ltKey {} wideOps).h.data = [21, 45, 85, 51, 80] ∧
    allowedRun Drv.C05.cfg Drv.C05.ltKey {} f1Ops = false ∧
    allowedRun Drv.C05.cfg Drv.C05.ltKey {} f2Ops = false := by decide

end MdsVerif.Props.C05
