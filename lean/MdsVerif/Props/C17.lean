import MdsVerif.Model.Slice
import MdsVerif.Spec.Slices
